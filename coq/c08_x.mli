
val negb : bool -> bool

type nat =
| O
| S of nat

val fst : ('a1 * 'a2) -> 'a1

val snd : ('a1 * 'a2) -> 'a2

val app : 'a1 list -> 'a1 list -> 'a1 list

type comparison =
| Eq
| Lt
| Gt

val add : nat -> nat -> nat

type positive =
| XI of positive
| XO of positive
| XH

type n =
| N0
| Npos of positive

module Pos :
 sig
  type mask =
  | IsNul
  | IsPos of positive
  | IsNeg
 end

module Coq_Pos :
 sig
  val succ : positive -> positive

  val add : positive -> positive -> positive

  val add_carry : positive -> positive -> positive

  val pred_double : positive -> positive

  val pred_N : positive -> n

  type mask = Pos.mask =
  | IsNul
  | IsPos of positive
  | IsNeg

  val succ_double_mask : mask -> mask

  val double_mask : mask -> mask

  val double_pred_mask : positive -> mask

  val sub_mask : positive -> positive -> mask

  val sub_mask_carry : positive -> positive -> mask

  val mul : positive -> positive -> positive

  val iter : ('a1 -> 'a1) -> 'a1 -> positive -> 'a1

  val compare_cont : comparison -> positive -> positive -> comparison

  val compare : positive -> positive -> comparison

  val eqb : positive -> positive -> bool

  val coq_Nsucc_double : n -> n

  val coq_Ndouble : n -> n

  val coq_land : positive -> positive -> n

  val coq_lxor : positive -> positive -> n

  val testbit : positive -> n -> bool

  val iter_op : ('a1 -> 'a1 -> 'a1) -> positive -> 'a1 -> 'a1

  val to_nat : positive -> nat

  val of_succ_nat : nat -> positive
 end

module N :
 sig
  val succ_double : n -> n

  val double : n -> n

  val succ : n -> n

  val pred : n -> n

  val add : n -> n -> n

  val sub : n -> n -> n

  val mul : n -> n -> n

  val compare : n -> n -> comparison

  val eqb : n -> n -> bool

  val leb : n -> n -> bool

  val ltb : n -> n -> bool

  val max : n -> n -> n

  val div2 : n -> n

  val pos_div_eucl : positive -> n -> n * n

  val div_eucl : n -> n -> n * n

  val div : n -> n -> n

  val modulo : n -> n -> n

  val coq_land : n -> n -> n

  val coq_lxor : n -> n -> n

  val shiftr : n -> n -> n

  val testbit : n -> n -> bool

  val to_nat : n -> nat

  val of_nat : nat -> n
 end

val nth : nat -> 'a1 list -> 'a1 -> 'a1

val map : ('a1 -> 'a2) -> 'a1 list -> 'a2 list

val fold_left : ('a1 -> 'a2 -> 'a1) -> 'a2 list -> 'a1 -> 'a1

val existsb : ('a1 -> bool) -> 'a1 list -> bool

val firstn : nat -> 'a1 list -> 'a1 list

val skipn : nat -> 'a1 list -> 'a1 list

val seq : nat -> nat -> nat list

val crc_poly : n

val crc_xor : n

val sYNC0 : n

val sYNC1 : n

val mAX_EXPECTED_SIZE_BYTES : n

val hEADER_SIZE : nat

val fI_TIME_INVALID : n

val fI_INT_MAX : n

val fI_SIZE_MAX : n

val le : n list -> n

val sub0 : n list -> nat -> nat -> n list

val step_bit : n -> n

val step8 : n -> n

val range256 : n list

val crc_table : n list

val table_lookup : n -> n

val upd_table : n -> n -> n

val crc_fold : (n -> n -> n) -> n -> n list -> n

val crc32_from_with : (n -> n -> n) -> n -> n list -> n

val crc32_from : n -> n list -> n

val crc32 : n list -> n

type header = { h_sync0 : n; h_sync1 : n; h_reserved : n; h_crc : n;
                h_proto : n; h_msgver : n; h_type : n; h_seq : n;
                h_psize : n; h_source : n }

val parse_header : n list -> header

val fi_take : n -> 'a1 list -> 'a1 list

val fi_drop : n -> 'a1 list -> 'a1 list

val fi_has : n -> 'a1 list -> bool

val fi_len_acc : 'a1 list -> n -> n

val fi_len : 'a1 list -> n

type fi_cfg = { c_lencheck : bool; c_timeguard : bool; c_wcclamp : bool;
                c_sizewide : bool; c_payslice : bool; c_reportall : bool }

val fi_legacy : fi_cfg

type fi_err =
| ErrNegativeDim
| ErrFromBuffer
| ErrTimeOverflow
| ErrSizeOverflow
| ErrZeroThreads

type 'a fi_res =
| FOk of 'a
| FRaise of fi_err

val tIME_INVALID : n

val sIZE_U2_MAX : n

type fi_raw = { r_int : n; r_type : n; r_off : n; r_size : n }

type fi_entry = { e_time : n option; e_type : n; e_off : n; e_idx : n }

val fi_accept : fi_cfg -> n list -> header option

val fi_time_raw : fi_cfg -> (n * n) option -> n

val fi_payload_view : fi_cfg -> n list -> n -> n list

val fi_syncs : n list -> n -> nat -> (n * n list) list

val fi_process :
  fi_cfg -> (n -> n -> n list -> (n * n) option) -> n -> (n * n list) list ->
  n -> fi_raw list * n

type fi_wc =
| WCount of n
| WBreak
| WRaise of fi_err

val fi_word_count : n -> n -> fi_cfg -> n -> n -> fi_wc

val fi_block_data : n -> n -> n list -> n -> n list

val fi_blocks :
  n -> n -> fi_cfg -> (n -> n -> n list -> (n * n) option) -> n list -> n
  list -> n -> fi_raw list fi_res

val fi_to_array : fi_cfg -> fi_raw list -> fi_raw list fi_res

val fi_worker :
  n -> n -> fi_cfg -> (n -> n -> n list -> (n * n) option) -> n list -> n
  list -> fi_raw list fi_res

val fi_range : n -> n -> nat -> n list

val fi_num_blocks : n -> n -> n

val fi_alloc : n -> n -> n -> nat -> n -> n -> n list list

val fi_block_table : n -> n -> n -> n list list

val fi_gather : fi_raw list fi_res list -> fi_raw list fi_res

val fi_overlap_filter : fi_raw list -> n -> fi_raw list

val fi_greedy : fi_raw list -> n -> fi_raw list

val fi_from_raw : fi_raw list -> n -> fi_entry list

val fi_generate :
  n -> n -> fi_cfg -> (n -> n -> n list -> (n * n) option) -> n list -> n ->
  fi_entry list fi_res

val fi_spec_time : (n * n) option -> n option

val fi_sync_at : n list -> bool

val fi_valid : n list -> header option

val fi_xscan :
  (n -> n -> n list -> (n * n) option) -> n list -> n -> n list -> n ->
  fi_entry list

val fi_spec_x :
  (n -> n -> n list -> (n * n) option) -> n list -> fi_entry list

val fi_cur : fi_cfg
