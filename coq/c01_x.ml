
(** val negb : bool -> bool **)

let negb = function
| true -> false
| false -> true

type nat =
| O
| S of nat

(** val fst : ('a1 * 'a2) -> 'a1 **)

let fst = function
| (x, _) -> x

(** val snd : ('a1 * 'a2) -> 'a2 **)

let snd = function
| (_, y) -> y

(** val length : 'a1 list -> nat **)

let rec length = function
| [] -> O
| _ :: l' -> S (length l')

(** val app : 'a1 list -> 'a1 list -> 'a1 list **)

let rec app l m =
  match l with
  | [] -> m
  | a :: l1 -> a :: (app l1 m)

type comparison =
| Eq
| Lt
| Gt

(** val compOpp : comparison -> comparison **)

let compOpp = function
| Eq -> Eq
| Lt -> Gt
| Gt -> Lt

module Coq__1 = struct
 (** val add : nat -> nat -> nat **)
 let rec add n0 m =
   match n0 with
   | O -> m
   | S p -> S (add p m)
end
include Coq__1

(** val mul : nat -> nat -> nat **)

let rec mul n0 m =
  match n0 with
  | O -> O
  | S p -> add m (mul p m)

(** val sub : nat -> nat -> nat **)

let rec sub n0 m =
  match n0 with
  | O -> n0
  | S k -> (match m with
            | O -> n0
            | S l -> sub k l)

type positive =
| XI of positive
| XO of positive
| XH

type n =
| N0
| Npos of positive

type z =
| Z0
| Zpos of positive
| Zneg of positive

module Nat =
 struct
  (** val eqb : nat -> nat -> bool **)

  let rec eqb n0 m =
    match n0 with
    | O -> (match m with
            | O -> true
            | S _ -> false)
    | S n' -> (match m with
               | O -> false
               | S m' -> eqb n' m')

  (** val leb : nat -> nat -> bool **)

  let rec leb n0 m =
    match n0 with
    | O -> true
    | S n' -> (match m with
               | O -> false
               | S m' -> leb n' m')

  (** val ltb : nat -> nat -> bool **)

  let ltb n0 m =
    leb (S n0) m
 end

module Pos =
 struct
  (** val succ : positive -> positive **)

  let rec succ = function
  | XI p -> XO (succ p)
  | XO p -> XI p
  | XH -> XO XH

  (** val add : positive -> positive -> positive **)

  let rec add x y =
    match x with
    | XI p ->
      (match y with
       | XI q -> XO (add_carry p q)
       | XO q -> XI (add p q)
       | XH -> XO (succ p))
    | XO p ->
      (match y with
       | XI q -> XI (add p q)
       | XO q -> XO (add p q)
       | XH -> XI p)
    | XH -> (match y with
             | XI q -> XO (succ q)
             | XO q -> XI q
             | XH -> XO XH)

  (** val add_carry : positive -> positive -> positive **)

  and add_carry x y =
    match x with
    | XI p ->
      (match y with
       | XI q -> XI (add_carry p q)
       | XO q -> XO (add_carry p q)
       | XH -> XI (succ p))
    | XO p ->
      (match y with
       | XI q -> XO (add_carry p q)
       | XO q -> XI (add p q)
       | XH -> XO (succ p))
    | XH ->
      (match y with
       | XI q -> XI (succ q)
       | XO q -> XO (succ q)
       | XH -> XI XH)

  (** val pred_double : positive -> positive **)

  let rec pred_double = function
  | XI p -> XI (XO p)
  | XO p -> XI (pred_double p)
  | XH -> XH

  (** val pred_N : positive -> n **)

  let pred_N = function
  | XI p -> Npos (XO p)
  | XO p -> Npos (pred_double p)
  | XH -> N0

  (** val mul : positive -> positive -> positive **)

  let rec mul x y =
    match x with
    | XI p -> add y (XO (mul p y))
    | XO p -> XO (mul p y)
    | XH -> y

  (** val iter : ('a1 -> 'a1) -> 'a1 -> positive -> 'a1 **)

  let rec iter f x = function
  | XI n' -> f (iter f (iter f x n') n')
  | XO n' -> iter f (iter f x n') n'
  | XH -> f x

  (** val size : positive -> positive **)

  let rec size = function
  | XI p0 -> succ (size p0)
  | XO p0 -> succ (size p0)
  | XH -> XH

  (** val compare_cont : comparison -> positive -> positive -> comparison **)

  let rec compare_cont r x y =
    match x with
    | XI p ->
      (match y with
       | XI q -> compare_cont r p q
       | XO q -> compare_cont Gt p q
       | XH -> Gt)
    | XO p ->
      (match y with
       | XI q -> compare_cont Lt p q
       | XO q -> compare_cont r p q
       | XH -> Gt)
    | XH -> (match y with
             | XH -> r
             | _ -> Lt)

  (** val compare : positive -> positive -> comparison **)

  let compare =
    compare_cont Eq

  (** val eqb : positive -> positive -> bool **)

  let rec eqb p q =
    match p with
    | XI p0 -> (match q with
                | XI q0 -> eqb p0 q0
                | _ -> false)
    | XO p0 -> (match q with
                | XO q0 -> eqb p0 q0
                | _ -> false)
    | XH -> (match q with
             | XH -> true
             | _ -> false)

  (** val coq_Nsucc_double : n -> n **)

  let coq_Nsucc_double = function
  | N0 -> Npos XH
  | Npos p -> Npos (XI p)

  (** val coq_Ndouble : n -> n **)

  let coq_Ndouble = function
  | N0 -> N0
  | Npos p -> Npos (XO p)

  (** val coq_lor : positive -> positive -> positive **)

  let rec coq_lor p q =
    match p with
    | XI p0 ->
      (match q with
       | XI q0 -> XI (coq_lor p0 q0)
       | XO q0 -> XI (coq_lor p0 q0)
       | XH -> p)
    | XO p0 ->
      (match q with
       | XI q0 -> XI (coq_lor p0 q0)
       | XO q0 -> XO (coq_lor p0 q0)
       | XH -> XI p0)
    | XH -> (match q with
             | XO q0 -> XI q0
             | _ -> q)

  (** val coq_land : positive -> positive -> n **)

  let rec coq_land p q =
    match p with
    | XI p0 ->
      (match q with
       | XI q0 -> coq_Nsucc_double (coq_land p0 q0)
       | XO q0 -> coq_Ndouble (coq_land p0 q0)
       | XH -> Npos XH)
    | XO p0 ->
      (match q with
       | XI q0 -> coq_Ndouble (coq_land p0 q0)
       | XO q0 -> coq_Ndouble (coq_land p0 q0)
       | XH -> N0)
    | XH -> (match q with
             | XO _ -> N0
             | _ -> Npos XH)

  (** val ldiff : positive -> positive -> n **)

  let rec ldiff p q =
    match p with
    | XI p0 ->
      (match q with
       | XI q0 -> coq_Ndouble (ldiff p0 q0)
       | XO q0 -> coq_Nsucc_double (ldiff p0 q0)
       | XH -> Npos (XO p0))
    | XO p0 ->
      (match q with
       | XI q0 -> coq_Ndouble (ldiff p0 q0)
       | XO q0 -> coq_Ndouble (ldiff p0 q0)
       | XH -> Npos p)
    | XH -> (match q with
             | XO _ -> Npos XH
             | _ -> N0)

  (** val iter_op : ('a1 -> 'a1 -> 'a1) -> positive -> 'a1 -> 'a1 **)

  let rec iter_op op p a =
    match p with
    | XI p0 -> op a (iter_op op p0 (op a a))
    | XO p0 -> iter_op op p0 (op a a)
    | XH -> a

  (** val to_nat : positive -> nat **)

  let to_nat x =
    iter_op Coq__1.add x (S O)

  (** val of_succ_nat : nat -> positive **)

  let rec of_succ_nat = function
  | O -> XH
  | S x -> succ (of_succ_nat x)
 end

module N =
 struct
  (** val succ_pos : n -> positive **)

  let succ_pos = function
  | N0 -> XH
  | Npos p -> Pos.succ p

  (** val eqb : n -> n -> bool **)

  let eqb n0 m =
    match n0 with
    | N0 -> (match m with
             | N0 -> true
             | Npos _ -> false)
    | Npos p -> (match m with
                 | N0 -> false
                 | Npos q -> Pos.eqb p q)

  (** val coq_lor : n -> n -> n **)

  let coq_lor n0 m =
    match n0 with
    | N0 -> m
    | Npos p -> (match m with
                 | N0 -> n0
                 | Npos q -> Npos (Pos.coq_lor p q))

  (** val ldiff : n -> n -> n **)

  let ldiff n0 m =
    match n0 with
    | N0 -> N0
    | Npos p -> (match m with
                 | N0 -> n0
                 | Npos q -> Pos.ldiff p q)
 end

module Z =
 struct
  (** val double : z -> z **)

  let double = function
  | Z0 -> Z0
  | Zpos p -> Zpos (XO p)
  | Zneg p -> Zneg (XO p)

  (** val succ_double : z -> z **)

  let succ_double = function
  | Z0 -> Zpos XH
  | Zpos p -> Zpos (XI p)
  | Zneg p -> Zneg (Pos.pred_double p)

  (** val pred_double : z -> z **)

  let pred_double = function
  | Z0 -> Zneg XH
  | Zpos p -> Zpos (Pos.pred_double p)
  | Zneg p -> Zneg (XI p)

  (** val pos_sub : positive -> positive -> z **)

  let rec pos_sub x y =
    match x with
    | XI p ->
      (match y with
       | XI q -> double (pos_sub p q)
       | XO q -> succ_double (pos_sub p q)
       | XH -> Zpos (XO p))
    | XO p ->
      (match y with
       | XI q -> pred_double (pos_sub p q)
       | XO q -> double (pos_sub p q)
       | XH -> Zpos (Pos.pred_double p))
    | XH ->
      (match y with
       | XI q -> Zneg (XO q)
       | XO q -> Zneg (Pos.pred_double q)
       | XH -> Z0)

  (** val add : z -> z -> z **)

  let add x y =
    match x with
    | Z0 -> y
    | Zpos x' ->
      (match y with
       | Z0 -> x
       | Zpos y' -> Zpos (Pos.add x' y')
       | Zneg y' -> pos_sub x' y')
    | Zneg x' ->
      (match y with
       | Z0 -> x
       | Zpos y' -> pos_sub y' x'
       | Zneg y' -> Zneg (Pos.add x' y'))

  (** val opp : z -> z **)

  let opp = function
  | Z0 -> Z0
  | Zpos x0 -> Zneg x0
  | Zneg x0 -> Zpos x0

  (** val sub : z -> z -> z **)

  let sub m n0 =
    add m (opp n0)

  (** val mul : z -> z -> z **)

  let mul x y =
    match x with
    | Z0 -> Z0
    | Zpos x' ->
      (match y with
       | Z0 -> Z0
       | Zpos y' -> Zpos (Pos.mul x' y')
       | Zneg y' -> Zneg (Pos.mul x' y'))
    | Zneg x' ->
      (match y with
       | Z0 -> Z0
       | Zpos y' -> Zneg (Pos.mul x' y')
       | Zneg y' -> Zpos (Pos.mul x' y'))

  (** val pow_pos : z -> positive -> z **)

  let pow_pos z0 =
    Pos.iter (mul z0) (Zpos XH)

  (** val pow : z -> z -> z **)

  let pow x = function
  | Z0 -> Zpos XH
  | Zpos p -> pow_pos x p
  | Zneg _ -> Z0

  (** val compare : z -> z -> comparison **)

  let compare x y =
    match x with
    | Z0 -> (match y with
             | Z0 -> Eq
             | Zpos _ -> Lt
             | Zneg _ -> Gt)
    | Zpos x' -> (match y with
                  | Zpos y' -> Pos.compare x' y'
                  | _ -> Gt)
    | Zneg x' ->
      (match y with
       | Zneg y' -> compOpp (Pos.compare x' y')
       | _ -> Lt)

  (** val leb : z -> z -> bool **)

  let leb x y =
    match compare x y with
    | Gt -> false
    | _ -> true

  (** val ltb : z -> z -> bool **)

  let ltb x y =
    match compare x y with
    | Lt -> true
    | _ -> false

  (** val eqb : z -> z -> bool **)

  let eqb x y =
    match x with
    | Z0 -> (match y with
             | Z0 -> true
             | _ -> false)
    | Zpos p -> (match y with
                 | Zpos q -> Pos.eqb p q
                 | _ -> false)
    | Zneg p -> (match y with
                 | Zneg q -> Pos.eqb p q
                 | _ -> false)

  (** val min : z -> z -> z **)

  let min n0 m =
    match compare n0 m with
    | Gt -> m
    | _ -> n0

  (** val to_nat : z -> nat **)

  let to_nat = function
  | Zpos p -> Pos.to_nat p
  | _ -> O

  (** val of_nat : nat -> z **)

  let of_nat = function
  | O -> Z0
  | S n1 -> Zpos (Pos.of_succ_nat n1)

  (** val of_N : n -> z **)

  let of_N = function
  | N0 -> Z0
  | Npos p -> Zpos p

  (** val pos_div_eucl : positive -> z -> z * z **)

  let rec pos_div_eucl a b =
    match a with
    | XI a' ->
      let (q, r) = pos_div_eucl a' b in
      let r' = add (mul (Zpos (XO XH)) r) (Zpos XH) in
      if ltb r' b
      then ((mul (Zpos (XO XH)) q), r')
      else ((add (mul (Zpos (XO XH)) q) (Zpos XH)), (sub r' b))
    | XO a' ->
      let (q, r) = pos_div_eucl a' b in
      let r' = mul (Zpos (XO XH)) r in
      if ltb r' b
      then ((mul (Zpos (XO XH)) q), r')
      else ((add (mul (Zpos (XO XH)) q) (Zpos XH)), (sub r' b))
    | XH -> if leb (Zpos (XO XH)) b then (Z0, (Zpos XH)) else ((Zpos XH), Z0)

  (** val div_eucl : z -> z -> z * z **)

  let div_eucl a b =
    match a with
    | Z0 -> (Z0, Z0)
    | Zpos a' ->
      (match b with
       | Z0 -> (Z0, a)
       | Zpos _ -> pos_div_eucl a' b
       | Zneg b' ->
         let (q, r) = pos_div_eucl a' (Zpos b') in
         (match r with
          | Z0 -> ((opp q), Z0)
          | _ -> ((opp (add q (Zpos XH))), (add b r))))
    | Zneg a' ->
      (match b with
       | Z0 -> (Z0, a)
       | Zpos _ ->
         let (q, r) = pos_div_eucl a' b in
         (match r with
          | Z0 -> ((opp q), Z0)
          | _ -> ((opp (add q (Zpos XH))), (sub b r)))
       | Zneg b' -> let (q, r) = pos_div_eucl a' (Zpos b') in (q, (opp r)))

  (** val div : z -> z -> z **)

  let div a b =
    let (q, _) = div_eucl a b in q

  (** val modulo : z -> z -> z **)

  let modulo a b =
    let (_, r) = div_eucl a b in r

  (** val odd : z -> bool **)

  let odd = function
  | Z0 -> false
  | Zpos p -> (match p with
               | XO _ -> false
               | _ -> true)
  | Zneg p -> (match p with
               | XO _ -> false
               | _ -> true)

  (** val log2 : z -> z **)

  let log2 = function
  | Zpos p0 ->
    (match p0 with
     | XI p -> Zpos (Pos.size p)
     | XO p -> Zpos (Pos.size p)
     | XH -> Z0)
  | _ -> Z0

  (** val coq_land : z -> z -> z **)

  let coq_land a b =
    match a with
    | Z0 -> Z0
    | Zpos a0 ->
      (match b with
       | Z0 -> Z0
       | Zpos b0 -> of_N (Pos.coq_land a0 b0)
       | Zneg b0 -> of_N (N.ldiff (Npos a0) (Pos.pred_N b0)))
    | Zneg a0 ->
      (match b with
       | Z0 -> Z0
       | Zpos b0 -> of_N (N.ldiff (Npos b0) (Pos.pred_N a0))
       | Zneg b0 ->
         Zneg (N.succ_pos (N.coq_lor (Pos.pred_N a0) (Pos.pred_N b0))))
 end

(** val map : ('a1 -> 'a2) -> 'a1 list -> 'a2 list **)

let rec map f = function
| [] -> []
| a :: t -> (f a) :: (map f t)

(** val flat_map : ('a1 -> 'a2 list) -> 'a1 list -> 'a2 list **)

let rec flat_map f = function
| [] -> []
| x :: t -> app (f x) (flat_map f t)

(** val fold_right : ('a2 -> 'a1 -> 'a1) -> 'a1 -> 'a2 list -> 'a1 **)

let rec fold_right f a0 = function
| [] -> a0
| b :: t -> f b (fold_right f a0 t)

(** val existsb : ('a1 -> bool) -> 'a1 list -> bool **)

let rec existsb f = function
| [] -> false
| a :: l0 -> (||) (f a) (existsb f l0)

(** val forallb : ('a1 -> bool) -> 'a1 list -> bool **)

let rec forallb f = function
| [] -> true
| a :: l0 -> (&&) (f a) (forallb f l0)

(** val find : ('a1 -> bool) -> 'a1 list -> 'a1 option **)

let rec find f = function
| [] -> None
| x :: tl -> if f x then Some x else find f tl

(** val firstn : nat -> 'a1 list -> 'a1 list **)

let rec firstn n0 l =
  match n0 with
  | O -> []
  | S n1 -> (match l with
             | [] -> []
             | a :: l0 -> a :: (firstn n1 l0))

(** val skipn : nat -> 'a1 list -> 'a1 list **)

let rec skipn n0 l =
  match n0 with
  | O -> l
  | S n1 -> (match l with
             | [] -> []
             | _ :: l0 -> skipn n1 l0)

(** val repeat : 'a1 -> nat -> 'a1 list **)

let rec repeat x = function
| O -> []
| S k -> x :: (repeat x k)

(** val ts_invalid : z **)

let ts_invalid =
  Zpos (XI (XI (XI (XI (XI (XI (XI (XI (XI (XI (XI (XI (XI (XI (XI (XI (XI
    (XI (XI (XI (XI (XI (XI (XI (XI (XI (XI (XI (XI (XI (XI
    XH)))))))))))))))))))))))))))))))

(** val ts_dec_factor_bits : z **)

let ts_dec_factor_bits =
  Zpos (XI (XO (XI (XO (XI (XO (XO (XI (XO (XI (XI (XO (XI (XO (XI (XI (XO
    (XI (XI (XO (XO (XI (XO (XO (XO (XO (XO (XI (XO (XI (XI (XI (XI (XI (XO
    (XI (XO (XO (XO (XO (XO (XI (XI (XI (XO (XI (XO (XO (XI (XO (XO (XO (XI
    (XO (XO (XO (XO (XI (XI (XI (XI
    XH)))))))))))))))))))))))))))))))))))))))))))))))))))))))))))))

(** val ts_enc_factor_bits : z **)

let ts_enc_factor_bits =
  Zpos (XO (XO (XO (XO (XO (XO (XO (XO (XO (XO (XO (XO (XO (XO (XO (XO (XO
    (XO (XO (XO (XO (XO (XO (XO (XO (XO (XO (XO (XO (XO (XO (XO (XI (XO (XI
    (XO (XO (XI (XI (XO (XI (XO (XI (XI (XO (XO (XI (XI (XI (XO (XI (XI (XO
    (XO (XI (XI (XI (XO (XO (XO (XO (XO
    XH))))))))))))))))))))))))))))))))))))))))))))))))))))))))))))))

(** val ts_carry_at : z **)

let ts_carry_at =
  Zpos (XO (XO (XO (XO (XO (XO (XO (XO (XO (XI (XO (XI (XO (XO (XI (XI (XO
    (XI (XO (XI (XI (XO (XO (XI (XI (XI (XO (XI (XI
    XH)))))))))))))))))))))))))))))

type codec_fval =
| FInt of z
| FNaN
| FBytes of z list

type codec_sf = z * z

(** val codec_rnd53 : z -> z -> codec_sf **)

let codec_rnd53 m e =
  if Z.leb m Z0
  then (Z0, Z0)
  else let nb = Z.add (Z.log2 m) (Zpos XH) in
       if Z.leb nb (Zpos (XI (XO (XI (XO (XI XH))))))
       then (m, e)
       else let sh = Z.sub nb (Zpos (XI (XO (XI (XO (XI XH)))))) in
            let q = Z.div m (Z.pow (Zpos (XO XH)) sh) in
            let r = Z.modulo m (Z.pow (Zpos (XO XH)) sh) in
            let half = Z.pow (Zpos (XO XH)) (Z.sub sh (Zpos XH)) in
            let q' =
              if (||) (Z.ltb half r) ((&&) (Z.eqb r half) (Z.odd q))
              then Z.add q (Zpos XH)
              else q
            in
            if Z.eqb q'
                 (Z.pow (Zpos (XO XH)) (Zpos (XI (XO (XI (XO (XI XH)))))))
            then ((Z.pow (Zpos (XO XH)) (Zpos (XO (XO (XI (XO (XI XH))))))),
                   (Z.add (Z.add e sh) (Zpos XH)))
            else (q', (Z.add e sh))

(** val codec_fmul : codec_sf -> codec_sf -> codec_sf **)

let codec_fmul a b =
  codec_rnd53 (Z.mul (fst a) (fst b)) (Z.add (snd a) (snd b))

(** val codec_fadd : codec_sf -> codec_sf -> codec_sf **)

let codec_fadd a b =
  let e = Z.min (snd a) (snd b) in
  codec_rnd53
    (Z.add (Z.mul (fst a) (Z.pow (Zpos (XO XH)) (Z.sub (snd a) e)))
      (Z.mul (fst b) (Z.pow (Zpos (XO XH)) (Z.sub (snd b) e)))) e

(** val codec_of_bits : z -> codec_sf **)

let codec_of_bits bits =
  let ex =
    Z.div bits (Z.pow (Zpos (XO XH)) (Zpos (XO (XO (XI (XO (XI XH)))))))
  in
  let fr =
    Z.modulo bits (Z.pow (Zpos (XO XH)) (Zpos (XO (XO (XI (XO (XI XH)))))))
  in
  if Z.eqb ex Z0
  then (fr, (Zneg (XO (XI (XO (XO (XI (XI (XO (XO (XO (XO XH))))))))))))
  else ((Z.add (Z.pow (Zpos (XO XH)) (Zpos (XO (XO (XI (XO (XI XH))))))) fr),
         (Z.sub ex (Zpos (XI (XI (XO (XO (XI (XI (XO (XO (XO (XO
           XH)))))))))))))

(** val codec_to_bits : codec_sf -> z **)

let codec_to_bits = function
| (m, e) ->
  if Z.leb m Z0
  then Z0
  else let nb = Z.add (Z.log2 m) (Zpos XH) in
       let m' =
         Z.mul m
           (Z.pow (Zpos (XO XH))
             (Z.sub (Zpos (XI (XO (XI (XO (XI XH)))))) nb))
       in
       let e' = Z.sub e (Z.sub (Zpos (XI (XO (XI (XO (XI XH)))))) nb) in
       Z.add
         (Z.mul
           (Z.add e' (Zpos (XI (XI (XO (XO (XI (XI (XO (XO (XO (XO
             XH))))))))))))
           (Z.pow (Zpos (XO XH)) (Zpos (XO (XO (XI (XO (XI XH))))))))
         (Z.sub m' (Z.pow (Zpos (XO XH)) (Zpos (XO (XO (XI (XO (XI XH))))))))

(** val codec_floor : codec_sf -> z **)

let codec_floor = function
| (m, e) ->
  if Z.leb Z0 e
  then Z.mul m (Z.pow (Zpos (XO XH)) e)
  else Z.div m (Z.pow (Zpos (XO XH)) (Z.opp e))

(** val codec_round_int : codec_sf -> z **)

let codec_round_int = function
| (m, e) ->
  if Z.leb Z0 e
  then Z.mul m (Z.pow (Zpos (XO XH)) e)
  else let k = Z.opp e in
       let q = Z.div m (Z.pow (Zpos (XO XH)) k) in
       let r = Z.modulo m (Z.pow (Zpos (XO XH)) k) in
       let half = Z.pow (Zpos (XO XH)) (Z.sub k (Zpos XH)) in
       if (||) (Z.ltb half r) ((&&) (Z.eqb r half) (Z.odd q))
       then Z.add q (Zpos XH)
       else q

(** val codec_c_dec : codec_sf **)

let codec_c_dec =
  codec_of_bits ts_dec_factor_bits

(** val codec_c_enc : codec_sf **)

let codec_c_enc =
  codec_of_bits ts_enc_factor_bits

(** val codec_ts_sec : z -> z **)

let codec_ts_sec z0 =
  Z.modulo z0 (Z.pow (Zpos (XO XH)) (Zpos (XO (XO (XO (XO (XO XH)))))))

(** val codec_ts_ns : z -> z **)

let codec_ts_ns z0 =
  Z.div z0 (Z.pow (Zpos (XO XH)) (Zpos (XO (XO (XO (XO (XO XH)))))))

(** val codec_ts_join : z -> z -> z **)

let codec_ts_join sec ns =
  Z.add sec
    (Z.mul ns (Z.pow (Zpos (XO XH)) (Zpos (XO (XO (XO (XO (XO XH))))))))

(** val codec_ts_dec : z -> codec_fval **)

let codec_ts_dec z0 =
  let sec = codec_ts_sec z0 in
  let ns = codec_ts_ns z0 in
  if (||) (Z.eqb sec ts_invalid) (Z.eqb ns ts_invalid)
  then FNaN
  else FInt
         (codec_to_bits
           (codec_fadd (sec, Z0) (codec_fmul (ns, Z0) codec_c_dec)))

(** val codec_ts_enc : codec_fval -> z option **)

let codec_ts_enc = function
| FInt bits ->
  if (||) (Z.ltb bits Z0)
       (Z.leb
         (Z.mul (Zpos (XI (XI (XI (XI (XI (XI (XI (XI (XI (XI XH)))))))))))
           (Z.pow (Zpos (XO XH)) (Zpos (XO (XO (XI (XO (XI XH)))))))) bits)
  then None
  else let s = codec_of_bits bits in
       let int_part = codec_floor s in
       let frac =
         if Z.leb Z0 (snd s)
         then (Z0, Z0)
         else ((Z.sub (fst s)
                 (Z.mul int_part (Z.pow (Zpos (XO XH)) (Z.opp (snd s))))),
                (snd s))
       in
       let ns0 = codec_round_int (codec_fmul frac codec_c_enc) in
       if Z.leb ts_carry_at ns0
       then let sec = Z.add int_part (Zpos XH) in
            let ns = Z.sub ns0 ts_carry_at in
            if (&&)
                 ((&&)
                   (Z.ltb sec
                     (Z.pow (Zpos (XO XH)) (Zpos (XO (XO (XO (XO (XO XH))))))))
                   (Z.leb Z0 ns))
                 (Z.ltb ns
                   (Z.pow (Zpos (XO XH)) (Zpos (XO (XO (XO (XO (XO XH))))))))
            then Some (codec_ts_join sec ns)
            else None
       else if (&&)
                 ((&&)
                   (Z.ltb int_part
                     (Z.pow (Zpos (XO XH)) (Zpos (XO (XO (XO (XO (XO XH))))))))
                   (Z.leb Z0 ns0))
                 (Z.ltb ns0
                   (Z.pow (Zpos (XO XH)) (Zpos (XO (XO (XO (XO (XO XH))))))))
            then Some (codec_ts_join int_part ns0)
            else None
| FNaN -> Some (codec_ts_join ts_invalid ts_invalid)
| FBytes _ -> None

(** val codec_ts_enc_legacy : codec_fval -> z option **)

let codec_ts_enc_legacy = function
| FInt bits ->
  if (||) (Z.ltb bits Z0)
       (Z.leb
         (Z.mul (Zpos (XI (XI (XI (XI (XI (XI (XI (XI (XI (XI XH)))))))))))
           (Z.pow (Zpos (XO XH)) (Zpos (XO (XO (XI (XO (XI XH)))))))) bits)
  then None
  else let s = codec_of_bits bits in
       let int_part = codec_floor s in
       let frac =
         if Z.leb Z0 (snd s)
         then (Z0, Z0)
         else ((Z.sub (fst s)
                 (Z.mul int_part (Z.pow (Zpos (XO XH)) (Z.opp (snd s))))),
                (snd s))
       in
       let ns = codec_floor (codec_fmul frac codec_c_enc) in
       if (&&)
            (Z.ltb int_part
              (Z.pow (Zpos (XO XH)) (Zpos (XO (XO (XO (XO (XO XH))))))))
            (Z.ltb ns
              (Z.pow (Zpos (XO XH)) (Zpos (XO (XO (XO (XO (XO XH))))))))
       then Some (codec_ts_join int_part ns)
       else None
| FNaN -> Some (codec_ts_join ts_invalid ts_invalid)
| FBytes _ -> None

(** val codec_ts_dom : z -> bool **)

let codec_ts_dom z0 =
  let sec = codec_ts_sec z0 in
  let ns = codec_ts_ns z0 in
  (||) ((||) (Z.eqb sec ts_invalid) (Z.eqb ns ts_invalid))
    ((&&) (Z.ltb sec (Z.sub ts_invalid (Zpos XH))) (Z.ltb ns ts_carry_at))

type codec_kind =
| U8
| U16
| U32
| U40
| U64
| S8
| S16
| S32
| S64
| F32
| F64

(** val codec_ksize : codec_kind -> nat **)

let codec_ksize = function
| U8 -> S O
| U16 -> S (S O)
| U32 -> S (S (S (S O)))
| U40 -> S (S (S (S (S O))))
| S8 -> S O
| S16 -> S (S O)
| S32 -> S (S (S (S O)))
| F32 -> S (S (S (S O)))
| _ -> S (S (S (S (S (S (S (S O)))))))

(** val codec_ksigned : codec_kind -> bool **)

let codec_ksigned = function
| S8 -> true
| S16 -> true
| S32 -> true
| S64 -> true
| _ -> false

(** val codec_kbits : codec_kind -> z **)

let codec_kbits k =
  Z.mul (Zpos (XO (XO (XO XH)))) (Z.of_nat (codec_ksize k))

(** val codec_byte_ok : z -> bool **)

let codec_byte_ok b =
  (&&) (Z.leb Z0 b)
    (Z.ltb b (Zpos (XO (XO (XO (XO (XO (XO (XO (XO XH))))))))))

(** val codec_bytes_ok : z list -> bool **)

let codec_bytes_ok l =
  forallb codec_byte_ok l

(** val codec_le_dec : z list -> z **)

let rec codec_le_dec = function
| [] -> Z0
| b :: r ->
  Z.add b
    (Z.mul (Zpos (XO (XO (XO (XO (XO (XO (XO (XO XH))))))))) (codec_le_dec r))

(** val codec_le_enc : nat -> z -> z list **)

let rec codec_le_enc n0 z0 =
  match n0 with
  | O -> []
  | S m ->
    (Z.modulo z0 (Zpos (XO (XO (XO (XO (XO (XO (XO (XO XH)))))))))) :: 
      (codec_le_enc m
        (Z.div z0 (Zpos (XO (XO (XO (XO (XO (XO (XO (XO XH)))))))))))

(** val codec_kdec : codec_kind -> z list -> z **)

let codec_kdec k l =
  let u = codec_le_dec l in
  if (&&) (codec_ksigned k)
       (Z.leb (Z.pow (Zpos (XO XH)) (Z.sub (codec_kbits k) (Zpos XH))) u)
  then Z.sub u (Z.pow (Zpos (XO XH)) (codec_kbits k))
  else u

(** val codec_krange : codec_kind -> z -> bool **)

let codec_krange k z0 =
  if codec_ksigned k
  then (&&)
         (Z.leb
           (Z.opp (Z.pow (Zpos (XO XH)) (Z.sub (codec_kbits k) (Zpos XH))))
           z0)
         (Z.ltb z0 (Z.pow (Zpos (XO XH)) (Z.sub (codec_kbits k) (Zpos XH))))
  else (&&) (Z.leb Z0 z0) (Z.ltb z0 (Z.pow (Zpos (XO XH)) (codec_kbits k)))

(** val codec_kenc : codec_kind -> z -> z list **)

let codec_kenc k z0 =
  codec_le_enc (codec_ksize k)
    (if Z.ltb z0 Z0
     then Z.add z0 (Z.pow (Zpos (XO XH)) (codec_kbits k))
     else z0)

type codec_adapter =
| AId
| ABool
| AQuiet32
| AStrict of z list
| ASentinel of z
| ACount of n
| ATimestamp

(** val codec_quiet32 : z -> z **)

let codec_quiet32 z0 =
  if (&&)
       ((&&)
         (Z.eqb
           (Z.modulo
             (Z.div z0 (Z.pow (Zpos (XO XH)) (Zpos (XI (XI (XI (XO XH)))))))
             (Zpos (XO (XO (XO (XO (XO (XO (XO (XO XH)))))))))) (Zpos (XI (XI
           (XI (XI (XI (XI (XI XH)))))))))
         (negb
           (Z.eqb
             (Z.modulo z0
               (Z.pow (Zpos (XO XH)) (Zpos (XI (XI (XI (XO XH))))))) Z0)))
       (Z.eqb
         (Z.modulo
           (Z.div z0 (Z.pow (Zpos (XO XH)) (Zpos (XO (XI (XI (XO XH)))))))
           (Zpos (XO XH))) Z0)
  then Z.add z0 (Z.pow (Zpos (XO XH)) (Zpos (XO (XI (XI (XO XH))))))
  else z0

(** val codec_adec : codec_adapter -> z -> codec_fval option **)

let codec_adec a z0 =
  match a with
  | ABool -> Some (FInt (if Z.eqb z0 Z0 then Z0 else Zpos XH))
  | AQuiet32 -> Some (FInt (codec_quiet32 z0))
  | AStrict ms -> if existsb (Z.eqb z0) ms then Some (FInt z0) else None
  | ASentinel inv -> Some (if Z.eqb z0 inv then FNaN else FInt z0)
  | ATimestamp -> Some (codec_ts_dec z0)
  | _ -> Some (FInt z0)

(** val codec_aenc : codec_adapter -> codec_fval -> z option **)

let codec_aenc a v =
  match a with
  | ABool ->
    (match v with
     | FInt z0 -> Some (if Z.eqb z0 Z0 then Z0 else Zpos XH)
     | _ -> None)
  | ASentinel inv ->
    (match v with
     | FInt z0 -> Some z0
     | FNaN -> Some inv
     | FBytes _ -> None)
  | ATimestamp -> codec_ts_enc v
  | _ -> (match v with
          | FInt z0 -> Some z0
          | _ -> None)

(** val codec_adom : codec_adapter -> z -> bool **)

let codec_adom a z0 =
  match a with
  | ATimestamp -> codec_ts_dom z0
  | _ -> true

(** val codec_adec_dom : codec_adapter -> z -> codec_fval option **)

let codec_adec_dom a z0 =
  if codec_adom a z0 then codec_adec a z0 else None

type codec_item =
| IField of n * codec_kind * codec_adapter
| IPad of z list
| IStr of n * nat

type codec_blen =
| LFixed of nat
| LCount of n
| LGreedy

type codec_bmode =
| BRaw
| BStr
| BRewrite of n * z list * z list * z list

type codec_tagspec = { tg_tag : n; tg_len : n; tg_skip : (n * z) option;
                       tg_cases : (z * codec_item list) list;
                       tg_sub : (((z * codec_item
                                list) * n) * (z * codec_item list) list)
                                option; tg_opaque : bool }

type codec_wire =
| WItem of codec_item
| WCounted of n * n * codec_item list
| WBytes of n * codec_blen * codec_bmode
| WSwitch of n * n * (z * codec_item list) list
| WTagged of n * codec_tagspec

type codec_desc = codec_wire list

type codec_rec = (n * codec_fval) list

type codec_value =
| VF of codec_fval
| VBytes of z list
| VRecs of codec_rec list
| VTag of codec_rec * codec_rec * nat
| VOpaque

type codec_env = (n * codec_value) list

(** val codec_strip : z list -> z list **)

let rec codec_strip = function
| [] -> []
| x :: r ->
  (match codec_strip r with
   | [] -> if Z.eqb x Z0 then [] else x :: []
   | z0 :: l0 -> x :: (z0 :: l0))

(** val codec_cont : z -> bool **)

let codec_cont b =
  (&&) (Z.leb (Zpos (XO (XO (XO (XO (XO (XO (XO XH)))))))) b)
    (Z.leb b (Zpos (XI (XI (XI (XI (XI (XI (XO XH)))))))))

(** val codec_utf8_ok : z list -> bool **)

let rec codec_utf8_ok = function
| [] -> true
| b0 :: r ->
  if (&&) (Z.leb Z0 b0)
       (Z.ltb b0 (Zpos (XO (XO (XO (XO (XO (XO (XO XH)))))))))
  then codec_utf8_ok r
  else (match r with
        | [] -> false
        | b1 :: r1 ->
          if (&&) (Z.leb (Zpos (XO (XI (XO (XO (XO (XO (XI XH)))))))) b0)
               (Z.leb b0 (Zpos (XI (XI (XI (XI (XI (XO (XI XH)))))))))
          then (&&) (codec_cont b1) (codec_utf8_ok r1)
          else (match r1 with
                | [] -> false
                | b2 :: r2 ->
                  if Z.eqb b0 (Zpos (XO (XO (XO (XO (XO (XI (XI XH))))))))
                  then (&&)
                         ((&&)
                           ((&&)
                             (Z.leb (Zpos (XO (XO (XO (XO (XO (XI (XO
                               XH)))))))) b1)
                             (Z.leb b1 (Zpos (XI (XI (XI (XI (XI (XI (XO
                               XH)))))))))) (codec_cont b2))
                         (codec_utf8_ok r2)
                  else if (||)
                            ((||)
                              ((&&)
                                (Z.leb (Zpos (XI (XO (XO (XO (XO (XI (XI
                                  XH)))))))) b0)
                                (Z.leb b0 (Zpos (XO (XO (XI (XI (XO (XI (XI
                                  XH))))))))))
                              (Z.eqb b0 (Zpos (XO (XI (XI (XI (XO (XI (XI
                                XH))))))))))
                            (Z.eqb b0 (Zpos (XI (XI (XI (XI (XO (XI (XI
                              XH)))))))))
                       then (&&) ((&&) (codec_cont b1) (codec_cont b2))
                              (codec_utf8_ok r2)
                       else if Z.eqb b0 (Zpos (XI (XO (XI (XI (XO (XI (XI
                                 XH))))))))
                            then (&&)
                                   ((&&)
                                     ((&&)
                                       (Z.leb (Zpos (XO (XO (XO (XO (XO (XO
                                         (XO XH)))))))) b1)
                                       (Z.leb b1 (Zpos (XI (XI (XI (XI (XI
                                         (XO (XO XH)))))))))) (codec_cont b2))
                                   (codec_utf8_ok r2)
                            else (match r2 with
                                  | [] -> false
                                  | b3 :: r3 ->
                                    if Z.eqb b0 (Zpos (XO (XO (XO (XO (XI (XI
                                         (XI XH))))))))
                                    then (&&)
                                           ((&&)
                                             ((&&)
                                               ((&&)
                                                 (Z.leb (Zpos (XO (XO (XO (XO
                                                   (XI (XO (XO XH)))))))) b1)
                                                 (Z.leb b1 (Zpos (XI (XI (XI
                                                   (XI (XI (XI (XO XH))))))))))
                                               (codec_cont b2))
                                             (codec_cont b3))
                                           (codec_utf8_ok r3)
                                    else if (&&)
                                              (Z.leb (Zpos (XI (XO (XO (XO
                                                (XI (XI (XI XH)))))))) b0)
                                              (Z.leb b0 (Zpos (XI (XI (XO (XO
                                                (XI (XI (XI XH)))))))))
                                         then (&&)
                                                ((&&)
                                                  ((&&) (codec_cont b1)
                                                    (codec_cont b2))
                                                  (codec_cont b3))
                                                (codec_utf8_ok r3)
                                         else if Z.eqb b0 (Zpos (XO (XO (XI
                                                   (XO (XI (XI (XI XH))))))))
                                              then (&&)
                                                     ((&&)
                                                       ((&&)
                                                         ((&&)
                                                           (Z.leb (Zpos (XO
                                                             (XO (XO (XO (XO
                                                             (XO (XO
                                                             XH)))))))) b1)
                                                           (Z.leb b1 (Zpos
                                                             (XI (XI (XI (XI
                                                             (XO (XO (XO
                                                             XH))))))))))
                                                         (codec_cont b2))
                                                       (codec_cont b3))
                                                     (codec_utf8_ok r3)
                                              else false)))

(** val codec_str_dec : z list -> z list option **)

let codec_str_dec h =
  let s = codec_strip h in if codec_utf8_ok s then Some s else None

(** val codec_list_eqb : z list -> z list -> bool **)

let rec codec_list_eqb a b =
  match a with
  | [] -> (match b with
           | [] -> true
           | _ :: _ -> false)
  | x :: a' ->
    (match b with
     | [] -> false
     | y :: b' -> (&&) (Z.eqb x y) (codec_list_eqb a' b'))

(** val codec_starts : z list -> z list -> bool **)

let codec_starts p l =
  codec_list_eqb (firstn (length p) l) p

(** val codec_assoc : z -> (z * 'a1) list -> 'a1 option **)

let rec codec_assoc t = function
| [] -> None
| p :: r -> let (v, x) = p in if Z.eqb t v then Some x else codec_assoc t r

(** val codec_rec_int : codec_rec -> n -> z option **)

let rec codec_rec_int r id =
  match r with
  | [] -> None
  | p :: r' ->
    let (i, v) = p in
    if N.eqb i id
    then (match v with
          | FInt z0 -> Some z0
          | _ -> None)
    else codec_rec_int r' id

(** val codec_take : nat -> z list -> (z list * z list) option **)

let rec codec_take n0 b =
  match n0 with
  | O -> Some ([], b)
  | S m ->
    (match b with
     | [] -> None
     | x :: r ->
       (match codec_take m r with
        | Some p -> let (h, t) = p in Some ((x :: h), t)
        | None -> None))

(** val codec_lookup : codec_env -> n -> codec_value option **)

let codec_lookup e id =
  match find (fun p -> N.eqb (fst p) id) e with
  | Some p -> Some (snd p)
  | None -> None

(** val codec_lookup_int : codec_env -> n -> z option **)

let codec_lookup_int e id =
  match codec_lookup e id with
  | Some c ->
    (match c with
     | VF v -> (match v with
                | FInt z0 -> Some z0
                | _ -> None)
     | _ -> None)
  | None -> None

(** val codec_len_of : codec_env -> n -> z option **)

let codec_len_of e id =
  match codec_lookup e id with
  | Some c ->
    (match c with
     | VBytes l -> Some (Z.of_nat (length l))
     | VRecs rs -> Some (Z.of_nat (length rs))
     | VTag (_, _, sz) -> Some (Z.of_nat sz)
     | _ -> None)
  | None -> None

(** val codec_item_size : codec_item -> nat **)

let codec_item_size = function
| IField (_, k, _) -> codec_ksize k
| IPad bs -> length bs
| IStr (_, n0) -> n0

(** val codec_items_size : codec_item list -> nat **)

let codec_items_size its =
  fold_right (fun i n0 -> add (codec_item_size i) n0) O its

(** val codec_dec_items :
    (codec_adapter -> z -> codec_fval option) -> codec_item list -> z list ->
    (codec_rec * z list) option **)

let rec codec_dec_items aD its b =
  match its with
  | [] -> Some ([], b)
  | c :: r ->
    (match c with
     | IField (id, k, a) ->
       (match codec_take (codec_ksize k) b with
        | Some p ->
          let (h, t) = p in
          (match aD a (codec_kdec k h) with
           | Some v ->
             (match codec_dec_items aD r t with
              | Some p0 -> let (e, rest) = p0 in Some (((id, v) :: e), rest)
              | None -> None)
           | None -> None)
        | None -> None)
     | IPad bs ->
       (match codec_take (length bs) b with
        | Some p -> let (_, t) = p in codec_dec_items aD r t
        | None -> None)
     | IStr (id, n0) ->
       (match codec_take n0 b with
        | Some p ->
          let (h, t) = p in
          (match codec_str_dec h with
           | Some sv ->
             (match codec_dec_items aD r t with
              | Some p0 ->
                let (e, rest) = p0 in Some (((id, (FBytes sv)) :: e), rest)
              | None -> None)
           | None -> None)
        | None -> None))

(** val codec_dec_recs :
    (codec_adapter -> z -> codec_fval option) -> codec_item list -> nat -> z
    list -> (codec_rec list * z list) option **)

let rec codec_dec_recs aD its n0 b =
  match n0 with
  | O -> Some ([], b)
  | S m ->
    (match codec_dec_items aD its b with
     | Some p ->
       let (r, t) = p in
       (match codec_dec_recs aD its m t with
        | Some p0 -> let (rs, rest) = p0 in Some ((r :: rs), rest)
        | None -> None)
     | None -> None)

(** val codec_count : codec_env -> n -> z list -> nat option **)

let codec_count acc cnt b =
  match codec_lookup_int acc cnt with
  | Some c ->
    if (||) (Z.ltb c Z0) (Z.ltb (Z.of_nat (length b)) c)
    then None
    else Some (Z.to_nat c)
  | None -> None

(** val codec_bdec :
    bool -> codec_env -> codec_bmode -> z list -> z list option **)

let codec_bdec sT acc m h =
  match m with
  | BRaw -> Some h
  | BStr ->
    (match codec_str_dec h with
     | Some sv ->
       if (&&) sT (negb (Nat.eqb (length sv) (length h)))
       then None
       else Some sv
     | None -> None)
  | BRewrite (tag, vals, src, dst) ->
    (match codec_lookup_int acc tag with
     | Some t ->
       Some
         (if (&&) (existsb (Z.eqb t) vals) (codec_starts src h)
          then app dst (skipn (length src) h)
          else h)
     | None -> None)

(** val codec_skip_flag : codec_tagspec -> codec_env -> bool option **)

let codec_skip_flag s env =
  match s.tg_skip with
  | Some p ->
    let (fid, m) = p in
    (match codec_lookup_int env fid with
     | Some f -> Some (negb (Z.eqb (Z.coq_land f m) Z0))
     | None -> None)
  | None -> Some false

(** val codec_tag_dec :
    (codec_adapter -> z -> codec_fval option) -> bool -> codec_tagspec ->
    codec_env -> z list -> codec_value option **)

let codec_tag_dec aD sT s acc r =
  match codec_lookup_int acc s.tg_tag with
  | Some t ->
    (match codec_skip_flag s acc with
     | Some skip ->
       (match s.tg_sub with
        | Some p ->
          let (p0, subcases) = p in
          let (p1, sid) = p0 in
          let (tv, hitems) = p1 in
          if Z.eqb t tv
          then (match codec_dec_items aD hitems r with
                | Some p2 ->
                  let (rh, r1) = p2 in
                  (match codec_rec_int rh sid with
                   | Some sv ->
                     let p3 = (((hitems, rh), r1), (codec_assoc sv subcases))
                     in
                     let (p4, sel) = p3 in
                     let (p5, r2) = p4 in
                     let (hitems0, rh0) = p5 in
                     (match sel with
                      | Some oitems ->
                        if skip
                        then if (&&) sT (negb (Nat.eqb (length r2) O))
                             then None
                             else Some (VTag (rh0, [],
                                    (codec_items_size hitems0)))
                        else if (&&) s.tg_opaque
                                  (Nat.ltb (length r2)
                                    (codec_items_size oitems))
                             then if sT then None else Some VOpaque
                             else (match codec_dec_items aD oitems r2 with
                                   | Some p6 ->
                                     let (ro, lft) = p6 in
                                     if (&&) sT
                                          (negb (Nat.eqb (length lft) O))
                                     then None
                                     else Some (VTag (rh0, ro,
                                            (add (codec_items_size hitems0)
                                              (codec_items_size oitems))))
                                   | None -> None)
                      | None ->
                        if (&&) s.tg_opaque (negb sT)
                        then Some VOpaque
                        else None)
                   | None -> None)
                | None -> None)
          else let p2 = ((([], []), r), (codec_assoc t s.tg_cases)) in
               let (p3, sel) = p2 in
               let (p4, r1) = p3 in
               let (hitems0, rh) = p4 in
               (match sel with
                | Some oitems ->
                  if skip
                  then if (&&) sT (negb (Nat.eqb (length r1) O))
                       then None
                       else Some (VTag (rh, [], (codec_items_size hitems0)))
                  else if (&&) s.tg_opaque
                            (Nat.ltb (length r1) (codec_items_size oitems))
                       then if sT then None else Some VOpaque
                       else (match codec_dec_items aD oitems r1 with
                             | Some p5 ->
                               let (ro, lft) = p5 in
                               if (&&) sT (negb (Nat.eqb (length lft) O))
                               then None
                               else Some (VTag (rh, ro,
                                      (add (codec_items_size hitems0)
                                        (codec_items_size oitems))))
                             | None -> None)
                | None ->
                  if (&&) s.tg_opaque (negb sT) then Some VOpaque else None)
        | None ->
          let p = ((([], []), r), (codec_assoc t s.tg_cases)) in
          let (p0, sel) = p in
          let (p1, r1) = p0 in
          let (hitems, rh) = p1 in
          (match sel with
           | Some oitems ->
             if skip
             then if (&&) sT (negb (Nat.eqb (length r1) O))
                  then None
                  else Some (VTag (rh, [], (codec_items_size hitems)))
             else if (&&) s.tg_opaque
                       (Nat.ltb (length r1) (codec_items_size oitems))
                  then if sT then None else Some VOpaque
                  else (match codec_dec_items aD oitems r1 with
                        | Some p2 ->
                          let (ro, lft) = p2 in
                          if (&&) sT (negb (Nat.eqb (length lft) O))
                          then None
                          else Some (VTag (rh, ro,
                                 (add (codec_items_size hitems)
                                   (codec_items_size oitems))))
                        | None -> None)
           | None -> if (&&) s.tg_opaque (negb sT) then Some VOpaque else None))
     | None -> None)
  | None -> None

(** val codec_dec_one :
    (codec_adapter -> z -> codec_fval option) -> bool -> codec_wire ->
    codec_env -> z list -> (codec_env * z list) option **)

let codec_dec_one aD sT w acc b =
  match w with
  | WItem it ->
    (match codec_dec_items aD (it :: []) b with
     | Some p ->
       let (r, t) = p in
       Some ((map (fun p0 -> ((fst p0), (VF (snd p0)))) r), t)
     | None -> None)
  | WCounted (id, cnt, body) ->
    (match codec_count acc cnt b with
     | Some n0 ->
       (match codec_dec_recs aD body n0 b with
        | Some p -> let (rs, t) = p in Some (((id, (VRecs rs)) :: []), t)
        | None -> None)
     | None -> None)
  | WBytes (id, l, m) ->
    (match match l with
           | LFixed n0 -> codec_take n0 b
           | LCount cnt ->
             (match codec_count acc cnt b with
              | Some n0 -> codec_take n0 b
              | None -> None)
           | LGreedy -> Some (b, []) with
     | Some p ->
       let (h, t) = p in
       (match codec_bdec sT acc m h with
        | Some v -> Some (((id, (VBytes v)) :: []), t)
        | None -> None)
     | None -> None)
  | WSwitch (id, tag, cases) ->
    (match codec_lookup_int acc tag with
     | Some t ->
       (match codec_assoc t cases with
        | Some its ->
          (match codec_dec_items aD its b with
           | Some p ->
             let (r, rest) = p in Some (((id, (VRecs (r :: []))) :: []), rest)
           | None -> None)
        | None -> Some (((id, (VRecs [])) :: []), b))
     | None -> None)
  | WTagged (id, s) ->
    (match codec_count acc s.tg_len b with
     | Some n0 ->
       (match codec_take n0 b with
        | Some p ->
          let (r, t) = p in
          (match codec_tag_dec aD sT s acc r with
           | Some v -> Some (((id, v) :: []), t)
           | None -> None)
        | None -> None)
     | None -> None)

(** val codec_dec_wire :
    (codec_adapter -> z -> codec_fval option) -> bool -> codec_desc ->
    codec_env -> z list -> (codec_env * z list) option **)

let rec codec_dec_wire aD sT d acc b =
  match d with
  | [] -> Some ([], b)
  | w :: d' ->
    (match codec_dec_one aD sT w acc b with
     | Some p ->
       let (ents, b') = p in
       (match codec_dec_wire aD sT d' (app acc ents) b' with
        | Some p0 -> let (e, rest) = p0 in Some ((app ents e), rest)
        | None -> None)
     | None -> None)

(** val codec_parse_with :
    (codec_adapter -> z -> codec_fval option) -> bool -> codec_desc -> z list
    -> (codec_env * nat) option **)

let codec_parse_with aD sT d b =
  match codec_dec_wire aD sT d [] b with
  | Some p -> let (e, rest) = p in Some (e, (sub (length b) (length rest)))
  | None -> None

(** val codec_parse : codec_desc -> z list -> (codec_env * nat) option **)

let codec_parse =
  codec_parse_with codec_adec false

(** val codec_parse_dom : codec_desc -> z list -> (codec_env * nat) option **)

let codec_parse_dom =
  codec_parse_with codec_adec_dom true

(** val codec_enc_items : codec_item list -> codec_rec -> z list option **)

let rec codec_enc_items its r =
  match its with
  | [] -> (match r with
           | [] -> Some []
           | _ :: _ -> None)
  | c :: its' ->
    (match c with
     | IField (id, k, a) ->
       (match r with
        | [] -> None
        | p :: r' ->
          let (id', v) = p in
          if N.eqb id id'
          then (match codec_aenc a v with
                | Some z0 ->
                  if codec_krange k z0
                  then (match codec_enc_items its' r' with
                        | Some t -> Some (app (codec_kenc k z0) t)
                        | None -> None)
                  else None
                | None -> None)
          else None)
     | IPad bs ->
       (match codec_enc_items its' r with
        | Some t -> Some (app bs t)
        | None -> None)
     | IStr (id, n0) ->
       (match r with
        | [] -> None
        | p :: r' ->
          let (id', c0) = p in
          (match c0 with
           | FBytes sv ->
             if (&&) ((&&) (N.eqb id id') (codec_bytes_ok sv))
                  (Nat.leb (length sv) n0)
             then (match codec_enc_items its' r' with
                   | Some t ->
                     Some (app sv (app (repeat Z0 (sub n0 (length sv))) t))
                   | None -> None)
             else None
           | _ -> None)))

(** val codec_enc_recs :
    codec_item list -> codec_rec list -> z list option **)

let rec codec_enc_recs its = function
| [] -> Some []
| r :: rs' ->
  (match codec_enc_items its r with
   | Some b ->
     (match codec_enc_recs its rs' with
      | Some t -> Some (app b t)
      | None -> None)
   | None -> None)

(** val codec_len_okb : codec_blen -> z list -> bool **)

let codec_len_okb l bs =
  match l with
  | LFixed n0 -> Nat.eqb (length bs) n0
  | _ -> true

(** val codec_tag_enc :
    codec_tagspec -> codec_env -> codec_value -> z list option **)

let codec_tag_enc s full = function
| VTag (rh, ro, sz) ->
  (match codec_lookup_int full s.tg_tag with
   | Some t ->
     (match codec_skip_flag s full with
      | Some skip ->
        (match s.tg_sub with
         | Some p ->
           let (p0, subcases) = p in
           let (p1, sid) = p0 in
           let (tv, hitems) = p1 in
           if Z.eqb t tv
           then let sel =
                  match codec_rec_int rh sid with
                  | Some sv -> codec_assoc sv subcases
                  | None -> None
                in
                (match sel with
                 | Some oitems ->
                   (match codec_enc_items hitems rh with
                    | Some bh ->
                      (match if skip
                             then (match ro with
                                   | [] -> Some []
                                   | _ :: _ -> None)
                             else codec_enc_items oitems ro with
                       | Some bo ->
                         if Nat.eqb (length (app bh bo)) sz
                         then Some (app bh bo)
                         else None
                       | None -> None)
                    | None -> None)
                 | None -> None)
           else let hitems0 = [] in
                let sel = codec_assoc t s.tg_cases in
                (match sel with
                 | Some oitems ->
                   (match codec_enc_items hitems0 rh with
                    | Some bh ->
                      (match if skip
                             then (match ro with
                                   | [] -> Some []
                                   | _ :: _ -> None)
                             else codec_enc_items oitems ro with
                       | Some bo ->
                         if Nat.eqb (length (app bh bo)) sz
                         then Some (app bh bo)
                         else None
                       | None -> None)
                    | None -> None)
                 | None -> None)
         | None ->
           let hitems = [] in
           let sel = codec_assoc t s.tg_cases in
           (match sel with
            | Some oitems ->
              (match codec_enc_items hitems rh with
               | Some bh ->
                 (match if skip
                        then (match ro with
                              | [] -> Some []
                              | _ :: _ -> None)
                        else codec_enc_items oitems ro with
                  | Some bo ->
                    if Nat.eqb (length (app bh bo)) sz
                    then Some (app bh bo)
                    else None
                  | None -> None)
               | None -> None)
            | None -> None))
      | None -> None)
   | None -> None)
| _ -> None

(** val codec_enc_one :
    codec_wire -> codec_env -> codec_env -> (z list * codec_env) option **)

let codec_enc_one w full e =
  match w with
  | WItem i ->
    (match i with
     | IField (id, k, a) ->
       (match e with
        | [] -> None
        | p :: e' ->
          let (id', c) = p in
          (match c with
           | VF v ->
             if N.eqb id id'
             then (match match a with
                         | ACount t -> codec_len_of full t
                         | _ -> codec_aenc a v with
                   | Some z0 ->
                     if codec_krange k z0
                     then Some ((codec_kenc k z0), e')
                     else None
                   | None -> None)
             else None
           | _ -> None))
     | IPad bs -> Some (bs, e)
     | IStr (id, n0) ->
       (match e with
        | [] -> None
        | p :: e' ->
          let (id', c) = p in
          (match c with
           | VF v ->
             (match codec_enc_items ((IStr (id, n0)) :: []) ((id', v) :: []) with
              | Some b -> Some (b, e')
              | None -> None)
           | _ -> None)))
  | WCounted (id, _, body) ->
    (match e with
     | [] -> None
     | p :: e' ->
       let (id', c) = p in
       (match c with
        | VRecs rs ->
          if N.eqb id id'
          then (match codec_enc_recs body rs with
                | Some b -> Some (b, e')
                | None -> None)
          else None
        | _ -> None))
  | WBytes (id, l, _) ->
    (match e with
     | [] -> None
     | p :: e' ->
       let (id', c) = p in
       (match c with
        | VBytes bs ->
          if (&&) ((&&) (N.eqb id id') (codec_bytes_ok bs))
               (codec_len_okb l bs)
          then Some (bs, e')
          else None
        | _ -> None))
  | WSwitch (id, tag, cases) ->
    (match e with
     | [] -> None
     | p :: e' ->
       let (id', c) = p in
       (match c with
        | VRecs rs ->
          if N.eqb id id'
          then (match codec_lookup_int full tag with
                | Some t ->
                  (match codec_assoc t cases with
                   | Some its ->
                     (match rs with
                      | [] -> None
                      | r :: l ->
                        (match l with
                         | [] ->
                           (match codec_enc_items its r with
                            | Some b -> Some (b, e')
                            | None -> None)
                         | _ :: _ -> None))
                   | None ->
                     (match rs with
                      | [] -> Some ([], e')
                      | _ :: _ -> None))
                | None -> None)
          else None
        | _ -> None))
  | WTagged (id, s) ->
    (match e with
     | [] -> None
     | p :: e' ->
       let (id', v) = p in
       if N.eqb id id'
       then (match codec_tag_enc s full v with
             | Some b -> Some (b, e')
             | None -> None)
       else None)

(** val codec_enc_wire :
    codec_desc -> codec_env -> codec_env -> z list option **)

let rec codec_enc_wire d full e =
  match d with
  | [] -> (match e with
           | [] -> Some []
           | _ :: _ -> None)
  | w :: d' ->
    (match codec_enc_one w full e with
     | Some p ->
       let (bs, e') = p in
       (match codec_enc_wire d' full e' with
        | Some t -> Some (app bs t)
        | None -> None)
     | None -> None)

(** val codec_pack : codec_desc -> codec_env -> z list option **)

let codec_pack d e =
  codec_enc_wire d e e

(** val codec_size_one :
    codec_wire -> codec_env -> codec_env -> (nat * codec_env) option **)

let codec_size_one w full e =
  match w with
  | WItem i ->
    (match i with
     | IField (_, k, _) ->
       (match e with
        | [] -> None
        | p :: e' ->
          let (_, c) = p in
          (match c with
           | VF _ -> Some ((codec_ksize k), e')
           | _ -> None))
     | IPad bs -> Some ((length bs), e)
     | IStr (_, n0) ->
       (match e with
        | [] -> None
        | p :: e' ->
          let (_, c) = p in (match c with
                             | VF _ -> Some (n0, e')
                             | _ -> None)))
  | WCounted (_, _, body) ->
    (match e with
     | [] -> None
     | p :: e' ->
       let (_, c) = p in
       (match c with
        | VRecs rs -> Some ((mul (length rs) (codec_items_size body)), e')
        | _ -> None))
  | WBytes (_, _, _) ->
    (match e with
     | [] -> None
     | p :: e' ->
       let (_, c) = p in
       (match c with
        | VBytes bs -> Some ((length bs), e')
        | _ -> None))
  | WSwitch (_, tag, cases) ->
    (match e with
     | [] -> None
     | p :: e' ->
       let (_, c) = p in
       (match c with
        | VRecs _ ->
          (match codec_lookup_int full tag with
           | Some t ->
             (match codec_assoc t cases with
              | Some its -> Some ((codec_items_size its), e')
              | None -> Some (O, e'))
           | None -> None)
        | _ -> None))
  | WTagged (_, _) ->
    (match e with
     | [] -> None
     | p :: e' ->
       let (_, c) = p in
       (match c with
        | VTag (_, _, sz) -> Some (sz, e')
        | _ -> None))

(** val codec_sizeof_from :
    codec_desc -> codec_env -> codec_env -> nat option **)

let rec codec_sizeof_from d full e =
  match d with
  | [] -> (match e with
           | [] -> Some O
           | _ :: _ -> None)
  | w :: d' ->
    (match codec_size_one w full e with
     | Some p ->
       let (n0, e') = p in
       (match codec_sizeof_from d' full e' with
        | Some m -> Some (add n0 m)
        | None -> None)
     | None -> None)

(** val codec_sizeof : codec_desc -> codec_env -> nat option **)

let codec_sizeof d e =
  codec_sizeof_from d e e

(** val codec_kunsigned : codec_kind -> bool **)

let codec_kunsigned = function
| U8 -> true
| U16 -> true
| U32 -> true
| U40 -> true
| U64 -> true
| _ -> false

(** val codec_wf_adapter : bool -> codec_kind -> codec_adapter -> bool **)

let codec_wf_adapter top k = function
| AId -> true
| ABool -> (match k with
            | U8 -> true
            | _ -> false)
| AQuiet32 -> (match k with
               | F32 -> true
               | _ -> false)
| AStrict ms -> forallb (codec_krange k) ms
| ASentinel inv -> codec_krange k inv
| ACount _ -> (&&) top (codec_kunsigned k)
| ATimestamp -> (match k with
                 | U64 -> true
                 | _ -> false)

(** val codec_wf_item : bool -> codec_item -> bool **)

let codec_wf_item top = function
| IField (_, k, a) -> codec_wf_adapter top k a
| IPad bs -> codec_bytes_ok bs
| IStr (_, _) -> true

(** val codec_wire_id : codec_wire -> n list **)

let codec_wire_id = function
| WItem i ->
  (match i with
   | IField (id, _, _) -> id :: []
   | IPad _ -> []
   | IStr (id, _) -> id :: [])
| WCounted (id, _, _) -> id :: []
| WBytes (id, _, _) -> id :: []
| WSwitch (id, _, _) -> id :: []
| WTagged (id, _) -> id :: []

(** val codec_ids : codec_desc -> n list **)

let codec_ids d =
  flat_map codec_wire_id d

(** val codec_nodupb : n list -> bool **)

let rec codec_nodupb = function
| [] -> true
| x :: r -> (&&) (negb (existsb (N.eqb x) r)) (codec_nodupb r)

(** val codec_is_greedy : codec_wire -> bool **)

let codec_is_greedy = function
| WBytes (_, l, _) -> (match l with
                       | LGreedy -> true
                       | _ -> false)
| _ -> false

(** val codec_nogreedy : codec_desc -> bool **)

let codec_nogreedy d =
  forallb (fun w -> negb (codec_is_greedy w)) d

(** val codec_counts_of : codec_desc -> (n * n) list **)

let codec_counts_of d =
  flat_map (fun w ->
    match w with
    | WItem i ->
      (match i with
       | IField (id, _, a) ->
         (match a with
          | ACount t -> (id, t) :: []
          | _ -> [])
       | _ -> [])
    | _ -> []) d

(** val codec_uses_of : codec_desc -> (n * n) list **)

let codec_uses_of d =
  flat_map (fun w ->
    match w with
    | WCounted (id, cnt, _) -> (cnt, id) :: []
    | WBytes (id, l, _) ->
      (match l with
       | LCount cnt -> (cnt, id) :: []
       | _ -> [])
    | WTagged (id, s) -> (s.tg_len, id) :: []
    | _ -> []) d

(** val codec_pair_eqb : (n * n) -> (n * n) -> bool **)

let codec_pair_eqb p q =
  (&&) (N.eqb (fst p) (fst q)) (N.eqb (snd p) (snd q))

(** val codec_wf_from : codec_desc -> (n * n) list -> bool **)

let rec codec_wf_from d seen =
  match d with
  | [] -> true
  | w :: d' ->
    (&&)
      (match w with
       | WItem i -> codec_wf_item true i
       | WCounted (id, cnt, body) ->
         (&&)
           ((&&) (forallb (codec_wf_item false) body)
             (Nat.leb (S O) (codec_items_size body)))
           (existsb (codec_pair_eqb (cnt, id)) seen)
       | WBytes (id, l, m) ->
         (&&)
           (match l with
            | LFixed _ -> true
            | LCount cnt -> existsb (codec_pair_eqb (cnt, id)) seen
            | LGreedy -> (match d' with
                          | [] -> true
                          | _ :: _ -> false))
           (match m with
            | BRaw -> true
            | BStr -> (match l with
                       | LCount _ -> true
                       | _ -> false)
            | BRewrite (_, _, src, dst) ->
              (&&)
                ((&&) (Nat.eqb (length src) (length dst))
                  (negb (codec_list_eqb src dst))) (codec_bytes_ok dst))
       | WSwitch (_, _, cases) ->
         forallb (fun c -> forallb (codec_wf_item false) (snd c)) cases
       | WTagged (id, s) ->
         (&&)
           ((&&) (existsb (codec_pair_eqb (s.tg_len, id)) seen)
             (forallb (fun c -> forallb (codec_wf_item false) (snd c))
               s.tg_cases))
           (match s.tg_sub with
            | Some p ->
              let (p0, subcases) = p in
              let (p1, _) = p0 in
              let (_, hitems) = p1 in
              (&&) (forallb (codec_wf_item false) hitems)
                (forallb (fun c -> forallb (codec_wf_item false) (snd c))
                  subcases)
            | None -> true))
      (codec_wf_from d'
        (match w with
         | WItem i ->
           (match i with
            | IField (id, _, a) ->
              (match a with
               | ACount t -> (id, t) :: seen
               | _ -> seen)
            | _ -> seen)
         | _ -> seen))

(** val codec_wf : codec_desc -> bool **)

let codec_wf d =
  (&&) ((&&) (codec_nodupb (codec_ids d)) (codec_wf_from d []))
    (forallb (fun p -> existsb (codec_pair_eqb p) (codec_uses_of d))
      (codec_counts_of d))

(** val py_d_PoseMessage : codec_desc **)

let py_d_PoseMessage =
  (WItem (IField ((Npos XH), U64, ATimestamp))) :: ((WItem (IField ((Npos (XO
    XH)), U64, ATimestamp))) :: ((WItem (IField ((Npos (XI XH)), U8, (AStrict
    (Z0 :: ((Zpos XH) :: ((Zpos (XO XH)) :: ((Zpos (XO (XO XH))) :: ((Zpos
    (XI (XO XH))) :: ((Zpos (XO (XI XH))) :: ((Zpos (XI (XO (XO
    XH)))) :: ((Zpos (XO (XI (XO XH)))) :: [])))))))))))) :: ((WItem (IField
    ((Npos (XO (XO XH))), U8, AId))) :: ((WItem (IField ((Npos (XI (XO XH))),
    S16, (ASentinel (Zneg (XO (XO (XO (XO (XO (XO (XO (XO (XO (XO (XO (XO (XO
    (XO (XO XH)))))))))))))))))))) :: ((WItem (IField ((Npos (XO (XI XH))),
    F64, AId))) :: ((WItem (IField ((Npos (XI (XI XH))), F64,
    AId))) :: ((WItem (IField ((Npos (XO (XO (XO XH)))), F64,
    AId))) :: ((WItem (IField ((Npos (XI (XO (XO XH)))), F32,
    AQuiet32))) :: ((WItem (IField ((Npos (XO (XI (XO XH)))), F32,
    AQuiet32))) :: ((WItem (IField ((Npos (XI (XI (XO XH)))), F32,
    AQuiet32))) :: ((WItem (IField ((Npos (XO (XO (XI XH)))), F64,
    AId))) :: ((WItem (IField ((Npos (XI (XO (XI XH)))), F64,
    AId))) :: ((WItem (IField ((Npos (XO (XI (XI XH)))), F64,
    AId))) :: ((WItem (IField ((Npos (XI (XI (XI XH)))), F32,
    AQuiet32))) :: ((WItem (IField ((Npos (XO (XO (XO (XO XH))))), F32,
    AQuiet32))) :: ((WItem (IField ((Npos (XI (XO (XO (XO XH))))), F32,
    AQuiet32))) :: ((WItem (IField ((Npos (XO (XI (XO (XO XH))))), F64,
    AId))) :: ((WItem (IField ((Npos (XI (XI (XO (XO XH))))), F64,
    AId))) :: ((WItem (IField ((Npos (XO (XO (XI (XO XH))))), F64,
    AId))) :: ((WItem (IField ((Npos (XI (XO (XI (XO XH))))), F32,
    AQuiet32))) :: ((WItem (IField ((Npos (XO (XI (XI (XO XH))))), F32,
    AQuiet32))) :: ((WItem (IField ((Npos (XI (XI (XI (XO XH))))), F32,
    AQuiet32))) :: ((WItem (IField ((Npos (XO (XO (XO (XI XH))))), F32,
    AQuiet32))) :: ((WItem (IField ((Npos (XI (XO (XO (XI XH))))), F32,
    AQuiet32))) :: ((WItem (IField ((Npos (XO (XI (XO (XI XH))))), F32,
    AQuiet32))) :: [])))))))))))))))))))))))))

(** val py_d_GNSSInfoMessage : codec_desc **)

let py_d_GNSSInfoMessage =
  (WItem (IField ((Npos XH), U64, ATimestamp))) :: ((WItem (IField ((Npos (XO
    XH)), U64, ATimestamp))) :: ((WItem (IField ((Npos (XI XH)), U8,
    AId))) :: ((WItem (IField ((Npos (XO (XO XH))), U8, AId))) :: ((WItem
    (IPad (Z0 :: (Z0 :: [])))) :: ((WItem (IField ((Npos (XI (XO XH))), U16,
    (ASentinel (Zpos (XI (XI (XI (XI (XI (XI (XI (XI (XI (XI (XI (XI (XI (XI
    (XI XH)))))))))))))))))))) :: ((WItem (IField ((Npos (XO (XI XH))), U16,
    (ASentinel (Zpos (XI (XI (XI (XI (XI (XI (XI (XI (XI (XI (XI (XI (XI (XI
    (XI XH)))))))))))))))))))) :: ((WItem (IField ((Npos (XI (XI XH))), U32,
    AId))) :: ((WItem (IField ((Npos (XO (XO (XO XH)))), F32,
    AQuiet32))) :: ((WItem (IField ((Npos (XI (XO (XO XH)))), F32,
    AQuiet32))) :: ((WItem (IField ((Npos (XO (XI (XO XH)))), F32,
    AQuiet32))) :: ((WItem (IField ((Npos (XI (XI (XO XH)))), F32,
    AQuiet32))) :: ((WItem (IField ((Npos (XO (XO (XI XH)))), F32,
    AQuiet32))) :: []))))))))))))

(** val py_d_GNSSSatelliteMessage : codec_desc **)

let py_d_GNSSSatelliteMessage =
  (WItem (IField ((Npos XH), U64, ATimestamp))) :: ((WItem (IField ((Npos (XO
    XH)), U64, ATimestamp))) :: ((WItem (IField ((Npos (XI XH)), U16, (ACount
    (Npos (XO (XO XH))))))) :: ((WItem (IPad
    (Z0 :: (Z0 :: [])))) :: ((WCounted ((Npos (XO (XO XH))), (Npos (XI XH)),
    ((IField ((Npos XH), U8, (AStrict (Z0 :: ((Zpos XH) :: ((Zpos (XO
    XH)) :: ((Zpos (XI XH)) :: ((Zpos (XO (XO XH))) :: ((Zpos (XI (XO
    XH))) :: ((Zpos (XO (XI XH))) :: ((Zpos (XI (XI XH))) :: ((Zpos (XO (XO
    (XO XH)))) :: ((Zpos (XI (XO (XO XH)))) :: []))))))))))))) :: ((IField
    ((Npos (XO XH)), U8, AId)) :: ((IField ((Npos (XI XH)), U8,
    AId)) :: ((IField ((Npos (XO (XO XH))), U8, (ASentinel Z0))) :: ((IField
    ((Npos (XI (XO XH))), F32, AQuiet32)) :: ((IField ((Npos (XO (XI XH))),
    F32, AQuiet32)) :: [])))))))) :: []))))

(** val py_d_PoseAuxMessage : codec_desc **)

let py_d_PoseAuxMessage =
  (WItem (IField ((Npos XH), U64, ATimestamp))) :: ((WItem (IField ((Npos (XO
    XH)), F32, AQuiet32))) :: ((WItem (IField ((Npos (XI XH)), F32,
    AQuiet32))) :: ((WItem (IField ((Npos (XO (XO XH))), F32,
    AQuiet32))) :: ((WItem (IField ((Npos (XI (XO XH))), F64,
    AId))) :: ((WItem (IField ((Npos (XO (XI XH))), F64, AId))) :: ((WItem
    (IField ((Npos (XI (XI XH))), F64, AId))) :: ((WItem (IField ((Npos (XO
    (XO (XO XH)))), F64, AId))) :: ((WItem (IField ((Npos (XI (XO (XO XH)))),
    F64, AId))) :: ((WItem (IField ((Npos (XO (XI (XO XH)))), F64,
    AId))) :: ((WItem (IField ((Npos (XI (XI (XO XH)))), F64,
    AId))) :: ((WItem (IField ((Npos (XO (XO (XI XH)))), F64,
    AId))) :: ((WItem (IField ((Npos (XI (XO (XI XH)))), F64,
    AId))) :: ((WItem (IField ((Npos (XO (XI (XI XH)))), F64,
    AId))) :: ((WItem (IField ((Npos (XI (XI (XI XH)))), F64,
    AId))) :: ((WItem (IField ((Npos (XO (XO (XO (XO XH))))), F64,
    AId))) :: ((WItem (IField ((Npos (XI (XO (XO (XO XH))))), F64,
    AId))) :: ((WItem (IField ((Npos (XO (XI (XO (XO XH))))), F64,
    AId))) :: ((WItem (IField ((Npos (XI (XI (XO (XO XH))))), F64,
    AId))) :: ((WItem (IField ((Npos (XO (XO (XI (XO XH))))), F64,
    AId))) :: ((WItem (IField ((Npos (XI (XO (XI (XO XH))))), F32,
    AQuiet32))) :: ((WItem (IField ((Npos (XO (XI (XI (XO XH))))), F32,
    AQuiet32))) :: ((WItem (IField ((Npos (XI (XI (XI (XO XH))))), F32,
    AQuiet32))) :: []))))))))))))))))))))))

(** val py_d_CalibrationStatus : codec_desc **)

let py_d_CalibrationStatus =
  (WItem (IField ((Npos XH), U64, ATimestamp))) :: ((WItem (IField ((Npos (XO
    XH)), U8, (AStrict (Z0 :: ((Zpos XH) :: ((Zpos (XI (XI (XI (XI (XI (XI
    (XI XH)))))))) :: []))))))) :: ((WItem (IPad
    (Z0 :: (Z0 :: (Z0 :: []))))) :: ((WItem (IField ((Npos (XI XH)), F32,
    AQuiet32))) :: ((WItem (IField ((Npos (XO (XO XH))), F32,
    AQuiet32))) :: ((WItem (IField ((Npos (XI (XO XH))), F32,
    AQuiet32))) :: ((WItem (IField ((Npos (XO (XI XH))), F32,
    AQuiet32))) :: ((WItem (IField ((Npos (XI (XI XH))), F32,
    AQuiet32))) :: ((WItem (IField ((Npos (XO (XO (XO XH)))), F32,
    AQuiet32))) :: ((WItem (IField ((Npos (XI (XO (XO XH)))), F32,
    AQuiet32))) :: ((WItem (IPad
    (Z0 :: (Z0 :: (Z0 :: (Z0 :: (Z0 :: (Z0 :: (Z0 :: (Z0 :: (Z0 :: (Z0 :: (Z0 :: (Z0 :: (Z0 :: (Z0 :: (Z0 :: (Z0 :: (Z0 :: (Z0 :: (Z0 :: (Z0 :: (Z0 :: (Z0 :: (Z0 :: (Z0 :: [])))))))))))))))))))))))))) :: ((WItem
    (IField ((Npos (XO (XI (XO XH)))), U8, ABool))) :: ((WItem (IPad
    (Z0 :: (Z0 :: (Z0 :: []))))) :: ((WItem (IField ((Npos (XI (XI (XO
    XH)))), U8, AId))) :: ((WItem (IField ((Npos (XO (XO (XI XH)))), U8,
    AId))) :: ((WItem (IField ((Npos (XI (XO (XI XH)))), U8,
    AId))) :: ((WItem (IPad
    (Z0 :: (Z0 :: (Z0 :: (Z0 :: (Z0 :: []))))))) :: ((WItem (IField ((Npos
    (XO (XI (XI XH)))), F32, AQuiet32))) :: ((WItem (IField ((Npos (XI (XI
    (XI XH)))), F32, AQuiet32))) :: ((WItem (IField ((Npos (XO (XO (XO (XO
    XH))))), F32, AQuiet32))) :: ((WItem (IField ((Npos (XI (XO (XO (XO
    XH))))), F32, AQuiet32))) :: []))))))))))))))))))))

(** val py_d_RelativeENUPositionMessage : codec_desc **)

let py_d_RelativeENUPositionMessage =
  (WItem (IField ((Npos XH), U64, ATimestamp))) :: ((WItem (IField ((Npos (XO
    XH)), U64, ATimestamp))) :: ((WItem (IField ((Npos (XI XH)), U8,
    AId))) :: ((WItem (IPad (Z0 :: (Z0 :: (Z0 :: []))))) :: ((WItem (IField
    ((Npos (XO (XO XH))), U32, AId))) :: ((WItem (IField ((Npos (XI (XO
    XH))), F64, AId))) :: ((WItem (IField ((Npos (XO (XI XH))), F64,
    AId))) :: ((WItem (IField ((Npos (XI (XI XH))), F64, AId))) :: ((WItem
    (IField ((Npos (XO (XO (XO XH)))), F32, AQuiet32))) :: ((WItem (IField
    ((Npos (XI (XO (XO XH)))), F32, AQuiet32))) :: ((WItem (IField ((Npos (XO
    (XI (XO XH)))), F32, AQuiet32))) :: []))))))))))

(** val py_d_SystemStatusMessage : codec_desc **)

let py_d_SystemStatusMessage =
  (WItem (IField ((Npos XH), U64, ATimestamp))) :: ((WItem (IField ((Npos (XO
    XH)), S16, (ASentinel (Zpos (XI (XI (XI (XI (XI (XI (XI (XI (XI (XI (XI
    (XI (XI (XI XH))))))))))))))))))) :: ((WItem (IField ((Npos (XI XH)),
    S16, (ASentinel (Zpos (XI (XI (XI (XI (XI (XI (XI (XI (XI (XI (XI (XI (XI
    (XI XH))))))))))))))))))) :: ((WItem (IPad
    (Z0 :: (Z0 :: (Z0 :: (Z0 :: (Z0 :: (Z0 :: (Z0 :: (Z0 :: (Z0 :: (Z0 :: (Z0 :: (Z0 :: (Z0 :: (Z0 :: (Z0 :: (Z0 :: (Z0 :: (Z0 :: (Z0 :: (Z0 :: (Z0 :: (Z0 :: (Z0 :: (Z0 :: (Z0 :: (Z0 :: (Z0 :: (Z0 :: (Z0 :: (Z0 :: (Z0 :: (Z0 :: (Z0 :: (Z0 :: (Z0 :: (Z0 :: (Z0 :: (Z0 :: (Z0 :: (Z0 :: (Z0 :: (Z0 :: (Z0 :: (Z0 :: (Z0 :: (Z0 :: (Z0 :: (Z0 :: (Z0 :: (Z0 :: (Z0 :: (Z0 :: (Z0 :: (Z0 :: (Z0 :: (Z0 :: (Z0 :: (Z0 :: (Z0 :: (Z0 :: (Z0 :: (Z0 :: (Z0 :: (Z0 :: (Z0 :: (Z0 :: (Z0 :: (Z0 :: (Z0 :: (Z0 :: (Z0 :: (Z0 :: (Z0 :: (Z0 :: (Z0 :: (Z0 :: (Z0 :: (Z0 :: (Z0 :: (Z0 :: (Z0 :: (Z0 :: (Z0 :: (Z0 :: (Z0 :: (Z0 :: (Z0 :: (Z0 :: (Z0 :: (Z0 :: (Z0 :: (Z0 :: (Z0 :: (Z0 :: (Z0 :: (Z0 :: (Z0 :: (Z0 :: (Z0 :: (Z0 :: (Z0 :: (Z0 :: (Z0 :: (Z0 :: (Z0 :: (Z0 :: (Z0 :: (Z0 :: (Z0 :: (Z0 :: (Z0 :: (Z0 :: (Z0 :: (Z0 :: (Z0 :: (Z0 :: [])))))))))))))))))))))))))))))))))))))))))))))))))))))))))))))))))))))))))))))))))))))))))))))))))))))))))))))))))))))) :: [])))

(** val py_d_IMUOutput : codec_desc **)

let py_d_IMUOutput =
  (WItem (IField ((Npos XH), U64, ATimestamp))) :: ((WItem (IField ((Npos (XO
    XH)), F64, AId))) :: ((WItem (IField ((Npos (XI XH)), F64,
    AId))) :: ((WItem (IField ((Npos (XO (XO XH))), F64, AId))) :: ((WItem
    (IField ((Npos (XI (XO XH))), F64, AId))) :: ((WItem (IField ((Npos (XO
    (XI XH))), F64, AId))) :: ((WItem (IField ((Npos (XI (XI XH))), F64,
    AId))) :: ((WItem (IField ((Npos (XO (XO (XO XH)))), F64,
    AId))) :: ((WItem (IField ((Npos (XI (XO (XO XH)))), F64,
    AId))) :: ((WItem (IField ((Npos (XO (XI (XO XH)))), F64,
    AId))) :: ((WItem (IField ((Npos (XI (XI (XO XH)))), F64,
    AId))) :: ((WItem (IField ((Npos (XO (XO (XI XH)))), F64,
    AId))) :: ((WItem (IField ((Npos (XI (XO (XI XH)))), F64,
    AId))) :: []))))))))))))

(** val py_d_RawIMUOutput : codec_desc **)

let py_d_RawIMUOutput =
  (WItem (IField ((Npos XH), U64, ATimestamp))) :: ((WItem (IField ((Npos (XO
    XH)), U8, AId))) :: ((WItem (IField ((Npos (XI XH)), U8,
    AId))) :: ((WItem (IPad (Z0 :: (Z0 :: [])))) :: ((WItem (IField ((Npos
    (XO (XO XH))), U64, ATimestamp))) :: ((WItem (IPad
    (Z0 :: (Z0 :: (Z0 :: (Z0 :: (Z0 :: (Z0 :: [])))))))) :: ((WItem (IField
    ((Npos (XI (XO XH))), S16, (ASentinel (Zpos (XI (XI (XI (XI (XI (XI (XI
    (XI (XI (XI (XI (XI (XI (XI XH))))))))))))))))))) :: ((WItem (IField
    ((Npos (XO (XI XH))), S32, (ASentinel (Zpos (XI (XI (XI (XI (XI (XI (XI
    (XI (XI (XI (XI (XI (XI (XI (XI (XI (XI (XI (XI (XI (XI (XI (XI (XI (XI
    (XI (XI (XI (XI (XI XH))))))))))))))))))))))))))))))))))) :: ((WItem
    (IField ((Npos (XI (XI XH))), S32, (ASentinel (Zpos (XI (XI (XI (XI (XI
    (XI (XI (XI (XI (XI (XI (XI (XI (XI (XI (XI (XI (XI (XI (XI (XI (XI (XI
    (XI (XI (XI (XI (XI (XI (XI
    XH))))))))))))))))))))))))))))))))))) :: ((WItem (IField ((Npos (XO (XO
    (XO XH)))), S32, (ASentinel (Zpos (XI (XI (XI (XI (XI (XI (XI (XI (XI (XI
    (XI (XI (XI (XI (XI (XI (XI (XI (XI (XI (XI (XI (XI (XI (XI (XI (XI (XI
    (XI (XI XH))))))))))))))))))))))))))))))))))) :: ((WItem (IField ((Npos
    (XI (XO (XO XH)))), S32, (ASentinel (Zpos (XI (XI (XI (XI (XI (XI (XI (XI
    (XI (XI (XI (XI (XI (XI (XI (XI (XI (XI (XI (XI (XI (XI (XI (XI (XI (XI
    (XI (XI (XI (XI XH))))))))))))))))))))))))))))))))))) :: ((WItem (IField
    ((Npos (XO (XI (XO XH)))), S32, (ASentinel (Zpos (XI (XI (XI (XI (XI (XI
    (XI (XI (XI (XI (XI (XI (XI (XI (XI (XI (XI (XI (XI (XI (XI (XI (XI (XI
    (XI (XI (XI (XI (XI (XI XH))))))))))))))))))))))))))))))))))) :: ((WItem
    (IField ((Npos (XI (XI (XO XH)))), S32, (ASentinel (Zpos (XI (XI (XI (XI
    (XI (XI (XI (XI (XI (XI (XI (XI (XI (XI (XI (XI (XI (XI (XI (XI (XI (XI
    (XI (XI (XI (XI (XI (XI (XI (XI
    XH))))))))))))))))))))))))))))))))))) :: []))))))))))))

(** val py_d_IMUInput : codec_desc **)

let py_d_IMUInput =
  (WItem (IField ((Npos XH), U64, ATimestamp))) :: ((WItem (IField ((Npos (XO
    XH)), U8, AId))) :: ((WItem (IField ((Npos (XI XH)), U8,
    AId))) :: ((WItem (IPad (Z0 :: (Z0 :: [])))) :: ((WItem (IPad ((Zpos (XI
    (XI (XI (XI (XI (XI (XI XH)))))))) :: ((Zpos (XI (XI (XI (XI (XI (XI (XI
    XH)))))))) :: ((Zpos (XI (XI (XI (XI (XI (XI (XI XH)))))))) :: ((Zpos (XI
    (XI (XI (XI (XI (XI (XI XH)))))))) :: ((Zpos (XI (XI (XI (XI (XI (XI (XI
    XH)))))))) :: ((Zpos (XI (XI (XI (XI (XI (XI (XI XH)))))))) :: ((Zpos (XI
    (XI (XI (XI (XI (XI (XI XH)))))))) :: ((Zpos (XI (XI (XI (XI (XI (XI (XI
    XH)))))))) :: [])))))))))) :: ((WItem (IPad
    (Z0 :: (Z0 :: (Z0 :: (Z0 :: (Z0 :: (Z0 :: [])))))))) :: ((WItem (IField
    ((Npos (XO (XO XH))), S16, (ASentinel (Zpos (XI (XI (XI (XI (XI (XI (XI
    (XI (XI (XI (XI (XI (XI (XI XH))))))))))))))))))) :: ((WItem (IField
    ((Npos (XI (XO XH))), S32, (ASentinel (Zpos (XI (XI (XI (XI (XI (XI (XI
    (XI (XI (XI (XI (XI (XI (XI (XI (XI (XI (XI (XI (XI (XI (XI (XI (XI (XI
    (XI (XI (XI (XI (XI XH))))))))))))))))))))))))))))))))))) :: ((WItem
    (IField ((Npos (XO (XI XH))), S32, (ASentinel (Zpos (XI (XI (XI (XI (XI
    (XI (XI (XI (XI (XI (XI (XI (XI (XI (XI (XI (XI (XI (XI (XI (XI (XI (XI
    (XI (XI (XI (XI (XI (XI (XI
    XH))))))))))))))))))))))))))))))))))) :: ((WItem (IField ((Npos (XI (XI
    XH))), S32, (ASentinel (Zpos (XI (XI (XI (XI (XI (XI (XI (XI (XI (XI (XI
    (XI (XI (XI (XI (XI (XI (XI (XI (XI (XI (XI (XI (XI (XI (XI (XI (XI (XI
    (XI XH))))))))))))))))))))))))))))))))))) :: ((WItem (IField ((Npos (XO
    (XO (XO XH)))), S32, (ASentinel (Zpos (XI (XI (XI (XI (XI (XI (XI (XI (XI
    (XI (XI (XI (XI (XI (XI (XI (XI (XI (XI (XI (XI (XI (XI (XI (XI (XI (XI
    (XI (XI (XI XH))))))))))))))))))))))))))))))))))) :: ((WItem (IField
    ((Npos (XI (XO (XO XH)))), S32, (ASentinel (Zpos (XI (XI (XI (XI (XI (XI
    (XI (XI (XI (XI (XI (XI (XI (XI (XI (XI (XI (XI (XI (XI (XI (XI (XI (XI
    (XI (XI (XI (XI (XI (XI XH))))))))))))))))))))))))))))))))))) :: ((WItem
    (IField ((Npos (XO (XI (XO XH)))), S32, (ASentinel (Zpos (XI (XI (XI (XI
    (XI (XI (XI (XI (XI (XI (XI (XI (XI (XI (XI (XI (XI (XI (XI (XI (XI (XI
    (XI (XI (XI (XI (XI (XI (XI (XI
    XH))))))))))))))))))))))))))))))))))) :: []))))))))))))

(** val py_d_GNSSAttitudeOutput : codec_desc **)

let py_d_GNSSAttitudeOutput =
  (WItem (IField ((Npos XH), U64, ATimestamp))) :: ((WItem (IField ((Npos (XO
    XH)), U8, (AStrict (Z0 :: ((Zpos XH) :: ((Zpos (XO XH)) :: ((Zpos (XI
    XH)) :: ((Zpos (XO (XO XH))) :: []))))))))) :: ((WItem (IField ((Npos (XI
    XH)), U8, (AStrict (Z0 :: ((Zpos XH) :: ((Zpos (XO XH)) :: ((Zpos (XI
    XH)) :: ((Zpos (XO (XO XH))) :: ((Zpos (XI (XO
    XH))) :: [])))))))))) :: ((WItem (IPad (Z0 :: (Z0 :: [])))) :: ((WItem
    (IField ((Npos (XO (XO XH))), U64, ATimestamp))) :: ((WItem (IField
    ((Npos (XI (XO XH))), U8, (AStrict (Z0 :: ((Zpos XH) :: ((Zpos (XO
    XH)) :: ((Zpos (XO (XO XH))) :: ((Zpos (XI (XO XH))) :: ((Zpos (XO (XI
    XH))) :: ((Zpos (XI (XO (XO XH)))) :: ((Zpos (XO (XI (XO
    XH)))) :: [])))))))))))) :: ((WItem (IPad
    (Z0 :: (Z0 :: (Z0 :: []))))) :: ((WItem (IField ((Npos (XO (XI XH))),
    U32, AId))) :: ((WItem (IField ((Npos (XI (XI XH))), F32,
    AQuiet32))) :: ((WItem (IField ((Npos (XO (XO (XO XH)))), F32,
    AQuiet32))) :: ((WItem (IField ((Npos (XI (XO (XO XH)))), F32,
    AQuiet32))) :: ((WItem (IField ((Npos (XO (XI (XO XH)))), F32,
    AQuiet32))) :: ((WItem (IField ((Npos (XI (XI (XO XH)))), F32,
    AQuiet32))) :: ((WItem (IField ((Npos (XO (XO (XI XH)))), F32,
    AQuiet32))) :: ((WItem (IField ((Npos (XI (XO (XI XH)))), F32,
    AQuiet32))) :: ((WItem (IField ((Npos (XO (XI (XI XH)))), F32,
    AQuiet32))) :: [])))))))))))))))

(** val py_d_RawGNSSAttitudeOutput : codec_desc **)

let py_d_RawGNSSAttitudeOutput =
  (WItem (IField ((Npos XH), U64, ATimestamp))) :: ((WItem (IField ((Npos (XO
    XH)), U8, (AStrict (Z0 :: ((Zpos XH) :: ((Zpos (XO XH)) :: ((Zpos (XI
    XH)) :: ((Zpos (XO (XO XH))) :: []))))))))) :: ((WItem (IField ((Npos (XI
    XH)), U8, (AStrict (Z0 :: ((Zpos XH) :: ((Zpos (XO XH)) :: ((Zpos (XI
    XH)) :: ((Zpos (XO (XO XH))) :: ((Zpos (XI (XO
    XH))) :: [])))))))))) :: ((WItem (IPad (Z0 :: (Z0 :: [])))) :: ((WItem
    (IField ((Npos (XO (XO XH))), U64, ATimestamp))) :: ((WItem (IField
    ((Npos (XI (XO XH))), U8, (AStrict (Z0 :: ((Zpos XH) :: ((Zpos (XO
    XH)) :: ((Zpos (XO (XO XH))) :: ((Zpos (XI (XO XH))) :: ((Zpos (XO (XI
    XH))) :: ((Zpos (XI (XO (XO XH)))) :: ((Zpos (XO (XI (XO
    XH)))) :: [])))))))))))) :: ((WItem (IPad
    (Z0 :: (Z0 :: (Z0 :: []))))) :: ((WItem (IField ((Npos (XO (XI XH))),
    U32, AId))) :: ((WItem (IField ((Npos (XI (XI XH))), F32,
    AQuiet32))) :: ((WItem (IField ((Npos (XO (XO (XO XH)))), F32,
    AQuiet32))) :: ((WItem (IField ((Npos (XI (XO (XO XH)))), F32,
    AQuiet32))) :: ((WItem (IField ((Npos (XO (XI (XO XH)))), F32,
    AQuiet32))) :: ((WItem (IField ((Npos (XI (XI (XO XH)))), F32,
    AQuiet32))) :: ((WItem (IField ((Npos (XO (XO (XI XH)))), F32,
    AQuiet32))) :: [])))))))))))))

(** val py_d_DeprecatedWheelSpeedMeasurement : codec_desc **)

let py_d_DeprecatedWheelSpeedMeasurement =
  (WItem (IField ((Npos XH), U64, ATimestamp))) :: ((WItem (IField ((Npos (XO
    XH)), U8, (AStrict (Z0 :: ((Zpos XH) :: ((Zpos (XO XH)) :: ((Zpos (XI
    XH)) :: ((Zpos (XO (XO XH))) :: []))))))))) :: ((WItem (IField ((Npos (XI
    XH)), U8, (AStrict (Z0 :: ((Zpos XH) :: ((Zpos (XO XH)) :: ((Zpos (XI
    XH)) :: ((Zpos (XO (XO XH))) :: ((Zpos (XI (XO
    XH))) :: [])))))))))) :: ((WItem (IPad (Z0 :: (Z0 :: [])))) :: ((WItem
    (IField ((Npos (XO (XO XH))), U64, ATimestamp))) :: ((WItem (IField
    ((Npos (XI (XO XH))), F32, AQuiet32))) :: ((WItem (IField ((Npos (XO (XI
    XH))), F32, AQuiet32))) :: ((WItem (IField ((Npos (XI (XI XH))), F32,
    AQuiet32))) :: ((WItem (IField ((Npos (XO (XO (XO XH)))), F32,
    AQuiet32))) :: ((WItem (IField ((Npos (XI (XO (XO XH)))), U8, (AStrict
    (Z0 :: ((Zpos XH) :: ((Zpos (XO XH)) :: ((Zpos (XI XH)) :: ((Zpos (XO (XO
    XH))) :: []))))))))) :: ((WItem (IField ((Npos (XO (XI (XO XH)))), U8,
    ABool))) :: ((WItem (IPad (Z0 :: (Z0 :: [])))) :: [])))))))))))

(** val py_d_DeprecatedVehicleSpeedMeasurement : codec_desc **)

let py_d_DeprecatedVehicleSpeedMeasurement =
  (WItem (IField ((Npos XH), U64, ATimestamp))) :: ((WItem (IField ((Npos (XO
    XH)), U8, (AStrict (Z0 :: ((Zpos XH) :: ((Zpos (XO XH)) :: ((Zpos (XI
    XH)) :: ((Zpos (XO (XO XH))) :: []))))))))) :: ((WItem (IField ((Npos (XI
    XH)), U8, (AStrict (Z0 :: ((Zpos XH) :: ((Zpos (XO XH)) :: ((Zpos (XI
    XH)) :: ((Zpos (XO (XO XH))) :: ((Zpos (XI (XO
    XH))) :: [])))))))))) :: ((WItem (IPad (Z0 :: (Z0 :: [])))) :: ((WItem
    (IField ((Npos (XO (XO XH))), U64, ATimestamp))) :: ((WItem (IField
    ((Npos (XI (XO XH))), F32, AQuiet32))) :: ((WItem (IField ((Npos (XO (XI
    XH))), U8, (AStrict (Z0 :: ((Zpos XH) :: ((Zpos (XO XH)) :: ((Zpos (XI
    XH)) :: ((Zpos (XO (XO XH))) :: []))))))))) :: ((WItem (IField ((Npos (XI
    (XI XH))), U8, ABool))) :: ((WItem (IPad
    (Z0 :: (Z0 :: [])))) :: []))))))))

(** val py_d_WheelTickInput : codec_desc **)

let py_d_WheelTickInput =
  (WItem (IField ((Npos XH), U64, ATimestamp))) :: ((WItem (IField ((Npos (XO
    XH)), U8, (AStrict (Z0 :: ((Zpos XH) :: ((Zpos (XO XH)) :: ((Zpos (XI
    XH)) :: ((Zpos (XO (XO XH))) :: []))))))))) :: ((WItem (IField ((Npos (XI
    XH)), U8, (AStrict (Z0 :: ((Zpos XH) :: ((Zpos (XO XH)) :: ((Zpos (XI
    XH)) :: ((Zpos (XO (XO XH))) :: ((Zpos (XI (XO
    XH))) :: [])))))))))) :: ((WItem (IPad (Z0 :: (Z0 :: ((Zpos (XI (XI (XI
    (XI (XI (XI (XI XH)))))))) :: ((Zpos (XI (XI (XI (XI (XI (XI (XI
    XH)))))))) :: ((Zpos (XI (XI (XI (XI (XI (XI (XI XH)))))))) :: ((Zpos (XI
    (XI (XI (XI (XI (XI (XI XH)))))))) :: ((Zpos (XI (XI (XI (XI (XI (XI (XI
    XH)))))))) :: ((Zpos (XI (XI (XI (XI (XI (XI (XI XH)))))))) :: ((Zpos (XI
    (XI (XI (XI (XI (XI (XI XH)))))))) :: ((Zpos (XI (XI (XI (XI (XI (XI (XI
    XH)))))))) :: [])))))))))))) :: ((WItem (IField ((Npos (XO (XO XH))),
    U32, AId))) :: ((WItem (IField ((Npos (XI (XO XH))), U32,
    AId))) :: ((WItem (IField ((Npos (XO (XI XH))), U32, AId))) :: ((WItem
    (IField ((Npos (XI (XI XH))), U32, AId))) :: ((WItem (IField ((Npos (XO
    (XO (XO XH)))), U8, (AStrict (Z0 :: ((Zpos XH) :: ((Zpos (XO
    XH)) :: ((Zpos (XI XH)) :: ((Zpos (XO (XO XH))) :: []))))))))) :: ((WItem
    (IPad (Z0 :: (Z0 :: (Z0 :: []))))) :: [])))))))))

(** val py_d_VehicleTickInput : codec_desc **)

let py_d_VehicleTickInput =
  (WItem (IField ((Npos XH), U64, ATimestamp))) :: ((WItem (IField ((Npos (XO
    XH)), U8, (AStrict (Z0 :: ((Zpos XH) :: ((Zpos (XO XH)) :: ((Zpos (XI
    XH)) :: ((Zpos (XO (XO XH))) :: []))))))))) :: ((WItem (IField ((Npos (XI
    XH)), U8, (AStrict (Z0 :: ((Zpos XH) :: ((Zpos (XO XH)) :: ((Zpos (XI
    XH)) :: ((Zpos (XO (XO XH))) :: ((Zpos (XI (XO
    XH))) :: [])))))))))) :: ((WItem (IPad (Z0 :: (Z0 :: ((Zpos (XI (XI (XI
    (XI (XI (XI (XI XH)))))))) :: ((Zpos (XI (XI (XI (XI (XI (XI (XI
    XH)))))))) :: ((Zpos (XI (XI (XI (XI (XI (XI (XI XH)))))))) :: ((Zpos (XI
    (XI (XI (XI (XI (XI (XI XH)))))))) :: ((Zpos (XI (XI (XI (XI (XI (XI (XI
    XH)))))))) :: ((Zpos (XI (XI (XI (XI (XI (XI (XI XH)))))))) :: ((Zpos (XI
    (XI (XI (XI (XI (XI (XI XH)))))))) :: ((Zpos (XI (XI (XI (XI (XI (XI (XI
    XH)))))))) :: [])))))))))))) :: ((WItem (IField ((Npos (XO (XO XH))),
    U32, AId))) :: ((WItem (IField ((Npos (XI (XO XH))), U8, (AStrict
    (Z0 :: ((Zpos XH) :: ((Zpos (XO XH)) :: ((Zpos (XI XH)) :: ((Zpos (XO (XO
    XH))) :: []))))))))) :: ((WItem (IPad
    (Z0 :: (Z0 :: (Z0 :: []))))) :: []))))))

(** val py_d_WheelSpeedInput : codec_desc **)

let py_d_WheelSpeedInput =
  (WItem (IField ((Npos XH), U64, ATimestamp))) :: ((WItem (IField ((Npos (XO
    XH)), U8, AId))) :: ((WItem (IField ((Npos (XI XH)), U8,
    AId))) :: ((WItem (IPad (Z0 :: (Z0 :: [])))) :: ((WItem (IPad ((Zpos (XI
    (XI (XI (XI (XI (XI (XI XH)))))))) :: ((Zpos (XI (XI (XI (XI (XI (XI (XI
    XH)))))))) :: ((Zpos (XI (XI (XI (XI (XI (XI (XI XH)))))))) :: ((Zpos (XI
    (XI (XI (XI (XI (XI (XI XH)))))))) :: ((Zpos (XI (XI (XI (XI (XI (XI (XI
    XH)))))))) :: ((Zpos (XI (XI (XI (XI (XI (XI (XI XH)))))))) :: ((Zpos (XI
    (XI (XI (XI (XI (XI (XI XH)))))))) :: ((Zpos (XI (XI (XI (XI (XI (XI (XI
    XH)))))))) :: [])))))))))) :: ((WItem (IField ((Npos (XO (XO XH))), S32,
    (ASentinel (Zpos (XI (XI (XI (XI (XI (XI (XI (XI (XI (XI (XI (XI (XI (XI
    (XI (XI (XI (XI (XI (XI (XI (XI (XI (XI (XI (XI (XI (XI (XI (XI
    XH))))))))))))))))))))))))))))))))))) :: ((WItem (IField ((Npos (XI (XO
    XH))), S32, (ASentinel (Zpos (XI (XI (XI (XI (XI (XI (XI (XI (XI (XI (XI
    (XI (XI (XI (XI (XI (XI (XI (XI (XI (XI (XI (XI (XI (XI (XI (XI (XI (XI
    (XI XH))))))))))))))))))))))))))))))))))) :: ((WItem (IField ((Npos (XO
    (XI XH))), S32, (ASentinel (Zpos (XI (XI (XI (XI (XI (XI (XI (XI (XI (XI
    (XI (XI (XI (XI (XI (XI (XI (XI (XI (XI (XI (XI (XI (XI (XI (XI (XI (XI
    (XI (XI XH))))))))))))))))))))))))))))))))))) :: ((WItem (IField ((Npos
    (XI (XI XH))), S32, (ASentinel (Zpos (XI (XI (XI (XI (XI (XI (XI (XI (XI
    (XI (XI (XI (XI (XI (XI (XI (XI (XI (XI (XI (XI (XI (XI (XI (XI (XI (XI
    (XI (XI (XI XH))))))))))))))))))))))))))))))))))) :: ((WItem (IField
    ((Npos (XO (XO (XO XH)))), U8, AId))) :: ((WItem (IField ((Npos (XI (XO
    (XO XH)))), U8, AId))) :: ((WItem (IPad
    (Z0 :: (Z0 :: [])))) :: [])))))))))))

(** val py_d_VehicleSpeedInput : codec_desc **)

let py_d_VehicleSpeedInput =
  (WItem (IField ((Npos XH), U64, ATimestamp))) :: ((WItem (IField ((Npos (XO
    XH)), U8, AId))) :: ((WItem (IField ((Npos (XI XH)), U8,
    AId))) :: ((WItem (IPad (Z0 :: (Z0 :: [])))) :: ((WItem (IPad ((Zpos (XI
    (XI (XI (XI (XI (XI (XI XH)))))))) :: ((Zpos (XI (XI (XI (XI (XI (XI (XI
    XH)))))))) :: ((Zpos (XI (XI (XI (XI (XI (XI (XI XH)))))))) :: ((Zpos (XI
    (XI (XI (XI (XI (XI (XI XH)))))))) :: ((Zpos (XI (XI (XI (XI (XI (XI (XI
    XH)))))))) :: ((Zpos (XI (XI (XI (XI (XI (XI (XI XH)))))))) :: ((Zpos (XI
    (XI (XI (XI (XI (XI (XI XH)))))))) :: ((Zpos (XI (XI (XI (XI (XI (XI (XI
    XH)))))))) :: [])))))))))) :: ((WItem (IField ((Npos (XO (XO XH))), S32,
    (ASentinel (Zpos (XI (XI (XI (XI (XI (XI (XI (XI (XI (XI (XI (XI (XI (XI
    (XI (XI (XI (XI (XI (XI (XI (XI (XI (XI (XI (XI (XI (XI (XI (XI
    XH))))))))))))))))))))))))))))))))))) :: ((WItem (IField ((Npos (XI (XO
    XH))), U8, AId))) :: ((WItem (IField ((Npos (XO (XI XH))), U8,
    AId))) :: ((WItem (IPad (Z0 :: (Z0 :: [])))) :: []))))))))

(** val py_d_RawWheelTickOutput : codec_desc **)

let py_d_RawWheelTickOutput =
  (WItem (IField ((Npos XH), U64, ATimestamp))) :: ((WItem (IField ((Npos (XO
    XH)), U8, (AStrict (Z0 :: ((Zpos XH) :: ((Zpos (XO XH)) :: ((Zpos (XI
    XH)) :: ((Zpos (XO (XO XH))) :: []))))))))) :: ((WItem (IField ((Npos (XI
    XH)), U8, (AStrict (Z0 :: ((Zpos XH) :: ((Zpos (XO XH)) :: ((Zpos (XI
    XH)) :: ((Zpos (XO (XO XH))) :: ((Zpos (XI (XO
    XH))) :: [])))))))))) :: ((WItem (IPad (Z0 :: (Z0 :: [])))) :: ((WItem
    (IField ((Npos (XO (XO XH))), U64, ATimestamp))) :: ((WItem (IField
    ((Npos (XI (XO XH))), U32, AId))) :: ((WItem (IField ((Npos (XO (XI
    XH))), U32, AId))) :: ((WItem (IField ((Npos (XI (XI XH))), U32,
    AId))) :: ((WItem (IField ((Npos (XO (XO (XO XH)))), U32,
    AId))) :: ((WItem (IField ((Npos (XI (XO (XO XH)))), U8, (AStrict
    (Z0 :: ((Zpos XH) :: ((Zpos (XO XH)) :: ((Zpos (XI XH)) :: ((Zpos (XO (XO
    XH))) :: []))))))))) :: ((WItem (IPad
    (Z0 :: (Z0 :: (Z0 :: []))))) :: []))))))))))

(** val py_d_RawVehicleTickOutput : codec_desc **)

let py_d_RawVehicleTickOutput =
  (WItem (IField ((Npos XH), U64, ATimestamp))) :: ((WItem (IField ((Npos (XO
    XH)), U8, (AStrict (Z0 :: ((Zpos XH) :: ((Zpos (XO XH)) :: ((Zpos (XI
    XH)) :: ((Zpos (XO (XO XH))) :: []))))))))) :: ((WItem (IField ((Npos (XI
    XH)), U8, (AStrict (Z0 :: ((Zpos XH) :: ((Zpos (XO XH)) :: ((Zpos (XI
    XH)) :: ((Zpos (XO (XO XH))) :: ((Zpos (XI (XO
    XH))) :: [])))))))))) :: ((WItem (IPad (Z0 :: (Z0 :: [])))) :: ((WItem
    (IField ((Npos (XO (XO XH))), U64, ATimestamp))) :: ((WItem (IField
    ((Npos (XI (XO XH))), U32, AId))) :: ((WItem (IField ((Npos (XO (XI
    XH))), U8, (AStrict (Z0 :: ((Zpos XH) :: ((Zpos (XO XH)) :: ((Zpos (XI
    XH)) :: ((Zpos (XO (XO XH))) :: []))))))))) :: ((WItem (IPad
    (Z0 :: (Z0 :: (Z0 :: []))))) :: [])))))))

(** val py_d_RawWheelSpeedOutput : codec_desc **)

let py_d_RawWheelSpeedOutput =
  (WItem (IField ((Npos XH), U64, ATimestamp))) :: ((WItem (IField ((Npos (XO
    XH)), U8, AId))) :: ((WItem (IField ((Npos (XI XH)), U8,
    AId))) :: ((WItem (IPad (Z0 :: (Z0 :: [])))) :: ((WItem (IField ((Npos
    (XO (XO XH))), U64, ATimestamp))) :: ((WItem (IField ((Npos (XI (XO
    XH))), S32, (ASentinel (Zpos (XI (XI (XI (XI (XI (XI (XI (XI (XI (XI (XI
    (XI (XI (XI (XI (XI (XI (XI (XI (XI (XI (XI (XI (XI (XI (XI (XI (XI (XI
    (XI XH))))))))))))))))))))))))))))))))))) :: ((WItem (IField ((Npos (XO
    (XI XH))), S32, (ASentinel (Zpos (XI (XI (XI (XI (XI (XI (XI (XI (XI (XI
    (XI (XI (XI (XI (XI (XI (XI (XI (XI (XI (XI (XI (XI (XI (XI (XI (XI (XI
    (XI (XI XH))))))))))))))))))))))))))))))))))) :: ((WItem (IField ((Npos
    (XI (XI XH))), S32, (ASentinel (Zpos (XI (XI (XI (XI (XI (XI (XI (XI (XI
    (XI (XI (XI (XI (XI (XI (XI (XI (XI (XI (XI (XI (XI (XI (XI (XI (XI (XI
    (XI (XI (XI XH))))))))))))))))))))))))))))))))))) :: ((WItem (IField
    ((Npos (XO (XO (XO XH)))), S32, (ASentinel (Zpos (XI (XI (XI (XI (XI (XI
    (XI (XI (XI (XI (XI (XI (XI (XI (XI (XI (XI (XI (XI (XI (XI (XI (XI (XI
    (XI (XI (XI (XI (XI (XI XH))))))))))))))))))))))))))))))))))) :: ((WItem
    (IField ((Npos (XI (XO (XO XH)))), U8, AId))) :: ((WItem (IField ((Npos
    (XO (XI (XO XH)))), U8, AId))) :: ((WItem (IPad
    (Z0 :: (Z0 :: [])))) :: [])))))))))))

(** val py_d_RawVehicleSpeedOutput : codec_desc **)

let py_d_RawVehicleSpeedOutput =
  (WItem (IField ((Npos XH), U64, ATimestamp))) :: ((WItem (IField ((Npos (XO
    XH)), U8, AId))) :: ((WItem (IField ((Npos (XI XH)), U8,
    AId))) :: ((WItem (IPad (Z0 :: (Z0 :: [])))) :: ((WItem (IField ((Npos
    (XO (XO XH))), U64, ATimestamp))) :: ((WItem (IField ((Npos (XI (XO
    XH))), S32, (ASentinel (Zpos (XI (XI (XI (XI (XI (XI (XI (XI (XI (XI (XI
    (XI (XI (XI (XI (XI (XI (XI (XI (XI (XI (XI (XI (XI (XI (XI (XI (XI (XI
    (XI XH))))))))))))))))))))))))))))))))))) :: ((WItem (IField ((Npos (XO
    (XI XH))), U8, AId))) :: ((WItem (IField ((Npos (XI (XI XH))), U8,
    AId))) :: ((WItem (IPad (Z0 :: (Z0 :: [])))) :: []))))))))

(** val py_d_WheelSpeedOutput : codec_desc **)

let py_d_WheelSpeedOutput =
  (WItem (IField ((Npos XH), U64, ATimestamp))) :: ((WItem (IField ((Npos (XO
    XH)), U8, AId))) :: ((WItem (IField ((Npos (XI XH)), U8,
    AId))) :: ((WItem (IField ((Npos (XO (XO XH))), U8, AId))) :: ((WItem
    (IPad (Z0 :: []))) :: ((WItem (IField ((Npos (XI (XO XH))), F32,
    AQuiet32))) :: ((WItem (IField ((Npos (XO (XI XH))), F32,
    AQuiet32))) :: ((WItem (IField ((Npos (XI (XI XH))), F32,
    AQuiet32))) :: ((WItem (IField ((Npos (XO (XO (XO XH)))), F32,
    AQuiet32))) :: []))))))))

(** val py_d_VehicleSpeedOutput : codec_desc **)

let py_d_VehicleSpeedOutput =
  (WItem (IField ((Npos XH), U64, ATimestamp))) :: ((WItem (IField ((Npos (XO
    XH)), U8, AId))) :: ((WItem (IField ((Npos (XI XH)), U8,
    AId))) :: ((WItem (IField ((Npos (XO (XO XH))), U8, AId))) :: ((WItem
    (IPad (Z0 :: []))) :: ((WItem (IField ((Npos (XI (XO XH))), F32,
    AQuiet32))) :: [])))))

(** val py_d_ROSPoseMessage : codec_desc **)

let py_d_ROSPoseMessage =
  (WItem (IField ((Npos XH), U64, ATimestamp))) :: ((WItem (IField ((Npos (XO
    XH)), F64, AId))) :: ((WItem (IField ((Npos (XI XH)), F64,
    AId))) :: ((WItem (IField ((Npos (XO (XO XH))), F64, AId))) :: ((WItem
    (IField ((Npos (XI (XO XH))), F64, AId))) :: ((WItem (IField ((Npos (XO
    (XI XH))), F64, AId))) :: ((WItem (IField ((Npos (XI (XI XH))), F64,
    AId))) :: ((WItem (IField ((Npos (XO (XO (XO XH)))), F64,
    AId))) :: [])))))))

(** val py_d_ROSGPSFixMessage : codec_desc **)

let py_d_ROSGPSFixMessage =
  (WItem (IField ((Npos XH), U64, ATimestamp))) :: ((WItem (IField ((Npos (XO
    XH)), F64, AId))) :: ((WItem (IField ((Npos (XI XH)), F64,
    AId))) :: ((WItem (IField ((Npos (XO (XO XH))), F64, AId))) :: ((WItem
    (IField ((Npos (XI (XO XH))), F64, AId))) :: ((WItem (IField ((Npos (XO
    (XI XH))), F64, AId))) :: ((WItem (IField ((Npos (XI (XI XH))), F64,
    AId))) :: ((WItem (IField ((Npos (XO (XO (XO XH)))), F64,
    AId))) :: ((WItem (IField ((Npos (XI (XO (XO XH)))), F64,
    AId))) :: ((WItem (IField ((Npos (XO (XI (XO XH)))), F64,
    AId))) :: ((WItem (IField ((Npos (XI (XI (XO XH)))), F64,
    AId))) :: ((WItem (IField ((Npos (XO (XO (XI XH)))), F64,
    AId))) :: ((WItem (IField ((Npos (XI (XO (XI XH)))), F64,
    AId))) :: ((WItem (IField ((Npos (XO (XI (XI XH)))), F64,
    AId))) :: ((WItem (IField ((Npos (XI (XI (XI XH)))), F64,
    AId))) :: ((WItem (IField ((Npos (XO (XO (XO (XO XH))))), F64,
    AId))) :: ((WItem (IField ((Npos (XI (XO (XO (XO XH))))), F64,
    AId))) :: ((WItem (IField ((Npos (XO (XI (XO (XO XH))))), F64,
    AId))) :: ((WItem (IField ((Npos (XI (XI (XO (XO XH))))), F64,
    AId))) :: ((WItem (IField ((Npos (XO (XO (XI (XO XH))))), F64,
    AId))) :: ((WItem (IField ((Npos (XI (XO (XI (XO XH))))), F64,
    AId))) :: ((WItem (IField ((Npos (XO (XI (XI (XO XH))))), F64,
    AId))) :: ((WItem (IField ((Npos (XI (XI (XI (XO XH))))), F64,
    AId))) :: ((WItem (IField ((Npos (XO (XO (XO (XI XH))))), F64,
    AId))) :: ((WItem (IField ((Npos (XI (XO (XO (XI XH))))), F64,
    AId))) :: ((WItem (IField ((Npos (XO (XI (XO (XI XH))))), F64,
    AId))) :: ((WItem (IField ((Npos (XI (XI (XO (XI XH))))), F64,
    AId))) :: ((WItem (IField ((Npos (XO (XO (XI (XI XH))))), F64,
    AId))) :: ((WItem (IField ((Npos (XI (XO (XI (XI XH))))), F64,
    AId))) :: ((WItem (IField ((Npos (XO (XI (XI (XI XH))))), F64,
    AId))) :: ((WItem (IField ((Npos (XI (XI (XI (XI XH))))), F64,
    AId))) :: ((WItem (IField ((Npos (XO (XO (XO (XO (XO XH)))))), F64,
    AId))) :: ((WItem (IField ((Npos (XI (XO (XO (XO (XO XH)))))), F64,
    AId))) :: ((WItem (IField ((Npos (XO (XI (XO (XO (XO XH)))))), F64,
    AId))) :: ((WItem (IField ((Npos (XI (XI (XO (XO (XO XH)))))), F64,
    AId))) :: ((WItem (IField ((Npos (XO (XO (XI (XO (XO XH)))))), U8,
    AId))) :: ((WItem (IField ((Npos (XI (XO (XI (XO (XO XH)))))), U8,
    AId))) :: ((WItem (IField ((Npos (XO (XI (XI (XO (XO XH)))))), U8,
    AId))) :: ((WItem (IField ((Npos (XI (XI (XI (XO (XO XH)))))), U8,
    AId))) :: []))))))))))))))))))))))))))))))))))))))

(** val py_d_ROSIMUMessage : codec_desc **)

let py_d_ROSIMUMessage =
  (WItem (IField ((Npos XH), U64, ATimestamp))) :: ((WItem (IField ((Npos (XO
    XH)), F64, AId))) :: ((WItem (IField ((Npos (XI XH)), F64,
    AId))) :: ((WItem (IField ((Npos (XO (XO XH))), F64, AId))) :: ((WItem
    (IField ((Npos (XI (XO XH))), F64, AId))) :: ((WItem (IField ((Npos (XO
    (XI XH))), F64, AId))) :: ((WItem (IField ((Npos (XI (XI XH))), F64,
    AId))) :: ((WItem (IField ((Npos (XO (XO (XO XH)))), F64,
    AId))) :: ((WItem (IField ((Npos (XI (XO (XO XH)))), F64,
    AId))) :: ((WItem (IField ((Npos (XO (XI (XO XH)))), F64,
    AId))) :: ((WItem (IField ((Npos (XI (XI (XO XH)))), F64,
    AId))) :: ((WItem (IField ((Npos (XO (XO (XI XH)))), F64,
    AId))) :: ((WItem (IField ((Npos (XI (XO (XI XH)))), F64,
    AId))) :: ((WItem (IField ((Npos (XO (XI (XI XH)))), F64,
    AId))) :: ((WItem (IField ((Npos (XI (XI (XI XH)))), F64,
    AId))) :: ((WItem (IField ((Npos (XO (XO (XO (XO XH))))), F64,
    AId))) :: ((WItem (IField ((Npos (XI (XO (XO (XO XH))))), F64,
    AId))) :: ((WItem (IField ((Npos (XO (XI (XO (XO XH))))), F64,
    AId))) :: ((WItem (IField ((Npos (XI (XI (XO (XO XH))))), F64,
    AId))) :: ((WItem (IField ((Npos (XO (XO (XI (XO XH))))), F64,
    AId))) :: ((WItem (IField ((Npos (XI (XO (XI (XO XH))))), F64,
    AId))) :: ((WItem (IField ((Npos (XO (XI (XI (XO XH))))), F64,
    AId))) :: ((WItem (IField ((Npos (XI (XI (XI (XO XH))))), F64,
    AId))) :: ((WItem (IField ((Npos (XO (XO (XO (XI XH))))), F64,
    AId))) :: ((WItem (IField ((Npos (XI (XO (XO (XI XH))))), F64,
    AId))) :: ((WItem (IField ((Npos (XO (XI (XO (XI XH))))), F64,
    AId))) :: ((WItem (IField ((Npos (XI (XI (XO (XI XH))))), F64,
    AId))) :: ((WItem (IField ((Npos (XO (XO (XI (XI XH))))), F64,
    AId))) :: ((WItem (IField ((Npos (XI (XO (XI (XI XH))))), F64,
    AId))) :: ((WItem (IField ((Npos (XO (XI (XI (XI XH))))), F64,
    AId))) :: ((WItem (IField ((Npos (XI (XI (XI (XI XH))))), F64,
    AId))) :: ((WItem (IField ((Npos (XO (XO (XO (XO (XO XH)))))), F64,
    AId))) :: ((WItem (IField ((Npos (XI (XO (XO (XO (XO XH)))))), F64,
    AId))) :: ((WItem (IField ((Npos (XO (XI (XO (XO (XO XH)))))), F64,
    AId))) :: ((WItem (IField ((Npos (XI (XI (XO (XO (XO XH)))))), F64,
    AId))) :: ((WItem (IField ((Npos (XO (XO (XI (XO (XO XH)))))), F64,
    AId))) :: ((WItem (IField ((Npos (XI (XO (XI (XO (XO XH)))))), F64,
    AId))) :: ((WItem (IField ((Npos (XO (XI (XI (XO (XO XH)))))), F64,
    AId))) :: [])))))))))))))))))))))))))))))))))))))

(** val py_d_CommandResponseMessage : codec_desc **)

let py_d_CommandResponseMessage =
  (WItem (IField ((Npos XH), U32, AId))) :: ((WItem (IField ((Npos (XO XH)),
    U8, AId))) :: ((WItem (IPad (Z0 :: (Z0 :: (Z0 :: []))))) :: []))

(** val py_d_MessageRequest : codec_desc **)

let py_d_MessageRequest =
  (WItem (IField ((Npos XH), U16, (AStrict (Z0 :: ((Zpos (XO (XO (XO (XO (XI
    (XO (XO (XO (XI (XI (XI (XO (XO XH)))))))))))))) :: ((Zpos (XI (XO (XO
    (XO (XI (XO (XO (XO (XI (XI (XI (XO (XO XH)))))))))))))) :: ((Zpos (XO
    (XI (XO (XO (XI (XO (XO (XO (XI (XI (XI (XO (XO
    XH)))))))))))))) :: ((Zpos (XI (XI (XO (XO (XI (XO (XO (XO (XI (XI (XI
    (XO (XO XH)))))))))))))) :: ((Zpos (XO (XO (XI (XO (XI (XO (XO (XO (XI
    (XI (XI (XO (XO XH)))))))))))))) :: ((Zpos (XI (XO (XI (XO (XI (XO (XO
    (XO (XI (XI (XI (XO (XO XH)))))))))))))) :: ((Zpos (XO (XO (XI (XO (XO
    (XO (XO (XO (XI (XO (XO (XI (XO XH)))))))))))))) :: ((Zpos (XO (XO (XO
    (XI (XI (XI (XI (XI (XO (XI (XO (XI (XO XH)))))))))))))) :: ((Zpos (XI
    (XO (XO (XI (XI (XI (XI (XI (XO (XI (XO (XI (XO
    XH)))))))))))))) :: ((Zpos (XO (XI (XO (XI (XI (XI (XI (XI (XO (XI (XO
    (XI (XO XH)))))))))))))) :: ((Zpos (XI (XI (XO (XI (XI (XI (XI (XI (XO
    (XI (XO (XI (XO XH)))))))))))))) :: ((Zpos (XO (XO (XI (XI (XI (XI (XI
    (XI (XO (XI (XO (XI (XO XH)))))))))))))) :: ((Zpos (XI (XO (XI (XI (XI
    (XI (XI (XI (XO (XI (XO (XI (XO XH)))))))))))))) :: ((Zpos (XO (XI (XI
    (XI (XI (XI (XI (XI (XO (XI (XO (XI (XO XH)))))))))))))) :: ((Zpos (XI
    (XO (XI (XI (XI (XO (XI (XO (XI (XI (XO (XI (XO
    XH)))))))))))))) :: ((Zpos (XO (XI (XI (XI (XI (XO (XI (XO (XI (XI (XO
    (XI (XO XH)))))))))))))) :: ((Zpos (XI (XI (XI (XI (XI (XO (XI (XO (XI
    (XI (XO (XI (XO XH)))))))))))))) :: ((Zpos (XO (XO (XO (XO (XO (XI (XI
    (XO (XI (XI (XO (XI (XO XH)))))))))))))) :: ((Zpos (XI (XO (XO (XO (XO
    (XI (XI (XO (XI (XI (XO (XI (XO XH)))))))))))))) :: ((Zpos (XO (XI (XO
    (XO (XO (XI (XI (XO (XI (XI (XO (XI (XO XH)))))))))))))) :: ((Zpos (XI
    (XI (XO (XO (XI (XI (XI (XO (XI (XI (XO (XI (XO
    XH)))))))))))))) :: ((Zpos (XO (XO (XI (XO (XI (XI (XI (XO (XI (XI (XO
    (XI (XO XH)))))))))))))) :: ((Zpos (XI (XO (XI (XO (XI (XI (XI (XO (XI
    (XI (XO (XI (XO XH)))))))))))))) :: ((Zpos (XO (XI (XI (XO (XI (XI (XI
    (XO (XI (XI (XO (XI (XO XH)))))))))))))) :: ((Zpos (XI (XI (XI (XI (XI
    (XI (XI (XO (XI (XI (XO (XI (XO XH)))))))))))))) :: ((Zpos (XO (XO (XO
    (XO (XO (XO (XO (XI (XI (XI (XO (XI (XO XH)))))))))))))) :: ((Zpos (XO
    (XO (XO (XO (XO (XI (XI (XI (XO (XI (XI (XI (XO
    XH)))))))))))))) :: ((Zpos (XO (XI (XO (XI (XO (XI (XI (XI (XO (XI (XI
    (XI (XO XH)))))))))))))) :: ((Zpos (XI (XI (XO (XI (XO (XI (XI (XI (XO
    (XI (XI (XI (XO XH)))))))))))))) :: ((Zpos (XO (XO (XO (XI (XO (XO (XI
    (XI (XO (XI (XO (XO (XI XH)))))))))))))) :: ((Zpos (XI (XO (XO (XI (XO
    (XO (XI (XI (XO (XI (XO (XO (XI XH)))))))))))))) :: ((Zpos (XO (XI (XO
    (XI (XO (XO (XI (XI (XO (XI (XO (XO (XI XH)))))))))))))) :: ((Zpos (XI
    (XI (XO (XI (XO (XO (XI (XI (XO (XI (XO (XO (XI
    XH)))))))))))))) :: ((Zpos (XO (XO (XI (XI (XO (XO (XI (XI (XO (XI (XO
    (XO (XI XH)))))))))))))) :: ((Zpos (XI (XO (XI (XI (XO (XO (XI (XI (XO
    (XI (XO (XO (XI XH)))))))))))))) :: ((Zpos (XO (XI (XI (XI (XO (XO (XI
    (XI (XO (XI (XO (XO (XI XH)))))))))))))) :: ((Zpos (XI (XI (XI (XI (XO
    (XO (XI (XI (XO (XI (XO (XO (XI XH)))))))))))))) :: ((Zpos (XO (XO (XO
    (XO (XI (XO (XI (XI (XO (XI (XO (XO (XI XH)))))))))))))) :: ((Zpos (XO
    (XO (XI (XI (XO (XI (XO (XO (XI (XI (XO (XO (XI
    XH)))))))))))))) :: ((Zpos (XI (XO (XI (XI (XO (XI (XO (XO (XI (XI (XO
    (XO (XI XH)))))))))))))) :: ((Zpos (XO (XI (XI (XI (XO (XI (XO (XO (XI
    (XI (XO (XO (XI XH)))))))))))))) :: ((Zpos (XI (XI (XI (XI (XO (XI (XO
    (XO (XI (XI (XO (XO (XI XH)))))))))))))) :: ((Zpos (XO (XI (XI (XO (XI
    (XI (XO (XO (XI (XI (XO (XO (XI XH)))))))))))))) :: ((Zpos (XI (XI (XI
    (XO (XI (XI (XO (XO (XI (XI (XO (XO (XI XH)))))))))))))) :: ((Zpos (XI
    (XO (XO (XI (XI (XI (XO (XO (XI (XI (XO (XO (XI
    XH)))))))))))))) :: ((Zpos (XO (XO (XO (XO (XO (XO (XI (XO (XI (XI (XO
    (XO (XI XH)))))))))))))) :: ((Zpos (XO (XO (XI (XO (XO (XI (XO (XI (XI
    (XI (XO (XO (XI XH)))))))))))))) :: ((Zpos (XI (XO (XI (XO (XO (XI (XO
    (XI (XI (XI (XO (XO (XI XH)))))))))))))) :: ((Zpos (XO (XI (XI (XO (XO
    (XI (XO (XI (XI (XI (XO (XO (XI XH)))))))))))))) :: ((Zpos (XI (XI (XI
    (XO (XO (XI (XO (XI (XI (XI (XO (XO (XI XH)))))))))))))) :: ((Zpos (XO
    (XO (XO (XO (XI (XI (XO (XI (XO (XI (XI (XO (XI
    XH)))))))))))))) :: ((Zpos (XO (XO (XI (XO (XI (XO (XO (XO (XI (XI (XI
    (XO (XI XH)))))))))))))) :: ((Zpos (XI (XO (XI (XO (XI (XO (XO (XO (XI
    (XI (XI (XO (XI XH)))))))))))))) :: ((Zpos (XO (XI (XI (XO (XI (XO (XO
    (XO (XI (XI (XI (XO (XI XH)))))))))))))) :: ((Zpos (XO (XO (XO (XO (XO
    (XI (XO (XO (XO (XI (XI (XI (XO (XO
    XH))))))))))))))) :: [])))))))))))))))))))))))))))))))))))))))))))))))))))))))))))) :: ((WItem
    (IPad (Z0 :: (Z0 :: [])))) :: [])

(** val py_d_ResetRequest : codec_desc **)

let py_d_ResetRequest =
  (WItem (IField ((Npos XH), U32, AId))) :: []

(** val py_d_VersionInfoMessage : codec_desc **)

let py_d_VersionInfoMessage =
  (WItem (IField ((Npos XH), S64, AId))) :: ((WItem (IField ((Npos (XO XH)),
    U8, (ACount (Npos (XO (XI XH))))))) :: ((WItem (IField ((Npos (XI XH)),
    U8, (ACount (Npos (XI (XI XH))))))) :: ((WItem (IField ((Npos (XO (XO
    XH))), U8, (ACount (Npos (XO (XO (XO XH)))))))) :: ((WItem (IField ((Npos
    (XI (XO XH))), U8, (ACount (Npos (XI (XO (XO XH)))))))) :: ((WItem (IPad
    (Z0 :: (Z0 :: (Z0 :: (Z0 :: [])))))) :: ((WBytes ((Npos (XO (XI XH))),
    (LCount (Npos (XO XH))), BStr)) :: ((WBytes ((Npos (XI (XI XH))), (LCount
    (Npos (XI XH))), BStr)) :: ((WBytes ((Npos (XO (XO (XO XH)))), (LCount
    (Npos (XO (XO XH)))), BStr)) :: ((WBytes ((Npos (XI (XO (XO XH)))),
    (LCount (Npos (XI (XO XH)))), BStr)) :: [])))))))))

(** val py_d_EventNotificationMessage : codec_desc **)

let py_d_EventNotificationMessage =
  (WItem (IField ((Npos XH), U8, AId))) :: ((WItem (IPad
    (Z0 :: (Z0 :: (Z0 :: []))))) :: ((WItem (IField ((Npos (XO XH)), S64,
    AId))) :: ((WItem (IField ((Npos (XI XH)), U64, AId))) :: ((WItem (IField
    ((Npos (XO (XO XH))), U16, (ACount (Npos (XI (XO XH))))))) :: ((WItem
    (IPad (Z0 :: (Z0 :: [])))) :: ((WBytes ((Npos (XI (XO XH))), (LCount
    (Npos (XO (XO XH)))), (BRewrite ((Npos XH), ((Zpos (XI XH)) :: ((Zpos (XO
    (XO XH))) :: [])), ((Zpos (XI (XI (XI (XI (XO XH)))))) :: ((Zpos (XO (XI
    (XO (XO (XI XH)))))) :: [])), ((Zpos (XO (XI (XI (XI (XO
    XH)))))) :: ((Zpos (XI (XO (XO (XO (XI XH)))))) :: [])))))) :: []))))))

(** val py_d_ShutdownRequest : codec_desc **)

let py_d_ShutdownRequest =
  (WItem (IField ((Npos XH), U64, AId))) :: ((WItem (IPad
    (Z0 :: (Z0 :: (Z0 :: (Z0 :: (Z0 :: (Z0 :: (Z0 :: (Z0 :: [])))))))))) :: [])

(** val py_d_FaultControlMessage : codec_desc **)

let py_d_FaultControlMessage =
  (WItem (IField ((Npos XH), U8, AId))) :: ((WItem (IPad
    (Z0 :: (Z0 :: (Z0 :: (Z0 :: (Z0 :: (Z0 :: (Z0 :: (Z0 :: (Z0 :: (Z0 :: (Z0 :: (Z0 :: (Z0 :: (Z0 :: (Z0 :: []))))))))))))))))) :: ((WItem
    (IField ((Npos (XO XH)), U32, (ACount (Npos (XI XH)))))) :: ((WTagged
    ((Npos (XI XH)), { tg_tag = (Npos XH); tg_len = (Npos (XO XH)); tg_skip =
    None; tg_cases = ((Z0, []) :: (((Zpos XH), []) :: (((Zpos (XO XH)),
    []) :: (((Zpos (XI XH)), ((IField ((Npos XH), U8,
    AId)) :: [])) :: (((Zpos (XO (XO XH))), ((IField ((Npos XH), U8,
    ABool)) :: [])) :: (((Zpos (XI (XO XH))), ((IField ((Npos XH), U8,
    ABool)) :: [])) :: (((Zpos (XO (XI XH))), ((IField ((Npos XH), U8,
    ABool)) :: [])) :: (((Zpos (XI (XI XH))), ((IField ((Npos XH), U8,
    AId)) :: [])) :: [])))))))); tg_sub = None; tg_opaque = false })) :: [])))

(** val py_d_DeviceIDMessage : codec_desc **)

let py_d_DeviceIDMessage =
  (WItem (IField ((Npos XH), S64, AId))) :: ((WItem (IField ((Npos (XO XH)),
    U8, AId))) :: ((WItem (IField ((Npos (XI XH)), U8, (ACount (Npos (XO (XI
    XH))))))) :: ((WItem (IField ((Npos (XO (XO XH))), U8, (ACount (Npos (XI
    (XI XH))))))) :: ((WItem (IField ((Npos (XI (XO XH))), U8, (ACount (Npos
    (XO (XO (XO XH)))))))) :: ((WItem (IPad
    (Z0 :: (Z0 :: (Z0 :: (Z0 :: [])))))) :: ((WBytes ((Npos (XO (XI XH))),
    (LCount (Npos (XI XH))), BRaw)) :: ((WBytes ((Npos (XI (XI XH))), (LCount
    (Npos (XO (XO XH)))), BRaw)) :: ((WBytes ((Npos (XO (XO (XO XH)))),
    (LCount (Npos (XI (XO XH)))), BRaw)) :: []))))))))

(** val py_d_StartupRequest : codec_desc **)

let py_d_StartupRequest =
  (WItem (IField ((Npos XH), U64, AId))) :: ((WItem (IPad
    (Z0 :: (Z0 :: (Z0 :: (Z0 :: (Z0 :: (Z0 :: (Z0 :: (Z0 :: [])))))))))) :: [])

(** val py_d_SetConfigMessage : codec_desc **)

let py_d_SetConfigMessage =
  (WItem (IField ((Npos XH), U16, AId))) :: ((WItem (IField ((Npos (XO XH)),
    U8, AId))) :: ((WItem (IPad (Z0 :: []))) :: ((WItem (IField ((Npos (XI
    XH)), U32, (ACount (Npos (XO (XO XH))))))) :: ((WTagged ((Npos (XO (XO
    XH))), { tg_tag = (Npos XH); tg_len = (Npos (XI XH)); tg_skip = (Some
    ((Npos (XO XH)), (Zpos (XO XH)))); tg_cases = ((Z0, []) :: (((Zpos (XO
    (XO (XO (XO XH))))), ((IField ((Npos XH), F32, AQuiet32)) :: ((IField
    ((Npos (XO XH)), F32, AQuiet32)) :: ((IField ((Npos (XI XH)), F32,
    AQuiet32)) :: [])))) :: (((Zpos (XI (XO (XO (XO XH))))), ((IField ((Npos
    XH), U8, AId)) :: ((IField ((Npos (XO XH)), U8, AId)) :: ((IPad
    (Z0 :: (Z0 :: []))) :: [])))) :: (((Zpos (XO (XI (XO (XO XH))))),
    ((IField ((Npos XH), F32, AQuiet32)) :: ((IField ((Npos (XO XH)), F32,
    AQuiet32)) :: ((IField ((Npos (XI XH)), F32,
    AQuiet32)) :: [])))) :: (((Zpos (XI (XI (XO (XO XH))))), ((IField ((Npos
    XH), F32, AQuiet32)) :: ((IField ((Npos (XO XH)), F32,
    AQuiet32)) :: ((IField ((Npos (XI XH)), F32,
    AQuiet32)) :: [])))) :: (((Zpos (XO (XO (XI (XO XH))))), ((IField ((Npos
    XH), U16, AId)) :: ((IPad
    (Z0 :: (Z0 :: (Z0 :: (Z0 :: (Z0 :: (Z0 :: (Z0 :: (Z0 :: (Z0 :: (Z0 :: []))))))))))) :: ((IField
    ((Npos (XO XH)), F32, AQuiet32)) :: ((IField ((Npos (XI XH)), F32,
    AQuiet32)) :: ((IField ((Npos (XO (XO XH))), F32,
    AQuiet32)) :: [])))))) :: (((Zpos (XI (XO (XI (XO XH))))), ((IField
    ((Npos XH), U8, AId)) :: ((IField ((Npos (XO XH)), U8, AId)) :: ((IField
    ((Npos (XI XH)), U8, AId)) :: ((IPad (Z0 :: [])) :: ((IField ((Npos (XO
    (XO XH))), F32, AQuiet32)) :: ((IField ((Npos (XI (XO XH))), F32,
    AQuiet32)) :: ((IField ((Npos (XO (XI XH))), F32, AQuiet32)) :: ((IField
    ((Npos (XI (XI XH))), F32, AQuiet32)) :: ((IField ((Npos (XO (XO (XO
    XH)))), U32, AId)) :: ((IField ((Npos (XI (XO (XO XH)))), U8,
    ABool)) :: ((IField ((Npos (XO (XI (XO XH)))), U8, ABool)) :: ((IPad
    (Z0 :: (Z0 :: []))) :: []))))))))))))) :: (((Zpos (XO (XI (XI (XO
    XH))))), ((IField ((Npos XH), U8, AId)) :: ((IField ((Npos (XO XH)), U8,
    AId)) :: ((IPad (Z0 :: (Z0 :: []))) :: ((IField ((Npos (XI XH)), F32,
    AQuiet32)) :: []))))) :: (((Zpos (XO (XO (XO (XI XH))))), ((IField ((Npos
    XH), F32, AQuiet32)) :: ((IField ((Npos (XO XH)), F32,
    AQuiet32)) :: ((IField ((Npos (XI XH)), F32,
    AQuiet32)) :: [])))) :: (((Zpos (XO (XI (XO (XO (XI XH)))))), ((IField
    ((Npos XH), U32, AId)) :: [])) :: (((Zpos (XI (XI (XO (XO (XI XH)))))),
    ((IField ((Npos XH), U32, AId)) :: [])) :: (((Zpos (XO (XO (XI (XO (XI
    XH)))))), ((IField ((Npos XH), S32, AId)) :: [])) :: (((Zpos (XI (XO (XI
    (XO (XI XH)))))), ((IField ((Npos XH), S32, AId)) :: [])) :: (((Zpos (XO
    (XI (XI (XO (XI XH)))))), ((IField ((Npos XH), U8, AId)) :: ((IPad
    (Z0 :: (Z0 :: (Z0 :: [])))) :: []))) :: (((Zpos (XI (XI (XI (XO (XI
    XH)))))), ((IField ((Npos XH), U8, AId)) :: ((IPad
    (Z0 :: (Z0 :: (Z0 :: [])))) :: []))) :: (((Zpos (XO (XO (XO (XO (XO (XO
    (XO (XO XH))))))))), ((IField ((Npos XH), U32, AId)) :: [])) :: (((Zpos
    (XI (XO (XO (XO (XO (XO (XO (XO XH))))))))), ((IField ((Npos XH), U32,
    AId)) :: [])) :: (((Zpos (XO (XI (XO (XO (XO (XO (XO (XO XH))))))))),
    ((IField ((Npos XH), U8, ABool)) :: [])) :: (((Zpos (XI (XI (XO (XO (XO
    (XO (XO (XO XH))))))))), ((IField ((Npos XH), U8,
    ABool)) :: [])) :: (((Zpos (XO (XO (XI (XI (XO (XI (XO (XO XH))))))))),
    ((IField ((Npos XH), U8, ABool)) :: [])) :: (((Zpos (XI (XO (XI (XI (XO
    (XI (XO (XO XH))))))))), ((IStr ((Npos XH), (S (S (S (S (S (S (S (S (S (S
    (S (S (S (S (S (S (S (S (S (S (S (S (S (S (S (S (S (S (S (S (S (S
    O)))))))))))))))))))))))))))))))))) :: [])) :: (((Zpos (XO (XI (XI (XO
    (XI (XI (XO (XO XH))))))))), ((IField ((Npos XH), U8,
    AId)) :: [])) :: (((Zpos (XO (XO (XO (XO (XO (XO (XO (XO (XO (XO
    XH))))))))))), ((IField ((Npos XH), F64, AId)) :: ((IField ((Npos (XO
    XH)), F32, AQuiet32)) :: ((IField ((Npos (XI XH)), U8,
    ABool)) :: ((IField ((Npos (XO (XO XH))), U8, ABool)) :: ((IField ((Npos
    (XI (XO XH))), U16, AId)) :: ((IField ((Npos (XO (XI XH))), U64,
    AId)) :: ((IField ((Npos (XI (XI XH))), U16, AId)) :: ((IField ((Npos (XO
    (XO (XO XH)))), U16, AId)) :: []))))))))) :: [])))))))))))))))))))))));
    tg_sub = (Some ((((Zpos (XO (XO (XO (XI (XO (XO (XI XH)))))))), ((IField
    ((Npos XH), U8, AId)) :: ((IField ((Npos (XO XH)), U8, AId)) :: ((IPad
    (Z0 :: (Z0 :: []))) :: ((IField ((Npos (XI XH)), U8, AId)) :: ((IPad
    (Z0 :: (Z0 :: (Z0 :: [])))) :: [])))))), (Npos (XI XH))), (((Zpos XH),
    ((IField ((Npos XH), U8, ABool)) :: [])) :: (((Zpos (XO XH)), ((IField
    ((Npos XH), U32, AId)) :: [])) :: (((Zpos (XI XH)), ((IStr ((Npos XH), (S
    (S (S (S (S (S (S (S (S (S (S (S (S (S (S (S (S (S (S (S (S (S (S (S (S
    (S (S (S (S (S (S (S (S (S (S (S (S (S (S (S (S (S (S (S (S (S (S (S (S
    (S (S (S (S (S (S (S (S (S (S (S (S (S (S (S
    O)))))))))))))))))))))))))))))))))))))))))))))))))))))))))))))))))) :: [])) :: (((Zpos
    (XO (XO XH))), ((IField ((Npos XH), U16, AId)) :: [])) :: (((Zpos (XI (XO
    XH))), ((IField ((Npos XH), U8, ABool)) :: [])) :: (((Zpos (XO (XI XH))),
    ((IField ((Npos XH), U8, AId)) :: [])) :: (((Zpos (XI (XI XH))), ((IField
    ((Npos XH), U8, AId)) :: [])) :: []))))))))); tg_opaque =
    false })) :: []))))

(** val py_d_GetConfigMessage : codec_desc **)

let py_d_GetConfigMessage =
  (WItem (IField ((Npos XH), U16, AId))) :: ((WItem (IField ((Npos (XO XH)),
    U8, AId))) :: ((WItem (IPad (Z0 :: []))) :: ((WSwitch ((Npos (XI XH)),
    (Npos XH), (((Zpos (XO (XO (XO (XI (XO (XO (XI XH)))))))), ((IField
    ((Npos XH), U8, AId)) :: ((IField ((Npos (XO XH)), U8, AId)) :: ((IPad
    (Z0 :: (Z0 :: []))) :: ((IField ((Npos (XI XH)), U8, AId)) :: ((IPad
    (Z0 :: (Z0 :: (Z0 :: [])))) :: [])))))) :: []))) :: [])))

(** val py_d_SaveConfigMessage : codec_desc **)

let py_d_SaveConfigMessage =
  (WItem (IField ((Npos XH), U8, AId))) :: ((WItem (IPad
    (Z0 :: (Z0 :: (Z0 :: []))))) :: [])

(** val py_d_ConfigResponseMessage : codec_desc **)

let py_d_ConfigResponseMessage =
  (WItem (IField ((Npos XH), U8, AId))) :: ((WItem (IField ((Npos (XO XH)),
    U8, AId))) :: ((WItem (IField ((Npos (XI XH)), U16, AId))) :: ((WItem
    (IField ((Npos (XO (XO XH))), U8, AId))) :: ((WItem (IPad
    (Z0 :: (Z0 :: (Z0 :: []))))) :: ((WItem (IField ((Npos (XI (XO XH))),
    U32, (ACount (Npos (XO (XI XH))))))) :: ((WTagged ((Npos (XO (XI XH))),
    { tg_tag = (Npos (XI XH)); tg_len = (Npos (XI (XO XH))); tg_skip = None;
    tg_cases = ((Z0, []) :: (((Zpos (XO (XO (XO (XO XH))))), ((IField ((Npos
    XH), F32, AQuiet32)) :: ((IField ((Npos (XO XH)), F32,
    AQuiet32)) :: ((IField ((Npos (XI XH)), F32,
    AQuiet32)) :: [])))) :: (((Zpos (XI (XO (XO (XO XH))))), ((IField ((Npos
    XH), U8, AId)) :: ((IField ((Npos (XO XH)), U8, AId)) :: ((IPad
    (Z0 :: (Z0 :: []))) :: [])))) :: (((Zpos (XO (XI (XO (XO XH))))),
    ((IField ((Npos XH), F32, AQuiet32)) :: ((IField ((Npos (XO XH)), F32,
    AQuiet32)) :: ((IField ((Npos (XI XH)), F32,
    AQuiet32)) :: [])))) :: (((Zpos (XI (XI (XO (XO XH))))), ((IField ((Npos
    XH), F32, AQuiet32)) :: ((IField ((Npos (XO XH)), F32,
    AQuiet32)) :: ((IField ((Npos (XI XH)), F32,
    AQuiet32)) :: [])))) :: (((Zpos (XO (XO (XI (XO XH))))), ((IField ((Npos
    XH), U16, AId)) :: ((IPad
    (Z0 :: (Z0 :: (Z0 :: (Z0 :: (Z0 :: (Z0 :: (Z0 :: (Z0 :: (Z0 :: (Z0 :: []))))))))))) :: ((IField
    ((Npos (XO XH)), F32, AQuiet32)) :: ((IField ((Npos (XI XH)), F32,
    AQuiet32)) :: ((IField ((Npos (XO (XO XH))), F32,
    AQuiet32)) :: [])))))) :: (((Zpos (XI (XO (XI (XO XH))))), ((IField
    ((Npos XH), U8, AId)) :: ((IField ((Npos (XO XH)), U8, AId)) :: ((IField
    ((Npos (XI XH)), U8, AId)) :: ((IPad (Z0 :: [])) :: ((IField ((Npos (XO
    (XO XH))), F32, AQuiet32)) :: ((IField ((Npos (XI (XO XH))), F32,
    AQuiet32)) :: ((IField ((Npos (XO (XI XH))), F32, AQuiet32)) :: ((IField
    ((Npos (XI (XI XH))), F32, AQuiet32)) :: ((IField ((Npos (XO (XO (XO
    XH)))), U32, AId)) :: ((IField ((Npos (XI (XO (XO XH)))), U8,
    ABool)) :: ((IField ((Npos (XO (XI (XO XH)))), U8, ABool)) :: ((IPad
    (Z0 :: (Z0 :: []))) :: []))))))))))))) :: (((Zpos (XO (XI (XI (XO
    XH))))), ((IField ((Npos XH), U8, AId)) :: ((IField ((Npos (XO XH)), U8,
    AId)) :: ((IPad (Z0 :: (Z0 :: []))) :: ((IField ((Npos (XI XH)), F32,
    AQuiet32)) :: []))))) :: (((Zpos (XO (XO (XO (XI XH))))), ((IField ((Npos
    XH), F32, AQuiet32)) :: ((IField ((Npos (XO XH)), F32,
    AQuiet32)) :: ((IField ((Npos (XI XH)), F32,
    AQuiet32)) :: [])))) :: (((Zpos (XO (XI (XO (XO (XI XH)))))), ((IField
    ((Npos XH), U32, AId)) :: [])) :: (((Zpos (XI (XI (XO (XO (XI XH)))))),
    ((IField ((Npos XH), U32, AId)) :: [])) :: (((Zpos (XO (XO (XI (XO (XI
    XH)))))), ((IField ((Npos XH), S32, AId)) :: [])) :: (((Zpos (XI (XO (XI
    (XO (XI XH)))))), ((IField ((Npos XH), S32, AId)) :: [])) :: (((Zpos (XO
    (XI (XI (XO (XI XH)))))), ((IField ((Npos XH), U8, AId)) :: ((IPad
    (Z0 :: (Z0 :: (Z0 :: [])))) :: []))) :: (((Zpos (XI (XI (XI (XO (XI
    XH)))))), ((IField ((Npos XH), U8, AId)) :: ((IPad
    (Z0 :: (Z0 :: (Z0 :: [])))) :: []))) :: (((Zpos (XO (XO (XO (XO (XO (XO
    (XO (XO XH))))))))), ((IField ((Npos XH), U32, AId)) :: [])) :: (((Zpos
    (XI (XO (XO (XO (XO (XO (XO (XO XH))))))))), ((IField ((Npos XH), U32,
    AId)) :: [])) :: (((Zpos (XO (XI (XO (XO (XO (XO (XO (XO XH))))))))),
    ((IField ((Npos XH), U8, ABool)) :: [])) :: (((Zpos (XI (XI (XO (XO (XO
    (XO (XO (XO XH))))))))), ((IField ((Npos XH), U8,
    ABool)) :: [])) :: (((Zpos (XO (XO (XI (XI (XO (XI (XO (XO XH))))))))),
    ((IField ((Npos XH), U8, ABool)) :: [])) :: (((Zpos (XI (XO (XI (XI (XO
    (XI (XO (XO XH))))))))), ((IStr ((Npos XH), (S (S (S (S (S (S (S (S (S (S
    (S (S (S (S (S (S (S (S (S (S (S (S (S (S (S (S (S (S (S (S (S (S
    O)))))))))))))))))))))))))))))))))) :: [])) :: (((Zpos (XO (XI (XI (XO
    (XI (XI (XO (XO XH))))))))), ((IField ((Npos XH), U8,
    AId)) :: [])) :: (((Zpos (XO (XO (XO (XO (XO (XO (XO (XO (XO (XO
    XH))))))))))), ((IField ((Npos XH), F64, AId)) :: ((IField ((Npos (XO
    XH)), F32, AQuiet32)) :: ((IField ((Npos (XI XH)), U8,
    ABool)) :: ((IField ((Npos (XO (XO XH))), U8, ABool)) :: ((IField ((Npos
    (XI (XO XH))), U16, AId)) :: ((IField ((Npos (XO (XI XH))), U64,
    AId)) :: ((IField ((Npos (XI (XI XH))), U16, AId)) :: ((IField ((Npos (XO
    (XO (XO XH)))), U16, AId)) :: []))))))))) :: [])))))))))))))))))))))));
    tg_sub = (Some ((((Zpos (XO (XO (XO (XI (XO (XO (XI XH)))))))), ((IField
    ((Npos XH), U8, AId)) :: ((IField ((Npos (XO XH)), U8, AId)) :: ((IPad
    (Z0 :: (Z0 :: []))) :: ((IField ((Npos (XI XH)), U8, AId)) :: ((IPad
    (Z0 :: (Z0 :: (Z0 :: [])))) :: [])))))), (Npos (XI XH))), (((Zpos XH),
    ((IField ((Npos XH), U8, ABool)) :: [])) :: (((Zpos (XO XH)), ((IField
    ((Npos XH), U32, AId)) :: [])) :: (((Zpos (XI XH)), ((IStr ((Npos XH), (S
    (S (S (S (S (S (S (S (S (S (S (S (S (S (S (S (S (S (S (S (S (S (S (S (S
    (S (S (S (S (S (S (S (S (S (S (S (S (S (S (S (S (S (S (S (S (S (S (S (S
    (S (S (S (S (S (S (S (S (S (S (S (S (S (S (S
    O)))))))))))))))))))))))))))))))))))))))))))))))))))))))))))))))))) :: [])) :: (((Zpos
    (XO (XO XH))), ((IField ((Npos XH), U16, AId)) :: [])) :: (((Zpos (XI (XO
    XH))), ((IField ((Npos XH), U8, ABool)) :: [])) :: (((Zpos (XO (XI XH))),
    ((IField ((Npos XH), U8, AId)) :: [])) :: (((Zpos (XI (XI XH))), ((IField
    ((Npos XH), U8, AId)) :: [])) :: []))))))))); tg_opaque =
    true })) :: []))))))

(** val py_d_ImportDataMessage : codec_desc **)

let py_d_ImportDataMessage =
  (WItem (IField ((Npos XH), U8, AId))) :: ((WItem (IField ((Npos (XO XH)),
    U8, AId))) :: ((WItem (IPad (Z0 :: (Z0 :: [])))) :: ((WItem (IPad
    (Z0 :: []))) :: ((WItem (IField ((Npos (XI XH)), U8, AId))) :: ((WItem
    (IField ((Npos (XO (XO XH))), U16, AId))) :: ((WItem (IPad
    (Z0 :: (Z0 :: (Z0 :: (Z0 :: [])))))) :: ((WItem (IField ((Npos (XI (XO
    XH))), U32, (ACount (Npos (XO (XI XH))))))) :: ((WBytes ((Npos (XO (XI
    XH))), (LCount (Npos (XI (XO XH)))), BRaw)) :: []))))))))

(** val py_d_ExportDataMessage : codec_desc **)

let py_d_ExportDataMessage =
  (WItem (IField ((Npos XH), U8, AId))) :: ((WItem (IField ((Npos (XO XH)),
    U8, AId))) :: ((WItem (IPad (Z0 :: (Z0 :: [])))) :: []))

(** val py_d_PlatformStorageDataMessage : codec_desc **)

let py_d_PlatformStorageDataMessage =
  (WItem (IField ((Npos XH), U8, AId))) :: ((WItem (IField ((Npos (XO XH)),
    U8, AId))) :: ((WItem (IField ((Npos (XI XH)), U8, AId))) :: ((WItem
    (IField ((Npos (XO (XO XH))), U8, AId))) :: ((WItem (IPad
    (Z0 :: []))) :: ((WItem (IField ((Npos (XI (XO XH))), U8,
    AId))) :: ((WItem (IField ((Npos (XO (XI XH))), U16, AId))) :: ((WItem
    (IField ((Npos (XI (XI XH))), U32, (ACount (Npos (XO (XO (XO
    XH)))))))) :: ((WBytes ((Npos (XO (XO (XO XH)))), (LCount (Npos (XI (XI
    XH)))), BRaw)) :: []))))))))

(** val py_d_InputDataWrapperMessage : codec_desc **)

let py_d_InputDataWrapperMessage =
  (WItem (IField ((Npos XH), U40, AId))) :: ((WItem (IPad
    (Z0 :: []))) :: ((WItem (IField ((Npos (XO XH)), U16, AId))) :: ((WBytes
    ((Npos (XI XH)), LGreedy, BRaw)) :: [])))

(** val py_d_SetMessageRate : codec_desc **)

let py_d_SetMessageRate =
  (WItem (IField ((Npos XH), U8, AId))) :: ((WItem (IField ((Npos (XO XH)),
    U8, AId))) :: ((WItem (IPad (Z0 :: (Z0 :: [])))) :: ((WItem (IField
    ((Npos (XI XH)), U8, AId))) :: ((WItem (IField ((Npos (XO (XO XH))), U8,
    AId))) :: ((WItem (IField ((Npos (XI (XO XH))), U16, AId))) :: ((WItem
    (IField ((Npos (XO (XI XH))), U8, AId))) :: ((WItem (IPad
    (Z0 :: (Z0 :: (Z0 :: []))))) :: [])))))))

(** val py_d_GetMessageRate : codec_desc **)

let py_d_GetMessageRate =
  (WItem (IField ((Npos XH), U8, AId))) :: ((WItem (IField ((Npos (XO XH)),
    U8, AId))) :: ((WItem (IPad (Z0 :: (Z0 :: [])))) :: ((WItem (IField
    ((Npos (XI XH)), U8, AId))) :: ((WItem (IField ((Npos (XO (XO XH))), U8,
    AId))) :: ((WItem (IField ((Npos (XI (XO XH))), U16, AId))) :: [])))))

(** val py_d_MessageRateResponse : codec_desc **)

let py_d_MessageRateResponse =
  (WItem (IField ((Npos XH), U8, AId))) :: ((WItem (IField ((Npos (XO XH)),
    U8, AId))) :: ((WItem (IField ((Npos (XI XH)), U16, (ACount (Npos (XO (XI
    XH))))))) :: ((WItem (IField ((Npos (XO (XO XH))), U8, AId))) :: ((WItem
    (IField ((Npos (XI (XO XH))), U8, AId))) :: ((WItem (IPad
    (Z0 :: (Z0 :: [])))) :: ((WCounted ((Npos (XO (XI XH))), (Npos (XI XH)),
    ((IField ((Npos XH), U8, AId)) :: ((IField ((Npos (XO XH)), U8,
    AId)) :: ((IField ((Npos (XI XH)), U16, AId)) :: ((IField ((Npos (XO (XO
    XH))), U8, AId)) :: ((IField ((Npos (XI (XO XH))), U8, AId)) :: ((IPad
    (Z0 :: (Z0 :: []))) :: [])))))))) :: []))))))

(** val py_d_SupportedIOInterfacesMessage : codec_desc **)

let py_d_SupportedIOInterfacesMessage =
  (WItem (IField ((Npos XH), U8, (ACount (Npos (XO XH)))))) :: ((WItem (IPad
    (Z0 :: (Z0 :: (Z0 :: (Z0 :: (Z0 :: (Z0 :: (Z0 :: []))))))))) :: ((WCounted
    ((Npos (XO XH)), (Npos XH), ((IField ((Npos XH), U8, AId)) :: ((IField
    ((Npos (XO XH)), U8, AId)) :: ((IPad
    (Z0 :: (Z0 :: []))) :: []))))) :: []))

(** val py_d_LBandFrameMessage : codec_desc **)

let py_d_LBandFrameMessage =
  (WItem (IField ((Npos XH), S64, AId))) :: ((WItem (IField ((Npos (XO XH)),
    U16, (ACount (Npos (XO (XI XH))))))) :: ((WItem (IField ((Npos (XI XH)),
    U16, AId))) :: ((WItem (IField ((Npos (XO (XO XH))), U8,
    AId))) :: ((WItem (IPad (Z0 :: (Z0 :: (Z0 :: []))))) :: ((WItem (IField
    ((Npos (XI (XO XH))), F32, AQuiet32))) :: ((WBytes ((Npos (XO (XI XH))),
    (LCount (Npos (XO XH))), BRaw)) :: []))))))

(** val py_d_STA5635Command : codec_desc **)

let py_d_STA5635Command =
  (WItem (IField ((Npos XH), U8, AId))) :: ((WItem (IField ((Npos (XO XH)),
    U8, AId))) :: ((WBytes ((Npos (XI XH)), (LFixed (S (S O))), BRaw)) :: []))

(** val py_d_STA5635CommandResponse : codec_desc **)

let py_d_STA5635CommandResponse =
  (WItem (IField ((Npos XH), S64, AId))) :: ((WItem (IField ((Npos (XO XH)),
    U32, AId))) :: ((WBytes ((Npos (XI XH)), (LFixed (S (S (S (S O))))),
    BRaw)) :: []))

(** val py_d_STA5635IQData : codec_desc **)

let py_d_STA5635IQData =
  (WItem (IPad (Z0 :: (Z0 :: (Z0 :: (Z0 :: [])))))) :: ((WBytes ((Npos XH),
    LGreedy, BRaw)) :: [])

(** val py_d_MessageHeader : codec_desc **)

let py_d_MessageHeader =
  (WItem (IPad ((Zpos (XO (XI (XI (XI (XO XH)))))) :: ((Zpos (XI (XO (XO (XO
    (XI XH)))))) :: (Z0 :: (Z0 :: [])))))) :: ((WItem (IField ((Npos XH),
    U32, AId))) :: ((WItem (IField ((Npos (XO XH)), U8, AId))) :: ((WItem
    (IField ((Npos (XI XH)), U8, AId))) :: ((WItem (IField ((Npos (XO (XO
    XH))), U16, AId))) :: ((WItem (IField ((Npos (XI (XO XH))), U32,
    AId))) :: ((WItem (IField ((Npos (XO (XI XH))), U32, AId))) :: ((WItem
    (IField ((Npos (XI (XI XH))), U32, AId))) :: [])))))))

(** val py_d_Timestamp : codec_desc **)

let py_d_Timestamp =
  (WItem (IField ((Npos XH), U64, ATimestamp))) :: []

(** val py_d_MeasurementDetails : codec_desc **)

let py_d_MeasurementDetails =
  (WItem (IField ((Npos XH), U64, ATimestamp))) :: ((WItem (IField ((Npos (XO
    XH)), U8, (AStrict (Z0 :: ((Zpos XH) :: ((Zpos (XO XH)) :: ((Zpos (XI
    XH)) :: ((Zpos (XO (XO XH))) :: []))))))))) :: ((WItem (IField ((Npos (XI
    XH)), U8, (AStrict (Z0 :: ((Zpos XH) :: ((Zpos (XO XH)) :: ((Zpos (XI
    XH)) :: ((Zpos (XO (XO XH))) :: ((Zpos (XI (XO
    XH))) :: [])))))))))) :: ((WItem (IPad (Z0 :: (Z0 :: [])))) :: ((WItem
    (IField ((Npos (XO (XO XH))), U64, ATimestamp))) :: []))))

(** val py_d_SatelliteInfo : codec_desc **)

let py_d_SatelliteInfo =
  (WItem (IField ((Npos XH), U8, (AStrict (Z0 :: ((Zpos XH) :: ((Zpos (XO
    XH)) :: ((Zpos (XI XH)) :: ((Zpos (XO (XO XH))) :: ((Zpos (XI (XO
    XH))) :: ((Zpos (XO (XI XH))) :: ((Zpos (XI (XI XH))) :: ((Zpos (XO (XO
    (XO XH)))) :: ((Zpos (XI (XO (XO XH)))) :: [])))))))))))))) :: ((WItem
    (IField ((Npos (XO XH)), U8, AId))) :: ((WItem (IField ((Npos (XI XH)),
    U8, AId))) :: ((WItem (IField ((Npos (XO (XO XH))), U8, (ASentinel
    Z0)))) :: ((WItem (IField ((Npos (XI (XO XH))), F32,
    AQuiet32))) :: ((WItem (IField ((Npos (XO (XI XH))), F32,
    AQuiet32))) :: [])))))

(** val py_descriptions : (n * codec_desc) list **)

let py_descriptions =
  ((Npos XH), py_d_PoseMessage) :: (((Npos (XO XH)),
    py_d_GNSSInfoMessage) :: (((Npos (XI XH)),
    py_d_GNSSSatelliteMessage) :: (((Npos (XO (XO XH))),
    py_d_PoseAuxMessage) :: (((Npos (XI (XO XH))),
    py_d_CalibrationStatus) :: (((Npos (XO (XI XH))),
    py_d_RelativeENUPositionMessage) :: (((Npos (XI (XI XH))),
    py_d_SystemStatusMessage) :: (((Npos (XO (XO (XO XH)))),
    py_d_IMUOutput) :: (((Npos (XI (XO (XO XH)))),
    py_d_RawIMUOutput) :: (((Npos (XO (XI (XO XH)))),
    py_d_IMUInput) :: (((Npos (XI (XI (XO XH)))),
    py_d_GNSSAttitudeOutput) :: (((Npos (XO (XO (XI XH)))),
    py_d_RawGNSSAttitudeOutput) :: (((Npos (XI (XO (XI XH)))),
    py_d_DeprecatedWheelSpeedMeasurement) :: (((Npos (XO (XI (XI XH)))),
    py_d_DeprecatedVehicleSpeedMeasurement) :: (((Npos (XI (XI (XI XH)))),
    py_d_WheelTickInput) :: (((Npos (XO (XO (XO (XO XH))))),
    py_d_VehicleTickInput) :: (((Npos (XI (XO (XO (XO XH))))),
    py_d_WheelSpeedInput) :: (((Npos (XO (XI (XO (XO XH))))),
    py_d_VehicleSpeedInput) :: (((Npos (XI (XI (XO (XO XH))))),
    py_d_RawWheelTickOutput) :: (((Npos (XO (XO (XI (XO XH))))),
    py_d_RawVehicleTickOutput) :: (((Npos (XI (XO (XI (XO XH))))),
    py_d_RawWheelSpeedOutput) :: (((Npos (XO (XI (XI (XO XH))))),
    py_d_RawVehicleSpeedOutput) :: (((Npos (XI (XI (XI (XO XH))))),
    py_d_WheelSpeedOutput) :: (((Npos (XO (XO (XO (XI XH))))),
    py_d_VehicleSpeedOutput) :: (((Npos (XI (XO (XO (XI XH))))),
    py_d_ROSPoseMessage) :: (((Npos (XO (XI (XO (XI XH))))),
    py_d_ROSGPSFixMessage) :: (((Npos (XI (XI (XO (XI XH))))),
    py_d_ROSIMUMessage) :: (((Npos (XO (XO (XI (XI XH))))),
    py_d_CommandResponseMessage) :: (((Npos (XI (XO (XI (XI XH))))),
    py_d_MessageRequest) :: (((Npos (XO (XI (XI (XI XH))))),
    py_d_ResetRequest) :: (((Npos (XI (XI (XI (XI XH))))),
    py_d_VersionInfoMessage) :: (((Npos (XO (XO (XO (XO (XO XH)))))),
    py_d_EventNotificationMessage) :: (((Npos (XI (XO (XO (XO (XO XH)))))),
    py_d_ShutdownRequest) :: (((Npos (XO (XI (XO (XO (XO XH)))))),
    py_d_FaultControlMessage) :: (((Npos (XI (XI (XO (XO (XO XH)))))),
    py_d_DeviceIDMessage) :: (((Npos (XO (XO (XI (XO (XO XH)))))),
    py_d_StartupRequest) :: (((Npos (XI (XO (XI (XO (XO XH)))))),
    py_d_SetConfigMessage) :: (((Npos (XO (XI (XI (XO (XO XH)))))),
    py_d_GetConfigMessage) :: (((Npos (XI (XI (XI (XO (XO XH)))))),
    py_d_SaveConfigMessage) :: (((Npos (XO (XO (XO (XI (XO XH)))))),
    py_d_ConfigResponseMessage) :: (((Npos (XI (XO (XO (XI (XO XH)))))),
    py_d_ImportDataMessage) :: (((Npos (XO (XI (XO (XI (XO XH)))))),
    py_d_ExportDataMessage) :: (((Npos (XI (XI (XO (XI (XO XH)))))),
    py_d_PlatformStorageDataMessage) :: (((Npos (XO (XO (XI (XI (XO XH)))))),
    py_d_InputDataWrapperMessage) :: (((Npos (XI (XO (XI (XI (XO XH)))))),
    py_d_SetMessageRate) :: (((Npos (XO (XI (XI (XI (XO XH)))))),
    py_d_GetMessageRate) :: (((Npos (XI (XI (XI (XI (XO XH)))))),
    py_d_MessageRateResponse) :: (((Npos (XO (XO (XO (XO (XI XH)))))),
    py_d_SupportedIOInterfacesMessage) :: (((Npos (XI (XO (XO (XO (XI
    XH)))))), py_d_LBandFrameMessage) :: (((Npos (XO (XI (XO (XO (XI
    XH)))))), py_d_STA5635Command) :: (((Npos (XI (XI (XO (XO (XI XH)))))),
    py_d_STA5635CommandResponse) :: (((Npos (XO (XO (XI (XO (XI XH)))))),
    py_d_STA5635IQData) :: (((Npos (XI (XO (XI (XO (XI XH)))))),
    py_d_MessageHeader) :: (((Npos (XO (XI (XI (XO (XI XH)))))),
    py_d_Timestamp) :: (((Npos (XI (XI (XI (XO (XI XH)))))),
    py_d_MeasurementDetails) :: (((Npos (XO (XO (XO (XI (XI XH)))))),
    py_d_SatelliteInfo) :: [])))))))))))))))))))))))))))))))))))))))))))))))))))))))
