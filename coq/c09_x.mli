
val negb : bool -> bool

type nat =
| O
| S of nat

val fst : ('a1 * 'a2) -> 'a1

val snd : ('a1 * 'a2) -> 'a2

val length : 'a1 list -> nat

val app : 'a1 list -> 'a1 list -> 'a1 list

type comparison =
| Eq
| Lt
| Gt

val add : nat -> nat -> nat

val sub : nat -> nat -> nat

type positive =
| XI of positive
| XO of positive
| XH

type n =
| N0
| Npos of positive

type z =
| Z0
| Zpos of positive
| Zneg of positive

module Nat :
 sig
  val eqb : nat -> nat -> bool

  val leb : nat -> nat -> bool

  val ltb : nat -> nat -> bool

  val divmod : nat -> nat -> nat -> nat -> nat * nat

  val div : nat -> nat -> nat
 end

module Pos :
 sig
  type mask =
  | IsNul
  | IsPos of positive
  | IsNeg
 end

module Coq_Pos :
 sig
  val succ : positive -> positive

  val add : positive -> positive -> positive

  val add_carry : positive -> positive -> positive

  val pred_double : positive -> positive

  val pred_N : positive -> n

  type mask = Pos.mask =
  | IsNul
  | IsPos of positive
  | IsNeg

  val succ_double_mask : mask -> mask

  val double_mask : mask -> mask

  val double_pred_mask : positive -> mask

  val sub_mask : positive -> positive -> mask

  val sub_mask_carry : positive -> positive -> mask

  val mul : positive -> positive -> positive

  val iter : ('a1 -> 'a1) -> 'a1 -> positive -> 'a1

  val compare_cont : comparison -> positive -> positive -> comparison

  val compare : positive -> positive -> comparison

  val eqb : positive -> positive -> bool

  val coq_Nsucc_double : n -> n

  val coq_Ndouble : n -> n

  val coq_land : positive -> positive -> n

  val coq_lxor : positive -> positive -> n

  val testbit : positive -> n -> bool

  val iter_op : ('a1 -> 'a1 -> 'a1) -> positive -> 'a1 -> 'a1

  val to_nat : positive -> nat

  val of_succ_nat : nat -> positive
 end

module N :
 sig
  val succ_double : n -> n

  val double : n -> n

  val add : n -> n -> n

  val sub : n -> n -> n

  val mul : n -> n -> n

  val compare : n -> n -> comparison

  val eqb : n -> n -> bool

  val leb : n -> n -> bool

  val ltb : n -> n -> bool

  val div2 : n -> n

  val pos_div_eucl : positive -> n -> n * n

  val div_eucl : n -> n -> n * n

  val div : n -> n -> n

  val modulo : n -> n -> n

  val coq_land : n -> n -> n

  val coq_lxor : n -> n -> n

  val shiftr : n -> n -> n

  val testbit : n -> n -> bool

  val to_nat : n -> nat

  val of_nat : nat -> n
 end

module Z :
 sig
  val of_N : n -> z
 end

val tl : 'a1 list -> 'a1 list

val nth : nat -> 'a1 list -> 'a1 -> 'a1

val removelast : 'a1 list -> 'a1 list

val concat : 'a1 list list -> 'a1 list

val map : ('a1 -> 'a2) -> 'a1 list -> 'a2 list

val fold_left : ('a1 -> 'a2 -> 'a1) -> 'a2 list -> 'a1 -> 'a1

val firstn : nat -> 'a1 list -> 'a1 list

val skipn : nat -> 'a1 list -> 'a1 list

val seq : nat -> nat -> nat list

val crc_poly : n

val crc_xor : n

val sYNC0 : n

val sYNC1 : n

val mAX_EXPECTED_SIZE_BYTES : n

val hEADER_SIZE : nat

val tIME_INVALID : n

val tYPE_INVALID : n

val rEC_TIME_BYTES : nat

val rEC_TYPE_BYTES : nat

val rEC_OFF_BYTES : nat

val le : n list -> n

val le_enc : nat -> n -> n list

val sub0 : n list -> nat -> nat -> n list

val step_bit : n -> n

val step8 : n -> n

val range256 : n list

val crc_table : n list

val table_lookup : n -> n

val upd_table : n -> n -> n

val crc_fold : (n -> n -> n) -> n -> n list -> n

val crc32_from_with : (n -> n -> n) -> n -> n list -> n

val crc32_from : n -> n list -> n

val crc32 : n list -> n

type verdict =
| Accept of nat
| Reject
| More

type header = { h_sync0 : n; h_sync1 : n; h_reserved : n; h_crc : n;
                h_proto : n; h_msgver : n; h_type : n; h_seq : n;
                h_psize : n; h_source : n }

val parse_header : n list -> header

val crc_region : n list -> nat -> n list

val sync_mismatch_early : n list -> bool

val judge_fe : bool -> bool -> n -> n list -> verdict

val fscan_aux :
  ('a1 list -> verdict) -> nat -> nat -> 'a1 list -> (nat * 'a1 list) list

val fscan : ('a1 list -> verdict) -> nat -> 'a1 list -> (nat * 'a1 list) list

val judge_file : n list -> verdict

val file_frames : n list -> (nat * n list) list

type rentry = { r_time : n; r_type : n; r_off : n }

type ientry = { i_time : n option; i_type : n; i_off : n }

val clamp_u4 : n -> n

val from_raw : rentry -> ientry

val to_raw : ientry -> rentry

val frame_type : n list -> n

val indexer_time : n option -> n

val indexer_raw : (n list -> n option) -> nat -> n list -> rentry

val fresh_raw : (n list -> n option) -> n list -> rentry list

val fresh : (n list -> n option) -> n list -> ientry list

type rstep =
| RYield of n list
| RSkip
| RStop

val read_at : n list -> nat -> rstep

val read_all : n list -> nat list -> (nat * n list) list

val index_offsets : ientry list -> nat list

val rEC_SIZE : nat

val enc_rentry : rentry -> n list

val dec_rentry : n list -> rentry

val enc_records : rentry list -> n list

val parse_records_aux : nat -> n list -> rentry list

val parse_records : n list -> rentry list

val last_opt : 'a1 list -> 'a1 option

val is_invalid_type : ientry -> bool

val eof_marker : n -> ientry

val save : ientry list -> n -> n list option

type outcome =
| Accepted of ientry list
| Rebuild of bool
| Crash

val is_nil : 'a1 list -> bool

val header_psize_at : n list -> nat -> n

val load_legacy : n list -> n list -> outcome

val load : n list -> n list -> outcome

type opened = { o_msgs : (nat * n list) list; o_p1i : n list option }

type openres =
| Opened of opened
| OpenCrash

val regenerate : (n list -> n option) -> n list -> n list option -> opened

val open_log :
  (n list -> n option) -> (n list -> n list -> outcome) -> n list option -> n
  list -> bool -> openres

val take_within : nat -> (nat * n list) list -> (nat * n list) list

val open_log_max :
  (n list -> n option) -> (n list -> n list -> outcome) -> n list option -> n
  list -> bool -> nat -> openres
