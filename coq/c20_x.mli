
val negb : bool -> bool

type nat =
| O
| S of nat

val fst : ('a1 * 'a2) -> 'a1

val snd : ('a1 * 'a2) -> 'a2

val length : 'a1 list -> nat

val app : 'a1 list -> 'a1 list -> 'a1 list

type comparison =
| Eq
| Lt
| Gt

val compOpp : comparison -> comparison

val add : nat -> nat -> nat

type positive =
| XI of positive
| XO of positive
| XH

type z =
| Z0
| Zpos of positive
| Zneg of positive

module Nat :
 sig
  val eqb : nat -> nat -> bool

  val leb : nat -> nat -> bool

  val ltb : nat -> nat -> bool
 end

module Pos :
 sig
  val succ : positive -> positive

  val add : positive -> positive -> positive

  val add_carry : positive -> positive -> positive

  val pred_double : positive -> positive

  val mul : positive -> positive -> positive

  val compare_cont : comparison -> positive -> positive -> comparison

  val compare : positive -> positive -> comparison

  val eqb : positive -> positive -> bool
 end

module Z :
 sig
  val double : z -> z

  val succ_double : z -> z

  val pred_double : z -> z

  val pos_sub : positive -> positive -> z

  val add : z -> z -> z

  val opp : z -> z

  val sub : z -> z -> z

  val mul : z -> z -> z

  val compare : z -> z -> comparison

  val leb : z -> z -> bool

  val ltb : z -> z -> bool

  val gtb : z -> z -> bool

  val eqb : z -> z -> bool

  val max : z -> z -> z

  val min : z -> z -> z

  val pos_div_eucl : positive -> z -> z * z

  val div_eucl : z -> z -> z * z

  val div : z -> z -> z

  val modulo : z -> z -> z
 end

val nth : nat -> 'a1 list -> 'a1 -> 'a1

val fold_left : ('a1 -> 'a2 -> 'a1) -> 'a2 list -> 'a1 -> 'a1

val forallb : ('a1 -> bool) -> 'a1 list -> bool

val skipn : nat -> 'a1 list -> 'a1 list

val strtol_base : z

val major_max : z

val minor_max : z

type res =
| Ver of z * z
| Invalid
| OutOfBounds

val is_digit : z -> bool

val is_space : z -> bool

val lONG_MAX : z

val lONG_MIN : z

val digits_pref : z list -> z -> nat -> z * nat

val skip_spaces : z list -> nat -> z list * nat

val strtol10 : z list -> z * nat

val rd : z list -> nat -> z option

val strtol_at : z list -> nat -> (z * nat) option

val from_string : z list -> res

val from_string_legacy : z list -> res

val digits : nat -> z -> z list

val is_valid : z -> z -> bool

val to_string : z -> z -> z list

val v_eq : (z * z) -> (z * z) -> bool

val v_ne : (z * z) -> (z * z) -> bool

val v_lt : (z * z) -> (z * z) -> bool

val v_gt : (z * z) -> (z * z) -> bool

val v_le : (z * z) -> (z * z) -> bool

val v_ge : (z * z) -> (z * z) -> bool

val split_dot : z list -> (z list * z list) option

val dec_value : z list -> z

val numeral : z list -> bool

val spec_from_string : z list -> res
