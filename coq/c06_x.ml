
(** val negb : bool -> bool **)

let negb = function
| true -> false
| false -> true

type nat =
| O
| S of nat

(** val fst : ('a1 * 'a2) -> 'a1 **)

let fst = function
| (x, _) -> x

(** val snd : ('a1 * 'a2) -> 'a2 **)

let snd = function
| (_, y) -> y

(** val length : 'a1 list -> nat **)

let rec length = function
| [] -> O
| _ :: l' -> S (length l')

(** val app : 'a1 list -> 'a1 list -> 'a1 list **)

let rec app l m =
  match l with
  | [] -> m
  | a :: l1 -> a :: (app l1 m)

type comparison =
| Eq
| Lt
| Gt

module Coq__1 = struct
 (** val add : nat -> nat -> nat **)
 let rec add n0 m =
   match n0 with
   | O -> m
   | S p -> S (add p m)
end
include Coq__1

(** val sub : nat -> nat -> nat **)

let rec sub n0 m =
  match n0 with
  | O -> n0
  | S k -> (match m with
            | O -> n0
            | S l -> sub k l)

type positive =
| XI of positive
| XO of positive
| XH

type n =
| N0
| Npos of positive

module Nat =
 struct
  (** val leb : nat -> nat -> bool **)

  let rec leb n0 m =
    match n0 with
    | O -> true
    | S n' -> (match m with
               | O -> false
               | S m' -> leb n' m')

  (** val ltb : nat -> nat -> bool **)

  let ltb n0 m =
    leb (S n0) m
 end

module Pos =
 struct
  type mask =
  | IsNul
  | IsPos of positive
  | IsNeg
 end

module Coq_Pos =
 struct
  (** val succ : positive -> positive **)

  let rec succ = function
  | XI p -> XO (succ p)
  | XO p -> XI p
  | XH -> XO XH

  (** val add : positive -> positive -> positive **)

  let rec add x y =
    match x with
    | XI p ->
      (match y with
       | XI q -> XO (add_carry p q)
       | XO q -> XI (add p q)
       | XH -> XO (succ p))
    | XO p ->
      (match y with
       | XI q -> XI (add p q)
       | XO q -> XO (add p q)
       | XH -> XI p)
    | XH -> (match y with
             | XI q -> XO (succ q)
             | XO q -> XI q
             | XH -> XO XH)

  (** val add_carry : positive -> positive -> positive **)

  and add_carry x y =
    match x with
    | XI p ->
      (match y with
       | XI q -> XI (add_carry p q)
       | XO q -> XO (add_carry p q)
       | XH -> XI (succ p))
    | XO p ->
      (match y with
       | XI q -> XO (add_carry p q)
       | XO q -> XI (add p q)
       | XH -> XO (succ p))
    | XH ->
      (match y with
       | XI q -> XI (succ q)
       | XO q -> XO (succ q)
       | XH -> XI XH)

  (** val pred_double : positive -> positive **)

  let rec pred_double = function
  | XI p -> XI (XO p)
  | XO p -> XI (pred_double p)
  | XH -> XH

  (** val pred_N : positive -> n **)

  let pred_N = function
  | XI p -> Npos (XO p)
  | XO p -> Npos (pred_double p)
  | XH -> N0

  type mask = Pos.mask =
  | IsNul
  | IsPos of positive
  | IsNeg

  (** val succ_double_mask : mask -> mask **)

  let succ_double_mask = function
  | IsNul -> IsPos XH
  | IsPos p -> IsPos (XI p)
  | IsNeg -> IsNeg

  (** val double_mask : mask -> mask **)

  let double_mask = function
  | IsPos p -> IsPos (XO p)
  | x0 -> x0

  (** val double_pred_mask : positive -> mask **)

  let double_pred_mask = function
  | XI p -> IsPos (XO (XO p))
  | XO p -> IsPos (XO (pred_double p))
  | XH -> IsNul

  (** val sub_mask : positive -> positive -> mask **)

  let rec sub_mask x y =
    match x with
    | XI p ->
      (match y with
       | XI q -> double_mask (sub_mask p q)
       | XO q -> succ_double_mask (sub_mask p q)
       | XH -> IsPos (XO p))
    | XO p ->
      (match y with
       | XI q -> succ_double_mask (sub_mask_carry p q)
       | XO q -> double_mask (sub_mask p q)
       | XH -> IsPos (pred_double p))
    | XH -> (match y with
             | XH -> IsNul
             | _ -> IsNeg)

  (** val sub_mask_carry : positive -> positive -> mask **)

  and sub_mask_carry x y =
    match x with
    | XI p ->
      (match y with
       | XI q -> succ_double_mask (sub_mask_carry p q)
       | XO q -> double_mask (sub_mask p q)
       | XH -> IsPos (pred_double p))
    | XO p ->
      (match y with
       | XI q -> double_mask (sub_mask_carry p q)
       | XO q -> succ_double_mask (sub_mask_carry p q)
       | XH -> double_pred_mask p)
    | XH -> IsNeg

  (** val mul : positive -> positive -> positive **)

  let rec mul x y =
    match x with
    | XI p -> add y (XO (mul p y))
    | XO p -> XO (mul p y)
    | XH -> y

  (** val iter : ('a1 -> 'a1) -> 'a1 -> positive -> 'a1 **)

  let rec iter f x = function
  | XI n' -> f (iter f (iter f x n') n')
  | XO n' -> iter f (iter f x n') n'
  | XH -> f x

  (** val pow : positive -> positive -> positive **)

  let pow x =
    iter (mul x) XH

  (** val compare_cont : comparison -> positive -> positive -> comparison **)

  let rec compare_cont r x y =
    match x with
    | XI p ->
      (match y with
       | XI q -> compare_cont r p q
       | XO q -> compare_cont Gt p q
       | XH -> Gt)
    | XO p ->
      (match y with
       | XI q -> compare_cont Lt p q
       | XO q -> compare_cont r p q
       | XH -> Gt)
    | XH -> (match y with
             | XH -> r
             | _ -> Lt)

  (** val compare : positive -> positive -> comparison **)

  let compare =
    compare_cont Eq

  (** val eqb : positive -> positive -> bool **)

  let rec eqb p q =
    match p with
    | XI p0 -> (match q with
                | XI q0 -> eqb p0 q0
                | _ -> false)
    | XO p0 -> (match q with
                | XO q0 -> eqb p0 q0
                | _ -> false)
    | XH -> (match q with
             | XH -> true
             | _ -> false)

  (** val coq_Nsucc_double : n -> n **)

  let coq_Nsucc_double = function
  | N0 -> Npos XH
  | Npos p -> Npos (XI p)

  (** val coq_Ndouble : n -> n **)

  let coq_Ndouble = function
  | N0 -> N0
  | Npos p -> Npos (XO p)

  (** val coq_land : positive -> positive -> n **)

  let rec coq_land p q =
    match p with
    | XI p0 ->
      (match q with
       | XI q0 -> coq_Nsucc_double (coq_land p0 q0)
       | XO q0 -> coq_Ndouble (coq_land p0 q0)
       | XH -> Npos XH)
    | XO p0 ->
      (match q with
       | XI q0 -> coq_Ndouble (coq_land p0 q0)
       | XO q0 -> coq_Ndouble (coq_land p0 q0)
       | XH -> N0)
    | XH -> (match q with
             | XO _ -> N0
             | _ -> Npos XH)

  (** val coq_lxor : positive -> positive -> n **)

  let rec coq_lxor p q =
    match p with
    | XI p0 ->
      (match q with
       | XI q0 -> coq_Ndouble (coq_lxor p0 q0)
       | XO q0 -> coq_Nsucc_double (coq_lxor p0 q0)
       | XH -> Npos (XO p0))
    | XO p0 ->
      (match q with
       | XI q0 -> coq_Nsucc_double (coq_lxor p0 q0)
       | XO q0 -> coq_Ndouble (coq_lxor p0 q0)
       | XH -> Npos (XI p0))
    | XH ->
      (match q with
       | XI q0 -> Npos (XO q0)
       | XO q0 -> Npos (XI q0)
       | XH -> N0)

  (** val testbit : positive -> n -> bool **)

  let rec testbit p n0 =
    match p with
    | XI p0 -> (match n0 with
                | N0 -> true
                | Npos n1 -> testbit p0 (pred_N n1))
    | XO p0 -> (match n0 with
                | N0 -> false
                | Npos n1 -> testbit p0 (pred_N n1))
    | XH -> (match n0 with
             | N0 -> true
             | Npos _ -> false)

  (** val iter_op : ('a1 -> 'a1 -> 'a1) -> positive -> 'a1 -> 'a1 **)

  let rec iter_op op p a =
    match p with
    | XI p0 -> op a (iter_op op p0 (op a a))
    | XO p0 -> iter_op op p0 (op a a)
    | XH -> a

  (** val to_nat : positive -> nat **)

  let to_nat x =
    iter_op Coq__1.add x (S O)

  (** val of_succ_nat : nat -> positive **)

  let rec of_succ_nat = function
  | O -> XH
  | S x -> succ (of_succ_nat x)
 end

module N =
 struct
  (** val succ_double : n -> n **)

  let succ_double = function
  | N0 -> Npos XH
  | Npos p -> Npos (XI p)

  (** val double : n -> n **)

  let double = function
  | N0 -> N0
  | Npos p -> Npos (XO p)

  (** val add : n -> n -> n **)

  let add n0 m =
    match n0 with
    | N0 -> m
    | Npos p -> (match m with
                 | N0 -> n0
                 | Npos q -> Npos (Coq_Pos.add p q))

  (** val sub : n -> n -> n **)

  let sub n0 m =
    match n0 with
    | N0 -> N0
    | Npos n' ->
      (match m with
       | N0 -> n0
       | Npos m' ->
         (match Coq_Pos.sub_mask n' m' with
          | Coq_Pos.IsPos p -> Npos p
          | _ -> N0))

  (** val mul : n -> n -> n **)

  let mul n0 m =
    match n0 with
    | N0 -> N0
    | Npos p -> (match m with
                 | N0 -> N0
                 | Npos q -> Npos (Coq_Pos.mul p q))

  (** val compare : n -> n -> comparison **)

  let compare n0 m =
    match n0 with
    | N0 -> (match m with
             | N0 -> Eq
             | Npos _ -> Lt)
    | Npos n' -> (match m with
                  | N0 -> Gt
                  | Npos m' -> Coq_Pos.compare n' m')

  (** val eqb : n -> n -> bool **)

  let eqb n0 m =
    match n0 with
    | N0 -> (match m with
             | N0 -> true
             | Npos _ -> false)
    | Npos p -> (match m with
                 | N0 -> false
                 | Npos q -> Coq_Pos.eqb p q)

  (** val leb : n -> n -> bool **)

  let leb x y =
    match compare x y with
    | Gt -> false
    | _ -> true

  (** val ltb : n -> n -> bool **)

  let ltb x y =
    match compare x y with
    | Lt -> true
    | _ -> false

  (** val min : n -> n -> n **)

  let min n0 n' =
    match compare n0 n' with
    | Gt -> n'
    | _ -> n0

  (** val div2 : n -> n **)

  let div2 = function
  | N0 -> N0
  | Npos p0 -> (match p0 with
                | XI p -> Npos p
                | XO p -> Npos p
                | XH -> N0)

  (** val even : n -> bool **)

  let even = function
  | N0 -> true
  | Npos p -> (match p with
               | XO _ -> true
               | _ -> false)

  (** val odd : n -> bool **)

  let odd n0 =
    negb (even n0)

  (** val pow : n -> n -> n **)

  let pow n0 = function
  | N0 -> Npos XH
  | Npos p0 -> (match n0 with
                | N0 -> N0
                | Npos q -> Npos (Coq_Pos.pow q p0))

  (** val pos_div_eucl : positive -> n -> n * n **)

  let rec pos_div_eucl a b =
    match a with
    | XI a' ->
      let (q, r) = pos_div_eucl a' b in
      let r' = succ_double r in
      if leb b r' then ((succ_double q), (sub r' b)) else ((double q), r')
    | XO a' ->
      let (q, r) = pos_div_eucl a' b in
      let r' = double r in
      if leb b r' then ((succ_double q), (sub r' b)) else ((double q), r')
    | XH ->
      (match b with
       | N0 -> (N0, (Npos XH))
       | Npos p -> (match p with
                    | XH -> ((Npos XH), N0)
                    | _ -> (N0, (Npos XH))))

  (** val div_eucl : n -> n -> n * n **)

  let div_eucl a b =
    match a with
    | N0 -> (N0, N0)
    | Npos na -> (match b with
                  | N0 -> (N0, a)
                  | Npos _ -> pos_div_eucl na b)

  (** val div : n -> n -> n **)

  let div a b =
    fst (div_eucl a b)

  (** val modulo : n -> n -> n **)

  let modulo a b =
    snd (div_eucl a b)

  (** val coq_land : n -> n -> n **)

  let coq_land n0 m =
    match n0 with
    | N0 -> N0
    | Npos p -> (match m with
                 | N0 -> N0
                 | Npos q -> Coq_Pos.coq_land p q)

  (** val coq_lxor : n -> n -> n **)

  let coq_lxor n0 m =
    match n0 with
    | N0 -> m
    | Npos p -> (match m with
                 | N0 -> n0
                 | Npos q -> Coq_Pos.coq_lxor p q)

  (** val shiftr : n -> n -> n **)

  let shiftr a = function
  | N0 -> a
  | Npos p -> Coq_Pos.iter div2 a p

  (** val testbit : n -> n -> bool **)

  let testbit a n0 =
    match a with
    | N0 -> false
    | Npos p -> Coq_Pos.testbit p n0

  (** val to_nat : n -> nat **)

  let to_nat = function
  | N0 -> O
  | Npos p -> Coq_Pos.to_nat p

  (** val of_nat : nat -> n **)

  let of_nat = function
  | O -> N0
  | S n' -> Npos (Coq_Pos.of_succ_nat n')
 end

(** val hd : 'a1 -> 'a1 list -> 'a1 **)

let hd default = function
| [] -> default
| x :: _ -> x

(** val tl : 'a1 list -> 'a1 list **)

let tl = function
| [] -> []
| _ :: m -> m

(** val nth : nat -> 'a1 list -> 'a1 -> 'a1 **)

let rec nth n0 l default =
  match n0 with
  | O -> (match l with
          | [] -> default
          | x :: _ -> x)
  | S m -> (match l with
            | [] -> default
            | _ :: t -> nth m t default)

(** val map : ('a1 -> 'a2) -> 'a1 list -> 'a2 list **)

let rec map f = function
| [] -> []
| a :: t -> (f a) :: (map f t)

(** val fold_left : ('a1 -> 'a2 -> 'a1) -> 'a2 list -> 'a1 -> 'a1 **)

let rec fold_left f l a0 =
  match l with
  | [] -> a0
  | b :: t -> fold_left f t (f a0 b)

(** val firstn : nat -> 'a1 list -> 'a1 list **)

let rec firstn n0 l =
  match n0 with
  | O -> []
  | S n1 -> (match l with
             | [] -> []
             | a :: l0 -> a :: (firstn n1 l0))

(** val skipn : nat -> 'a1 list -> 'a1 list **)

let rec skipn n0 l =
  match n0 with
  | O -> l
  | S n1 -> (match l with
             | [] -> []
             | _ :: l0 -> skipn n1 l0)

(** val seq : nat -> nat -> nat list **)

let rec seq start = function
| O -> []
| S len0 -> start :: (seq (S start) len0)

(** val crc_poly : n **)

let crc_poly =
  Npos (XO (XO (XO (XO (XO (XI (XO (XO (XI (XI (XO (XO (XO (XO (XO (XI (XO
    (XO (XO (XI (XI (XI (XO (XI (XI (XO (XI (XI (XO (XI (XI
    XH)))))))))))))))))))))))))))))))

(** val crc_xor : n **)

let crc_xor =
  Npos (XI (XI (XI (XI (XI (XI (XI (XI (XI (XI (XI (XI (XI (XI (XI (XI (XI
    (XI (XI (XI (XI (XI (XI (XI (XI (XI (XI (XI (XI (XI (XI
    XH)))))))))))))))))))))))))))))))

(** val sYNC0 : n **)

let sYNC0 =
  Npos (XO (XI (XI (XI (XO XH)))))

(** val sYNC1 : n **)

let sYNC1 =
  Npos (XI (XO (XO (XO (XI XH)))))

(** val mAX_EXPECTED_SIZE_BYTES : n **)

let mAX_EXPECTED_SIZE_BYTES =
  Npos (XO (XO (XO (XO (XO (XO (XO (XO (XO (XO (XO (XO (XO (XO (XO (XO (XO
    (XO (XO (XO (XO (XO (XO (XO XH))))))))))))))))))))))))

(** val cPP_MAX_MESSAGE_SIZE_BYTES : n **)

let cPP_MAX_MESSAGE_SIZE_BYTES =
  Npos (XO (XO (XO (XO (XO (XO (XO (XO (XO (XO (XO (XO (XO (XO (XO (XO (XO
    (XO (XO (XO (XO (XO (XO (XO XH))))))))))))))))))))))))

(** val hEADER_SIZE : nat **)

let hEADER_SIZE =
  S (S (S (S (S (S (S (S (S (S (S (S (S (S (S (S (S (S (S (S (S (S (S (S
    O)))))))))))))))))))))))

(** val pROTOCOL_VERSION : n **)

let pROTOCOL_VERSION =
  Npos (XO XH)

(** val iNVALID_SOURCE_ID : n **)

let iNVALID_SOURCE_ID =
  Npos (XI (XI (XI (XI (XI (XI (XI (XI (XI (XI (XI (XI (XI (XI (XI (XI (XI
    (XI (XI (XI (XI (XI (XI (XI (XI (XI (XI (XI (XI (XI (XI
    XH)))))))))))))))))))))))))))))))

(** val pY_CALC_CRC_START : nat **)

let pY_CALC_CRC_START =
  S (S (S (S (S (S (S (S O)))))))

(** val pY_VALIDATE_CRC_START : nat **)

let pY_VALIDATE_CRC_START =
  S (S (S (S (S (S (S (S O)))))))

(** val eNC_SEQ_MODULUS : n **)

let eNC_SEQ_MODULUS =
  Npos (XO (XO (XO (XO (XO (XO (XO (XO (XO (XO (XO (XO (XO (XO (XO (XO (XO
    (XO (XO (XO (XO (XO (XO (XO (XO (XO (XO (XO (XO (XO (XO (XO
    XH))))))))))))))))))))))))))))))))

(** val cPP_HEADER_SIZE : nat **)

let cPP_HEADER_SIZE =
  S (S (S (S (S (S (S (S (S (S (S (S (S (S (S (S (S (S (S (S (S (S (S (S
    O)))))))))))))))))))))))

(** val cPP_CRC_OFFSET : nat **)

let cPP_CRC_OFFSET =
  S (S (S (S (S (S (S (S O)))))))

(** val cPP_OFF_CRC : nat **)

let cPP_OFF_CRC =
  S (S (S (S O)))

(** val cPP_OFF_PSIZE : nat **)

let cPP_OFF_PSIZE =
  S (S (S (S (S (S (S (S (S (S (S (S (S (S (S (S O)))))))))))))))

(** val cPP_SIZE_T_BITS : n **)

let cPP_SIZE_T_BITS =
  Npos (XO (XO (XO (XO (XO (XO XH))))))

(** val le : n list -> n **)

let rec le = function
| [] -> N0
| b :: t ->
  N.add b (N.mul (Npos (XO (XO (XO (XO (XO (XO (XO (XO XH))))))))) (le t))

(** val le_enc : nat -> n -> n list **)

let rec le_enc n0 v =
  match n0 with
  | O -> []
  | S k ->
    (N.modulo v (Npos (XO (XO (XO (XO (XO (XO (XO (XO XH)))))))))) :: 
      (le_enc k (N.div v (Npos (XO (XO (XO (XO (XO (XO (XO (XO XH)))))))))))

(** val sub0 : n list -> nat -> nat -> n list **)

let sub0 l a n0 =
  firstn n0 (skipn a l)

(** val step_bit : n -> n **)

let step_bit c =
  if N.testbit c N0
  then N.coq_lxor crc_poly (N.shiftr c (Npos XH))
  else N.shiftr c (Npos XH)

(** val step8 : n -> n **)

let step8 c =
  step_bit
    (step_bit
      (step_bit (step_bit (step_bit (step_bit (step_bit (step_bit c)))))))

(** val upd_bits : n -> n -> n **)

let upd_bits c b =
  step8 (N.coq_lxor c b)

(** val range256 : n list **)

let range256 =
  map N.of_nat
    (seq O (S (S (S (S (S (S (S (S (S (S (S (S (S (S (S (S (S (S (S (S (S (S
      (S (S (S (S (S (S (S (S (S (S (S (S (S (S (S (S (S (S (S (S (S (S (S (S
      (S (S (S (S (S (S (S (S (S (S (S (S (S (S (S (S (S (S (S (S (S (S (S (S
      (S (S (S (S (S (S (S (S (S (S (S (S (S (S (S (S (S (S (S (S (S (S (S (S
      (S (S (S (S (S (S (S (S (S (S (S (S (S (S (S (S (S (S (S (S (S (S (S (S
      (S (S (S (S (S (S (S (S (S (S (S (S (S (S (S (S (S (S (S (S (S (S (S (S
      (S (S (S (S (S (S (S (S (S (S (S (S (S (S (S (S (S (S (S (S (S (S (S (S
      (S (S (S (S (S (S (S (S (S (S (S (S (S (S (S (S (S (S (S (S (S (S (S (S
      (S (S (S (S (S (S (S (S (S (S (S (S (S (S (S (S (S (S (S (S (S (S (S (S
      (S (S (S (S (S (S (S (S (S (S (S (S (S (S (S (S (S (S (S (S (S (S (S (S
      (S (S (S (S (S (S (S (S (S (S (S (S (S (S (S (S (S (S
      O)))))))))))))))))))))))))))))))))))))))))))))))))))))))))))))))))))))))))))))))))))))))))))))))))))))))))))))))))))))))))))))))))))))))))))))))))))))))))))))))))))))))))))))))))))))))))))))))))))))))))))))))))))))))))))))))))))))))))))))))))))))))))))))))))

(** val crc_table : n list **)

let crc_table =
  map step8 range256

(** val table_lookup : n -> n **)

let table_lookup i =
  nth (N.to_nat i) crc_table N0

(** val upd_table : n -> n -> n **)

let upd_table c b =
  N.coq_lxor
    (table_lookup
      (N.coq_land (N.coq_lxor c b) (Npos (XI (XI (XI (XI (XI (XI (XI
        XH)))))))))) (N.shiftr c (Npos (XO (XO (XO XH)))))

(** val crc_fold : (n -> n -> n) -> n -> n list -> n **)

let crc_fold upd c l =
  fold_left upd l c

(** val crc32_from_with : (n -> n -> n) -> n -> n list -> n **)

let crc32_from_with upd init l =
  N.coq_lxor (crc_fold upd (N.coq_lxor init crc_xor) l) crc_xor

(** val crc32_from : n -> n list -> n **)

let crc32_from =
  crc32_from_with upd_table

(** val crc32_spec_from : n -> n list -> n **)

let crc32_spec_from =
  crc32_from_with upd_bits

(** val crc32 : n list -> n **)

let crc32 l =
  crc32_from N0 l

type verdict =
| Accept of nat
| Reject
| More

type 'b frame = nat * 'b list

type 'b sstate = nat * 'b list

(** val scan_aux :
    ('a1 list -> verdict) -> nat -> nat -> 'a1 list -> 'a1 frame list * 'a1
    sstate **)

let rec scan_aux judge fuel off l =
  match fuel with
  | O -> ([], (off, l))
  | S f ->
    (match judge l with
     | Accept n0 ->
       let (fs, st) = scan_aux judge f (add off n0) (skipn n0 l) in
       (((off, (firstn n0 l)) :: fs), st)
     | Reject -> scan_aux judge f (S off) (tl l)
     | More -> ([], (off, l)))

(** val scan :
    ('a1 list -> verdict) -> nat -> 'a1 list -> 'a1 frame list * 'a1 sstate **)

let scan judge off l =
  scan_aux judge (S (length l)) off l

type header = { h_sync0 : n; h_sync1 : n; h_reserved : n; h_crc : n;
                h_proto : n; h_msgver : n; h_type : n; h_seq : n;
                h_psize : n; h_source : n }

(** val parse_header : n list -> header **)

let parse_header l =
  { h_sync0 = (le (sub0 l O (S O))); h_sync1 = (le (sub0 l (S O) (S O)));
    h_reserved = (le (sub0 l (S (S O)) (S (S O)))); h_crc =
    (le (sub0 l (S (S (S (S O)))) (S (S (S (S O)))))); h_proto =
    (le (sub0 l (S (S (S (S (S (S (S (S O)))))))) (S O))); h_msgver =
    (le (sub0 l (S (S (S (S (S (S (S (S (S O))))))))) (S O))); h_type =
    (le (sub0 l (S (S (S (S (S (S (S (S (S (S O)))))))))) (S (S O))));
    h_seq =
    (le
      (sub0 l (S (S (S (S (S (S (S (S (S (S (S (S O)))))))))))) (S (S (S (S
        O)))))); h_psize =
    (le
      (sub0 l (S (S (S (S (S (S (S (S (S (S (S (S (S (S (S (S
        O)))))))))))))))) (S (S (S (S O)))))); h_source =
    (le
      (sub0 l (S (S (S (S (S (S (S (S (S (S (S (S (S (S (S (S (S (S (S (S
        O)))))))))))))))))))) (S (S (S (S O)))))) }

(** val pack_header : header -> n list **)

let pack_header h =
  app (le_enc (S O) h.h_sync0)
    (app (le_enc (S O) h.h_sync1)
      (app (le_enc (S (S O)) h.h_reserved)
        (app (le_enc (S (S (S (S O)))) h.h_crc)
          (app (le_enc (S O) h.h_proto)
            (app (le_enc (S O) h.h_msgver)
              (app (le_enc (S (S O)) h.h_type)
                (app (le_enc (S (S (S (S O)))) h.h_seq)
                  (app (le_enc (S (S (S (S O)))) h.h_psize)
                    (le_enc (S (S (S (S O)))) h.h_source)))))))))

(** val crc_region : n list -> nat -> n list **)

let crc_region l n0 =
  sub0 l (S (S (S (S (S (S (S (S O))))))))
    (sub n0 (S (S (S (S (S (S (S (S O)))))))))

(** val sync_mismatch_early : n list -> bool **)

let sync_mismatch_early = function
| [] -> false
| b0 :: t ->
  if negb (N.eqb b0 sYNC0)
  then true
  else (match t with
        | [] -> false
        | b1 :: _ -> negb (N.eqb b1 sYNC1))

(** val encoder_set_reserved : header -> n -> header **)

let encoder_set_reserved h v =
  { h_sync0 = h.h_sync0; h_sync1 = h.h_sync1; h_reserved = v; h_crc =
    h.h_crc; h_proto = h.h_proto; h_msgver = h.h_msgver; h_type = h.h_type;
    h_seq = h.h_seq; h_psize = h.h_psize; h_source = h.h_source }

(** val encoder_set_crc : header -> n -> header **)

let encoder_set_crc h v =
  { h_sync0 = h.h_sync0; h_sync1 = h.h_sync1; h_reserved = h.h_reserved;
    h_crc = v; h_proto = h.h_proto; h_msgver = h.h_msgver; h_type = h.h_type;
    h_seq = h.h_seq; h_psize = h.h_psize; h_source = h.h_source }

(** val encoder_set_psize : header -> n -> header **)

let encoder_set_psize h v =
  { h_sync0 = h.h_sync0; h_sync1 = h.h_sync1; h_reserved = h.h_reserved;
    h_crc = h.h_crc; h_proto = h.h_proto; h_msgver = h.h_msgver; h_type =
    h.h_type; h_seq = h.h_seq; h_psize = v; h_source = h.h_source }

(** val encoder_fits : header -> bool **)

let encoder_fits h =
  (&&)
    ((&&)
      ((&&)
        ((&&)
          ((&&)
            ((&&)
              ((&&)
                ((&&)
                  ((&&)
                    (N.ltb h.h_sync0 (Npos (XO (XO (XO (XO (XO (XO (XO (XO
                      XH))))))))))
                    (N.ltb h.h_sync1 (Npos (XO (XO (XO (XO (XO (XO (XO (XO
                      XH)))))))))))
                  (N.ltb h.h_reserved (Npos (XO (XO (XO (XO (XO (XO (XO (XO
                    (XO (XO (XO (XO (XO (XO (XO (XO XH)))))))))))))))))))
                (N.ltb h.h_crc (Npos (XO (XO (XO (XO (XO (XO (XO (XO (XO (XO
                  (XO (XO (XO (XO (XO (XO (XO (XO (XO (XO (XO (XO (XO (XO (XO
                  (XO (XO (XO (XO (XO (XO (XO
                  XH)))))))))))))))))))))))))))))))))))
              (N.ltb h.h_proto (Npos (XO (XO (XO (XO (XO (XO (XO (XO
                XH)))))))))))
            (N.ltb h.h_msgver (Npos (XO (XO (XO (XO (XO (XO (XO (XO
              XH)))))))))))
          (N.ltb h.h_type (Npos (XO (XO (XO (XO (XO (XO (XO (XO (XO (XO (XO
            (XO (XO (XO (XO (XO XH)))))))))))))))))))
        (N.ltb h.h_seq (Npos (XO (XO (XO (XO (XO (XO (XO (XO (XO (XO (XO (XO
          (XO (XO (XO (XO (XO (XO (XO (XO (XO (XO (XO (XO (XO (XO (XO (XO (XO
          (XO (XO (XO XH)))))))))))))))))))))))))))))))))))
      (N.ltb h.h_psize (Npos (XO (XO (XO (XO (XO (XO (XO (XO (XO (XO (XO (XO
        (XO (XO (XO (XO (XO (XO (XO (XO (XO (XO (XO (XO (XO (XO (XO (XO (XO
        (XO (XO (XO XH)))))))))))))))))))))))))))))))))))
    (N.ltb h.h_source (Npos (XO (XO (XO (XO (XO (XO (XO (XO (XO (XO (XO (XO
      (XO (XO (XO (XO (XO (XO (XO (XO (XO (XO (XO (XO (XO (XO (XO (XO (XO (XO
      (XO (XO XH))))))))))))))))))))))))))))))))))

(** val encoder_struct_pack : header -> n list option **)

let encoder_struct_pack h =
  if encoder_fits h then Some (pack_header h) else None

(** val encoder_zlib_crc32 : n list -> n -> n **)

let encoder_zlib_crc32 data value =
  crc32_spec_from value data

(** val encoder_py_slice : n list -> n -> n -> n list **)

let encoder_py_slice l a b =
  let n0 = N.of_nat (length l) in
  let a' = N.min a n0 in
  let b' = N.min b n0 in
  firstn (N.to_nat (N.sub b' a')) (skipn (N.to_nat a') l)

(** val encoder_pack_plain : header -> (header * n list) option **)

let encoder_pack_plain h =
  let h0 = encoder_set_reserved h N0 in
  (match encoder_struct_pack h0 with
   | Some b -> Some (h0, b)
   | None -> None)

(** val encoder_calculate_crc : header -> n list -> header option **)

let encoder_calculate_crc h payload =
  let h1 = encoder_set_psize h (N.of_nat (length payload)) in
  (match encoder_pack_plain h1 with
   | Some p ->
     let (h2, header_buffer) = p in
     let c1 = encoder_zlib_crc32 (skipn pY_CALC_CRC_START header_buffer) N0 in
     let c2 = encoder_zlib_crc32 payload c1 in Some (encoder_set_crc h2 c2)
   | None -> None)

(** val encoder_pack_payload :
    header -> n list -> (header * n list) option **)

let encoder_pack_payload h payload =
  let h0 = encoder_set_reserved h N0 in
  (match encoder_calculate_crc h0 payload with
   | Some h3 ->
     (match encoder_struct_pack h3 with
      | Some b -> Some (h3, (app b payload))
      | None -> None)
   | None -> None)

(** val encoder_new_header : n -> header **)

let encoder_new_header mtype =
  { h_sync0 = sYNC0; h_sync1 = sYNC1; h_reserved = N0; h_crc = N0; h_proto =
    pROTOCOL_VERSION; h_msgver = N0; h_type = mtype; h_seq = N0; h_psize =
    N0; h_source = iNVALID_SOURCE_ID }

(** val encoder_next_seq : n -> n **)

let encoder_next_seq s =
  if N.eqb eNC_SEQ_MODULUS N0
  then N.add s (Npos XH)
  else N.modulo (N.add s (Npos XH)) eNC_SEQ_MODULUS

(** val encoder_next_seq_legacy : n -> n **)

let encoder_next_seq_legacy s =
  N.add s (Npos XH)

type encoder_payload = { p_type : n; p_version : n; p_bytes : n list }

(** val encoder_encode_with :
    (n -> n) -> n -> encoder_payload -> n -> n list option * n **)

let encoder_encode_with next seq0 m source =
  let h = encoder_new_header m.p_type in
  let h0 = { h_sync0 = h.h_sync0; h_sync1 = h.h_sync1; h_reserved =
    h.h_reserved; h_crc = h.h_crc; h_proto = h.h_proto; h_msgver =
    m.p_version; h_type = h.h_type; h_seq = seq0; h_psize = h.h_psize;
    h_source = source }
  in
  let seq' = next seq0 in
  ((match encoder_pack_payload h0 m.p_bytes with
    | Some p -> let (_, b) = p in Some b
    | None -> None), seq')

(** val encoder_run_with :
    (n -> n) -> n -> (encoder_payload * n) list -> n list option list * n **)

let rec encoder_run_with next seq0 = function
| [] -> ([], seq0)
| p :: t ->
  let (m, src) = p in
  let (o, s1) = encoder_encode_with next seq0 m src in
  let (os, s2) = encoder_run_with next s1 t in ((o :: os), s2)

(** val encoder_run :
    n -> (encoder_payload * n) list -> n list option list * n **)

let encoder_run =
  encoder_run_with encoder_next_seq

(** val encoder_run_legacy :
    n -> (encoder_payload * n) list -> n list option list * n **)

let encoder_run_legacy =
  encoder_run_with encoder_next_seq_legacy

type encoder_vc =
| VcOk
| VcTooBig
| VcNotEnough
| VcMismatch

(** val encoder_validate_crc : header -> n list -> n -> encoder_vc **)

let encoder_validate_crc h buffer offset =
  if N.ltb mAX_EXPECTED_SIZE_BYTES h.h_psize
  then VcTooBig
  else let message_size_bytes = N.add (N.of_nat hEADER_SIZE) h.h_psize in
       if N.ltb (N.of_nat (length buffer)) (N.add offset message_size_bytes)
       then VcNotEnough
       else let crc =
              encoder_zlib_crc32
                (encoder_py_slice buffer
                  (N.add offset (N.of_nat pY_VALIDATE_CRC_START))
                  (N.add offset message_size_bytes)) N0
            in
            if N.eqb crc h.h_crc then VcOk else VcMismatch

(** val encoder_unpack_validate : n list -> (header * encoder_vc) option **)

let encoder_unpack_validate buffer =
  if Nat.ltb (length buffer) hEADER_SIZE
  then None
  else let h = parse_header (firstn hEADER_SIZE buffer) in
       Some (h, (encoder_validate_crc h buffer N0))

(** val encoder_unpack_into :
    header -> n list -> (header * encoder_vc) option **)

let encoder_unpack_into old buffer =
  match encoder_unpack_validate buffer with
  | Some p ->
    let (h, v) = p in
    let ty = match v with
             | VcOk -> h.h_type
             | _ -> old.h_type in
    Some ({ h_sync0 = sYNC0; h_sync1 = sYNC1; h_reserved = h.h_reserved;
    h_crc = h.h_crc; h_proto = h.h_proto; h_msgver = h.h_msgver; h_type = ty;
    h_seq = h.h_seq; h_psize = h.h_psize; h_source = h.h_source }, v)
  | None -> None

(** val encoder_size_t : n -> n **)

let encoder_size_t x =
  N.modulo x (N.pow (Npos (XO XH)) cPP_SIZE_T_BITS)

(** val encoder_cpp_crc3 : n list -> n -> n -> n option **)

let encoder_cpp_crc3 buf len init =
  if N.ltb (N.of_nat (length buf)) len
  then None
  else Some
         (crc32_from
           (N.modulo init (Npos (XO (XO (XO (XO (XO (XO (XO (XO (XO (XO (XO
             (XO (XO (XO (XO (XO (XO (XO (XO (XO (XO (XO (XO (XO (XO (XO (XO
             (XO (XO (XO (XO (XO XH))))))))))))))))))))))))))))))))))
           (firstn (N.to_nat len) buf))

(** val encoder_cpp_psize : n list -> n **)

let encoder_cpp_psize buf =
  le (sub0 buf cPP_OFF_PSIZE (S (S (S (S O)))))

(** val encoder_cpp_stored_crc : n list -> n **)

let encoder_cpp_stored_crc buf =
  le (sub0 buf cPP_OFF_CRC (S (S (S (S O)))))

(** val encoder_cpp_crc1 : n list -> n option **)

let encoder_cpp_crc1 buf =
  if Nat.ltb (length buf) cPP_HEADER_SIZE
  then None
  else let size_bytes =
         encoder_size_t
           (N.add (N.of_nat (sub cPP_HEADER_SIZE cPP_CRC_OFFSET))
             (encoder_cpp_psize buf))
       in
       if N.ltb (N.of_nat (length buf))
            (N.add (N.of_nat cPP_CRC_OFFSET) size_bytes)
       then None
       else encoder_cpp_crc3 (skipn cPP_CRC_OFFSET buf) size_bytes N0

(** val encoder_cpp_is_valid : n list -> bool option **)

let encoder_cpp_is_valid buf =
  if Nat.ltb (length buf) cPP_HEADER_SIZE
  then None
  else if N.ltb cPP_MAX_MESSAGE_SIZE_BYTES
            (encoder_size_t
              (N.add (N.of_nat cPP_HEADER_SIZE) (encoder_cpp_psize buf)))
       then Some false
       else (match encoder_cpp_crc1 buf with
             | Some c -> Some (N.eqb (encoder_cpp_stored_crc buf) c)
             | None -> None)

(** val encoder_judge : bool -> bool -> n -> n list -> verdict **)

let encoder_judge eager check_reserved max_payload l =
  if (&&) eager (sync_mismatch_early l)
  then Reject
  else if Nat.ltb (length l) hEADER_SIZE
       then More
       else let h = parse_header (firstn hEADER_SIZE l) in
            if negb ((&&) (N.eqb h.h_sync0 sYNC0) (N.eqb h.h_sync1 sYNC1))
            then Reject
            else if (&&) check_reserved (negb (N.eqb h.h_reserved N0))
                 then Reject
                 else if N.ltb max_payload h.h_psize
                      then Reject
                      else if N.ltb (N.of_nat (length l))
                                (N.add (N.of_nat hEADER_SIZE) h.h_psize)
                           then More
                           else let n0 = add hEADER_SIZE (N.to_nat h.h_psize)
                                in
                                if N.eqb (crc32 (crc_region l n0)) h.h_crc
                                then Accept n0
                                else Reject

(** val encoder_xor_bytes : n list -> n list -> n list **)

let rec encoder_xor_bytes m e =
  match m with
  | [] -> []
  | a :: m' ->
    (match e with
     | [] -> []
     | b :: e' -> (N.coq_lxor a b) :: (encoder_xor_bytes m' e'))

(** val encoder_mapply : n list -> n -> n **)

let rec encoder_mapply m v =
  match m with
  | [] -> N0
  | r :: t ->
    N.coq_lxor (if N.odd v then r else N0) (encoder_mapply t (N.div2 v))

(** val encoder_mat_of : (n -> n) -> n list **)

let encoder_mat_of g =
  map (fun j -> g (N.pow (Npos (XO XH)) (N.of_nat j)))
    (seq O (S (S (S (S (S (S (S (S (S (S (S (S (S (S (S (S (S (S (S (S (S (S
      (S (S (S (S (S (S (S (S (S (S O)))))))))))))))))))))))))))))))))

(** val encoder_mmul : n list -> n list -> n list **)

let encoder_mmul a b =
  map (encoder_mapply a) b

(** val encoder_mpow : n list -> positive -> n list **)

let rec encoder_mpow m = function
| XI q -> let h = encoder_mpow m q in encoder_mmul m (encoder_mmul h h)
| XO q -> let h = encoder_mpow m q in encoder_mmul h h
| XH -> m

(** val encoder_steps1_fast : positive -> n **)

let encoder_steps1_fast p =
  hd N0 (encoder_mpow (encoder_mat_of step_bit) p)
