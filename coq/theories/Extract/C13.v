From Coq Require Import ZArith List Extraction ExtrOcamlBasic.
From FEC Require Import Models.TimeRangeM.
Extraction Language OCaml.
Set Extraction Output Directory ".".
Extraction "c13_x.ml" current legacy init_gen restart is_in_range_gen run_gen make_absolute_gen intersect_gen
  parse_gen parse_tuple_gen parse_obj pyfloat spec_run describe describe_text nondecr first_timed origins_agree.
