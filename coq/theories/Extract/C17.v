From Coq Require Import ZArith List String Extraction ExtrOcamlBasic.
From FEC Require Import Generated.DynEnumTables Models.DynEnumM.
Extraction Language OCaml.
Set Extraction Output Directory ".".
Extraction "c17_x.ml" init step spec abstract allowed table_ok prefix_ok table_of reversed_legacy entries
  make_mask to_bitmask to_values spec_roundtrip spec_roundtrip_items roundtrip rt_pre real_mask real_mask_enum enum_tables mask_tables hidden_ns hidden_ns_ci.
