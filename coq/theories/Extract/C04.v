From Coq Require Import ZArith NArith List Extraction ExtrOcamlBasic.
From FEC Require Import Base.Scan Base.FEFormat Models.PyDecoderM.
Extraction Language OCaml.
Set Extraction Output Directory ".".
Extraction "c04_x.ml" PyDecoder_on_data PyDecoder_init PyDecoder_judge PyDecoder_judge_dec feed parse_header Z.of_N.
