From Coq Require Import ZArith QArith Extraction ExtrOcamlBasic.
From FEC Require Import Models.HeadingM.
Extraction Language OCaml.
Set Extraction Output Directory ".".
Extraction "c19_x.ml" Heading_spec_heading Heading_spec_yaw.
