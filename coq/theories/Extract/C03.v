From Coq Require Import ZArith List String Extraction ExtrOcamlBasic.
From FEC Require Import Models.EnumsM Models.EnumsTables.
Extraction Language OCaml.
Set Extraction Output Directory ".".
Extraction "c03_x.ml" c03_enum_mismatches c03_classification_mismatches c03_registry_mismatches
  c03_enum_mismatches_after c03_classification_mismatches_after c03_registry_mismatches_after
  c03_enum_mismatches_public c03_classification_mismatches_public c03_registry_mismatches_public.
