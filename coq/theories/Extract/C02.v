From Coq Require Import Arith List String Extraction ExtrOcamlBasic.
From FEC Require Import Models.PackingM Models.LayoutM Models.LayoutValuesM Models.LayoutTables.
Extraction Language OCaml.
Set Extraction Output Directory ".".
Extraction "c02_x.ml" c02_layout_mismatches c02_readme_violations c02_float_violations c02_value_mismatches.
