From Coq Require Import ZArith List Extraction ExtrOcamlBasic.
From FEC Require Import Models.DataVersion.
Extraction Language OCaml.
Set Extraction Output Directory ".".
Extraction "c20_x.ml" from_string spec_from_string from_string_legacy to_string is_valid v_eq v_ne v_lt v_gt v_le v_ge.
