From Coq Require Import ZArith List Extraction ExtrOcamlBasic.
From FEC Require Import Models.FileIndexOpsM Models.LogReaderM.
Extraction Language OCaml.
Set Extraction Output Directory ".".
Extraction "c11_x.ml" fixed legacy construct step_op spec_step index_of_file run_script spec_script.
