From Coq Require Import ZArith NArith List Extraction ExtrOcamlBasic.
From FEC Require Import Models.FileScanM Models.FileIndexIOM.
Extraction Language OCaml.
Set Extraction Output Directory ".".
Extraction "c09_x.ml" open_log open_log_max load load_legacy save fresh file_frames parse_records to_raw enc_records read_all index_offsets Z.of_N.
