From Coq Require Import ZArith List Extraction ExtrOcamlBasic.
From FEC Require Import Models.FileIndexOpsM Models.LogReaderM.
Extraction Language OCaml.
Set Extraction Output Directory ".".
Extraction "c10_x.ml" fixed legacy read_log read_log_late_sources spec_read index_of_file getitem spec_getitem.
