From Coq Require Import NArith ZArith List Extraction ExtrOcamlBasic.
From FEC Require Import Models.FramerCoreM Models.FramerSpecM Models.RtcmFormatM Models.RtcmFramerM.
Extraction Language OCaml.
Set Extraction Output Directory ".".
Extraction "c14_x.ml" rtcm_op rtcm_construct rtcm_spec_op rtcm_spec_construct rtcm_event_of rtcm_decoded
  rtcm_errors crc24_hash crc24q judge_rtcm frames_total.
