From Coq Require Import ZArith NArith List Extraction ExtrOcamlBasic.
From FEC Require Import Models.CodecM Generated.LayoutPy.
Extraction Language OCaml.
Set Extraction Output Directory ".".
Extraction "c01_x.ml" Codec_parse Codec_parse_dom Codec_pack Codec_sizeof Codec_nogreedy Codec_wf py_descriptions
  Codec_ts_dec Codec_ts_enc Codec_ts_enc_legacy Codec_ts_dom Codec_ts_join.
