From Coq Require Import ZArith List Extraction ExtrOcamlBasic.
From FEC Require Import Models.TimeAlignM.
Extraction Language OCaml.
Set Extraction Output Directory ".".
Extraction "c15_x.ml" ta_align ta_spec ta_spec_times.
