From Coq Require Import List String Extraction ExtrOcamlBasic.
From FEC Require Import Generated.NumpyTables Models.ToNumpyM Models.NumpyTableM.
Extraction Language OCaml.
Set Extraction Output Directory ".".
Extraction "c16_x.ml" np_remove_nan np_remove_nan_legacy np_positions np_select_time np_is_skipped np_bad_rows np_opaque_same_named np_rows np_column np_first np_generic.
