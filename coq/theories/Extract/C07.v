From Coq Require Import NArith ZArith List Extraction ExtrOcamlBasic.
From FEC Require Import Base.Crc32 Models.FramerCoreM Models.FramerSpecM Models.CppFramerM.
Extraction Language OCaml.
Set Extraction Output Directory ".".
Extraction "c07_x.ml" fe_op fe_legacy_op fe_construct fe_legacy_construct fe_spec_op fe_spec_construct
  fe_event_of judge_py_cap crc32 frames_total.
