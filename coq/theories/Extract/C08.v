From Coq Require Import NArith List Extraction ExtrOcamlBasic.
From FEC Require Import Models.FastIndexerM.
Extraction Language OCaml.
Extraction "c08_x.ml" fi_generate fi_spec_x fi_cur fi_legacy mkCfg.
