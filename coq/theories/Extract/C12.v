From Coq Require Import ZArith NArith List Extraction ExtrOcamlBasic.
From FEC Require Import Models.DataLoaderM.
From FEC Require Models.LogReaderM Models.DataLoaderLinkM.
Extraction Language OCaml.
Set Extraction Output Directory ".".
Extraction "c12_x.ml" read_gen run_gen current legacy init_state concrete_env spec_messages diag mkArgs mkTr mkMsg
  DataLoaderLinkM.runner_env LogReaderM.mkFile LogReaderM.mkM.
