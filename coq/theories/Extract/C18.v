From Coq Require Import ZArith NArith List Extraction ExtrOcamlBasic.
From FEC Require Import Models.FileScanM Models.FileIndexIOM Models.ExtractLogM.
Extraction Language OCaml.
Set Extraction Output Directory ".".
Extraction "c18_x.ml" extract extract_over file_frames spec_output spec_count fresh_saved fresh to_raw to_raw_legacy parse_records read_all index_offsets Z.of_N.
