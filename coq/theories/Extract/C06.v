From Coq Require Import NArith List Extraction ExtrOcamlBasic.
From FEC Require Import Generated.FEConsts Generated.EncoderConsts Base.Bytes Base.Crc32 Base.Scan Base.FEFormat Models.EncoderM.
Extraction Language OCaml.
Set Extraction Output Directory ".".
Extraction "c06_x.ml" Encoder_run Encoder_run_legacy Encoder_unpack_validate Encoder_cpp_crc3 Encoder_cpp_crc1
  Encoder_cpp_is_valid Encoder_judge scan crc32_from crc32_spec_from Encoder_xor_bytes parse_header
  MAX_EXPECTED_SIZE_BYTES CPP_MAX_MESSAGE_SIZE_BYTES Encoder_steps1_fast Encoder_calculate_crc Encoder_validate_crc Encoder_unpack_into Encoder_pack_plain Encoder_pack_payload Encoder_new_header SYNC0 SYNC1 PROTOCOL_VERSION.
