(* C12 — concrete witnesses (vm_compute): what the pre-repair code did, the recorded finding, non-vacuity instances. *)
From Coq Require Import ZArith NArith List Bool Lia Sorting.Sorted.
From FEC Require Import Generated.DataLoaderConsts Models.DataLoaderM Proofs.DataLoaderP.
Import ListNotations.

Definition POSE : N := 10000%N.
Definition GNSS_INFO : N := 10001%N.
Definition POSE_AUX : N := 10003%N.
Definition EVENT : N := 13004%N.

Definition p1msg (o ty src : N) (t : Z) : DLmsg := mkMsg o ty src (Some t) true false true.
Definition evmsg (o src : N) : DLmsg := mkMsg o EVENT src None false true true.
Definition tr_all : trange := mkTr None None false.

(* the 10-message log of corpus/C12 (the shape of the library's own loader test) *)
Definition wlog : list DLmsg :=
  [evmsg 0 0; p1msg 1 POSE 0 11; p1msg 2 POSE 0 12; p1msg 3 POSE_AUX 0 12; p1msg 4 GNSS_INFO 0 12; evmsg 5 0;
   p1msg 6 POSE_AUX 0 13; p1msg 7 GNSS_INFO 0 13; p1msg 8 POSE 0 13; evmsg 9 0]%N%Z.
Definition wenv : env :=
  concrete_env wlog [0%N] [(tr_all, [0; 1; 2; 3; 4; 5; 6; 7; 8; 9]%N)] [1; 2; 3; 4; 6; 7; 8]%N.

Definition call (types : list N) : args :=
  mkArgs (Some types) tr_all None false None false false false false false false false true 0%N None.
Definition with_max (n : Z) (a : args) : args :=
  mkArgs (a_types a) (a_tr a) (a_src a) (a_ignore a) (Some n) (a_p1 a) (a_sys a) (a_order a) (a_bytes a) (a_idx a)
         (a_numpy a) (a_keep a) (a_nan a) (a_align a) (a_atypes a).
Definition with_numpy (keep : bool) (a : args) : args :=
  mkArgs (a_types a) (a_tr a) (a_src a) (a_ignore a) (a_max a) (a_p1 a) (a_sys a) (a_order a) (a_bytes a) (a_idx a)
         true keep (a_nan a) (a_align a) (a_atypes a).
Definition with_src (s : list N) (a : args) : args :=
  mkArgs (a_types a) (a_tr a) (Some s) (a_ignore a) (a_max a) (a_p1 a) (a_sys a) (a_order a) (a_bytes a) (a_idx a)
         (a_numpy a) (a_keep a) (a_nan a) (a_align a) (a_atypes a).
Definition with_sys (a : args) : args :=
  mkArgs (a_types a) (a_tr a) (a_src a) (a_ignore a) (a_max a) (a_p1 a) true (a_order a) (a_bytes a) (a_idx a)
         (a_numpy a) (a_keep a) (a_nan a) (a_align a) (a_atypes a).
Definition in_order (a : args) : args :=
  mkArgs (a_types a) (a_tr a) (a_src a) (a_ignore a) (a_max a) (a_p1 a) (a_sys a) true (a_bytes a) (a_idx a)
         (a_numpy a) (a_keep a) (a_nan a) (a_align a) (a_atypes a).

(* ordinals of the messages returned for type t *)
Definition ords_of (o : outcome) (t : N) : option (list N) :=
  match o with
  | OutDict r => match lookup_data t r with
                 | Some d => Some (map (fun r => match r with RFile m => m_ord m | RDefault _ _ => 999%N end) (d_msgs d))
                 | None => None end
  | OutOrder d => Some (map (fun r => match r with RFile m => m_ord m | RDefault _ _ => 999%N end) (d_msgs d))
  | OutUnmodelled => None
  end.

(* DESIGN 21 #10, first sequence: read([Pose], return_numpy=True, keep_messages=False) then read([Pose]) *)
Lemma legacy_numpy_clears_cache :
  let h := [with_numpy false (call [POSE])] in
  let a := call [POSE] in
  ords_of (snd (read_legacy wenv (run_gen legacy wenv init_state h) a)) POSE = Some [] /\
  ords_of (snd (read_legacy wenv init_state a)) POSE = Some [1; 2; 8]%N.
Proof. vm_compute. split; reflexivity. Qed.

(* DESIGN 21 #10, second sequence: read([Pose], max_messages=2) then read([Pose, PoseAux], max_messages=2) *)
Lemma legacy_limit_mixed_across_types :
  let h := [with_max 2 (call [POSE])] in
  let a := with_max 2 (call [POSE; POSE_AUX]) in
  ords_of (snd (read_legacy wenv (run_gen legacy wenv init_state h) a)) POSE = Some [1; 2; 1; 2]%N /\
  ords_of (snd (read_legacy wenv init_state a)) POSE = Some [1; 2]%N.
Proof. vm_compute. split; reflexivity. Qed.

(* a partial cache hit appended the re-read messages to the cached entry *)
Lemma legacy_partial_hit_duplicates :
  let h := [call [POSE]] in
  let a := call [POSE; POSE_AUX] in
  ords_of (snd (read_legacy wenv (run_gen legacy wenv init_state h) a)) POSE = Some [1; 2; 8; 1; 2; 8]%N /\
  ords_of (snd (read_legacy wenv init_state a)) POSE = Some [1; 2; 8]%N.
Proof. vm_compute. split; reflexivity. Qed.

Lemma cache_transparent_legacy_refuted :
  exists e h a, env_ok e /\ snd (read_legacy e (run_gen legacy e init_state h) a) <> snd (read_legacy e init_state a).
Proof.
  exists wenv, [with_numpy false (call [POSE])], (call [POSE]). split; [apply concrete_env_ok |].
  intros H. pose proof legacy_numpy_clears_cache as [H1 H2]. cbv zeta in H1, H2. rewrite H in H1. rewrite H1 in H2. discriminate.
Qed.

(* the maximum-reached break fired while the last-N deque was filling *)
Lemma legacy_last_n_returns_first_n :
  let a := with_max (-1) (with_sys (call [EVENT])) in
  ords_of (snd (read_legacy wenv init_state a)) EVENT = Some [0]%N /\
  map m_ord (spec_messages wenv a false) = [9]%N /\
  ords_of (fresh wenv a) EVENT = Some [9]%N.
Proof. vm_compute. repeat split; reflexivity. Qed.

(* the same sequences on the code as it is now *)
Example current_sequences_transparent :
  ords_of (snd (read wenv (run wenv init_state [with_numpy false (call [POSE])]) (call [POSE]))) POSE = Some [1; 2; 8]%N /\
  ords_of (snd (read wenv (run wenv init_state [with_max 2 (call [POSE])]) (with_max 2 (call [POSE; POSE_AUX])))) POSE = Some [1; 2]%N /\
  ords_of (snd (read wenv (run wenv init_state [call [POSE]]) (call [POSE; POSE_AUX]))) POSE = Some [1; 2; 8]%N.
Proof. vm_compute. repeat split; reflexivity. Qed.

(* DESIGN 21 #16: the index pre-slice is taken before the read-time source test *)
Definition slog : list DLmsg := [p1msg 0 POSE 1 11; p1msg 1 POSE 0 12; p1msg 2 POSE 0 13]%N%Z.
Definition senv : env := concrete_env slog [0; 1]%N [(tr_all, [0; 1; 2]%N)] [0; 1; 2]%N.
Definition sargs : args := with_max 1 (with_src [0%N] (call [POSE])).

(* before /repo 638779d: nothing came back although Pose #1 matches; now the counter applies the limit *)
Lemma max_with_sources_witness :
  ords_of (snd (read_legacy senv init_state sargs)) POSE = Some [] /\
  map m_ord (spec_messages senv sargs false) = [1]%N /\
  ords_of (fresh senv sargs) POSE = Some [1]%N.
Proof. vm_compute. repeat split; reflexivity. Qed.

Lemma all_decode_senv : all_decode senv sargs.
Proof. intros m Hm _. cbn in Hm. repeat (destruct Hm as [<- | Hm]; [reflexivity |]). destruct Hm. Qed.

Lemma max_messages_semantics_legacy_refuted :
  exists e a, env_ok e /\ all_decode e a /\ a_order a = false /\ a_align a = align_none /\ a_numpy a = false /\
    ~ (exists r, snd (read_legacy e init_state a) = OutDict r /\
         forall t d, lookup_data t r = Some d -> d_msgs d = map RFile (of_type t (spec_messages e a false))).
Proof.
  exists senv, sargs. split; [apply concrete_env_ok |]. split; [apply all_decode_senv |]. repeat split; try reflexivity.
  intros (r & Hr & Hall).
  destruct max_with_sources_witness as (H1 & H2 & _). unfold ords_of in H1. rewrite Hr in H1.
  destruct (lookup_data POSE r) as [d |] eqn:El; [| discriminate].
  specialize (Hall POSE d El).
  assert (Hlen : length (d_msgs d) = 1).
  { rewrite Hall, map_length.
    replace (of_type POSE (spec_messages senv sargs false)) with (spec_messages senv sargs false) by (vm_compute; reflexivity).
    rewrite <- (map_length m_ord), H2. reflexivity. }
  inversion H1 as [H3]. apply (f_equal (@length N)) in H3. rewrite map_length in H3. cbn in H3. lia.
Qed.

(* non-vacuity of the hypotheses of the semantic theorems: a history-free call with a maximum, in order, last N *)
Lemma all_decode_wenv a : all_decode wenv a.
Proof. intros m Hm _. cbn in Hm. repeat (destruct Hm as [<- | Hm]; [reflexivity |]). destruct Hm. Qed.

Example preslice_harmless_instances :
  preslice_harmless wenv (with_max 3 (call [POSE; POSE_AUX])) /\
  preslice_harmless wenv (in_order (with_max (-2) (call [POSE; EVENT]))) /\
  map m_ord (spec_messages wenv (with_max 3 (call [POSE; POSE_AUX])) false) = [1; 2; 3]%N /\
  map m_ord (spec_messages wenv (in_order (with_max (-2) (call [POSE; EVENT]))) false) = [8; 9]%N /\
  ords_of (fresh wenv (in_order (with_max (-2) (call [POSE; EVENT])))) 0%N = Some [8; 9]%N /\
  StronglySorted N.lt (map m_ord (e_log wenv)).
Proof.
  unfold preslice_harmless. repeat split; try (right; vm_compute; reflexivity); try (vm_compute; reflexivity).
  vm_compute. repeat constructor.
Qed.

(* a source the reader did not discover: returned when no source_ids are given, not returned when requested by id *)
Definition llog : list DLmsg := [p1msg 0 POSE 0 11; p1msg 1 POSE 0 12; p1msg 2 POSE 5 13]%N%Z.
Definition lenv : env := concrete_env llog [0%N] [(tr_all, [0; 1; 2]%N)] [0; 1; 2]%N.
Example undiscovered_source_instances :
  ords_of (fresh lenv (call [POSE])) POSE = Some [0; 1; 2]%N /\
  ords_of (fresh lenv (with_src [0; 5]%N (call [POSE]))) POSE
    = Some (if reader_intersects_sampled_sources then [0; 1] else [0; 1; 2])%N /\
  map m_ord (spec_messages lenv (with_src [0; 5]%N (call [POSE])) true) = [0; 1; 2]%N.
Proof. vm_compute. repeat split; reflexivity. Qed.

(* before /repo 8223552 open() kept the cache: after reading wlog, open() of slog and read([Pose]) returned wlog's Pose *)
Lemma legacy_open_keeps_cache :
  ords_of (snd (read senv (reopen_gen false (run wenv init_state [call [POSE]])) (call [POSE]))) POSE = Some [1; 2; 8]%N /\
  ords_of (fresh senv (call [POSE])) POSE = Some [0; 1; 2]%N /\
  ords_of (snd (read senv (reopen (run wenv init_state [call [POSE]])) (call [POSE]))) POSE = Some [0; 1; 2]%N.
Proof. vm_compute. repeat split; reflexivity. Qed.
