(* C01 — the Timestamp adapter over the reals: the integer soft-float operations of Models/CodecTs.v are the
   round-to-nearest-even operations of Flocq's FLX(53) format (no exponent bounds: all values here are zero or
   normal binary64 numbers far from overflow), and the projection law dec (enc (dec z)) = dec z for every stamp
   with 0 < ns < 10^9 and sec < 2^32 - 2. *)
From Coq Require Import ZArith Reals Lia Lra Psatz Bool.
From Flocq Require Import Core.Zaux Core.Raux Core.Defs Core.Digits Core.Float_prop Core.Generic_fmt Core.FLX Core.Ulp Core.Round_NE Relative Operations.
From FEC Require Import Generated.CodecConsts Models.CodecTs Models.CodecM Proofs.CodecP.
Open Scope R_scope.

Definition TsR_fexp := FLX_exp 53.
Definition TsR_rnd := round radix2 TsR_fexp ZnearestE.
Definition TsR_val (x : Codec_sf) : R := F2R (Float radix2 (fst x) (snd x)).

Global Instance TsR_prec : Prec_gt_0 53.
Proof. unfold Prec_gt_0. lia. Qed.
Global Instance TsR_valid : Valid_exp TsR_fexp := FLX_exp_valid 53.

(* ---- nearest-even of a dyadic rational, as the integer code computes it ---- *)
Lemma TsR_nearest_dyadic : forall m sh, (0 <= m)%Z -> (0 < sh)%Z ->
  ZnearestE (IZR m / IZR (2 ^ sh)) =
  (let q := (m / 2 ^ sh)%Z in let r := (m mod 2 ^ sh)%Z in let half := (2 ^ (sh - 1))%Z in
   if (half <? r)%Z || ((r =? half)%Z && Z.odd q) then q + 1 else q)%Z.
Proof.
  intros m sh Hm Hsh. cbv zeta.
  set (D := (2 ^ sh)%Z). set (q := (m / D)%Z). set (r := (m mod D)%Z). set (half := (2 ^ (sh - 1))%Z).
  assert (HD : (D = 2 * half)%Z). { unfold D, half. rewrite <- Z.pow_succ_r by lia. f_equal. lia. }
  assert (Hh : (0 < half)%Z) by (apply Z.pow_pos_nonneg; lia).
  assert (Hr : (0 <= r < D)%Z) by (apply Z.mod_pos_bound; lia).
  assert (Hq : (m = D * q + r)%Z) by (apply Z.div_mod; lia).
  assert (DR : (0 < IZR D)%R) by (apply IZR_lt; lia).
  assert (X : IZR m / IZR D = IZR q + IZR r / IZR D).
  { rewrite Hq at 1. rewrite plus_IZR, mult_IZR. field. lra. }
  assert (Fr : 0 <= IZR r / IZR D < 1).
  { split. apply Rmult_le_pos. apply IZR_le; lia. apply Rlt_le, Rinv_0_lt_compat; auto.
    apply Rmult_lt_reg_r with (IZR D); auto. unfold Rdiv. rewrite Rmult_assoc, Rinv_l by lra. rewrite Rmult_1_r, Rmult_1_l. apply IZR_lt. lia. }
  assert (Fl : Zfloor (IZR m / IZR D) = q).
  { apply Zfloor_imp. rewrite plus_IZR. simpl. lra. }
  unfold Znearest. rewrite Fl. replace (IZR m / IZR D - IZR q) with (IZR r / IZR D) by lra.
  assert (Cmp : Rcompare (IZR r / IZR D) (/ 2) = Z.compare r half).
  { rewrite <- (Rcompare_mult_r (IZR D)) by auto. unfold Rdiv. rewrite Rmult_assoc, Rinv_l by lra. rewrite Rmult_1_r.
    replace (/ 2 * IZR D) with (IZR half). apply Rcompare_IZR. rewrite HD, mult_IZR. simpl. lra. }
  rewrite Cmp. destruct (Z.compare_spec r half) as [E | L | G].
  - replace (half <? r)%Z with false by lia. replace (r =? half)%Z with true by lia. cbn [orb andb].
    rewrite <- Z.negb_even. destruct (negb (Z.even q)); auto.
    rewrite Zceil_floor_neq. rewrite Fl. reflexivity. rewrite Fl, X. intros H.
    assert (IZR r / IZR D = 0) by lra. assert (IZR r = 0). { apply Rmult_eq_reg_r with (/ IZR D). lra. apply Rinv_neq_0_compat. lra. }
    apply eq_IZR in H1. lia.
  - replace (half <? r)%Z with false by lia. replace (r =? half)%Z with false by lia. reflexivity.
  - replace (half <? r)%Z with true by lia. cbn [orb].
    rewrite Zceil_floor_neq. rewrite Fl. reflexivity. rewrite Fl, X. intros H.
    assert (IZR r / IZR D = 0) by lra. assert (IZR r = 0). { apply Rmult_eq_reg_r with (/ IZR D). lra. apply Rinv_neq_0_compat. lra. }
    apply eq_IZR in H1. lia.
Qed.

Lemma TsR_digits : forall m, (0 < m)%Z -> Zdigits radix2 m = (Z.log2 m + 1)%Z.
Proof.
  intros m H. apply Zdigits_unique. destruct (Z.log2_spec m H) as [L U].
  rewrite Z.abs_eq by lia. replace (Z.log2 m + 1 - 1)%Z with (Z.log2 m) by lia.
  change (Zpower radix2 (Z.log2 m)) with (2 ^ Z.log2 m)%Z. change (Zpower radix2 (Z.log2 m + 1)) with (2 ^ (Z.log2 m + 1))%Z.
  replace (Z.log2 m + 1)%Z with (Z.succ (Z.log2 m)) by lia. lia.
Qed.

(* the integer rounding is Flocq's round-to-nearest-even to 53 bits *)
Lemma TsR_rnd53 : forall m e, (0 <= m)%Z -> TsR_val (Codec_rnd53 m e) = TsR_rnd (F2R (Float radix2 m e)).
Proof.
  intros m e Hm. unfold Codec_rnd53.
  destruct (m <=? 0)%Z eqn:Z0.
  - assert (m = 0%Z) by lia. subst. unfold TsR_val, TsR_rnd. cbn [fst snd]. rewrite !F2R_0. rewrite round_0; auto. apply valid_rnd_N.
  - assert (Pm : (0 < m)%Z) by lia. pose proof (TsR_digits m Pm) as Dg.
    assert (Mg : mag radix2 (F2R (Float radix2 m e)) = (Z.log2 m + 1 + e)%Z :> Z).
    { rewrite mag_F2R_Zdigits by lia. rewrite Dg. reflexivity. }
    destruct (Z.log2 m + 1 <=? 53)%Z eqn:Small.
    + unfold TsR_val, TsR_rnd. cbn [fst snd]. symmetry. apply round_generic. apply valid_rnd_N.
      apply generic_format_F2R. intros _. unfold cexp. rewrite Mg. unfold TsR_fexp, FLX_exp. lia.
    + set (sh := (Z.log2 m + 1 - 53)%Z). assert (Hsh : (0 < sh)%Z) by (unfold sh; lia).
      assert (Cx : cexp radix2 TsR_fexp (F2R (Float radix2 m e)) = (e + sh)%Z).
      { unfold cexp. rewrite Mg. unfold TsR_fexp, FLX_exp, sh. lia. }
      assert (Sm : scaled_mantissa radix2 TsR_fexp (F2R (Float radix2 m e)) = IZR m / IZR (2 ^ sh)).
      { unfold scaled_mantissa. rewrite Cx. unfold F2R. cbn [Fnum Fexp].
        rewrite Rmult_assoc, <- bpow_plus. replace (e + - (e + sh))%Z with (- sh)%Z by lia.
        rewrite bpow_opp. rewrite <- (IZR_Zpower radix2) by lia. reflexivity. }
      assert (Rd : TsR_rnd (F2R (Float radix2 m e)) =
                   F2R (Float radix2 (let q := (m / 2 ^ sh)%Z in let r := (m mod 2 ^ sh)%Z in let half := (2 ^ (sh - 1))%Z in
                                      if (half <? r)%Z || ((r =? half)%Z && Z.odd q) then q + 1 else q)%Z (e + sh))).
      { unfold TsR_rnd, round. rewrite Cx, Sm, TsR_nearest_dyadic by lia. reflexivity. }
      rewrite Rd. cbv zeta.
      match goal with |- TsR_val (if (?Q =? 2 ^ 53)%Z then _ else _) = _ => destruct (Q =? 2 ^ 53)%Z eqn:E53 end.
      * apply Z.eqb_eq in E53. fold sh in E53. unfold TsR_val. cbn [fst snd]. fold sh. rewrite E53.
        unfold F2R. cbn [Fnum Fexp]. replace (e + sh + 1)%Z with (1 + (e + sh))%Z by lia. rewrite bpow_plus.
        change (bpow radix2 1) with 2. change (2 ^ 53)%Z with (2 * 2 ^ 52)%Z. rewrite mult_IZR. simpl (IZR 2). lra.
      * unfold TsR_val. cbn [fst snd]. reflexivity.
Qed.

Lemma TsR_val_pair : forall m e, TsR_val (m, e) = IZR m * bpow radix2 e.
Proof. reflexivity. Qed.

Lemma TsR_fmul : forall a b, (0 <= fst a)%Z -> (0 <= fst b)%Z -> TsR_val (Codec_fmul a b) = TsR_rnd (TsR_val a * TsR_val b).
Proof.
  intros [ma ea] [mb eb] Ha Hb. cbn [fst snd] in *. unfold Codec_fmul. cbn [fst snd].
  rewrite TsR_rnd53 by (apply Z.mul_nonneg_nonneg; auto). f_equal.
  unfold TsR_val, F2R. cbn [Fnum Fexp fst snd]. rewrite mult_IZR, bpow_plus. ring.
Qed.

Lemma TsR_fadd : forall a b, (0 <= fst a)%Z -> (0 <= fst b)%Z -> TsR_val (Codec_fadd a b) = TsR_rnd (TsR_val a + TsR_val b).
Proof.
  intros [ma ea] [mb eb] Ha Hb. cbn [fst snd] in *. unfold Codec_fadd. cbn [fst snd].
  set (e := Z.min ea eb).
  assert (Pa : (0 <= 2 ^ (ea - e))%Z) by (apply Z.pow_nonneg; lia).
  assert (Pb : (0 <= 2 ^ (eb - e))%Z) by (apply Z.pow_nonneg; lia).
  rewrite TsR_rnd53 by nia. f_equal.
  unfold TsR_val, F2R. cbn [Fnum Fexp fst snd]. rewrite plus_IZR, !mult_IZR.
  rewrite !(IZR_Zpower radix2) by (unfold e; lia).
  rewrite Rmult_plus_distr_r, !Rmult_assoc, <- !bpow_plus.
  replace (ea - e + e)%Z with ea by lia. replace (eb - e + e)%Z with eb by lia. reflexivity.
Qed.

Lemma TsR_floor : forall x, (0 <= fst x)%Z -> Codec_floor x = Zfloor (TsR_val x).
Proof.
  intros [m e] Hm. cbn [fst] in Hm. unfold Codec_floor, TsR_val, F2R. cbn [Fnum Fexp fst snd].
  destruct (0 <=? e)%Z eqn:E.
  - rewrite <- (IZR_Zpower radix2) by lia. rewrite <- mult_IZR. rewrite Zfloor_IZR. reflexivity.
  - replace e with (- (- e))%Z at 2 by lia. rewrite bpow_opp. rewrite <- (IZR_Zpower radix2) by lia.
    change (IZR m * / IZR (Zpower radix2 (- e))) with (IZR m / IZR (Zpower radix2 (- e))).
    rewrite Zfloor_div. reflexivity. change (Zpower radix2 (- e)) with (2 ^ (- e))%Z.
    assert (0 < 2 ^ (- e))%Z by (apply Z.pow_pos_nonneg; lia). lia.
Qed.

Lemma TsR_round_int : forall x, (0 <= fst x)%Z -> Codec_round_int x = ZnearestE (TsR_val x).
Proof.
  intros [m e] Hm. cbn [fst] in Hm. unfold Codec_round_int, TsR_val, F2R. cbn [Fnum Fexp fst snd].
  destruct (0 <=? e)%Z eqn:E.
  - rewrite <- (IZR_Zpower radix2) by lia. rewrite <- mult_IZR. symmetry. apply Znearest_imp.
    rewrite Rminus_diag_eq by reflexivity. rewrite Rabs_R0. lra.
  - assert (Hb : bpow radix2 e = / IZR (2 ^ (- e))).
    { replace e with (- (- e))%Z at 1 by lia. rewrite bpow_opp. rewrite <- (IZR_Zpower radix2) by lia. reflexivity. }
    rewrite Hb. change (IZR m * / IZR (2 ^ (- e))) with (IZR m / IZR (2 ^ (- e))).
    rewrite TsR_nearest_dyadic by lia. reflexivity.
Qed.

(* ---- the constants and basic facts about the format ------------------------------------------------- *)
Definition TsR_C : R := TsR_val Codec_c_dec.      (* the double nearest to 1e-9 *)
Definition TsR_K : R := TsR_val Codec_c_enc.      (* 1e9 *)

Lemma TsR_bpow_neg : forall e, (0 <= e)%Z -> bpow radix2 (- e) = / IZR (2 ^ e).
Proof. intros e H. rewrite bpow_opp, <- (IZR_Zpower radix2) by lia. reflexivity. Qed.

Lemma TsR_C_eq : TsR_C = 4835703278458517 * / 4835703278458516698824704.
Proof.
  unfold TsR_C. assert (E : Codec_c_dec = (4835703278458517, -82)%Z) by (vm_compute; reflexivity).
  rewrite E, TsR_val_pair. change (bpow radix2 (-82)) with (bpow radix2 (- (82))). rewrite (TsR_bpow_neg 82) by lia. reflexivity.
Qed.
Lemma TsR_K_eq : TsR_K = 1000000000.
Proof.
  unfold TsR_K. assert (E : Codec_c_enc = (8388608000000000, -23)%Z) by (vm_compute; reflexivity).
  rewrite E, TsR_val_pair. change (bpow radix2 (-23)) with (bpow radix2 (- (23))). rewrite (TsR_bpow_neg 23) by lia. change (2 ^ 23)%Z with 8388608%Z. lra.
Qed.
Lemma TsR_C_bounds : 1 / 1000000000 <= TsR_C <= 1 / 1000000000 + 7 / 100000000000000000000000000.
Proof. rewrite TsR_C_eq. lra. Qed.

Lemma TsR_rel : forall x, Rabs (TsR_rnd x - x) <= / 9007199254740992 * Rabs x.
Proof.
  intros x. pose proof (relative_error_N_FLX radix2 53 ltac:(lia) (fun x => negb (Z.even x)) x) as H.
  change (bpow radix2 (- (53) + 1)) with (bpow radix2 (- (52))) in H. rewrite (TsR_bpow_neg 52) in H by lia.
  change (2 ^ 52)%Z with 4503599627370496%Z in H. unfold TsR_rnd, TsR_fexp.
  replace (/ 9007199254740992) with (/ 2 * / 4503599627370496) by lra. exact H.
Qed.

Lemma TsR_format_int : forall j, (Z.abs j < 2 ^ 53)%Z -> generic_format radix2 TsR_fexp (IZR j).
Proof.
  intros j H. apply generic_format_FLX. exists (Float radix2 j 0).
  - unfold F2R. cbn. lra.
  - cbn. exact H.
Qed.
Lemma TsR_rnd_int : forall j, (Z.abs j < 2 ^ 53)%Z -> TsR_rnd (IZR j) = IZR j.
Proof. intros j H. apply round_generic. apply valid_rnd_N. apply TsR_format_int; auto. Qed.
Lemma TsR_rnd_le : forall x y, x <= y -> TsR_rnd x <= TsR_rnd y.
Proof. intros. apply round_le; auto. apply TsR_valid. apply valid_rnd_N. Qed.
Lemma TsR_rnd_format : forall x, generic_format radix2 TsR_fexp (TsR_rnd x).
Proof. intros. apply generic_format_round. apply TsR_valid. apply valid_rnd_N. Qed.
Lemma TsR_rnd_idem : forall x, TsR_rnd (TsR_rnd x) = TsR_rnd x.
Proof. intros. apply round_generic. apply valid_rnd_N. apply TsR_rnd_format. Qed.

Lemma TsR_C_format : TsR_rnd TsR_C = TsR_C.
Proof.
  unfold TsR_C. assert (E : Codec_c_dec = (4835703278458517, -82)%Z) by (vm_compute; reflexivity). rewrite E.
  apply round_generic. apply valid_rnd_N. unfold TsR_val. cbn [fst snd].
  apply generic_format_FLX. exists (Float radix2 4835703278458517 (-82)). reflexivity. cbn. lia.
Qed.

(* the product ns * 1e-9 as computed: within 2e-16 of the exact value *)
Lemma TsR_frac_part : forall k, (0 <= k <= 999999999)%Z ->
  0 <= TsR_rnd (IZR k * TsR_C) <= 1 /\ Rabs (TsR_rnd (IZR k * TsR_C) - IZR k / 1000000000) <= 2 / 10000000000000000 /\
  ((1 <= k)%Z -> TsR_C <= TsR_rnd (IZR k * TsR_C)).
Proof.
  intros k Hk. pose proof TsR_C_bounds as [C1 C2].
  assert (K0 : 0 <= IZR k <= 999999999) by (split; apply IZR_le; lia).
  set (x := IZR k * TsR_C).
  assert (X0 : 0 <= x) by (unfold x; nra).
  assert (X1 : x <= 1) by (unfold x; nra).
  pose proof (TsR_rel x) as R. rewrite (Rabs_pos_eq x) in R by auto.
  assert (L0 : TsR_rnd 0 <= TsR_rnd x) by (apply TsR_rnd_le; auto).
  assert (L1 : TsR_rnd x <= TsR_rnd 1) by (apply TsR_rnd_le; auto).
  rewrite (TsR_rnd_int 0) in L0 by (cbn; lia). rewrite (TsR_rnd_int 1) in L1 by (cbn; lia).
  split; [lra|]. split.
  - apply Rabs_le. apply Rabs_le_inv in R.
    assert (D : 0 <= x - IZR k / 1000000000 <= 999999999 * (7 / 100000000000000000000000000)) by (unfold x; nra).
    lra.
  - intros K1. rewrite <- TsR_C_format at 1. apply TsR_rnd_le. unfold x. assert (1 <= IZR k) by (apply IZR_le; lia). nra.
Qed.

Global Instance TsR_mono : Monotone_exp TsR_fexp := FLX_exp_monotone 53.

Lemma TsR_bpow_m30 : bpow radix2 (-30) = / 1073741824.
Proof. change (bpow radix2 (-30)) with (bpow radix2 (- (30))). rewrite (TsR_bpow_neg 30) by lia. reflexivity. Qed.
Lemma TsR_bpow_m29 : bpow radix2 (-29) = / 536870912.
Proof. change (bpow radix2 (-29)) with (bpow radix2 (- (29))). rewrite (TsR_bpow_neg 29) by lia. reflexivity. Qed.
Lemma TsR_bpow_23 : bpow radix2 23 = 8388608.
Proof. rewrite <- (IZR_Zpower radix2) by lia. reflexivity. Qed.

(* what pack computes from the double X, and what unpack makes of it again *)
Definition TsR_reenc (X : R) : Z * Z :=
  let i := Zfloor X in
  let k0 := ZnearestE (TsR_rnd ((X - IZR i) * TsR_K)) in
  if (1000000000 <=? k0)%Z then ((i + 1)%Z, (k0 - 1000000000)%Z) else (i, k0).
Definition TsR_decode (sec ns : Z) : R := TsR_rnd (IZR sec + TsR_rnd (IZR ns * TsR_C)).

Section Core.
  Variables sec ns : Z.
  Hypothesis Hsec : (0 <= sec <= 4294967293)%Z.
  Hypothesis Hns : (1 <= ns <= 999999999)%Z.
  Let s := IZR sec.
  Let P := TsR_rnd (IZR ns * TsR_C).
  Let X := TsR_decode sec ns.

  Lemma TsR_X_bounds : s <= X <= s + 1 /\ TsR_C <= X.
  Proof.
    destruct (TsR_frac_part ns ltac:(lia)) as ([P0 P1] & _ & PC). specialize (PC ltac:(lia)). fold P in P0, P1, PC.
    assert (S0 : 0 <= s) by (apply IZR_le; lia).
    unfold X, TsR_decode. fold s P. split; [split|].
    - apply Rle_trans with (TsR_rnd s). right. symmetry. apply TsR_rnd_int. lia. apply TsR_rnd_le. lra.
    - apply Rle_trans with (TsR_rnd (IZR (sec + 1))). apply TsR_rnd_le. rewrite plus_IZR. fold s. lra.
      right. rewrite TsR_rnd_int by lia. rewrite plus_IZR. reflexivity.
    - apply Rle_trans with P; auto. unfold P at 1. rewrite <- TsR_rnd_idem. apply TsR_rnd_le. fold P. lra.
  Qed.

  (* (a) the decoded value is a whole number *)
  Lemma TsR_case_integer : forall j, X = IZR j ->
    TsR_reenc X = (j, 0%Z) /\ TsR_decode j 0 = X /\ (0 <= j <= 4294967294)%Z.
  Proof.
    intros j E. destruct TsR_X_bounds as ([B1 B2] & B3). pose proof TsR_C_bounds as [C1 _].
    assert (J : (sec <= j <= sec + 1)%Z). { split; apply le_IZR; [|rewrite plus_IZR]; fold s; lra. }
    split; [|split; [|lia]].
    - unfold TsR_reenc. rewrite E, Zfloor_IZR. rewrite Rminus_diag_eq by reflexivity. rewrite Rmult_0_l.
      rewrite (TsR_rnd_int 0) by (cbn; lia). replace (ZnearestE 0) with 0%Z. reflexivity.
      symmetry. apply Znearest_imp. rewrite Rminus_diag_eq by reflexivity. rewrite Rabs_R0. lra.
    - unfold TsR_decode. rewrite Rmult_0_l, (TsR_rnd_int 0) by (cbn; lia). rewrite Rplus_0_r. rewrite E. apply TsR_rnd_int. lia.
  Qed.

  (* (b) below 2^23 s the spacing of the doubles is under a nanosecond: pack recovers exactly (sec, ns) *)
  Lemma TsR_case_small : X < 8388608 -> TsR_reenc X = (sec, ns).
  Proof.
    intros Small. destruct TsR_X_bounds as ([B1 B2] & B3). pose proof TsR_C_bounds as [C1 C2].
    destruct (TsR_frac_part ns ltac:(lia)) as ([P0 P1] & PE & _). fold P in P0, P1, PE.
    assert (S0 : 0 <= s) by (apply IZR_le; lia).
    assert (N0 : 1 <= IZR ns <= 999999999) by (split; apply IZR_le; lia).
    assert (Xpos : 0 < X) by lra.
    (* half-ulp error of the addition *)
    assert (ERR : Rabs (X - (s + P)) <= / 2147483648).
    { pose proof (error_le_half_ulp_round radix2 TsR_fexp (fun x => negb (Z.even x)) (s + P)) as H.
      fold TsR_rnd in H. change (TsR_rnd (s + P)) with X in H.
      rewrite ulp_neq_0 in H by lra.
      assert (Mg : (mag radix2 X <= 23)%Z). { apply mag_le_bpow. lra. rewrite Rabs_pos_eq by lra. rewrite TsR_bpow_23. lra. }
      assert (Bp : bpow radix2 (cexp radix2 TsR_fexp X) <= bpow radix2 (-30)).
      { apply bpow_le. unfold cexp, TsR_fexp, FLX_exp. lia. }
      rewrite TsR_bpow_m30 in Bp. lra. }
    apply Rabs_le_inv in ERR. apply Rabs_le_inv in PE.
    assert (Fl : Zfloor X = sec).
    { apply Zfloor_imp. rewrite plus_IZR. fold s. split; [lra|]. simpl (IZR 1). lra. }
    unfold TsR_reenc. rewrite Fl. fold s. rewrite TsR_K_eq.
    set (Q := TsR_rnd ((X - s) * 1000000000)).
    assert (F0 : 0 <= (X - s) * 1000000000 <= 1000000000) by lra.
    pose proof (TsR_rel ((X - s) * 1000000000)) as RQ. fold Q in RQ. rewrite (Rabs_pos_eq ((X - s) * 1000000000)) in RQ by lra.
    apply Rabs_le_inv in RQ.
    assert (KN : ZnearestE Q = ns).
    { apply Znearest_imp. apply Rabs_lt. lra. }
    rewrite KN. replace (1000000000 <=? ns)%Z with false by lia. reflexivity.
  Qed.

  (* (c) from 2^23 s on the doubles are at least 2^-29 s apart: whatever nanosecond count pack writes lies within
     half a nanosecond (+ rounding dust) of the fractional part, i.e. well inside half a spacing, so unpack rounds
     back to the same double *)
  Lemma TsR_case_large : 8388608 <= X -> (forall j, X <> IZR j) ->
    exists k, TsR_reenc X = (sec, k) /\ (1 <= k <= 999999999)%Z /\ TsR_decode sec k = X.
  Proof.
    intros Large NI. destruct TsR_X_bounds as ([B1 B2] & B3). pose proof TsR_C_bounds as [C1 C2].
    assert (S0 : 0 <= s) by (apply IZR_le; lia).
    assert (B1' : s < X). { destruct B1 as [|E]; auto. exfalso. apply (NI sec). symmetry. exact E. }
    assert (B2' : X < s + 1). { destruct B2 as [|E]; auto. exfalso. apply (NI (sec + 1)%Z). rewrite plus_IZR. exact E. }
    assert (Fl : Zfloor X = sec). { apply Zfloor_imp. rewrite plus_IZR. fold s. simpl (IZR 1). lra. }
    assert (Xpos : 0 < X) by lra.
    pose proof (TsR_rnd_format (s + P)) as GF. change (TsR_rnd (s + P)) with X in GF.
    set (c := cexp radix2 TsR_fexp X).
    assert (Mg : (24 <= mag radix2 X)%Z). { apply mag_ge_bpow. rewrite Rabs_pos_eq by lra. change (24 - 1)%Z with 23%Z. rewrite TsR_bpow_23. exact Large. }
    assert (Cc : (-29 <= c)%Z). { unfold c, cexp, TsR_fexp, FLX_exp. lia. }
    (* X is a multiple of 2^-29 *)
    assert (Mult : exists G : Z, X * 536870912 = IZR G).
    { unfold generic_format in GF. fold c in GF. set (m := Ztrunc (scaled_mantissa radix2 TsR_fexp X)) in GF.
      exists (m * 2 ^ (c + 29))%Z. rewrite GF at 1. unfold F2R. cbn [Fnum Fexp].
      replace c with ((c + 29) + - (29))%Z at 1 by lia. rewrite bpow_plus, (TsR_bpow_neg 29) by lia.
      rewrite <- (IZR_Zpower radix2) by lia. change (2 ^ 29)%Z with 536870912%Z. rewrite mult_IZR.
      change (Zpower radix2 (c + 29)) with (2 ^ (c + 29))%Z. field. }
    destruct Mult as (G & HG).
    set (h := (G - sec * 536870912)%Z).
    assert (Hh : IZR h = (X - s) * 536870912). { unfold h. rewrite minus_IZR, mult_IZR, <- HG. fold s. simpl. lra. }
    assert (Hr : (1 <= h <= 536870911)%Z).
    { assert (0 < h)%Z by (apply lt_IZR; rewrite Hh; simpl; nra).
      assert (h < 536870912)%Z by (apply lt_IZR; rewrite Hh; simpl; nra). lia. }
    assert (Hf : / 536870912 <= X - s <= 1 - / 536870912).
    { assert (1 <= IZR h <= 536870911) by (split; apply IZR_le; lia). rewrite Hh in H. lra. }
    unfold TsR_reenc. rewrite Fl. fold s. rewrite TsR_K_eq.
    set (Q := TsR_rnd ((X - s) * 1000000000)).
    pose proof (TsR_rel ((X - s) * 1000000000)) as RQ. fold Q in RQ. rewrite (Rabs_pos_eq ((X - s) * 1000000000)) in RQ by lra.
    apply Rabs_le_inv in RQ.
    set (k0 := ZnearestE Q).
    pose proof (Znearest_half (fun x => negb (Z.even x)) Q) as HK. fold k0 in HK. apply Rabs_le_inv in HK.
    assert (K1 : (1 < k0)%Z). { apply lt_IZR. simpl. lra. }
    assert (K2 : (k0 < 999999999)%Z). { apply lt_IZR. simpl. lra. }
    replace (1000000000 <=? k0)%Z with false by lia.
    exists k0. split; [reflexivity|]. split; [lia|].
    (* unpack of (sec, k0) *)
    destruct (TsR_frac_part k0 ltac:(lia)) as ([Q0 Q1] & QE & _). apply Rabs_le_inv in QE.
    unfold TsR_decode. fold s. set (Y := s + TsR_rnd (IZR k0 * TsR_C)).
    assert (Close : Rabs (Y - X) < / 2 * / 536870912). { unfold Y. apply Rabs_lt. lra. }
    apply Rabs_lt_inv in Close.
    assert (U : ulp radix2 TsR_fexp X = bpow radix2 c) by (apply ulp_neq_0; lra).
    assert (Uc : / 536870912 <= bpow radix2 c). { rewrite <- TsR_bpow_m29. apply bpow_le. lia. }
    assert (Succ : succ radix2 TsR_fexp X = X + bpow radix2 c). { rewrite succ_eq_pos by lra. rewrite U. reflexivity. }
    assert (Pred : pred radix2 TsR_fexp X = X - bpow radix2 c).
    { rewrite pred_eq_pos by lra. unfold pred_pos. rewrite Req_bool_false. rewrite U. reflexivity.
      intros E. apply (NI (2 ^ (mag radix2 X - 1))%Z). rewrite E at 1. rewrite (IZR_Zpower radix2) by lia. reflexivity. }
    apply Rle_antisym.
    - apply round_N_le_midp; auto. apply TsR_valid. rewrite Succ. lra.
    - apply round_N_ge_midp; auto. apply TsR_valid. rewrite Pred. lra.
  Qed.
End Core.

Lemma TsR_core : forall sec ns, (0 <= sec <= 4294967293)%Z -> (1 <= ns <= 999999999)%Z ->
  let X := TsR_decode sec ns in
  exists i' k', TsR_reenc X = (i', k') /\ (0 <= i' <= 4294967294)%Z /\ (0 <= k' <= 999999999)%Z /\ TsR_decode i' k' = X /\
                TsR_C <= X < 4294967296.
Proof.
  intros sec ns Hs Hn X. destruct (TsR_X_bounds sec ns Hs Hn) as ([B1 B2] & B3). fold X in B1, B2, B3.
  assert (XU : X < 4294967296). { assert (IZR sec <= 4294967293) by (apply IZR_le; lia). lra. }
  destruct (Req_dec X (IZR (Zfloor X))) as [E | NE].
  - destruct (TsR_case_integer sec ns Hs Hn _ E) as (R & D & J). fold X in R, D.
    exists (Zfloor X), 0%Z. repeat split; auto; lia.
  - assert (NI : forall j, X <> IZR j). { intros j Ej. apply NE. rewrite Ej, Zfloor_IZR. reflexivity. }
    destruct (Rlt_or_le X 8388608) as [Sm | Lg].
    + pose proof (TsR_case_small sec ns Hs Hn Sm) as R. fold X in R.
      exists sec, ns. repeat split; auto; lia.
    + destruct (TsR_case_large sec ns Hs Hn Lg NI) as (k & R & Kr & D). fold X in R, D.
      exists sec, k. repeat split; auto; lia.
Qed.

(* ---- back to the integer model ------------------------------------------------------------------------ *)
Lemma TsR_rnd53_bounds : forall m e, (0 < m)%Z -> (0 < fst (Codec_rnd53 m e) < 2 ^ 53)%Z.
Proof.
  intros m e Hm. unfold Codec_rnd53. replace (m <=? 0)%Z with false by lia.
  destruct (Z.log2 m + 1 <=? 53)%Z eqn:S.
  - cbn [fst]. split; auto. apply Z.log2_lt_pow2; lia.
  - set (sh := (Z.log2 m + 1 - 53)%Z). assert (Hsh : (0 < sh)%Z) by (unfold sh; lia).
    destruct (Z.log2_spec m Hm) as [L U].
    assert (P : (0 < 2 ^ sh)%Z) by (apply Z.pow_pos_nonneg; lia).
    assert (Q1 : (2 ^ 52 <= m / 2 ^ sh)%Z).
    { apply Z.div_le_lower_bound; auto. rewrite <- Z.pow_add_r by lia. replace (sh + 52)%Z with (Z.log2 m) by (unfold sh; lia). lia. }
    assert (Q2 : (m / 2 ^ sh < 2 ^ 53)%Z).
    { apply Z.div_lt_upper_bound; auto. rewrite <- Z.pow_add_r by lia. replace (sh + 53)%Z with (Z.succ (Z.log2 m)) by (unfold sh; lia). lia. }
    cbv zeta. fold sh.
    match goal with |- context [if ?c then (m / 2 ^ sh + 1)%Z else (m / 2 ^ sh)%Z] => destruct c end.
    + destruct (m / 2 ^ sh + 1 =? 2 ^ 53)%Z eqn:E; cbn [fst]; lia.
    + destruct (m / 2 ^ sh =? 2 ^ 53)%Z eqn:E; cbn [fst]; lia.
Qed.
Lemma TsR_rnd53_nonneg : forall m e, (0 <= fst (Codec_rnd53 m e))%Z.
Proof.
  intros m e. destruct (Z_lt_le_dec 0 m) as [P | N].
  - pose proof (TsR_rnd53_bounds m e P). lia.
  - unfold Codec_rnd53. replace (m <=? 0)%Z with true by lia. cbn. lia.
Qed.

(* the 64-bit pattern depends only on the value *)
Lemma TsR_normal : forall m e, (0 < m < 2 ^ 53)%Z ->
  let k := (53 - (Z.log2 m + 1))%Z in
  (0 <= k)%Z /\ (2 ^ 52 <= m * 2 ^ k < 2 ^ 53)%Z /\ TsR_val (m * 2 ^ k, e - k)%Z = TsR_val (m, e) /\
  Codec_to_bits (m, e) = ((e - k + 1075) * 2 ^ 52 + (m * 2 ^ k - 2 ^ 52))%Z.
Proof.
  intros m e H k.
  assert (L : (Z.log2 m < 53)%Z) by (apply Z.log2_lt_pow2; lia).
  assert (L0 : (0 <= Z.log2 m)%Z) by apply Z.log2_nonneg.
  assert (K : (0 <= k)%Z) by (unfold k; lia).
  destruct (Z.log2_spec m ltac:(lia)) as [Lo Hi].
  assert (B : (2 ^ 52 <= m * 2 ^ k < 2 ^ 53)%Z).
  { replace 52%Z with (Z.log2 m + k)%Z by (unfold k; lia). replace 53%Z with (Z.succ (Z.log2 m) + k)%Z by (unfold k; lia).
    rewrite !Z.pow_add_r by lia. assert (0 < 2 ^ k)%Z by (apply Z.pow_pos_nonneg; lia). nia. }
  split; auto. split; auto. split.
  - rewrite !TsR_val_pair, mult_IZR, (IZR_Zpower radix2) by lia. rewrite Rmult_assoc, <- bpow_plus. f_equal. f_equal. lia.
  - unfold Codec_to_bits. replace (m <=? 0)%Z with false by lia. fold k. reflexivity.
Qed.

Lemma TsR_bits_inj : forall a b, (0 < fst a < 2 ^ 53)%Z -> (0 < fst b < 2 ^ 53)%Z -> TsR_val a = TsR_val b ->
  Codec_to_bits a = Codec_to_bits b.
Proof.
  intros [ma ea] [mb eb] Ha Hb V. cbn [fst] in Ha, Hb.
  destruct (TsR_normal ma ea Ha) as (Ka & Ba & Va & Ta). destruct (TsR_normal mb eb Hb) as (Kb & Bb & Vb & Tb).
  set (ka := (53 - (Z.log2 ma + 1))%Z) in *. set (kb := (53 - (Z.log2 mb + 1))%Z) in *.
  rewrite Ta, Tb. rewrite <- Va, <- Vb in V. rewrite !TsR_val_pair in V.
  set (Ma := (ma * 2 ^ ka)%Z) in *. set (Mb := (mb * 2 ^ kb)%Z) in *. set (Ea := (ea - ka)%Z) in *. set (Eb := (eb - kb)%Z) in *.
  assert (Mag : forall M E, (2 ^ 52 <= M < 2 ^ 53)%Z -> (mag radix2 (IZR M * bpow radix2 E) : Z) = (53 + E)%Z).
  { intros M E HM. apply mag_unique_pos. split.
    - replace (53 + E - 1)%Z with (52 + E)%Z by lia. rewrite bpow_plus. apply Rmult_le_compat_r. apply bpow_ge_0.
      rewrite <- (IZR_Zpower radix2) by lia. apply IZR_le. exact (proj1 HM).
    - rewrite bpow_plus. apply Rmult_lt_compat_r. apply bpow_gt_0. rewrite <- (IZR_Zpower radix2) by lia. apply IZR_lt. exact (proj2 HM). }
  assert (EE : Ea = Eb). { pose proof (Mag Ma Ea Ba) as A. pose proof (Mag Mb Eb Bb) as B. rewrite V in A. rewrite A in B. lia. }
  rewrite EE in *. assert (MM : Ma = Mb). { apply eq_IZR. apply Rmult_eq_reg_r with (bpow radix2 Eb); auto. apply Rgt_not_eq, bpow_gt_0. }
  rewrite MM. reflexivity.
Qed.

Lemma TsR_of_to_bits : forall m e, (0 < m < 2 ^ 53)%Z ->
  let k := (53 - (Z.log2 m + 1))%Z in
  (0 < e - k + 1075)%Z -> Codec_of_bits (Codec_to_bits (m, e)) = ((m * 2 ^ k)%Z, (e - k)%Z).
Proof.
  intros m e H k He. destruct (TsR_normal m e H) as (K & B & V & T). fold k in K, B, V, T. rewrite T.
  set (M := (m * 2 ^ k)%Z) in *. set (E := (e - k)%Z) in *. unfold Codec_of_bits.
  assert (D : (((E + 1075) * 2 ^ 52 + (M - 2 ^ 52)) / 2 ^ 52 = E + 1075)%Z).
  { rewrite Z.div_add_l by lia. rewrite Z.div_small by lia. lia. }
  assert (R : (((E + 1075) * 2 ^ 52 + (M - 2 ^ 52)) mod 2 ^ 52 = M - 2 ^ 52)%Z).
  { rewrite Z.add_comm, Z.mod_add by lia. apply Z.mod_small. lia. }
  rewrite D, R. replace (E + 1075 =? 0)%Z with false by lia. f_equal; lia.
Qed.

Lemma TsR_val_int : forall j, TsR_val (j, 0%Z) = IZR j.
Proof. intros. rewrite TsR_val_pair. simpl. lra. Qed.

Lemma TsR_pos_of_val : forall x, (0 <= fst x)%Z -> 0 < TsR_val x -> (0 < fst x)%Z.
Proof.
  intros [m e] H V. cbn [fst] in *. rewrite TsR_val_pair in V. destruct (Z.eq_dec m 0) as [->|]; [|lia].
  rewrite Rmult_0_l in V. lra.
Qed.

Lemma TsR_dec_sf : forall sec ns, (0 <= sec)%Z -> (0 <= ns)%Z ->
  let S := Codec_fadd (sec, 0%Z) (Codec_fmul (ns, 0%Z) Codec_c_dec) in
  TsR_val S = TsR_decode sec ns /\ (0 <= fst S)%Z /\ (0 < TsR_val S -> (0 < fst S < 2 ^ 53)%Z).
Proof.
  intros sec ns Hs Hn S.
  assert (Cn : (0 <= fst Codec_c_dec)%Z) by (vm_compute; discriminate).
  assert (Fm : (0 <= fst (Codec_fmul (ns, 0%Z) Codec_c_dec))%Z) by (unfold Codec_fmul; apply TsR_rnd53_nonneg).
  assert (V : TsR_val S = TsR_decode sec ns).
  { unfold S. rewrite TsR_fadd by (cbn [fst]; auto). rewrite TsR_fmul by (cbn [fst]; auto).
    rewrite !TsR_val_int. reflexivity. }
  assert (N : (0 <= fst S)%Z) by (unfold S, Codec_fadd; apply TsR_rnd53_nonneg).
  split; auto. split; auto. intros P. pose proof (TsR_pos_of_val S N P) as Q. split; auto.
  unfold S, Codec_fadd in *.
  match goal with |- (fst (Codec_rnd53 ?M ?e) < _)%Z => destruct (Z_lt_le_dec 0 M) as [PM | NM] end.
  - apply TsR_rnd53_bounds; auto.
  - exfalso. unfold Codec_rnd53 in Q. match type of Q with context [(?M <=? 0)%Z] => replace (M <=? 0)%Z with true in Q by lia end. cbn in Q. lia.
Qed.

(* pack of the decoded double, in the integer model = the real-number description *)
Lemma TsR_enc_sf : forall S X, (0 < fst S < 2 ^ 53)%Z -> TsR_val S = X -> TsR_C <= X < 4294967296 ->
  forall i' k', TsR_reenc X = (i', k') -> (0 <= i' <= 4294967294)%Z -> (0 <= k' <= 999999999)%Z ->
  Codec_ts_enc (FInt (Codec_to_bits S)) = Some (Codec_ts_join i' k').
Proof.
  intros [m e] X Hm V XB i' k' RE Ri Rk. cbn [fst] in Hm.
  destruct (TsR_normal m e Hm) as (K0 & B & Vn & T). set (k := (53 - (Z.log2 m + 1))%Z) in *.
  set (M := (m * 2 ^ k)%Z) in *. set (E := (e - k)%Z) in *. rewrite V in Vn. rewrite TsR_val_pair in Vn.
  pose proof TsR_C_bounds as [C1 _].
  (* exponent range *)
  assert (E1 : (E <= -21)%Z).
  { assert (bpow radix2 (52 + E) < bpow radix2 32).
    { apply Rle_lt_trans with X. rewrite <- Vn, bpow_plus. apply Rmult_le_compat_r. apply bpow_ge_0.
      rewrite <- (IZR_Zpower radix2 52) by lia. apply IZR_le. change (Zpower radix2 52) with (2 ^ 52)%Z. lia.
      rewrite <- (IZR_Zpower radix2 32) by lia. change (IZR (Zpower radix2 32)) with 4294967296. lra. }
    apply lt_bpow in H. lia. }
  assert (E2 : (-83 <= E)%Z).
  { assert (bpow radix2 (-30) < bpow radix2 (53 + E)).
    { apply Rle_lt_trans with X. rewrite TsR_bpow_m30. lra.
      rewrite <- Vn, bpow_plus. apply Rmult_lt_compat_r. apply bpow_gt_0. rewrite <- (IZR_Zpower radix2 53) by lia. apply IZR_lt.
      change (Zpower radix2 53) with (2 ^ 53)%Z. lia. }
    apply lt_bpow in H. lia. }
  unfold Codec_ts_enc. rewrite T. fold M E.
  replace (((E + 1075) * 2 ^ 52 + (M - 2 ^ 52) <? 0)%Z || (2047 * 2 ^ 52 <=? (E + 1075) * 2 ^ 52 + (M - 2 ^ 52))%Z) with false by lia.
  rewrite <- T. rewrite (TsR_of_to_bits m e Hm) by (fold k E; lia). fold k M E. cbn [fst snd].
  replace (0 <=? E)%Z with false by lia.
  assert (VX : TsR_val (M, E) = X) by (rewrite TsR_val_pair; exact Vn).
  assert (FL : Codec_floor (M, E) = Zfloor X) by (rewrite TsR_floor by (cbn [fst]; lia); rewrite VX; reflexivity).
  rewrite FL. set (ip := Zfloor X).
  assert (P2 : (0 < 2 ^ (- E))%Z) by (apply Z.pow_pos_nonneg; lia).
  assert (IP : (ip = M / 2 ^ (- E))%Z). { unfold ip. rewrite <- FL. unfold Codec_floor. replace (0 <=? E)%Z with false by lia. reflexivity. }
  assert (FN : (0 <= M - ip * 2 ^ (- E))%Z). { rewrite IP. pose proof (Z.mul_div_le M (2 ^ (- E)) P2). lia. }
  assert (FV : TsR_val ((M - ip * 2 ^ (- E))%Z, E) = X - IZR ip).
  { rewrite TsR_val_pair, minus_IZR, mult_IZR, (IZR_Zpower radix2) by lia. rewrite Rmult_minus_distr_r, Rmult_assoc, <- bpow_plus.
    replace (- E + E)%Z with 0%Z by lia. rewrite Vn. simpl. lra. }
  assert (Kn : (0 <= fst Codec_c_enc)%Z) by (vm_compute; discriminate).
  assert (NS : Codec_round_int (Codec_fmul ((M - ip * 2 ^ (- E))%Z, E) Codec_c_enc) = ZnearestE (TsR_rnd ((X - IZR ip) * TsR_K))).
  { rewrite TsR_round_int by (unfold Codec_fmul; apply TsR_rnd53_nonneg). rewrite TsR_fmul by (cbn [fst]; auto). rewrite FV. reflexivity. }
  rewrite NS. unfold TsR_reenc in RE. fold ip in RE. change ts_carry_at with 1000000000%Z.
  destruct (1000000000 <=? ZnearestE (TsR_rnd ((X - IZR ip) * TsR_K)))%Z; inversion RE; subst i' k'.
  - replace ((ip + 1 <? 2 ^ 32)%Z && (0 <=? ZnearestE (TsR_rnd ((X - IZR ip) * TsR_K)) - 1000000000)%Z &&
             (ZnearestE (TsR_rnd ((X - IZR ip) * TsR_K)) - 1000000000 <? 2 ^ 32)%Z) with true by lia. reflexivity.
  - replace ((ip <? 2 ^ 32)%Z && (0 <=? ZnearestE (TsR_rnd ((X - IZR ip) * TsR_K)))%Z &&
             (ZnearestE (TsR_rnd ((X - IZR ip) * TsR_K)) <? 2 ^ 32)%Z) with true by lia. reflexivity.
Qed.

(* THE FINITE BRANCH OF THE PROJECTION LAW: every stamp with 0 < ns < 10^9 and sec < 2^32 - 2 *)
Lemma Codec_ts_projection_finite : forall z, (0 <= z < 2 ^ 64)%Z ->
  (Codec_ts_sec z < ts_invalid - 1)%Z -> (0 < Codec_ts_ns z < ts_carry_at)%Z ->
  Codec_aval_ok U64 ATimestamp (Codec_ts_dec z).
Proof.
  intros z Hz Hs Hn. change ts_invalid with 4294967295%Z in *. change ts_carry_at with 1000000000%Z in *.
  set (sec := Codec_ts_sec z) in *. set (ns := Codec_ts_ns z) in *.
  assert (S0 : (0 <= sec)%Z) by (unfold sec, Codec_ts_sec; apply Z.mod_pos_bound; lia).
  destruct (TsR_core sec ns ltac:(lia) ltac:(lia)) as (i' & k' & RE & Ri & Rk & DE & XB).
  set (X := TsR_decode sec ns) in *.
  pose proof TsR_C_bounds as [C1 _].
  destruct (TsR_dec_sf sec ns S0 ltac:(lia)) as (V & N & PB). set (S := Codec_fadd (sec, 0%Z) (Codec_fmul (ns, 0%Z) Codec_c_dec)) in *.
  fold X in V. specialize (PB ltac:(lra)).
  assert (Dz : Codec_ts_dec z = FInt (Codec_to_bits S)).
  { unfold Codec_ts_dec. fold sec ns. change ts_invalid with 4294967295%Z. replace ((sec =? 4294967295)%Z || (ns =? 4294967295)%Z) with false by lia. reflexivity. }
  destruct (TsR_dec_sf i' k' ltac:(lia) ltac:(lia)) as (V' & N' & PB'). set (S' := Codec_fadd (i', 0%Z) (Codec_fmul (k', 0%Z) Codec_c_dec)) in *.
  rewrite DE in V'. specialize (PB' ltac:(lra)).
  exists (Codec_ts_join i' k'). rewrite Dz. split; [|split].
  - cbn [Codec_aenc]. eapply TsR_enc_sf; eauto.
  - unfold Codec_krange, Codec_ts_join. cbn. lia.
  - cbn [Codec_adec]. f_equal. unfold Codec_ts_dec.
    assert (Js : Codec_ts_sec (Codec_ts_join i' k') = i').
    { unfold Codec_ts_sec, Codec_ts_join. rewrite Z.mod_add by lia. apply Z.mod_small. lia. }
    assert (Jn : Codec_ts_ns (Codec_ts_join i' k') = k').
    { unfold Codec_ts_ns, Codec_ts_join. rewrite Z.div_add by lia. rewrite Z.div_small by lia. lia. }
    rewrite Js, Jn. change ts_invalid with 4294967295%Z. replace ((i' =? 4294967295)%Z || (k' =? 4294967295)%Z) with false by lia.
    f_equal. fold S'. apply TsR_bits_inj; auto. rewrite V, V'. reflexivity.
Qed.
