(* C12 — lemmas about the DataLoader model (Models/DataLoaderM.v). *)
From Coq Require Import ZArith NArith List Bool Lia Sorting.Sorted.
From FEC Require Import Generated.DataLoaderConsts Models.DataLoaderM.
Import ListNotations.

(* ------------------------------------------------------------------------------------------------ *)
(** * Lists *)

Lemma lastn_all {A} (n : nat) (l : list A) : length l <= n -> lastn n l = l.
Proof. intros H. unfold lastn. replace (length l - n) with 0 by lia. reflexivity. Qed.

Lemma skipn_app_len {A} (a c : list A) (n : nat) : skipn (length a + n) (a ++ c) = skipn n c.
Proof. induction a as [| x a IH]; [reflexivity | exact IH]. Qed.

Lemma lastn_app_lastn {A} (k : nat) (a b : list A) : lastn k (lastn k a ++ b) = lastn k (a ++ b).
Proof.
  unfold lastn.
  destruct (Nat.le_gt_cases (length a) k) as [H | H].
  - replace (length a - k) with 0 by lia. reflexivity.
  - set (n := length a - k).
    assert (Hl : length (firstn n a) = n) by (rewrite firstn_length; lia).
    replace (skipn (length (a ++ b) - k) (a ++ b))
      with (skipn (length (firstn n a) + length b) (firstn n a ++ (skipn n a ++ b))).
    2:{ rewrite app_assoc, firstn_skipn. f_equal. rewrite app_length. lia. }
    rewrite skipn_app_len. f_equal. rewrite app_length, skipn_length. lia.
Qed.

Lemma filter_nil_forall {A} (f : A -> bool) (l : list A) : filter f l = [] -> forall x, In x l -> f x = false.
Proof.
  induction l as [| y l IH]; intros H x Hx; [destruct Hx |].
  cbn [filter] in H. destruct (f y) eqn:E; [discriminate |].
  destruct Hx as [<- | Hx]; auto.
Qed.

Lemma filter_all {A} (f : A -> bool) (l : list A) : (forall x, In x l -> f x = true) -> filter f l = l.
Proof.
  induction l as [| y l IH]; intros H; [reflexivity |].
  cbn [filter]. rewrite (H y (or_introl eq_refl)). f_equal. apply IH. intros x Hx. apply H. right. exact Hx.
Qed.

(* subsequences: same elements, same relative order *)
Inductive Subseq {A} : list A -> list A -> Prop :=
| SubNil : Subseq [] []
| SubBoth : forall x a b, Subseq a b -> Subseq (x :: a) (x :: b)
| SubSkip : forall x a b, Subseq a b -> Subseq a (x :: b).

Lemma subseq_refl {A} (l : list A) : Subseq l l.
Proof. induction l; constructor; auto. Qed.
Lemma subseq_nil {A} (l : list A) : Subseq [] l.
Proof. induction l; constructor; auto. Qed.
Lemma subseq_trans {A} (a b c : list A) : Subseq a b -> Subseq b c -> Subseq a c.
Proof.
  intros H1 H2. revert a H1. induction H2; intros a' H1.
  - exact H1.
  - inversion H1; subst; constructor; auto.
  - constructor. auto.
Qed.
Lemma subseq_filter {A} (f : A -> bool) (l : list A) : Subseq (filter f l) l.
Proof. induction l as [| x l IH]; cbn [filter]; [constructor |]. destruct (f x); constructor; exact IH. Qed.
Lemma subseq_firstn {A} (n : nat) (l : list A) : Subseq (firstn n l) l.
Proof.
  revert n. induction l as [| x l IH]; intros [| n]; cbn [firstn]; try constructor.
  - apply subseq_nil.
  - apply IH.
Qed.
Lemma subseq_skipn {A} (n : nat) (l : list A) : Subseq (skipn n l) l.
Proof.
  revert n. induction l as [| x l IH]; intros [| n]; cbn [skipn]; try constructor.
  - apply subseq_refl.
  - apply IH.
Qed.
Lemma subseq_lastn {A} (n : nat) (l : list A) : Subseq (lastn n l) l.
Proof. apply subseq_skipn. Qed.
Lemma subseq_In {A} (a b : list A) x : Subseq a b -> In x a -> In x b.
Proof. induction 1; intros Hx; [destruct Hx | destruct Hx as [<- | Hx]; [left; reflexivity | right; auto] | right; auto]. Qed.
Lemma subseq_map {A B} (f : A -> B) (a b : list A) : Subseq a b -> Subseq (map f a) (map f b).
Proof. induction 1; cbn [map]; constructor; auto. Qed.
Lemma subseq_sorted {A} (R : A -> A -> Prop) (a b : list A) : Subseq a b -> StronglySorted R b -> StronglySorted R a.
Proof.
  induction 1; intros Hs; [constructor | |].
  - inversion Hs as [| ? ? Hs' Hall]; subst. constructor; [auto |].
    rewrite Forall_forall in *. intros y Hy. apply Hall. eapply subseq_In; eauto.
  - inversion Hs; subst. auto.
Qed.

(* ------------------------------------------------------------------------------------------------ *)
(** * Result dictionaries *)

Lemma lookup_map_key (f : N -> data) (types : list N) (t : N) :
  In t types -> lookup_data t (map (fun t => (t, f t)) types) = Some (f t).
Proof.
  unfold lookup_data. induction types as [| x l IH]; intros H; [destruct H |].
  cbn [map find fst]. destruct (N.eqb x t) eqn:E.
  - apply N.eqb_eq in E. subst. reflexivity.
  - destruct H as [-> | H]; [rewrite N.eqb_refl in E; discriminate | auto].
Qed.

Lemma lookup_in_keys (r : list (N * data)) (t : N) : In t (map fst r) -> exists d, lookup_data t r = Some d.
Proof.
  unfold lookup_data. induction r as [| [x d] r IH]; intros H; [destruct H |].
  cbn [find fst]. destruct (N.eqb x t) eqn:E; [eexists; reflexivity |].
  destruct H as [H | H]; [cbn in H; subst; rewrite N.eqb_refl in E; discriminate | auto].
Qed.

(* a dictionary with duplicate-free keys is determined by its lookups *)
Lemma dict_by_lookup (r : list (N * data)) (f : N -> data) :
  NoDup (map fst r) -> (forall t, In t (map fst r) -> lookup_data t r = Some (f t)) ->
  map (fun t => (t, f t)) (map fst r) = r.
Proof.
  induction r as [| [x d] r IH]; intros Hnd H; [reflexivity |].
  cbn [map fst] in *. inversion Hnd as [| ? ? Hx Hnd']; subst.
  assert (Hd : f x = d).
  { specialize (H x (or_introl eq_refl)). unfold lookup_data in H. cbn [find fst] in H. rewrite N.eqb_refl in H.
    cbn in H. congruence. }
  rewrite Hd. f_equal. apply IH; [exact Hnd' |].
  intros t Ht. specialize (H t (or_intror Ht)). unfold lookup_data in *. cbn [find fst] in H.
  destruct (N.eqb x t) eqn:E; [apply N.eqb_eq in E; subst; contradiction | exact H].
Qed.

Lemma norm_set_nodup (l : list N) : NoDup (norm_set l).
Proof. apply NoDup_nodup. Qed.

(* ------------------------------------------------------------------------------------------------ *)
(** * Environments *)

(* what the theorems need of the abstract parts: time alignment mutates the entries of the dictionary it is given and
   neither adds nor removes nor reorders keys; the reader's selections keep file order *)
Record env_ok (e : env) : Prop := mkEnvOk {
  align_keys : forall mode at_ r, map fst (e_align e mode at_ r) = map fst r;
  tfilter_sub : forall tr l, Subseq (e_tfilter e tr l) l;
  nonnan_sub : forall l, Subseq (e_nonnan e l) l
}.

Lemma fill_keys p msgs r : map fst (fill p msgs r) = map fst r.
Proof. unfold fill. rewrite map_map. reflexivity. Qed.

Lemma post_process_keys e p r : env_ok e -> map fst (post_process e p r) = map fst r.
Proof.
  intros He. unfold post_process.
  assert (H1 : map fst (if N.eqb (p_align p) align_none then r else e_align e (p_align p) (p_atypes p) r) = map fst r).
  { destruct (N.eqb (p_align p) align_none); [reflexivity | apply (align_keys e He)]. }
  destruct (p_numpy p); [rewrite map_map; cbn [fst]; exact H1 | exact H1].
Qed.

(* ------------------------------------------------------------------------------------------------ *)
(** * The read loop *)

Section Loop.
  Variable v : variant.
  Variable pass : DLmsg -> bool.

  Lemma loop_none l acc : read_loop v None false pass l 0%Z acc [] = (acc ++ filter pass l, []).
  Proof.
    generalize 0%Z as count. revert acc.
    induction l as [| m l IH]; intros acc count; cbn [read_loop filter]; [rewrite app_nil_r; reflexivity |].
    destruct (pass m); cbn [negb]; [| apply IH].
    rewrite IH, <- app_assoc. reflexivity.
  Qed.

  Lemma loop_count_over n l count acc :
    (Z.abs n <= count)%Z -> read_loop v (Some n) false pass l count acc [] = (acc, []).
  Proof.
    revert count acc. induction l as [| m l IH]; intros count acc H; cbn [read_loop]; [reflexivity |].
    destruct (pass m); cbn [negb]; [| apply IH; exact H].
    destruct (count + 1 <=? Z.abs n)%Z eqn:E1; [lia |].
    destruct (count + 1 =? Z.abs n)%Z eqn:E2; [lia |].
    cbn [andb]. apply IH. lia.
  Qed.

  Lemma loop_count n l count acc :
    (0 <= count <= Z.abs n)%Z ->
    read_loop v (Some n) false pass l count acc [] = (acc ++ firstn (Z.to_nat (Z.abs n - count)) (filter pass l), []).
  Proof.
    revert count acc. induction l as [| m l IH]; intros count acc H; cbn [read_loop filter].
    - rewrite firstn_nil, app_nil_r. reflexivity.
    - destruct (pass m); cbn [negb]; [| apply IH; exact H].
      destruct (Z.eq_dec count (Z.abs n)) as [Heq | Hne].
      + (* already at the limit: nothing more is stored *)
        destruct (count + 1 <=? Z.abs n)%Z eqn:E1; [lia |].
        destruct (count + 1 =? Z.abs n)%Z eqn:E2; [lia |].
        cbn [andb]. rewrite loop_count_over by lia.
        replace (Z.to_nat (Z.abs n - count)) with 0 by lia. cbn [firstn]. rewrite app_nil_r. reflexivity.
      + destruct (count + 1 <=? Z.abs n)%Z eqn:E1; [| lia].
        replace (Z.to_nat (Z.abs n - count)) with (S (Z.to_nat (Z.abs n - (count + 1)))) by lia.
        cbn [firstn]. rewrite orb_true_r, andb_true_r.
        destruct (count + 1 =? Z.abs n)%Z eqn:E2.
        * replace (Z.to_nat (Z.abs n - (count + 1))) with 0 by lia. cbn [firstn]. reflexivity.
        * rewrite IH by lia. rewrite <- app_assoc. reflexivity.
  Qed.

  Lemma loop_deque_eq n l count acc dq :
    v_break_guarded v = true -> lastn (Z.to_nat (Z.abs n)) dq = dq ->
    read_loop v (Some n) true pass l count acc dq = (acc, lastn (Z.to_nat (Z.abs n)) (dq ++ filter pass l)).
  Proof.
    intros Hg. revert count acc dq. induction l as [| m l IH]; intros count acc dq Hdq; cbn [read_loop filter].
    - rewrite app_nil_r, Hdq. reflexivity.
    - destruct (pass m); cbn [negb]; [| apply IH; exact Hdq].
      rewrite Hg. cbn [negb orb andb]. rewrite andb_false_r.
      rewrite IH.
      + unfold deque_push. rewrite lastn_app_lastn, <- app_assoc. reflexivity.
      + unfold deque_push. rewrite <- (app_nil_r (lastn _ (dq ++ [m]))) at 1.
        rewrite lastn_app_lastn, app_nil_r. reflexivity.
  Qed.
End Loop.

(* ------------------------------------------------------------------------------------------------ *)
(** * What the loop stores: the reader's sequence, limited *)

(* the messages of the log reader under the filters in [p], no maximum *)
Definition reader_seq (e : env) (p : params) (types needed' : list N) : list DLmsg :=
  filter (read_pass e p) (index_select e p types (existsb (fun t => memN t sys_types) needed')).
Lemma lastn_nil {A} (k : nat) : lastn k (@nil A) = [].
Proof. unfold lastn. cbn [length]. destruct (0 - k); reflexivity. Qed.

Lemma read_messages_no_preslice v e p types needed' :
  v_break_guarded v = true -> preslice_applied v p (existsb (fun t => memN t sys_types) needed') = false ->
  read_messages v e p types needed' = limit (p_max p) (reader_seq e p types needed').
Proof.
  intros Hg Hp. unfold read_messages, reader_seq in *.
  set (sysreq := existsb (fun t => memN t sys_types) needed') in *.
  set (idx := index_select e p types sysreq).
  rewrite Hp.
  destruct (p_max p) as [n |]; cbn [is_some limit] in *.
  - cbn [negb]. rewrite andb_true_r.
    destruct (n <? 0)%Z eqn:En.
    + rewrite loop_deque_eq by (auto using lastn_nil). cbn [app].
      destruct (0 <=? n)%Z eqn:E0; [lia |]. f_equal. lia.
    + rewrite loop_count by lia. cbn [app]. rewrite app_nil_r.
      destruct (0 <=? n)%Z eqn:E0; [| lia]. f_equal. lia.
  - rewrite loop_none. cbn [app]. apply app_nil_r.
Qed.

Lemma pre_slice_sub n l : Subseq (pre_slice n l) l.
Proof. unfold pre_slice. destruct (0 <=? n)%Z; [apply subseq_firstn | apply subseq_lastn]. Qed.

Lemma pre_slice_length n l : length (pre_slice n l) <= Z.to_nat (Z.abs n).
Proof.
  unfold pre_slice. destruct (0 <=? n)%Z eqn:E.
  - rewrite firstn_length. lia.
  - unfold lastn. rewrite skipn_length. lia.
Qed.

Lemma read_messages_preslice_harmless v e p types needed' :
  preslice_applied v p (existsb (fun t => memN t sys_types) needed') = true ->
  (forall m, In m (index_select e p types (existsb (fun t => memN t sys_types) needed')) -> read_pass e p m = true) ->
  read_messages v e p types needed' = limit (p_max p) (reader_seq e p types needed').
Proof.
  intros Hp Hall. unfold read_messages, reader_seq in *.
  set (sysreq := existsb (fun t => memN t sys_types) needed') in *.
  set (idx := index_select e p types sysreq) in *.
  rewrite Hp.
  assert (Hm : is_some (p_max p) = true).
  { unfold preslice_applied in Hp. destruct (is_some (p_max p)); [reflexivity | discriminate]. }
  destruct (p_max p) as [n |]; cbn [is_some limit] in *; [| discriminate].
  cbn [negb]. rewrite andb_false_r.
  rewrite loop_count by lia. cbn [app]. rewrite app_nil_r.
  rewrite (filter_all _ idx Hall).
  rewrite filter_all by (intros x Hx; apply Hall; eapply subseq_In; [apply pre_slice_sub | exact Hx]).
  rewrite Z.sub_0_r, firstn_all2 by apply pre_slice_length.
  reflexivity.
Qed.

(* ------------------------------------------------------------------------------------------------ *)
(** * Shape of _read *)

Definition full_key (v : variant) : Prop :=
  v_key_types v = true /\ v_key_numpy v = true /\ v_key_keep v = true /\ v_key_align v = true /\
  v_key_atypes v = true /\ v_reread_all v = true.

Lemma key_of_full v p : full_key v -> key_of v p = p.
Proof. intros (H1 & H2 & H3 & H4 & H5 & _). unfold key_of. rewrite H1, H2, H3, H4, H5. destruct p; reflexivity. Qed.

Lemma norm_args_facts e a p types ignore :
  norm_args e a = (p, types, ignore) ->
  p_types p = Some types /\ NoDup types /\ ignore = (a_order a || a_ignore a) /\ p_max p = a_max a /\
  p_align p = (if a_order a then align_none else a_align a) /\ p_numpy p = (if a_order a then false else a_numpy a) /\
  p_keep p = a_keep a.
Proof.
  unfold norm_args. intros H. inversion H; subst; clear H. cbn [p_types p_max p_align p_numpy p_keep].
  repeat split; try reflexivity.
  destruct (a_types a) as [[| x l] |]; apply norm_set_nodup.
Qed.

Lemma reduce_needed_nil p : reduce_needed p [] = [].
Proof. unfold reduce_needed. cbn [filter]. destruct (p_p1 p), (p_sys p); reflexivity. Qed.

Lemma fold_set_spec (k : params) (d0 : data) (l : list N) (c : N -> option entry) (t : N) :
  fold_left (fun c t => cache_set c t (k, d0)) l c t = if existsb (N.eqb t) l then Some (k, d0) else c t.
Proof.
  revert c. induction l as [| x l IH]; intros c; [reflexivity |].
  cbn [fold_left existsb]. rewrite IH. unfold cache_set.
  destruct (N.eqb t x), (existsb (N.eqb t) l); reflexivity.
Qed.

Lemma existsb_eqb_in (t : N) (l : list N) : existsb (N.eqb t) l = true <-> In t l.
Proof.
  rewrite existsb_exists. split.
  - intros (x & Hx & E). apply N.eqb_eq in E. subst. exact Hx.
  - intros H. exists t. split; [exact H | apply N.eqb_refl].
Qed.

Lemma fold_set_in k d0 l c t : In t l -> fold_left (fun c t => cache_set c t (k, d0)) l c t = Some (k, d0).
Proof. intros H. rewrite fold_set_spec. apply existsb_eqb_in in H. rewrite H. reflexivity. Qed.

Lemma fold_set_notin k d0 l c t : ~ In t l -> fold_left (fun c t => cache_set c t (k, d0)) l c t = c t.
Proof.
  intros H. rewrite fold_set_spec. destruct (existsb (N.eqb t) l) eqn:E; [| reflexivity].
  apply existsb_eqb_in in E. contradiction.
Qed.

Lemma write_back_spec (types : list N) (c : N -> option entry) (r : list (N * data)) (t0 : N) :
  write_back types c r t0 =
  if existsb (N.eqb t0) types
  then match lookup_data t0 r, c t0 with Some d, Some (k, _) => Some (k, d) | _, _ => c t0 end
  else c t0.
Proof.
  unfold write_back. revert c. induction types as [| x l IH]; intros c; [reflexivity |].
  cbn [fold_left existsb].
  match goal with |- context [fold_left ?f l ?c0] => set (c' := c0) end.
  rewrite IH. clear IH.
  assert (Hc' : c' t0 = if N.eqb t0 x
                        then match lookup_data x r, c x with Some d, Some (k, _) => Some (k, d) | _, _ => c x end
                        else c t0).
  { unfold c'. destruct (N.eqb t0 x) eqn:E.
    - apply N.eqb_eq in E. subst t0.
      destruct (lookup_data x r); [| reflexivity]. destruct (c x) as [[k d'] |] eqn:Ecx; [| exact Ecx].
      unfold cache_set. rewrite N.eqb_refl. reflexivity.
    - destruct (lookup_data x r); [| reflexivity]. destruct (c x) as [[k d'] |] eqn:Ecx; [| reflexivity].
      unfold cache_set. rewrite E. reflexivity. }
  rewrite Hc'. destruct (N.eqb t0 x) eqn:E; cbn [orb]; [| reflexivity].
  apply N.eqb_eq in E. subst t0.
  destruct (existsb (N.eqb x) l); [| reflexivity].
  destruct (lookup_data x r) as [d |]; [| reflexivity]. destruct (c x) as [[k d'] |]; reflexivity.
Qed.

(* the dictionary a read of (p, types) produces when nothing is cached: all requested types are read *)
Definition fresh_result (v : variant) (e : env) (p : params) (types : list N) : list (N * data) :=
  let result0 := map (fun t => (t, empty_data)) types in
  match reduce_needed p types with
  | [] => result0
  | n' => post_process e p (fill p (read_messages v e p types n') result0)
  end.

Lemma fresh_result_keys v e p types : env_ok e -> map fst (fresh_result v e p types) = types.
Proof.
  intros He. unfold fresh_result.
  assert (H0 : map fst (map (fun t : N => (t, empty_data)) types) = types)
    by (rewrite map_map; cbn [fst]; apply map_id).
  destruct (reduce_needed p types); [exact H0 |].
  rewrite post_process_keys, fill_keys by exact He. exact H0.
Qed.

Lemma needs_t0_false st n' : s_need_t0 st = false -> s_need_sys_t0 st = false -> needs_t0 st n' = false.
Proof. intros H1 H2. unfold needs_t0. rewrite H1, H2. reflexivity. Qed.

(* every cached entry equals what a fresh read with its recorded params would produce *)
Definition Inv (v : variant) (e : env) (st : state) : Prop :=
  s_need_t0 st = false /\ s_need_sys_t0 st = false /\
  forall t k d, s_cache st t = Some (k, d) ->
    exists types, p_types k = Some types /\ In t types /\ NoDup types /\
                  lookup_data t (fresh_result v e k types) = Some d.

Lemma inv_init v e : Inv v e init_state.
Proof. repeat split; intros; discriminate. Qed.

(* the dict-mode result when every requested type is (re)read *)
Lemma result0_all_needed (k : params) (types : list N) (c : N -> option entry) :
  map (fun t => (t, match fold_left (fun c t => cache_set c t (k, empty_data)) types c t with
                    | Some (_, d) => d | None => empty_data end)) types
  = map (fun t => (t, empty_data)) types.
Proof. apply map_ext_in. intros t Ht. rewrite fold_set_in by exact Ht. reflexivity. Qed.

Lemma read_fresh_dict v e a p types ignore :
  norm_args e a = (p, types, ignore) -> a_order a = false ->
  snd (read_gen v e init_state a) = OutDict (fresh_result v e p types).
Proof.
  intros En Ho. unfold read_gen. rewrite En, Ho. cbn [init_state s_cache].
  assert (Hm : filter (fun _ : N => true) types = types) by (apply filter_all; reflexivity).
  rewrite Hm.
  assert (Hn : (if ignore then types else if v_reread_all v then match types with [] => [] | _ :: _ => types end else types) = types)
    by (destruct ignore; [reflexivity |]; destruct (v_reread_all v); [destruct types |]; reflexivity).
  rewrite Hn.
  assert (Hb : (if ignore then (fun _ : N => @None entry) else (fun _ : N => None)) = (fun _ => None)) by (destruct ignore; reflexivity).
  rewrite Hb. rewrite result0_all_needed.
  unfold fresh_result. rewrite needs_t0_false by reflexivity.
  destruct (reduce_needed p types); destruct ignore; reflexivity.
Qed.

Lemma read_step v e st a :
  full_key v -> env_ok e -> Inv v e st ->
  snd (read_gen v e st a) = snd (read_gen v e init_state a) /\ Inv v e (fst (read_gen v e st a)).
Proof.
  intros Hv He (Ht0 & Hs0 & Hc).
  destruct (norm_args e a) as [[p types] ignore] eqn:En.
  destruct (norm_args_facts _ _ _ _ _ En) as (Hpt & Hnd & Hig & _).
  assert (Hkey : key_of v p = p) by (apply key_of_full; exact Hv).
  assert (Hrr : v_reread_all v = true) by (apply Hv).
  destruct (a_order a) eqn:Ho.
  - (* in order: the cache is neither read nor written *)
    unfold read_gen. rewrite En, Ho. subst ignore. cbn [orb].
    rewrite !needs_t0_false by (auto; reflexivity).
    split.
    + destruct (reduce_needed p types); reflexivity.
    + destruct (reduce_needed p types); cbn [fst]; repeat split; auto.
  - rewrite (read_fresh_dict v e a p types ignore En Ho).
    unfold read_gen. rewrite En, Ho, Hkey, Hrr.
    rewrite !needs_t0_false by auto.
    destruct ignore.
    + (* ignore_cache: a private dictionary *)
      rewrite result0_all_needed. unfold fresh_result.
      destruct (reduce_needed p types); cbn [fst snd]; (split; [reflexivity | repeat split; auto]).
    + set (missing := filter (fun t => match s_cache st t with
                                       | Some (k, _) => if params_eq_dec k p then false else true
                                       | None => true end) types).
      destruct missing as [| m0 ms] eqn:Em.
      * (* every requested type is cached under exactly these params *)
        cbn [fold_left]. rewrite reduce_needed_nil. cbn [fst snd].
        assert (Hall : forall t, In t types -> exists d, s_cache st t = Some (p, d)).
        { intros t Ht. pose proof (filter_nil_forall _ _ Em t Ht) as Hf. cbn beta in Hf.
          destruct (s_cache st t) as [[k d] |]; [| discriminate].
          destruct (params_eq_dec k p); [subst; eexists; reflexivity | discriminate]. }
        split.
        -- f_equal.
           pose proof (fresh_result_keys v e p types He) as Hk.
           rewrite <- (dict_by_lookup (fresh_result v e p types)
                         (fun t => match s_cache st t with Some (_, d) => d | None => empty_data end)).
           ++ rewrite Hk. reflexivity.
           ++ rewrite Hk. exact Hnd.
           ++ rewrite Hk. intros t Ht. destruct (Hall t Ht) as (d & Hd). rewrite Hd.
              destruct (Hc t p d Hd) as (types' & Hpt' & _ & _ & Hl).
              rewrite Hpt in Hpt'. inversion Hpt'; subst types'. exact Hl.
        -- unfold with_cache. cbn [s_need_t0 s_need_sys_t0 s_cache]. repeat split; auto.
      * (* some type is missing: everything is read again *)
        rewrite result0_all_needed. unfold fresh_result.
        destruct (reduce_needed p types) as [| n0 ns] eqn:Er; cbn [fst snd]; (split; [reflexivity |]).
        -- unfold with_cache. cbn [s_need_t0 s_need_sys_t0 s_cache]. repeat split; auto.
           intros t k d Hcd. lazy beta iota delta [s_cache] in Hcd. rewrite fold_set_spec in Hcd.
           destruct (existsb (N.eqb t) types) eqn:Ein.
           ++ inversion Hcd; subst k d. apply existsb_eqb_in in Ein.
              exists types. repeat split; auto. unfold fresh_result. rewrite Er.
              apply (lookup_map_key (fun _ => empty_data)). exact Ein.
           ++ apply Hc. exact Hcd.
        -- unfold with_cache. cbn [s_need_t0 s_need_sys_t0 s_cache]. repeat split; auto.
           intros t k d Hcd. lazy beta iota delta [s_cache] in Hcd. rewrite write_back_spec in Hcd. rewrite fold_set_spec in Hcd.
           destruct (existsb (N.eqb t) types) eqn:Ein.
           ++ apply existsb_eqb_in in Ein.
              set (r2 := post_process e p (fill p (read_messages v e p types (n0 :: ns)) (map (fun t => (t, empty_data)) types))) in *.
              assert (Hk2 : map fst r2 = types).
              { unfold r2. rewrite post_process_keys, fill_keys by exact He. rewrite map_map. cbn [fst]. apply map_id. }
              destruct (lookup_in_keys r2 t) as (d' & Hd'); [rewrite Hk2; exact Ein |].
              rewrite Hd' in Hcd. inversion Hcd; subst k d.
              exists types. repeat split; auto. unfold fresh_result. rewrite Er. exact Hd'.
           ++ apply Hc. exact Hcd.
Qed.

Lemma run_inv v e st h : full_key v -> env_ok e -> Inv v e st -> Inv v e (run_gen v e st h).
Proof.
  intros Hv He. revert st. induction h as [| a h IH]; intros st Hi; [exact Hi |].
  unfold run_gen. cbn [fold_left]. apply IH. apply read_step; assumption.
Qed.

(* caching is transparent: after any history, a read returns what the same read returns on a fresh loader *)
Lemma cache_transparent_gen v e h a :
  full_key v -> env_ok e ->
  snd (read_gen v e (run_gen v e init_state h) a) = snd (read_gen v e init_state a).
Proof.
  intros Hv He. apply read_step; [exact Hv | exact He |]. apply run_inv; [exact Hv | exact He | apply inv_init].
Qed.

Lemma current_full_key : full_key current.
Proof. repeat split; reflexivity. Qed.

Lemma cache_transparent e h a : env_ok e -> snd (read e (run e init_state h) a) = fresh e a.
Proof. intros He. apply (cache_transparent_gen current e h a current_full_key He). Qed.

(* the establishing-t0 branch is never entered after open() *)
Lemma read_never_unmodelled e h a : env_ok e -> snd (read e (run e init_state h) a) <> OutUnmodelled.
Proof.
  intros He. rewrite cache_transparent by exact He. unfold fresh, read.
  destruct (norm_args e a) as [[p types] ignore] eqn:En.
  destruct (a_order a) eqn:Ho.
  - unfold read_gen. rewrite En, Ho. rewrite !needs_t0_false by reflexivity.
    destruct (reduce_needed p _); cbn [snd]; discriminate.
  - rewrite (read_fresh_dict current e a p types ignore En Ho). discriminate.
Qed.

(* ------------------------------------------------------------------------------------------------ *)
(** * max_messages and in-order semantics *)

Definition types_of (e : env) (a : args) : list N := snd (fst (norm_args e a)).

(* the complement of the recorded finding: the index pre-slice is not applied, or the read-time tests drop nothing *)
Definition preslice_harmless (e : env) (a : args) : Prop := fst (diag e a) = false \/ snd (diag e a) = 0.

Lemma limit_nil n : limit n [] = [].
Proof. destruct n as [n |]; [| reflexivity]. cbn [limit]. destruct (0 <=? n)%Z; [apply firstn_nil | apply lastn_nil]. Qed.

Lemma limit_sub n l : Subseq (limit n l) l.
Proof. destruct n as [n |]; cbn [limit]; [| apply subseq_refl]. destruct (0 <=? n)%Z; [apply subseq_firstn | apply subseq_lastn]. Qed.

Lemma index_select_sub e p types b : env_ok e -> Subseq (index_select e p types b) (e_log e).
Proof.
  intros He. unfold index_select.
  assert (H2 : Subseq (filter (fun m => memN (m_type m) types) (e_tfilter e (p_tr p) (e_log e))) (e_log e))
    by (eapply subseq_trans; [apply subseq_filter | apply (tfilter_sub e He)]).
  destruct (p_p1 p && negb b); [| exact H2].
  eapply subseq_trans; [apply (nonnan_sub e He) | exact H2].
Qed.

Lemma spec_messages_sub e a : env_ok e -> Subseq (spec_messages e a false) (e_log e).
Proof.
  intros He. unfold spec_messages. eapply subseq_trans; [apply limit_sub |].
  unfold spec_selected. destruct (norm_args e a) as [[p types] ignore].
  destruct (reduce_needed p types); [apply subseq_nil |].
  eapply subseq_trans; [apply subseq_filter | apply index_select_sub; exact He].
Qed.

Lemma length_zero_nil {A} (l : list A) : length l = 0 -> l = [].
Proof. destruct l; [reflexivity | discriminate]. Qed.

(* what the loop stores is the limited reader sequence *)
Lemma stored_is_limited e a p types ignore n0 ns :
  v_break_guarded current = true ->
  norm_args e a = (p, types, ignore) -> reduce_needed p types = n0 :: ns -> preslice_harmless e a ->
  read_messages current e p types (n0 :: ns) = spec_messages e a false.
Proof.
  intros Hg En Er Hh. unfold spec_messages, spec_selected. rewrite En, Er.
  destruct (norm_args_facts _ _ _ _ _ En) as (_ & _ & _ & Hmax & _). rewrite <- Hmax.
  change (filter (spec_pass e a p false) ?l) with (filter (read_pass e p) l).
  fold (reader_seq e p types (n0 :: ns)).
  unfold preslice_harmless, diag in Hh. rewrite En, Er in Hh. cbn [fst snd] in Hh.
  destruct (preslice_applied current p (existsb (fun t => memN t sys_types) (n0 :: ns))) eqn:Ea.
  - apply read_messages_preslice_harmless; [exact Ea |].
    destruct Hh as [Hh | Hh]; [congruence |].
    intros m Hm. apply length_zero_nil in Hh.
    pose proof (filter_nil_forall _ _ Hh m Hm) as Hf. cbn beta in Hf. destruct (read_pass e p m); [reflexivity | discriminate].
  - apply read_messages_no_preslice; [exact Hg | exact Ea].
Qed.

Lemma add_messages_msgs rb ri l d : d_msgs (fold_left (add_message rb ri) l d) = d_msgs d ++ map RFile l.
Proof.
  revert d. induction l as [| m l IH]; intros d; cbn [fold_left map]; [symmetry; apply app_nil_r |].
  rewrite IH. cbn [add_message d_msgs]. rewrite <- app_assoc. reflexivity.
Qed.

Lemma entry_to_numpy_keeps nan keepb keepi ty d : d_msgs (entry_to_numpy nan true keepb keepi ty d) = d_msgs d.
Proof.
  unfold entry_to_numpy. destruct (negb (memN ty all_types)); [reflexivity |].
  match goal with |- context [if ?c && ?c2 then _ else _] => destruct (c && c2) end; [reflexivity |].
  cbn [d_msgs].
  match goal with |- d_msgs (if ?c then _ else _) = _ => destruct c end; [| reflexivity].
  destruct (nan && memN ty np_p1_types); reflexivity.
Qed.

Lemma lookup_map_snd (g : N -> data -> data) (r : list (N * data)) (t : N) :
  lookup_data t (map (fun td => (fst td, g (fst td) (snd td))) r) =
  match lookup_data t r with Some d => Some (g t d) | None => None end.
Proof.
  unfold lookup_data. induction r as [| [x d] r IH]; [reflexivity |].
  cbn [map find fst snd]. destruct (N.eqb x t) eqn:E; [apply N.eqb_eq in E; subst; reflexivity | exact IH].
Qed.

Definition stored_ok (e : env) (a : args) : Prop :=
  forall p types ignore n0 ns, norm_args e a = (p, types, ignore) -> reduce_needed p types = n0 :: ns ->
    read_messages current e p types (n0 :: ns) = spec_messages e a false.

Lemma max_messages_semantics_gen e a :
  stored_ok e a ->
  a_order a = false -> a_align a = align_none -> (a_numpy a = false \/ a_keep a = true) ->
  exists r, fresh e a = OutDict r /\ map fst r = types_of e a /\
            forall t d, lookup_data t r = Some d -> d_msgs d = map RFile (of_type t (spec_messages e a false)).
Proof.
  intros Hst Ho Hal Hnk. unfold fresh, read, types_of.
  destruct (norm_args e a) as [[p types] ignore] eqn:En. cbn [fst snd].
  rewrite (read_fresh_dict current e a p types ignore En Ho).
  destruct (norm_args_facts _ _ _ _ _ En) as (_ & _ & _ & Hmax & Hpa & Hpn & Hpk).
  rewrite Ho in Hpa, Hpn.
  unfold fresh_result.
  assert (H0 : map fst (map (fun t : N => (t, empty_data)) types) = types) by (rewrite map_map; cbn [fst]; apply map_id).
  destruct (reduce_needed p types) as [| n0 ns] eqn:Er.
  - eexists. split; [reflexivity |]. split; [exact H0 |].
    intros t d Hl. unfold spec_messages, spec_selected. rewrite En, Er, limit_nil. cbn [of_type filter map].
    unfold lookup_data in Hl. destruct (find _ _) as [[x d'] |] eqn:Ef; [| discriminate].
    apply find_some in Ef. destruct Ef as [Hin _]. apply in_map_iff in Hin. destruct Hin as (t' & Ht' & _).
    inversion Ht'; subst. inversion Hl; subst. reflexivity.
  - rewrite (Hst p types ignore n0 ns En Er).
    eexists. split; [reflexivity |]. split.
    + unfold post_process. rewrite Hpa, Hal, N.eqb_refl. destruct (p_numpy p); [rewrite map_map; cbn [fst] |]; rewrite fill_keys; exact H0.
    + intros t d. unfold post_process. rewrite Hpa, Hal, N.eqb_refl.
      assert (Hfill : forall d1, lookup_data t (fill p (spec_messages e a false) (map (fun t => (t, empty_data)) types)) = Some d1 ->
                                 d_msgs d1 = map RFile (of_type t (spec_messages e a false))).
      { intros d1. unfold fill. rewrite (lookup_map_snd (fun t0 d0 => fold_left (add_message (p_bytes p) (p_idx p)) (of_type t0 (spec_messages e a false)) d0)).
        destruct (lookup_data t (map (fun t0 => (t0, empty_data)) types)) as [d0 |] eqn:El; [| discriminate].
        intros H; inversion H; subst d1. rewrite add_messages_msgs.
        unfold lookup_data in El. destruct (find _ _) as [[x d'] |] eqn:Ef; [| discriminate].
        apply find_some in Ef. destruct Ef as [Hin _]. apply in_map_iff in Hin. destruct Hin as (t' & Ht' & _).
        inversion Ht'; subst. inversion El; subst. reflexivity. }
      destruct (p_numpy p) eqn:Enp.
      * rewrite (lookup_map_snd (fun t0 d0 => entry_to_numpy (p_nan p) (p_keep p) (p_bytes p) (p_idx p) t0 d0)).
        destruct (lookup_data t _) as [d1 |] eqn:El; [| discriminate].
        intros H; inversion H; subst d.
        destruct Hnk as [Hn | Hk]; [congruence |]. rewrite Hpk, Hk, entry_to_numpy_keeps. apply Hfill. reflexivity.
      * apply Hfill.
Qed.

Lemma in_order_is_file_order_gen e a :
  stored_ok e a -> env_ok e -> a_order a = true ->
  exists d, fresh e a = OutOrder d /\ d_msgs d = map RFile (spec_messages e a false) /\
            Subseq (spec_messages e a false) (e_log e).
Proof.
  intros Hst He Ho. unfold fresh, read, read_gen.
  destruct (norm_args e a) as [[p types] ignore] eqn:En.
  destruct (norm_args_facts _ _ _ _ _ En) as (_ & _ & Hig & _).
  rewrite Ho in *. cbn [orb] in Hig. subst ignore.
  rewrite !needs_t0_false by reflexivity.
  destruct (reduce_needed p types) as [| n0 ns] eqn:Er; cbn [snd].
  - eexists. split; [reflexivity |]. split; [| apply spec_messages_sub; exact He].
    unfold spec_messages, spec_selected. rewrite En, Er, limit_nil. reflexivity.
  - eexists. split; [reflexivity |]. split; [| apply spec_messages_sub; exact He].
    rewrite add_messages_msgs. cbn [empty_data d_msgs app].
    rewrite (Hst p types true n0 ns En Er). reflexivity.
Qed.

(* file order also means strictly increasing ordinals *)
Lemma in_order_ordinals_increasing e a :
  env_ok e -> StronglySorted N.lt (map m_ord (e_log e)) ->
  StronglySorted N.lt (map m_ord (spec_messages e a false)).
Proof. intros He Hs. eapply subseq_sorted; [apply subseq_map; apply spec_messages_sub; exact He | exact Hs]. Qed.

Lemma current_break_guarded : v_break_guarded current = true.
Proof. reflexivity. Qed.

(* ------------------------------------------------------------------------------------------------ *)
(** * The concrete environment of the runner satisfies env_ok *)

Lemma map_fst_cond {A} (c : N * A -> bool) (g : N * A -> A) (r : list (N * A)) :
  map fst (map (fun td => if c td then (fst td, g td) else td) r) = map fst r.
Proof. rewrite map_map. apply map_ext. intros td. destruct (c td); reflexivity. Qed.

Lemma align_impl_keys mode at_ r : map fst (align_impl mode at_ r) = map fst r.
Proof.
  unfold align_impl.
  destruct (N.eqb mode align_drop).
  - destruct (filter _ r); [reflexivity |]. apply (map_fst_cond (fun td => participating at_ (fst td))).
  - destruct (N.eqb mode align_insert); [| reflexivity].
    destruct (filter _ r); [reflexivity |]. apply (map_fst_cond (fun td => participating at_ (fst td))).
Qed.

Lemma concrete_env_ok log avail tab nn : env_ok (concrete_env log avail tab nn).
Proof.
  constructor; cbn [concrete_env e_align e_tfilter e_nonnan].
  - apply align_impl_keys.
  - intros tr l. unfold tfilter_table. destruct (find _ tab) as [[t ords] |]; [apply subseq_filter | apply subseq_nil].
  - intros l. apply subseq_filter.
Qed.

(* ------------------------------------------------------------------------------------------------ *)
(** * File order, unconditionally *)

Lemma read_messages_sub v e p types needed' :
  v_break_guarded v = true -> env_ok e -> Subseq (read_messages v e p types needed') (e_log e).
Proof.
  intros Hg He. unfold read_messages.
  set (sysreq := existsb (fun t => memN t sys_types) needed').
  pose proof (index_select_sub e p types sysreq He) as Hidx.
  set (idx := index_select e p types sysreq) in *.
  destruct (p_max p) as [n |]; cbn [is_some].
  - set (applied := preslice_applied v p sysreq).
    assert (Hidx' : Subseq (if applied then pre_slice n idx else idx) (e_log e)).
    { destruct applied; [eapply subseq_trans; [apply pre_slice_sub | exact Hidx] | exact Hidx]. }
    set (idx' := if applied then pre_slice n idx else idx) in *.
    destruct ((n <? 0)%Z && negb applied).
    + rewrite loop_deque_eq by (auto using lastn_nil). cbn [app].
      eapply subseq_trans; [apply subseq_lastn |]. eapply subseq_trans; [apply subseq_filter | exact Hidx'].
    + destruct (Z_le_gt_dec 0 (Z.abs n)) as [Hle | Hgt]; [| lia].
      rewrite loop_count by lia. cbn [app]. rewrite app_nil_r.
      eapply subseq_trans; [apply subseq_firstn |]. eapply subseq_trans; [apply subseq_filter | exact Hidx'].
  - rewrite loop_none. cbn [app]. rewrite app_nil_r. eapply subseq_trans; [apply subseq_filter | exact Hidx].
Qed.

(* in-order output: the returned messages are a subsequence of the log (exact file order), after any history *)
Lemma in_order_file_order e h a :
  env_ok e -> a_order a = true ->
  exists l, snd (read e (run e init_state h) a) = OutOrder (fold_left (add_message (a_bytes a) (a_idx a)) l empty_data) /\
            d_msgs (fold_left (add_message (a_bytes a) (a_idx a)) l empty_data) = map RFile l /\
            Subseq l (e_log e) /\
            (StronglySorted N.lt (map m_ord (e_log e)) -> StronglySorted N.lt (map m_ord l)).
Proof.
  intros He Ho. rewrite cache_transparent by exact He. unfold fresh, read, read_gen.
  destruct (norm_args e a) as [[p types] ignore] eqn:En.
  assert (Hb : p_bytes p = a_bytes a /\ p_idx p = a_idx a) by (unfold norm_args in En; inversion En; subst; split; reflexivity).
  destruct Hb as [Hb Hi]. rewrite Ho, Hb, Hi. rewrite !needs_t0_false by reflexivity.
  assert (Hfin : forall l, Subseq l (e_log e) ->
            d_msgs (fold_left (add_message (a_bytes a) (a_idx a)) l empty_data) = map RFile l /\ Subseq l (e_log e) /\
            (StronglySorted N.lt (map m_ord (e_log e)) -> StronglySorted N.lt (map m_ord l))).
  { intros l Hl. split; [rewrite add_messages_msgs; reflexivity |]. split; [exact Hl |].
    intros Hs. eapply subseq_sorted; [apply subseq_map; exact Hl | exact Hs]. }
  destruct (reduce_needed p _) as [| n0 ns]; cbn [snd].
  - exists []. split; [reflexivity |]. apply Hfin. apply subseq_nil.
  - eexists. split; [reflexivity |]. apply Hfin. apply read_messages_sub; [reflexivity | exact He].
Qed.

Lemma stored_ok_harmless e a : preslice_harmless e a -> stored_ok e a.
Proof. intros Hh p types ignore n0 ns En Er. apply (stored_is_limited e a p types ignore n0 ns); auto. Qed.

Lemma max_messages_semantics_dict e a :
  a_order a = false -> a_align a = align_none -> (a_numpy a = false \/ a_keep a = true) -> preslice_harmless e a ->
  exists r, fresh e a = OutDict r /\ map fst r = types_of e a /\
            forall t d, lookup_data t r = Some d -> d_msgs d = map RFile (of_type t (spec_messages e a false)).
Proof. intros Ho Hal Hnk Hh. apply max_messages_semantics_gen; auto using stored_ok_harmless. Qed.

Lemma max_messages_semantics_in_order e a :
  env_ok e -> a_order a = true -> preslice_harmless e a ->
  exists d, fresh e a = OutOrder d /\ d_msgs d = map RFile (spec_messages e a false) /\
            Subseq (spec_messages e a false) (e_log e).
Proof. intros He Ho Hh. apply in_order_is_file_order_gen; auto using stored_ok_harmless. Qed.

(* ------------------------------------------------------------------------------------------------ *)
(** * No source filter requested: no source test *)

Lemma no_source_filter_all_sources e a p types ignore m :
  norm_args e a = (p, types, ignore) -> a_src a = None ->
  read_pass e p m = (m_decodes m && (if a_p1 a then m_p1_some m else true) && (if a_sys a then m_sys_some m else true)).
Proof.
  intros En Hs. unfold norm_args in En. rewrite Hs in En.
  change none_sources_sampled with false in En. inversion En; subst; clear En.
  unfold read_pass. cbn [p_src p_p1 p_sys]. reflexivity.
Qed.

(* ... so the messages to return do not depend on which sources the reader happened to discover *)
Lemma no_source_filter_spec e a : a_src a = None -> spec_messages e a false = spec_messages e a true.
Proof.
  intros Hs. unfold spec_messages, spec_selected. f_equal.
  destruct (norm_args e a) as [[p types] ignore] eqn:En.
  destruct (reduce_needed p types); [reflexivity |].
  apply filter_ext. intros m. unfold spec_pass.
  rewrite (no_source_filter_all_sources e a p types ignore m En Hs), Hs.
  unfold norm_args in En. inversion En; subst. cbn [p_p1 p_sys]. reflexivity.
Qed.

(* ------------------------------------------------------------------------------------------------ *)
(** * max_messages semantics without side condition (after /repo 638779d) *)

(* every message of a requested type in the log decodes (a CRC-valid message whose payload does not parse is C04's
   recorded finding; it is a fact about the log, not about the arguments) *)
Definition all_decode (e : env) (a : args) : Prop :=
  forall m, In m (e_log e) -> memN (m_type m) (types_of e a) = true -> m_decodes m = true.

Lemma stored_ok_full e a : env_ok e -> all_decode e a -> stored_ok e a.
Proof.
  intros He Hd p types ignore n0 ns En Er.
  unfold spec_messages, spec_selected. rewrite En, Er.
  destruct (norm_args_facts _ _ _ _ _ En) as (_ & _ & _ & Hmax & _). rewrite <- Hmax.
  change (filter (spec_pass e a p false) ?l) with (filter (read_pass e p) l).
  fold (reader_seq e p types (n0 :: ns)).
  destruct (preslice_applied current p (existsb (fun t => memN t sys_types) (n0 :: ns))) eqn:Ea.
  - apply read_messages_preslice_harmless; [exact Ea |].
    unfold preslice_applied in Ea. change (v_preslice_guarded current) with true in Ea. cbv iota in Ea.
    apply andb_prop in Ea. destruct Ea as [Ea Eb]. apply andb_prop in Ea. destruct Ea as [_ Es].
    apply andb_prop in Eb. destruct Eb as [Esrc Ep1].
    apply negb_true_iff in Es, Ep1, Esrc.
    intros m Hm. unfold index_select in Hm. rewrite Ep1 in Hm. cbn [andb] in Hm.
    apply filter_In in Hm. destruct Hm as [Hm Hty].
    assert (Hlog : In m (e_log e)) by (eapply subseq_In; [apply (tfilter_sub e He) | exact Hm]).
    assert (Htypes : types_of e a = types) by (unfold types_of; rewrite En; reflexivity).
    unfold read_pass. destruct (p_src p); [discriminate |]. rewrite Ep1.
    rewrite (Hd m Hlog) by (rewrite Htypes; exact Hty). cbn [andb].
    destruct (p_sys p) eqn:Esys; [| reflexivity].
    (* require_system_time alone: the needed types are system-time types, so the pre-slice is not applied *)
    exfalso. cbn [andb] in Es.
    assert (Hn0 : In n0 (reduce_needed p types)) by (rewrite Er; left; reflexivity).
    unfold reduce_needed in Hn0. rewrite Ep1, Esys in Hn0. cbn [andb] in Hn0.
    apply filter_In in Hn0. destruct Hn0 as [_ Hn0].
    cbn [existsb] in Es. rewrite Hn0 in Es. discriminate.
  - apply read_messages_no_preslice; [reflexivity | exact Ea].
Qed.

Lemma max_messages_semantics_full_dict e a :
  env_ok e -> all_decode e a ->
  a_order a = false -> a_align a = align_none -> (a_numpy a = false \/ a_keep a = true) ->
  exists r, fresh e a = OutDict r /\ map fst r = types_of e a /\
            forall t d, lookup_data t r = Some d -> d_msgs d = map RFile (of_type t (spec_messages e a false)).
Proof. intros He Hd. apply max_messages_semantics_gen. apply stored_ok_full; assumption. Qed.

Lemma max_messages_semantics_full_in_order e a :
  env_ok e -> all_decode e a -> a_order a = true ->
  exists d, fresh e a = OutOrder d /\ d_msgs d = map RFile (spec_messages e a false) /\
            Subseq (spec_messages e a false) (e_log e).
Proof. intros He Hd Ho. apply in_order_is_file_order_gen; auto using stored_ok_full. Qed.

(* ------------------------------------------------------------------------------------------------ *)
(** * open() of another file on the same loader *)

Lemma open_resets e1 h1 e2 h2 a :
  env_ok e2 -> snd (read e2 (run e2 (reopen (run e1 init_state h1)) h2) a) = fresh e2 a.
Proof. intros He. change (reopen (run e1 init_state h1)) with init_state. apply cache_transparent. exact He. Qed.
