(* C19 — proofs about the binary64 MODEL (Models/HeadingF.v).
   Bridge to Flocq (Flocq.IEEE754.PrimFloat: Prim2B, add_equiv, sub_equiv, ...; BinarySingleNaN: Bplus_correct,
   Bminus_correct, Bpred_correct, comparisons), then:
     - Heading_fmod is C fmod: exact, sign of the dividend, magnitude below the divisor (fmod_R);
     - sums/differences are monotone and finiteness carries from the two ends of an interval to anything in
       between (add_sandwich, sub_sandwich), so overflow questions reduce to evaluating the operation on
       +-DBL_MAX and the constants;
     - range and congruence-up-to-rounding of the wrap idiom fmod(fmod(a, P) + P, P), generically in the
       constants, instantiated for degrees (90/180/360) and radians (math.pi/2, math.pi, 2*math.pi) with the
       side conditions on constants discharged by computation on primitive floats. *)
From Coq Require Import ZArith Lia Lra Reals Floats SpecFloat.
From Flocq Require Import Core.Zaux Core.Raux Core.Defs Core.Digits Core.Float_prop Core.Generic_fmt Core.FLT Core.Ulp Core.Round_NE IEEE754.BinarySingleNaN IEEE754.PrimFloat.
From FEC Require Import Generated.HeadingConsts Models.HeadingF.

(* ---------------------------------------------------------------- *)
Lemma shl_align_Z : forall r e k, (0 <= k)%Z ->
  exists m', shl_align r e (e - k) = (m', (e - k)%Z) /\ Zpos m' = (Zpos r * 2 ^ k)%Z.
Proof.
  intros r e k Hk. unfold shl_align. replace (e - k - e)%Z with (- k)%Z by lia.
  destruct k as [|p|p]; try lia.
  - exists r. split. now rewrite Z.sub_0_r. simpl. lia.
  - simpl. exists (shift_pos p r). split. reflexivity. rewrite shift_pos_correct, Z.pow_pos_fold. apply Z.mul_comm.
Qed.

Lemma canon_SF : forall s r e, (-1074 <= e <= 971)%Z -> (Zpos r < 2 ^ 53)%Z ->
  exists m' e', Prim2SF (Heading_canon s r e) = S754_finite s m' e' /\
                exists k, (0 <= k)%Z /\ Zpos m' = (Zpos r * 2 ^ k)%Z /\ e' = (e - k)%Z.
Proof.
  intros s r e He Hr. unfold Heading_canon.
  assert (Hd : (1 <= Zpos (digits2_pos r) <= 53)%Z).
  { split. lia. rewrite Zpos_digits2_pos. apply Zdigits_le_Zpower. simpl Z.abs. exact Hr. }
  set (d := Zpos (digits2_pos r)) in *.
  change prec with 53%Z. change emax with 1024%Z.
  set (k := Z.min (53 - d) (e - (3 - 1024 - 53))).
  assert (Hk : (0 <= k)%Z) by lia.
  destruct (Z.ltb_spec k 0); [lia|].
  destruct (shl_align_Z r e k Hk) as [m' [E Hm']]. rewrite E.
  exists m', (e - k)%Z. split; [|exists k; auto].
  apply Prim2SF_SF2Prim.
  unfold FloatAxioms.valid_binary, valid_binary, bounded, canonical_mantissa.
  assert (Hdm : Zpos (digits2_pos m') = (d + k)%Z).
  { rewrite Zpos_digits2_pos, Hm'. change 2%Z with (radix_val radix2).
    rewrite Zdigits_mult_Zpower by lia. unfold d. now rewrite Zpos_digits2_pos. }
  rewrite Hdm. apply andb_true_intro. split.
  - apply Zeq_bool_true. unfold fexp, emin. change prec with 53%Z. change emax with 1024%Z. lia.
  - apply Z.leb_le. change prec with 53%Z. change emax with 1024%Z. lia.
Qed.

(* ---------------------------------------------------------------- *)
Open Scope R_scope.

(* the real value of a primitive float (0 for NaN and infinities, as in Flocq) *)
Definition FR (f : Floats.PrimFloat.float) : R := B2R (Prim2B f).
Definition fin (f : Floats.PrimFloat.float) : Prop := PrimFloat.is_finite f = true.
Definition dyad (z e : Z) : R := IZR z * bpow radix2 e.

Lemma Prim2B_SF_finite : forall f s m e, Prim2SF f = S754_finite s m e ->
  exists H, Prim2B f = B754_finite s m e H.
Proof.
  intros f s m e E. pose proof (B2SF_Prim2B f) as H. rewrite E in H.
  destruct (Prim2B f) as [s'|s'| |s' m' e' H']; simpl in H; try discriminate.
  inversion H; subst. now exists H'.
Qed.
Lemma Prim2B_SF_zero : forall f s, Prim2SF f = S754_zero s -> Prim2B f = B754_zero s.
Proof.
  intros f s E. pose proof (B2SF_Prim2B f) as H. rewrite E in H.
  destruct (Prim2B f) as [s'|s'| |s' m' e' H']; simpl in H; try discriminate. now inversion H.
Qed.

Lemma FR_SF_finite : forall f s m e, Prim2SF f = S754_finite s m e -> fin f /\ FR f = dyad (cond_Zopp s (Zpos m)) e.
Proof.
  intros f s m e E. destruct (Prim2B_SF_finite f s m e E) as [H P].
  unfold fin, FR. rewrite is_finite_equiv, P. split. reflexivity. reflexivity.
Qed.
Lemma FR_SF_zero : forall f s, Prim2SF f = S754_zero s -> fin f /\ FR f = 0.
Proof.
  intros f s E. unfold fin, FR. rewrite is_finite_equiv, (Prim2B_SF_zero f s E). split; reflexivity.
Qed.

Lemma fin_cases : forall f, fin f ->
  (exists s, Prim2SF f = S754_zero s) \/ (exists s m e, Prim2SF f = S754_finite s m e).
Proof.
  intros f H. unfold fin in H. rewrite is_finite_equiv in H.
  pose proof (B2SF_Prim2B f) as E.
  destruct (Prim2B f) as [s'|s'| |s' m' e' H']; simpl in *; try discriminate.
  left; eauto. right; eauto.
Qed.

Lemma SF_bounds : forall f s m e, Prim2SF f = S754_finite s m e -> (-1074 <= e <= 971)%Z /\ (Zpos m < 2 ^ 53)%Z.
Proof.
  intros f s m e E. pose proof (Prim2SF_valid f) as V. rewrite E in V.
  unfold FloatAxioms.valid_binary, valid_binary, bounded, canonical_mantissa in V.
  apply andb_prop in V. destruct V as [V1 V2].
  apply Zeq_bool_eq in V1. apply Z.leb_le in V2.
  unfold fexp, emin in V1. change prec with 53%Z in *. change emax with 1024%Z in *.
  split. lia.
  assert (Hd : (Zpos (digits2_pos m) <= 53)%Z) by lia.
  rewrite Zpos_digits2_pos in Hd.
  pose proof (Zdigits_correct radix2 (Zpos m)) as [_ Hc]. simpl Z.abs in Hc.
  eapply Z.lt_le_trans. apply Hc. change (radix2 : Z) with 2%Z.
  apply Z.pow_le_mono_r; lia.
Qed.

Lemma D_shift : forall z e k, (0 <= k)%Z -> dyad (z * 2 ^ k) (e - k) = dyad z e.
Proof.
  intros z e k Hk. unfold dyad. rewrite mult_IZR. change 2%Z with (radix_val radix2).
  rewrite IZR_Zpower by assumption. rewrite Rmult_assoc, <- bpow_plus. f_equal. f_equal. lia.
Qed.
Lemma D_opp : forall s z e, dyad (cond_Zopp s z) e = if s then - dyad z e else dyad z e.
Proof. intros [|] z e; unfold dyad; simpl. rewrite opp_IZR. ring. reflexivity. Qed.
Lemma D_lt : forall a b e, (a < b)%Z -> dyad a e < dyad b e.
Proof. intros. unfold dyad. apply Rmult_lt_compat_r. apply bpow_gt_0. now apply IZR_lt. Qed.
Lemma D_le : forall a b e, (a <= b)%Z -> dyad a e <= dyad b e.
Proof. intros. unfold dyad. apply Rmult_le_compat_r. apply bpow_ge_0. now apply IZR_le. Qed.
Lemma D_0 : forall e, dyad 0 e = 0.
Proof. intros. unfold dyad. simpl. ring. Qed.

(* fmod on two finite non-zero numbers, at the level of SpecFloat *)
Lemma fmod_SF : forall a b sa ma ea sb mb eb,
  Prim2SF a = S754_finite sa ma ea -> Prim2SF b = S754_finite sb mb eb ->
  let e := Z.min ea eb in
  let A := (Zpos ma * 2 ^ (ea - e))%Z in let B := (Zpos mb * 2 ^ (eb - e))%Z in
  fin (Heading_fmod a b) /\ FR (Heading_fmod a b) = dyad (cond_Zopp sa (A mod B)) e.
Proof.
  intros a b sa ma ea sb mb eb Ea Eb e A B.
  destruct (SF_bounds _ _ _ _ Ea) as [Hea Hma]. destruct (SF_bounds _ _ _ _ Eb) as [Heb Hmb].
  unfold Heading_fmod. rewrite Ea, Eb. fold e. fold A. fold B.
  assert (HA : (0 < A)%Z) by (unfold A; apply Z.mul_pos_pos; [lia | apply Z.pow_pos_nonneg; lia]).
  assert (HB : (0 < B)%Z) by (unfold B; apply Z.mul_pos_pos; [lia | apply Z.pow_pos_nonneg; lia]).
  pose proof (Z.mod_pos_bound A B HB) as HR.
  assert (HR53 : (A mod B < 2 ^ 53)%Z).
  { destruct (Z.le_ge_cases ea eb).
    - assert (e = ea) by lia. assert (A = Zpos ma) by (unfold A; rewrite H0, Z.sub_diag; simpl; lia).
      pose proof (Z.mod_le A B). lia.
    - assert (e = eb) by lia. assert (B = Zpos mb) by (unfold B; rewrite H0, Z.sub_diag; simpl; lia). lia. }
  destruct (A mod B)%Z as [|r|r] eqn:ER; try lia.
  - destruct sa.
    + destruct (FR_SF_zero neg_zero true eq_refl) as [F1 F2]. split. exact F1. rewrite F2. simpl. now rewrite D_0.
    + destruct (FR_SF_zero zero false eq_refl) as [F1 F2]. split. exact F1. rewrite F2. simpl. now rewrite D_0.
  - assert (He : (-1074 <= e <= 971)%Z) by lia.
    destruct (canon_SF sa r e He HR53) as [m' [e' [E [k [Hk [Hm' He']]]]]].
    destruct (FR_SF_finite _ _ _ _ E) as [F1 F2]. split. exact F1.
    rewrite F2, !D_opp. subst e'. rewrite Hm'. now rewrite D_shift.
Qed.

(* ---------------------------------------------------------------- *)
Open Scope R_scope.

(* C fmod on finite arguments with a positive divisor: exact, sign of the dividend, magnitude below the divisor *)
Lemma fmod_R : forall a b, fin a -> fin b -> 0 < FR b ->
  let r := Heading_fmod a b in
  fin r /\ Rabs (FR r) < FR b /\ (0 <= FR a -> 0 <= FR r) /\ (FR a <= 0 -> FR r <= 0) /\
  (exists n : Z, FR r = FR a - IZR n * FR b) /\ Rabs (FR r) <= Rabs (FR a).
Proof.
  intros a b Fa Fb Hb r.
  destruct (fin_cases b Fb) as [[sb Eb]|[sb [mb [eb Eb]]]].
  { destruct (FR_SF_zero _ _ Eb) as [_ Z]. lra. }
  destruct (FR_SF_finite _ _ _ _ Eb) as [_ Rb].
  assert (sb = false).
  { destruct sb; [|reflexivity]. rewrite Rb, D_opp in Hb.
    assert (0 < dyad (Zpos mb) eb) by (rewrite <- (D_0 eb); apply D_lt; lia). lra. }
  subst sb. simpl cond_Zopp in Rb.
  destruct (fin_cases a Fa) as [[sa Ea]|[sa [ma [ea Ea]]]].
  { destruct (FR_SF_zero _ _ Ea) as [_ Za].
    assert (r = a) by (unfold r, Heading_fmod; rewrite Ea, Eb; reflexivity).
    rewrite H, Za. rewrite Rabs_R0. repeat split; try lra. exact Fa. exists 0%Z. lra. }
  destruct (FR_SF_finite _ _ _ _ Ea) as [_ Ra].
  destruct (fmod_SF a b sa ma ea false mb eb Ea Eb) as [Fr Rr]. fold r in Fr, Rr.
  destruct (SF_bounds _ _ _ _ Ea) as [Hea Hma]. destruct (SF_bounds _ _ _ _ Eb) as [Heb Hmb].
  set (e := Z.min ea eb) in *.
  set (A := (Zpos ma * 2 ^ (ea - e))%Z) in *. set (B := (Zpos mb * 2 ^ (eb - e))%Z) in *.
  assert (HA : (0 < A)%Z) by (unfold A; apply Z.mul_pos_pos; [lia | apply Z.pow_pos_nonneg; lia]).
  assert (HB : (0 < B)%Z) by (unfold B; apply Z.mul_pos_pos; [lia | apply Z.pow_pos_nonneg; lia]).
  assert (RA : dyad (Zpos ma) ea = dyad A e).
  { unfold A. rewrite <- (D_shift (Zpos ma) ea (ea - e)) by lia. f_equal. lia. }
  assert (RB : FR b = dyad B e).
  { rewrite Rb. unfold B. rewrite <- (D_shift (Zpos mb) eb (eb - e)) by lia. f_equal. lia. }
  pose proof (Z.mod_pos_bound A B HB) as HR.
  pose proof (Z.div_mod A B ltac:(lia)) as HDM.
  pose proof (Z.mod_le A B ltac:(lia) HB) as HLE.
  set (R := (A mod B)%Z) in *. set (q := (A / B)%Z) in *.
  assert (P0 : 0 <= dyad R e) by (rewrite <- (D_0 e); apply D_le; lia).
  assert (P1 : dyad R e < dyad B e) by (apply D_lt; lia).
  assert (P2 : dyad R e <= dyad A e) by (apply D_le; lia).
  assert (P3 : dyad A e = IZR q * dyad B e + dyad R e).
  { unfold dyad. rewrite HDM at 1. rewrite plus_IZR, mult_IZR. ring. }
  assert (PA : 0 < dyad A e) by (rewrite <- (D_0 e); apply D_lt; lia).
  rewrite D_opp in Rr, Ra. rewrite RA in Ra. rewrite RB.
  split. exact Fr.
  destruct sa; rewrite Rr, Ra.
  - rewrite Rabs_Ropp, (Rabs_pos_eq _ P0). rewrite Rabs_Ropp, (Rabs_pos_eq (dyad A e)) by lra.
    repeat split; try lra. exists (- q)%Z. rewrite opp_IZR. lra.
  - rewrite (Rabs_pos_eq _ P0), (Rabs_pos_eq (dyad A e)) by lra.
    repeat split; try lra. exists q. lra.
Qed.

(* ---------------------------------------------------------------- *)
Open Scope R_scope.

Local Notation rnd := (round radix2 (fexp prec emax) (round_mode mode_NE)).

Lemma rnd_le : forall x y, x <= y -> rnd x <= rnd y.
Proof. intros. apply round_le; auto with typeclass_instances. apply fexp_correct. exact Hprec. Qed.

Lemma fin_B : forall f, fin f <-> is_finite (Prim2B f) = true.
Proof. intro f. unfold fin. now rewrite is_finite_equiv. Qed.

Lemma overflow_not_finite : forall (b : binary_float prec emax) s, B2SF b = binary_overflow prec emax mode_NE s -> is_finite b = true -> False.
Proof.
  intros b s E F. rewrite <- is_finite_SF_B2SF, E in F. discriminate.
Qed.

(* x + y, when it does not overflow, is the rounded exact sum; finiteness of the result tells there was no overflow *)
Lemma add_fin_inv : forall x y, fin x -> fin y -> fin (x + y)%float ->
  FR (x + y)%float = rnd (FR x + FR y) /\ Rabs (rnd (FR x + FR y)) < bpow radix2 emax.
Proof.
  intros x y Fx Fy Fs. apply fin_B in Fx, Fy, Fs. unfold FR. rewrite add_equiv in *.
  generalize (Bplus_correct prec emax Hprec Hmax mode_NE _ _ Fx Fy).
  destruct (Rlt_bool_spec (Rabs (rnd (B2R (Prim2B x) + B2R (Prim2B y)))) (bpow radix2 emax)) as [L|L].
  - intros [H _]. now split.
  - intros [H _]. exfalso. eapply overflow_not_finite; eassumption.
Qed.
Lemma add_fin_intro : forall x y, fin x -> fin y -> Rabs (rnd (FR x + FR y)) < bpow radix2 emax ->
  fin (x + y)%float /\ FR (x + y)%float = rnd (FR x + FR y).
Proof.
  intros x y Fx Fy L. apply fin_B in Fx, Fy. rewrite fin_B. unfold FR in *. rewrite add_equiv.
  generalize (Bplus_correct prec emax Hprec Hmax mode_NE _ _ Fx Fy).
  rewrite Rlt_bool_true by exact L. intros [H1 [H2 _]]. now split.
Qed.
Lemma sub_fin_inv : forall x y, fin x -> fin y -> fin (x - y)%float ->
  FR (x - y)%float = rnd (FR x - FR y) /\ Rabs (rnd (FR x - FR y)) < bpow radix2 emax.
Proof.
  intros x y Fx Fy Fs. apply fin_B in Fx, Fy, Fs. unfold FR. rewrite sub_equiv in *.
  generalize (Bminus_correct prec emax Hprec Hmax mode_NE _ _ Fx Fy).
  destruct (Rlt_bool_spec (Rabs (rnd (B2R (Prim2B x) - B2R (Prim2B y)))) (bpow radix2 emax)) as [L|L].
  - intros [H _]. now split.
  - intros [H _]. exfalso. eapply overflow_not_finite; eassumption.
Qed.
Lemma sub_fin_intro : forall x y, fin x -> fin y -> Rabs (rnd (FR x - FR y)) < bpow radix2 emax ->
  fin (x - y)%float /\ FR (x - y)%float = rnd (FR x - FR y).
Proof.
  intros x y Fx Fy L. apply fin_B in Fx, Fy. rewrite fin_B. unfold FR in *. rewrite sub_equiv.
  generalize (Bminus_correct prec emax Hprec Hmax mode_NE _ _ Fx Fy).
  rewrite Rlt_bool_true by exact L. intros [H1 [H2 _]]. now split.
Qed.

Lemma abs_between : forall lo v hi M, lo <= v <= hi -> Rabs lo < M -> Rabs hi < M -> Rabs v < M.
Proof.
  intros lo v hi M [H1 H2] Hl Hh. apply Rabs_def1.
  - apply Rle_lt_trans with hi. exact H2. apply Rle_lt_trans with (Rabs hi). apply RRle_abs. exact Hh.
  - apply Rlt_le_trans with lo; [|exact H1]. apply Rabs_def2 in Hl. tauto.
Qed.

(* monotonicity of the rounded sum / difference, carrying finiteness from the two ends to anything in between *)
Lemma add_sandwich : forall x1 x x2 y1 y y2,
  fin x1 -> fin x -> fin x2 -> fin y1 -> fin y -> fin y2 ->
  FR x1 <= FR x <= FR x2 -> FR y1 <= FR y <= FR y2 ->
  fin (x1 + y1)%float -> fin (x2 + y2)%float ->
  fin (x + y)%float /\ FR (x1 + y1)%float <= FR (x + y)%float <= FR (x2 + y2)%float.
Proof.
  intros x1 x x2 y1 y y2 F1 F F2 G1 G G2 Hx Hy S1 S2.
  destruct (add_fin_inv _ _ F1 G1 S1) as [E1 L1]. destruct (add_fin_inv _ _ F2 G2 S2) as [E2 L2].
  assert (B : rnd (FR x1 + FR y1) <= rnd (FR x + FR y) <= rnd (FR x2 + FR y2)) by (split; apply rnd_le; lra).
  destruct (add_fin_intro x y F G) as [S E]. eapply abs_between; eassumption.
  split. exact S. rewrite E1, E2, E. exact B.
Qed.
Lemma sub_sandwich : forall x1 x x2 y1 y y2,
  fin x1 -> fin x -> fin x2 -> fin y1 -> fin y -> fin y2 ->
  FR x1 <= FR x <= FR x2 -> FR y1 <= FR y <= FR y2 ->
  fin (x1 - y2)%float -> fin (x2 - y1)%float ->
  fin (x - y)%float /\ FR (x1 - y2)%float <= FR (x - y)%float <= FR (x2 - y1)%float.
Proof.
  intros x1 x x2 y1 y y2 F1 F F2 G1 G G2 Hx Hy S1 S2.
  destruct (sub_fin_inv _ _ F1 G2 S1) as [E1 L1]. destruct (sub_fin_inv _ _ F2 G1 S2) as [E2 L2].
  assert (B : rnd (FR x1 - FR y2) <= rnd (FR x - FR y) <= rnd (FR x2 - FR y1)) by (split; apply rnd_le; lra).
  destruct (sub_fin_intro x y F G) as [S E]. eapply abs_between; eassumption.
  split. exact S. rewrite E1, E2, E. exact B.
Qed.

(* comparisons *)
Lemma leb_R : forall x y, fin x -> fin y -> ((x <=? y)%float = true <-> FR x <= FR y).
Proof.
  intros x y Fx Fy. apply fin_B in Fx, Fy. rewrite leb_equiv, Bleb_correct by assumption. unfold FR.
  destruct (Rle_bool_spec (B2R (Prim2B x)) (B2R (Prim2B y))); split; intros; try lra; try reflexivity; discriminate.
Qed.
Lemma ltb_R : forall x y, fin x -> fin y -> ((x <? y)%float = true <-> FR x < FR y).
Proof.
  intros x y Fx Fy. apply fin_B in Fx, Fy. rewrite ltb_equiv, Bltb_correct by assumption. unfold FR.
  destruct (Rlt_bool_spec (B2R (Prim2B x)) (B2R (Prim2B y))); split; intros; try lra; try reflexivity; discriminate.
Qed.

(* every finite value lies between -DBL_MAX and DBL_MAX *)
Definition dbl_max : Floats.PrimFloat.float := 0x1.fffffffffffffp+1023%float.
Lemma fin_le_max : forall x, fin x -> FR (- dbl_max)%float <= FR x <= FR dbl_max.
Proof.
  intros x Fx.
  assert (M : FR dbl_max = bpow radix2 emax - bpow radix2 (emax - prec)).
  { destruct (FR_SF_finite dbl_max false 9007199254740991 971 eq_refl) as [_ E]. rewrite E. unfold dyad. simpl cond_Zopp.
    change emax with 1024%Z. change prec with 53%Z. change (1024 - 53)%Z with 971%Z.
    replace (bpow radix2 1024) with (IZR (2 ^ 53) * bpow radix2 971).
    2:{ change 2%Z with (radix_val radix2). rewrite IZR_Zpower by lia. rewrite <- bpow_plus. reflexivity. }
    change (2 ^ 53)%Z with 9007199254740992%Z. replace 9007199254740992 with (9007199254740991 + 1) by lra. ring. }
  assert (M' : FR (- dbl_max)%float = - FR dbl_max).
  { unfold FR. rewrite opp_equiv. apply B2R_Bopp. }
  pose proof (abs_B2R_le_emax_minus_prec prec emax Hprec (Prim2B x)) as H. fold (FR x) in H.
  rewrite M', M. apply Rabs_le_inv. exact H.
Qed.

(* x < y between floats means x <= pred y *)
Lemma lt_le_next_down : forall x y, fin x -> fin y -> fin (next_down y) -> FR x < FR y -> FR x <= FR (next_down y).
Proof.
  intros x y Fx Fy Fp L. apply fin_B in Fy. pose proof Fp as Fp'. apply fin_B in Fp'. rewrite next_down_equiv in Fp'.
  generalize (Bpred_correct prec emax Hprec Hmax _ Fy).
  destruct (Rlt_bool_spec (- bpow radix2 emax) (pred radix2 (fexp prec emax) (B2R (Prim2B y)))).
  - intros [E _]. unfold FR at 2. rewrite next_down_equiv, E. apply pred_ge_gt.
    apply fexp_correct; exact Hprec. apply generic_format_B2R. apply generic_format_B2R. exact L.
  - intros E. exfalso. rewrite <- is_finite_SF_B2SF, E in Fp'. discriminate.
Qed.

(* ---------------------------------------------------------------- *)
Open Scope R_scope.

Lemma FR_zero : FR 0%float = 0.
Proof. now destruct (FR_SF_zero zero false eq_refl). Qed.
Lemma fin_zero : fin 0%float.
Proof. reflexivity. Qed.
Lemma FR_opp : forall x, FR (- x)%float = - FR x.
Proof. intro x. unfold FR. rewrite opp_equiv. apply B2R_Bopp. Qed.
Lemma fin_opp : forall x, fin x -> fin (- x)%float.
Proof. intros x F. apply fin_B. apply fin_B in F. rewrite opp_equiv, is_finite_Bopp. exact F. Qed.

Lemma rnd_0 : rnd 0 = 0.
Proof. apply round_0. auto with typeclass_instances. Qed.

(* -P + P = 0 *)
Lemma opp_add_self : forall P, fin P -> fin (- P + P)%float /\ FR (- P + P)%float = 0.
Proof.
  intros P F. pose proof (fin_opp P F) as F'.
  destruct (add_fin_intro (- P)%float P F' F) as [S E].
  - rewrite FR_opp. replace (- FR P + FR P) with 0 by ring. rewrite rnd_0, Rabs_R0. apply bpow_gt_0.
  - split. exact S. rewrite E, FR_opp. replace (- FR P + FR P) with 0 by ring. apply rnd_0.
Qed.

(* the wrap idiom of the repaired code: fmod(fmod(a, P) + P, P) lies in [0, P) for every finite a *)
Lemma wrap_range : forall P a, fin P -> 0 < FR P -> fin (P + P)%float -> fin a ->
  let r := Heading_fmod (Heading_fmod a P + P) P in fin r /\ 0 <= FR r < FR P.
Proof.
  intros P a FP HP FPP Fa r.
  destruct (fmod_R a P Fa FP HP) as [F1 [B1 _]]. set (r1 := Heading_fmod a P) in *.
  apply Rabs_def2 in B1.
  destruct (opp_add_self P FP) as [S0 E0].
  destruct (add_sandwich (- P)%float r1 P P P P) as [F2 [L2 U2]]; auto using fin_opp.
  rewrite FR_opp; lra. lra.
  rewrite E0 in L2.
  destruct (fmod_R (r1 + P)%float P F2 FP HP) as [F3 [B3 [N3 _]]]. fold r in F3, B3, N3.
  split. exact F3. apply Rabs_def2 in B3. split. apply N3, L2. lra.
Qed.

Definition istrue (b : bool) : Prop := b = true.

Lemma y2h_range_gen : forall c P x : Floats.PrimFloat.float,
  istrue (Floats.PrimFloat.is_finite c) -> istrue (Floats.PrimFloat.is_finite P) -> istrue (0 <? P)%float -> istrue (Floats.PrimFloat.is_finite (P + P)) ->
  istrue (Floats.PrimFloat.is_finite (c - dbl_max)) -> istrue (Floats.PrimFloat.is_finite (c - (- dbl_max))) ->
  fin x ->
  let r := Heading_fmod (Heading_fmod (c - x) P + P) P in
  fin r /\ (0 <=? r)%float = true /\ (r <? P)%float = true.
Proof.
  intros c P x Fc FP HP FPP S1 S2 Fx r. unfold istrue in *.
  assert (HP' : 0 < FR P) by (rewrite <- FR_zero; apply ltb_R; auto using fin_zero).
  assert (Fa : fin (c - x)%float).
  { destruct (fin_le_max x Fx).
    destruct (sub_sandwich c c c (- dbl_max)%float x dbl_max) as [F _]; auto; try lra.
    apply fin_opp; reflexivity. reflexivity. }
  destruct (wrap_range P (c - x)%float FP HP' FPP Fa) as [Fr [L U]]. fold r in Fr, L, U.
  split. exact Fr. split. apply leb_R; auto using fin_zero. apply ltb_R; auto.
Qed.

Lemma h2y_range_gen : forall c h P x : Floats.PrimFloat.float,
  istrue (Floats.PrimFloat.is_finite c) -> istrue (Floats.PrimFloat.is_finite h) -> istrue (Floats.PrimFloat.is_finite P) -> istrue (0 <? P)%float -> istrue (Floats.PrimFloat.is_finite (P + P)) ->
  istrue (Floats.PrimFloat.is_finite (c - dbl_max)) -> istrue (Floats.PrimFloat.is_finite (c - (- dbl_max))) ->
  istrue (Floats.PrimFloat.is_finite (- dbl_max + h)) -> istrue (Floats.PrimFloat.is_finite (dbl_max + h)) ->
  istrue (Floats.PrimFloat.is_finite (next_down P)) -> istrue (Floats.PrimFloat.is_finite (0 - h)) -> istrue (Floats.PrimFloat.is_finite (next_down P - h)) ->
  istrue (- h <=? 0 - h)%float -> istrue (next_down P - h <? h)%float ->
  fin x ->
  let r := (Heading_fmod (Heading_fmod (c - x + h) P + P) P - h)%float in
  fin r /\ (- h <=? r)%float = true /\ (r <? h)%float = true.
Proof.
  intros c h P x Fc Fh FP HP FPP S1 S2 S3 S4 FN T1 T2 C1 C2 Fx r. unfold istrue in *.
  assert (HP' : 0 < FR P) by (rewrite <- FR_zero; apply ltb_R; auto using fin_zero).
  assert (FM : fin dbl_max) by reflexivity. assert (FM' : fin (- dbl_max)%float) by reflexivity.
  assert (Fa : fin (c - x)%float).
  { destruct (fin_le_max x Fx).
    destruct (sub_sandwich c c c (- dbl_max)%float x dbl_max) as [F _]; auto; lra. }
  assert (Fb : fin (c - x + h)%float).
  { destruct (fin_le_max _ Fa).
    destruct (add_sandwich (- dbl_max)%float (c - x)%float dbl_max h h h) as [F _]; auto; lra. }
  destruct (wrap_range P (c - x + h)%float FP HP' FPP Fb) as [Ft [L U]].
  set (t := Heading_fmod (Heading_fmod (c - x + h) P + P) P) in *.
  pose proof (lt_le_next_down t P Ft FP FN U) as U'.
  destruct (sub_sandwich 0%float t (next_down P) h h h) as [Fr [Lr Ur]]; auto using fin_zero; try lra.
  fold r in Fr, Lr, Ur.
  assert (Fnh : fin (- h)%float) by (apply fin_opp; exact Fh).
  split. exact Fr. split.
  - apply leb_R; auto. apply (leb_R (- h)%float (0 - h)%float Fnh T1) in C1. lra.
  - apply ltb_R; auto. apply (ltb_R _ _ T2 Fh) in C2. lra.
Qed.

(* ---------------------------------------------------------------- *)
Open Scope R_scope.

Local Notation u := (ulp radix2 (fexp prec emax)).

Lemma rnd_err : forall x, Rabs (rnd x - x) <= / 2 * u x.
Proof. intro x. apply error_le_half_ulp. apply fexp_correct. exact Hprec. Qed.
Lemma u_le : forall x y, Rabs x <= Rabs y -> u x <= u y.
Proof. intros. apply ulp_le; auto. apply fexp_correct; exact Hprec. apply fexp_monotone. Qed.

(* fmod(fmod(a,P)+P,P) is a modulo P up to the rounding of the one addition *)
Lemma wrap_close : forall P a, fin P -> 0 < FR P -> fin (P + P)%float -> fin a ->
  let r := Heading_fmod (Heading_fmod a P + P) P in
  exists n : Z, Rabs (FR r - FR a - IZR n * FR P) <= / 2 * u (FR P + FR P).
Proof.
  intros P a FP HP FPP Fa r.
  destruct (fmod_R a P Fa FP HP) as [F1 [B1 [_ [_ [[n1 E1] _]]]]]. set (r1 := Heading_fmod a P) in *.
  apply Rabs_def2 in B1.
  destruct (opp_add_self P FP) as [S0 E0].
  destruct (add_sandwich (- P)%float r1 P P P P) as [F2 _]; auto using fin_opp.
  rewrite FR_opp; lra. lra.
  destruct (add_fin_inv r1 P F1 FP F2) as [E2 _].
  destruct (fmod_R (r1 + P)%float P F2 FP HP) as [_ [_ [_ [_ [[n2 E3] _]]]]]. fold r in E3.
  exists (1 - n1 - n2)%Z. rewrite E3, E2. rewrite !minus_IZR.
  replace (rnd (FR r1 + FR P) - IZR n2 * FR P - FR a - (1 - IZR n1 - IZR n2) * FR P)
     with (rnd (FR r1 + FR P) - (FR r1 + FR P)) by (rewrite E1; ring).
  eapply Rle_trans. apply rnd_err. apply Rmult_le_compat_l. lra. apply u_le.
  rewrite !Rabs_pos_eq by lra. lra.
Qed.

Lemma y2h_close_gen : forall c P x : Floats.PrimFloat.float,
  istrue (Floats.PrimFloat.is_finite c) -> istrue (Floats.PrimFloat.is_finite P) -> istrue (0 <? P)%float -> istrue (Floats.PrimFloat.is_finite (P + P)) ->
  istrue (Floats.PrimFloat.is_finite (c - dbl_max)) -> istrue (Floats.PrimFloat.is_finite (c - (- dbl_max))) ->
  fin x ->
  let r := Heading_fmod (Heading_fmod (c - x) P + P) P in
  exists n : Z, Rabs (FR r - (FR c - FR x) - IZR n * FR P) <= / 2 * u (FR c - FR x) + / 2 * u (FR P + FR P).
Proof.
  intros c P x Fc FP HP FPP S1 S2 Fx r. unfold istrue in *.
  assert (HP' : 0 < FR P) by (rewrite <- FR_zero; apply ltb_R; auto using fin_zero).
  assert (Fa : fin (c - x)%float).
  { destruct (fin_le_max x Fx).
    destruct (sub_sandwich c c c (- dbl_max)%float x dbl_max) as [F _]; auto; try lra.
    apply fin_opp; reflexivity. reflexivity. }
  destruct (sub_fin_inv c x Fc Fx Fa) as [Ea _].
  destruct (wrap_close P (c - x)%float FP HP' FPP Fa) as [n Hn]. fold r in Hn.
  exists n. pose proof (rnd_err (FR c - FR x)) as He. rewrite <- Ea in He.
  replace (FR r - (FR c - FR x) - IZR n * FR P)
     with ((FR r - FR (c - x)%float - IZR n * FR P) + (FR (c - x)%float - (FR c - FR x))) by ring.
  eapply Rle_trans. apply Rabs_triang. lra.
Qed.

Lemma h2y_close_gen : forall c h P x : Floats.PrimFloat.float,
  istrue (Floats.PrimFloat.is_finite c) -> istrue (Floats.PrimFloat.is_finite h) -> istrue (Floats.PrimFloat.is_finite P) ->
  istrue (0 <? P)%float -> istrue (Floats.PrimFloat.is_finite (P + P)) ->
  istrue (Floats.PrimFloat.is_finite (c - dbl_max)) -> istrue (Floats.PrimFloat.is_finite (c - (- dbl_max))) ->
  istrue (Floats.PrimFloat.is_finite (- dbl_max + h)) -> istrue (Floats.PrimFloat.is_finite (dbl_max + h)) ->
  istrue (Floats.PrimFloat.is_finite (next_down P)) -> istrue (Floats.PrimFloat.is_finite (0 - h)) ->
  istrue (Floats.PrimFloat.is_finite (next_down P - h)) ->
  istrue (0 <=? h)%float -> istrue (h <=? P)%float ->
  fin x ->
  let r := (Heading_fmod (Heading_fmod (c - x + h) P + P) P - h)%float in
  exists n : Z, Rabs (FR r - (FR c - FR x) - IZR n * FR P) <=
     / 2 * u (FR c - FR x) + / 2 * u (FR (c - x)%float + FR h) + / 2 * u (FR P + FR P) + / 2 * u (FR P).
Proof.
  intros c h P x Fc Fh FP HP FPP S1 S2 S3 S4 FN T1 T2 C1 C2 Fx r. unfold istrue in *.
  assert (HP' : 0 < FR P) by (rewrite <- FR_zero; apply ltb_R; auto using fin_zero).
  assert (Hh0 : 0 <= FR h) by (rewrite <- FR_zero; apply leb_R; auto using fin_zero).
  assert (HhP : FR h <= FR P) by (apply leb_R; auto).
  assert (FM : fin dbl_max) by reflexivity. assert (FM' : fin (- dbl_max)%float) by reflexivity.
  assert (Fa : fin (c - x)%float).
  { destruct (fin_le_max x Fx).
    destruct (sub_sandwich c c c (- dbl_max)%float x dbl_max) as [F _]; auto; lra. }
  assert (Fb : fin (c - x + h)%float).
  { destruct (fin_le_max _ Fa).
    destruct (add_sandwich (- dbl_max)%float (c - x)%float dbl_max h h h) as [F _]; auto; lra. }
  destruct (sub_fin_inv c x Fc Fx Fa) as [Ea _].
  destruct (add_fin_inv _ h Fa Fh Fb) as [Eb _].
  destruct (wrap_range P (c - x + h)%float FP HP' FPP Fb) as [Ft [L U]].
  destruct (wrap_close P (c - x + h)%float FP HP' FPP Fb) as [n Hn].
  set (t := Heading_fmod (Heading_fmod (c - x + h) P + P) P) in *.
  pose proof (lt_le_next_down t P Ft FP FN U) as U'.
  destruct (sub_sandwich 0%float t (next_down P) h h h) as [Fr _]; auto using fin_zero; try lra.
  fold r in Fr.
  destruct (sub_fin_inv t h Ft Fh Fr) as [Er _]. fold r in Er.
  exists n.
  pose proof (rnd_err (FR c - FR x)) as H1. rewrite <- Ea in H1.
  pose proof (rnd_err (FR (c - x)%float + FR h)) as H2. rewrite <- Eb in H2.
  pose proof (rnd_err (FR t - FR h)) as H4. rewrite <- Er in H4.
  assert (H4' : u (FR t - FR h) <= u (FR P)).
  { apply u_le. rewrite (Rabs_pos_eq (FR P)) by lra. apply Rabs_le. lra. }
  replace (FR r - (FR c - FR x) - IZR n * FR P)
     with ((FR r - (FR t - FR h)) + (FR t - FR (c - x + h)%float - IZR n * FR P)
           + (FR (c - x + h)%float - (FR (c - x)%float + FR h)) + (FR (c - x)%float - (FR c - FR x))) by ring.
  eapply Rle_trans. apply Rabs_triang. eapply Rle_trans. apply Rplus_le_compat_r. apply Rabs_triang.
  eapply Rle_trans. apply Rplus_le_compat_r. apply Rplus_le_compat_r. apply Rabs_triang.
  lra.
Qed.

(* ---------------------------------------------------------------- *)
Local Open Scope float_scope.
Lemma heading_range_deg_f : forall x, PrimFloat.is_finite x = true ->
  PrimFloat.is_finite (Heading_y2h_deg x) = true /\ (0 <=? Heading_y2h_deg x) = true /\ (Heading_y2h_deg x <? 360) = true.
Proof. intros x Fx. apply (y2h_range_gen 90 360 x); try exact Fx; vm_compute; reflexivity. Qed.
Lemma heading_range_rad_f : forall x, PrimFloat.is_finite x = true ->
  PrimFloat.is_finite (Heading_y2h_rad x) = true /\ (0 <=? Heading_y2h_rad x) = true /\ (Heading_y2h_rad x <? 2 * Heading_pi) = true.
Proof. intros x Fx. apply (y2h_range_gen (Heading_pi / 2) (2 * Heading_pi) x); try exact Fx; vm_compute; reflexivity. Qed.
Lemma yaw_range_deg_f : forall x, PrimFloat.is_finite x = true ->
  PrimFloat.is_finite (Heading_h2y_deg x) = true /\ (-180 <=? Heading_h2y_deg x) = true /\ (Heading_h2y_deg x <? 180) = true.
Proof. intros x Fx. apply (h2y_range_gen 90 180 360 x); try exact Fx; vm_compute; reflexivity. Qed.
Lemma yaw_range_rad_f : forall x, PrimFloat.is_finite x = true ->
  PrimFloat.is_finite (Heading_h2y_rad x) = true /\ (- Heading_pi <=? Heading_h2y_rad x) = true /\ (Heading_h2y_rad x <? Heading_pi) = true.
Proof. intros x Fx. apply (h2y_range_gen (Heading_pi / 2) Heading_pi (2 * Heading_pi) x); try exact Fx; vm_compute; reflexivity. Qed.

(* ---------------------------------------------------------------- *)
Open Scope R_scope.

Lemma u_of_bounds : forall x e, bpow radix2 (e - 1) <= Rabs x < bpow radix2 e -> (-1021 <= e)%Z -> u x = bpow radix2 (e - 53).
Proof.
  intros x e B He.
  assert (x <> 0). { intro Z. rewrite Z, Rabs_R0 in B. pose proof (bpow_gt_0 radix2 (e - 1)). lra. }
  rewrite ulp_neq_0 by assumption. unfold cexp. rewrite (mag_unique radix2 x e B).
  unfold fexp, emin. change prec with 53%Z. change emax with 1024%Z. f_equal. lia.
Qed.

Lemma FR_90 : FR 90%float = 90.
Proof.
  destruct (FR_SF_finite 90%float false 6333186975989760 (-46) eq_refl) as [_ E]. rewrite E. unfold dyad. simpl cond_Zopp.
  change (bpow radix2 (-46)) with (/ IZR (2 ^ 46)). change (2 ^ 46)%Z with 70368744177664%Z. lra.
Qed.
Lemma FR_180 : FR 180%float = 180.
Proof.
  destruct (FR_SF_finite 180%float false 6333186975989760 (-45) eq_refl) as [_ E]. rewrite E. unfold dyad. simpl cond_Zopp.
  change (bpow radix2 (-45)) with (/ IZR (2 ^ 45)). change (2 ^ 45)%Z with 35184372088832%Z. lra.
Qed.
Lemma FR_360 : FR 360%float = 360.
Proof.
  destruct (FR_SF_finite 360%float false 6333186975989760 (-44) eq_refl) as [_ E]. rewrite E. unfold dyad. simpl cond_Zopp.
  change (bpow radix2 (-44)) with (/ IZR (2 ^ 44)). change (2 ^ 44)%Z with 17592186044416%Z. lra.
Qed.
Lemma u_720 : u (360 + 360) = bpow radix2 (-43).
Proof.
  apply (u_of_bounds _ 10); [|lia]. rewrite Rabs_pos_eq by lra.
  change (bpow radix2 (10 - 1)) with (IZR (2 ^ 9)). change (bpow radix2 10) with (IZR (2 ^ 10)).
  change (2 ^ 9)%Z with 512%Z. change (2 ^ 10)%Z with 1024%Z. lra.
Qed.
Lemma u_360 : u 360 = bpow radix2 (-44).
Proof.
  apply (u_of_bounds _ 9); [|lia]. rewrite Rabs_pos_eq by lra.
  change (bpow radix2 (9 - 1)) with (IZR (2 ^ 8)). change (bpow radix2 9) with (IZR (2 ^ 9)).
  change (2 ^ 8)%Z with 256%Z. change (2 ^ 9)%Z with 512%Z. lra.
Qed.
Lemma half_bpow : forall e, / 2 * bpow radix2 e = bpow radix2 (e - 1).
Proof. intro e. replace (e - 1)%Z with (e + (-1))%Z by lia. rewrite bpow_plus. change (bpow radix2 (-1)) with (/ 2). ring. Qed.

Local Open Scope float_scope.
(* heading is congruent to 90 - yaw modulo 360, up to the rounding of the subtraction 90.0 - yaw and of the addition + 360.0 *)
Lemma heading_close_deg_f : forall x, PrimFloat.is_finite x = true ->
  exists n : Z, (Rabs (FR (Heading_y2h_deg x) - (90 - FR x) - 360 * IZR n) <= / 2 * u (90 - FR x) + bpow radix2 (-44))%R.
Proof.
  intros x Fx.
  destruct (y2h_close_gen 90 360 x eq_refl eq_refl eq_refl eq_refl eq_refl eq_refl Fx) as [n H].
  exists n. rewrite FR_90, FR_360, u_720, half_bpow in H. simpl Z.sub in H.
  unfold Heading_y2h_deg, Heading_c90, Heading_c360. rewrite (Rmult_comm 360). exact H.
Qed.
Lemma yaw_close_deg_f : forall x, PrimFloat.is_finite x = true ->
  exists n : Z, (Rabs (FR (Heading_h2y_deg x) - (90 - FR x) - 360 * IZR n) <=
     / 2 * u (90 - FR x) + / 2 * u (FR (90 - x) + 180) + bpow radix2 (-44) + bpow radix2 (-45))%R.
Proof.
  intros x Fx.
  destruct (h2y_close_gen 90 180 360 x eq_refl eq_refl eq_refl eq_refl eq_refl eq_refl eq_refl eq_refl eq_refl eq_refl eq_refl eq_refl eq_refl eq_refl Fx) as [n H].
  exists n. rewrite FR_90, FR_180, FR_360, u_720, u_360, !half_bpow in H. simpl Z.sub in H.
  unfold Heading_h2y_deg, Heading_c90, Heading_c360, Heading_c180. rewrite (Rmult_comm 360). exact H.
Qed.
(* radians: the same with the binary64 constants the source uses (math.pi / 2.0, math.pi, 2.0 * math.pi) *)
Lemma heading_close_rad_f : forall x, PrimFloat.is_finite x = true ->
  exists n : Z, (Rabs (FR (Heading_y2h_rad x) - (FR (Heading_pi / 2) - FR x) - IZR n * FR (2 * Heading_pi)) <=
     / 2 * u (FR (Heading_pi / 2) - FR x) + / 2 * u (FR (2 * Heading_pi) + FR (2 * Heading_pi)))%R.
Proof.
  intros x Fx. apply (y2h_close_gen (Heading_pi / 2) (2 * Heading_pi) x); try exact Fx; vm_compute; reflexivity.
Qed.
Lemma yaw_close_rad_f : forall x, PrimFloat.is_finite x = true ->
  exists n : Z, (Rabs (FR (Heading_h2y_rad x) - (FR (Heading_pi / 2) - FR x) - IZR n * FR (2 * Heading_pi)) <=
     / 2 * u (FR (Heading_pi / 2) - FR x) + / 2 * u (FR (Heading_pi / 2 - x) + FR Heading_pi)
     + / 2 * u (FR (2 * Heading_pi) + FR (2 * Heading_pi)) + / 2 * u (FR (2 * Heading_pi)))%R.
Proof.
  intros x Fx. apply (h2y_close_gen (Heading_pi / 2) Heading_pi (2 * Heading_pi) x); try exact Fx; vm_compute; reflexivity.
Qed.

(* ---------------------------------------------------------------- *)
(* The code before the repair: heading of yaw 0 (east) is 270 instead of 90; yaw 300 gives -30 (outside
   [0,360) and not congruent to 150); heading 300 gives yaw -210 (outside [-180,180)). *)
Lemma legacy_values :
  Heading_show (Heading_y2h_deg_legacy 0) = Heading_show 270 /\
  Heading_show (Heading_y2h_deg_legacy 300) = Heading_show (-30) /\
  Heading_show (Heading_h2y_deg_legacy 300) = Heading_show (-210).
Proof. vm_compute. repeat split. Qed.
Lemma legacy_out_of_range :
  (0 <=? Heading_y2h_deg_legacy 300) = false /\ (-180 <=? Heading_h2y_deg_legacy 300) = false.
Proof. vm_compute. split; reflexivity. Qed.

Lemma repaired_values :
  Heading_show (Heading_y2h_deg 0) = Heading_show 90 /\
  Heading_show (Heading_y2h_deg 300) = Heading_show 150 /\
  Heading_show (Heading_h2y_deg 300) = Heading_show 150 /\
  (* the corner case: 90 - nextafter(90, +inf) is a tiny negative number; tiny + 360.0 rounds to 360.0 *)
  Heading_show (Heading_fmod (90 - 0x1.6800000000001p+6) 360 + 360) = Heading_show 360 /\
  Heading_show (Heading_y2h_deg 0x1.6800000000001p+6) = Heading_show 0.
Proof. vm_compute. repeat split. Qed.
