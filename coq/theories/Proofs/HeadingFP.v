(* C19 — facts about the binary64 model that are established by evaluation of the model inside the kernel. *)
From Coq Require Import ZArith PrimFloat Uint63 FloatOps SpecFloat.
From FEC Require Import Generated.HeadingConsts Models.HeadingF.
Open Scope float_scope.

(* The code before the repair: heading of yaw 0 (east) is 270 instead of 90; yaw 300 gives -30 (outside
   [0,360) and not congruent to 150); heading 300 gives yaw -210 (outside [-180,180)). *)
Lemma legacy_values :
  Heading_show (Heading_y2h_deg_legacy 0) = Heading_show 270 /\
  Heading_show (Heading_y2h_deg_legacy 300) = Heading_show (-30) /\
  Heading_show (Heading_h2y_deg_legacy 300) = Heading_show (-210).
Proof. vm_compute. repeat split. Qed.

Lemma repaired_values :
  Heading_show (Heading_y2h_deg 0) = Heading_show 90 /\
  Heading_show (Heading_y2h_deg 300) = Heading_show 150 /\
  Heading_show (Heading_h2y_deg 300) = Heading_show 150.
Proof. vm_compute. repeat split. Qed.
