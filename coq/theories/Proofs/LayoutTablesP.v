(* C02 — the regenerated tables: no mismatching row, every struct follows the README's packing rule (by computation). *)
From Coq Require Import Arith List String Bool.
From FEC Require Import Models.PackingM Models.LayoutM Models.LayoutValuesM Models.LayoutTables Proofs.PackingP Proofs.LayoutP
     Generated.LayoutCpp Generated.LayoutPyProbe Generated.LayoutExc Generated.LayoutValues.
Import ListNotations.

Lemma layouts_agree_b : paths_agree cpp_layouts layout_exceptions cpp_layouts py_layouts py_layout_paths = true.
Proof. vm_cast_no_check (eq_refl true). Qed.    (* evaluated once, by the kernel's VM at Qed *)

Lemma layouts_agree_forall : forall path tbl, In (path, tbl) py_layout_paths ->
  layouts_agree_spec cpp_layouts layout_exceptions cpp_layouts tbl /\
  List.length py_layouts = List.length tbl /\
  forall p q, In (p, q) (combine py_layouts tbl) -> same_fixed p q = true.
Proof. exact (paths_agree_sound _ _ _ _ _ layouts_agree_b). Qed.

(* the reference table (explicit message version) is one of the paths, and there are the three ways of reading *)
Lemma reference_is_a_path : exists path, In (path, py_layouts) py_layout_paths.
Proof. eexists. left. reflexivity. Qed.
Lemma three_paths : List.length py_layout_paths = 3.
Proof. reflexivity. Qed.

Lemma readme_b : forallb follows_readme cpp_layouts = true.
Proof. vm_compute. reflexivity. Qed.

Lemma readme_forall : forall s, In s cpp_layouts ->
  dumped s = layout_packed (map m_type (s_members s)) /\
  s_size s = round_up4 (total_size (map m_type (s_members s))) /\ s_align s = 4.
Proof. intros s H. apply follows_readme_sound. exact (proj1 (forallb_forall _ _) readme_b s H). Qed.

Lemma floats_b : forallb floats_aligned4 cpp_layouts = true.
Proof. vm_compute. reflexivity. Qed.

Lemma floats_forall : forall s m, In s cpp_layouts -> In m (s_members s) -> needs_align4 m = true ->
  Nat.modulo (m_off m) 4 = 0.
Proof. intros s m Hs Hm Hn. exact (floats_aligned4_sound s (proj1 (forallb_forall _ _) floats_b s Hs) m Hm Hn). Qed.

(* no member is empty, so the generic no-overlap theorem applies to every struct *)
Lemma members_nonempty_b : forallb (fun s => forallb (fun m => Nat.ltb 0 (ct_size (m_type m))) (s_members s)) cpp_layouts = true.
Proof. vm_compute. reflexivity. Qed.

(* every value row: the number written at a C++ member's offset is the number Python shows (times the tabulated scale), and back *)
Lemma values_b : forallb value_ok value_rows = true.
Proof. vm_cast_no_check (eq_refl true). Qed.

Lemma values_agree_forall : forall r, In r value_rows -> value_agrees r.
Proof. exact (values_forall _ values_b). Qed.

Lemma value_rows_nonempty : value_table <> [].
Proof. unfold value_table. discriminate. Qed.
