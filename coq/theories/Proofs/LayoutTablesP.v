(* C02 — the regenerated tables: no mismatching row, every struct follows the README's packing rule (by computation). *)
From Coq Require Import Arith List String Bool.
From FEC Require Import Models.PackingM Models.LayoutM Models.LayoutTables Proofs.PackingP Proofs.LayoutP
     Generated.LayoutCpp Generated.LayoutPyProbe Generated.LayoutExc.
Import ListNotations.

Lemma layouts_agree_b : forallb2 (struct_agree cpp_layouts layout_exceptions) cpp_layouts py_layouts = true.
Proof. vm_compute. reflexivity. Qed.

Lemma layouts_agree_forall : layouts_agree_spec cpp_layouts layout_exceptions cpp_layouts py_layouts.
Proof. apply forallb2_struct_agree_sound. exact layouts_agree_b. Qed.

Lemma readme_b : forallb follows_readme cpp_layouts = true.
Proof. vm_compute. reflexivity. Qed.

Lemma readme_forall : forall s, In s cpp_layouts ->
  dumped s = layout_packed (map m_type (s_members s)) /\
  s_size s = round_up4 (total_size (map m_type (s_members s))) /\ s_align s = 4.
Proof. intros s H. apply follows_readme_sound. exact (proj1 (forallb_forall _ _) readme_b s H). Qed.

Lemma floats_b : forallb floats_aligned4 cpp_layouts = true.
Proof. vm_compute. reflexivity. Qed.

Lemma floats_forall : forall s m, In s cpp_layouts -> In m (s_members s) -> needs_align4 m = true ->
  Nat.modulo (m_off m) 4 = 0.
Proof. intros s m Hs Hm Hn. exact (floats_aligned4_sound s (proj1 (forallb_forall _ _) floats_b s Hs) m Hm Hn). Qed.

(* no member is empty, so the generic no-overlap theorem applies to every struct *)
Lemma members_nonempty_b : forallb (fun s => forallb (fun m => Nat.ltb 0 (ct_size (m_type m))) (s_members s)) cpp_layouts = true.
Proof. vm_compute. reflexivity. Qed.
