(* Generic part of the framer refinement (C07, C14): the shared OnData()/Resync() transcription of
   Models/FramerCoreM.v refines the left-to-right scan of Base/Scan.v, given a per-byte contract for the
   framer's own OnByte() (proved for each framer in RtcmRefineP.v / CppFramerRefineP.v). *)
From Coq Require Import NArith ZArith List Bool Arith Lia ZifyBool ZifyNat ZifyN.
From FEC Require Import Base.ListX Base.Scan Models.FramerCoreM Models.FramerSpecM.
Import ListNotations.
Open Scope N_scope.

(* ---- checked accessors on in-range indices ---- *)
Lemma u32_small x : x < 4294967296 -> u32 x = x.
Proof. intros H. unfold u32. apply N.mod_small. exact H. Qed.

Lemma rd_ok buf i v : nth_error buf i = Some v -> rd buf (N.of_nat i) = Ok v.
Proof. intros H. unfold rd. rewrite Nat2N.id, H. reflexivity. Qed.

Lemma upd_ok : forall buf i v, (i < length buf)%nat ->
  upd buf i v = Some (firstn i buf ++ v :: skipn (S i) buf).
Proof.
  induction buf as [|h t IH]; intros i v Hi; cbn [length] in Hi; [lia|].
  destruct i as [|i]; [reflexivity|]. cbn [upd]. rewrite IH by lia. reflexivity.
Qed.

Lemma wr_ok buf i v : (i < length buf)%nat ->
  wr buf (N.of_nat i) v = Ok (firstn i buf ++ v :: skipn (S i) buf).
Proof. intros H. unfold wr. rewrite Nat2N.id, upd_ok by exact H. reflexivity. Qed.

Lemma rd_range_ok buf a n : (a + n <= length buf)%nat ->
  rd_range buf (N.of_nat a) (N.of_nat n) = Ok (firstn n (skipn a buf)).
Proof.
  intros H. unfold rd_range, blen.
  destruct (N.leb_spec (N.of_nat a + N.of_nat n) (N.of_nat (length buf))) as [_|C]; [|lia].
  rewrite !Nat2N.id. reflexivity.
Qed.

Lemma memmove0_ok buf off n : (off + n <= length buf)%nat ->
  memmove0 buf (N.of_nat off) (N.of_nat n) = Ok (firstn n (skipn off buf) ++ skipn n buf).
Proof.
  intros H. unfold memmove0, blen.
  destruct (N.leb_spec (N.of_nat off + N.of_nat n) (N.of_nat (length buf))) as [_|C]; [|lia].
  rewrite !Nat2N.id. reflexivity.
Qed.

Lemma wr_length (buf : list N) i (v : N) : (i < length buf)%nat ->
  length (firstn i buf ++ v :: skipn (S i) buf) = length buf.
Proof. intros H. rewrite app_length, firstn_length_le by lia. cbn [length]. rewrite skipn_length. lia. Qed.

Lemma memmove_length (buf : list N) off n : (off + n <= length buf)%nat ->
  length (firstn n (skipn off buf) ++ skipn n buf) = length buf.
Proof. intros H. rewrite app_length, firstn_length_le by (rewrite skipn_length; lia). rewrite skipn_length. lia. Qed.

Lemma firstn_skipn_comm' {A} (l : list A) a o : (o <= a)%nat ->
  firstn (a - o) (skipn o l) = skipn o (firstn a l).
Proof.
  intros H. rewrite skipn_firstn_comm. reflexivity.
Qed.

(* ---- generic facts about scan used below ---- *)
Section ScanFacts.
  Variable J : list N -> verdict.
  Hypothesis JOK : JudgeOK J.

  Lemma scan_unfold off l :
    scan J off l =
    match J l with
    | More => ([], (off, l))
    | Reject => scan J (S off) (tl l)
    | Accept n => let '(fs, st) := scan J (off + n) (skipn n l) in ((off, firstn n l) :: fs, st)
    end.
  Proof.
    unfold scan at 1. rewrite (scan_aux_unfold J).
    destruct (J l) as [n| |] eqn:E; [| |reflexivity].
    - pose proof (j_bound _ JOK _ _ E) as Hn.
      rewrite <- (scan_eq_aux J JOK (length l)) by (rewrite skipn_length; lia). reflexivity.
    - assert (l <> []) by (apply (judge_nonnil J JOK); congruence).
      destruct l as [|b t]; [congruence|]. cbn [tl length].
      rewrite <- (scan_eq_aux J JOK (S (length t))) by lia. reflexivity.
  Qed.

  (* frames and residual do not depend on the starting offset *)
  Lemma scan_aux_shift : forall f o1 o2 l,
    map snd (fst (scan_aux J f o1 l)) = map snd (fst (scan_aux J f o2 l)) /\
    snd (snd (scan_aux J f o1 l)) = snd (snd (scan_aux J f o2 l)).
  Proof.
    induction f as [|f IH]; intros o1 o2 l; [split; reflexivity|].
    rewrite !(scan_aux_unfold J). destruct (J l) as [n| |]; [| apply IH | split; reflexivity].
    specialize (IH (o1 + n)%nat (o2 + n)%nat (skipn n l)).
    destruct (scan_aux J f (o1 + n) (skipn n l)) as [fs1 [a1 r1]].
    destruct (scan_aux J f (o2 + n) (skipn n l)) as [fs2 [a2 r2]].
    cbn [fst snd map] in *. destruct IH as [IH1 IH2]. split; [f_equal; exact IH1 | exact IH2].
  Qed.

  Definition frames_of (l : list N) : list (list N) := map snd (fst (scan J 0 l)).
  Definition resid_of (l : list N) : list N := snd (snd (scan J 0 l)).

  Lemma scan_frames_off o l : map snd (fst (scan J o l)) = frames_of l.
  Proof. unfold frames_of, scan. apply scan_aux_shift. Qed.
  Lemma scan_resid_off o l : snd (snd (scan J o l)) = resid_of l.
  Proof. unfold resid_of, scan. apply scan_aux_shift. Qed.

  Lemma frames_more l : J l = More -> frames_of l = [] /\ resid_of l = l.
  Proof. intros H. unfold frames_of, resid_of. rewrite (scan_more J) by exact H. split; reflexivity. Qed.

  Lemma frames_reject l : J l = Reject -> frames_of l = frames_of (tl l) /\ resid_of l = resid_of (tl l).
  Proof.
    intros H. unfold frames_of at 1, resid_of at 1. rewrite scan_unfold, H.
    split; [apply scan_frames_off | apply scan_resid_off].
  Qed.

  Lemma frames_accept l n : J l = Accept n ->
    frames_of l = firstn n l :: frames_of (skipn n l) /\ resid_of l = resid_of (skipn n l).
  Proof.
    intros H. unfold frames_of at 1, resid_of at 1. rewrite scan_unfold, H.
    pose proof (scan_frames_off (0 + n) (skipn n l)) as F. pose proof (scan_resid_off (0 + n) (skipn n l)) as R.
    destruct (scan J (0 + n) (skipn n l)) as [fs [a r]]. cbn [fst snd map] in *. rewrite F, R. split; reflexivity.
  Qed.

  (* scanning l ++ x = scanning l, then the residual ++ x *)
  Lemma frames_app l x :
    frames_of (l ++ x) = frames_of l ++ frames_of (resid_of l ++ x) /\
    resid_of (l ++ x) = resid_of (resid_of l ++ x).
  Proof.
    pose proof (scan_app J JOK 0 l x) as E.
    unfold frames_of, resid_of.
    destruct (scan J 0 l) as [fs [o r]]. cbn [fst snd] in *.
    pose proof (scan_frames_off o (r ++ x)) as F. pose proof (scan_resid_off o (r ++ x)) as R.
    destruct (scan J o (r ++ x)) as [fs2 [o2 r2]]. cbn [fst snd] in *.
    rewrite E. cbn [fst snd]. rewrite map_app. unfold frames_of, resid_of in F, R. split; [f_equal; exact F | exact R].
  Qed.

  Lemma resid_more l : J (resid_of l) = More.
  Proof.
    unfold resid_of. destruct (scan J 0 l) as [fs [o r]] eqn:E. cbn [snd].
    apply (scan_resid J JOK) in E. apply E.
  Qed.

  (* a verdict first reached on r ++ [b] that accepts, accepts everything seen *)
  Lemma accept_full (JL : JudgeLocal J) r b n : J r = More -> J (r ++ [b]) = Accept n -> n = S (length r).
  Proof.
    intros Hm Ha. pose proof (j_bound _ JOK _ _ Ha) as Hn. rewrite app_length in Hn. cbn [length] in Hn.
    destruct (Nat.eq_dec n (S (length r))) as [|Hne]; [assumption|]. exfalso.
    assert (Hle : (n <= length r)%nat) by lia.
    pose proof (JL _ _ Ha) as H1. rewrite firstn_app in H1.
    replace (n - length r)%nat with 0%nat in H1 by lia. cbn [firstn] in H1. rewrite app_nil_r in H1.
    assert (H2 : J (firstn n r ++ skipn n r) = Accept n).
    { rewrite (j_stable _ JOK) by (rewrite H1; discriminate). exact H1. }
    rewrite firstn_skipn in H2. congruence.
  Qed.
End ScanFacts.

(* ---- the Resync() loop with plain fuel, and its relation to the two-level fuel of the model ---- *)
Section Iter.
  Variable St X : Type.
  Variable is_sync : St -> bool.
  Variable sync_byte : N.
  Variable skip_dup : bool.
  Variable on_byte : bool -> core St X -> outcome (core St X * Z * list event).

  Notation body := (resync_body St X is_sync sync_byte skip_dup on_byte).
  Notation inner := (resync_inner St X is_sync sync_byte skip_dup on_byte).
  Notation outer := (resync_outer St X is_sync sync_byte skip_dup on_byte).

  Fixpoint iter (n : nat) (s : lstate St X) : outcome (lstate St X) :=
    match n with
    | O => OutOfFuel
    | S n' => if l_off s <? l_avail s then s' <- body s ; iter n' s' else Ok s
    end.

  Lemma iter_inner : forall fb n s s', iter n s = Ok s' ->
    inner fb s = Ok (s', true) \/
    (exists s1, inner fb s = Ok (s1, false) /\ iter (n - fb) s1 = Ok s' /\ (fb < n)%nat).
  Proof.
    induction fb as [|fb IH]; intros n s s' H.
    - right. exists s. cbn [resync_inner]. rewrite Nat.sub_0_r. repeat split; [exact H|].
      destruct n; [discriminate|lia].
    - destruct n as [|n]; [discriminate|]. cbn [iter] in H. cbn [resync_inner].
      destruct (l_off s <? l_avail s).
      + destruct (body s) as [s2| | |]; cbn [bind] in *; try discriminate.
        destruct (IH _ _ _ H) as [E|(s1 & E1 & E2 & E3)].
        * left. exact E.
        * right. exists s1. cbn [Nat.sub]. repeat split; [exact E1|exact E2|lia].
      + left. congruence.
  Qed.

  Lemma iter_outer : forall fa fb n s s', (0 < fb)%nat -> iter n s = Ok s' -> (n <= fa * fb)%nat ->
    outer fa fb s = Ok s'.
  Proof.
    induction fa as [|fa IH]; intros fb n s s' Hfb H Hn.
    - assert (n = 0)%nat by lia. subst n. discriminate.
    - cbn [resync_outer]. destruct (iter_inner fb _ _ _ H) as [E|(s1 & E1 & E2 & E3)].
      + rewrite E. reflexivity.
      + rewrite E1. cbn [bind]. apply (IH fb (n - fb)%nat); [exact Hfb|exact E2|]. cbn [Nat.mul] in Hn. lia.
  Qed.

  Lemma iter_step n s s1 : (l_off s <? l_avail s) = true -> body s = Ok s1 -> iter (S n) s = iter n s1.
  Proof. intros H1 H2. cbn [iter]. rewrite H1, H2. reflexivity. Qed.

  Lemma iter_exit n s : (l_off s <? l_avail s) = false -> iter (S n) s = Ok s.
  Proof. intros H. cbn [iter]. rewrite H. reflexivity. Qed.
End Iter.

(* iteration bound for Resync(): G m for m unexamined bytes *)
Fixpoint Gb (m : nat) : nat := match m with O => 1 | S k => S k + Gb k end.

Lemma Gb_pos m : (1 <= Gb m)%nat.
Proof. induction m; cbn [Gb]; lia. Qed.

Lemma Gb_mono : forall a b, (a <= b)%nat -> (Gb a <= Gb b)%nat.
Proof.
  intros a b H. induction H; [lia|]. cbn [Gb]. lia.
Qed.

Lemma Gb_sq m : (Gb m <= (m + 1) * (m + 1))%nat.
Proof. induction m; cbn [Gb]; [lia|]. nia. Qed.

Definition total_len (fs : list (list N)) : N := fold_right (fun f a => N.of_nat (length f) + a) 0 fs.
Definition bytes_lt256 (l : list N) : Prop := Forall (fun b => b < 256) l.

Lemma total_len_app a b : total_len (a ++ b) = total_len a + total_len b.
Proof. induction a as [|x a IH]; cbn [app total_len fold_right]; [reflexivity|]. fold (total_len (a ++ b)). fold (total_len a). rewrite IH. lia. Qed.

Section Refine.
  Variable St X : Type.
  Variable sync_st : St.
  Variable is_sync : St -> bool.
  Variable sync_byte : N.
  Variable skip_dup : bool.
  Variable on_byte : bool -> core St X -> outcome (core St X * Z * list event).
  Variable J : list N -> verdict.
  Variable ev_of : list N -> event.
  Variable inv : core St X -> list N -> Prop.
  Variable min_ok : N -> Prop.

  Notation body := (resync_body St X is_sync sync_byte skip_dup on_byte).
  Notation iter := (iter St X is_sync sync_byte skip_dup on_byte).

  Definition wfc (c : core St X) : Prop :=
    c_cap c = blen (c_buf c) /\ c_cap c <= 2147483647 /\ min_ok (c_cap c).

  Lemma wfc_set_buf c b : wfc c -> length b = length (c_buf c) -> wfc (set_buf c b).
  Proof. unfold wfc, blen. cbn. intros (H1 & H2 & H3) E. rewrite E. auto. Qed.
  Lemma wfc_set_next c n : wfc c -> wfc (set_next c n).
  Proof. unfold wfc. cbn. auto. Qed.
  Lemma wfc_same c c' : wfc c -> c_buf c' = c_buf c -> c_cap c' = c_cap c -> wfc c'.
  Proof. unfold wfc. intros (H1 & H2 & H3) E1 E2. rewrite E1, E2. auto. Qed.

  (* ---- one pass through the loop body, case by case ---- *)
  Lemma body_skip c o av tot evs b :
    is_sync (c_state c) = true -> nth_error (c_buf c) o = Some b -> b <> sync_byte ->
    body (mkL c (N.of_nat o) av tot evs) = Ok (mkL c (u32 (N.of_nat o + 1)) av tot evs).
  Proof.
    intros Hs Hb Hne. unfold resync_body. cbn [l_c l_off l_avail l_total l_evs].
    rewrite (rd_ok _ _ _ Hb). cbn [bind]. rewrite Hs.
    destruct (N.eqb_spec b sync_byte) as [E|_]; [contradiction|]. reflexivity.
  Qed.

  Lemma body_dup c o av tot evs :
    is_sync (c_state c) = true -> skip_dup = true -> (N.of_nat o + 1 <? av) = true ->
    nth_error (c_buf c) o = Some sync_byte -> nth_error (c_buf c) (S o) = Some sync_byte ->
    body (mkL c (N.of_nat o) av tot evs) = Ok (mkL c (u32 (N.of_nat o + 1)) av tot evs).
  Proof.
    intros Hs Hd Hlt Hb Hb1. unfold resync_body. cbn [l_c l_off l_avail l_total l_evs].
    rewrite (rd_ok _ _ _ Hb). cbn [bind]. rewrite Hs, N.eqb_refl, Hd, Hlt. cbn [andb].
    replace (N.of_nat o + 1) with (N.of_nat (S o)) by lia.
    rewrite (rd_ok _ _ _ Hb1). cbn [bind]. rewrite N.eqb_refl. reflexivity.
  Qed.

  Definition after_on_byte (c' : core St X) (ms : Z) (e : list event) (offset av tot : N) (evs : list event) : lstate St X :=
    if is_sync (c_state c') then
      mkL (set_next c' 0)
          (u32 ((if (0 <? ms)%Z then u32 (Z.to_N ms - 1) else 0) + 1)) av
          (if (0 <? ms)%Z then u32 (tot + Z.to_N ms) else tot) (evs ++ e)
    else mkL c' (u32 (offset + 1)) av tot (evs ++ e).

  Lemma body_found c o a tot evs c' ms e :
    is_sync (c_state c) = true -> (o + (a - o) <= length (c_buf c))%nat -> (o <= a)%nat -> N.of_nat a < 4294967296 ->
    nth_error (c_buf c) o = Some sync_byte ->
    (skip_dup && (N.of_nat o + 1 <? N.of_nat a) = true -> nth_error (c_buf c) (S o) <> Some sync_byte) ->
    (S o < a -> S o < length (c_buf c))%nat ->
    on_byte true (set_next (set_buf c (firstn (a - o) (skipn o (c_buf c)) ++ skipn (a - o) (c_buf c))) (u32 (0 + 1))) = Ok (c', ms, e) ->
    body (mkL c (N.of_nat o) (N.of_nat a) tot evs) = Ok (after_on_byte c' ms e 0 (N.of_nat (a - o)) tot evs).
  Proof.
    intros Hs Hlen Hoa Ha Hb Hnd Hin Hob. unfold resync_body. cbn [l_c l_off l_avail l_total l_evs].
    rewrite (rd_ok _ _ _ Hb). cbn [bind]. rewrite Hs, N.eqb_refl.
    assert (Hdup : (if skip_dup && (N.of_nat o + 1 <? N.of_nat a)
                    then nb <- rd (c_buf c) (N.of_nat o + 1) ; Ok (N.eqb nb sync_byte)
                    else Ok false) = Ok false).
    { destruct (skip_dup && (N.of_nat o + 1 <? N.of_nat a)) eqn:E; [|reflexivity].
      specialize (Hnd eq_refl). apply andb_true_iff in E as [_ E]. apply N.ltb_lt in E.
      replace (N.of_nat o + 1) with (N.of_nat (S o)) by lia.
      destruct (nth_error (c_buf c) (S o)) as [v|] eqn:Ev.
      - rewrite (rd_ok _ _ _ Ev). cbn [bind]. destruct (N.eqb_spec v sync_byte) as [->|_]; [congruence|reflexivity].
      - apply nth_error_None in Ev. assert (S o < a)%nat by lia. specialize (Hin H). lia. }
    rewrite Hdup. cbn [bind].
    replace (u32 (N.of_nat a - N.of_nat o)) with (N.of_nat (a - o)) by (rewrite u32_small by lia; lia).
    rewrite memmove0_ok by exact Hlen. cbn [bind]. rewrite Hob. cbn [bind]. unfold after_on_byte.
    destruct (is_sync (c_state c')); reflexivity.
  Qed.

  Lemma body_cont c o av tot evs b c' ms e :
    is_sync (c_state c) = false -> nth_error (c_buf c) o = Some b ->
    on_byte true (set_next c (u32 (N.of_nat o + 1))) = Ok (c', ms, e) ->
    body (mkL c (N.of_nat o) av tot evs) = Ok (after_on_byte c' ms e (N.of_nat o) av tot evs).
  Proof.
    intros Hs Hb Hob. unfold resync_body. cbn [l_c l_off l_avail l_total l_evs].
    rewrite (rd_ok _ _ _ Hb). cbn [bind]. rewrite Hs. cbn [bind]. rewrite Hob. cbn [bind]. unfold after_on_byte.
    destruct (is_sync (c_state c')); reflexivity.
  Qed.

  (* ---- the per-byte contract of the framer's OnByte() with respect to the judge ---- *)
  Hypothesis JOK : JudgeOK J.
  Hypothesis JLoc : JudgeLocal J.
  Hypothesis HJ_nonsync : forall b t, b <> sync_byte -> J (b :: t) = Reject.
  Hypothesis HJ_dup : skip_dup = true -> forall t, J (sync_byte :: sync_byte :: t) = Reject.
  Hypothesis H_inv_nil : forall c, wfc c -> is_sync (c_state c) = true -> c_next c = 0 -> inv c [].
  Hypothesis H_inv_facts : forall c r, wfc c -> inv c r ->
    c_next c = N.of_nat (length r) /\ firstn (length r) (c_buf c) = r /\ J r = More /\
    (length r < length (c_buf c))%nat /\ bytes_lt256 r /\ (is_sync (c_state c) = true <-> r = []).
  Hypothesis H_frame : forall c r buf', inv c r -> firstn (length r) buf' = r ->
    length buf' = length (c_buf c) -> inv (set_buf c buf') r.
  Hypothesis H_step : forall q c r b, wfc c -> inv c r -> nth_error (c_buf c) (length r) = Some b -> b < 256 ->
    exists c' ret evs, on_byte q (set_next c (N.of_nat (S (length r)))) = Ok (c', ret, evs) /\
      c_buf c' = c_buf c /\ c_cap c' = c_cap c /\
      match J (r ++ [b]) with
      | More => ret = 0%Z /\ evs = [] /\ inv c' (r ++ [b])
      | Accept n => ret = Z.of_nat n /\ evs = [ev_of (firstn n (c_buf c))] /\ is_sync (c_state c') = true
      | Reject => evs = [] /\
          ((ret < 0)%Z /\ is_sync (c_state c') = true /\ c_next c' = N.of_nat (S (length r))
           \/ ret = 0%Z /\ frames_of J (tl (r ++ [b])) = [] /\ inv c' (resid_of J (tl (r ++ [b]))) /\
              (is_sync (c_state c') = true \/ skip_dup = true /\ r = [sync_byte] /\ b = sync_byte))
      end.

  (* what the loop has achieved when it exits, having had the bytes [l] left to scan *)
  Definition done_rel (s : lstate St X) (l : list N) (sf : lstate St X) : Prop :=
    wfc (l_c sf) /\ inv (l_c sf) (resid_of J l) /\
    c_cap (l_c sf) = c_cap (l_c s) /\ length (c_buf (l_c sf)) = length (c_buf (l_c s)) /\
    l_evs sf = l_evs s ++ map ev_of (frames_of J l) /\
    l_total sf = l_total s + total_len (frames_of J l).

  Definition S_lemma (a : nat) : Prop := forall o c tot evs,
    wfc c -> (1 <= o <= a)%nat -> (a <= length (c_buf c))%nat ->
    is_sync (c_state c) = true -> c_next c = 0 ->
    bytes_lt256 (firstn a (c_buf c)) -> tot + N.of_nat (a - o) < 4294967296 ->
    exists n sf, (n <= Gb (a - o))%nat /\ iter n (mkL c (N.of_nat o) (N.of_nat a) tot evs) = Ok sf /\
      done_rel (mkL c (N.of_nat o) (N.of_nat a) tot evs) (skipn o (firstn a (c_buf c))) sf.

  Definition C_lemma (a : nat) : Prop := forall o c tot evs,
    wfc c -> (1 <= o <= a)%nat -> (a <= length (c_buf c))%nat ->
    inv c (firstn o (c_buf c)) ->
    (skip_dup = true -> nth_error (firstn a (c_buf c)) 1 <> Some sync_byte) ->
    bytes_lt256 (firstn a (c_buf c)) -> tot + N.of_nat a < 4294967296 ->
    exists n sf, (n <= (a - o) + Gb (a - 1))%nat /\ iter n (mkL c (N.of_nat o) (N.of_nat a) tot evs) = Ok sf /\
      done_rel (mkL c (N.of_nat o) (N.of_nat a) tot evs) (firstn a (c_buf c)) sf.

  Lemma done_rel_step s s1 l l1 sf pre :
    c_cap (l_c s1) = c_cap (l_c s) -> length (c_buf (l_c s1)) = length (c_buf (l_c s)) ->
    l_evs s1 = l_evs s ++ map ev_of pre -> l_total s1 = l_total s + total_len pre ->
    frames_of J l = pre ++ frames_of J l1 -> resid_of J l = resid_of J l1 ->
    done_rel s1 l1 sf -> done_rel s l sf.
  Proof.
    intros E1 E2 E3 E4 E5 E6 (H1 & H2 & H3 & H4 & H5 & H6). unfold done_rel.
    rewrite E6, E5, map_app, total_len_app, <- E1, <- E2.
    split; [exact H1|]. split; [exact H2|]. split; [exact H3|]. split; [exact H4|]. split.
    - rewrite H5, E3, app_assoc. reflexivity.
    - rewrite H6, E4. lia.
  Qed.

  Lemma tl_skipn1 {A} (l : list A) : tl l = skipn 1 l.
  Proof. destruct l; reflexivity. Qed.

  Lemma firstn_S_nth (l : list N) o b : nth_error l o = Some b -> firstn (S o) l = firstn o l ++ [b].
  Proof.
    revert o. induction l as [|h t IH]; intros o H; [destruct o; discriminate|].
    destruct o as [|o]; cbn [nth_error] in H.
    - injection H as ->. reflexivity.
    - change (firstn (S (S o)) (h :: t)) with (h :: firstn (S o) t). rewrite (IH _ H). reflexivity.
  Qed.

  Lemma nth_error_firstn_lt (l : list N) a o : (o < a)%nat -> nth_error (firstn a l) o = nth_error l o.
  Proof. apply nth_error_firstn. Qed.

  Lemma C_from_S a : S_lemma a -> C_lemma a.
  Proof.
    intros HS o. remember (a - o)%nat as k eqn:Hk. revert o Hk.
    induction k as [|k IH]; intros o Hk c tot evs Hwf Hoa Hal Hinv Hnd Hbytes Htot.
    - (* offset = available_bytes: the loop exits; the candidate is still undecided *)
      assert (o = a) by lia. subst o.
      exists 1%nat, (mkL c (N.of_nat a) (N.of_nat a) tot evs). split; [pose proof (Gb_pos (a - 1)); lia|].
      split; [apply iter_exit; cbn [l_off l_avail]; lia|].
      destruct (H_inv_facts _ _ Hwf Hinv) as (_ & _ & HM & _).
      destruct (frames_more J _ HM) as [F R].
      unfold done_rel. cbn [l_c l_evs l_total]. rewrite F, R. cbn [map total_len fold_right].
      rewrite app_nil_r, N.add_0_r. split; [exact Hwf|]. split; [exact Hinv|]. repeat split.
    - assert (Hlt : (o < a)%nat) by lia.
      set (buf := c_buf c) in *.
      assert (Hro : length (firstn o buf) = o) by (apply firstn_length_le; lia).
      destruct (nth_error buf o) as [b|] eqn:Hb; [|apply nth_error_None in Hb; lia].
      destruct (H_inv_facts _ _ Hwf Hinv) as (Hnext & _ & HM & _ & _ & Hsync).
      assert (Hns : is_sync (c_state c) = false).
      { destruct (is_sync (c_state c)) eqn:E; [|reflexivity]. apply proj1 in Hsync. specialize (Hsync eq_refl). rename Hsync into E0. clear E. rename E0 into E.
        apply (f_equal (@length N)) in E. rewrite Hro in E. cbn in E. lia. }
      assert (Hb256 : b < 256).
      { unfold bytes_lt256 in Hbytes. rewrite Forall_forall in Hbytes. apply Hbytes.
        apply nth_error_In with (n := o). rewrite nth_error_firstn_lt by lia. exact Hb. }
      assert (Hbo : nth_error (c_buf c) (length (firstn o buf)) = Some b) by (rewrite Hro; exact Hb).
      destruct (H_step true _ _ _ Hwf Hinv Hbo Hb256) as (c' & ret & e & Hob & Hbuf' & Hcap' & Hcase).
      rewrite Hro in Hob.
      assert (Hu : u32 (N.of_nat o + 1) = N.of_nat (S o)).
      { rewrite u32_small; [lia|]. destruct Hwf as (W1 & W2 & _). unfold blen in W1. lia. }
      assert (Hbody : body (mkL c (N.of_nat o) (N.of_nat a) tot evs) = Ok (after_on_byte c' ret e (N.of_nat o) (N.of_nat a) tot evs)).
      { apply body_cont with (b := b); [exact Hns|exact Hb|]. rewrite Hu. exact Hob. }
      assert (Hwf' : wfc c') by (eapply wfc_same; eassumption).
      assert (HrS : firstn o buf ++ [b] = firstn (S o) buf) by (symmetry; apply firstn_S_nth; exact Hb).
      rewrite HrS in Hcase.
      set (l := firstn a buf) in *.
      assert (HlS : firstn (S o) buf = firstn (S o) l) by (unfold l; rewrite firstn_firstn; f_equal; lia).
      assert (Hsplit : l = firstn (S o) buf ++ skipn (S o) l) by (rewrite HlS; symmetry; apply firstn_skipn).
      assert (Hlt0 : (N.of_nat o <? N.of_nat a) = true) by (apply N.ltb_lt; lia).
      destruct (J (firstn (S o) buf)) as [n| |] eqn:HJ.
      + (* the candidate completes here *)
        destruct Hcase as (Hret & He & Hsy).
        assert (Hn : n = S o).
        { rewrite <- HrS in HJ. pose proof (accept_full J JOK JLoc _ _ _ HM HJ) as E. rewrite Hro in E. exact E. }
        subst n.
        assert (HJl : J l = Accept (S o)).
        { rewrite Hsplit. rewrite (j_stable _ JOK) by (rewrite HJ; discriminate). exact HJ. }
        destruct (frames_accept J JOK _ _ HJl) as [F R].
        assert (Htz : (0 <? ret)%Z = true) by (apply Z.ltb_lt; lia).
        assert (Haft : after_on_byte c' ret e (N.of_nat o) (N.of_nat a) tot evs =
                       mkL (set_next c' 0) (N.of_nat (S o)) (N.of_nat a) (tot + N.of_nat (S o)) (evs ++ e)).
        { unfold after_on_byte. rewrite Hsy, Htz. subst ret. replace (Z.to_N (Z.of_nat (S o))) with (N.of_nat (S o)) by lia.
          destruct Hwf as (W1 & W2 & _). unfold blen in W1.
          rewrite (u32_small (N.of_nat (S o) - 1)) by lia. rewrite (u32_small (N.of_nat (S o) - 1 + 1)) by lia.
          rewrite (u32_small (tot + N.of_nat (S o))) by lia. f_equal; lia. }
        rewrite Haft in Hbody.
        destruct (HS (S o) (set_next c' 0) (tot + N.of_nat (S o)) (evs ++ e)) as (n1 & sf & Hn1 & Hit & Hdone).
        * apply wfc_set_next. exact Hwf'.
        * lia.
        * cbn. rewrite Hbuf'. exact Hal.
        * exact Hsy.
        * reflexivity.
        * cbn. rewrite Hbuf'. exact Hbytes.
        * lia.
        * exists (S n1), sf. split; [pose proof (Gb_mono (a - S o) (a - 1)); lia|].
          split; [rewrite (iter_step _ _ _ _ _ _ n1 (mkL c (N.of_nat o) (N.of_nat a) tot evs) _ Hlt0 Hbody); exact Hit|].
          cbn [c_buf set_next] in Hdone. rewrite Hbuf' in Hdone. fold buf in Hdone. fold l in Hdone.
          eapply (done_rel_step _ _ _ _ _ [firstn (S o) l]); [| | | | exact F | exact R | exact Hdone];
            cbn [l_c l_evs l_total set_next c_cap c_buf map total_len fold_right].
          -- exact Hcap'.
          -- rewrite Hbuf'. reflexivity.
          -- rewrite He. fold buf. rewrite HlS. reflexivity.
          -- rewrite firstn_length_le by (unfold l; rewrite firstn_length_le; lia). lia.
      + (* rejected: restart the search at offset 1 *)
        destruct Hcase as (He & Hcase).
        assert (HJl : J l = Reject).
        { rewrite Hsplit. rewrite (j_stable _ JOK) by (rewrite HJ; discriminate). exact HJ. }
        destruct (frames_reject J JOK _ HJl) as [F R]. rewrite tl_skipn1 in F, R.
        assert (Hsy : is_sync (c_state c') = true /\ (ret <= 0)%Z).
        { destruct Hcase as [(H1 & H2 & _)|(H1 & _ & _ & [H2|(H2 & H3 & H4)])]; [split; [assumption|lia]|split; [assumption|lia]|].
          exfalso. apply (Hnd H2). fold buf. fold l.
          assert (o = 1)%nat by (apply (f_equal (@length N)) in H3; rewrite Hro in H3; exact H3). subst o.
          unfold l. rewrite nth_error_firstn_lt by lia. rewrite Hb, H4. reflexivity. }
        destruct Hsy as [Hsy Hle].
        assert (Htz : (0 <? ret)%Z = false) by (apply Z.ltb_ge; lia).
        assert (Haft : after_on_byte c' ret e (N.of_nat o) (N.of_nat a) tot evs =
                       mkL (set_next c' 0) (N.of_nat 1) (N.of_nat a) tot evs).
        { unfold after_on_byte. rewrite Hsy, Htz, He, app_nil_r. reflexivity. }
        rewrite Haft in Hbody.
        destruct (HS 1%nat (set_next c' 0) tot evs) as (n1 & sf & Hn1 & Hit & Hdone).
        * apply wfc_set_next. exact Hwf'.
        * lia.
        * cbn. rewrite Hbuf'. exact Hal.
        * exact Hsy.
        * reflexivity.
        * cbn. rewrite Hbuf'. exact Hbytes.
        * lia.
        * exists (S n1), sf. split; [lia|].
          split; [rewrite (iter_step _ _ _ _ _ _ n1 (mkL c (N.of_nat o) (N.of_nat a) tot evs) _ Hlt0 Hbody); exact Hit|].
          cbn [c_buf set_next] in Hdone. rewrite Hbuf' in Hdone. fold buf in Hdone. fold l in Hdone.
          eapply (done_rel_step _ _ _ _ _ []); [| | | | exact F | exact R | exact Hdone];
            cbn [l_c l_evs l_total set_next c_cap c_buf map total_len fold_right].
          -- exact Hcap'.
          -- rewrite Hbuf'. reflexivity.
          -- rewrite app_nil_r. reflexivity.
          -- lia.
      + (* still undecided: next byte *)
        destruct Hcase as (Hret & He & Hinv').
        assert (Hns' : is_sync (c_state c') = false).
        { destruct (H_inv_facts _ _ Hwf' Hinv') as (_ & _ & _ & _ & _ & Hsync').
          destruct (is_sync (c_state c')) eqn:E; [|reflexivity]. apply proj1 in Hsync'. specialize (Hsync' eq_refl). rename Hsync' into E0. clear E. rename E0 into E.
          apply (f_equal (@length N)) in E. rewrite firstn_length_le in E by lia. cbn in E. lia. }
        assert (Haft : after_on_byte c' ret e (N.of_nat o) (N.of_nat a) tot evs =
                       mkL c' (N.of_nat (S o)) (N.of_nat a) tot evs).
        { unfold after_on_byte. rewrite Hns', He, app_nil_r, Hu. reflexivity. }
        rewrite Haft in Hbody.
        destruct (IH (S o) ltac:(lia) c' tot evs) as (n1 & sf & Hn1 & Hit & Hdone).
        * exact Hwf'.
        * lia.
        * rewrite Hbuf'. exact Hal.
        * rewrite Hbuf'. exact Hinv'.
        * rewrite Hbuf'. exact Hnd.
        * rewrite Hbuf'. exact Hbytes.
        * exact Htot.
        * exists (S n1), sf. split; [lia|].
          split; [rewrite (iter_step _ _ _ _ _ _ n1 (mkL c (N.of_nat o) (N.of_nat a) tot evs) _ Hlt0 Hbody); exact Hit|].
          rewrite Hbuf' in Hdone. fold buf in Hdone. fold l in Hdone.
          eapply (done_rel_step _ _ _ _ _ []); [| | | | reflexivity | reflexivity | exact Hdone];
            cbn [l_c l_evs l_total map total_len fold_right].
          -- exact Hcap'.
          -- rewrite Hbuf'. reflexivity.
          -- rewrite app_nil_r. reflexivity.
          -- lia.
  Qed.

  Lemma skipn_S_nth (l : list N) o b : nth_error l o = Some b -> skipn o l = b :: skipn (S o) l.
  Proof.
    revert o. induction l as [|h t IH]; intros o H; [destruct o; discriminate|].
    destruct o as [|o]; cbn [nth_error] in H.
    - injection H as ->. reflexivity.
    - change (skipn (S o) (h :: t)) with (skipn o t). change (skipn (S (S o)) (h :: t)) with (skipn (S o) t). apply IH. exact H.
  Qed.

  Lemma S_from_below a : (forall a', (a' < a)%nat -> S_lemma a' /\ C_lemma a') -> S_lemma a.
  Proof.
    intros Hlow o. remember (a - o)%nat as m eqn:Hm. revert o Hm.
    induction m as [|m IH]; intros o Hm c tot evs Hwf Hoa Hal Hsy Hnx Hbytes Htot.
    - (* offset = available_bytes: the loop exits with nothing buffered *)
      assert (o = a) by lia. subst o.
      exists 1%nat, (mkL c (N.of_nat a) (N.of_nat a) tot evs). split; [apply Gb_pos|].
      split; [apply iter_exit; cbn [l_off l_avail]; lia|].
      assert (E : skipn a (firstn a (c_buf c)) = []).
      { apply length_zero_iff_nil. rewrite skipn_length, firstn_length_le by lia. lia. }
      rewrite E. destruct (frames_more J [] (j_nil _ JOK)) as [F R].
      unfold done_rel. cbn [l_c l_evs l_total]. rewrite F, R. cbn [map total_len fold_right].
      rewrite app_nil_r, N.add_0_r. split; [exact Hwf|]. split; [apply H_inv_nil; assumption|]. repeat split.
    - assert (Hlt : (o < a)%nat) by lia. rewrite Hm.
      set (buf := c_buf c) in *. set (l := firstn a buf) in *.
      destruct (nth_error buf o) as [b|] eqn:Hb; [|apply nth_error_None in Hb; lia].
      assert (Hlb : nth_error l o = Some b) by (unfold l; rewrite nth_error_firstn_lt by lia; exact Hb).
      assert (Hx : skipn o l = b :: skipn (S o) l) by (apply skipn_S_nth; exact Hlb).
      assert (Hlt0 : (N.of_nat o <? N.of_nat a) = true) by (apply N.ltb_lt; lia).
      assert (Hu : u32 (N.of_nat o + 1) = N.of_nat (S o)).
      { rewrite u32_small; [lia|]. destruct Hwf as (W1 & W2 & _). unfold blen in W1. fold buf in W1. lia. }
      (* both "not a sync byte" and "sync byte directly followed by another" continue the search *)
      assert (Hskip : J (skipn o l) = Reject ->
                body (mkL c (N.of_nat o) (N.of_nat a) tot evs) = Ok (mkL c (N.of_nat (S o)) (N.of_nat a) tot evs) ->
                exists n sf, (n <= Gb (a - o))%nat /\ iter n (mkL c (N.of_nat o) (N.of_nat a) tot evs) = Ok sf /\
                  done_rel (mkL c (N.of_nat o) (N.of_nat a) tot evs) (skipn o l) sf).
      { intros HJ Hbody.
        destruct (IH (S o) ltac:(lia) c tot evs Hwf ltac:(lia) Hal Hsy Hnx Hbytes ltac:(lia)) as (n1 & sf & Hn1 & Hit & Hdone).
        exists (S n1), sf. split; [rewrite <- Hm; cbn [Gb]; lia|].
        split; [rewrite (iter_step _ _ _ _ _ _ n1 (mkL c (N.of_nat o) (N.of_nat a) tot evs) _ Hlt0 Hbody); exact Hit|].
        destruct (frames_reject J JOK _ HJ) as [F R]. rewrite Hx in F, R. cbn [tl] in F, R. rewrite <- Hx in F, R.
        fold buf in Hdone. fold l in Hdone.
        eapply (done_rel_step _ _ _ _ _ []); [| | | | exact F | exact R | exact Hdone];
          cbn [l_c l_evs l_total map total_len fold_right]; try reflexivity.
        - rewrite app_nil_r. reflexivity.
        - lia. }
      destruct (N.eqb_spec b sync_byte) as [Eb|Hne].
      2:{ apply Hskip.
          - rewrite Hx. apply HJ_nonsync. exact Hne.
          - rewrite <- Hu. apply body_skip with (b := b); assumption. }
      subst b.
      (* a sync byte that is not skipped as a duplicate: shift left and start a candidate *)
      assert (Hfound : (skip_dup && (N.of_nat o + 1 <? N.of_nat a) = true -> nth_error buf (S o) <> Some sync_byte) ->
                exists n sf, (n <= Gb (a - o))%nat /\ iter n (mkL c (N.of_nat o) (N.of_nat a) tot evs) = Ok sf /\
                  done_rel (mkL c (N.of_nat o) (N.of_nat a) tot evs) (skipn o l) sf).
      { intros Hnd.
        set (a' := (a - o)%nat). assert (Ha' : (1 <= a' < a)%nat) by (unfold a'; lia).
        set (buf' := firstn a' (skipn o buf) ++ skipn a' buf).
        assert (Hlen' : length buf' = length buf) by (apply memmove_length; unfold a'; lia).
        assert (Hfl : length (firstn a' (skipn o buf)) = a') by (apply firstn_length_le; rewrite skipn_length; unfold a'; lia).
        assert (Hl' : firstn a' buf' = skipn o l).
        { unfold buf'. rewrite <- Hfl at 1. rewrite firstn_app_exact. unfold a', l. apply firstn_skipn_comm'. lia. }
        assert (Hb0 : nth_error buf' 0 = Some sync_byte).
        { rewrite <- (nth_error_firstn_lt buf' a' 0) by lia. rewrite Hl', Hx. reflexivity. }
        assert (Hwf1 : wfc (set_buf c buf')) by (apply wfc_set_buf; assumption).
        assert (Hinv1 : inv (set_buf c buf') []) by (apply H_inv_nil; assumption).
        assert (Hs256 : sync_byte < 256).
        { unfold bytes_lt256 in Hbytes. rewrite Forall_forall in Hbytes. apply Hbytes. eapply nth_error_In. exact Hlb. }
        destruct (H_step true _ _ _ Hwf1 Hinv1 Hb0 Hs256) as (c' & ret & e & Hob & Hbuf' & Hcap' & Hcase).
        cbn [length app c_buf set_buf] in Hob, Hbuf', Hcap', Hcase.
        assert (Hbody : body (mkL c (N.of_nat o) (N.of_nat a) tot evs) = Ok (after_on_byte c' ret e 0 (N.of_nat a') tot evs)).
        { apply body_found; try assumption; try lia.
          - fold buf. lia.
          - destruct Hwf as (W1 & W2 & _). unfold blen in W1. fold buf in W1. lia.
          - fold buf. lia. }
        assert (Hwf' : wfc c') by (eapply wfc_same; [exact Hwf1|exact Hbuf'|exact Hcap']).
        assert (Hf1 : firstn 1 buf' = [sync_byte]).
        { destruct buf' as [|h t]; [discriminate|]. cbn in Hb0. injection Hb0 as ->. reflexivity. }
        assert (Hsplit : skipn o l = [sync_byte] ++ skipn 1 (skipn o l)).
        { rewrite Hx. reflexivity. }
        assert (Hbytes' : bytes_lt256 (firstn a' (c_buf c'))).
        { rewrite Hbuf', Hl'. apply Forall_skipn. exact Hbytes. }
        assert (Hal' : (a' <= length (c_buf c'))%nat) by (rewrite Hbuf', Hlen'; unfold a'; lia).
        assert (HGb : Gb a' = (a' + Gb (a' - 1))%nat).
        { destruct a' as [|k]; [lia|]. cbn [Gb]. replace (S k - 1)%nat with k by lia. reflexivity. }
        destruct (Hlow a' ltac:(lia)) as [HSa HCa].
        destruct (J [sync_byte]) as [n| |] eqn:HJ.
        - destruct Hcase as (Hret & He & Hsy').
          assert (n = 1%nat) by (apply (accept_full J JOK JLoc [] sync_byte n (j_nil _ JOK) HJ)). subst n.
          assert (HJl : J (skipn o l) = Accept 1).
          { rewrite Hsplit. rewrite (j_stable _ JOK) by (rewrite HJ; discriminate). exact HJ. }
          destruct (frames_accept J JOK _ _ HJl) as [F R].
          assert (Haft : after_on_byte c' ret e 0 (N.of_nat a') tot evs =
                         mkL (set_next c' 0) (N.of_nat 1) (N.of_nat a') (tot + 1) (evs ++ e)).
          { unfold after_on_byte. rewrite Hsy'. subst ret. cbn [Z.ltb Z.compare Z.of_nat Pos.of_succ_nat Z.to_N].
            rewrite (u32_small (tot + 1)) by lia. reflexivity. }
          rewrite Haft in Hbody.
          destruct (HSa 1%nat (set_next c' 0) (tot + 1) (evs ++ e) (wfc_set_next _ 0 Hwf') ltac:(lia) Hal' Hsy' eq_refl Hbytes' ltac:(lia))
            as (n1 & sf & Hn1 & Hit & Hdone).
          + exists (S n1), sf. split; [fold a'; rewrite HGb; lia|].
            split; [rewrite (iter_step _ _ _ _ _ _ n1 (mkL c (N.of_nat o) (N.of_nat a) tot evs) _ Hlt0 Hbody); exact Hit|].
            cbn [c_buf set_next] in Hdone. rewrite Hbuf', Hl' in Hdone.
            eapply (done_rel_step _ _ _ _ _ [firstn 1 (skipn o l)]); [| | | | exact F | exact R | exact Hdone];
              cbn [l_c l_evs l_total set_next c_cap c_buf map total_len fold_right].
            * exact Hcap'.
            * rewrite Hbuf'. exact Hlen'.
            * rewrite He. rewrite <- Hl', firstn_firstn. replace (Nat.min 1 a') with 1%nat by lia. reflexivity.
            * rewrite Hx. cbn. lia.
        - destruct Hcase as (He & Hcase).
          assert (HJl : J (skipn o l) = Reject).
          { rewrite Hsplit. rewrite (j_stable _ JOK) by (rewrite HJ; discriminate). exact HJ. }
          destruct (frames_reject J JOK _ HJl) as [F R]. rewrite tl_skipn1 in F, R.
          assert (Hsy' : is_sync (c_state c') = true /\ (ret <= 0)%Z).
          { destruct Hcase as [(H1 & H2 & _)|(H1 & _ & _ & [H2|(_ & H3 & _)])]; [split; [assumption|lia]|split; [assumption|lia]|discriminate]. }
          destruct Hsy' as [Hsy' Hle].
          assert (Htz : (0 <? ret)%Z = false) by (apply Z.ltb_ge; lia).
          assert (Haft : after_on_byte c' ret e 0 (N.of_nat a') tot evs =
                         mkL (set_next c' 0) (N.of_nat 1) (N.of_nat a') tot evs).
          { unfold after_on_byte. rewrite Hsy', Htz, He, app_nil_r. reflexivity. }
          rewrite Haft in Hbody.
          destruct (HSa 1%nat (set_next c' 0) tot evs (wfc_set_next _ 0 Hwf') ltac:(lia) Hal' Hsy' eq_refl Hbytes' ltac:(lia))
            as (n1 & sf & Hn1 & Hit & Hdone).
          + exists (S n1), sf. split; [fold a'; rewrite HGb; lia|].
            split; [rewrite (iter_step _ _ _ _ _ _ n1 (mkL c (N.of_nat o) (N.of_nat a) tot evs) _ Hlt0 Hbody); exact Hit|].
            cbn [c_buf set_next] in Hdone. rewrite Hbuf', Hl' in Hdone.
            eapply (done_rel_step _ _ _ _ _ []); [| | | | exact F | exact R | exact Hdone];
              cbn [l_c l_evs l_total set_next c_cap c_buf map total_len fold_right].
            * exact Hcap'.
            * rewrite Hbuf'. exact Hlen'.
            * rewrite app_nil_r. reflexivity.
            * lia.
        - destruct Hcase as (Hret & He & Hinv').
          assert (Hns' : is_sync (c_state c') = false).
          { destruct (H_inv_facts _ _ Hwf' Hinv') as (_ & _ & _ & _ & _ & Hsync').
            destruct (is_sync (c_state c')) eqn:E; [|reflexivity]. apply proj1 in Hsync'. specialize (Hsync' eq_refl). discriminate. }
          assert (Haft : after_on_byte c' ret e 0 (N.of_nat a') tot evs = mkL c' (N.of_nat 1) (N.of_nat a') tot evs).
          { unfold after_on_byte. rewrite Hns', He, app_nil_r. reflexivity. }
          rewrite Haft in Hbody.
          assert (Hi1 : inv c' (firstn 1 (c_buf c'))) by (rewrite Hbuf', Hf1; exact Hinv').
          assert (Hnd1 : skip_dup = true -> nth_error (firstn a' (c_buf c')) 1 <> Some sync_byte).
          { intros Hsd. rewrite Hbuf', Hl', nth_error_skipn. unfold l.
            destruct (N.ltb_spec (N.of_nat o + 1) (N.of_nat a)) as [Hlt1|Hge1].
            * rewrite nth_error_firstn_lt by lia. replace (o + 1)%nat with (S o) by lia. apply Hnd. rewrite Hsd. reflexivity.
            * intros C. assert (Hn : nth_error (firstn a buf) (o + 1) <> None) by congruence.
              apply nth_error_Some in Hn. rewrite firstn_length in Hn. lia. }
          destruct (HCa 1%nat c' tot evs Hwf' ltac:(lia) Hal' Hi1 Hnd1 Hbytes' ltac:(unfold a'; lia)) as (n1 & sf & Hn1 & Hit & Hdone).
          + exists (S n1), sf. split; [fold a'; rewrite HGb; lia|].
            split; [rewrite (iter_step _ _ _ _ _ _ n1 (mkL c (N.of_nat o) (N.of_nat a) tot evs) _ Hlt0 Hbody); exact Hit|].
            rewrite Hbuf', Hl' in Hdone.
            eapply (done_rel_step _ _ _ _ _ []); [| | | | reflexivity | reflexivity | exact Hdone];
              cbn [l_c l_evs l_total map total_len fold_right].
            * exact Hcap'.
            * rewrite Hbuf'. exact Hlen'.
            * rewrite app_nil_r. reflexivity.
            * lia. }
      destruct (skip_dup && (N.of_nat o + 1 <? N.of_nat a)) eqn:Hd.
      + apply andb_true_iff in Hd as [Hd1 Hd2]. apply N.ltb_lt in Hd2.
        destruct (nth_error buf (S o)) as [b1|] eqn:Hb1; [|apply nth_error_None in Hb1; lia].
        destruct (N.eqb_spec b1 sync_byte) as [Eb1|Hne1].
        * subst b1. apply Hskip.
          -- rewrite Hx. rewrite (skipn_S_nth l (S o) sync_byte) by (unfold l; rewrite nth_error_firstn_lt by lia; exact Hb1).
             apply HJ_dup. exact Hd1.
          -- rewrite <- Hu. apply body_dup; try assumption. apply N.ltb_lt. lia.
        * apply Hfound. intros _. congruence.
      + apply Hfound. intros C. discriminate.
  Qed.

  Theorem loops : forall a, S_lemma a /\ C_lemma a.
  Proof.
    induction a as [a IH] using lt_wf_ind.
    assert (HS : S_lemma a) by (apply S_from_below; exact IH).
    split; [exact HS | apply C_from_S; exact HS].
  Qed.

  Hypothesis H_sync_st : is_sync sync_st = true.

  Notation resync := (resync St X sync_st is_sync sync_byte skip_dup on_byte).
  Notation on_data_loop := (on_data_loop St X sync_st is_sync sync_byte skip_dup on_byte).

  (* Resync() on a buffered bytes: drops the first and delivers what a scan of the rest delivers *)
  Lemma resync_refines c a :
    wfc c -> (1 <= a <= length (c_buf c))%nat -> c_next c = N.of_nat a -> bytes_lt256 (firstn a (c_buf c)) ->
    let l := skipn 1 (firstn a (c_buf c)) in
    exists c', resync c = Ok (c', total_len (frames_of J l), map ev_of (frames_of J l)) /\
      wfc c' /\ inv c' (resid_of J l) /\ c_cap c' = c_cap c /\ length (c_buf c') = length (c_buf c).
  Proof.
    intros Hwf Ha Hnext Hbytes l.
    destruct (loops a) as [HS _].
    assert (W : c_cap c <= 2147483647 /\ N.of_nat (length (c_buf c)) = c_cap c).
    { destruct Hwf as (W1 & W2 & _). unfold blen in W1. split; [exact W2|lia]. }
    destruct (HS 1%nat (set_next (set_state c sync_st) 0) 0 []) as (n & sf & Hn & Hit & Hdone);
      [exact Hwf|lia|exact (proj2 Ha)|exact H_sync_st|reflexivity|exact Hbytes|lia|].
    cbn [c_buf set_next set_state] in Hdone. fold l in Hdone.
    destruct Hdone as (D1 & D2 & D3 & D4 & D5 & D6). cbn [l_c l_evs l_total app c_cap c_buf set_next set_state] in D3, D4, D5, D6.
    exists (l_c sf). unfold resync. rewrite Hnext.
    rewrite (iter_outer _ _ _ _ _ _ _ _ n _ sf); [| unfold resync_fuel; lia | exact Hit |].
    - cbn [bind]. rewrite D5, D6, N.add_0_l. split; [reflexivity|]. split; [exact D1|]. split; [exact D2|]. split; assumption.
    - unfold resync_fuel. rewrite Nat2N.id. pose proof (Gb_sq (a - 1)). nia.
  Qed.

  Lemma firstn_wr (buf : list N) k b : (k < length buf)%nat ->
    firstn (S k) (firstn k buf ++ b :: skipn (S k) buf) = firstn k buf ++ [b] /\
    firstn k (firstn k buf ++ b :: skipn (S k) buf) = firstn k buf /\
    nth_error (firstn k buf ++ b :: skipn (S k) buf) k = Some b.
  Proof.
    intros H. assert (L : length (firstn k buf) = k) by (apply firstn_length_le; lia).
    split; [|split].
    - rewrite firstn_app, L. replace (S k - k)%nat with 1%nat by lia.
      rewrite (firstn_all2 (firstn k buf)) by lia. reflexivity.
    - rewrite <- L at 1. apply firstn_app_exact.
    - rewrite nth_error_app2 by lia. rewrite L, Nat.sub_diag. reflexivity.
  Qed.

  (* OnData(): the loop over the caller's bytes, started with residual r buffered *)
  Lemma on_data_loop_refines : forall data c r total evs,
    wfc c -> inv c r -> bytes_lt256 data ->
    exists c', on_data_loop c data total evs =
        Ok (c', total + total_len (frames_of J (r ++ data)), evs ++ map ev_of (frames_of J (r ++ data))) /\
      wfc c' /\ inv c' (resid_of J (r ++ data)) /\ c_cap c' = c_cap c /\ length (c_buf c') = length (c_buf c).
  Proof.
    induction data as [|b rest IH]; intros c r total evs Hwf Hinv Hbytes.
    - destruct (H_inv_facts _ _ Hwf Hinv) as (_ & _ & HM & _).
      rewrite app_nil_r. destruct (frames_more J _ HM) as [F R]. rewrite F, R.
      exists c. cbn [on_data_loop map total_len fold_right]. rewrite app_nil_r, N.add_0_r.
      split; [reflexivity|]. split; [exact Hwf|]. split; [exact Hinv|]. split; reflexivity.
    - inversion Hbytes as [|? ? Hb Hrest]; subst.
      destruct (H_inv_facts _ _ Hwf Hinv) as (Hnext & Hfr & HM & Hroom & Hrb & _).
      set (k := length r) in *. set (buf := c_buf c) in *.
      set (buf' := firstn k buf ++ b :: skipn (S k) buf).
      destruct (firstn_wr buf k b Hroom) as (FW1 & FW2 & FW3). fold buf' in FW1, FW2, FW3.
      assert (Hlen' : length buf' = length buf) by (apply wr_length; exact Hroom).
      assert (Hwf0 : wfc (set_buf c buf')) by (apply wfc_set_buf; assumption).
      assert (Hinv0 : inv (set_buf c buf') r) by (apply H_frame; [exact Hinv|fold k; rewrite FW2; exact Hfr|exact Hlen']).
      destruct (H_step false _ _ _ Hwf0 Hinv0 FW3 Hb) as (c' & ret & e & Hob & Hbuf' & Hcap' & Hcase).
      cbn [c_buf set_buf c_cap] in Hbuf', Hcap'. fold k in Hob.
      assert (Hwf' : wfc c') by (eapply wfc_same; [exact Hwf0|exact Hbuf'|exact Hcap']).
      assert (W : c_cap c <= 2147483647 /\ N.of_nat (length buf) = c_cap c).
      { destruct Hwf as (W1 & W2 & _). unfold blen in W1. fold buf in W1. split; [exact W2|lia]. }
      assert (Hu : u32 (c_next c + 1) = N.of_nat (S k)) by (rewrite Hnext, u32_small; lia).
      assert (Hrb1 : firstn (S k) buf' = r ++ [b]) by (rewrite FW1, Hfr; reflexivity).
      assert (Happ : r ++ b :: rest = (r ++ [b]) ++ rest) by (rewrite <- app_assoc; reflexivity).
      cbn [on_data_loop]. rewrite Hnext. fold buf. rewrite (wr_ok buf k b Hroom). fold buf'. cbn [bind].
      rewrite Hnext in Hu. rewrite Hu, Hob. cbn [bind].
      rewrite Happ.
      destruct (J (r ++ [b])) as [n| |] eqn:HJ.
      + destruct Hcase as (Hret & He & Hsy).
        assert (n = S k) by (apply (accept_full J JOK JLoc _ _ _ HM HJ)). subst n.
        assert (HJl : J ((r ++ [b]) ++ rest) = Accept (S k)).
        { rewrite (j_stable _ JOK) by (rewrite HJ; discriminate). exact HJ. }
        destruct (frames_accept J JOK _ _ HJl) as [F R].
        assert (Hlen1 : length (r ++ [b]) = S k) by (rewrite app_length; cbn; unfold k; lia).
        rewrite <- Hlen1 in F, R. rewrite firstn_app_exact in F. rewrite skipn_app_exact in F, R.
        assert (Hz1 : (ret =? 0)%Z = false) by (apply Z.eqb_neq; lia).
        assert (Hz2 : (0 <? ret)%Z = true) by (apply Z.ltb_lt; lia).
        rewrite Hz1, Hz2.
        destruct (IH (set_next c' 0) [] (total + Z.to_N ret) (evs ++ e)) as (c2 & E & Hwf2 & Hinv2 & Hcap2 & Hlen2);
          [apply wfc_set_next; exact Hwf'|apply H_inv_nil; [apply wfc_set_next; exact Hwf'|exact Hsy|reflexivity]|exact Hrest|].
        cbn [app] in E, Hinv2. exists c2. rewrite E, F, R. cbn [map total_len fold_right]. fold (total_len (frames_of J rest)).
        split; [|split; [exact Hwf2|split; [exact Hinv2|split]]].
        * f_equal. f_equal; [f_equal; rewrite Hlen1; lia|].
          rewrite He. rewrite <- app_assoc. cbn [app]. rewrite <- Hrb1. reflexivity.
        * rewrite Hcap2. exact Hcap'.
        * rewrite Hlen2. cbn [c_buf set_next]. rewrite Hbuf'. exact Hlen'.
      + destruct Hcase as (He & Hcase).
        assert (HJl : J ((r ++ [b]) ++ rest) = Reject).
        { rewrite (j_stable _ JOK) by (rewrite HJ; discriminate). exact HJ. }
        destruct (frames_reject J JOK _ HJl) as [F R].
        assert (Htl : tl ((r ++ [b]) ++ rest) = tl (r ++ [b]) ++ rest) by (destruct r; reflexivity).
        rewrite Htl in F, R.
        destruct (frames_app J JOK (tl (r ++ [b])) rest) as [FA RA]. rewrite FA in F. rewrite RA in R.
        destruct Hcase as [(Hneg & Hsy & Hnx')|(Hz & Hnof & Hinv' & _)].
        * (* rejected with data in the buffer: Resync() *)
          assert (Hz1 : (ret =? 0)%Z = false) by (apply Z.eqb_neq; lia).
          assert (Hz2 : (0 <? ret)%Z = false) by (apply Z.ltb_ge; lia).
          assert (Hz3 : (0 <? c_next c') = true) by (apply N.ltb_lt; lia).
          rewrite Hz1, Hz2, Hz3.
          destruct (resync_refines c' (S k)) as (c3 & E3 & Hwf3 & Hinv3 & Hcap3 & Hlen3);
            [exact Hwf'|rewrite Hbuf', Hlen'; lia|exact Hnx'| |].
          { rewrite Hbuf', Hrb1. apply Forall_app. split; [exact Hrb|constructor; [exact Hb|constructor]]. }
          rewrite Hbuf', Hrb1, <- tl_skipn1 in E3, Hinv3.
          rewrite E3. cbn [bind].
          destruct (IH c3 _ (total + total_len (frames_of J (tl (r ++ [b])))) (evs ++ e ++ map ev_of (frames_of J (tl (r ++ [b])))) Hwf3 Hinv3 Hrest)
            as (c4 & E4 & Hwf4 & Hinv4 & Hcap4 & Hlen4).
          exists c4. rewrite E4, F, R, He, map_app, total_len_app. cbn [app].
          split; [|split; [exact Hwf4|split; [exact Hinv4|split]]].
          -- f_equal. f_equal; [f_equal; lia|]. rewrite <- !app_assoc. reflexivity.
          -- rewrite Hcap4, Hcap3. exact Hcap'.
          -- rewrite Hlen4, Hlen3, Hbuf'. exact Hlen'.
        * (* a byte dropped while hunting for the sync pattern *)
          assert (Hz1 : (ret =? 0)%Z = true) by (apply Z.eqb_eq; exact Hz).
          rewrite Hz1.
          destruct (IH c' _ total (evs ++ e) Hwf' Hinv' Hrest) as (c4 & E4 & Hwf4 & Hinv4 & Hcap4 & Hlen4).
          exists c4. rewrite E4, F, R, He, Hnof, app_nil_r. cbn [app].
          split; [reflexivity|split; [exact Hwf4|split; [exact Hinv4|split]]].
          -- rewrite Hcap4. exact Hcap'.
          -- rewrite Hlen4, Hbuf'. exact Hlen'.
      + destruct Hcase as (Hret & He & Hinv').
        assert (Hz1 : (ret =? 0)%Z = true) by (apply Z.eqb_eq; exact Hret).
        rewrite Hz1.
        destruct (IH c' _ total (evs ++ e) Hwf' Hinv' Hrest) as (c4 & E4 & Hwf4 & Hinv4 & Hcap4 & Hlen4).
        exists c4. rewrite E4, He, app_nil_r.
        split; [reflexivity|split; [exact Hwf4|split; [exact Hinv4|split]]].
        * rewrite Hcap4. exact Hcap'.
        * rewrite Hlen4, Hbuf'. exact Hlen'.
  Qed.
End Refine.

(* no verdict ever accepts => no frames *)
Lemma frames_of_no_accept (J : list N -> verdict) : (forall l n, J l <> Accept n) -> forall l, frames_of J l = [].
Proof.
  intros H l. unfold frames_of, scan. generalize (S (length l)) as f. generalize 0%nat as off. revert l.
  intros l off f. revert l off. induction f as [|f IH]; intros l off; [reflexivity|].
  rewrite (scan_aux_unfold J). destruct (J l) as [n| |] eqn:E; [exfalso; exact (H _ _ E)|apply IH|reflexivity].
Qed.

(* ---- counting callbacks: a counter that OnByte() bumps once per callback ---- *)
Section Count.
  Variable St X : Type.
  Variable sync_st : St.
  Variable is_sync : St -> bool.
  Variable sync_byte : N.
  Variable skip_dup : bool.
  Variable on_byte : bool -> core St X -> outcome (core St X * Z * list event).
  Variable cnt : X -> N.
  Hypothesis H_cnt : forall q c c' ret evs, on_byte q c = Ok (c', ret, evs) ->
    u32 (cnt (c_x c')) = u32 (cnt (c_x c) + N.of_nat (length evs)).

  Notation body := (resync_body St X is_sync sync_byte skip_dup on_byte).

  Definition cnt_ok (K : N) (x : X) (evs : list event) : Prop :=
    u32 (cnt x) = u32 (K + N.of_nat (length evs)).

  Lemma u32_add_l a b : u32 (u32 a + b) = u32 (a + b).
  Proof. unfold u32. rewrite N.add_mod_idemp_l by discriminate. reflexivity. Qed.

  Lemma cnt_ok_step K c evs q c' ret e : cnt_ok K (c_x c) evs -> on_byte q c = Ok (c', ret, e) -> cnt_ok K (c_x c') (evs ++ e).
  Proof.
    unfold cnt_ok. intros H E. rewrite (H_cnt _ _ _ _ _ E). rewrite app_length, Nat2N.inj_add.
    rewrite <- u32_add_l, H, u32_add_l, N.add_assoc. reflexivity.
  Qed.

  Lemma body_cnt K s s' : cnt_ok K (c_x (l_c s)) (l_evs s) -> body s = Ok s' -> cnt_ok K (c_x (l_c s')) (l_evs s').
  Proof.
    intros H. unfold resync_body.
    destruct (rd (c_buf (l_c s)) (l_off s)) as [cb| | |]; cbn [bind]; try discriminate.
    destruct (is_sync (c_state (l_c s))).
    - destruct (N.eqb cb sync_byte).
      + destruct (if skip_dup && (l_off s + 1 <? l_avail s) then _ else _) as [d| | |]; cbn [bind]; try discriminate.
        destruct d; [intros E; injection E as <-; exact H|].
        destruct (memmove0 _ _ _) as [b'| | |]; cbn [bind]; try discriminate.
        destruct (on_byte true _) as [[[c' ms] e]| | |] eqn:Eo; cbn [bind]; try discriminate.
        pose proof (fun Hx => cnt_ok_step K _ (l_evs s) _ _ _ _ Hx Eo) as H'. specialize (H' H).
        destruct (is_sync (c_state c')); intros E; injection E as <-; exact H'.
      + intros E; injection E as <-; exact H.
    - cbn [bind]. destruct (on_byte true _) as [[[c' ms] e]| | |] eqn:Eo; cbn [bind]; try discriminate.
      pose proof (fun Hx => cnt_ok_step K _ (l_evs s) _ _ _ _ Hx Eo) as H'. specialize (H' H).
      destruct (is_sync (c_state c')); intros E; injection E as <-; exact H'.
  Qed.

  Lemma inner_cnt K : forall fb s s' fin, cnt_ok K (c_x (l_c s)) (l_evs s) ->
    resync_inner St X is_sync sync_byte skip_dup on_byte fb s = Ok (s', fin) -> cnt_ok K (c_x (l_c s')) (l_evs s').
  Proof.
    induction fb as [|fb IH]; intros s s' fin H; cbn [resync_inner].
    - intros E; injection E as <- <-; exact H.
    - destruct (l_off s <? l_avail s).
      + destruct (body s) as [s1| | |] eqn:Eb; cbn [bind]; try discriminate.
        apply IH. eapply body_cnt; eassumption.
      + intros E; injection E as <- <-; exact H.
  Qed.

  Lemma outer_cnt K : forall fa fb s s', cnt_ok K (c_x (l_c s)) (l_evs s) ->
    resync_outer St X is_sync sync_byte skip_dup on_byte fa fb s = Ok s' -> cnt_ok K (c_x (l_c s')) (l_evs s').
  Proof.
    induction fa as [|fa IH]; intros fb s s' H; cbn [resync_outer]; [discriminate|].
    destruct (resync_inner _ _ _ _ _ _ fb s) as [[s1 fin]| | |] eqn:Ei; cbn [bind]; try discriminate.
    pose proof (inner_cnt K _ _ _ _ H Ei) as H1.
    destruct fin; [intros E; injection E as <-; exact H1|apply IH; exact H1].
  Qed.

  Lemma resync_cnt K c evs c' t e : cnt_ok K (c_x c) evs ->
    resync St X sync_st is_sync sync_byte skip_dup on_byte c = Ok (c', t, e) -> cnt_ok K (c_x c') (evs ++ e).
  Proof.
    unfold resync. intros H E.
    destruct (resync_outer _ _ _ _ _ _ _ _ _) as [s| | |] eqn:Eo; cbn [bind] in E; try discriminate.
    injection E as <- <- <-.
    apply (outer_cnt (K + N.of_nat (length evs))) in Eo.
    - unfold cnt_ok in *. rewrite Eo, app_length, Nat2N.inj_add, N.add_assoc. reflexivity.
    - unfold cnt_ok in *. cbn [l_c l_evs c_x set_next set_state length N.of_nat]. rewrite N.add_0_r. exact H.
  Qed.

  Lemma on_data_loop_cnt K : forall data c total evs c' t e, cnt_ok K (c_x c) evs ->
    on_data_loop St X sync_st is_sync sync_byte skip_dup on_byte c data total evs = Ok (c', t, e) -> cnt_ok K (c_x c') e.
  Proof.
    induction data as [|b rest IH]; intros c total evs c' t e H; cbn [on_data_loop].
    - intros E; injection E as <- <- <-; exact H.
    - destruct (wr _ _ _) as [buf'| | |]; cbn [bind]; try discriminate.
      destruct (on_byte false _) as [[[c1 d] e1]| | |] eqn:Eo; cbn [bind]; try discriminate.
      pose proof (fun Hx => cnt_ok_step K _ evs _ _ _ _ Hx Eo) as H1. specialize (H1 H).
      destruct (d =? 0)%Z; [apply IH; exact H1|].
      destruct (0 <? d)%Z; [apply IH; exact H1|].
      destruct (0 <? c_next c1).
      + destruct (resync _ _ _ _ _ _ _ c1) as [[[c2 t2] e2]| | |] eqn:Er; cbn [bind]; try discriminate.
        apply IH. rewrite app_assoc. eapply resync_cnt; eassumption.
      + apply IH; exact H1.
  Qed.
End Count.

(* ---- reading a buffer known to start with r ++ [b] ---- *)
Lemma buf_split (buf r : list N) b : firstn (length r) buf = r -> nth_error buf (length r) = Some b ->
  buf = r ++ b :: skipn (S (length r)) buf.
Proof.
  intros H1 H2. rewrite <- (firstn_skipn (length r) buf) at 1. rewrite H1. f_equal.
  apply (skipn_S_nth buf (length r) b H2).
Qed.

Lemma rd_app_l (r x : list N) i : (i < length r)%nat -> rd (r ++ x) (N.of_nat i) = Ok (nth i r 0).
Proof.
  intros H. apply rd_ok. rewrite nth_error_app1 by exact H. apply nth_error_nth'. exact H.
Qed.

Lemma rd_app_mid (r : list N) b t : rd (r ++ b :: t) (N.of_nat (length r)) = Ok b.
Proof. apply rd_ok. rewrite nth_error_app2 by lia. rewrite Nat.sub_diag. reflexivity. Qed.

Lemma forall_nth (r : list N) i : bytes_lt256 r -> (i < length r)%nat -> nth i r 0 < 256.
Proof. intros H Hi. unfold bytes_lt256 in H. rewrite Forall_forall in H. apply H. apply nth_In. exact Hi. Qed.


(* data-only histories of the SPEC are chunk feeds *)
Lemma spec_run_data J mc cl cap : forall chunks off r,
  concat (spec_run J mc cl (mkSp (Some cap) off r) (map OpData chunks)) = fst (feed_all (J cap) (off, r) chunks).
Proof.
  induction chunks as [|ch rest IH]; intros off r; [reflexivity|].
  cbn [map spec_run spec_op sp_cap sp_off sp_res feed_all concat].
  destruct (feed (J cap) (off, r) ch) as [fs [o' r']]. cbn [fst snd].
  cbn [concat]. rewrite IH. destruct (feed_all (J cap) (o', r') rest) as [fs2 st2]. reflexivity.
Qed.
