(* C07: FusionEngineFramer::OnByte() (repaired code) meets the per-byte contract of Proofs/FramerCoreP.v
   with respect to the eager FusionEngine judge with reserved = 0 and payload <= capacity - 24; hence
   OnData()/Resync() refine the left-to-right scan; history-level theorems; eager = lazy judge. *)
From Coq Require Import NArith ZArith List Bool Arith Lia ZifyBool ZifyNat ZifyN.
From FEC Require Import Generated.FEConsts Generated.CppFramerConsts Base.ListX Base.Bytes Base.Crc32 Base.Scan Base.FEFormat
  Models.FramerCoreM Models.FramerSpecM Models.CppFramerM Proofs.FramerCoreP.
Import ListNotations.
Open Scope N_scope.

Definition fe_min_ok (cap x : N) : Prop := x = cap /\ 24 <= cap.
Notation fwfc cap := (wfc fstate unit (fe_min_ok cap)).
Notation JF cap := (judge_fe_cap cap).

Definition fe_ev (bytes : list N) : event := (0, bytes).

Definition fe_inv (cap : N) (c : fcore) (r : list N) : Prop :=
  c_next c = N.of_nat (length r) /\ firstn (length r) (c_buf c) = r /\ JF cap r = More /\ bytes_lt256 r /\
  match c_state c with
  | FS_SYNC0 => r = []
  | FS_SYNC1 => r = [CPP_SYNC0]
  | FS_HEADER => (2 <= length r < 24)%nat
  | FS_DATA => (24 <= length r)%nat /\ c_size c = 24 + le (sub r 16 4) /\
               N.of_nat (length r) < c_size c /\ c_size c <= cap
  end.

(* ---- normal forms of the judge ---- *)
Lemma jf_mismatch cap l : sync_mismatch_early l = true -> JF cap l = Reject.
Proof. intros H. unfold judge_fe_cap, judge_fe. rewrite H. reflexivity. Qed.

Lemma jf_short cap l : sync_mismatch_early l = false -> (length l < 24)%nat -> JF cap l = More.
Proof.
  intros H Hl. unfold judge_fe_cap, judge_fe. rewrite H. cbn [andb].
  assert (Nat.ltb (length l) HEADER_SIZE = true) as -> by (apply Nat.ltb_lt; exact Hl). reflexivity.
Qed.

Lemma sme_app l x : (2 <= length l)%nat -> sync_mismatch_early (l ++ x) = sync_mismatch_early l.
Proof. intros H. destruct l as [|b0 [|b1 t]]; cbn [length] in H; try lia. reflexivity. Qed.

Lemma sme_false_head l : sync_mismatch_early l = false -> (2 <= length l)%nat ->
  exists t, l = SYNC0 :: SYNC1 :: t.
Proof.
  intros H Hl. destruct l as [|b0 [|b1 t]]; cbn [length] in Hl; try lia.
  cbn [sync_mismatch_early] in H.
  destruct (N.eqb_spec b0 SYNC0) as [->|]; [|discriminate]. cbn [negb] in H.
  destruct (N.eqb_spec b1 SYNC1) as [->|]; [|discriminate]. exists t. reflexivity.
Qed.

Lemma jf_long cap l : sync_mismatch_early l = false -> (24 <= length l)%nat ->
  JF cap l =
    (let h := parse_header (firstn 24 l) in
     if negb (N.eqb (h_reserved h) 0) then Reject else
     if N.ltb (cap - 24) (h_psize h) then Reject else
     let n := Nat.add 24 (N.to_nat (h_psize h)) in
     if Nat.ltb (length l) n then More else
     if N.eqb (crc32 (crc_region l n)) (h_crc h) then Accept n else Reject).
Proof.
  intros H Hl. unfold judge_fe_cap, judge_fe. rewrite H. cbn [andb].
  assert (Nat.ltb (length l) HEADER_SIZE = false) as -> by (apply Nat.ltb_ge; exact Hl).
  destruct (sme_false_head l H ltac:(lia)) as (t & ->).
  change HEADER_SIZE with 24%nat. change FR_HEADER_SIZE with 24.
  assert (Hs : negb (N.eqb (h_sync0 (parse_header (firstn 24 (SYNC0 :: SYNC1 :: t)))) SYNC0 &&
                     N.eqb (h_sync1 (parse_header (firstn 24 (SYNC0 :: SYNC1 :: t)))) SYNC1) = false).
  { reflexivity. }
  rewrite Hs. reflexivity.
Qed.

Lemma F_nonsync cap b t : b <> CPP_SYNC0 -> JF cap (b :: t) = Reject.
Proof.
  intros H. apply jf_mismatch. cbn [sync_mismatch_early].
  destruct (N.eqb_spec b SYNC0) as [E|_]; [exfalso; apply H; exact E|reflexivity].
Qed.

Lemma F_dup cap : true = true -> forall t, JF cap (CPP_SYNC0 :: CPP_SYNC0 :: t) = Reject.
Proof. intros _ t. apply jf_mismatch. reflexivity. Qed.

Lemma F_inv_nil cap c : fwfc cap c -> f_is_sync (c_state c) = true -> c_next c = 0 -> fe_inv cap c [].
Proof.
  intros _ Hs Hn. unfold fe_inv. cbn [length firstn]. repeat split; try assumption; try constructor.
  destruct (c_state c); [reflexivity|discriminate|discriminate|discriminate].
Qed.

Lemma F_inv_facts cap c r : fwfc cap c -> fe_inv cap c r ->
  c_next c = N.of_nat (length r) /\ firstn (length r) (c_buf c) = r /\ JF cap r = More /\
  (length r < length (c_buf c))%nat /\ bytes_lt256 r /\ (f_is_sync (c_state c) = true <-> r = []).
Proof.
  intros (W1 & W2 & W3 & W4) (H1 & H2 & H3 & H4 & H5). unfold blen in W1.
  repeat split; try assumption.
  - destruct (c_state c); [subst r; cbn; lia|subst r; cbn; lia|lia|lia].
  - destruct (c_state c); cbn; [auto|discriminate|discriminate|discriminate].
  - intros ->. destruct (c_state c); cbn in *; [reflexivity|discriminate|lia|lia].
Qed.

Lemma F_frame cap (c : fcore) r buf' : fe_inv cap c r -> firstn (length r) buf' = r ->
  length buf' = length (c_buf c) -> fe_inv cap (set_buf c buf') r.
Proof. intros (H1 & H2 & H3 & H4 & H5) E _. unfold fe_inv. cbn. repeat split; assumption. Qed.

Lemma sub_cons_nth (l : list N) a n : (a < length l)%nat -> sub l a (S n) = nth a l 0 :: sub l (S a) n.
Proof.
  intros H. unfold sub. destruct (nth_error l a) as [v|] eqn:E; [|apply nth_error_None in E; lia].
  rewrite (skipn_S_nth l a v E). cbn [firstn]. f_equal. symmetry. apply nth_error_nth. exact E.
Qed.

Lemma le32_lt (l : list N) a : bytes_lt256 l -> le (sub l a 4) < 4294967296.
Proof.
  intros H. assert (Hw : bytes_wf (sub l a 4)) by (apply bytes_wf_sub; exact H).
  pose proof (le_bound _ Hw) as Hb.
  assert (Hl : (length (sub l a 4) <= 4)%nat) by (unfold sub; rewrite firstn_length; lia).
  eapply N.lt_le_trans; [exact Hb|]. change 4294967296 with (256 ^ 4). apply N.pow_le_mono_r; lia.
Qed.

Lemma ld32_ok (l t : list N) a : (a + 4 <= length l)%nat -> ld32 (l ++ t) (N.of_nat a) = Ok (le (sub l a 4)).
Proof.
  intros H. unfold ld32. change 4 with (N.of_nat 4). rewrite rd_range_ok by (rewrite app_length; lia). cbn [bind].
  change (firstn 4 (skipn a (l ++ t))) with (sub (l ++ t) a 4). rewrite sub_app_l by lia. reflexivity.
Qed.

(* the CRC block on a buffer that starts with a complete candidate l *)
Lemma f_crc_check_spec (c : fcore) (l t : list N) :
  c_buf c = l ++ t -> (24 <= length l)%nat -> length l = Nat.add 24 (N.to_nat (le (sub l 16 4))) ->
  c_size c = N.of_nat (length l) -> c_size c < 2147483648 ->
  f_crc_check c =
    if N.eqb (crc32 (crc_region l (length l))) (le (sub l 4 4))
    then Ok (set_state c FS_SYNC0, Z.of_nat (length l), [fe_ev l])
    else Ok (set_state c FS_SYNC0, (-1)%Z, []).
Proof.
  intros Hbuf H24 Hlen Hsz Hlt. unfold f_crc_check. rewrite Hbuf.
  change FR_OFF_PSIZE with (N.of_nat 16). rewrite ld32_ok by lia. cbn [bind].
  set (ps := le (sub l 16 4)) in *.
  change (FR_HEADER_SIZE - FR_OFF_CRC_START) with 16. change FR_OFF_CRC_START with (N.of_nat 8).
  replace (16 + ps) with (N.of_nat (length l - 8)) by lia.
  rewrite rd_range_ok by (rewrite app_length; lia). cbn [bind].
  change (firstn (length l - 8) (skipn 8 (l ++ t))) with (sub (l ++ t) 8 (length l - 8)). rewrite sub_app_l by lia.
  change FR_OFF_CRC with (N.of_nat 4). rewrite ld32_ok by lia. cbn [bind].
  unfold crc_region.
  destruct (N.eqb _ _); [|reflexivity].
  change FR_HEADER_SIZE with 24. replace (24 + ps) with (N.of_nat (length l)) by lia.
  change 0 with (N.of_nat 0) at 1. rewrite rd_range_ok by (rewrite app_length; lia). cbn [bind skipn].
  rewrite firstn_app_exact. unfold to_i32. rewrite Hsz.
  assert (E : (N.of_nat (length l) <? 2147483648) = true) by (apply N.ltb_lt; lia). rewrite E.
  rewrite nat_N_Z. reflexivity.
Qed.

Lemma F_step cap q (c : fcore) r b : fwfc cap c -> fe_inv cap c r -> nth_error (c_buf c) (length r) = Some b -> b < 256 ->
  exists c' ret evs, f_on_byte q (set_next c (N.of_nat (S (length r)))) = Ok (c', ret, evs) /\
    c_buf c' = c_buf c /\ c_cap c' = c_cap c /\
    match JF cap (r ++ [b]) with
    | More => ret = 0%Z /\ evs = [] /\ fe_inv cap c' (r ++ [b])
    | Accept n => ret = Z.of_nat n /\ evs = [fe_ev (firstn n (c_buf c))] /\ f_is_sync (c_state c') = true
    | Reject => evs = [] /\
        ((ret < 0)%Z /\ f_is_sync (c_state c') = true /\ c_next c' = N.of_nat (S (length r))
         \/ ret = 0%Z /\ frames_of (JF cap) (tl (r ++ [b])) = [] /\ fe_inv cap c' (resid_of (JF cap) (tl (r ++ [b]))) /\
            (f_is_sync (c_state c') = true \/ true = true /\ r = [CPP_SYNC0] /\ b = CPP_SYNC0))
    end.
Proof.
  destruct c as [buf ccap st nx sz x]. unfold wfc, fe_min_ok, fe_inv at 1. cbn [c_buf c_cap c_state c_next c_size c_x].
  intros (W1 & W2 & W3 & W4) (Hnx & Hfr & HM & Hrb & Hst) Hb Hb256. symmetry in W3. subst cap. rename ccap into cap.
  pose proof (buf_split _ _ _ Hfr Hb) as Hbuf. set (t := skipn (S (length r)) buf) in *. clearbody t. subst buf.
  unfold f_on_byte. cbn [c_next set_next c_buf c_state c_size c_cap].
  assert (E0 : (N.of_nat (S (length r)) =? 0) = false) by (apply N.eqb_neq; lia). rewrite E0.
  replace (N.of_nat (S (length r)) - 1) with (N.of_nat (length r)) by lia.
  rewrite rd_app_mid. cbn [bind].
  destruct st eqn:Est.
  - (* SYNC0 *)
    subst r. cbn [length app] in *.
    destruct (N.eqb_spec b CPP_SYNC0) as [->|Hne].
    + eexists _, _, _. split; [reflexivity|]. cbn [c_buf set_state set_next c_cap]. split; [reflexivity|]. split; [reflexivity|].
      rewrite (jf_short cap [CPP_SYNC0]) by (try reflexivity; cbn; lia).
      split; [reflexivity|]. split; [reflexivity|].
      unfold fe_inv. cbn [c_next set_state set_next c_buf c_state length firstn].
      split; [reflexivity|]. split; [reflexivity|]. split; [apply jf_short; [reflexivity|cbn; lia]|].
      split; [constructor; [exact Hb256|constructor]|reflexivity].
    + rewrite (F_nonsync cap b [] Hne). eexists _, _, _. split; [reflexivity|].
      cbn [c_buf set_state set_next c_cap]. split; [reflexivity|]. split; [reflexivity|].
      split; [reflexivity|]. right. split; [reflexivity|]. cbn [tl].
      destruct (frames_more (JF cap) [] eq_refl) as [F R]. rewrite F, R. split; [reflexivity|].
      split; [|left; reflexivity].
      unfold fe_inv. cbn [c_next set_next c_buf c_state length firstn].
      repeat split; try constructor.
  - (* SYNC1 *)
    subst r. cbn [length app] in *.
    destruct (N.eqb_spec b CPP_SYNC0) as [->|Hne0].
    + (* duplicate SYNC0: rewind *)
      rewrite (F_dup cap eq_refl []). eexists _, _, _. split; [reflexivity|].
      cbn [c_buf set_state set_next c_cap]. split; [reflexivity|]. split; [reflexivity|].
      split; [reflexivity|]. right. split; [reflexivity|]. cbn [tl].
      assert (HJ1 : JF cap [CPP_SYNC0] = More) by (apply jf_short; [reflexivity|cbn; lia]).
      destruct (frames_more (JF cap) _ HJ1) as [F R]. rewrite F, R. split; [reflexivity|].
      split; [|right; repeat split; reflexivity].
      unfold fe_inv. cbn [c_next set_next set_state c_buf c_state length firstn].
      split; [reflexivity|]. split; [reflexivity|]. split; [exact HJ1|]. split; [exact Hrb|reflexivity].
    + destruct (N.eqb_spec b CPP_SYNC1) as [->|Hne1].
      * eexists _, _, _. split; [reflexivity|]. cbn [c_buf set_state set_next c_cap]. split; [reflexivity|]. split; [reflexivity|].
        assert (HJ2 : JF cap [CPP_SYNC0; CPP_SYNC1] = More) by (apply jf_short; [reflexivity|cbn; lia]).
        rewrite HJ2. split; [reflexivity|]. split; [reflexivity|].
        unfold fe_inv. cbn [c_next set_next set_state c_buf c_state length firstn].
        split; [reflexivity|]. split; [reflexivity|]. split; [exact HJ2|].
        split; [constructor; [exact (Forall_inv Hrb)|constructor; [exact Hb256|constructor]]|cbn; lia].
      * assert (HJ2 : JF cap [CPP_SYNC0; b] = Reject).
        { apply jf_mismatch. cbn [sync_mismatch_early]. change (negb (CPP_SYNC0 =? SYNC0)) with false. cbn iota.
          destruct (N.eqb_spec b SYNC1) as [E|_]; [exfalso; apply Hne1; exact E|reflexivity]. }
        rewrite HJ2. eexists _, _, _. split; [reflexivity|].
        cbn [c_buf set_state set_next set_size c_cap]. split; [reflexivity|]. split; [reflexivity|].
        split; [reflexivity|]. right. split; [reflexivity|]. cbn [tl].
        destruct (frames_reject (JF cap) (judge_fe_ok _ _ _) [b] (F_nonsync cap b [] Hne0)) as [F R]. cbn [tl] in F, R.
        destruct (frames_more (JF cap) [] eq_refl) as [F0 R0]. rewrite F, R, F0, R0. split; [reflexivity|].
        split; [|left; reflexivity].
        unfold fe_inv. cbn [c_next set_next set_state set_size c_buf c_state length firstn].
        repeat split; try constructor.
  - (* HEADER *)
    assert (Esm : sync_mismatch_early r = false).
    { destruct (sync_mismatch_early r) eqn:E; [|reflexivity]. rewrite (jf_mismatch cap r E) in HM. discriminate. }
    assert (Esm' : sync_mismatch_early (r ++ [b]) = false) by (rewrite sme_app by lia; exact Esm).
    assert (Hrb' : bytes_lt256 (r ++ [b])) by (apply Forall_app; split; [exact Hrb|constructor; [exact Hb256|constructor]]).
    assert (Hll : length (r ++ [b]) = S (length r)) by (rewrite app_length; cbn; lia).
    assert (Hf : firstn (S (length r)) (r ++ b :: t) = r ++ [b]).
    { change (b :: t) with ([b] ++ t). rewrite app_assoc, <- Hll. apply firstn_app_exact. }
    change FR_HEADER_SIZE with 24.
    destruct (N.eqb_spec (N.of_nat (S (length r))) 24) as [H24|Hn24].
    + (* the header is complete *)
      set (l := r ++ [b]) in *. assert (Hl24 : length l = 24%nat) by lia.
      assert (Hbuf : r ++ b :: t = l ++ t) by (unfold l; rewrite <- app_assoc; reflexivity).
      rewrite Hbuf. change FR_OFF_PSIZE with (N.of_nat 16). rewrite ld32_ok by lia. cbn [bind].
      set (ps := le (sub l 16 4)) in *.
      assert (Hps : ps < 4294967296) by (apply le32_lt; exact Hrb').
      cbn [c_size set_size set_next c_buf c_cap c_state c_next].
      rewrite (jf_long cap l Esm' ltac:(lia)). cbn zeta.
      rewrite (firstn_all2 l) by lia. cbn [parse_header h_reserved h_psize h_crc]. fold ps.
      assert (Hres : sub l 2 2 = [nth 2 l 0; nth 3 l 0]).
      { rewrite sub_cons_nth by lia. rewrite sub_cons_nth by lia. reflexivity. }
      rewrite Hres. cbn [le].
      change FR_OFF_RESERVED with (N.of_nat 2). change (N.of_nat 2 + 1) with (N.of_nat 3).
      rewrite (rd_app_l l t 2) by lia. rewrite (rd_app_l l t 3) by lia.
      set (x2 := nth 2 l 0). set (x3 := nth 3 l 0).
      assert (Eres : negb (x2 + 256 * (x3 + 256 * 0) =? 0) = negb (x2 =? 0) || negb (x3 =? 0)).
      { destruct (N.eqb_spec x2 0), (N.eqb_spec x3 0), (N.eqb_spec (x2 + 256 * (x3 + 256 * 0)) 0); cbn; try reflexivity; lia. }
      rewrite Eres.
      unfold u32. destruct (N.ltb_spec ((24 + ps) mod 4294967296) ps) as [Hov|Hnov].
      * (* uint32 overflow of the message size *)
        assert (Hbig : 4294967296 <= 24 + ps).
        { destruct (N.le_gt_cases 4294967296 (24 + ps)) as [|C]; [assumption|]. rewrite N.mod_small in Hov by exact C. lia. }
        assert (E2 : (cap - 24 <? ps) = true) by (apply N.ltb_lt; lia). rewrite E2.
        eexists _, _, _. split; [reflexivity|]. cbn [c_buf set_state set_size set_next c_cap]. split; [reflexivity|]. split; [reflexivity|].
        assert (HR : (if negb (x2 =? 0) || negb (x3 =? 0) then Reject else Reject) = Reject) by (destruct (_ || _); reflexivity).
        rewrite HR. split; [reflexivity|]. left. repeat split; try lia; try reflexivity.
      * assert (Hsmall : 24 + ps < 4294967296).
        { destruct (N.le_gt_cases 4294967296 (24 + ps)) as [C|]; [|assumption]. exfalso.
          assert ((24 + ps) mod 4294967296 = 24 + ps - 4294967296).
          { symmetry. apply N.mod_unique with (q := 1); lia. }
          lia. }
        rewrite N.mod_small by exact Hsmall. cbn [bind].
        destruct (negb (x2 =? 0) || negb (x3 =? 0)) eqn:Er.
        -- eexists _, _, _. split; [reflexivity|]. cbn [c_buf set_state set_size set_next c_cap]. split; [reflexivity|]. split; [reflexivity|].
           split; [reflexivity|]. left. repeat split; try lia; try reflexivity.
        -- destruct (N.ltb_spec cap (24 + ps)) as [Hbigc|Hfit].
           ++ assert (E2 : (cap - 24 <? ps) = true) by (apply N.ltb_lt; lia). rewrite E2.
              eexists _, _, _. split; [reflexivity|]. cbn [c_buf set_state set_size set_next c_cap]. split; [reflexivity|]. split; [reflexivity|].
              split; [reflexivity|]. left. repeat split; try lia; try reflexivity.
           ++ assert (E2 : (cap - 24 <? ps) = false) by (apply N.ltb_ge; lia). rewrite E2.
              destruct (N.eqb_spec ps 0) as [Hz|Hnz].
              ** (* no payload: CRC now *)
                 rewrite Hl24. rewrite Hz. change (Nat.ltb 24 (24 + N.to_nat 0)) with false. cbn iota.
                 change (24 + N.to_nat 0)%nat with 24%nat.
                 erewrite f_crc_check_spec with (l := l) (t := t); cycle 1.
                 { reflexivity. } { lia. } { fold ps. rewrite Hz. exact Hl24. }
                 { cbn [c_size set_size set_next]. rewrite Hl24. reflexivity. } { cbn [c_size set_size set_next]. lia. }
                 rewrite Hl24.
                 destruct (N.eqb (crc32 _) _).
                 --- eexists _, _, _. split; [reflexivity|]. cbn [c_buf set_state set_size set_next c_cap]. split; [reflexivity|]. split; [reflexivity|].
                     split; [reflexivity|]. split; [|reflexivity].
                     rewrite <- Hl24, firstn_app_exact. reflexivity.
                 --- eexists _, _, _. split; [reflexivity|]. cbn [c_buf set_state set_size set_next c_cap]. split; [reflexivity|]. split; [reflexivity|].
                     split; [reflexivity|]. left. repeat split; try lia; try reflexivity.
              ** assert (E3 : Nat.ltb (length l) (24 + N.to_nat ps) = true) by (apply Nat.ltb_lt; lia). rewrite E3.
                 eexists _, _, _. split; [reflexivity|]. cbn [c_buf set_state set_size set_next c_cap]. split; [reflexivity|]. split; [reflexivity|].
                 split; [reflexivity|]. split; [reflexivity|].
                 unfold fe_inv. cbn [c_next set_state set_size set_next c_buf c_state c_size].
                 split; [lia|]. split; [apply firstn_app_exact|].
                 split.
                 { rewrite (jf_long cap l Esm' ltac:(lia)). cbn zeta.
                   rewrite (firstn_all2 l) by lia. cbn [parse_header h_reserved h_psize h_crc]. fold ps.
                   rewrite Hres. cbn [le]. fold x2 x3. rewrite Eres, E2, E3. reflexivity. }
                 split; [exact Hrb'|]. fold ps. repeat split; lia.
    + (* header bytes still missing *)
      eexists _, _, _. split; [reflexivity|]. cbn [c_buf set_next c_cap]. split; [reflexivity|]. split; [reflexivity|].
      rewrite (jf_short cap (r ++ [b]) Esm') by lia.
      split; [reflexivity|]. split; [reflexivity|].
      unfold fe_inv. cbn [c_next set_next c_buf c_state].
      split; [rewrite Hll; reflexivity|]. split; [rewrite Hll; exact Hf|].
      split; [apply jf_short; [exact Esm'|lia]|]. split; [exact Hrb'|lia].
  - (* DATA *)
    destruct Hst as (H24 & Hsz & Hlt & Hcap).
    assert (Esm : sync_mismatch_early r = false).
    { destruct (sync_mismatch_early r) eqn:E; [|reflexivity]. rewrite (jf_mismatch cap r E) in HM. discriminate. }
    set (l := r ++ [b]).
    assert (Esm' : sync_mismatch_early l = false) by (unfold l; rewrite sme_app by lia; exact Esm).
    assert (Hrb' : bytes_lt256 l) by (apply Forall_app; split; [exact Hrb|constructor; [exact Hb256|constructor]]).
    assert (Hll : length l = S (length r)) by (unfold l; rewrite app_length; cbn; lia).
    assert (Hbuf : r ++ b :: t = l ++ t) by (unfold l; rewrite <- app_assoc; reflexivity).
    set (ps := le (sub r 16 4)) in *.
    assert (Hps : ps < 4294967296) by (apply le32_lt; exact Hrb).
    assert (Hf24 : firstn 24 l = firstn 24 r) by (unfold l; apply firstn_app_ge; lia).
    assert (Hpsl : le (sub l 16 4) = ps) by (unfold l, ps; rewrite sub_app_l by lia; reflexivity).
    (* what "r is undecided" says about the header in r *)
    rewrite (jf_long cap r Esm H24) in HM. cbn zeta in HM.
    cbn [parse_header h_reserved h_psize h_crc] in HM.
    rewrite (sub_firstn r 2 2 24), (sub_firstn r 16 4 24), (sub_firstn r 4 4 24) in HM by lia. fold ps in HM.
    destruct (negb (le (sub r 2 2) =? 0)) eqn:Eres; [discriminate|].
    destruct (cap - 24 <? ps) eqn:E2; [discriminate|]. clear HM.
    rewrite (jf_long cap l Esm' ltac:(lia)). cbn zeta. rewrite Hf24.
    cbn [parse_header h_reserved h_psize h_crc].
    rewrite (sub_firstn r 2 2 24), (sub_firstn r 16 4 24), (sub_firstn r 4 4 24) by lia. fold ps.
    rewrite Eres, E2.
    destruct (N.eqb_spec (N.of_nat (S (length r))) sz) as [Heq|Hneq].
    + assert (E3 : Nat.ltb (length l) (24 + N.to_nat ps) = false) by (apply Nat.ltb_ge; lia). rewrite E3.
      erewrite f_crc_check_spec with (l := l) (t := t); cycle 1.
      { cbn [c_buf set_next]. exact Hbuf. } { lia. } { rewrite Hpsl. lia. }
      { cbn [c_size set_next]. lia. } { cbn [c_size set_next]. lia. }
      replace (24 + N.to_nat ps)%nat with (length l) by lia.
      assert (Hcrc : le (sub l 4 4) = le (sub r 4 4)) by (unfold l; rewrite sub_app_l by lia; reflexivity).
      rewrite Hcrc.
      destruct (N.eqb (crc32 _) _).
      * eexists _, _, _. split; [reflexivity|]. cbn [c_buf set_state set_next c_cap]. split; [reflexivity|]. split; [reflexivity|].
        split; [reflexivity|]. split; [|reflexivity].
        rewrite Hbuf, firstn_app_exact. reflexivity.
      * eexists _, _, _. split; [reflexivity|]. cbn [c_buf set_state set_next c_cap]. split; [reflexivity|]. split; [reflexivity|].
        split; [reflexivity|]. left. repeat split; try lia; try reflexivity.
    + assert (E3 : Nat.ltb (length l) (24 + N.to_nat ps) = true) by (apply Nat.ltb_lt; lia). rewrite E3.
      eexists _, _, _. split; [reflexivity|]. cbn [c_buf set_next c_cap]. split; [reflexivity|]. split; [reflexivity|].
      split; [reflexivity|]. split; [reflexivity|].
      unfold fe_inv. cbn [c_next set_next c_buf c_state c_size]. fold l.
      split; [lia|]. split; [rewrite Hbuf; apply firstn_app_exact|].
      split.
      { rewrite (jf_long cap l Esm' ltac:(lia)). cbn zeta. rewrite Hf24.
        cbn [parse_header h_reserved h_psize h_crc].
        rewrite (sub_firstn r 2 2 24), (sub_firstn r 16 4 24), (sub_firstn r 4 4 24) by lia. fold ps.
        rewrite Eres, E2, E3. reflexivity. }
      split; [exact Hrb'|]. rewrite Hpsl. repeat split; lia.
Qed.

(* ---- OnData() refines the scan ---- *)
Lemma fe_data_refines cap (c : fcore) r data total evs :
  fwfc cap c -> fe_inv cap c r -> bytes_lt256 data ->
  exists c', on_data_loop fstate unit FS_SYNC0 f_is_sync CPP_SYNC0 true f_on_byte c data total evs =
      Ok (c', total + total_len (frames_of (JF cap) (r ++ data)), evs ++ map fe_ev (frames_of (JF cap) (r ++ data))) /\
    fwfc cap c' /\ fe_inv cap c' (resid_of (JF cap) (r ++ data)) /\ c_cap c' = c_cap c /\ length (c_buf c') = length (c_buf c).
Proof.
  apply (on_data_loop_refines fstate unit FS_SYNC0 f_is_sync CPP_SYNC0 true f_on_byte (JF cap) fe_ev
           (fe_inv cap) (fe_min_ok cap) (judge_fe_ok _ _ _) (judge_fe_local _ _ _) (F_nonsync cap)
           (F_dup cap) (F_inv_nil cap) (F_inv_facts cap) (F_frame cap) (F_step cap) eq_refl).
Qed.

(* ---- SetBuffer() of the repaired code ---- *)
Ltac Zify.zify_post_hook ::= Z.to_euclidean_division_equations.

Lemma align_shift a : (a + 3) - ((a + 3) mod (3 + 1)) - a = (4 - a mod 4) mod 4 /\ (4 - a mod 4) mod 4 <= 3.
Proof. change (3 + 1) with 4. lia. Qed.

Definition addr_of (user : option N) (alloc_addr : N) : N := match user with Some a => a | None => alloc_addr end.

Lemma fe_set_buffer_spec (f : fframer) user alloc_addr capacity mem :
  N.of_nat (length mem) = capacity -> 24 <= capacity ->
  let f' := fe_set_buffer f user alloc_addr capacity mem in
  let cb := N.min capacity FR_CLAMP - (4 - addr_of user alloc_addr mod 4) mod 4 in
  if cb <? 24 then f_has f' = false
  else f_has f' = true /\ fwfc cb (f_core f') /\ fe_inv cb (f_core f') [].
Proof.
  intros Hlen Hcap. unfold fe_set_buffer, set_buffer.
  assert (E1 : (capacity <? FR_HEADER_SIZE) = false) by (apply N.ltb_ge; exact Hcap). rewrite E1.
  set (cap1 := if FR_CLAMP <? capacity then FR_CLAMP else capacity).
  assert (Hc1 : cap1 = N.min capacity FR_CLAMP).
  { unfold cap1. destruct (N.ltb_spec FR_CLAMP capacity); lia. }
  change (match user with Some a => a | None => alloc_addr end) with (addr_of user alloc_addr).
  set (a := addr_of user alloc_addr). unfold FR_ALIGN_MASK.
  destruct (align_shift a) as [Hs Hs3]. rewrite Hs. set (shift := (4 - a mod 4) mod 4) in *.
  assert (Hcl : FR_CLAMP = 2147483647) by reflexivity.
  assert (Hu : u32 (cap1 - shift) = cap1 - shift) by (apply u32_small; lia).
  rewrite Hu. rewrite <- Hc1. cbn zeta. cbn [andb]. change FR_HEADER_SIZE with 24.
  destruct (N.ltb_spec (cap1 - shift) 24) as [Hsm|Hbig]; [reflexivity|].
  set (buf := firstn (N.to_nat (cap1 - shift)) (skipn (N.to_nat shift) mem)).
  assert (Hbl : length buf = N.to_nat (cap1 - shift)).
  { unfold buf. rewrite firstn_length, skipn_length. lia. }
  unfold reset_core. cbn [f_has f_core set_x set_size set_next set_state c_x c_buf c_cap c_state c_next c_size].
  split; [reflexivity|]. split.
  { unfold wfc, fe_min_ok, blen, set_x, set_size, set_next, set_state. cbn [c_buf c_cap]. rewrite Hbl. repeat split; lia. }
  unfold fe_inv, set_x, set_size, set_next, set_state. cbn [c_buf c_cap c_next c_state length firstn N.of_nat]. repeat split; constructor.
Qed.

(* ---- histories ---- *)
Definition fe_sim (f : fframer) (s : spst) : Prop :=
  match sp_cap s with
  | Some cap => f_has f = true /\ fwfc cap (f_core f) /\ fe_inv cap (f_core f) (sp_res s)
  | None => f_has f = false
  end.

Definition op_ok (o : op) : Prop :=
  match o with
  | OpData chunk => bytes_lt256 chunk
  | OpReset => True
  | OpSetBuffer _ _ capacity mem => N.of_nat (length mem) = capacity
  end.

Definition fe_out (fs : list (nat * list N)) : N * list event := (frames_total fs, map fe_event_of fs).

Lemma frames_total_len fs : frames_total fs = total_len (map snd fs).
Proof. induction fs as [|f fs IH]; [reflexivity|]. cbn [frames_total fold_right map total_len]. fold (frames_total fs). fold (total_len (map snd fs)). rewrite IH. reflexivity. Qed.

Theorem fe_op_refines f s o : fe_sim f s -> op_ok o ->
  exists f', fe_op f o = Ok (f', fst (fe_out (snd (fe_spec_op s o))), snd (fe_out (snd (fe_spec_op s o)))) /\
    fe_sim f' (fst (fe_spec_op s o)).
Proof.
  intros Hsim Hok. destruct o as [chunk| |user alloc_addr capacity mem]; cbn [op_ok] in Hok.
  - (* OnData *)
    unfold fe_op, fe_op_with, fe_spec_op, spec_op, fe_sim in *. destruct (sp_cap s) as [cap|] eqn:Ecap.
    + destruct Hsim as (Hhas & Hwf & Hinv).
      destruct (fe_data_refines cap _ _ chunk 0 [] Hwf Hinv Hok) as (c' & E & Hwf' & Hinv' & _ & _).
      unfold fe_on_data, on_data. rewrite Hhas. rewrite E. cbn [bind].
      unfold feed. cbn [fst snd].
      pose proof (scan_frames_off (JF cap) (sp_off s) (sp_res s ++ chunk)) as F.
      pose proof (scan_resid_off (JF cap) (sp_off s) (sp_res s ++ chunk)) as R.
      destruct (scan (JF cap) (sp_off s) (sp_res s ++ chunk)) as [fs [o' r']]. cbn [fst snd] in *.
      eexists. split.
      * unfold fe_out. cbn [fst snd]. rewrite frames_total_len, F, N.add_0_l. cbn [app].
        do 2 f_equal. rewrite <- F, map_map. reflexivity.
      * cbn [sp_cap sp_res f_has f_core]. rewrite R. split; [reflexivity|]. split; [exact Hwf'|exact Hinv'].
    + cbn [snd fst fe_out frames_total fold_right map].
      unfold fe_on_data, on_data. rewrite Hsim. eexists. split; [reflexivity|]. cbn [sp_cap]. exact Hsim.
  - (* Reset *)
    unfold fe_op, fe_op_with, fe_spec_op, spec_op, fe_sim in *. cbn [snd fst fe_out frames_total fold_right map sp_cap sp_res].
    eexists. split; [reflexivity|].
    destruct (sp_cap s) as [cap|]; [|exact Hsim].
    destruct Hsim as (Hhas & Hwf & _). split; [exact Hhas|]. split; [exact Hwf|].
    apply F_inv_nil; [exact Hwf|reflexivity|reflexivity].
  - (* SetBuffer *)
    unfold fe_op, fe_op_with, fe_spec_op, spec_op. cbn [fe_out frames_total fold_right map].
    destruct (N.ltb_spec capacity FR_HEADER_SIZE) as [Hlt|Hge].
    + assert (E : fe_set_buffer f user alloc_addr capacity mem = f).
      { unfold fe_set_buffer, set_buffer. apply N.ltb_lt in Hlt. rewrite Hlt. reflexivity. }
      rewrite E. eexists. split; [reflexivity|exact Hsim].
    + pose proof (fe_set_buffer_spec f user alloc_addr capacity mem Hok Hge) as Hsb. cbn zeta in Hsb.
      eexists. split; [reflexivity|]. cbn [fst snd]. unfold fe_sim, spec_eff_capacity. cbn [sp_cap sp_res].
      change (match user with Some a => a | None => alloc_addr end) with (addr_of user alloc_addr).
      change FR_HEADER_SIZE with 24.
      destruct (_ <? 24); exact Hsb.
Qed.

Notation fe_spec_run := (spec_run judge_fe_cap FR_HEADER_SIZE FR_CLAMP).

Theorem fe_history : forall ops f s, fe_sim f s -> Forall op_ok ops ->
  exists ff, run_ops fframer fe_op f ops = Ok (map fe_out (fe_spec_run s ops), ff).
Proof.
  induction ops as [|o rest IH]; intros f s Hsim Hok.
  - exists f. reflexivity.
  - inversion Hok as [|? ? Ho Hrest]; subst.
    destruct (fe_op_refines f s o Hsim Ho) as (f' & E & Hsim').
    cbn [run_ops spec_run]. rewrite E. cbn [bind].
    change (spec_op judge_fe_cap FR_HEADER_SIZE FR_CLAMP s o) with (fe_spec_op s o).
    destruct (fe_spec_op s o) as [s' fs] eqn:Es. cbn [fst snd] in *.
    destruct (IH f' s' Hsim' Hrest) as (ff & E2). rewrite E2. cbn [bind map].
    exists ff. unfold fe_out at 2. reflexivity.
Qed.

Lemma fe_construct_sim user alloc_addr capacity mem :
  N.of_nat (length mem) = capacity + match user with None => FR_MANAGED_EXTRA | Some _ => 0 end ->
  fe_sim (fe_construct user alloc_addr capacity mem) (fe_spec_construct user alloc_addr capacity).
Proof.
  intros Hlen. unfold fe_construct, fe_construct_with, fe_spec_construct.
  assert (H0 : fe_sim fe_default spec_init) by reflexivity.
  destruct user as [a|].
  - destruct (fe_op_refines fe_default spec_init (OpSetBuffer (Some a) alloc_addr capacity mem) H0) as (f' & E & Hs).
    { cbn [op_ok]. lia. }
    cbn [fe_op fe_op_with] in E. injection E as <-. exact Hs.
  - destruct (fe_op_refines fe_default spec_init (OpSetBuffer None alloc_addr (capacity + FR_MANAGED_EXTRA) mem) H0) as (f' & E & Hs).
    { cbn [op_ok]. lia. }
    cbn [fe_op fe_op_with] in E. injection E as <-. exact Hs.
Qed.

(* Any division of a stream into OnData() calls: the callbacks, concatenated, are the messages of ONE scan of
   the whole stream, and the return values add up to their total size. *)
Theorem fe_stream_exact user alloc_addr capacity mem cap chunks :
  N.of_nat (length mem) = capacity + match user with None => FR_MANAGED_EXTRA | Some _ => 0 end ->
  sp_cap (fe_spec_construct user alloc_addr capacity) = Some cap ->
  Forall bytes_lt256 chunks ->
  exists outs ff, run_ops fframer fe_op (fe_construct user alloc_addr capacity mem) (map OpData chunks) = Ok (outs, ff) /\
    concat (map snd outs) = map fe_event_of (fst (scan (JF cap) 0 (concat chunks))) /\
    fold_right N.add 0 (map fst outs) = frames_total (fst (scan (JF cap) 0 (concat chunks))).
Proof.
  intros Hlen Hcap Hb.
  pose proof (fe_construct_sim user alloc_addr capacity mem Hlen) as Hsim.
  assert (Hok : Forall op_ok (map OpData chunks)).
  { apply Forall_forall. intros o Ho. apply in_map_iff in Ho as (ch & <- & Hin). cbn. rewrite Forall_forall in Hb. apply Hb. exact Hin. }
  destruct (fe_history _ _ _ Hsim Hok) as (ff & E).
  set (s0 := fe_spec_construct user alloc_addr capacity) in *.
  assert (Hs0 : s0 = mkSp (Some cap) (sp_off s0) []).
  { destruct s0 as [c o r] eqn:Es. cbn in Hcap. subst c.
    assert (r = []) as ->; [|reflexivity].
    pose proof (f_equal sp_res Es) as Hr. cbn [sp_res] in Hr. rewrite <- Hr. unfold s0, fe_spec_construct, fe_spec_op, spec_op.
    destruct (_ <? _); reflexivity. }
  exists (map fe_out (fe_spec_run s0 (map OpData chunks))), ff. split; [exact E|].
  assert (Hfr : concat (fe_spec_run s0 (map OpData chunks)) = fst (scan (JF cap) (sp_off s0) (concat chunks))).
  { rewrite Hs0 at 1. rewrite spec_run_data.
    rewrite (feed_all_concat (JF cap) (judge_fe_ok _ _ _)) by reflexivity. reflexivity. }
  pose proof (scan_frames_off (JF cap) (sp_off s0) (concat chunks)) as F1.
  pose proof (scan_frames_off (JF cap) 0 (concat chunks)) as F2.
  assert (Hev : forall fss : list (list (nat * list N)), concat (map snd (map fe_out fss)) = map fe_event_of (concat fss)).
  { induction fss as [|x t IHt]; [reflexivity|]. cbn [map concat snd fe_out]. rewrite IHt, map_app. reflexivity. }
  assert (Hev2 : forall fs : list (nat * list N), map fe_event_of fs = map fe_ev (map snd fs)) by (intros; rewrite map_map; reflexivity).
  assert (Hsum : forall fss : list (list (nat * list N)), fold_right N.add 0 (map fst (map fe_out fss)) = frames_total (concat fss)).
  { induction fss as [|x t IHt]; [reflexivity|]. cbn [map concat fst fe_out fold_right]. rewrite IHt.
    rewrite !frames_total_len, map_app, total_len_app. reflexivity. }
  split.
  - rewrite Hev, Hfr, !Hev2, F1, <- F2. reflexivity.
  - rewrite Hsum, Hfr, !frames_total_len, F1, <- F2. reflexivity.
Qed.

(* ---- the eager judge (byte-wise C++ framer) and the lazy judge (Python decoder, waits for 24 bytes)
   frame the same messages on every stream ---- *)
Section EagerLazy.
  Variable J1 J2 : list N -> verdict.      (* eager, lazy *)
  Variable minlen : nat.
  Hypothesis OK1 : JudgeOK J1.
  Hypothesis OK2 : JudgeOK J2.
  Hypothesis H_decided : forall l, J2 l <> More -> J1 l = J2 l.
  Hypothesis H_accept : forall l n, J1 l = Accept n -> J2 l = Accept n.
  Hypothesis H_early : forall l, J1 l = Reject -> J2 l = More -> (length l < minlen)%nat.
  Hypothesis H_min : forall l n, J1 l = Accept n -> (minlen <= length l)%nat.

  Lemma short_no_frames : forall k l, (length l <= k)%nat -> (length l < minlen)%nat -> frames_of J1 l = [].
  Proof.
    induction k as [|k IH]; intros l Hk Hl.
    - destruct l; [|cbn in Hk; lia]. apply (frames_more J1 []). apply (j_nil _ OK1).
    - destruct (J1 l) as [n| |] eqn:E.
      + apply H_min in E. lia.
      + destruct (frames_reject J1 OK1 _ E) as [F _]. rewrite F.
        destruct l as [|x t]; [apply (frames_more J1 []); apply (j_nil _ OK1)|]. cbn [tl]. apply IH; cbn [length] in *; lia.
      + apply (frames_more J1 _ E).
  Qed.

  Theorem eager_lazy_same_frames : forall k l, (length l <= k)%nat -> frames_of J1 l = frames_of J2 l.
  Proof.
    induction k as [|k IH]; intros l Hk.
    - destruct l; [|cbn in Hk; lia].
      rewrite (proj1 (frames_more J1 [] (j_nil _ OK1))), (proj1 (frames_more J2 [] (j_nil _ OK2))). reflexivity.
    - destruct (J1 l) as [n| |] eqn:E1.
      + pose proof (H_accept _ _ E1) as E2. pose proof (j_bound _ OK1 _ _ E1) as Hn.
        rewrite (proj1 (frames_accept J1 OK1 _ _ E1)), (proj1 (frames_accept J2 OK2 _ _ E2)).
        f_equal. apply IH. rewrite skipn_length. lia.
      + destruct (J2 l) as [n2| |] eqn:E2.
        * pose proof (H_decided l ltac:(congruence)). congruence.
        * rewrite (proj1 (frames_reject J1 OK1 _ E1)), (proj1 (frames_reject J2 OK2 _ E2)).
          destruct l as [|x t]; [rewrite (j_nil _ OK1) in E1; discriminate|]. cbn [tl]. apply IH. cbn [length] in Hk. lia.
        * pose proof (H_early _ E1 E2) as Hs.
          rewrite (proj1 (frames_more J2 _ E2)). apply (short_no_frames (length l)); [lia|exact Hs].
      + destruct (J2 l) as [n2| |] eqn:E2.
        * pose proof (H_decided l ltac:(congruence)). congruence.
        * pose proof (H_decided l ltac:(congruence)). congruence.
        * rewrite (proj1 (frames_more J1 _ E1)), (proj1 (frames_more J2 _ E2)). reflexivity.
  Qed.
End EagerLazy.

Lemma sme_header l : (24 <= length l)%nat ->
  sync_mismatch_early l =
  negb (N.eqb (h_sync0 (parse_header (firstn HEADER_SIZE l))) SYNC0 && N.eqb (h_sync1 (parse_header (firstn HEADER_SIZE l))) SYNC1).
Proof.
  intros H. destruct l as [|b0 [|b1 t]]; cbn [length] in H; try lia.
  change HEADER_SIZE with 24%nat. cbn [firstn parse_header h_sync0 h_sync1 sub skipn sync_mismatch_early le].
  rewrite !N.mul_0_r, !N.add_0_r. destruct (N.eqb b0 SYNC0); reflexivity.
Qed.

Lemma judge_fe_eager_lazy_long cr mp l : (24 <= length l)%nat -> judge_fe true cr mp l = judge_fe false cr mp l.
Proof.
  intros H. unfold judge_fe. cbn [andb].
  assert (Nat.ltb (length l) HEADER_SIZE = false) as -> by (apply Nat.ltb_ge; exact H).
  rewrite (sme_header l H).
  destruct (negb _); reflexivity.
Qed.

Lemma judge_fe_lazy_short cr mp l : (length l < 24)%nat -> judge_fe false cr mp l = More.
Proof.
  intros H. unfold judge_fe. cbn [andb].
  assert (Nat.ltb (length l) HEADER_SIZE = true) as -> by (apply Nat.ltb_lt; exact H). reflexivity.
Qed.

(* the C++ framer's SPEC and the Python decoder's SPEC (C04) accept the same messages on every stream *)
Theorem fe_eager_lazy_same_messages cr mp l :
  frames_of (judge_fe true cr mp) l = frames_of (judge_fe false cr mp) l.
Proof.
  apply (eager_lazy_same_frames (judge_fe true cr mp) (judge_fe false cr mp) 24
           (judge_fe_ok _ _ _) (judge_fe_ok _ _ _)) with (k := length l); [| | | |lia].
  - intros l0 Hd. destruct (Nat.lt_ge_cases (length l0) 24) as [Hs|Hg].
    + rewrite judge_fe_lazy_short in Hd by exact Hs. congruence.
    + apply judge_fe_eager_lazy_long. exact Hg.
  - intros l0 n Ha. pose proof (judge_fe_accept_inv _ _ _ _ _ Ha) as (H24 & _).
    rewrite <- judge_fe_eager_lazy_long by exact H24. exact Ha.
  - intros l0 Hr Hm. destruct (Nat.lt_ge_cases (length l0) 24) as [Hs|Hg]; [exact Hs|].
    rewrite judge_fe_eager_lazy_long in Hr by exact Hg. congruence.
  - intros l0 n Ha. pose proof (judge_fe_accept_inv _ _ _ _ _ Ha) as (H24 & _). exact H24.
Qed.

(* ---- statements used by Properties/C07.v ---- *)
Lemma fe_refines_scan_top : forall user alloc_addr capacity mem ops,
  N.of_nat (length mem) = capacity + match user with None => FR_MANAGED_EXTRA | Some _ => 0 end ->
  Forall op_ok ops ->
  exists ff, run_ops fframer fe_op (fe_construct user alloc_addr capacity mem) ops =
             Ok (map fe_out (spec_run judge_fe_cap FR_HEADER_SIZE FR_CLAMP (fe_spec_construct user alloc_addr capacity) ops), ff).
Proof.
  intros user alloc_addr capacity mem ops Hlen Hok.
  exact (fe_history ops _ _ (fe_construct_sim user alloc_addr capacity mem Hlen) Hok).
Qed.

Lemma fe_no_oob_top : forall user alloc_addr capacity mem ops,
  N.of_nat (length mem) = capacity + match user with None => FR_MANAGED_EXTRA | Some _ => 0 end ->
  Forall op_ok ops ->
  match run_ops fframer fe_op (fe_construct user alloc_addr capacity mem) ops with
  | Ok _ => True | OobRead _ _ => False | OobWrite _ _ => False | OutOfFuel => False end.
Proof.
  intros user alloc_addr capacity mem ops Hlen Hok.
  destruct (fe_history ops _ _ (fe_construct_sim user alloc_addr capacity mem Hlen) Hok) as (ff & E).
  rewrite E. exact I.
Qed.

Lemma fe_equiv_python_top : forall cap l,
  map snd (fst (scan (judge_fe_cap cap) 0 l)) = map snd (fst (scan (judge_py_cap cap) 0 l)).
Proof. intros cap l. exact (fe_eager_lazy_same_messages true (cap - FR_HEADER_SIZE) l). Qed.

Lemma fe_accept_means : forall cap l n, judge_fe_cap cap l = Accept n ->
  let h := parse_header (firstn HEADER_SIZE l) in
  (HEADER_SIZE <= length l)%nat /\ h_sync0 h = SYNC0 /\ h_sync1 h = SYNC1 /\ h_reserved h = 0 /\
  h_psize h <= cap - FR_HEADER_SIZE /\ n = (HEADER_SIZE + N.to_nat (h_psize h))%nat /\ (n <= length l)%nat /\
  crc32 (crc_region l n) = h_crc h.
Proof.
  intros cap l n H. pose proof (judge_fe_accept_inv _ _ _ _ _ H) as (H1 & H2 & H3 & H4 & H5 & H6 & H7 & H8).
  repeat split; try assumption. apply H4. reflexivity.
Qed.

Lemma fe_aligned_base_and_usable_capacity : forall a capacity,
  24 <= capacity ->
  (a + (4 - a mod 4) mod 4) mod 4 = 0 /\
  sp_cap (fe_spec_construct (Some a) 0 capacity) =
    (let c := N.min capacity FR_CLAMP - (4 - a mod 4) mod 4 in if c <? 24 then None else Some c).
Proof.
  intros a capacity H. split; [lia|].
  unfold fe_spec_construct, fe_spec_op, spec_op, spec_eff_capacity.
  destruct (N.ltb_spec capacity FR_HEADER_SIZE) as [C|_]; [change FR_HEADER_SIZE with 24 in C; lia|].
  reflexivity.
Qed.

Definition ex_msg : list N :=
  [46; 49; 0; 0; 103; 189; 237; 163; 2; 0; 40; 235; 5; 0; 0; 0; 2; 0; 0; 0; 0; 0; 0; 0; 1; 2].

(* The constants regenerated from the C++ sources (defs.h, fusion_engine_framer.cc, crc.cc) are the ones the
   SPEC judge (Base/FEFormat.v, constants from the Python wire-format definition) is written with. *)
Lemma fe_consts_agree :
  CPP_SYNC0 = SYNC0 /\ CPP_SYNC1 = SYNC1 /\ FR_HEADER_SIZE = N.of_nat HEADER_SIZE /\ FR_HEADER_SIZE = 24 /\
  FR_OFF_RESERVED = 2 /\ FR_OFF_CRC = 4 /\ FR_OFF_CRC_START = 8 /\ FR_OFF_PSIZE = 16 /\
  FR_CLAMP = 2147483647 /\ FR_ALIGN_MASK = 3 /\ FR_MANAGED_EXTRA = 3.
Proof. repeat split; reflexivity. Qed.
