(* C03 — the regenerated tables have no mismatching row (by computation), hence satisfy the specifications. *)
From Coq Require Import ZArith List String.
From FEC Require Import Generated.EnumsCpp Generated.EnumsPy Generated.EnumsExc Models.EnumsM Models.EnumsTables Proofs.EnumsP.
Import ListNotations.

Lemma enum_tables_clean : c03_enum_mismatches = [].
Proof. vm_compute. reflexivity. Qed.

Lemma enums_agree_tables :
  enums_agree_spec enum_pairing exc_cpp_only exc_py_only exc_renamed cpp_enums py_enums.
Proof. apply enums_mismatches_sound. exact enum_tables_clean. Qed.

Lemma classification_tables_clean : c03_classification_mismatches = [].
Proof. vm_compute. reflexivity. Qed.

Lemma classification_agrees_tables :
  classification_agrees_spec cpp_classification py_classification py_command_messages py_response_messages.
Proof. apply classification_mismatches_sound. exact classification_tables_clean. Qed.

Lemma registry_tables_clean : c03_registry_mismatches = [].
Proof. vm_compute. reflexivity. Qed.

Lemma registry_bijective_tables : registry_bijective_spec cpp_messages py_classes py_registry.
Proof. apply registry_mismatches_sound. exact registry_tables_clean. Qed.

(* ... and the same after the library has been used (the registries are not changed by library code) *)
Lemma enum_tables_clean_after : c03_enum_mismatches_after = [].
Proof. vm_compute. reflexivity. Qed.
Lemma classification_tables_clean_after : c03_classification_mismatches_after = [].
Proof. vm_compute. reflexivity. Qed.
Lemma registry_tables_clean_after : c03_registry_mismatches_after = [].
Proof. vm_compute. reflexivity. Qed.

Lemma tables_agree_after_use :
  enums_agree_spec enum_pairing exc_cpp_only exc_py_only exc_renamed cpp_enums py_enums_after /\
  classification_agrees_spec cpp_classification py_classification_after py_command_messages_after py_response_messages_after /\
  registry_bijective_spec cpp_messages py_classes_after py_registry_after.
Proof.
  split; [apply enums_mismatches_sound; exact enum_tables_clean_after|].
  split; [apply classification_mismatches_sound; exact classification_tables_clean_after|].
  apply registry_mismatches_sound; exact registry_tables_clean_after.
Qed.

(* ... and of what a user sees after importing only the public package *)
Lemma tables_agree_public_import :
  enums_agree_spec enum_pairing exc_cpp_only exc_py_only exc_renamed cpp_enums py_enums_public /\
  classification_agrees_spec cpp_classification py_classification_public py_command_messages_public py_response_messages_public /\
  registry_bijective_spec cpp_messages py_classes_public py_registry_public.
Proof.
  split; [apply enums_mismatches_sound; vm_compute; reflexivity|].
  split; [apply classification_mismatches_sound; vm_compute; reflexivity|].
  apply registry_mismatches_sound; vm_compute; reflexivity.
Qed.

(* The comparison functions are not vacuous: they flag a changed number, a missing member, a sentinel that
   hides a wire value, a classification difference and a version difference on small synthetic tables. *)
Open Scope string_scope.
Open Scope Z_scope.
Lemma detectors_fire :
  enums_mismatches [("E", "m.E")] [] [] [] [("E", [("A", 1)])] [("m.E", [("A", 2)])] <> [] /\
  enums_mismatches [("E", "m.E")] [] [] [] [("E", [("A", 1); ("B", 2)])] [("m.E", [("A", 1)])] <> [] /\
  enums_mismatches [("E", "m.E")] [] [] [] [("E", [("A", 1)])] [("m.E", [("A", 1); ("B", 2)])] <> [] /\
  enums_mismatches [("E", "m.E")] [("E", "MAX")] [] [] [("E", [("A", 1); ("MAX", 2)])] [("m.E", [("A", 1)])] <> [] /\
  enums_mismatches [("E", "m.E")] [("E", "MAX")] [] [] [("E", [("A", 1); ("MAX", 1)])] [("m.E", [("A", 1)])] = [] /\
  classification_mismatches [("T", 5, true, false)] [(5, false, false)] [] [] <> [] /\
  classification_mismatches [("T", 5, true, false)] [(5, true, false)] [5] [] = [] /\
  registry_mismatches [("S", 5, 1)] [("m.S", 5, 0)] [(5, "m.S")] <> [] /\
  registry_mismatches [("S", 5, 1)] [("m.S", 5, 1)] [] <> [] /\
  registry_mismatches [("S", 5, 1)] [("m.S", 5, 1)] [(5, "m.S")] = [].
Proof. vm_compute. repeat split; try reflexivity; discriminate. Qed.
