(* C12 x C10/C11 — link between the DataLoader model (Models/DataLoaderM.v, whose theorems quantify over an abstract
   reader environment) and the proved model of the log reader (Models/LogReaderM.v, Models/FileIndexOpsM.v, C10/C11).

   1. [link_env]: the environment whose reader selections ARE the C10/C11 model functions (FileIndex.__getitem__ of the
      file's index for the time range, the type filter, the removal of untimed entries), with [env_ok].
   2. [drive]: the operations DataLoader._read performs on the reader (rewind, clear_filters, filter_in_place(time
      range), filter_in_place(types), source ids, filter_out_invalid_p1_times, the int pre-slice, read_next until
      StopIteration) executed in the operational reader model from ANY reader state over the file's index, and the proof that it
      reads exactly the selection the DataLoader model assumes ([drive_selection]).
   3. the composed statement: what DataLoader.read returns corresponds one to one, in file order, to C10's SPEC filter
      [spec_read] (type /\ source /\ time position), restricted to the messages that pass the read-time P1 /
      system-time tests and limited by max_messages.

   The reader model has no notion of "the payload has a P1 time attribute" / "a system time attribute" (read_next's
   require_p1_time / require_system_time tests) nor of a payload that fails to parse: these are the two functions
   [p1_attr], [sys_attr] of the Section below and the model's [m_decodes] (true here). *)
From Coq Require Import ZArith NArith List Bool Lia Sorted.
From FEC Require Import Generated.LogReaderConsts Models.FileIndexOpsM Models.LogReaderM
  Proofs.FileIndexOpsP Proofs.LogCursorP Proofs.LogReaderInitP Proofs.LogReaderP.
From FEC Require Generated.DataLoaderConsts Models.DataLoaderM Proofs.DataLoaderP.
Import ListNotations.
Open Scope Z_scope.
Module DC := DataLoaderConsts.
Module DL := DataLoaderM.
Module DLP := DataLoaderP.

(* ------------------------------------------------------------------------------------------------ *)
(** * Lists *)

Lemma Forall2_filter {A B} (R : A -> B -> Prop) (f : A -> bool) (g : B -> bool) l1 l2 :
  Forall2 R l1 l2 -> (forall a b, R a b -> f a = g b) -> Forall2 R (filter f l1) (filter g l2).
Proof.
  intros H Hfg. induction H as [| a b l1 l2 Hab H IH]; cbn [filter]; [constructor |].
  rewrite (Hfg a b Hab). destruct (g b); [constructor; assumption | exact IH].
Qed.

Lemma Forall2_firstn {A B} (R : A -> B -> Prop) n l1 l2 : Forall2 R l1 l2 -> Forall2 R (firstn n l1) (firstn n l2).
Proof. intros H. revert n. induction H; intros [| n]; cbn [firstn]; constructor; auto. Qed.

Lemma Forall2_skipn {A B} (R : A -> B -> Prop) n l1 l2 : Forall2 R l1 l2 -> Forall2 R (skipn n l1) (skipn n l2).
Proof. intros H. revert n. induction H; intros [| n]; cbn [skipn]; try constructor; auto. Qed.

Lemma Forall2_in_l {A B} (R : A -> B -> Prop) l1 l2 : Forall2 R l1 l2 -> forall a, In a l1 -> exists b, In b l2 /\ R a b.
Proof.
  induction 1 as [| a b l1 l2 Hab H IH]; intros x Hx; [destruct Hx |].
  destruct Hx as [<- | Hx]; [exists b; split; [left; reflexivity | exact Hab] |].
  destruct (IH x Hx) as (b' & Hb' & Hr). exists b'. split; [right; exact Hb' | exact Hr].
Qed.

Lemma Forall2_length' {A B} (R : A -> B -> Prop) l1 l2 : Forall2 R l1 l2 -> length l1 = length l2.
Proof. induction 1; cbn [length]; congruence. Qed.

Lemma Forall2_lastn {A B} (R : A -> B -> Prop) n l1 l2 : Forall2 R l1 l2 -> Forall2 R (DL.lastn n l1) (DL.lastn n l2).
Proof. intros H. unfold DL.lastn. rewrite (Forall2_length' R l1 l2 H). apply Forall2_skipn. exact H. Qed.

Lemma filter_filter {A} (f g : A -> bool) l : filter f (filter g l) = filter (fun x => g x && f x) l.
Proof. induction l as [| x l IH]; cbn [filter]; [reflexivity |]. destruct (g x); cbn [filter andb]; rewrite IH; reflexivity. Qed.

(* generic first N / last N *)
Definition limit_gen {A} (n : option Z) (l : list A) : list A :=
  match n with None => l | Some n => if 0 <=? n then firstn (Z.to_nat n) l else DL.lastn (Z.to_nat (- n)) l end.

Lemma Forall2_limit {A B} (R : A -> B -> Prop) n (l1 : list DL.DLmsg) (l2 : list B) (R' : DL.DLmsg -> B -> Prop) :
  Forall2 R' l1 l2 -> Forall2 R' (DL.limit n l1) (limit_gen n l2).
Proof.
  intros H. destruct n as [n |]; cbn [DL.limit limit_gen]; [| exact H].
  destruct (0 <=? n); [apply Forall2_firstn | apply Forall2_lastn]; exact H.
Qed.

(* ------------------------------------------------------------------------------------------------ *)
(** * The linked environment *)

Section Link.
  (* read_next(require_p1_time / require_system_time): payload.get_p1_time() / get_system_time_ns() is not None *)
  Variable p1_attr sys_attr : msg -> bool.
  (* the payload class exists and the payload parses (else read_next returns payload None and _read skips it) *)
  Variable dec_attr : msg -> bool.
  (* DataLoader.time_align_data, any function that keeps the keys of the dictionary it mutates *)
  Variable align : N -> option (list N) -> list (N * DL.data) -> list (N * DL.data).
  Hypothesis align_keys : forall mode at_ r, map fst (align mode at_ r) = map fst r.

  Definition conv (i : Z) (m : msg) : DL.DLmsg :=
    DL.mkMsg (Z.to_N i) (Z.to_N (m_type m)) (Z.to_N (m_src m)) (m_time m) (p1_attr m) (sys_attr m) (dec_attr m).
  Fixpoint convs_from (i : Z) (l : list msg) : list DL.DLmsg :=
    match l with [] => [] | m :: t => conv i m :: convs_from (i + 1) t end.

  (* a TimeRange object as DataLoader.read receives it (no preset t0); bounds in the reader model's unit *)
  Definition tr_link (tr : DL.trange) : trange := mkTR (DL.tr_start tr) (DL.tr_end tr) (DL.tr_abs tr) None.

  Definition orig (f : file) : findex := index_of_file f None.
  (* reader.filter_in_place(time_range) on the cleared index: FileIndex.__getitem__(TimeRange) *)
  Definition sel_range (f : file) (tr : DL.trange) : list entry :=
    match getitem fixed (orig f) (KTimeRange (tr_link tr)) with Ok i => fi_data i | Err _ => [] end.
  (* the loader-side messages whose index entries are in S *)
  Definition by_entries (S : list entry) (l : list DL.DLmsg) : list DL.DLmsg :=
    filter (fun d => memZ (Z.of_N (DL.m_ord d)) (map e_idx S)) l.

  Definition link_env (f : file) (avail : list N) : DL.env :=
    DL.mkEnv (convs_from 0 (f_msgs f)) avail
             (fun tr l => by_entries (sel_range f tr) l)
             (filter (fun d => DL.is_some (DL.m_time d)))
             align.

  Lemma link_env_ok f avail : DLP.env_ok (link_env f avail).
  Proof.
    constructor; cbn [link_env DL.e_align DL.e_tfilter DL.e_nonnan].
    - exact align_keys.
    - intros tr l. apply DLP.subseq_filter.
    - intros l. apply DLP.subseq_filter.
  Qed.

  (* ---------------------------------------------------------------------------------------------- *)
  (** ** Loader-side messages and index entries, side by side *)

  (* d is the loader's view of the index entry e of message m *)
  Definition rel (f : file) (d : DL.DLmsg) (e : entry) : Prop :=
    exists m, file_at f (e_off e) = Some m /\ e = entry_of (e_idx e) m /\ d = conv (e_idx e) m /\
              0 <= e_idx e /\ 0 <= m_type m /\ 0 <= m_src m.

  Definition ids_nonneg (f : file) : Prop := Forall (fun m => 0 <= m_type m /\ 0 <= m_src m) (f_msgs f).

  Lemma rel_base f : wf_file f -> ids_nonneg f ->
    Forall2 (rel f) (convs_from 0 (f_msgs f)) (entries_from 0 (f_msgs f)).
  Proof.
    intros Hwf Hid.
    assert (G : forall l pre i, f_msgs f = pre ++ l -> i = zlen pre -> Forall2 (rel f) (convs_from i l) (entries_from i l)).
    { induction l as [| m t IH]; intros pre i Hf Hi; cbn [convs_from entries_from]; [constructor |].
      constructor.
      - exists m. destruct Hwf as [Hsort [_ Hok]].
        assert (Hsplit := Hsort). rewrite Hf in Hsplit. destruct (sorted_mid _ _ _ _ Hsplit) as [Hbefore _].
        assert (Hokall := Hok). rewrite Hf in Hokall. apply Forall_app in Hokall. destruct Hokall as [Hokpre Hokl].
        assert (Hpre_lt : Forall (fun x => m_off x < m_off m) pre).
        { rewrite Forall_forall in *. intros x Hx. specialize (Hbefore x Hx). specialize (Hokpre x Hx).
          pose proof header_size_pos. unfold msg_before, msg_ok in *. lia. }
        unfold ids_nonneg in Hid. rewrite Hf in Hid. apply Forall_app in Hid. destruct Hid as [_ Hid].
        inversion Hid as [| ? ? [Hty Hsr] _]; subst.
        cbn [entry_of e_off e_idx]. repeat split; try assumption; try reflexivity.
        + eapply file_at_mid; eassumption.
        + apply zlen_nonneg.
      - apply (IH (pre ++ [m])); [rewrite <- app_assoc; exact Hf | rewrite zlen_app, zlen_cons, zlen_nil; lia]. }
    apply (G (f_msgs f) [] 0); reflexivity.
  Qed.

  (* ordinals of entries_from increase strictly *)
  Definition idx_lt (a b : entry) : Prop := e_idx a < e_idx b.
  Lemma entries_idx_inc l : forall i, StronglySorted idx_lt (entries_from i l) /\ Forall (fun e => i <= e_idx e) (entries_from i l).
  Proof.
    induction l as [| m t IH]; intros i; cbn [entries_from]; [split; constructor |].
    destruct (IH (i + 1)) as [Hs Hf]. split.
    - constructor; [exact Hs |]. rewrite Forall_forall in *. intros e He. specialize (Hf e He). unfold idx_lt. cbn [entry_of e_idx]. lia.
    - constructor; [cbn; lia |]. rewrite Forall_forall in *. intros e He. specialize (Hf e He). lia.
  Qed.

  (* selecting the loader-side messages of a sub-sequence of the entries gives exactly that sub-sequence *)
  Lemma by_entries_rel f (L : list DL.DLmsg) (E S : list entry) :
    Forall2 (rel f) L E -> StronglySorted idx_lt E -> subseq S E -> Forall2 (rel f) (by_entries S L) S.
  Proof.
    intros HLE. revert S. induction HLE as [| d e L E Hde HLE IH]; intros S Hsort Hsub.
    - inversion Hsub; subst. constructor.
    - inversion Hsort as [| ? ? Hsort' Hall]; subst.
      assert (Hd : Z.of_N (DL.m_ord d) = e_idx e).
      { destruct Hde as (m & _ & _ & -> & Hi & _). cbn [conv DL.m_ord]. lia. }
      assert (Hnot : forall S', subseq S' E -> memZ (e_idx e) (map e_idx S') = false).
      { intros S' HS'. unfold memZ. apply not_true_is_false. intros Hc. apply existsb_exists in Hc.
        destruct Hc as (x & Hx & Ex). apply in_map_iff in Hx. destruct Hx as (e' & <- & He').
        apply (subseq_In _ _ _ HS') in He'. rewrite Forall_forall in Hall. specialize (Hall e' He'). unfold idx_lt in Hall. lia. }
      unfold by_entries in *. cbn [filter]. rewrite Hd.
      inversion Hsub as [| x a b Hab | x a b Hab]; subst.
      + rewrite (Hnot S Hab). apply IH; assumption.
      + (* e is selected *)
        cbn [map memZ existsb]. rewrite Z.eqb_refl. cbn [orb]. constructor; [exact Hde |].
        match goal with |- Forall2 _ ?X _ => replace X with (filter (fun d0 : DL.DLmsg => memZ (Z.of_N (DL.m_ord d0)) (map e_idx a)) L) end;
          [apply IH; assumption |].
        apply filter_ext_in. intros d' Hd'. cbn [map memZ existsb].
        (* no later message has e's ordinal *)
        destruct (Forall2_in_l _ _ _ HLE d' Hd') as (e' & He' & (m' & _ & _ & -> & Hi' & _)).
        cbn [conv DL.m_ord]. rewrite Forall_forall in Hall. specialize (Hall e' He'). unfold idx_lt in Hall.
        replace (Z.of_N (Z.to_N (e_idx e')) =? e_idx e) with false by lia. reflexivity.
  Qed.

  (* ---------------------------------------------------------------------------------------------- *)
  (** ** The selections of the DataLoader model are the reader model's *)

  Definition c_idx : cfg := mkCfg None false false false false true true.    (* return_message_index only *)

  Lemma sel_range_spec f tr :
    wf_file f -> range_has_t0 c_idx f (Some (tr_link tr)) ->
    let w := spec_window (f_msgs f) (Some (tr_link tr)) in
    sel_range f tr = filter_pos (window_ok (fst w) (snd w)) (fi_data (orig f)).
  Proof.
    intros Hwf Ht w. unfold sel_range.
    destruct (index_of_file_props f None Hwf) as [_ [_ Hso]].
    destruct (getitem_range (orig f) (Some (tr_link tr)) Hso Ht) as [i [Ei Di]].
    cbn [range_key] in Ei. rewrite Ei, Di.
    unfold w. rewrite <- (window_agrees f None (Some (tr_link tr)) Hwf Ht). reflexivity.
  Qed.

  Lemma sel_range_sub f tr : subseq (sel_range f tr) (entries_from 0 (f_msgs f)).
  Proof.
    unfold sel_range. destruct (getitem fixed (orig f) (KTimeRange (tr_link tr))) as [i |] eqn:E; [| apply subseq_nil_l].
    eapply subseq_trans; [eapply getitem_subseq; exact E |]. cbn [orig index_of_file mk_index fi_data]. apply subseq_filter.
  Qed.

  Lemma memN_memZ z l : 0 <= z -> DL.memN (Z.to_N z) l = memZ z (map Z.of_N l).
  Proof.
    intros Hz. unfold DL.memN, memZ. induction l as [| n l IH]; cbn [existsb map]; [reflexivity |]. rewrite IH. f_equal.
    destruct (N.eqb_spec (Z.to_N z) n), (Z.eqb_spec z (Z.of_N n)); try reflexivity; lia.
  Qed.

  Definition typesZ (types : list N) : list Z := map Z.of_N types.
  Definition srcsZ (p : DL.params) : option (list Z) := option_map (map Z.of_N) (DL.p_src p).
  Definition rm_sel (b : bool) (l : list entry) : list entry := if b then filter (fun e => negb (is_nan e)) l else l.

  Lemma index_select_rel f avail p types b :
    wf_file f -> ids_nonneg f ->
    Forall2 (rel f) (DL.index_select (link_env f avail) p types b)
            (rm_sel (DL.p_p1 p && negb b) (filter (tyf (Some (typesZ types))) (sel_range f (DL.p_tr p)))).
  Proof.
    intros Hwf Hid. unfold DL.index_select. cbn [link_env DL.e_tfilter DL.e_log DL.e_nonnan].
    assert (H1 : Forall2 (rel f) (by_entries (sel_range f (DL.p_tr p)) (convs_from 0 (f_msgs f))) (sel_range f (DL.p_tr p))).
    { apply (by_entries_rel f _ (entries_from 0 (f_msgs f))); [apply rel_base; assumption | apply entries_idx_inc | apply sel_range_sub]. }
    assert (H2 : Forall2 (rel f) (filter (fun m => DL.memN (DL.m_type m) types) (by_entries (sel_range f (DL.p_tr p)) (convs_from 0 (f_msgs f))))
                         (filter (tyf (Some (typesZ types))) (sel_range f (DL.p_tr p)))).
    { apply Forall2_filter; [exact H1 |]. intros d e (m & _ & He & -> & _ & Hty & _).
      assert (Et : e_type e = m_type m) by (rewrite He; reflexivity).
      cbn [conv DL.m_type tyf]. rewrite Et. apply memN_memZ. exact Hty. }
    unfold rm_sel. destruct (DL.p_p1 p && negb b); [| exact H2].
    apply Forall2_filter; [exact H2 |]. intros d e (m & _ & He & -> & _).
    assert (Et : e_time e = match m_time m with Some t => Some (t / 8) | None => None end) by (rewrite He; reflexivity).
    unfold is_nan. rewrite Et. cbn [conv DL.m_time]. destruct (m_time m); reflexivity.
  Qed.

  (* one element of what the reader yields with return_message_index only: the message and its ordinal *)
  Definition rel_spec (d : DL.DLmsg) (x : msg * list piece) : Prop := exists i, snd x = [PIndex i] /\ d = conv i (fst x) /\ 0 <= m_src (fst x).

  Definition src_pass (p : DL.params) (d : DL.DLmsg) : bool :=
    match DL.p_src p with None => true | Some s => DL.memN (DL.m_src d) s end.

  Lemma read_all_rel f p L Es :
    Forall2 (rel f) L Es -> Forall2 rel_spec (filter (src_pass p) L) (read_all c_idx (srcsZ p) f Es).
  Proof.
    induction 1 as [| d e L Es Hde H IH]; cbn [filter read_all]; [constructor |].
    destruct Hde as (m & Hfile & He & Hd & Hi & Hty & Hsr).
    unfold read_entry. cbn [c_idx c_max_bytes exceeds]. rewrite Hfile.
    cbn [c_pay c_has_range orb negb andb fx_payload fixed].
    assert (Hs : src_pass p d = src_ok (srcsZ p) m).
    { unfold src_pass, src_ok, srcsZ. destruct (DL.p_src p) as [s |]; cbn [option_map]; [| reflexivity].
      rewrite Hd. cbn [conv DL.m_src]. apply memN_memZ. exact Hsr. }
    rewrite Hs. destruct (src_ok (srcsZ p) m); cbn [negb]; [| exact IH].
    constructor; [| exact IH]. exists (e_idx e). cbn [fst snd assemble c_hdr c_pay c_bytes c_offset c_index app].
    repeat split; [exact Hd | exact Hsr].
  Qed.

  (* the filter over C10's SPEC that the read-time tests of read_next / _read add, and (when P1 time is required and no
     system-time type is requested) the removal of untimed index entries *)
  Definition extraZ (p : DL.params) (b : bool) (x : msg * list piece) : bool :=
    (if DL.p_p1 p && negb b then (match m_time (fst x) with Some _ => true | None => false end) else true)
    && dec_attr (fst x)
    && (if DL.p_p1 p then p1_attr (fst x) else true) && (if DL.p_sys p then sys_attr (fst x) else true).

  Lemma spec_read_is_pass f p types tr :
    wf_file f -> range_has_t0 c_idx f (Some (tr_link tr)) -> types <> [] ->
    spec_read c_idx f (srcsZ p) (Some (typesZ types)) (Some (tr_link tr))
    = read_all c_idx (srcsZ p) f (filter (tyf (Some (typesZ types))) (sel_range f tr)).
  Proof.
    intros Hwf Ht Hne. rewrite (sel_range_spec f tr Hwf Ht). cbv zeta.
    destruct Hwf as [Hsort [Htimes Hok]].
    cbn [orig index_of_file mk_index fi_data]. unfold filter_pos.
    change None with (c_max_bytes c_idx) at 1.
    rewrite (core_pass c_idx (srcsZ p) (Some (typesZ types)) (spec_window (f_msgs f) (Some (tr_link tr))) f (f_msgs f) [] [] 0
                       eq_refl eq_refl eq_refl Hsort Hok).
    unfold spec_read. assert (Hn : norm_types (Some (typesZ types)) = Some (typesZ types)).
    { unfold typesZ. destruct types; [congruence | reflexivity]. }
    rewrite Hn. reflexivity.
  Qed.

  Lemma if_filter {A} (b : bool) (g : A -> bool) l : (if b then filter g l else l) = filter (fun x => if b then g x else true) l.
  Proof. destruct b; [reflexivity |]. symmetry. apply DLP.filter_all. reflexivity. Qed.

  Lemma reader_seq_rel f avail p types needed' :
    wf_file f -> ids_nonneg f -> range_has_t0 c_idx f (Some (tr_link (DL.p_tr p))) -> types <> [] ->
    Forall2 rel_spec (DLP.reader_seq (link_env f avail) p types needed')
            (filter (extraZ p (existsb (fun t => DL.memN t DC.sys_types) needed'))
                    (spec_read c_idx f (srcsZ p) (Some (typesZ types)) (Some (tr_link (DL.p_tr p))))).
  Proof.
    intros Hwf Hid Ht Hne. unfold DLP.reader_seq.
    set (b := existsb (fun t => DL.memN t DC.sys_types) needed').
    rewrite (spec_read_is_pass f p types (DL.p_tr p) Hwf Ht Hne).
    pose proof (index_select_rel f avail p types b Hwf Hid) as Hsel.
    set (Es := filter (tyf (Some (typesZ types))) (sel_range f (DL.p_tr p))) in *.
    (* move the removal of untimed entries behind the pass over the index *)
    unfold DL.index_select in *. cbn [link_env DL.e_tfilter DL.e_log DL.e_nonnan] in *.
    set (A := filter (fun m => DL.memN (DL.m_type m) types) (by_entries (sel_range f (DL.p_tr p)) (convs_from 0 (f_msgs f)))) in *.
    assert (HA : Forall2 (rel f) A Es).
    { unfold A, Es. pose proof (index_select_rel f avail p types true Hwf Hid) as H0.
      unfold DL.index_select in H0. cbn [link_env DL.e_tfilter DL.e_log DL.e_nonnan] in H0.
      rewrite andb_false_r in H0. exact H0. }
    pose proof (read_all_rel f p A Es HA) as Hra.
    set (nn := fun d : DL.DLmsg => if DL.p_p1 p && negb b then DL.is_some (DL.m_time d) else true).
    set (extra := fun d : DL.DLmsg => nn d && DL.m_decodes d && (if DL.p_p1 p then DL.m_p1_some d else true)
                                      && (if DL.p_sys p then DL.m_sys_some d else true)).
    assert (Hmine : filter (DL.read_pass (link_env f avail) p)
                           (if DL.p_p1 p && negb b then filter (fun d => DL.is_some (DL.m_time d)) A else A)
                    = filter extra (filter (src_pass p) A)).
    { rewrite if_filter, !filter_filter. apply filter_ext. intros d. unfold extra, nn, src_pass, DL.read_pass.
      change DC.reader_intersects_sampled_sources with false. cbn [negb orb].
      destruct (DL.p_src p); rewrite ?andb_true_r;
        destruct (if DL.p_p1 p && negb b then DL.is_some (DL.m_time d) else true), (DL.m_decodes d),
                 (if DL.p_p1 p then DL.m_p1_some d else true), (if DL.p_sys p then DL.m_sys_some d else true);
        try destruct (DL.memN (DL.m_src d) l); reflexivity. }
    rewrite Hmine. apply Forall2_filter; [exact Hra |].
    intros d x (i & _ & -> & _). unfold extra, nn, extraZ. cbn [conv DL.m_time DL.m_decodes DL.m_p1_some DL.m_sys_some].
    fold b. destruct (m_time (fst x)); reflexivity.
  Qed.

  (* ---------------------------------------------------------------------------------------------- *)
  (** ** What a read returns is C10's SPEC filter, limited *)

  Lemma reduce_needed_sub p l t : In t (DL.reduce_needed p l) -> In t l.
  Proof.
    unfold DL.reduce_needed. intros H.
    assert (Hs : forall g, In t (filter g (filter (fun t => DL.memN t DC.all_types) l)) -> In t l).
    { intros g Hg. apply filter_In in Hg. destruct Hg as [Hg _]. apply filter_In in Hg. apply Hg. }
    destruct (DL.p_p1 p && DL.p_sys p); [eapply Hs; exact H |].
    destruct (DL.p_p1 p); [eapply Hs; exact H |]. destruct (DL.p_sys p); [eapply Hs; exact H |].
    apply filter_In in H. apply H.
  Qed.

  Theorem spec_messages_rel f avail a p types ign n0 ns :
    wf_file f -> ids_nonneg f ->
    DL.norm_args (link_env f avail) a = (p, types, ign) -> DL.reduce_needed p types = n0 :: ns ->
    range_has_t0 c_idx f (Some (tr_link (DL.a_tr a))) ->
    Forall2 rel_spec (DL.spec_messages (link_env f avail) a false)
      (limit_gen (DL.a_max a)
         (filter (extraZ p (existsb (fun t => DL.memN t DC.sys_types) (n0 :: ns)))
                 (spec_read c_idx f (srcsZ p) (Some (typesZ types)) (Some (tr_link (DL.a_tr a)))))).
  Proof.
    intros Hwf Hid En Er Ht.
    assert (Htr : DL.p_tr p = DL.a_tr a) by (unfold DL.norm_args in En; inversion En; reflexivity).
    assert (Hne : types <> []).
    { intros ->. assert (Hin : In n0 (DL.reduce_needed p [])) by (rewrite Er; left; reflexivity).
      apply reduce_needed_sub in Hin. destruct Hin. }
    unfold DL.spec_messages, DL.spec_selected. rewrite En, Er.
    apply (Forall2_limit rel_spec).
    change (filter (DL.spec_pass (link_env f avail) a p false) ?l) with (filter (DL.read_pass (link_env f avail) p) l).
    fold (DLP.reader_seq (link_env f avail) p types (n0 :: ns)).
    rewrite <- Htr in *. apply reader_seq_rel; assumption.
  Qed.

  Lemma convs_in i l d : In d (convs_from i l) -> exists j m, In m l /\ d = conv j m.
  Proof.
    revert i. induction l as [| m l IH]; intros i H; [destruct H |].
    destruct H as [<- | H]; [exists i, m; split; [left; reflexivity | reflexivity] |].
    destruct (IH _ H) as (j & m' & Hm & ->). exists j, m'. split; [right; exact Hm | reflexivity].
  Qed.

  (* every message of a requested type has a payload class and parses *)
  Definition requested_decode (f : file) (avail : list N) (a : DL.args) : Prop :=
    forall m, In m (f_msgs f) -> DL.memN (Z.to_N (m_type m)) (DLP.types_of (link_env f avail) a) = true -> dec_attr m = true.

  Lemma link_all_decode f avail a : requested_decode f avail a -> DLP.all_decode (link_env f avail) a.
  Proof.
    intros H d Hd Hty. cbn [link_env DL.e_log] in Hd. destruct (convs_in _ _ _ Hd) as (j & m & Hm & ->).
    cbn [conv DL.m_decodes DL.m_type] in *. apply H; assumption.
  Qed.

  (* the composed statement, dict output, after ANY history *)
  Theorem read_is_reader_filter_dict f avail h a p types ign n0 ns :
    wf_file f -> ids_nonneg f -> requested_decode f avail a ->
    DL.norm_args (link_env f avail) a = (p, types, ign) -> DL.reduce_needed p types = n0 :: ns ->
    range_has_t0 c_idx f (Some (tr_link (DL.a_tr a))) ->
    DL.a_order a = false -> DL.a_align a = DC.align_none -> (DL.a_numpy a = false \/ DL.a_keep a = true) ->
    exists r M,
      snd (DL.read (link_env f avail) (DL.run (link_env f avail) DL.init_state h) a) = DL.OutDict r /\
      map fst r = types /\
      (forall t d, DL.lookup_data t r = Some d -> DL.d_msgs d = map DL.RFile (DL.of_type t M)) /\
      Forall2 rel_spec M
        (limit_gen (DL.a_max a)
           (filter (extraZ p (existsb (fun t => DL.memN t DC.sys_types) (n0 :: ns)))
                   (spec_read c_idx f (srcsZ p) (Some (typesZ types)) (Some (tr_link (DL.a_tr a)))))).
  Proof.
    intros Hwf Hid Hdec En Er Ht Ho Hal Hnk.
    rewrite (DLP.cache_transparent _ h a (link_env_ok f avail)).
    destruct (DLP.max_messages_semantics_full_dict (link_env f avail) a (link_env_ok f avail) (link_all_decode f avail a Hdec) Ho Hal Hnk)
      as (r & Hr & Hk & Hall).
    exists r, (DL.spec_messages (link_env f avail) a false). split; [exact Hr |]. split.
    - rewrite Hk. unfold DLP.types_of. rewrite En. reflexivity.
    - split; [exact Hall |]. eapply spec_messages_rel; eassumption.
  Qed.

  (* in-order output *)
  Theorem read_is_reader_filter_in_order f avail h a p types ign n0 ns :
    wf_file f -> ids_nonneg f -> requested_decode f avail a ->
    DL.norm_args (link_env f avail) a = (p, types, ign) -> DL.reduce_needed p types = n0 :: ns ->
    range_has_t0 c_idx f (Some (tr_link (DL.a_tr a))) ->
    DL.a_order a = true ->
    exists d M,
      snd (DL.read (link_env f avail) (DL.run (link_env f avail) DL.init_state h) a) = DL.OutOrder d /\
      DL.d_msgs d = map DL.RFile M /\
      Forall2 rel_spec M
        (limit_gen (DL.a_max a)
           (filter (extraZ p (existsb (fun t => DL.memN t DC.sys_types) (n0 :: ns)))
                   (spec_read c_idx f (srcsZ p) (Some (typesZ types)) (Some (tr_link (DL.a_tr a)))))).
  Proof.
    intros Hwf Hid Hdec En Er Ht Ho.
    rewrite (DLP.cache_transparent _ h a (link_env_ok f avail)).
    destruct (DLP.max_messages_semantics_full_in_order (link_env f avail) a (link_env_ok f avail) (link_all_decode f avail a Hdec) Ho)
      as (d & Hd & Hm & _).
    exists d, (DL.spec_messages (link_env f avail) a false). split; [exact Hd |]. split; [exact Hm |].
    eapply spec_messages_rel; eassumption.
  Qed.

  (* ---------------------------------------------------------------------------------------------- *)
  (** ** The operations _read performs on the reader, in the operational reader model *)

  Definition sl_sel {A} (sl : option Z) (l : list A) : list A :=
    match sl with None => l | Some n => if 0 <=? n then firstn (Z.to_nat n) l else DL.lastn (Z.to_nat (- n)) l end.

  (* self.reader.rewind(); clear_filters(); filter_in_place(time_range); filter_in_place(message_types);
     requested_source_ids = None  /  filter_in_place(None, source_ids=...); filter_out_invalid_p1_times();
     filter_in_place(slice(None, N)) / (slice(N, None)); then read_next() until StopIteration *)
  Definition drive (c : cfg) (f : file) (r : reader) (R : trange) (tys : list Z) (srcs : option (list Z))
             (rm : bool) (sl : option Z) : res (list (msg * list piece)) :=
    let r0 := rewind r in
    match filter_in_place fixed r0 KNone true None with (_, Err x) => Err x | (r1, Ok _) =>
    match filter_in_place fixed r1 (KTimeRange R) false None with (_, Err x) => Err x | (r2, Ok _) =>
    match filter_in_place fixed r2 (KTypes tys) false None with (_, Err x) => Err x | (r3, Ok _) =>
    match (match srcs with
           | None => (set_srcs r3 None, Ok tt)
           | Some s => filter_in_place fixed r3 KNone false (Some s) end) with (_, Err x) => Err x | (r4, Ok _) =>
    match (if rm then filter_in_place fixed r4 (KTimeSlice None None (Some RemoveNans)) false None
           else (r4, Ok tt)) with (_, Err x) => Err x | (r5, Ok _) =>
    match (match sl with
           | None => (r5, Ok tt)
           | Some n => filter_in_place fixed r5 (if 0 <=? n then KIdxSlice None (Some n) None
                                                 else KIdxSlice (Some n) None None) false None
           end) with (_, Err x) => Err x | (r6, Ok _) =>
    iterate fixed c f (S (length (fi_data (r_index r6)))) r6
    end end end end end end.

  (* filter_in_place on a reader whose cursor is at the start *)
  Lemma fip_start (r : reader) (k : key) (clr : bool) (s : option (list Z)) (i : findex) :
    r_last r = -1 ->
    getitem fixed (r_index (apply_source_ids fixed (if clr then set_index r (r_orig r) else r) s)) k = Ok i ->
    exists r', filter_in_place fixed r k clr s = (r', Ok tt) /\
               r_index r' = i /\ r_last r' = -1 /\ r_next r' = 0 /\ r_orig r' = r_orig r /\
               r_srcs r' = match s with None => r_srcs r | Some ids => Some ids end.
  Proof.
    intros Hl Hg. unfold filter_in_place. cbn [prev_offset fx_last_off fixed]. rewrite Hg, Hl.
    eexists. split; [reflexivity |].
    assert (Hrel : relocate (fi_data i) (-1) = 0) by (unfold relocate; destruct (zlen (fi_data i) =? 0); reflexivity).
    rewrite Hrel. destruct s, clr, r; cbn; repeat split; try reflexivity; exact Hl.
  Qed.

  Lemma filter_i_from_all {A} (g : Z -> A -> bool) : (forall i x, g i x = true) -> forall l i, filter_i_from g i l = l.
  Proof. intros Hg. induction l as [| x l IH]; intros i; cbn [filter_i_from]; [reflexivity |]. rewrite Hg, IH. reflexivity. Qed.

  Lemma py_slice_first {A} (l : list A) n : 0 <= n -> py_slice l None (Some n) 1 = firstn (Z.to_nat n) l.
  Proof.
    intros Hn. unfold py_slice, filter_i. rewrite filter_i_from_all by (intros; rewrite Z.mod_1_r; reflexivity).
    unfold slice_nn, norm_idx. replace (n <? 0) with false by lia. cbn [skipn Z.to_nat]. rewrite Z.sub_0_r.
    unfold zlen. destruct (Z.le_gt_cases n (Z.of_nat (length l))) as [H | H].
    - rewrite Z.min_l by lia. reflexivity.
    - rewrite Z.min_r by lia. rewrite Nat2Z.id. rewrite !firstn_all2 by lia. reflexivity.
  Qed.

  Lemma py_slice_last {A} (l : list A) n : n < 0 -> py_slice l (Some n) None 1 = DL.lastn (Z.to_nat (- n)) l.
  Proof.
    intros Hn. unfold py_slice, filter_i. rewrite filter_i_from_all by (intros; rewrite Z.mod_1_r; reflexivity).
    unfold slice_nn, norm_idx, DL.lastn. replace (n <? 0) with true by lia. unfold zlen.
    rewrite firstn_all2 by (rewrite skipn_length; lia). f_equal. lia.
  Qed.

  Theorem drive_selection c f r R tys srcs rm sl :
    wf_file f -> r_orig r = index_of_file f None -> c_max_bytes c = None -> range_has_t0 c f (Some R) ->
    let w := spec_window (f_msgs f) (Some R) in
    drive c f r R tys srcs rm sl
    = Ok (read_all c srcs f
            (sl_sel sl (rm_sel rm (filter (tyf (Some tys)) (filter_pos (window_ok (fst w) (snd w)) (fi_data (index_of_file f None))))))).
  Proof.
    intros Hwf Ho Hmb Ht w. unfold drive.
    unfold range_has_t0 in Ht. rewrite Hmb in Ht.
    destruct (index_of_file_props f None Hwf) as [_ [_ Hso]].
    set (og := index_of_file f None) in *.
    (* clear_filters *)
    destruct (fip_start (rewind r) KNone true None (r_orig r) eq_refl eq_refl) as (r1 & E1 & I1 & L1 & N1 & O1 & S1).
    rewrite E1. cbn [rewind set_cursor r_orig r_srcs] in O1, S1.
    (* time range *)
    destruct (getitem_range og (Some R) Hso Ht) as [i2 [G2 D2]]. cbn [range_key] in G2.
    destruct (fip_start r1 (KTimeRange R) false None i2 L1) as (r2 & E2 & I2 & L2 & N2 & O2 & S2).
    { cbn [apply_source_ids]. rewrite I1, Ho. exact G2. }
    rewrite E2.
    (* types *)
    destruct (getitem_types i2 (Some tys)) as [i3 [G3 [D3 _]]]. cbn [types_key] in G3.
    destruct (fip_start r2 (KTypes tys) false None i3 L2) as (r3 & E3 & I3 & L3 & N3 & O3 & S3).
    { cbn [apply_source_ids]. rewrite I2. exact G3. }
    rewrite E3.
    (* source ids *)
    assert (H4 : exists r4, (match srcs with None => (set_srcs r3 None, Ok tt) | Some s => filter_in_place fixed r3 KNone false (Some s) end) = (r4, Ok tt)
                            /\ r_index r4 = i3 /\ r_last r4 = -1 /\ r_next r4 = 0 /\ r_srcs r4 = srcs).
    { destruct srcs as [s |].
      - destruct (fip_start r3 KNone false (Some s) (r_index r3) L3) as (r4 & E4 & I4 & L4 & N4 & _ & S4).
        { destruct r3; reflexivity. }
        exists r4. rewrite E4, I4, I3. repeat split; assumption.
      - eexists. split; [reflexivity |]. destruct r3; cbn in *. repeat split; assumption. }
    destruct H4 as (r4 & E4 & I4 & L4 & N4 & S4). rewrite E4.
    (* filter_out_invalid_p1_times *)
    assert (H5 : exists r5, (if rm then filter_in_place fixed r4 (KTimeSlice None None (Some RemoveNans)) false None else (r4, Ok tt)) = (r5, Ok tt)
                            /\ fi_data (r_index r5) = rm_sel rm (fi_data i3) /\ r_last r5 = -1 /\ r_next r5 = 0 /\ r_srcs r5 = srcs).
    { destruct rm.
      - pose proof (remove_untimed_getitem i3) as G5.
        destruct (zlen (fi_data i3) =? 0) eqn:E0.
        + destruct (fip_start r4 (KTimeSlice None None (Some RemoveNans)) false None (mkFI [] None) L4) as (r5 & E5 & I5 & L5 & N5 & _ & S5).
          { cbn [apply_source_ids]. rewrite I4. exact G5. }
          exists r5. rewrite E5, I5. apply Z.eqb_eq, zlen_zero in E0. rewrite E0. cbn [rm_sel filter fi_data].
          repeat split; try assumption. rewrite S5. exact S4.
        + destruct (fip_start r4 (KTimeSlice None None (Some RemoveNans)) false None
                     (mk_index (filter (fun e => negb (is_nan e)) (fi_data i3)) (fi_t0 i3)) L4) as (r5 & E5 & I5 & L5 & N5 & _ & S5).
          { cbn [apply_source_ids]. rewrite I4. exact G5. }
          exists r5. rewrite E5, I5. cbn [rm_sel mk_index fi_data]. repeat split; try assumption. rewrite S5. exact S4.
      - exists r4. rewrite I4. repeat split; assumption. }
    destruct H5 as (r5 & E5 & D5 & L5 & N5 & S5). rewrite E5.
    (* the int pre-slice *)
    assert (H6 : exists r6, (match sl with None => (r5, Ok tt)
                             | Some n => filter_in_place fixed r5 (if 0 <=? n then KIdxSlice None (Some n) None else KIdxSlice (Some n) None None) false None end)
                            = (r6, Ok tt)
                            /\ fi_data (r_index r6) = sl_sel sl (fi_data (r_index r5)) /\ r_next r6 = 0 /\ r_srcs r6 = srcs).
    { destruct sl as [n |]; [| exists r5; repeat split; assumption].
      assert (G6 : exists i6, getitem fixed (r_index r5) (if 0 <=? n then KIdxSlice None (Some n) None else KIdxSlice (Some n) None None) = Ok i6
                              /\ fi_data i6 = sl_sel (Some n) (fi_data (r_index r5))).
      { cbn [sl_sel]. destruct (0 <=? n) eqn:En; cbn [getitem].
        - destruct (zlen (fi_data (r_index r5)) =? 0) eqn:E0.
          + eexists. split; [reflexivity |]. apply Z.eqb_eq, zlen_zero in E0. rewrite E0, firstn_nil. reflexivity.
          + eexists. split; [reflexivity |]. cbn [mk_index fi_data]. apply py_slice_first. lia.
        - destruct (zlen (fi_data (r_index r5)) =? 0) eqn:E0.
          + eexists. split; [reflexivity |]. apply Z.eqb_eq, zlen_zero in E0. rewrite E0. rewrite DLP.lastn_nil. reflexivity.
          + eexists. split; [reflexivity |]. cbn [mk_index fi_data]. apply py_slice_last. lia. }
      destruct G6 as (i6 & G6 & D6).
      destruct (fip_start r5 (if 0 <=? n then KIdxSlice None (Some n) None else KIdxSlice (Some n) None None) false None i6 L5)
        as (r6 & E6 & I6 & _ & N6 & _ & S6).
      { cbn [apply_source_ids]. exact G6. }
      exists r6. rewrite E6, I6. repeat split; try assumption. rewrite S6. exact S5. }
    destruct H6 as (r6 & E6 & D6 & N6 & S6). rewrite E6.
    rewrite (iterate_read_all c f (fi_data (r_index r6)) _ r6); [| lia | rewrite N6; reflexivity | lia].
    rewrite S6, D6, D5, D3, D2.
    unfold w. rewrite <- (window_agrees f None (Some R) Hwf Ht). reflexivity.
  Qed.

  (* ... and that selection is, entry for entry, the list the DataLoader model runs its loop over *)
  Lemma loader_index_rel f avail p types b (sl : option Z) :
    wf_file f -> ids_nonneg f -> range_has_t0 c_idx f (Some (tr_link (DL.p_tr p))) ->
    let w := spec_window (f_msgs f) (Some (tr_link (DL.p_tr p))) in
    Forall2 (rel f)
      (match sl with Some n => DL.pre_slice n (DL.index_select (link_env f avail) p types b)
                   | None => DL.index_select (link_env f avail) p types b end)
      (sl_sel sl (rm_sel (DL.p_p1 p && negb b) (filter (tyf (Some (typesZ types)))
                   (filter_pos (window_ok (fst w) (snd w)) (fi_data (index_of_file f None)))))).
  Proof.
    intros Hwf Hid Ht w. pose proof (index_select_rel f avail p types b Hwf Hid) as H.
    rewrite (sel_range_spec f (DL.p_tr p) Hwf Ht) in H. cbv zeta in H. fold w in H. unfold orig in H.
    destruct sl as [n |]; cbn [sl_sel]; [| exact H].
    unfold DL.pre_slice. destruct (0 <=? n); [apply Forall2_firstn | apply Forall2_lastn]; exact H.
  Qed.
End Link.

(* ------------------------------------------------------------------------------------------------ *)
(** * A concrete instance (the log E P1 E P2 E P3 E U of Proofs/LogReaderExamplesP.v) *)
From FEC Require Import Proofs.LogReaderExamplesP.

Definition ex_p1 (m : msg) : bool := m_type m =? 10000.
Definition ex_sys (m : msg) : bool := m_type m =? 13004.
Definition ex_dec (m : msg) : bool := true.
Definition ex_env : DL.env := link_env ex_p1 ex_sys ex_dec DL.align_impl ex_file [0%N].
(* read([Pose, Event], max_messages=-3, time_range=TimeRange(1 s, None) relative) *)
Definition ex_args : DL.args :=
  DL.mkArgs (Some [10000; 13004]%N) (DL.mkTr (Some 8) None false) None false (Some (-3)) false false false false false
            false false true 0%N None.

Lemma link_example :
  wf_file ex_file /\ ids_nonneg ex_file /\ requested_decode ex_p1 ex_sys ex_dec DL.align_impl ex_file [0%N] ex_args /\
  range_has_t0 c_idx ex_file (Some (tr_link (DL.a_tr ex_args))) /\
  DL.reduce_needed (fst (fst (DL.norm_args ex_env ex_args))) (snd (fst (DL.norm_args ex_env ex_args))) = [10000; 13004]%N /\
  map DL.m_ord (DL.spec_messages ex_env ex_args false) = [4; 5; 6]%N /\
  map (fun x => snd x) (limit_gen (Some (-3))
        (filter (extraZ ex_p1 ex_sys ex_dec (fst (fst (DL.norm_args ex_env ex_args))) false)
                (spec_read c_idx ex_file None (Some [10000; 13004]) (Some (tr_link (DL.a_tr ex_args))))))
  = [[PIndex 4]; [PIndex 5]; [PIndex 6]].
Proof.
  split; [exact ex_file_wf |]. split; [repeat constructor; cbn; lia |]. split; [intros m _ _; reflexivity |].
  split; [right; vm_compute; discriminate |]. vm_compute. repeat split; reflexivity.
Qed.

(* the definitions of Models/DataLoaderLinkM.v (used by the extracted runner) are these *)
From FEC Require Models.DataLoaderLinkM.
Lemma linked_env_eq p1 sy dec al f avail : DataLoaderLinkM.linked_env p1 sy dec al f avail = link_env p1 sy dec al f avail.
Proof.
  unfold DataLoaderLinkM.linked_env, link_env. f_equal.
  generalize 0. induction (f_msgs f) as [| m l IH]; intros i; cbn; [reflexivity |]. rewrite IH. reflexivity.
Qed.
