(* C17 — proofs about the DynamicEnumMeta model: for every class body [d] without reserved names and every history
   of allowed operations, each observable is the SPEC function of [d] and the operation alone. *)
From Coq Require Import ZArith NArith List Bool String Ascii Lia DecimalString DecimalZ DecimalPos.
From FEC Require Import Generated.DynEnumTables Models.DynEnumM.
Import ListNotations.
Open Scope Z_scope.

(* ---------------------------------------------------------------------------------------------------------- *)
(* strings *)

Lemma starts_with_app : forall p s, starts_with p (p ++ s)%string = true.
Proof. induction p; intros; cbn; [reflexivity|]. rewrite Ascii.eqb_refl, IHp. reflexivity. Qed.

Lemma starts_with_smap : forall f p s, starts_with p s = true -> starts_with (smap f p) (smap f s) = true.
Proof.
  induction p; intros s H; cbn in *; [reflexivity|].
  destruct s; [discriminate|]. cbn.
  apply andb_true_iff in H. destruct H as [H1 H2]. apply Ascii.eqb_eq in H1. subst.
  rewrite Ascii.eqb_refl, IHp; auto.
Qed.

Lemma app_inj_l : forall p a b, (p ++ a = p ++ b)%string -> a = b.
Proof. induction p; cbn; intros; [assumption|]. injection H. auto. Qed.

Lemma to_int_nonnil : forall z, Z.to_int z <> Decimal.Pos Decimal.Nil /\ Z.to_int z <> Decimal.Neg Decimal.Nil.
Proof.
  destruct z; cbn; split; try discriminate; intro H; injection H; apply Unsigned.to_uint_nonnil.
Qed.

Lemma dec_inj : forall a b, dec a = dec b -> a = b.
Proof.
  unfold dec. intros a b H. apply to_int_inj.
  assert (Ha := NilZero.isi (Z.to_int a) (proj1 (to_int_nonnil a)) (proj2 (to_int_nonnil a))).
  assert (Hb := NilZero.isi (Z.to_int b) (proj1 (to_int_nonnil b)) (proj2 (to_int_nonnil b))).
  rewrite H in Ha. rewrite Ha in Hb. injection Hb. auto.
Qed.

Lemma hidden_name_inj : forall a b, hidden_name a = hidden_name b -> a = b.
Proof. unfold hidden_name. intros a b H. apply app_inj_l in H. apply app_inj_l in H. apply dec_inj; assumption. Qed.

Lemma hidden_name_hidden : forall v, starts_with unrecognized_prefix (hidden_name v) = true.
Proof. intros. unfold hidden_name. apply starts_with_app. Qed.

Local Opaque unrecognized_prefix hidden_sep dec hidden_name.
Arguments starts_with : simpl never.

(* ---------------------------------------------------------------------------------------------------------- *)
(* lists *)

Lemma find_app : forall {A} (f : A -> bool) l1 l2,
  find f (l1 ++ l2) = match find f l1 with Some x => Some x | None => find f l2 end.
Proof. induction l1; intros; cbn; [reflexivity|]. destruct (f a); auto. Qed.

Lemma find_none_iff : forall {A} (f : A -> bool) l, find f l = None <-> (forall x, In x l -> f x = false).
Proof.
  split.
  - apply find_none.
  - induction l; intros H; cbn; [reflexivity|].
    rewrite (H a (or_introl eq_refl)). apply IHl. intros; apply H; right; assumption.
Qed.

Lemma filter_none : forall {A} (f : A -> bool) l, (forall x, In x l -> f x = false) -> filter f l = [].
Proof.
  induction l; intros H; cbn; [reflexivity|].
  rewrite (H a (or_introl eq_refl)). apply IHl. intros; apply H; right; assumption.
Qed.

Lemma filter_all : forall {A} (f : A -> bool) l, (forall x, In x l -> f x = true) -> filter f l = l.
Proof.
  induction l; intros H; cbn; [reflexivity|].
  rewrite (H a (or_introl eq_refl)). f_equal. apply IHl. intros; apply H; right; assumption.
Qed.

Lemma filter_rev : forall {A} (f : A -> bool) l, filter f (rev l) = rev (filter f l).
Proof.
  induction l; cbn; [reflexivity|]. rewrite filter_app, IHl. cbn.
  destruct (f a); cbn; [reflexivity | apply app_nil_r].
Qed.

(* canonical members *)
Fixpoint seen_after (seen : list Z) (l : list member) : list Z :=
  match l with
  | [] => seen
  | e :: t => if existsb (Z.eqb (snd e)) seen then seen_after seen t else seen_after (snd e :: seen) t
  end.

Lemma canonical_from_app : forall a seen b,
  canonical_from seen (a ++ b) = canonical_from seen a ++ canonical_from (seen_after seen a) b.
Proof.
  induction a; intros; cbn; [reflexivity|].
  destruct (existsb (Z.eqb (snd a)) seen); [apply IHa|]. cbn. f_equal. apply IHa.
Qed.

Lemma canonical_from_incl : forall l seen x, In x (canonical_from seen l) -> In x l.
Proof.
  induction l; intros seen x H; cbn in *; [assumption|].
  destruct (existsb (Z.eqb (snd a)) seen).
  - right. eapply IHl; eassumption.
  - destruct H; [left; assumption | right; eapply IHl; eassumption].
Qed.

(* ---------------------------------------------------------------------------------------------------------- *)
(* the invariant of reachable states *)

Definition extra_ok (d : list member) (e : member) : Prop :=
  fst e = hidden_name (snd e) /\ by_value d (snd e) = None.

Definition Inv (d : list member) (st : enum_state) : Prop :=
  defined st = d /\ Forall (extra_ok d) (extra st).

Lemma inv_init : forall d, Inv d (init d).
Proof. intros. split; [reflexivity | constructor]. Qed.

Section WithTable.
Variable d : list member.
Hypothesis Htab : table_ok d = true.
Hypothesis Hpre : prefix_ok = true.

Lemma d_nonempty : d <> [].
Proof. intro H. rewrite H in Htab. discriminate. Qed.

Lemma d_not_hidden : forall e, In e d -> starts_with unrecognized_prefix (fst e) = false.
Proof.
  intros e He. unfold table_ok in Htab. destruct d as [|x l] eqn:E; [discriminate|].
  rewrite forallb_forall in Htab. apply Htab in He. apply negb_true_iff in He. assumption.
Qed.

Lemma upper_prefix : upper unrecognized_prefix = unrecognized_prefix.
Proof. apply String.eqb_eq. exact Hpre. Qed.

Lemma hidden_upper : forall s, starts_with unrecognized_prefix s = true ->
  starts_with unrecognized_prefix (upper s) = true.
Proof. intros s H. rewrite <- upper_prefix. apply starts_with_smap. assumption. Qed.

Lemma by_value_some : forall l v m, by_value l v = Some m -> In m l /\ snd m = v.
Proof.
  unfold by_value. intros l v m H. apply find_some in H. destruct H as [H1 H2].
  unfold value_is in H2. apply Z.eqb_eq in H2. auto.
Qed.

Lemma by_value_in : forall l e, In e l -> by_value l (snd e) <> None.
Proof.
  unfold by_value. intros l e He H. rewrite find_none_iff in H. specialize (H e He).
  unfold value_is in H. rewrite Z.eqb_refl in H. discriminate.
Qed.

Lemma by_value_app : forall l1 l2 v,
  by_value (l1 ++ l2) v = match by_value l1 v with Some m => Some m | None => by_value l2 v end.
Proof. intros. unfold by_value. apply find_app. Qed.

Lemma extras_by_value : forall x v m, Forall (extra_ok d) x -> by_value x v = Some m -> m = (hidden_name v, v).
Proof.
  intros x v m Hx H. apply by_value_some in H. destruct H as [Hin Hv].
  rewrite Forall_forall in Hx. destruct (Hx m Hin) as [Hn _]. destruct m as [n w]. cbn in *. subst. reflexivity.
Qed.

Lemma extras_hidden : forall x e, Forall (extra_ok d) x -> In e x -> starts_with unrecognized_prefix (fst e) = true.
Proof.
  intros x e Hx He. rewrite Forall_forall in Hx. destruct (Hx e He) as [Hn _]. rewrite Hn. apply hidden_name_hidden.
Qed.

(* name lookup in a reachable state *)
Lemma find_name_extras_none : forall x s, Forall (extra_ok d) x -> starts_with unrecognized_prefix s = false ->
  find (name_is s) x = None.
Proof.
  intros x s Hx Hs. apply find_none_iff. intros e He. unfold name_is.
  destruct (String.eqb (fst e) s) eqn:E; [|reflexivity].
  apply String.eqb_eq in E. rewrite <- E in Hs. rewrite (extras_hidden x e Hx He) in Hs. discriminate.
Qed.

Lemma find_name_d_hidden_none : forall s, starts_with unrecognized_prefix s = true -> find (name_is s) d = None.
Proof.
  intros s Hs. apply find_none_iff. intros e He. unfold name_is.
  destruct (String.eqb (fst e) s) eqn:E; [|reflexivity].
  apply String.eqb_eq in E. rewrite <- E in Hs. rewrite (d_not_hidden e He) in Hs. discriminate.
Qed.

Lemma by_name_d_found : forall x s e, find (name_is s) d = Some e -> by_name (d ++ x) s = by_name d s.
Proof.
  intros x s e H. unfold by_name. rewrite find_app, H. rewrite by_value_app.
  destruct (by_value d (snd e)) eqn:E; [reflexivity|].
  apply find_some in H. destruct H as [H _]. exfalso. eapply by_value_in; eassumption.
Qed.

Lemma by_name_d_some_not_hidden : forall s m, by_name d s = Some m -> is_hidden m = false /\ In m d.
Proof.
  unfold by_name. intros s m H. destruct (find (name_is s) d); [|discriminate].
  apply by_value_some in H. destruct H as [H _]. split; [apply d_not_hidden|]; assumption.
Qed.

(* a name found only among the extras denotes a hidden member *)
Lemma by_name_extras : forall x s, Forall (extra_ok d) x -> find (name_is s) d = None ->
  match by_name (d ++ x) s with
  | Some m => is_hidden m = true /\ starts_with unrecognized_prefix s = true
  | None => find (name_is s) x = None
  end.
Proof.
  intros x s Hx Hd. unfold by_name. rewrite find_app, Hd.
  destruct (find (name_is s) x) as [e|] eqn:E; [|reflexivity].
  apply find_some in E. destruct E as [Hin Hn]. unfold name_is in Hn. apply String.eqb_eq in Hn.
  rewrite Forall_forall in Hx. destruct (Hx e Hin) as [Hname Hnone].
  rewrite by_value_app, Hnone.
  destruct (by_value x (snd e)) as [m|] eqn:E2.
  - apply (extras_by_value x _ _ ) in E2; [|rewrite Forall_forall; assumption]. subst m. split.
    + unfold is_hidden. cbn [fst]. apply hidden_name_hidden.
    + rewrite <- Hn, Hname. apply hidden_name_hidden.
  - exfalso. eapply by_value_in; eassumption.
Qed.

Lemma from_string_visible : forall st s, Inv d st -> hidden_ns s = false ->
  from_string st s = from_string (init d) s.
Proof.
  intros st s [Hd Hx] Hs. unfold hidden_ns in Hs. apply orb_false_iff in Hs. destruct Hs as [Hs1 Hs2].
  unfold from_string, entries. cbn [defined extra init]. rewrite Hd, app_nil_r.
  assert (forall t, starts_with unrecognized_prefix t = false -> by_name (d ++ extra st) t = by_name d t) as K.
  { intros t Ht. destruct (find (name_is t) d) as [e|] eqn:E.
    - eapply by_name_d_found; eassumption.
    - unfold by_name. rewrite find_app, E, (find_name_extras_none _ _ Hx Ht). reflexivity. }
  rewrite (K s Hs1), (K (upper s) Hs2). reflexivity.
Qed.

(* what the strict / resolving name conversions see *)
Lemma from_string_abstract : forall st s, Inv d st ->
  match from_string st s with
  | inl m => if is_hidden m then spec_name d s = SRefused
             else spec_name d s = SMember (fst m) (snd m)
  | inr _ => spec_name d s = SRefused
  end.
Proof.
  intros st s [Hd Hx]. unfold from_string, entries, spec_name. rewrite Hd.
  destruct (find (name_is s) d) as [e|] eqn:E1.
  - rewrite (by_name_d_found _ _ _ E1).
    destruct (by_name d s) as [m|] eqn:E2.
    + destruct (by_name_d_some_not_hidden _ _ E2) as [Hh _]. rewrite Hh. reflexivity.
    + exfalso. unfold by_name in E2. rewrite E1 in E2. apply find_some in E1. destruct E1 as [E1 _].
      eapply by_value_in; eassumption.
  - assert (by_name d s = None) as N1 by (unfold by_name; rewrite E1; reflexivity).
    rewrite N1. pose proof (by_name_extras (extra st) s Hx E1) as P.
    destruct (by_name (d ++ extra st) s) as [m|] eqn:E2.
    + destruct P as [Hh Hs]. rewrite Hh.
      assert (by_name d (upper s) = None) as N2.
      { unfold by_name. rewrite (find_name_d_hidden_none (upper s) (hidden_upper _ Hs)). reflexivity. }
      rewrite N2. reflexivity.
    + destruct (find (name_is (upper s)) d) as [e|] eqn:E3.
      * rewrite (by_name_d_found _ _ _ E3).
        destruct (by_name d (upper s)) as [m|] eqn:E4.
        -- destruct (by_name_d_some_not_hidden _ _ E4) as [Hh _]. rewrite Hh. reflexivity.
        -- reflexivity.
      * assert (by_name d (upper s) = None) as N2 by (unfold by_name; rewrite E3; reflexivity).
        rewrite N2. pose proof (by_name_extras (extra st) (upper s) Hx E3) as P2.
        destruct (by_name (d ++ extra st) (upper s)) as [m|].
        -- destruct P2 as [Hh _]. rewrite Hh. reflexivity.
        -- reflexivity.
Qed.

Lemma lower_prefix_hidden : forall s, starts_with unrecognized_prefix s = true ->
  starts_with (lower unrecognized_prefix) (lower s) = true.
Proof. intros. apply starts_with_smap. assumption. Qed.

Lemma from_string_ci_visible : forall st s, Inv d st -> hidden_ns_ci s = false ->
  from_string_ci st s = from_string_ci (init d) s.
Proof.
  intros st s [Hd Hx] Hs. unfold from_string_ci, entries. cbn [defined extra init]. rewrite Hd, app_nil_r.
  rewrite rev_app_distr, find_app.
  assert (find (fun e => String.eqb (lower (fst e)) (lower s)) (rev (extra st)) = None) as N.
  { apply find_none_iff. intros e He. apply in_rev in He.
    destruct (String.eqb (lower (fst e)) (lower s)) eqn:E; [|reflexivity].
    apply String.eqb_eq in E. unfold hidden_ns_ci in Hs. rewrite <- E in Hs.
    rewrite (lower_prefix_hidden _ (extras_hidden _ _ Hx He)) in Hs. discriminate. }
  rewrite N.
  destruct (find (fun e => String.eqb (lower (fst e)) (lower s)) (rev d)) as [e|] eqn:E; [|reflexivity].
  apply find_some in E. destruct E as [Hin _]. apply in_rev in Hin.
  rewrite by_value_app.
  destruct (by_value d (snd e)) eqn:E2; [reflexivity|]. exfalso. eapply by_value_in; eassumption.
Qed.

(* the views *)
Lemma canonical_extras_hidden : forall x seen e, Forall (extra_ok d) x -> In e (canonical_from seen x) ->
  negb (is_hidden e) = false.
Proof.
  intros x seen e Hx He. apply canonical_from_incl in He. unfold is_hidden.
  rewrite (extras_hidden _ _ Hx He). reflexivity.
Qed.

Lemma canonical_d_visible : forall e, In e (canonical d) -> negb (is_hidden e) = true.
Proof.
  intros e He. apply canonical_from_incl in He. unfold is_hidden. rewrite (d_not_hidden _ He). reflexivity.
Qed.

Lemma iter_inv : forall st, Inv d st -> iter st = canonical d.
Proof.
  intros st [Hd Hx]. unfold iter, entries, canonical. rewrite Hd, canonical_from_app, filter_app.
  rewrite (filter_none _ (canonical_from _ (extra st))).
  - rewrite app_nil_r. apply filter_all. apply canonical_d_visible.
  - intros. eapply canonical_extras_hidden; eassumption.
Qed.

Lemma reversed_inv : forall st, Inv d st -> reversed st = rev (canonical d).
Proof.
  intros st [Hd Hx]. unfold reversed, entries, canonical. rewrite Hd, canonical_from_app, filter_rev, filter_app.
  rewrite (filter_none _ (canonical_from _ (extra st))).
  - rewrite app_nil_r. f_equal. apply filter_all. apply canonical_d_visible.
  - intros. eapply canonical_extras_hidden; eassumption.
Qed.

(* conversion of an integer *)
Lemma entries_nonempty : forall st, Inv d st -> entries st <> [].
Proof.
  intros st [Hd _] H. unfold entries in H. rewrite Hd in H. apply app_eq_nil in H. destruct H. apply d_nonempty. assumption.
Qed.

Lemma super_call_inv : forall st v, Inv d st ->
  super_call st v = match by_value d v with
                    | Some m => inl m
                    | None => match by_value (extra st) v with
                              | Some _ => inl (hidden_name v, v)
                              | None => inr ValueError
                              end
                    end.
Proof.
  intros st v HI. pose proof (entries_nonempty st HI) as NE. destruct HI as [Hd Hx].
  unfold super_call. destruct (entries st) eqn:E; [congruence|]. rewrite <- E.
  unfold entries. rewrite Hd, by_value_app.
  destruct (by_value d v); [reflexivity|].
  destruct (by_value (extra st) v) eqn:E2; [|reflexivity].
  rewrite (extras_by_value _ _ _ Hx E2). reflexivity.
Qed.

Lemma extend_hidden_ok : forall st v, Inv d st -> by_value d v = None -> by_value (extra st) v = None ->
  extend_enum st (hidden_name v) v = inl (mkState d (extra st ++ [(hidden_name v, v)])).
Proof.
  intros st v [Hd Hx] N1 N2. unfold extend_enum.
  assert (existsb (name_is (hidden_name v)) (entries st) = false) as K.
  { apply not_true_is_false. intro H. apply existsb_exists in H. destruct H as [e [Hin Hn]].
    unfold name_is in Hn. apply String.eqb_eq in Hn. unfold entries in Hin. rewrite Hd in Hin.
    apply in_app_or in Hin. destruct Hin as [Hin|Hin].
    - pose proof (d_not_hidden e Hin) as Q. rewrite Hn, hidden_name_hidden in Q. discriminate.
    - rewrite Forall_forall in Hx. destruct (Hx e Hin) as [Hname _]. rewrite Hname in Hn.
      apply hidden_name_inj in Hn. subst v. eapply by_value_in; eassumption. }
  rewrite K, Hd. reflexivity.
Qed.

Lemma inv_extend : forall st v, Inv d st -> by_value d v = None ->
  Inv d (mkState d (extra st ++ [(hidden_name v, v)])).
Proof.
  intros st v [Hd Hx] N. split; [reflexivity|]. cbn [extra]. apply Forall_app. split; [assumption|].
  constructor; [|constructor]. split; [reflexivity | assumption].
Qed.

Lemma by_value_snoc_new : forall x n v, by_value x v = None -> by_value (x ++ [(n, v)]) v = Some (n, v).
Proof. intros. rewrite by_value_app, H. unfold by_value. cbn. unfold value_is. cbn. rewrite Z.eqb_refl. reflexivity. Qed.

(* the complete description of an integer conversion in a reachable state *)
Lemma call_inv : forall st v strict, Inv d st ->
  call st v strict =
    match by_value d v with
    | Some m => (st, OMember m)
    | None => if strict then (st, OErr ValueError)
              else match by_value (extra st) v with
                   | Some _ => (st, OMember (hidden_name v, v))
                   | None => (mkState d (extra st ++ [(hidden_name v, v)]), OMember (hidden_name v, v))
                   end
    end.
Proof.
  intros st v strict HI. unfold call. rewrite (super_call_inv st v HI).
  destruct (by_value d v) as [m|] eqn:E1.
  - apply by_value_some in E1. destruct E1 as [Hin _]. unfold is_hidden. rewrite (d_not_hidden m Hin).
    rewrite andb_false_r. reflexivity.
  - destruct (by_value (extra st) v) eqn:E2.
    + unfold is_hidden. cbn [fst]. rewrite hidden_name_hidden, andb_true_r. destruct strict; reflexivity.
    + destruct strict; [reflexivity|].
      rewrite (extend_hidden_ok st v HI E1 E2).
      rewrite (super_call_inv _ v (inv_extend st v HI E1)), E1. cbn [extra].
      rewrite (by_value_snoc_new _ _ _ E2). reflexivity.
Qed.

Lemma call_inv_state : forall st v strict, Inv d st -> Inv d (fst (call st v strict)).
Proof.
  intros st v strict HI. rewrite (call_inv st v strict HI).
  destruct (by_value d v) eqn:E; [assumption|].
  destruct strict; [assumption|]. destruct (by_value (extra st) v); [assumption|]. cbn. apply inv_extend; assumption.
Qed.

Lemma call_abstract : forall st v strict, Inv d st -> abstract (snd (call st v strict)) = spec_value d v strict.
Proof.
  intros st v strict HI. rewrite (call_inv st v strict HI). unfold spec_value.
  destruct (by_value d v) as [m|] eqn:E.
  - cbn. apply by_value_some in E. destruct E as [Hin Hv]. unfold is_hidden. rewrite (d_not_hidden m Hin), Hv. reflexivity.
  - destruct strict; [reflexivity|].
    destruct (by_value (extra st) v); cbn; unfold is_hidden; cbn [fst]; rewrite hidden_name_hidden; reflexivity.
Qed.

Lemma from_string_init_not_hidden : forall s m, from_string (init d) s = inl m -> is_hidden m = false.
Proof.
  intros s m E0. unfold from_string, entries in E0. cbn [defined extra init] in E0. rewrite app_nil_r in E0.
  destruct (by_name d s) as [m1|] eqn:B1.
  - injection E0 as ->. apply (by_name_d_some_not_hidden _ _ B1).
  - destruct (by_name d (upper s)) as [m1|] eqn:B2; [|discriminate].
    injection E0 as ->. apply (by_name_d_some_not_hidden _ _ B2).
Qed.

Lemma call_all_inv : forall vs st, Inv d st -> Inv d (call_all st vs).
Proof.
  unfold call_all. induction vs as [|v vs IH]; intros st HI; cbn [fold_left]; [assumption|].
  apply IH. apply call_inv_state. assumption.
Qed.

(* conversion of a name, when allowed *)
Lemma call_name_inv : forall st s strict, Inv d st -> allowed d (OpCallName s strict) = true ->
  fst (call_name st s strict) = st /\ abstract (snd (call_name st s strict)) = spec_name d s.
Proof.
  intros st s strict HI Hal. pose proof (from_string_abstract st s HI) as P. unfold call_name.
  destruct (from_string st s) as [m|e] eqn:E.
  - destruct (is_hidden m) eqn:Hh.
    + destruct strict.
      * cbn. split; [reflexivity | symmetry; assumption].
      * (* lenient and the name resolves among the defined members: it cannot resolve to a hidden one *)
        exfalso. cbn in Hal. pose proof (from_string_abstract (init d) s (inv_init d)) as Q.
        destruct (from_string (init d) s) as [m0|] eqn:E0; [|discriminate].
        destruct (is_hidden m0) eqn:Hh0.
        -- unfold from_string, entries in E0. cbn [defined extra init] in E0. rewrite app_nil_r in E0.
           destruct (by_name d s) as [m1|] eqn:B1.
           ++ injection E0 as ->. destruct (by_name_d_some_not_hidden _ _ B1). congruence.
           ++ destruct (by_name d (upper s)) as [m1|] eqn:B2; [|discriminate].
              injection E0 as ->. destruct (by_name_d_some_not_hidden _ _ B2). congruence.
        -- rewrite Q in P. discriminate.
    + rewrite andb_false_r. cbn. rewrite Hh. split; [reflexivity | symmetry; assumption].
  - destruct strict.
    + cbn. split; [reflexivity | symmetry; assumption].
    + exfalso. cbn in Hal. pose proof (from_string_abstract (init d) s (inv_init d)) as Q.
      destruct (from_string (init d) s) as [m0|] eqn:E0; [|discriminate].
      destruct (is_hidden m0) eqn:Hh0.
      * unfold from_string, entries in E0. cbn [defined extra init] in E0. rewrite app_nil_r in E0.
        destruct (by_name d s) as [m1|] eqn:B1.
        -- injection E0 as ->. destruct (by_name_d_some_not_hidden _ _ B1). congruence.
        -- destruct (by_name d (upper s)) as [m1|] eqn:B2; [|discriminate].
           injection E0 as ->. destruct (by_name_d_some_not_hidden _ _ B2). congruence.
      * rewrite Q in P. discriminate.
Qed.

Lemma spec_name_init : forall s, abstract (snd (of_result (init d) (from_string (init d) s))) = spec_name d s.
Proof.
  intros s. pose proof (from_string_abstract (init d) s (inv_init d)) as Q.
  destruct (from_string (init d) s) as [m|] eqn:E; cbn.
  - rewrite (from_string_init_not_hidden s m E) in *. symmetry; assumption.
  - symmetry; assumption.
Qed.

Lemma spec_name_ci_init : forall s, abstract (snd (of_result (init d) (from_string_ci (init d) s))) = spec_name_ci d s.
Proof.
  intros s. unfold from_string_ci, spec_name_ci, entries. cbn [defined extra init]. rewrite app_nil_r.
  destruct (find (fun e => String.eqb (lower (fst e)) (lower s)) (rev d)) as [e|]; [|reflexivity].
  destruct (by_value d (snd e)) as [m|] eqn:E; [|reflexivity]. cbn.
  apply by_value_some in E. destruct E as [Hin _]. unfold is_hidden. rewrite (d_not_hidden _ Hin). reflexivity.
Qed.

(* one step *)
Lemma step_inv : forall st o, Inv d st -> allowed d o = true ->
  Inv d (fst (step st o)) /\ abstract (snd (step st o)) = spec d o.
Proof.
  intros st o HI Hal. destruct o; cbn [step spec].
  - split; [apply call_inv_state | apply call_abstract]; assumption.
  - destruct (call_name_inv st s strict HI Hal) as [H1 H2]. rewrite H1. auto.
  - unfold getitem_name. cbn in Hal. apply negb_true_iff in Hal.
    rewrite (from_string_visible st s HI Hal). split.
    + destruct (from_string (init d) s); cbn; assumption.
    + rewrite <- spec_name_init.
      destruct (from_string (init d) s); reflexivity.
  - unfold getitem_int. split; [apply call_inv_state | apply call_abstract]; assumption.
  - cbn in Hal. apply negb_true_iff in Hal. rewrite (from_string_ci_visible st s HI Hal). split.
    + destruct (from_string_ci (init d) s); cbn; assumption.
    + rewrite <- spec_name_ci_init. destruct (from_string_ci (init d) s); reflexivity.
  - cbn. rewrite (iter_inv st HI). auto.
  - cbn. unfold len. rewrite (iter_inv st HI). auto.
  - cbn. rewrite (reversed_inv st HI). auto.
  - cbn. pose proof (call_all_inv vs st HI) as H1. rewrite (iter_inv _ H1). auto.
  - cbn. rewrite (reversed_inv st HI). split; [apply call_all_inv; assumption | reflexivity].
Qed.

(* histories *)
Definition run_step (acc : enum_state * list outcome) (o : op) : enum_state * list outcome :=
  let '(s, outs) := acc in let '(s', r) := step s o in (s', (outs ++ [r])%list).

Lemma run_unfold : forall st ops, run st ops = fold_left run_step ops (st, []).
Proof. reflexivity. Qed.

Lemma run_gen : forall ops st outs, Inv d st -> Forall (fun o => allowed d o = true) ops ->
  Inv d (fst (fold_left run_step ops (st, outs))) /\
  map abstract (snd (fold_left run_step ops (st, outs))) = (map abstract outs ++ map (spec d) ops)%list.
Proof.
  induction ops as [|o ops IH]; intros st outs HI Hal; cbn [fold_left].
  - cbn. rewrite app_nil_r. auto.
  - inversion Hal as [|? ? Ho Hrest]; subst.
    destruct (step_inv st o HI Ho) as [H1 H2].
    destruct (step st o) as [s' r] eqn:E. cbn [fst snd] in H1, H2.
    assert (run_step (st, outs) o = (s', (outs ++ [r])%list)) as R by (unfold run_step; rewrite E; reflexivity).
    rewrite R.
    destruct (IH s' (outs ++ [r])%list H1 Hrest) as [I1 I2]. split; [assumption|].
    rewrite I2, map_app. cbn. rewrite H2, <- app_assoc. reflexivity.
Qed.

Theorem history_independent_lemma : forall ops, Forall (fun o => allowed d o = true) ops ->
  map abstract (snd (run (init d) ops)) = map (spec d) ops.
Proof. intros ops H. rewrite run_unfold. destruct (run_gen ops (init d) [] (inv_init d) H) as [_ E]. exact E. Qed.

Definition reachable (st : enum_state) : Prop :=
  exists ops, Forall (fun o => allowed d o = true) ops /\ fst (run (init d) ops) = st.

Lemma reachable_inv : forall st, reachable st -> Inv d st.
Proof.
  intros st [ops [H E]]. subst st. rewrite run_unfold. destruct (run_gen ops (init d) [] (inv_init d) H). assumption.
Qed.

Lemma fold_left_run_app : forall ops1 ops2 acc,
  fold_left run_step (ops1 ++ ops2) acc = fold_left run_step ops2 (fold_left run_step ops1 acc).
Proof. intros. apply fold_left_app. Qed.

Lemma run_step_fst : forall ops st outs outs',
  fst (fold_left run_step ops (st, outs)) = fst (fold_left run_step ops (st, outs')).
Proof.
  induction ops; intros; cbn [fold_left]; [reflexivity|].
  assert (forall o, run_step (st, o) a = (fst (step st a), (o ++ [snd (step st a)])%list)) as R
    by (intros; unfold run_step; destruct (step st a); reflexivity).
  rewrite !R. apply IHops.
Qed.

Lemma reachable_step : forall st o, reachable st -> allowed d o = true -> reachable (fst (step st o)).
Proof.
  intros st o [ops [H E]] Ho. exists (ops ++ [o])%list. split.
  - apply Forall_app. split; [assumption | constructor; [assumption | constructor]].
  - rewrite run_unfold, fold_left_run_app. rewrite run_unfold in E.
    destruct (fold_left run_step ops (init d, [])) as [s outs] eqn:F. cbn in E. subst s.
    cbn [fold_left]. unfold run_step. destruct (step st o). reflexivity.

Qed.

(* ---------------------------------------------------------------------------------------------------------- *)
(* the named statements *)

Lemma known_iff : forall v, In v (map snd d) <-> by_value d v <> None.
Proof.
  intros v. split.
  - intros H. apply in_map_iff in H. destruct H as [e [Hv Hin]]. subst v. apply by_value_in. assumption.
  - intros H. destruct (by_value d v) as [m|] eqn:E; [|congruence].
    apply by_value_some in E. destruct E as [Hin Hv]. subst v. apply in_map. assumption.
Qed.

Theorem lenient_preserves_lemma : forall st v, reachable st ->
  exists m, snd (call st v false) = OMember m /\ snd m = v /\ reachable (fst (call st v false)).
Proof.
  intros st v HR. pose proof (reachable_inv st HR) as HI.
  pose proof (reachable_step st (OpCall v false) HR eq_refl) as HR'. cbn [step] in HR'.
  rewrite (call_inv st v false HI) in *.
  destruct (by_value d v) as [m|] eqn:E.
  - exists m. apply by_value_some in E. destruct E. cbn. auto.
  - destruct (by_value (extra st) v); eexists; cbn; repeat split; assumption.
Qed.

Theorem unrecognised_iff_lemma : forall st v m, reachable st -> snd (call st v false) = OMember m ->
  (is_hidden m = true <-> ~ In v (map snd d)).
Proof.
  intros st v m HR H. pose proof (reachable_inv st HR) as HI. rewrite known_iff.
  rewrite (call_inv st v false HI) in H.
  destruct (by_value d v) as [m0|] eqn:E.
  - cbn in H. injection H as <-. apply by_value_some in E. destruct E as [Hin _].
    unfold is_hidden. rewrite (d_not_hidden _ Hin). split; [discriminate | intro K; exfalso; apply K; discriminate].
  - assert (m = (hidden_name v, v)) as -> by (destruct (by_value (extra st) v); cbn in H; congruence).
    unfold is_hidden. cbn [fst]. rewrite hidden_name_hidden. split; [intros _ K; apply K; reflexivity | reflexivity].
Qed.

Theorem strict_refuses_unknown_lemma : forall st v, reachable st -> ~ In v (map snd d) ->
  call st v true = (st, OErr ValueError) /\
  call (fst (call st v false)) v true = (fst (call st v false), OErr ValueError).
Proof.
  intros st v HR Hn. rewrite known_iff in Hn.
  assert (by_value d v = None) as N by (destruct (by_value d v); [exfalso; apply Hn; discriminate | reflexivity]).
  split.
  - rewrite (call_inv st v true (reachable_inv st HR)), N. reflexivity.
  - destruct (lenient_preserves_lemma st v HR) as [m [_ [_ HR']]].
    rewrite (call_inv _ v true (reachable_inv _ HR')), N. reflexivity.
Qed.

Theorem strict_accepts_known_lemma : forall st v, reachable st -> In v (map snd d) ->
  exists m, call st v true = (st, OMember m) /\ call st v false = (st, OMember m) /\
            by_value d v = Some m /\ snd m = v /\ is_hidden m = false.
Proof.
  intros st v HR Hk. rewrite known_iff in Hk. destruct (by_value d v) as [m|] eqn:E; [|congruence].
  exists m. rewrite !(call_inv st v _ (reachable_inv st HR)), E.
  apply by_value_some in E. destruct E as [Hin Hv]. repeat split; auto. apply d_not_hidden. assumption.
Qed.

Theorem defined_view_invariant_lemma : forall st, reachable st ->
  defined st = d /\
  iter st = iter (init d) /\ len st = len (init d) /\ reversed st = reversed (init d) /\
  (forall s, hidden_ns s = false -> from_string st s = from_string (init d) s) /\
  (forall s, hidden_ns s = false -> snd (call_name st s true) = snd (call_name (init d) s true)) /\
  (forall s, hidden_ns_ci s = false -> from_string_ci st s = from_string_ci (init d) s) /\
  (forall v, In v (map snd d) -> by_value (entries st) v = by_value d v /\ super_call st v = super_call (init d) v).
Proof.
  intros st HR. pose proof (reachable_inv st HR) as HI. pose proof (inv_init d) as H0.
  split; [apply HI|].
  split; [rewrite (iter_inv st HI), (iter_inv _ H0); reflexivity|].
  split; [unfold len; rewrite (iter_inv st HI), (iter_inv _ H0); reflexivity|].
  split; [rewrite (reversed_inv st HI), (reversed_inv _ H0); reflexivity|].
  split; [intros; apply from_string_visible; assumption|].
  split; [intros s Hs; unfold call_name; rewrite (from_string_visible st s HI Hs);
          destruct (from_string (init d) s) as [m|]; [destruct (true && is_hidden m)|]; reflexivity|].
  split; [intros; apply from_string_ci_visible; assumption|].
  intros v Hk. rewrite known_iff in Hk. destruct (by_value d v) as [m|] eqn:E; [|congruence]. split.
  - destruct HI as [Hd _]. unfold entries. rewrite Hd, by_value_app, E. reflexivity.
  - rewrite (super_call_inv st v HI), (super_call_inv _ v H0), E. reflexivity.
Qed.

End WithTable.
