(* C19 — link between the binary64 MODEL and the exact SPEC: the rational value of a float, and MODEL = SPEC
   modulo a full turn up to explicit rounding terms (degrees). *)
From Coq Require Import ZArith Lia Lra Reals Floats SpecFloat QArith Qreals.
From Flocq Require Import Core.Zaux Core.Raux Core.Defs Core.Digits Core.Float_prop Core.Generic_fmt Core.FLT Core.Ulp Core.Round_NE IEEE754.BinarySingleNaN IEEE754.PrimFloat.
From FEC Require Import Generated.HeadingConsts Models.HeadingF Models.HeadingM Proofs.HeadingMP Proofs.HeadingFP.
Open Scope R_scope.

Lemma Q2R_dyadQ : forall z e, Q2R (Heading_dyadQ z e) = dyad z e.
Proof.
  intros z e. unfold Heading_dyadQ, dyad, Q2R. destruct (Z.leb_spec 0 e).
  - simpl. rewrite mult_IZR. change 2%Z with (radix_val radix2). rewrite IZR_Zpower by assumption. lra.
  - simpl. rewrite Z2Pos.id by (apply Z.pow_pos_nonneg; lia).
    change 2%Z with (radix_val radix2). rewrite IZR_Zpower by lia. rewrite <- bpow_opp. now rewrite Z.opp_involutive.
Qed.

Lemma Q2R_F2Q : forall f, Q2R (Heading_F2Q f) = FR f.
Proof.
  intro f. unfold Heading_F2Q. destruct (Prim2SF f) as [s|s| |s m e] eqn:E.
  - destruct (FR_SF_zero f s E) as [_ Z]. rewrite Z. unfold Q2R. simpl. lra.
  - unfold FR. pose proof (B2SF_Prim2B f) as H. rewrite E in H.
    destruct (Prim2B f); simpl in H; try discriminate. unfold Q2R. simpl. lra.
  - unfold FR. pose proof (B2SF_Prim2B f) as H. rewrite E in H.
    destruct (Prim2B f); simpl in H; try discriminate. unfold Q2R. simpl. lra.
  - destruct (FR_SF_finite f s m e E) as [_ R]. rewrite R, Q2R_dyadQ. now destruct s.
Qed.

Lemma Q2R_congr : forall P a b, Heading_congr P a b -> exists k : Z, Q2R a = Q2R b + IZR k * Q2R P.
Proof.
  intros P a b [k Hk]. exists k. apply Qeq_eqR in Hk. rewrite Hk, Q2R_plus, Q2R_mult.
  f_equal. f_equal. unfold Q2R. simpl. lra.
Qed.
Lemma Q2R_const : forall z : Z, Q2R (inject_Z z) = IZR z.
Proof. intro z. unfold Q2R. simpl. lra. Qed.

Local Notation u := (ulp radix2 (fexp prec emax)).
(* MODEL vs SPEC, degrees: the model's result and the exact SPEC value of the same input differ by a whole number
   of turns plus at most the rounding of 90.0 - x and of + 360.0 *)
Lemma heading_model_vs_spec_deg : forall x, PrimFloat.is_finite x = true ->
  exists n : Z, Rabs (FR (Heading_y2h_deg x) - Q2R (Heading_heading_deg (Heading_F2Q x)) - 360 * IZR n)
                <= / 2 * u (90 - FR x) + bpow radix2 (-44).
Proof.
  intros x Fx. destruct (heading_close_deg_f x Fx) as [n1 H1].
  destruct (degrees_instance (Heading_F2Q x)) as [_ [_ [C _]]].
  destruct (Q2R_congr _ _ _ C) as [k Hk].
  rewrite Q2R_minus, Q2R_F2Q in Hk. change (Q2R 90) with (Q2R (inject_Z 90)) in Hk. change (Q2R 360) with (Q2R (inject_Z 360)) in Hk.
  rewrite !Q2R_const in Hk.
  exists (n1 - k)%Z. rewrite Hk, minus_IZR.
  replace (FR (Heading_y2h_deg x) - (90 - FR x + IZR k * 360) - 360 * (IZR n1 - IZR k))
     with (FR (Heading_y2h_deg x) - (90 - FR x) - 360 * IZR n1) by ring.
  exact H1.
Qed.
Lemma yaw_model_vs_spec_deg : forall x, PrimFloat.is_finite x = true ->
  exists n : Z, Rabs (FR (Heading_h2y_deg x) - Q2R (Heading_yaw_deg (Heading_F2Q x)) - 360 * IZR n)
                <= / 2 * u (90 - FR x) + / 2 * u (FR (90 - x)%float + 180) + bpow radix2 (-44) + bpow radix2 (-45).
Proof.
  intros x Fx. destruct (yaw_close_deg_f x Fx) as [n1 H1].
  destruct (degrees_instance (Heading_F2Q x)) as [_ [_ [_ C]]].
  destruct (Q2R_congr _ _ _ C) as [k Hk].
  rewrite Q2R_minus, Q2R_F2Q in Hk. change (Q2R 90) with (Q2R (inject_Z 90)) in Hk. change (Q2R 360) with (Q2R (inject_Z 360)) in Hk.
  rewrite !Q2R_const in Hk.
  exists (n1 - k)%Z. rewrite Hk, minus_IZR.
  replace (FR (Heading_h2y_deg x) - (90 - FR x + IZR k * 360) - 360 * (IZR n1 - IZR k))
     with (FR (Heading_h2y_deg x) - (90 - FR x) - 360 * IZR n1) by ring.
  exact H1.
Qed.
