(* C19 — the binary64 model: the two conversions are inverse up to a full turn and explicit rounding terms (degrees). *)
From Coq Require Import ZArith Lia Lra Reals Floats SpecFloat.
From Flocq Require Import Core.Zaux Core.Raux Core.Defs Core.Digits Core.Float_prop Core.Generic_fmt Core.FLT Core.Ulp Core.Round_NE IEEE754.BinarySingleNaN IEEE754.PrimFloat.
From FEC Require Import Generated.HeadingConsts Models.HeadingF Proofs.HeadingFP.
Open Scope R_scope.
Local Notation u := (ulp radix2 (fexp prec emax)).
Local Notation rnd := (round radix2 (fexp prec emax) (round_mode mode_NE)).

Lemma FR_m180 : FR (-180)%float = -180.
Proof.
  destruct (FR_SF_finite (-180)%float true 6333186975989760 (-45) eq_refl) as [_ E]. rewrite E. unfold dyad. simpl cond_Zopp.
  change (bpow radix2 (-45)) with (/ IZR (2 ^ 45)). change (2 ^ 45)%Z with 35184372088832%Z. lra.
Qed.

Lemma heading_range_deg_R : forall x, fin x -> fin (Heading_y2h_deg x) /\ 0 <= FR (Heading_y2h_deg x) < 360.
Proof.
  intros x Fx. destruct (heading_range_deg_f x Fx) as [F [L U]]. split. exact F.
  apply (leb_R 0%float _ fin_zero F) in L. apply (ltb_R _ 360%float F eq_refl) in U.
  rewrite FR_zero in L. rewrite FR_360 in U. lra.
Qed.
Lemma yaw_range_deg_R : forall x, fin x -> fin (Heading_h2y_deg x) /\ -180 <= FR (Heading_h2y_deg x) < 180.
Proof.
  intros x Fx. destruct (yaw_range_deg_f x Fx) as [F [L U]]. split. exact F.
  apply (leb_R (-180)%float _ eq_refl F) in L. apply (ltb_R _ 180%float F eq_refl) in U.
  rewrite FR_m180 in L. rewrite FR_180 in U. lra.
Qed.

Lemma u_le_720 : forall y, Rabs y <= 720 -> / 2 * u y <= bpow radix2 (-44).
Proof.
  intros y H. change (-44)%Z with (-43 - 1)%Z. rewrite <- half_bpow, <- u_720.
  apply Rmult_le_compat_l. lra. apply u_le. rewrite (Rabs_pos_eq (360 + 360)) by lra. lra.
Qed.
Lemma rnd_abs_le_512 : forall y, Rabs y <= 512 -> Rabs (rnd y) <= 512.
Proof.
  intros y H. change 512 with (bpow radix2 9) in *.
  apply abs_round_le_generic; auto with typeclass_instances. apply fexp_correct; exact Hprec.
  apply generic_format_bpow. unfold fexp, emin. change prec with 53%Z. change emax with 1024%Z. lia.
Qed.

Lemma bpow_m44 : bpow radix2 (-44) = 8 * bpow radix2 (-47).
Proof. change (-44)%Z with (3 + -47)%Z. rewrite bpow_plus. change (bpow radix2 3) with 8. ring. Qed.
Lemma bpow_m45 : bpow radix2 (-45) = 4 * bpow radix2 (-47).
Proof. change (-45)%Z with (2 + -47)%Z. rewrite bpow_plus. change (bpow radix2 2) with 4. ring. Qed.
Lemma bpow_m41 : bpow radix2 (-41) = 64 * bpow radix2 (-47).
Proof. change (-41)%Z with (6 + -47)%Z. rewrite bpow_plus. change (bpow radix2 6) with 64. ring. Qed.

(* the two conversions are inverse up to a full turn, up to the rounding of the first subtraction 90.0 - x and 2^-41 *)
Lemma yaw_heading_inverse_deg_f : forall x, PrimFloat.is_finite x = true ->
  exists n : Z, Rabs (FR (Heading_h2y_deg (Heading_y2h_deg x)) - FR x - 360 * IZR n) <= / 2 * u (90 - FR x) + bpow radix2 (-41).
Proof.
  intros x Fx. destruct (heading_close_deg_f x Fx) as [n1 H1].
  destruct (heading_range_deg_R x Fx) as [Fh Rh]. set (h := Heading_y2h_deg x) in *.
  destruct (yaw_close_deg_f h Fh) as [n2 H2].
  assert (Fa : fin (90 - h)%float).
  { destruct (fin_le_max h Fh). destruct (sub_sandwich 90 90 90 (- dbl_max)%float h dbl_max) as [F _]; auto; try lra; reflexivity. }
  destruct (sub_fin_inv 90 h eq_refl Fh Fa) as [Ea _]. rewrite FR_90 in Ea.
  assert (B1 : / 2 * u (90 - FR h) <= bpow radix2 (-44)) by (apply u_le_720, Rabs_le; lra).
  assert (B2 : / 2 * u (FR (90 - h)%float + 180) <= bpow radix2 (-44)).
  { apply u_le_720. rewrite Ea. pose proof (rnd_abs_le_512 (90 - FR h)) as R. 
    assert (Rabs (90 - FR h) <= 512) by (apply Rabs_le; lra). specialize (R H). apply Rabs_le. apply Rabs_le_inv in R. lra. }
  exists (n2 - n1)%Z. rewrite minus_IZR.
  replace (FR (Heading_h2y_deg h) - FR x - 360 * (IZR n2 - IZR n1))
     with ((FR (Heading_h2y_deg h) - (90 - FR h) - 360 * IZR n2) - (FR h - (90 - FR x) - 360 * IZR n1)) by ring.
  eapply Rle_trans. apply Rabs_triang. rewrite Rabs_Ropp.
  rewrite bpow_m44, bpow_m45 in *. rewrite bpow_m41. pose proof (bpow_gt_0 radix2 (-47)). lra.
Qed.
Lemma heading_yaw_inverse_deg_f : forall x, PrimFloat.is_finite x = true ->
  exists n : Z, Rabs (FR (Heading_y2h_deg (Heading_h2y_deg x)) - FR x - 360 * IZR n)
                <= / 2 * u (90 - FR x) + / 2 * u (FR (90 - x)%float + 180) + bpow radix2 (-41).
Proof.
  intros x Fx. destruct (yaw_close_deg_f x Fx) as [n1 H1].
  destruct (yaw_range_deg_R x Fx) as [Fy Ry]. set (y := Heading_h2y_deg x) in *.
  destruct (heading_close_deg_f y Fy) as [n2 H2].
  assert (B1 : / 2 * u (90 - FR y) <= bpow radix2 (-44)) by (apply u_le_720, Rabs_le; lra).
  exists (n2 - n1)%Z. rewrite minus_IZR.
  replace (FR (Heading_y2h_deg y) - FR x - 360 * (IZR n2 - IZR n1))
     with ((FR (Heading_y2h_deg y) - (90 - FR y) - 360 * IZR n2) - (FR y - (90 - FR x) - 360 * IZR n1)) by ring.
  eapply Rle_trans. apply Rabs_triang. rewrite Rabs_Ropp.
  rewrite bpow_m44, bpow_m45 in *. rewrite bpow_m41. pose proof (bpow_gt_0 radix2 (-47)). lra.
Qed.
