(* Theory of the scan-to-end-of-file [fscan] (generic over a judge satisfying Base.Scan.JudgeOK), and the
   facts about FusionEngine files C18 and C09 share: every frame of [file_frames] is re-read unchanged by
   the log reader's per-entry validation. *)
From Coq Require Import NArith List Bool Arith Lia.
From FEC Require Import Generated.FEConsts Generated.FileIndexConsts Base.ListX Base.Bytes Base.Crc32 Base.Scan Base.FEFormat
  Models.FileScanM.
Import ListNotations.
Local Open Scope nat_scope.

Section FScanTheory.
  Context {B : Type}.
  Variable judge : list B -> verdict.
  Hypothesis OK : JudgeOK judge.

  Lemma fscan_aux_unfold f off l :
    fscan_aux judge (S f) off l =
    match judge l with
    | Accept n => (off, firstn n l) :: fscan_aux judge f (off + n) (skipn n l)
    | Reject => fscan_aux judge f (S off) (tl l)
    | More => match l with [] => [] | _ :: t => fscan_aux judge f (S off) t end
    end.
  Proof. reflexivity. Qed.

  Lemma fscan_aux_fuel : forall f1 f2 off l,
    length l < f1 -> length l < f2 -> fscan_aux judge f1 off l = fscan_aux judge f2 off l.
  Proof.
    induction f1 as [|f1 IH]; intros f2 off l H1 H2; [lia|].
    destruct f2 as [|f2]; [lia|]. rewrite !fscan_aux_unfold.
    destruct (judge l) as [n| |] eqn:J.
    - pose proof (j_bound _ OK _ _ J) as Hn.
      f_equal. apply IH; rewrite skipn_length; lia.
    - assert (l <> []) by (intros ->; rewrite (j_nil _ OK) in J; discriminate).
      destruct l as [|b t]; [congruence|]. cbn [tl length] in *. apply IH; lia.
    - destruct l as [|b t]; [reflexivity|]. cbn [length] in *. apply IH; lia.
  Qed.

  Lemma fscan_eq_aux f off l : length l < f -> fscan judge off l = fscan_aux judge f off l.
  Proof. intros. unfold fscan. apply fscan_aux_fuel; lia. Qed.

  Lemma fscan_nil off : fscan judge off [] = [].
  Proof. unfold fscan. cbn [length]. rewrite fscan_aux_unfold, (j_nil _ OK). reflexivity. Qed.

  (* one step of the file scan, in terms of [fscan] itself *)
  Lemma fscan_step off l :
    fscan judge off l =
    match judge l with
    | Accept n => (off, firstn n l) :: fscan judge (off + n) (skipn n l)
    | Reject => fscan judge (S off) (tl l)
    | More => match l with [] => [] | _ :: t => fscan judge (S off) t end
    end.
  Proof.
    unfold fscan at 1. rewrite fscan_aux_unfold. destruct (judge l) as [n| |] eqn:J.
    - pose proof (j_bound _ OK _ _ J) as Hn. f_equal. symmetry. apply fscan_eq_aux. rewrite skipn_length. lia.
    - assert (l <> []) by (intros ->; rewrite (j_nil _ OK) in J; discriminate).
      destruct l as [|b t]; [congruence|]. cbn [tl length]. symmetry. apply fscan_eq_aux. lia.
    - destruct l as [|b t]; [reflexivity|]. cbn [length]. symmetry. apply fscan_eq_aux. lia.
  Qed.

  (* every frame is the file content at its offset, accepted there; frames are in order and disjoint *)
  Lemma fscan_aux_frames_ok : forall f base stream off l,
    length l < f -> base <= off -> l = skipn (off - base) stream ->
    frames_ok judge base stream off (fscan_aux judge f off l).
  Proof.
    induction f as [|f IH]; intros base stream off l Hf Hb Hl; [lia|].
    rewrite fscan_aux_unfold. destruct (judge l) as [n| |] eqn:J.
    - pose proof (j_bound _ OK _ _ J) as Hn.
      cbn [frames_ok]. rewrite firstn_length_le by lia. rewrite <- Hl. repeat split; try lia; try assumption.
      apply IH.
      + rewrite skipn_length. lia.
      + lia.
      + rewrite Hl, skipn_skipn. f_equal. lia.
    - assert (Hl0 : l <> []) by (intros ->; rewrite (j_nil _ OK) in J; discriminate).
      destruct l as [|b t]; [congruence|]. cbn [tl length] in *.
      assert (Hok : frames_ok judge base stream (S off) (fscan_aux judge f (S off) t)).
      { apply IH; [lia|lia|].
        replace (S off - base) with (1 + (off - base)) by lia.
        rewrite Nat.add_comm, <- skipn_skipn, <- Hl. reflexivity. }
      revert Hok. generalize (fscan_aux judge f (S off) t). intros fs Hok.
      destruct fs as [|[o bs] rest]; [exact I|]. cbn [frames_ok] in *.
      destruct Hok as (H1 & H2 & H3 & H4 & H5). repeat split; try assumption; lia.
    - destruct l as [|b t]; [exact I|]. cbn [length] in *.
      assert (Hok : frames_ok judge base stream (S off) (fscan_aux judge f (S off) t)).
      { apply IH; [lia|lia|].
        replace (S off - base) with (1 + (off - base)) by lia.
        rewrite Nat.add_comm, <- skipn_skipn, <- Hl. reflexivity. }
      revert Hok. generalize (fscan_aux judge f (S off) t). intros fs Hok.
      destruct fs as [|[o bs] rest]; [exact I|]. cbn [frames_ok] in *.
      destruct Hok as (H1 & H2 & H3 & H4 & H5). repeat split; try assumption; lia.
  Qed.

  Theorem fscan_frames_ok stream : frames_ok judge 0 stream 0 (fscan judge 0 stream).
  Proof. apply fscan_aux_frames_ok; [lia|lia|reflexivity]. Qed.

  (* consequences of frames_ok in a directly usable form *)
  Lemma frames_ok_weaken base stream : forall fs lo lo', lo' <= lo ->
    frames_ok judge base stream lo fs -> frames_ok judge base stream lo' fs.
  Proof.
    intros fs lo lo' H. destruct fs as [|[o bs] rest]; [trivial|]. cbn [frames_ok].
    intros (H1 & H2 & H3 & H4 & H5). repeat split; try assumption; lia.
  Qed.

  Lemma frames_ok_in base stream : forall fs lo o bs,
    frames_ok judge base stream lo fs -> In (o, bs) fs ->
    lo <= o /\ base <= o /\ judge (skipn (o - base) stream) = Accept (length bs) /\
    bs = firstn (length bs) (skipn (o - base) stream).
  Proof.
    induction fs as [|[o' bs'] rest IH]; intros lo o bs H Hin; [destruct Hin|].
    cbn [frames_ok] in H. destruct H as (H1 & H2 & H3 & H4 & H5). destruct Hin as [E|Hin].
    - injection E as <- <-. auto.
    - destruct (IH _ _ _ H5 Hin) as (A & Bq & C & D). repeat split; try assumption. lia.
  Qed.

  (* an accepted frame lies inside the stream *)
  Lemma frames_ok_bound base stream : forall fs lo o bs,
    frames_ok judge base stream lo fs -> In (o, bs) fs -> 0 < length bs /\ (o - base) + length bs <= length stream.
  Proof.
    intros fs lo o bs H Hin. destruct (frames_ok_in _ _ _ _ _ _ H Hin) as (_ & _ & HJ & _).
    apply (j_bound _ OK) in HJ. rewrite skipn_length in HJ. lia.
  Qed.

  (* ---- re-scanning a concatenation of accepted frames ------------------------------------------- *)
  Lemma fscan_step_accept off bs rest :
    self_framed judge bs -> fscan judge off (bs ++ rest) = (off, bs) :: fscan judge (off + length bs) rest.
  Proof.
    intros H. unfold self_framed in H. rewrite fscan_step.
    rewrite (j_stable _ OK) by congruence. rewrite H.
    rewrite skipn_app_exact, firstn_app_exact. reflexivity.
  Qed.

  Theorem fscan_concat_frames : forall fss off,
    Forall (self_framed judge) fss -> fscan judge off (concat fss) = rebase off fss.
  Proof.
    induction fss as [|bs rest IH]; intros off H.
    - cbn [concat rebase]. apply fscan_nil.
    - inversion H as [|? ? Hbs Hrest]; subst. cbn [concat rebase].
      rewrite fscan_step_accept by assumption. rewrite IH by assumption. reflexivity.
  Qed.

  Theorem fscan_rescan_idempotent : JudgeLocal judge -> forall stream,
    let fs := fscan judge 0 stream in
    fscan judge 0 (concat (map snd fs)) = rebase 0 (map snd fs).
  Proof.
    intros HL stream fs. apply fscan_concat_frames.
    eapply (frames_ok_self_framed judge HL). apply fscan_frames_ok.
  Qed.

  (* ---- cutting a file where no frame straddles the cut ------------------------------------------ *)
  Hypothesis LOC : JudgeLocal judge.

  Lemma judge_accept_prefix a b n :
    judge (a ++ b) = Accept n -> n <= length a -> judge a = Accept n.
  Proof.
    intros J Hn. apply LOC in J. rewrite firstn_app in J.
    replace (n - length a) with 0 in J by lia. cbn [firstn] in J. rewrite app_nil_r in J.
    rewrite <- (firstn_skipn n a). rewrite (j_stable _ OK) by congruence. exact J.
  Qed.

  (* if no frame of a ++ b straddles the boundary, the frames are those of a followed by those of b *)
  Lemma fscan_cut_aux : forall f off a b,
    length a < f ->
    (forall o bs, In (o, bs) (fscan judge off (a ++ b)) -> o + length bs <= off + length a \/ off + length a <= o) ->
    fscan judge off (a ++ b) = fscan judge off a ++ fscan judge (off + length a) b.
  Proof.
    induction f as [|f IH]; intros off a b Hf Hno; [lia|].
    destruct a as [|x a'].
    - cbn [app length]. rewrite fscan_nil, Nat.add_0_r. reflexivity.
    - rewrite (fscan_step off ((x :: a') ++ b)) in *. rewrite (fscan_step off (x :: a')).
      destruct (judge ((x :: a') ++ b)) as [n| |] eqn:J.
      + pose proof (j_bound _ OK _ _ J) as Hn.
        (* the accepted frame does not straddle: it ends inside a (it starts before the cut) *)
        assert (Hin : n <= length (x :: a')).
        { destruct (Hno off (firstn n ((x :: a') ++ b)) (or_introl eq_refl)) as [H|H].
          - rewrite firstn_length_le in H by lia. lia.
          - cbn [length] in H. lia. }
        rewrite (judge_accept_prefix _ _ _ J Hin).
        rewrite firstn_app, skipn_app. replace (n - length (x :: a')) with 0 by lia.
        cbn [firstn skipn]. rewrite app_nil_r. cbn [app]. f_equal.
        specialize (IH (off + n) (skipn n (x :: a')) b).
        rewrite skipn_length in IH.
        replace (off + n + (length (x :: a') - n)) with (off + length (x :: a')) in IH by lia.
        apply IH.
        * cbn [length] in *. lia.
        * intros o bs Hin'. apply Hno. right.
          rewrite skipn_app. replace (n - length (x :: a')) with 0 by lia.
          cbn [skipn]. exact Hin'.
      + cbn [app tl] in *.
        assert (Hja : judge (x :: a') = Reject \/ judge (x :: a') = More).
        { destruct (judge (x :: a')) as [m| |] eqn:Ja; auto.
          exfalso. pose proof (j_stable _ OK (x :: a') b) as S. rewrite Ja in S. cbn [app] in S.
          rewrite S in J by discriminate. discriminate. }
        specialize (IH (S off) a' b).
        replace (S off + length a') with (off + length (x :: a')) in IH by (cbn [length]; lia).
        destruct Hja as [-> | ->]; cbn [tl]; apply IH; try (cbn [length] in *; lia); exact Hno.
      + cbn [app] in *.
        assert (Hja : judge (x :: a') = More).
        { destruct (judge (x :: a')) as [m| |] eqn:Ja; auto; exfalso;
          pose proof (j_stable _ OK (x :: a') b) as S; rewrite Ja in S; cbn [app] in S;
          rewrite S in J by discriminate; discriminate. }
        rewrite Hja.
        specialize (IH (S off) a' b).
        replace (S off + length a') with (off + length (x :: a')) in IH by (cbn [length]; lia).
        apply IH; try (cbn [length] in *; lia); exact Hno.
  Qed.

  Theorem fscan_cut off a b :
    (forall o bs, In (o, bs) (fscan judge off (a ++ b)) -> o + length bs <= off + length a \/ off + length a <= o) ->
    fscan judge off (a ++ b) = fscan judge off a ++ fscan judge (off + length a) b.
  Proof. apply (fscan_cut_aux (S (length a))). lia. Qed.

  (* frames lie at or after the start offset *)
  Lemma fscan_offsets_ge off l o bs : In (o, bs) (fscan judge off l) -> off <= o.
  Proof.
    intros Hin.
    assert (H : frames_ok judge off l off (fscan judge off l)).
    { unfold fscan. apply fscan_aux_frames_ok; [lia|lia|]. rewrite Nat.sub_diag. reflexivity. }
    apply (frames_ok_in _ _ _ _ _ _ H Hin).
  Qed.
End FScanTheory.

(* ---- FusionEngine files ----------------------------------------------------------------------------- *)
Lemma judge_file_ok : JudgeOK judge_file.
Proof. apply judge_fe_ok. Qed.

Lemma judge_file_local : JudgeLocal judge_file.
Proof. apply judge_fe_local. Qed.

Lemma file_frames_ok d : frames_ok judge_file 0 d 0 (file_frames d).
Proof. apply fscan_frames_ok. exact judge_file_ok. Qed.

Lemma firstn_add_split {A} (n m : nat) (l : list A) : firstn (n + m) l = firstn n l ++ firstn m (skipn n l).
Proof.
  revert l. induction n as [|n IH]; intros l; [reflexivity|].
  destruct l as [|a l]; [cbn; rewrite firstn_nil; reflexivity|]. cbn [Nat.add firstn skipn app]. f_equal. apply IH.
Qed.

(* the reader's validation at the offset of an accepted frame returns exactly the frame *)
Lemma read_at_accept d o n :
  judge_file (skipn o d) = Accept n -> read_at d o = RYield (firstn n (skipn o d)).
Proof.
  intros J. apply judge_fe_accept_inv in J. cbn zeta in J.
  destruct J as (Hlen & _ & _ & _ & Hps & Hn & Hnl & Hcrc).
  set (l := skipn o d) in *.
  assert (Hhdr : sub d o HEADER_SIZE = firstn HEADER_SIZE l) by reflexivity.
  assert (Hpay : forall k, sub d (o + HEADER_SIZE) k = firstn k (skipn HEADER_SIZE l)).
  { intros k. unfold sub, l. rewrite skipn_skipn. reflexivity. }
  unfold read_at. rewrite !Hhdr, !Hpay.
  assert (H24 : length (firstn HEADER_SIZE l) = HEADER_SIZE) by (apply firstn_length_le; exact Hlen).
  rewrite H24, Nat.ltb_irrefl.
  set (h := parse_header (firstn HEADER_SIZE l)) in *.
  apply N.leb_le in Hps. rewrite N.leb_antisym in Hps. apply negb_true_iff in Hps. rewrite Hps.
  assert (Hpl : length (firstn (N.to_nat (h_psize h)) (skipn HEADER_SIZE l)) = N.to_nat (h_psize h)).
  { apply firstn_length_le. rewrite skipn_length. lia. }
  rewrite Hpl, Nat.eqb_refl. cbn [negb].
  rewrite <- firstn_add_split. rewrite <- Hn.
  unfold crc_region in Hcrc.
  rewrite sub_firstn by (unfold HEADER_SIZE in *; lia).
  rewrite Hcrc, N.eqb_refl. reflexivity.
Qed.

Lemma read_at_frame d o bs : In (o, bs) (file_frames d) -> read_at d o = RYield bs.
Proof.
  intros Hin. destruct (frames_ok_in _ _ _ _ _ _ _ (file_frames_ok d) Hin) as (_ & _ & HJ & Hbs).
  rewrite Nat.sub_0_r in *. rewrite (read_at_accept _ _ _ HJ). rewrite <- Hbs. reflexivity.
Qed.

Lemma read_all_frames d : forall fs, (forall o bs, In (o, bs) fs -> In (o, bs) (file_frames d)) ->
  read_all d (map fst fs) = fs.
Proof.
  induction fs as [|[o bs] rest IH]; intros H; [reflexivity|].
  cbn [map fst read_all]. rewrite (read_at_frame d o bs) by (apply H; left; reflexivity).
  f_equal. apply IH. intros o' bs' Hin. apply H. right. exact Hin.
Qed.

(* reading a log through its fresh index returns the messages of the sequential scan *)
Theorem read_fresh_is_scan p1 d : read_all d (index_offsets (fresh p1 d)) = file_frames d.
Proof.
  unfold index_offsets, fresh, fresh_raw. rewrite !map_map. cbn [from_raw indexer_raw i_off r_off].
  rewrite <- (read_all_frames d (file_frames d)) at 2 by auto.
  f_equal. apply map_ext. intros [o bs]. cbn [fst]. apply Nat2N.id.
Qed.
