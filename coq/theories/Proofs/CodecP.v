(* C01 — lemmas about the generic codec interpreters (Models/CodecM.v). *)
From Coq Require Import ZArith NArith List Bool Lia ZifyBool ZifyNat.
From FEC Require Import Models.CodecM.
Import ListNotations.
Open Scope Z_scope.

(* ------------------------------------------------------------------------------------------------ *)
(* bytes                                                                                              *)
(* ------------------------------------------------------------------------------------------------ *)

Lemma Codec_bytes_ok_app : forall a b, Codec_bytes_ok (a ++ b) = Codec_bytes_ok a && Codec_bytes_ok b.
Proof. intros; unfold Codec_bytes_ok; apply forallb_app. Qed.

Lemma Codec_bytes_ok_firstn : forall n l, Codec_bytes_ok l = true -> Codec_bytes_ok (firstn n l) = true.
Proof.
  induction n; intros [|x l] H; cbn in *; auto.
  apply andb_true_iff in H as [H1 H2]. rewrite H1; cbn. apply IHn; auto.
Qed.
Lemma Codec_bytes_ok_skipn : forall n l, Codec_bytes_ok l = true -> Codec_bytes_ok (skipn n l) = true.
Proof.
  induction n; intros [|x l] H; cbn in *; auto.
  apply andb_true_iff in H as [H1 H2]. apply IHn; auto.
Qed.

Lemma Codec_le_dec_range : forall l, Codec_bytes_ok l = true -> 0 <= Codec_le_dec l < 256 ^ Z.of_nat (length l).
Proof.
  induction l as [|b l IH]; intros H.
  - cbn. lia.
  - cbn [Codec_le_dec length]. cbn in H. apply andb_true_iff in H as [Hb Hl].
    specialize (IH Hl). unfold Codec_byte_ok in Hb.
    rewrite Nat2Z.inj_succ, Z.pow_succ_r by lia. lia.
Qed.

Lemma Codec_le_enc_dec : forall l, Codec_bytes_ok l = true -> Codec_le_enc (length l) (Codec_le_dec l) = l.
Proof.
  induction l as [|b l IH]; intros H; cbn [Codec_le_dec length Codec_le_enc]; auto.
  cbn in H. apply andb_true_iff in H as [Hb Hl]. unfold Codec_byte_ok in Hb.
  f_equal.
  - rewrite (Z.mul_comm 256), Z.mod_add by lia. apply Z.mod_small; lia.
  - rewrite (Z.mul_comm 256), Z.div_add by lia. rewrite (Z.div_small b) by lia. cbn. apply IH; auto.
Qed.

Lemma Codec_le_enc_length : forall n z, length (Codec_le_enc n z) = n.
Proof. induction n; intros; cbn; auto. Qed.

Lemma Codec_le_enc_ok : forall n z, Codec_bytes_ok (Codec_le_enc n z) = true.
Proof.
  induction n; intros; cbn; auto. rewrite IHn, andb_true_r. unfold Codec_byte_ok.
  pose proof (Z.mod_pos_bound z 256 ltac:(lia)). lia.
Qed.

Lemma Codec_le_dec_enc : forall n z, 0 <= z < 256 ^ Z.of_nat n -> Codec_le_dec (Codec_le_enc n z) = z.
Proof.
  induction n; intros z Hz.
  - cbn in *. lia.
  - cbn [Codec_le_enc Codec_le_dec]. rewrite Nat2Z.inj_succ, Z.pow_succ_r in Hz by lia.
    rewrite IHn.
    + pose proof (Z.div_mod z 256 ltac:(lia)). lia.
    + split. apply Z.div_pos; lia. apply Z.div_lt_upper_bound; lia.
Qed.

Lemma Codec_kbits_pow : forall k, 2 ^ Codec_kbits k = 256 ^ Z.of_nat (Codec_ksize k).
Proof. destruct k; reflexivity. Qed.
Lemma Codec_kbits_pos : forall k, 8 <= Codec_kbits k.
Proof. destruct k; cbv; discriminate. Qed.

Lemma Codec_kdec_range : forall k l, length l = Codec_ksize k -> Codec_bytes_ok l = true ->
  Codec_krange k (Codec_kdec k l) = true.
Proof.
  intros k l Hl Hok. pose proof (Codec_le_dec_range l Hok) as R. rewrite Hl, <- Codec_kbits_pow in R.
  pose proof (Codec_kbits_pos k) as P.
  assert (E : 2 ^ Codec_kbits k = 2 * 2 ^ (Codec_kbits k - 1)).
  { rewrite <- Z.pow_succ_r by lia. f_equal; lia. }
  unfold Codec_krange, Codec_kdec. destruct (Codec_ksigned k); cbn [andb].
  - destruct (2 ^ (Codec_kbits k - 1) <=? Codec_le_dec l) eqn:C; lia.
  - lia.
Qed.

Lemma Codec_kenc_kdec : forall k l, length l = Codec_ksize k -> Codec_bytes_ok l = true ->
  Codec_kenc k (Codec_kdec k l) = l.
Proof.
  intros k l Hl Hok. pose proof (Codec_le_dec_range l Hok) as R. rewrite Hl, <- Codec_kbits_pow in R.
  pose proof (Codec_kbits_pos k) as P.
  assert (E : 2 ^ Codec_kbits k = 2 * 2 ^ (Codec_kbits k - 1)).
  { rewrite <- Z.pow_succ_r by lia. f_equal; lia. }
  assert (Q : 0 < 2 ^ (Codec_kbits k - 1)) by (apply Z.pow_pos_nonneg; lia).
  unfold Codec_kenc, Codec_kdec. rewrite <- Hl.
  destruct (Codec_ksigned k); cbn [andb].
  - destruct (2 ^ (Codec_kbits k - 1) <=? Codec_le_dec l) eqn:C.
    + replace (Codec_le_dec l - 2 ^ Codec_kbits k <? 0) with true by lia.
      replace (Codec_le_dec l - 2 ^ Codec_kbits k + 2 ^ Codec_kbits k) with (Codec_le_dec l) by lia.
      apply Codec_le_enc_dec; auto.
    + replace (Codec_le_dec l <? 0) with false by lia. apply Codec_le_enc_dec; auto.
  - replace (Codec_le_dec l <? 0) with false by lia. apply Codec_le_enc_dec; auto.
Qed.

Lemma Codec_kenc_length : forall k z, length (Codec_kenc k z) = Codec_ksize k.
Proof. intros; apply Codec_le_enc_length. Qed.
Lemma Codec_kenc_ok : forall k z, Codec_bytes_ok (Codec_kenc k z) = true.
Proof. intros; apply Codec_le_enc_ok. Qed.

Lemma Codec_kdec_kenc : forall k z, Codec_krange k z = true -> Codec_kdec k (Codec_kenc k z) = z.
Proof.
  intros k z Hr. pose proof (Codec_kbits_pos k) as P.
  assert (E : 2 ^ Codec_kbits k = 2 * 2 ^ (Codec_kbits k - 1)).
  { rewrite <- Z.pow_succ_r by lia. f_equal; lia. }
  assert (Q : 0 < 2 ^ (Codec_kbits k - 1)) by (apply Z.pow_pos_nonneg; lia).
  unfold Codec_krange in Hr. unfold Codec_kdec, Codec_kenc.
  destruct (Codec_ksigned k) eqn:S; cbn [andb].
  - destruct (z <? 0) eqn:N.
    + rewrite Codec_le_dec_enc by (rewrite <- Codec_kbits_pow; lia).
      replace (2 ^ (Codec_kbits k - 1) <=? z + 2 ^ Codec_kbits k) with true by lia. lia.
    + rewrite Codec_le_dec_enc by (rewrite <- Codec_kbits_pow; lia).
      replace (2 ^ (Codec_kbits k - 1) <=? z) with false by lia. lia.
  - replace (z <? 0) with false by lia.
    rewrite Codec_le_dec_enc by (rewrite <- Codec_kbits_pow; lia). auto.
Qed.

(* ------------------------------------------------------------------------------------------------ *)
(* take                                                                                               *)
(* ------------------------------------------------------------------------------------------------ *)

Lemma Codec_take_some : forall n b h t, Codec_take n b = Some (h, t) -> b = h ++ t /\ length h = n.
Proof.
  unfold Codec_take; intros n b h t H. destruct (length b <? n)%nat eqn:L; inversion H; subst.
  split. symmetry; apply firstn_skipn. apply firstn_length_le. lia.
Qed.
Lemma Codec_take_app : forall h tail, Codec_take (length h) (h ++ tail) = Some (h, tail).
Proof.
  intros. unfold Codec_take. rewrite app_length.
  replace (length h + length tail <? length h)%nat with false by lia.
  rewrite firstn_app, Nat.sub_diag, firstn_all, firstn_O, app_nil_r.
  rewrite skipn_app, Nat.sub_diag, skipn_all. reflexivity.
Qed.
Lemma Codec_take_app_post : forall n b h t post, Codec_take n b = Some (h, t) -> Codec_take n (b ++ post) = Some (h, t ++ post).
Proof.
  intros n b h t post H. apply Codec_take_some in H as [-> <-]. rewrite <- app_assoc. apply Codec_take_app.
Qed.

(* ------------------------------------------------------------------------------------------------ *)
(* adapters                                                                                           *)
(* ------------------------------------------------------------------------------------------------ *)

(* v is a value the adapter can write and read back unchanged *)
Definition Codec_aval_ok (k : Codec_kind) (a : Codec_adapter) (v : Codec_fval) : Prop :=
  exists z', Codec_aenc a v = Some z' /\ Codec_krange k z' = true /\ Codec_adec a z' = Some v.

Definition Codec_not_count (a : Codec_adapter) : Prop := forall t, a <> ACount t.

Lemma Codec_quiet32_range : forall z, 0 <= z < 2 ^ 32 -> 0 <= Codec_quiet32 z < 2 ^ 32.
Proof.
  intros z Hz. unfold Codec_quiet32.
  destruct ((z / 2 ^ 23) mod 256 =? 255) eqn:A; cbn [andb]; try lia.
  destruct (negb (z mod 2 ^ 23 =? 0)) eqn:B; cbn [andb]; try lia.
  destruct ((z / 2 ^ 22) mod 2 =? 0) eqn:C; try lia.
Qed.

Lemma Codec_quiet32_idem : forall z, 0 <= z -> Codec_quiet32 (Codec_quiet32 z) = Codec_quiet32 z.
Proof.
  intros z Hz.
  destruct (((z / 2 ^ 23) mod 256 =? 255) && negb (z mod 2 ^ 23 =? 0) && ((z / 2 ^ 22) mod 2 =? 0)) eqn:A.
  - assert (E : Codec_quiet32 z = z + 2 ^ 22) by (unfold Codec_quiet32; rewrite A; reflexivity).
    rewrite E. apply andb_true_iff in A as [A C]. apply Z.eqb_eq in C.
    unfold Codec_quiet32.
    replace (((z + 2 ^ 22) / 2 ^ 22) mod 2 =? 0) with false; [rewrite andb_false_r; reflexivity|].
    replace (z + 2 ^ 22) with (z + 1 * 2 ^ 22) by lia. rewrite Z.div_add by lia.
    symmetry. apply Z.eqb_neq. rewrite Z.add_mod by lia. rewrite C. discriminate.
  - assert (E : Codec_quiet32 z = z) by (unfold Codec_quiet32; rewrite A; reflexivity).
    rewrite E. exact E.
Qed.

Lemma Codec_adapter_fix : forall top k a z v,
  Codec_wf_adapter top k a = true -> Codec_not_count a -> a <> ATimestamp ->
  Codec_krange k z = true -> Codec_adec a z = Some v -> Codec_aval_ok k a v.
Proof.
  intros top k a z v W NC NT R D. unfold Codec_aval_ok.
  destruct a; cbn in D; try congruence.
  - (* AId *) inversion D; subst. exists z. auto.
  - (* ABool *) inversion D; subst. destruct k; try discriminate.
    exists (if z =? 0 then 0 else 1). cbn. destruct (z =? 0); cbn; auto.
  - (* AQuiet32 *) inversion D; subst. destruct k; try discriminate.
    unfold Codec_krange in *. cbn [Codec_ksigned] in *. change (Codec_kbits F32) with 32 in *.
    assert (0 <= z < 2 ^ 32) as Hz by lia.
    pose proof (Codec_quiet32_range z Hz).
    exists (Codec_quiet32 z). cbn. split; auto. split; [lia|]. rewrite Codec_quiet32_idem by lia. auto.
  - (* AStrict *) destruct (existsb (Z.eqb z) members) eqn:M; inversion D; subst.
    exists z. cbn. rewrite M. auto.
  - (* ASentinel *) inversion D; subst. cbn in W.
    destruct (z =? inv) eqn:E.
    + exists inv. cbn. rewrite Z.eqb_refl. auto.
    + exists z. cbn. rewrite E. auto.
Qed.

(* the adapter-decode functions used to state theorems refine the model's decode *)
Definition Codec_adec_nots (a : Codec_adapter) (z : Z) : option Codec_fval :=
  match a with ATimestamp => None | _ => Codec_adec a z end.

(* The Timestamp projection law, in full: every stamp a conforming sender produces decodes to a double that
   pack writes back as a stamp decoding to the same double. *)
Definition Codec_ts_projection_full : Prop :=
  forall z, 0 <= z < 2 ^ 64 -> Codec_ts_dom z = true -> Codec_aval_ok U64 ATimestamp (Codec_ts_dec z).

(* ------------------------------------------------------------------------------------------------ *)
(* generic round trip                                                                                 *)
(* ------------------------------------------------------------------------------------------------ *)

Section RoundTrip.
  Variable AD : Codec_adapter -> Z -> option Codec_fval.
  Hypothesis AD_ok : forall top k a z v, Codec_wf_adapter top k a = true -> Codec_not_count a ->
     Codec_krange k z = true -> AD a z = Some v -> Codec_aval_ok k a v.

  Lemma Codec_field_rt : forall top k a h v,
    length h = Codec_ksize k -> Codec_bytes_ok h = true -> Codec_wf_adapter top k a = true -> Codec_not_count a ->
    AD a (Codec_kdec k h) = Some v ->
    exists z', Codec_aenc a v = Some z' /\ Codec_krange k z' = true /\ Codec_adec a (Codec_kdec k (Codec_kenc k z')) = Some v.
  Proof.
    intros top k a h v L B W NC D.
    destruct (AD_ok top k a _ v W NC (Codec_kdec_range k h L B) D) as (z' & E & R & D').
    exists z'. rewrite Codec_kdec_kenc by auto. auto.
  Qed.

  Lemma Codec_items_rt : forall its b r rest,
    forallb (Codec_wf_item false) its = true -> Codec_bytes_ok b = true ->
    Codec_dec_items AD its b = Some (r, rest) ->
    exists bs, Codec_enc_items its r = Some bs /\ length b = (length bs + length rest)%nat /\
               Codec_bytes_ok bs = true /\ Codec_bytes_ok rest = true /\ length bs = Codec_items_size its /\
               forall tail, Codec_dec_items Codec_adec its (bs ++ tail) = Some (r, tail).
  Proof.
    induction its as [|it its IH]; intros b r rest W B D.
    - cbn in D. inversion D; subst. exists []. cbn. repeat split; auto.
    - cbn in W. apply andb_true_iff in W as [Wi W].
      destruct it as [id k a | ps].
      + cbn [Codec_dec_items] in D.
        destruct (Codec_take (Codec_ksize k) b) as [[h t]|] eqn:T; try discriminate.
        destruct (AD a (Codec_kdec k h)) as [v|] eqn:A; try discriminate.
        destruct (Codec_dec_items AD its t) as [[e rest']|] eqn:R; try discriminate.
        inversion D; subst. apply Codec_take_some in T as [-> L].
        rewrite Codec_bytes_ok_app in B. apply andb_true_iff in B as [Bh Bt].
        cbn in Wi.
        assert (NC : Codec_not_count a) by (intros t0 ->; cbn in Wi; discriminate).
        destruct (Codec_field_rt false k a h v L Bh Wi NC A) as (z' & E & Rz & D').
        destruct (IH _ _ _ W Bt R) as (bs & Eb & Lb & Ob & Or & Sb & Rb).
        exists (Codec_kenc k z' ++ bs). cbn [Codec_enc_items]. rewrite N.eqb_refl, E, Rz, Eb.
        repeat split; auto.
        * rewrite !app_length, Codec_kenc_length. lia.
        * rewrite Codec_bytes_ok_app, Codec_kenc_ok, Ob. auto.
        * rewrite app_length, Codec_kenc_length. unfold Codec_items_size in *. cbn [fold_right Codec_item_size]. lia.
        * intros tail. cbn [Codec_dec_items]. rewrite <- app_assoc.
          rewrite <- (Codec_kenc_length k z') at 1. rewrite Codec_take_app. rewrite D', Rb. auto.
      + cbn [Codec_dec_items] in D.
        destruct (Codec_take (length ps) b) as [[h t]|] eqn:T; try discriminate.
        apply Codec_take_some in T as [-> L].
        rewrite Codec_bytes_ok_app in B. apply andb_true_iff in B as [Bh Bt].
        destruct (IH _ _ _ W Bt D) as (bs & Eb & Lb & Ob & Or & Sb & Rb).
        exists (ps ++ bs). cbn [Codec_enc_items]. rewrite Eb. cbn in Wi.
        repeat split; auto.
        * rewrite !app_length. lia.
        * rewrite Codec_bytes_ok_app, Wi, Ob. auto.
        * rewrite app_length. unfold Codec_items_size in *. cbn [fold_right Codec_item_size]. lia.
        * intros tail. cbn [Codec_dec_items]. rewrite <- app_assoc. rewrite Codec_take_app. apply Rb.
  Qed.

  Lemma Codec_recs_rt : forall its n b rs rest,
    forallb (Codec_wf_item false) its = true -> Codec_bytes_ok b = true ->
    Codec_dec_recs AD its n b = Some (rs, rest) ->
    exists bs, Codec_enc_recs its rs = Some bs /\ length b = (length bs + length rest)%nat /\
               Codec_bytes_ok bs = true /\ Codec_bytes_ok rest = true /\ length rs = n /\
               length bs = (n * Codec_items_size its)%nat /\
               forall tail, Codec_dec_recs Codec_adec its n (bs ++ tail) = Some (rs, tail).
  Proof.
    induction n as [|n IH]; intros b rs rest W B D.
    - cbn in D. inversion D; subst. exists []. cbn. repeat split; auto.
    - cbn [Codec_dec_recs] in D.
      destruct (Codec_dec_items AD its b) as [[r t]|] eqn:I; try discriminate.
      destruct (Codec_dec_recs AD its n t) as [[rs' rest']|] eqn:R; try discriminate.
      inversion D; subst.
      destruct (Codec_items_rt _ _ _ _ W B I) as (b1 & E1 & L1 & O1 & Ot & S1 & R1).
      destruct (IH _ _ _ W Ot R) as (b2 & E2 & L2 & O2 & Or & Ln & S2 & R2).
      exists (b1 ++ b2). cbn [Codec_enc_recs]. rewrite E1, E2.
      repeat split; auto.
      + rewrite app_length. lia.
      + rewrite Codec_bytes_ok_app, O1, O2. auto.
      + cbn. lia.
      + rewrite app_length. lia.
      + intros tail. cbn [Codec_dec_recs]. rewrite <- app_assoc, R1, R2. auto.
  Qed.
End RoundTrip.

(* ------------------------------------------------------------------------------------------------ *)
(* environments                                                                                       *)
(* ------------------------------------------------------------------------------------------------ *)

Lemma Codec_lookup_app : forall a b id,
  Codec_lookup (a ++ b) id = match Codec_lookup a id with Some v => Some v | None => Codec_lookup b id end.
Proof.
  unfold Codec_lookup. induction a as [|p a IH]; intros; cbn [app find]; auto.
  destruct (N.eqb (fst p) id); auto.
Qed.
Lemma Codec_lookup_notin : forall e id, ~ In id (map fst e) -> Codec_lookup e id = None.
Proof.
  unfold Codec_lookup. induction e as [|p e IH]; intros id H; cbn [find]; auto.
  cbn in H. destruct (N.eqb (fst p) id) eqn:E.
  - apply N.eqb_eq in E. tauto.
  - apply IH. tauto.
Qed.
Lemma Codec_lookup_head : forall id v e, Codec_lookup ((id, v) :: e) id = Some v.
Proof. intros. unfold Codec_lookup. cbn. rewrite N.eqb_refl. reflexivity. Qed.

Lemma Codec_lookup_int_app_l : forall a b id c, Codec_lookup_int a id = Some c -> Codec_lookup_int (a ++ b) id = Some c.
Proof.
  unfold Codec_lookup_int. intros a b id c H. rewrite Codec_lookup_app.
  destruct (Codec_lookup a id); try discriminate. exact H.
Qed.

Lemma Codec_ids_cons : forall w d, Codec_ids (w :: d) = Codec_wire_id w ++ Codec_ids d.
Proof. reflexivity. Qed.

Lemma Codec_NoDup_app_notin : forall (a : list N) x b, NoDup (a ++ x :: b) -> ~ In x a.
Proof.
  intros a x b H I. apply NoDup_remove_2 in H. apply H. apply in_or_app. auto.
Qed.

Section Wire.
  Variable AD : Codec_adapter -> Z -> option Codec_fval.
  Hypothesis AD_ok : forall top k a z v, Codec_wf_adapter top k a = true -> Codec_not_count a ->
     Codec_krange k z = true -> AD a z = Some v -> Codec_aval_ok k a v.
  Hypothesis AD_cnt : forall t z v, AD (ACount t) z = Some v -> v = FInt z.

  Lemma Codec_dec_recs_length : forall its n b rs rest, Codec_dec_recs AD its n b = Some (rs, rest) -> length rs = n.
  Proof.
    induction n; intros b rs rest H; cbn in H.
    - inversion H; auto.
    - destruct (Codec_dec_items AD its b) as [[r t]|]; try discriminate.
      destruct (Codec_dec_recs AD its n t) as [[rs' rest']|] eqn:R; try discriminate.
      inversion H; subst. cbn. f_equal. eapply IHn; eauto.
  Qed.

  Lemma Codec_count_some : forall acc cnt b n, Codec_count acc cnt b = Some n ->
    exists c, Codec_lookup_int acc cnt = Some c /\ 0 <= c <= Z.of_nat (length b) /\ n = Z.to_nat c.
  Proof.
    unfold Codec_count. intros acc cnt b n H. destruct (Codec_lookup_int acc cnt) as [c|]; try discriminate.
    destruct ((c <? 0) || (Z.of_nat (length b) <? c)) eqn:E; inversion H. exists c. repeat split; auto; lia.
  Qed.
  Lemma Codec_count_intro : forall acc cnt b c, Codec_lookup_int acc cnt = Some c -> 0 <= c <= Z.of_nat (length b) ->
    Codec_count acc cnt b = Some (Z.to_nat c).
  Proof.
    unfold Codec_count. intros acc cnt b c H R. rewrite H.
    replace ((c <? 0) || (Z.of_nat (length b) <? c)) with false by lia. reflexivity.
  Qed.

  Lemma Codec_dec_one_keys : forall w acc b ents b', Codec_dec_one AD w acc b = Some (ents, b') -> map fst ents = Codec_wire_id w.
  Proof.
    intros w acc b ents b' H. destruct w as [it | id cnt body | id l]; cbn in H.
    - destruct it as [id k a | ps].
      + destruct (Codec_take (Codec_ksize k) b) as [[h t]|]; try discriminate.
        destruct (AD a (Codec_kdec k h)); try discriminate. inversion H; subst. reflexivity.
      + destruct (Codec_take (length ps) b) as [[h t]|]; try discriminate. inversion H; subst. reflexivity.
    - destruct (Codec_count acc cnt b); try discriminate.
      destruct (Codec_dec_recs AD body n b) as [[rs t]|]; try discriminate. inversion H; subst. reflexivity.
    - destruct l.
      + destruct (Codec_take n b) as [[h t]|]; try discriminate. inversion H; subst. reflexivity.
      + destruct (Codec_count acc cnt b); try discriminate.
        destruct (Codec_take n b) as [[h t]|]; try discriminate. inversion H; subst. reflexivity.
      + inversion H; subst. reflexivity.
  Qed.

  (* after a successful decode every counted part has exactly as many elements as its count field says *)
  Lemma Codec_dec_counts : forall d done b e rest,
    Codec_dec_wire AD d done b = Some (e, rest) -> NoDup (map fst done ++ Codec_ids d) ->
    forall cnt id, In (cnt, id) (Codec_uses_of d) ->
    exists c, Codec_lookup_int (done ++ e) cnt = Some c /\ Codec_len_of (done ++ e) id = Some c.
  Proof.
    induction d as [|w d IH]; intros done b e rest D ND cnt id I.
    - cbn in I. tauto.
    - cbn [Codec_dec_wire] in D.
      destruct (Codec_dec_one AD w done b) as [[ents b']|] eqn:O; try discriminate.
      destruct (Codec_dec_wire AD d (done ++ ents) b') as [[e' rest']|] eqn:R; try discriminate.
      inversion D; subst. pose proof (Codec_dec_one_keys _ _ _ _ _ O) as K.
      assert (ND' : NoDup (map fst (done ++ ents) ++ Codec_ids d)).
      { rewrite map_app, K, <- app_assoc. exact ND. }
      change (Codec_uses_of (w :: d)) with
        ((match w with WCounted id cnt _ => [(cnt, id)] | WBytes id (LCount cnt) => [(cnt, id)] | _ => [] end) ++ Codec_uses_of d) in I.
      apply in_app_or in I as [I | I].
      + (* the part at the head *)
        assert (HN : forall V, Codec_wire_id w = [id] -> Codec_lookup (done ++ (id, V) :: e') id = Some V).
        { intros V W. rewrite Codec_lookup_app, Codec_lookup_notin, Codec_lookup_head; auto.
          rewrite Codec_ids_cons, W in ND. cbn in ND. eapply Codec_NoDup_app_notin; eauto. }
        destruct w as [it | id0 cnt0 body | id0 l]; cbn in I; try tauto.
        * destruct I as [I|[]]. inversion I; subst. cbn in O.
          destruct (Codec_count done cnt b) eqn:C; try discriminate.
          destruct (Codec_dec_recs AD body n b) as [[rs t]|] eqn:RR; try discriminate. inversion O; subst.
          apply Codec_count_some in C as (c & L & Rg & ->).
          exists c. split. apply Codec_lookup_int_app_l; auto.
          unfold Codec_len_of. cbn [app]. rewrite HN by reflexivity.
          apply Codec_dec_recs_length in RR. rewrite RR. f_equal. lia.
        * destruct l; cbn in I; try tauto. destruct I as [I|[]]. inversion I; subst. cbn in O.
          destruct (Codec_count done cnt b) eqn:C; try discriminate.
          destruct (Codec_take n b) as [[h t]|] eqn:T; try discriminate. inversion O; subst.
          apply Codec_count_some in C as (c & L & Rg & ->).
          exists c. split. apply Codec_lookup_int_app_l; auto.
          unfold Codec_len_of. cbn [app]. rewrite HN by reflexivity.
          apply Codec_take_some in T as [_ T]. rewrite T. f_equal. lia.
      + destruct (IH _ _ _ _ R ND' cnt id I) as (c & A & B).
        exists c. rewrite <- app_assoc in A, B. auto.
  Qed.

  Ltac Codec_split6 := split; [|split; [|split; [|split; [|split]]]].

  Ltac Codec_plain_field :=
    match goal with
    | [ A : AD ?a (Codec_kdec ?k ?h) = Some ?v, L : length ?h = Codec_ksize ?k, Bh : Codec_bytes_ok ?h = true,
        W : Codec_wf_adapter true ?k ?a = true |- _ ] =>
        let NC := fresh "NC" in
        assert (NC : Codec_not_count a) by (intros ? ?; discriminate);
        destruct (Codec_field_rt AD AD_ok true k a h v L Bh W NC A) as (z' & E & Rz & D');
        exists (Codec_kenc k z'); Codec_split6;
        [ intros e'; cbn [app Codec_enc_one]; rewrite N.eqb_refl; cbn [Codec_aenc] in *; rewrite E, Rz; reflexivity
        | rewrite !app_length, Codec_kenc_length; lia
        | apply Codec_kenc_ok
        | assumption
        | intros _ tail; cbn [Codec_dec_one Codec_dec_items];
          rewrite <- (Codec_kenc_length k z') at 1; rewrite Codec_take_app, D'; reflexivity
        | intros G; discriminate G ]
    end.

  Lemma Codec_one_rt : forall w done full b ents b',
    Codec_dec_one AD w done b = Some (ents, b') -> Codec_bytes_ok b = true ->
    (forall i, w = WItem i -> Codec_wf_item true i = true) ->
    (forall id cnt body, w = WCounted id cnt body -> forallb (Codec_wf_item false) body = true /\ (1 <= Codec_items_size body)%nat) ->
    (forall cid k t z, w = WItem (IField cid k (ACount t)) -> ents = [(cid, VF (FInt z))] -> Codec_len_of full t = Some z) ->
    exists bs, (forall e', Codec_enc_one w full (ents ++ e') = Some (bs, e')) /\
               length b = (length bs + length b')%nat /\ Codec_bytes_ok bs = true /\ Codec_bytes_ok b' = true /\
               (Codec_is_greedy w = false -> forall tail, Codec_dec_one Codec_adec w done (bs ++ tail) = Some (ents, tail)) /\
               (Codec_is_greedy w = true -> b' = [] /\ Codec_dec_one Codec_adec w done bs = Some (ents, [])).
  Proof.
    intros w done full b ents b' O B Wi Wc Hc.
    destruct w as [it | id cnt body | id l].
    - specialize (Wi it eq_refl). destruct it as [id k a | ps]; cbn in O, Wi.
      + destruct (Codec_take (Codec_ksize k) b) as [[h t]|] eqn:T; try discriminate.
        destruct (AD a (Codec_kdec k h)) as [v|] eqn:A; try discriminate. inversion O; subst. clear O.
        apply Codec_take_some in T as [-> L].
        rewrite Codec_bytes_ok_app in B. apply andb_true_iff in B as [Bh Bt].
        destruct a; try Codec_plain_field.
        (* the count field: pack writes the length of the part it announces *)
        pose proof (AD_cnt _ _ _ A) as ->.
        specialize (Hc id k target _ eq_refl eq_refl).
        exists h. Codec_split6; auto.
        * intros e'. cbn [app Codec_enc_one]. rewrite N.eqb_refl, Hc, Codec_kdec_range, Codec_kenc_kdec; auto.
        * rewrite app_length. lia.
        * intros _ tail. cbn [Codec_dec_one Codec_dec_items]. rewrite <- L at 1. rewrite Codec_take_app. reflexivity.
        * intros G; discriminate G.
      + destruct (Codec_take (length ps) b) as [[h t]|] eqn:T; try discriminate. inversion O; subst. clear O.
        apply Codec_take_some in T as [-> L].
        rewrite Codec_bytes_ok_app in B. apply andb_true_iff in B as [Bh Bt].
        exists ps. Codec_split6; auto.
        * rewrite !app_length. lia.
        * intros _ tail. cbn [Codec_dec_one Codec_dec_items]. rewrite Codec_take_app. reflexivity.
        * intros G; discriminate G.
    - destruct (Wc _ _ _ eq_refl) as [Wb Ws]. cbn in O.
      destruct (Codec_count done cnt b) eqn:C; try discriminate.
      destruct (Codec_dec_recs AD body n b) as [[rs t]|] eqn:RR; try discriminate. inversion O; subst. clear O.
      destruct (Codec_recs_rt AD AD_ok _ _ _ _ _ Wb B RR) as (bs & E & L & Ob & Ot & Ln & Sz & Rd).
      apply Codec_count_some in C as (c & Lk & Rg & ->).
      exists bs. Codec_split6; auto.
      * intros e'. cbn [app Codec_enc_one]. rewrite N.eqb_refl, E. reflexivity.
      * intros _ tail. cbn [Codec_dec_one]. rewrite (Codec_count_intro _ _ _ c Lk), Rd; auto.
        rewrite app_length. split; [lia|]. nia.
      * intros G; discriminate G.
    - destruct l as [n | cnt | ]; cbn in O.
      + destruct (Codec_take n b) as [[h t]|] eqn:T; try discriminate. inversion O; subst. clear O.
        apply Codec_take_some in T as [-> L].
        rewrite Codec_bytes_ok_app in B. apply andb_true_iff in B as [Bh Bt].
        exists h. Codec_split6; auto.
        * intros e'. cbn [app Codec_enc_one Codec_len_okb]. rewrite N.eqb_refl, Bh, L, Nat.eqb_refl. reflexivity.
        * rewrite app_length. lia.
        * intros _ tail. cbn [Codec_dec_one]. rewrite <- L. rewrite Codec_take_app. reflexivity.
        * intros G; discriminate G.
      + destruct (Codec_count done cnt b) eqn:C; try discriminate.
        destruct (Codec_take n b) as [[h t]|] eqn:T; try discriminate. inversion O; subst. clear O.
        apply Codec_take_some in T as [-> L].
        rewrite Codec_bytes_ok_app in B. apply andb_true_iff in B as [Bh Bt].
        apply Codec_count_some in C as (c & Lk & Rg & E).
        exists h. Codec_split6; auto.
        * intros e'. cbn [app Codec_enc_one Codec_len_okb]. rewrite N.eqb_refl, Bh. reflexivity.
        * rewrite app_length. lia.
        * intros _ tail. cbn [Codec_dec_one]. rewrite (Codec_count_intro _ _ _ c Lk).
          -- rewrite <- E, <- L. rewrite Codec_take_app. reflexivity.
          -- rewrite app_length. lia.
        * intros G; discriminate G.
      + inversion O; subst. clear O. exists b. Codec_split6; auto.
        * intros e'. cbn [app Codec_enc_one Codec_len_okb]. rewrite N.eqb_refl, B. reflexivity.
        * intros G; discriminate G.
  Qed.

  Lemma Codec_wf_from_cons : forall w d seen, Codec_wf_from (w :: d) seen = true ->
    (forall i, w = WItem i -> Codec_wf_item true i = true) /\
    (forall id cnt body, w = WCounted id cnt body -> forallb (Codec_wf_item false) body = true /\ (1 <= Codec_items_size body)%nat) /\
    (Codec_is_greedy w = true -> d = []) /\
    Codec_wf_from d (match w with WItem (IField id _ (ACount t)) => (id, t) :: seen | _ => seen end) = true.
  Proof.
    intros w d seen H. cbn [Codec_wf_from] in H. apply andb_true_iff in H as [H1 H2].
    split; [|split; [|split]]; auto.
    - intros i ->. exact H1.
    - intros id cnt body ->. apply andb_true_iff in H1 as [H1 _]. apply andb_true_iff in H1 as [H1 H3].
      split; auto. apply Nat.leb_le. exact H3.
    - intros G. destruct w as [|? ? ?|? []]; try discriminate G. destruct d; auto. discriminate H1.
  Qed.

  Lemma Codec_nogreedy_cons : forall w d, Codec_nogreedy (w :: d) = negb (Codec_is_greedy w) && Codec_nogreedy d.
  Proof. reflexivity. Qed.

  Lemma Codec_wire_rt : forall d done b e rest seen full,
    Codec_dec_wire AD d done b = Some (e, rest) -> Codec_bytes_ok b = true -> Codec_wf_from d seen = true ->
    NoDup (map fst done ++ Codec_ids d) -> full = done ++ e ->
    (forall cid t, In (cid, t) (Codec_counts_of d) -> exists c, Codec_lookup_int full cid = Some c /\ Codec_len_of full t = Some c) ->
    exists bs, Codec_enc_wire d full e = Some bs /\ length b = (length bs + length rest)%nat /\ Codec_bytes_ok bs = true /\
      forall tail, (Codec_nogreedy d = true \/ tail = []) -> Codec_dec_wire Codec_adec d done (bs ++ tail) = Some (e, tail).
  Proof.
    induction d as [|w d IH]; intros done b e rest seen full D B W ND F Hcc.
    - cbn in D. inversion D; subst. exists []. cbn. repeat split; auto.
    - cbn [Codec_dec_wire] in D.
      destruct (Codec_dec_one AD w done b) as [[ents b']|] eqn:O; try discriminate.
      destruct (Codec_dec_wire AD d (done ++ ents) b') as [[e' rest']|] eqn:R; try discriminate.
      injection D as De Dr. subst e rest full.
      destruct (Codec_wf_from_cons _ _ _ W) as (Wi & Wc & Wg & W').
      pose proof (Codec_dec_one_keys _ _ _ _ _ O) as K.
      assert (ND' : NoDup (map fst (done ++ ents) ++ Codec_ids d)).
      { rewrite map_app, K, <- app_assoc. exact ND. }
      assert (Hc : forall cid k t z, w = WItem (IField cid k (ACount t)) -> ents = [(cid, VF (FInt z))] ->
                   Codec_len_of (done ++ ents ++ e') t = Some z).
      { intros cid k t z -> ->. destruct (Hcc cid t) as (c & A & Bc). { cbn. auto. }
        unfold Codec_lookup_int in A. cbn [app] in A. rewrite Codec_lookup_app, Codec_lookup_notin, Codec_lookup_head in A.
        - inversion A; subst. exact Bc.
        - rewrite Codec_ids_cons in ND. cbn in ND. eapply Codec_NoDup_app_notin; eauto. }
      destruct (Codec_one_rt w done (done ++ ents ++ e') b ents b' O B Wi Wc Hc) as (bsw & Ew & Lw & Ow & Ob' & Rng & Rg).
      destruct (IH (done ++ ents) b' e' rest' _ (done ++ ents ++ e') R Ob' W' ND') as (bs' & E' & L' & O' & R').
      { rewrite app_assoc. reflexivity. }
      { intros cid t I. apply Hcc. change (Codec_counts_of (w :: d)) with
          ((match w with WItem (IField id _ (ACount t)) => [(id, t)] | _ => [] end) ++ Codec_counts_of d).
        apply in_or_app. auto. }
      exists (bsw ++ bs'). split; [|split; [|split]].
      + cbn [Codec_enc_wire]. rewrite Ew, E'. reflexivity.
      + rewrite app_length. lia.
      + rewrite Codec_bytes_ok_app, Ow, O'. reflexivity.
      + intros tail Ht. cbn [Codec_dec_wire]. destruct (Codec_is_greedy w) eqn:G.
        * destruct (Rg eq_refl) as [-> Rg']. specialize (Wg eq_refl). subst d.
          cbn in R. inversion R; subst. cbn in E'. inversion E'; subst.
          destruct Ht as [Ht | ->]. { rewrite Codec_nogreedy_cons, G in Ht. discriminate Ht. }
          rewrite !app_nil_r. rewrite Rg'. cbn. rewrite app_nil_r. reflexivity.
        * rewrite <- app_assoc. rewrite (Rng eq_refl). rewrite R'; auto.
          destruct Ht as [Ht | Ht]; auto. rewrite Codec_nogreedy_cons, G in Ht. cbn in Ht. auto.
  Qed.

  Lemma Codec_nodupb_NoDup : forall l, Codec_nodupb l = true -> NoDup l.
  Proof.
    induction l as [|x l IH]; intros H; constructor; cbn in H; apply andb_true_iff in H as [H1 H2]; auto.
    intros I. apply negb_true_iff in H1. assert (existsb (N.eqb x) l = true); [|congruence].
    apply existsb_exists. exists x. split; auto. apply N.eqb_refl.
  Qed.

  Lemma Codec_counts_used : forall d, Codec_wf d = true -> forall p, In p (Codec_counts_of d) -> In p (Codec_uses_of d).
  Proof.
    intros d W p I. unfold Codec_wf in W. apply andb_true_iff in W as [_ W].
    rewrite forallb_forall in W. specialize (W p I). apply existsb_exists in W as (q & Iq & E).
    unfold Codec_pair_eqb in E. apply andb_true_iff in E as [E1 E2]. apply N.eqb_eq in E1, E2.
    destruct p, q; cbn in *; subst; auto.
  Qed.

  (* parse b = Some (v, n)  =>  pack v = Some b1, len b1 = n = size v, parse b1 = Some (v, n) (hence pack again = b1) *)
  Theorem Codec_roundtrip_AD : forall d b e n,
    Codec_wf d = true -> Codec_bytes_ok b = true -> Codec_parse_with AD d b = Some (e, n) ->
    exists b1, Codec_pack d e = Some b1 /\ length b1 = n /\ Codec_parse d b1 = Some (e, n) /\ Codec_bytes_ok b1 = true.
  Proof.
    intros d b e n W B P. unfold Codec_parse_with in P.
    destruct (Codec_dec_wire AD d [] b) as [[e0 rest]|] eqn:D; try discriminate. inversion P; subst. clear P.
    pose proof W as W0. unfold Codec_wf in W. apply andb_true_iff in W as [W _]. apply andb_true_iff in W as [Wn Wf].
    apply Codec_nodupb_NoDup in Wn.
    destruct (Codec_wire_rt d [] b e rest [] e D B Wf Wn eq_refl) as (bs & E & L & O & R).
    { intros cid t I. apply (Codec_dec_counts d [] b e rest D Wn). apply Codec_counts_used; auto. }
    exists bs. split; [exact E|]. split; [lia|]. split; auto.
    unfold Codec_parse, Codec_parse_with. specialize (R [] (or_intror eq_refl)). rewrite app_nil_r in R. rewrite R.
    cbn. f_equal. f_equal. lia.
  Qed.
End Wire.

(* ------------------------------------------------------------------------------------------------ *)
(* sizeof                                                                                             *)
(* ------------------------------------------------------------------------------------------------ *)

Lemma Codec_enc_items_length : forall its r bs, Codec_enc_items its r = Some bs -> length bs = Codec_items_size its.
Proof.
  induction its as [|it its IH]; intros r bs H.
  - cbn in H. destruct r; inversion H; reflexivity.
  - destruct it as [id k a | ps]; cbn [Codec_enc_items] in H.
    + destruct r as [|[id' v] r']; try discriminate. destruct (N.eqb id id'); try discriminate.
      destruct (Codec_aenc a v); try discriminate. destruct (Codec_krange k z); try discriminate.
      destruct (Codec_enc_items its r') eqn:E; try discriminate. inversion H; subst.
      rewrite app_length, Codec_kenc_length, (IH _ _ E). reflexivity.
    + destruct (Codec_enc_items its r) eqn:E; try discriminate. inversion H; subst.
      rewrite app_length, (IH _ _ E). reflexivity.
Qed.

Lemma Codec_enc_recs_length : forall its rs bs, Codec_enc_recs its rs = Some bs -> length bs = (length rs * Codec_items_size its)%nat.
Proof.
  induction rs as [|r rs IH]; intros bs H; cbn in H.
  - inversion H; reflexivity.
  - destruct (Codec_enc_items its r) eqn:E; try discriminate.
    destruct (Codec_enc_recs its rs) eqn:E2; try discriminate. inversion H; subst.
    rewrite app_length, (Codec_enc_items_length _ _ _ E), (IH _ eq_refl). cbn. lia.
Qed.

Lemma Codec_sizeof_enc : forall d full e bs, Codec_enc_wire d full e = Some bs -> Codec_sizeof d e = Some (length bs).
Proof.
  induction d as [|w d IH]; intros full e bs H.
  - cbn in *. destruct e; inversion H; reflexivity.
  - cbn [Codec_enc_wire] in H.
    destruct (Codec_enc_one w full e) as [[bw e']|] eqn:O; try discriminate.
    destruct (Codec_enc_wire d full e') eqn:E; try discriminate. inversion H; subst. clear H.
    specialize (IH _ _ _ E). rewrite app_length.
    destruct w as [[id k a | ps] | id cnt body | id bl]; cbn [Codec_enc_one] in O; cbn [Codec_sizeof].
    + destruct e as [|[id' [v| |]] e0]; try discriminate. destruct (N.eqb id id'); try discriminate.
      destruct (match a with ACount t => Codec_len_of full t | _ => Codec_aenc a v end); try discriminate.
      destruct (Codec_krange k z); try discriminate. inversion O; subst. rewrite IH, Codec_kenc_length. reflexivity.
    + inversion O; subst. rewrite IH. reflexivity.
    + destruct e as [|[id' [| |rs]] e0]; try discriminate. destruct (N.eqb id id'); try discriminate.
      destruct (Codec_enc_recs body rs) eqn:R; try discriminate. inversion O; subst.
      rewrite IH, (Codec_enc_recs_length _ _ _ R). reflexivity.
    + destruct e as [|[id' [| bs0 |]] e0]; try discriminate.
      destruct (N.eqb id id' && Codec_bytes_ok bs0 && Codec_len_okb bl bs0); try discriminate. inversion O; subst.
      rewrite IH. reflexivity.
Qed.

(* ------------------------------------------------------------------------------------------------ *)
(* the decode function used to state a theorem refines the model's decode                           *)
(* ------------------------------------------------------------------------------------------------ *)

Section Refine.
  Variables AD1 AD2 : Codec_adapter -> Z -> option Codec_fval.
  Hypothesis Sub : forall a z v, AD1 a z = Some v -> AD2 a z = Some v.

  Lemma Codec_dec_items_sub : forall its b r, Codec_dec_items AD1 its b = Some r -> Codec_dec_items AD2 its b = Some r.
  Proof.
    induction its as [|[id k a | ps] its IH]; intros b r H; cbn [Codec_dec_items] in *; auto.
    - destruct (Codec_take (Codec_ksize k) b) as [[h t]|]; try discriminate.
      destruct (AD1 a (Codec_kdec k h)) eqn:A; try discriminate. rewrite (Sub _ _ _ A).
      destruct (Codec_dec_items AD1 its t) as [[e rest]|] eqn:R; try discriminate. rewrite (IH _ _ R). exact H.
    - destruct (Codec_take (length ps) b) as [[h t]|]; try discriminate. auto.
  Qed.
  Lemma Codec_dec_recs_sub : forall its n b r, Codec_dec_recs AD1 its n b = Some r -> Codec_dec_recs AD2 its n b = Some r.
  Proof.
    induction n; intros b r H; cbn [Codec_dec_recs] in *; auto.
    destruct (Codec_dec_items AD1 its b) as [[x t]|] eqn:I; try discriminate. rewrite (Codec_dec_items_sub _ _ _ I).
    destruct (Codec_dec_recs AD1 its n t) as [[rs rest]|] eqn:R; try discriminate. rewrite (IHn _ _ R). exact H.
  Qed.
  Lemma Codec_dec_one_sub : forall w acc b r, Codec_dec_one AD1 w acc b = Some r -> Codec_dec_one AD2 w acc b = Some r.
  Proof.
    intros [it | id cnt body | id l] acc b r H; cbn [Codec_dec_one] in *; auto.
    - destruct (Codec_dec_items AD1 [it] b) as [[x t]|] eqn:I; try discriminate. rewrite (Codec_dec_items_sub _ _ _ I). exact H.
    - destruct (Codec_count acc cnt b); try discriminate.
      destruct (Codec_dec_recs AD1 body n b) as [[rs t]|] eqn:R; try discriminate. rewrite (Codec_dec_recs_sub _ _ _ _ R). exact H.
  Qed.
  Lemma Codec_dec_wire_sub : forall d acc b r, Codec_dec_wire AD1 d acc b = Some r -> Codec_dec_wire AD2 d acc b = Some r.
  Proof.
    induction d as [|w d IH]; intros acc b r H; cbn [Codec_dec_wire] in *; auto.
    destruct (Codec_dec_one AD1 w acc b) as [[ents b']|] eqn:O; try discriminate. rewrite (Codec_dec_one_sub _ _ _ _ O).
    destruct (Codec_dec_wire AD1 d (acc ++ ents) b') as [[e rest]|] eqn:R; try discriminate. rewrite (IH _ _ _ R). exact H.
  Qed.
  Lemma Codec_parse_sub : forall d b r, Codec_parse_with AD1 d b = Some r -> Codec_parse_with AD2 d b = Some r.
  Proof.
    unfold Codec_parse_with. intros d b r H.
    destruct (Codec_dec_wire AD1 d [] b) as [[e rest]|] eqn:D; try discriminate. rewrite (Codec_dec_wire_sub _ _ _ _ D). exact H.
  Qed.
End Refine.

(* a description without Timestamp fields decodes the same with the Timestamp adapter switched off *)
Lemma Codec_dec_items_nots : forall its b r, existsb Codec_item_uses_ts its = false ->
  Codec_dec_items Codec_adec its b = Some r -> Codec_dec_items Codec_adec_nots its b = Some r.
Proof.
  induction its as [|[id k a | ps] its IH]; intros b r U H; cbn [Codec_dec_items existsb] in *; auto.
  - apply orb_false_iff in U as [U1 U2].
    destruct (Codec_take (Codec_ksize k) b) as [[h t]|]; try discriminate.
    assert (E : Codec_adec_nots a (Codec_kdec k h) = Codec_adec a (Codec_kdec k h)) by (destruct a; try reflexivity; discriminate U1).
    rewrite E. destruct (Codec_adec a (Codec_kdec k h)); try discriminate.
    destruct (Codec_dec_items Codec_adec its t) as [[e rest]|] eqn:R; try discriminate. rewrite (IH _ _ U2 R). exact H.
  - apply orb_false_iff in U as [_ U2]. destruct (Codec_take (length ps) b) as [[h t]|]; try discriminate. auto.
Qed.
Lemma Codec_dec_recs_nots : forall its n b r, existsb Codec_item_uses_ts its = false ->
  Codec_dec_recs Codec_adec its n b = Some r -> Codec_dec_recs Codec_adec_nots its n b = Some r.
Proof.
  induction n; intros b r U H; cbn [Codec_dec_recs] in *; auto.
  destruct (Codec_dec_items Codec_adec its b) as [[x t]|] eqn:I; try discriminate. rewrite (Codec_dec_items_nots _ _ _ U I).
  destruct (Codec_dec_recs Codec_adec its n t) as [[rs rest]|] eqn:R; try discriminate. rewrite (IHn _ _ U R). exact H.
Qed.
Lemma Codec_dec_wire_nots : forall d acc b r, Codec_uses_ts d = false ->
  Codec_dec_wire Codec_adec d acc b = Some r -> Codec_dec_wire Codec_adec_nots d acc b = Some r.
Proof.
  induction d as [|w d IH]; intros acc b r U H; cbn [Codec_dec_wire] in *; auto.
  unfold Codec_uses_ts in U. cbn [existsb] in U. apply orb_false_iff in U as [U1 U2].
  destruct (Codec_dec_one Codec_adec w acc b) as [[ents b']|] eqn:O; try discriminate.
  assert (O' : Codec_dec_one Codec_adec_nots w acc b = Some (ents, b')).
  { destruct w as [it | id cnt body | id l]; cbn [Codec_dec_one] in *; auto.
    - destruct (Codec_dec_items Codec_adec [it] b) as [[x t]|] eqn:I; try discriminate.
      rewrite (Codec_dec_items_nots [it] b _ ltac:(cbn; rewrite U1; reflexivity) I). exact O.
    - destruct (Codec_count acc cnt b); try discriminate.
      destruct (Codec_dec_recs Codec_adec body n b) as [[rs t]|] eqn:R; try discriminate.
      rewrite (Codec_dec_recs_nots _ _ _ _ U1 R). exact O. }
  rewrite O'. destruct (Codec_dec_wire Codec_adec d (acc ++ ents) b') as [[e rest]|] eqn:R; try discriminate.
  rewrite (IH _ _ _ U2 R). exact H.
Qed.

(* ------------------------------------------------------------------------------------------------ *)
(* offsets                                                                                            *)
(* ------------------------------------------------------------------------------------------------ *)

Section Offsets.
  Variable AD : Codec_adapter -> Z -> option Codec_fval.

  Lemma Codec_dec_items_post : forall its b r rest post, Codec_dec_items AD its b = Some (r, rest) ->
    Codec_dec_items AD its (b ++ post) = Some (r, rest ++ post).
  Proof.
    induction its as [|[id k a | ps] its IH]; intros b r rest post H; cbn [Codec_dec_items] in *.
    - inversion H; reflexivity.
    - destruct (Codec_take (Codec_ksize k) b) as [[h t]|] eqn:T; try discriminate.
      rewrite (Codec_take_app_post _ _ _ _ post T). destruct (AD a (Codec_kdec k h)); try discriminate.
      destruct (Codec_dec_items AD its t) as [[e rest']|] eqn:R; try discriminate. inversion H; subst.
      rewrite (IH _ _ _ post R). reflexivity.
    - destruct (Codec_take (length ps) b) as [[h t]|] eqn:T; try discriminate.
      rewrite (Codec_take_app_post _ _ _ _ post T). auto.
  Qed.
  Lemma Codec_dec_recs_post : forall its n b rs rest post, Codec_dec_recs AD its n b = Some (rs, rest) ->
    Codec_dec_recs AD its n (b ++ post) = Some (rs, rest ++ post).
  Proof.
    induction n; intros b rs rest post H; cbn [Codec_dec_recs] in *.
    - inversion H; reflexivity.
    - destruct (Codec_dec_items AD its b) as [[x t]|] eqn:I; try discriminate. rewrite (Codec_dec_items_post _ _ _ _ post I).
      destruct (Codec_dec_recs AD its n t) as [[rs' rest']|] eqn:R; try discriminate. inversion H; subst.
      rewrite (IHn _ _ _ post R). reflexivity.
  Qed.
  Lemma Codec_count_post : forall acc cnt b n post, Codec_count acc cnt b = Some n -> Codec_count acc cnt (b ++ post) = Some n.
  Proof.
    unfold Codec_count. intros acc cnt b n post H. destruct (Codec_lookup_int acc cnt) as [c|]; try discriminate.
    destruct ((c <? 0) || (Z.of_nat (length b) <? c)) eqn:E; try discriminate.
    rewrite app_length. replace ((c <? 0) || (Z.of_nat (length b + length post) <? c)) with false by lia. exact H.
  Qed.
  Lemma Codec_dec_one_post : forall w acc b ents b' post, Codec_is_greedy w = false ->
    Codec_dec_one AD w acc b = Some (ents, b') -> Codec_dec_one AD w acc (b ++ post) = Some (ents, b' ++ post).
  Proof.
    intros [it | id cnt body | id l] acc b ents b' post G H; cbn [Codec_dec_one] in *.
    - destruct (Codec_dec_items AD [it] b) as [[x t]|] eqn:I; try discriminate. rewrite (Codec_dec_items_post _ _ _ _ post I).
      inversion H; reflexivity.
    - destruct (Codec_count acc cnt b) eqn:C; try discriminate. rewrite (Codec_count_post _ _ _ _ post C).
      destruct (Codec_dec_recs AD body n b) as [[rs t]|] eqn:R; try discriminate. rewrite (Codec_dec_recs_post _ _ _ _ _ post R).
      inversion H; reflexivity.
    - destruct l; try discriminate G.
      + destruct (Codec_take n b) as [[h t]|] eqn:T; try discriminate. rewrite (Codec_take_app_post _ _ _ _ post T). inversion H; reflexivity.
      + destruct (Codec_count acc cnt b) eqn:C; try discriminate. rewrite (Codec_count_post _ _ _ _ post C).
        destruct (Codec_take n b) as [[h t]|] eqn:T; try discriminate. rewrite (Codec_take_app_post _ _ _ _ post T). inversion H; reflexivity.
  Qed.
  Lemma Codec_dec_wire_post : forall d acc b e rest post, Codec_nogreedy d = true ->
    Codec_dec_wire AD d acc b = Some (e, rest) -> Codec_dec_wire AD d acc (b ++ post) = Some (e, rest ++ post).
  Proof.
    induction d as [|w d IH]; intros acc b e rest post G H; cbn [Codec_dec_wire] in *.
    - inversion H; reflexivity.
    - rewrite Codec_nogreedy_cons in G. apply andb_true_iff in G as [G1 G2]. apply negb_true_iff in G1.
      destruct (Codec_dec_one AD w acc b) as [[ents b']|] eqn:O; try discriminate.
      rewrite (Codec_dec_one_post _ _ _ _ _ post G1 O).
      destruct (Codec_dec_wire AD d (acc ++ ents) b') as [[e' rest']|] eqn:R; try discriminate. inversion H; subst.
      rewrite (IH _ _ _ _ post G2 R). reflexivity.
  Qed.

  (* a layout with a greedy tail consumes everything it is given *)
  Lemma Codec_greedy_all : forall d seen acc b e rest, Codec_wf_from d seen = true -> Codec_nogreedy d = false ->
    Codec_dec_wire AD d acc b = Some (e, rest) -> rest = [].
  Proof.
    induction d as [|w d IH]; intros seen acc b e rest W G H.
    - discriminate G.
    - cbn [Codec_dec_wire] in H. destruct (Codec_wf_from_cons _ _ _ W) as (_ & _ & Wg & W').
      destruct (Codec_dec_one AD w acc b) as [[ents b']|] eqn:O; try discriminate.
      destruct (Codec_dec_wire AD d (acc ++ ents) b') as [[e' rest']|] eqn:R; try discriminate. inversion H; subst.
      rewrite Codec_nogreedy_cons in G. destruct (Codec_is_greedy w) eqn:Gw.
      + specialize (Wg eq_refl). subst d. cbn in R. inversion R; subst.
        destruct w as [|? ? ?|? []]; try discriminate Gw. cbn in O. inversion O; reflexivity.
      + cbn in G. eapply IH; eauto.
  Qed.
End Offsets.

Theorem Codec_offset_indep_parse : forall d b e n, Codec_nogreedy d = true -> Codec_parse d b = Some (e, n) ->
  forall pre post, Codec_parse_at d (length pre) (pre ++ b ++ post) = Some (e, n).
Proof.
  intros d b e n G P pre post. unfold Codec_parse_at. rewrite app_length.
  replace (length pre + length (b ++ post) <? length pre)%nat with false by lia.
  rewrite skipn_app, skipn_all, Nat.sub_diag. cbn [app skipn].
  unfold Codec_parse, Codec_parse_with in *.
  destruct (Codec_dec_wire Codec_adec d [] b) as [[e0 rest]|] eqn:D; try discriminate. inversion P; subst.
  rewrite (Codec_dec_wire_post _ _ _ _ _ _ post G D). rewrite !app_length. f_equal. f_equal. lia.
Qed.

Theorem Codec_pack_into_spec : forall buf off b1 r, Codec_pack_into buf off b1 = Some r ->
  length r = length buf /\ firstn off r = firstn off buf /\
  firstn (length b1) (skipn off r) = b1 /\ skipn (off + length b1) r = skipn (off + length b1) buf.
Proof.
  unfold Codec_pack_into. intros buf off b1 r H.
  destruct (length buf <? off + length b1)%nat eqn:L; inversion H; subst. clear H.
  assert (Lf : length (firstn off buf) = off) by (apply firstn_length_le; lia).
  split; [|split; [|split]].
  - rewrite !app_length, Lf, skipn_length. lia.
  - rewrite firstn_app, Lf, Nat.sub_diag, firstn_O, app_nil_r. rewrite firstn_firstn. f_equal. lia.
  - rewrite skipn_app, Lf, Nat.sub_diag. cbn [skipn]. rewrite (skipn_all2 (firstn off buf)) by lia. cbn [app].
    rewrite firstn_app, Nat.sub_diag, firstn_O, app_nil_r. apply firstn_all.
  - rewrite skipn_app, Lf. rewrite (skipn_all2 (firstn off buf)) by lia. cbn [app].
    replace (off + length b1 - off)%nat with (length b1) by lia.
    rewrite skipn_app, Nat.sub_diag, skipn_all. reflexivity.
Qed.
