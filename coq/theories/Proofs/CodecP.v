(* C01 — lemmas about the generic codec interpreters (Models/CodecM.v). *)
From Coq Require Import ZArith NArith List Bool Lia ZifyBool ZifyNat.
From FEC Require Import Models.CodecM.
Import ListNotations.
Open Scope Z_scope.

(* ------------------------------------------------------------------------------------------------ *)
(* bytes                                                                                              *)
(* ------------------------------------------------------------------------------------------------ *)

Lemma Codec_bytes_ok_app : forall a b, Codec_bytes_ok (a ++ b) = Codec_bytes_ok a && Codec_bytes_ok b.
Proof. intros; unfold Codec_bytes_ok; apply forallb_app. Qed.

Lemma Codec_bytes_ok_firstn : forall n l, Codec_bytes_ok l = true -> Codec_bytes_ok (firstn n l) = true.
Proof.
  induction n; intros [|x l] H; cbn in *; auto.
  apply andb_true_iff in H as [H1 H2]. rewrite H1; cbn. apply IHn; auto.
Qed.
Lemma Codec_bytes_ok_skipn : forall n l, Codec_bytes_ok l = true -> Codec_bytes_ok (skipn n l) = true.
Proof.
  induction n; intros [|x l] H; cbn in *; auto.
  apply andb_true_iff in H as [H1 H2]. apply IHn; auto.
Qed.

Lemma Codec_le_dec_range : forall l, Codec_bytes_ok l = true -> 0 <= Codec_le_dec l < 256 ^ Z.of_nat (length l).
Proof.
  induction l as [|b l IH]; intros H.
  - cbn. lia.
  - cbn [Codec_le_dec length]. cbn in H. apply andb_true_iff in H as [Hb Hl].
    specialize (IH Hl). unfold Codec_byte_ok in Hb.
    rewrite Nat2Z.inj_succ, Z.pow_succ_r by lia. lia.
Qed.

Lemma Codec_le_enc_dec : forall l, Codec_bytes_ok l = true -> Codec_le_enc (length l) (Codec_le_dec l) = l.
Proof.
  induction l as [|b l IH]; intros H; cbn [Codec_le_dec length Codec_le_enc]; auto.
  cbn in H. apply andb_true_iff in H as [Hb Hl]. unfold Codec_byte_ok in Hb.
  f_equal.
  - rewrite (Z.mul_comm 256), Z.mod_add by lia. apply Z.mod_small; lia.
  - rewrite (Z.mul_comm 256), Z.div_add by lia. rewrite (Z.div_small b) by lia. cbn. apply IH; auto.
Qed.

Lemma Codec_le_enc_length : forall n z, length (Codec_le_enc n z) = n.
Proof. induction n; intros; cbn; auto. Qed.

Lemma Codec_le_enc_ok : forall n z, Codec_bytes_ok (Codec_le_enc n z) = true.
Proof.
  induction n; intros; cbn; auto. rewrite IHn, andb_true_r. unfold Codec_byte_ok.
  pose proof (Z.mod_pos_bound z 256 ltac:(lia)). lia.
Qed.

Lemma Codec_le_dec_enc : forall n z, 0 <= z < 256 ^ Z.of_nat n -> Codec_le_dec (Codec_le_enc n z) = z.
Proof.
  induction n; intros z Hz.
  - cbn in *. lia.
  - cbn [Codec_le_enc Codec_le_dec]. rewrite Nat2Z.inj_succ, Z.pow_succ_r in Hz by lia.
    rewrite IHn.
    + pose proof (Z.div_mod z 256 ltac:(lia)). lia.
    + split. apply Z.div_pos; lia. apply Z.div_lt_upper_bound; lia.
Qed.

Lemma Codec_kbits_pow : forall k, 2 ^ Codec_kbits k = 256 ^ Z.of_nat (Codec_ksize k).
Proof. destruct k; reflexivity. Qed.
Lemma Codec_kbits_pos : forall k, 8 <= Codec_kbits k.
Proof. destruct k; cbv; discriminate. Qed.

Lemma Codec_kdec_range : forall k l, length l = Codec_ksize k -> Codec_bytes_ok l = true ->
  Codec_krange k (Codec_kdec k l) = true.
Proof.
  intros k l Hl Hok. pose proof (Codec_le_dec_range l Hok) as R. rewrite Hl, <- Codec_kbits_pow in R.
  pose proof (Codec_kbits_pos k) as P.
  assert (E : 2 ^ Codec_kbits k = 2 * 2 ^ (Codec_kbits k - 1)).
  { rewrite <- Z.pow_succ_r by lia. f_equal; lia. }
  unfold Codec_krange, Codec_kdec. destruct (Codec_ksigned k); cbn [andb].
  - destruct (2 ^ (Codec_kbits k - 1) <=? Codec_le_dec l) eqn:C; lia.
  - lia.
Qed.

Lemma Codec_kenc_kdec : forall k l, length l = Codec_ksize k -> Codec_bytes_ok l = true ->
  Codec_kenc k (Codec_kdec k l) = l.
Proof.
  intros k l Hl Hok. pose proof (Codec_le_dec_range l Hok) as R. rewrite Hl, <- Codec_kbits_pow in R.
  pose proof (Codec_kbits_pos k) as P.
  assert (E : 2 ^ Codec_kbits k = 2 * 2 ^ (Codec_kbits k - 1)).
  { rewrite <- Z.pow_succ_r by lia. f_equal; lia. }
  assert (Q : 0 < 2 ^ (Codec_kbits k - 1)) by (apply Z.pow_pos_nonneg; lia).
  unfold Codec_kenc, Codec_kdec. rewrite <- Hl.
  destruct (Codec_ksigned k); cbn [andb].
  - destruct (2 ^ (Codec_kbits k - 1) <=? Codec_le_dec l) eqn:C.
    + replace (Codec_le_dec l - 2 ^ Codec_kbits k <? 0) with true by lia.
      replace (Codec_le_dec l - 2 ^ Codec_kbits k + 2 ^ Codec_kbits k) with (Codec_le_dec l) by lia.
      apply Codec_le_enc_dec; auto.
    + replace (Codec_le_dec l <? 0) with false by lia. apply Codec_le_enc_dec; auto.
  - replace (Codec_le_dec l <? 0) with false by lia. apply Codec_le_enc_dec; auto.
Qed.

Lemma Codec_kenc_length : forall k z, length (Codec_kenc k z) = Codec_ksize k.
Proof. intros; apply Codec_le_enc_length. Qed.
Lemma Codec_kenc_ok : forall k z, Codec_bytes_ok (Codec_kenc k z) = true.
Proof. intros; apply Codec_le_enc_ok. Qed.

Lemma Codec_kdec_kenc : forall k z, Codec_krange k z = true -> Codec_kdec k (Codec_kenc k z) = z.
Proof.
  intros k z Hr. pose proof (Codec_kbits_pos k) as P.
  assert (E : 2 ^ Codec_kbits k = 2 * 2 ^ (Codec_kbits k - 1)).
  { rewrite <- Z.pow_succ_r by lia. f_equal; lia. }
  assert (Q : 0 < 2 ^ (Codec_kbits k - 1)) by (apply Z.pow_pos_nonneg; lia).
  unfold Codec_krange in Hr. unfold Codec_kdec, Codec_kenc.
  destruct (Codec_ksigned k) eqn:S; cbn [andb].
  - destruct (z <? 0) eqn:N.
    + rewrite Codec_le_dec_enc by (rewrite <- Codec_kbits_pow; lia).
      replace (2 ^ (Codec_kbits k - 1) <=? z + 2 ^ Codec_kbits k) with true by lia. lia.
    + rewrite Codec_le_dec_enc by (rewrite <- Codec_kbits_pow; lia).
      replace (2 ^ (Codec_kbits k - 1) <=? z) with false by lia. lia.
  - replace (z <? 0) with false by lia.
    rewrite Codec_le_dec_enc by (rewrite <- Codec_kbits_pow; lia). auto.
Qed.

(* ------------------------------------------------------------------------------------------------ *)
(* take                                                                                               *)
(* ------------------------------------------------------------------------------------------------ *)

Lemma Codec_take_some : forall n b h t, Codec_take n b = Some (h, t) -> b = h ++ t /\ length h = n.
Proof.
  induction n as [|n IH]; intros b h t H; cbn [Codec_take] in H.
  - inversion H; subst. auto.
  - destruct b as [|x r]; try discriminate. destruct (Codec_take n r) as [[h' t']|] eqn:E; try discriminate.
    inversion H; subst. destruct (IH _ _ _ E) as [-> L]. cbn. auto.
Qed.
Lemma Codec_take_app : forall h tail, Codec_take (length h) (h ++ tail) = Some (h, tail).
Proof.
  induction h as [|x h IH]; intros tail; cbn [length app Codec_take]; auto. rewrite IH. reflexivity.
Qed.
Lemma Codec_take_app_post : forall n b h t post, Codec_take n b = Some (h, t) -> Codec_take n (b ++ post) = Some (h, t ++ post).
Proof.
  intros n b h t post H. apply Codec_take_some in H as [-> <-]. rewrite <- app_assoc. apply Codec_take_app.
Qed.

(* ------------------------------------------------------------------------------------------------ *)
(* adapters                                                                                           *)
(* ------------------------------------------------------------------------------------------------ *)

(* v is a value the adapter can write and read back unchanged *)
Definition Codec_aval_ok (k : Codec_kind) (a : Codec_adapter) (v : Codec_fval) : Prop :=
  exists z', Codec_aenc a v = Some z' /\ Codec_krange k z' = true /\ Codec_adec a z' = Some v.

Definition Codec_not_count (a : Codec_adapter) : Prop := forall t, a <> ACount t.

Lemma Codec_quiet32_range : forall z, 0 <= z < 2 ^ 32 -> 0 <= Codec_quiet32 z < 2 ^ 32.
Proof.
  intros z Hz. unfold Codec_quiet32.
  destruct ((z / 2 ^ 23) mod 256 =? 255) eqn:A; cbn [andb]; try lia.
  destruct (negb (z mod 2 ^ 23 =? 0)) eqn:B; cbn [andb]; try lia.
  destruct ((z / 2 ^ 22) mod 2 =? 0) eqn:C; try lia.
Qed.

Lemma Codec_quiet32_idem : forall z, 0 <= z -> Codec_quiet32 (Codec_quiet32 z) = Codec_quiet32 z.
Proof.
  intros z Hz.
  destruct (((z / 2 ^ 23) mod 256 =? 255) && negb (z mod 2 ^ 23 =? 0) && ((z / 2 ^ 22) mod 2 =? 0)) eqn:A.
  - assert (E : Codec_quiet32 z = z + 2 ^ 22) by (unfold Codec_quiet32; rewrite A; reflexivity).
    rewrite E. apply andb_true_iff in A as [A C]. apply Z.eqb_eq in C.
    unfold Codec_quiet32.
    replace (((z + 2 ^ 22) / 2 ^ 22) mod 2 =? 0) with false; [rewrite andb_false_r; reflexivity|].
    replace (z + 2 ^ 22) with (z + 1 * 2 ^ 22) by lia. rewrite Z.div_add by lia.
    symmetry. apply Z.eqb_neq. rewrite Z.add_mod by lia. rewrite C. discriminate.
  - assert (E : Codec_quiet32 z = z) by (unfold Codec_quiet32; rewrite A; reflexivity).
    rewrite E. exact E.
Qed.

Lemma Codec_adapter_fix : forall top k a z v,
  Codec_wf_adapter top k a = true -> Codec_not_count a -> a <> ATimestamp ->
  Codec_krange k z = true -> Codec_adec a z = Some v -> Codec_aval_ok k a v.
Proof.
  intros top k a z v W NC NT R D. unfold Codec_aval_ok.
  destruct a; cbn in D; try congruence.
  - (* AId *) inversion D; subst. exists z. auto.
  - (* ABool *) inversion D; subst. destruct k; try discriminate.
    exists (if z =? 0 then 0 else 1). cbn. destruct (z =? 0); cbn; auto.
  - (* AQuiet32 *) inversion D; subst. destruct k; try discriminate.
    unfold Codec_krange in *. cbn [Codec_ksigned] in *. change (Codec_kbits F32) with 32 in *.
    assert (0 <= z < 2 ^ 32) as Hz by lia.
    pose proof (Codec_quiet32_range z Hz).
    exists (Codec_quiet32 z). cbn. split; auto. split; [lia|]. rewrite Codec_quiet32_idem by lia. auto.
  - (* AStrict *) destruct (existsb (Z.eqb z) members) eqn:M; inversion D; subst.
    exists z. cbn. rewrite M. auto.
  - (* ASentinel *) inversion D; subst. cbn in W.
    destruct (z =? inv) eqn:E.
    + exists inv. cbn. rewrite Z.eqb_refl. auto.
    + exists z. cbn. rewrite E. auto.
Qed.

(* the adapter-decode functions used to state theorems refine the model's decode *)
Definition Codec_adec_nots (a : Codec_adapter) (z : Z) : option Codec_fval :=
  match a with ATimestamp => None | _ => Codec_adec a z end.

(* The Timestamp projection law, in full: every stamp a conforming sender produces decodes to a double that
   pack writes back as a stamp decoding to the same double. *)
Definition Codec_ts_projection_full : Prop :=
  forall z, 0 <= z < 2 ^ 64 -> Codec_ts_dom z = true -> Codec_aval_ok U64 ATimestamp (Codec_ts_dec z).

(* ------------------------------------------------------------------------------------------------ *)
(* generic round trip                                                                                 *)
(* ------------------------------------------------------------------------------------------------ *)

(* ------------------------------------------------------------------------------------------------ *)
(* strings                                                                                            *)
(* ------------------------------------------------------------------------------------------------ *)

Lemma Codec_strip_snoc0 : forall l, Codec_strip (l ++ [0]) = Codec_strip l.
Proof.
  induction l as [|x r IH]; cbn [app Codec_strip]; auto. rewrite IH. reflexivity.
Qed.
Lemma Codec_strip_zeros : forall k l, Codec_strip (l ++ repeat 0 k) = Codec_strip l.
Proof.
  induction k; intros l; cbn [repeat].
  - rewrite app_nil_r. reflexivity.
  - replace (l ++ 0 :: repeat 0 k) with ((l ++ [0]) ++ repeat 0 k) by (rewrite <- app_assoc; reflexivity).
    rewrite IHk. apply Codec_strip_snoc0.
Qed.
Lemma Codec_strip_idem : forall l, Codec_strip (Codec_strip l) = Codec_strip l.
Proof.
  induction l as [|x r IH]; cbn [Codec_strip]; auto.
  destruct (Codec_strip r) as [|y r'] eqn:E.
  - destruct (x =? 0) eqn:Z0; cbn [Codec_strip]; auto. rewrite Z0. reflexivity.
  - cbn [Codec_strip]. cbn [Codec_strip] in IH. rewrite IH. reflexivity.
Qed.
Lemma Codec_strip_length : forall l, (length (Codec_strip l) <= length l)%nat.
Proof.
  induction l as [|x r IH]; cbn [Codec_strip length]; auto.
  destruct (Codec_strip r) as [|y r'].
  - destruct (x =? 0); cbn; lia.
  - cbn [length] in *. lia.
Qed.
Lemma Codec_strip_ok : forall l, Codec_bytes_ok l = true -> Codec_bytes_ok (Codec_strip l) = true.
Proof.
  induction l as [|x r IH]; intros H; cbn [Codec_strip]; auto.
  cbn in H. apply andb_true_iff in H as [H1 H2]. specialize (IH H2).
  destruct (Codec_strip r) as [|y r'].
  - destruct (x =? 0); cbn; auto. rewrite H1. reflexivity.
  - cbn. cbn in IH. rewrite H1, IH. reflexivity.
Qed.
Lemma Codec_repeat0_ok : forall k, Codec_bytes_ok (repeat 0 k) = true.
Proof. induction k; cbn; auto. Qed.
Lemma Codec_str_dec_some : forall h sv, Codec_str_dec h = Some sv -> sv = Codec_strip h /\ Codec_utf8_ok sv = true.
Proof.
  unfold Codec_str_dec. intros h sv H. destruct (Codec_utf8_ok (Codec_strip h)) eqn:U; inversion H; subst. auto.
Qed.
Lemma Codec_str_dec_padded : forall h sv k, Codec_str_dec h = Some sv -> Codec_str_dec (sv ++ repeat 0 k) = Some sv.
Proof.
  intros h sv k H. apply Codec_str_dec_some in H as [-> U]. unfold Codec_str_dec.
  rewrite Codec_strip_zeros, Codec_strip_idem, U. reflexivity.
Qed.

(* ------------------------------------------------------------------------------------------------ *)
(* generic round trip                                                                                 *)
(* ------------------------------------------------------------------------------------------------ *)

Section RoundTrip.
  Variable AD : Codec_adapter -> Z -> option Codec_fval.
  Hypothesis AD_ok : forall top k a z v, Codec_wf_adapter top k a = true -> Codec_not_count a ->
     Codec_krange k z = true -> AD a z = Some v -> Codec_aval_ok k a v.

  Lemma Codec_field_rt : forall top k a h v,
    length h = Codec_ksize k -> Codec_bytes_ok h = true -> Codec_wf_adapter top k a = true -> Codec_not_count a ->
    AD a (Codec_kdec k h) = Some v ->
    exists z', Codec_aenc a v = Some z' /\ Codec_krange k z' = true /\ Codec_adec a (Codec_kdec k (Codec_kenc k z')) = Some v.
  Proof.
    intros top k a h v L B W NC D.
    destruct (AD_ok top k a _ v W NC (Codec_kdec_range k h L B) D) as (z' & E & R & D').
    exists z'. rewrite Codec_kdec_kenc by auto. auto.
  Qed.

  Lemma Codec_items_rt : forall its b r rest,
    forallb (Codec_wf_item false) its = true -> Codec_bytes_ok b = true ->
    Codec_dec_items AD its b = Some (r, rest) ->
    exists bs, Codec_enc_items its r = Some bs /\ length b = (length bs + length rest)%nat /\
               Codec_bytes_ok bs = true /\ Codec_bytes_ok rest = true /\ length bs = Codec_items_size its /\
               forall tail, Codec_dec_items Codec_adec its (bs ++ tail) = Some (r, tail).
  Proof.
    induction its as [|it its IH]; intros b r rest W B D.
    - cbn in D. inversion D; subst. exists []. cbn. repeat split; auto.
    - cbn in W. apply andb_true_iff in W as [Wi W].
      destruct it as [id k a | ps | id n].
      + cbn [Codec_dec_items] in D.
        destruct (Codec_take (Codec_ksize k) b) as [[h t]|] eqn:T; try discriminate.
        destruct (AD a (Codec_kdec k h)) as [v|] eqn:A; try discriminate.
        destruct (Codec_dec_items AD its t) as [[e rest']|] eqn:R; try discriminate.
        inversion D; subst. apply Codec_take_some in T as [-> L].
        rewrite Codec_bytes_ok_app in B. apply andb_true_iff in B as [Bh Bt].
        cbn in Wi.
        assert (NC : Codec_not_count a) by (intros t0 ->; cbn in Wi; discriminate).
        destruct (Codec_field_rt false k a h v L Bh Wi NC A) as (z' & E & Rz & D').
        destruct (IH _ _ _ W Bt R) as (bs & Eb & Lb & Ob & Or & Sb & Rb).
        exists (Codec_kenc k z' ++ bs). cbn [Codec_enc_items]. rewrite N.eqb_refl, E, Rz, Eb.
        split; [reflexivity|]. split; [rewrite !app_length, Codec_kenc_length; lia|].
        split; [rewrite Codec_bytes_ok_app, Codec_kenc_ok, Ob; reflexivity|]. split; [exact Or|].
        split; [rewrite app_length, Codec_kenc_length; unfold Codec_items_size in *; cbn [fold_right Codec_item_size]; lia|].
        intros tail. cbn [Codec_dec_items]. rewrite <- app_assoc.
        rewrite <- (Codec_kenc_length k z') at 1. rewrite Codec_take_app. rewrite D', Rb. reflexivity.
      + cbn [Codec_dec_items] in D.
        destruct (Codec_take (length ps) b) as [[h t]|] eqn:T; try discriminate.
        apply Codec_take_some in T as [-> L].
        rewrite Codec_bytes_ok_app in B. apply andb_true_iff in B as [Bh Bt].
        destruct (IH _ _ _ W Bt D) as (bs & Eb & Lb & Ob & Or & Sb & Rb).
        exists (ps ++ bs). cbn [Codec_enc_items]. rewrite Eb. cbn in Wi.
        split; [reflexivity|]. split; [rewrite !app_length; lia|].
        split; [rewrite Codec_bytes_ok_app, Wi, Ob; reflexivity|]. split; [exact Or|].
        split; [rewrite app_length; unfold Codec_items_size in *; cbn [fold_right Codec_item_size]; lia|].
        intros tail. cbn [Codec_dec_items]. rewrite <- app_assoc. rewrite Codec_take_app. apply Rb.
      + cbn [Codec_dec_items] in D.
        destruct (Codec_take n b) as [[h t]|] eqn:T; try discriminate.
        destruct (Codec_str_dec h) as [sv|] eqn:S; try discriminate.
        destruct (Codec_dec_items AD its t) as [[e rest']|] eqn:R; try discriminate.
        inversion D; subst. apply Codec_take_some in T as [-> L]. subst n.
        rewrite Codec_bytes_ok_app in B. apply andb_true_iff in B as [Bh Bt].
        destruct (IH _ _ _ W Bt R) as (bs & Eb & Lb & Ob & Or & Sb & Rb).
        pose proof (Codec_str_dec_some _ _ S) as [Es Us].
        assert (Ls : (length sv <= length h)%nat) by (rewrite Es; apply Codec_strip_length).
        assert (Os : Codec_bytes_ok sv = true) by (rewrite Es; apply Codec_strip_ok; auto).
        assert (Lp : length (sv ++ repeat 0 (length h - length sv)) = length h) by (rewrite app_length, repeat_length; lia).
        exists (sv ++ repeat 0 (length h - length sv) ++ bs). cbn [Codec_enc_items]. rewrite N.eqb_refl, Os, Eb.
        replace (length sv <=? length h)%nat with true by (symmetry; apply Nat.leb_le; lia). cbn [andb].
        split; [reflexivity|]. split; [rewrite !app_length, repeat_length; lia|].
        split; [rewrite !Codec_bytes_ok_app, Os, Codec_repeat0_ok, Ob; reflexivity|]. split; [exact Or|].
        split; [rewrite !app_length, repeat_length; unfold Codec_items_size in *; cbn [fold_right Codec_item_size]; lia|].
        intros tail. cbn [Codec_dec_items].
        replace ((sv ++ repeat 0 (length h - length sv) ++ bs) ++ tail) with ((sv ++ repeat 0 (length h - length sv)) ++ (bs ++ tail))
          by (rewrite <- !app_assoc; reflexivity).
        rewrite <- Lp at 1. rewrite Codec_take_app. rewrite (Codec_str_dec_padded _ _ _ S), Rb. reflexivity.
  Qed.

  Lemma Codec_recs_rt : forall its n b rs rest,
    forallb (Codec_wf_item false) its = true -> Codec_bytes_ok b = true ->
    Codec_dec_recs AD its n b = Some (rs, rest) ->
    exists bs, Codec_enc_recs its rs = Some bs /\ length b = (length bs + length rest)%nat /\
               Codec_bytes_ok bs = true /\ Codec_bytes_ok rest = true /\ length rs = n /\
               length bs = (n * Codec_items_size its)%nat /\
               forall tail, Codec_dec_recs Codec_adec its n (bs ++ tail) = Some (rs, tail).
  Proof.
    induction n as [|n IH]; intros b rs rest W B D.
    - cbn in D. inversion D; subst. exists []. cbn. repeat split; auto.
    - cbn [Codec_dec_recs] in D.
      destruct (Codec_dec_items AD its b) as [[r t]|] eqn:I; try discriminate.
      destruct (Codec_dec_recs AD its n t) as [[rs' rest']|] eqn:R; try discriminate.
      inversion D; subst.
      destruct (Codec_items_rt _ _ _ _ W B I) as (b1 & E1 & L1 & O1 & Ot & S1 & R1).
      destruct (IH _ _ _ W Ot R) as (b2 & E2 & L2 & O2 & Or & Ln & S2 & R2).
      exists (b1 ++ b2). cbn [Codec_enc_recs]. rewrite E1, E2.
      split; [reflexivity|]. split; [rewrite app_length; lia|].
      split; [rewrite Codec_bytes_ok_app, O1, O2; reflexivity|]. split; [exact Or|].
      split; [cbn; lia|]. split; [rewrite app_length; lia|].
      intros tail. cbn [Codec_dec_recs]. rewrite <- app_assoc, R1, R2. reflexivity.
  Qed.
End RoundTrip.

(* ------------------------------------------------------------------------------------------------ *)
(* environments                                                                                       *)
(* ------------------------------------------------------------------------------------------------ *)

Lemma Codec_lookup_app : forall a b id,
  Codec_lookup (a ++ b) id = match Codec_lookup a id with Some v => Some v | None => Codec_lookup b id end.
Proof.
  unfold Codec_lookup. induction a as [|p a IH]; intros; cbn [app find]; auto.
  destruct (N.eqb (fst p) id); auto.
Qed.
Lemma Codec_lookup_notin : forall e id, ~ In id (map fst e) -> Codec_lookup e id = None.
Proof.
  unfold Codec_lookup. induction e as [|p e IH]; intros id H; cbn [find]; auto.
  cbn in H. destruct (N.eqb (fst p) id) eqn:E.
  - apply N.eqb_eq in E. tauto.
  - apply IH. tauto.
Qed.
Lemma Codec_lookup_head : forall id v e, Codec_lookup ((id, v) :: e) id = Some v.
Proof. intros. unfold Codec_lookup. cbn. rewrite N.eqb_refl. reflexivity. Qed.

Lemma Codec_lookup_int_app_l : forall a b id c, Codec_lookup_int a id = Some c -> Codec_lookup_int (a ++ b) id = Some c.
Proof.
  unfold Codec_lookup_int. intros a b id c H. rewrite Codec_lookup_app.
  destruct (Codec_lookup a id); try discriminate. exact H.
Qed.

Lemma Codec_ids_cons : forall w d, Codec_ids (w :: d) = Codec_wire_id w ++ Codec_ids d.
Proof. reflexivity. Qed.

Lemma Codec_NoDup_app_notin : forall (a : list N) x b, NoDup (a ++ x :: b) -> ~ In x a.
Proof.
  intros a x b H I. apply NoDup_remove_2 in H. apply H. apply in_or_app. auto.
Qed.

Lemma Codec_list_eqb_eq : forall a b, Codec_list_eqb a b = true -> a = b.
Proof.
  induction a as [|x a IH]; intros [|y b] H; cbn in H; try discriminate; auto.
  apply andb_true_iff in H as [H1 H2]. apply Z.eqb_eq in H1. subst. f_equal. auto.
Qed.
Lemma Codec_list_eqb_refl : forall a, Codec_list_eqb a a = true.
Proof. induction a; cbn; auto. rewrite Z.eqb_refl, IHa. reflexivity. Qed.

Lemma Codec_assoc_forall : forall (P : list Codec_item -> bool) cases t its,
  forallb (fun c => P (snd c)) cases = true -> Codec_assoc t cases = Some its -> P its = true.
Proof.
  induction cases as [|[v x] cases IH]; intros t its F A; cbn in *; try discriminate.
  apply andb_true_iff in F as [F1 F2]. destruct (t =? v).
  - inversion A; subst. exact F1.
  - eapply IH; eauto.
Qed.

(* side conditions of the wires, as propositions *)
Definition Codec_items_ok (its : list Codec_item) : Prop := forallb (Codec_wf_item false) its = true.
Definition Codec_cases_ok (cases : list (Z * list Codec_item)) : Prop :=
  forall t its, Codec_assoc t cases = Some its -> Codec_items_ok its.
Definition Codec_mode_ok (l : Codec_blen) (m : Codec_bmode) : Prop :=
  match m with
  | BRaw => True
  | BStr => exists cnt, l = LCount cnt
  | BRewrite _ _ src dst => length src = length dst /\ Codec_list_eqb src dst = false /\ Codec_bytes_ok dst = true
  end.
Definition Codec_spec_ok (s : Codec_tagspec) : Prop :=
  Codec_cases_ok (tg_cases s) /\
  match tg_sub s with None => True | Some (_, hitems, _, subcases) => Codec_items_ok hitems /\ Codec_cases_ok subcases end.

Lemma Codec_dec_items_len : forall AD its b r rest, Codec_dec_items AD its b = Some (r, rest) ->
  length b = (Codec_items_size its + length rest)%nat.
Proof.
  induction its as [|[id k a | ps | id n] its IH]; intros b r rest H; cbn [Codec_dec_items] in H.
  - inversion H; subst. reflexivity.
  - destruct (Codec_take (Codec_ksize k) b) as [[h t]|] eqn:T; try discriminate.
    destruct (AD a (Codec_kdec k h)); try discriminate.
    destruct (Codec_dec_items AD its t) as [[e rest']|] eqn:R; try discriminate. inversion H; subst.
    apply Codec_take_some in T as [-> L]. rewrite app_length, (IH _ _ _ R). unfold Codec_items_size. cbn [fold_right Codec_item_size]. lia.
  - destruct (Codec_take (length ps) b) as [[h t]|] eqn:T; try discriminate.
    apply Codec_take_some in T as [-> L]. rewrite app_length, (IH _ _ _ H). unfold Codec_items_size. cbn [fold_right Codec_item_size]. lia.
  - destruct (Codec_take n b) as [[h t]|] eqn:T; try discriminate.
    destruct (Codec_str_dec h); try discriminate.
    destruct (Codec_dec_items AD its t) as [[e rest']|] eqn:R; try discriminate. inversion H; subst.
    apply Codec_take_some in T as [-> L]. rewrite app_length, (IH _ _ _ R). unfold Codec_items_size. cbn [fold_right Codec_item_size]. lia.
Qed.

Section Wire.
  Variable AD : Codec_adapter -> Z -> option Codec_fval.
  Hypothesis AD_ok : forall top k a z v, Codec_wf_adapter top k a = true -> Codec_not_count a ->
     Codec_krange k z = true -> AD a z = Some v -> Codec_aval_ok k a v.
  Hypothesis AD_cnt : forall t z v, AD (ACount t) z = Some v -> v = FInt z.

  Lemma Codec_dec_recs_length : forall its n b rs rest, Codec_dec_recs AD its n b = Some (rs, rest) -> length rs = n.
  Proof.
    induction n; intros b rs rest H; cbn in H.
    - inversion H; auto.
    - destruct (Codec_dec_items AD its b) as [[r t]|]; try discriminate.
      destruct (Codec_dec_recs AD its n t) as [[rs' rest']|] eqn:R; try discriminate.
      inversion H; subst. cbn. f_equal. eapply IHn; eauto.
  Qed.

  Lemma Codec_count_some : forall acc cnt b n, Codec_count acc cnt b = Some n ->
    exists c, Codec_lookup_int acc cnt = Some c /\ 0 <= c <= Z.of_nat (length b) /\ n = Z.to_nat c.
  Proof.
    unfold Codec_count. intros acc cnt b n H. destruct (Codec_lookup_int acc cnt) as [c|]; try discriminate.
    destruct ((c <? 0) || (Z.of_nat (length b) <? c)) eqn:E; inversion H. exists c. repeat split; auto; lia.
  Qed.
  Lemma Codec_count_intro : forall acc cnt b c, Codec_lookup_int acc cnt = Some c -> 0 <= c <= Z.of_nat (length b) ->
    Codec_count acc cnt b = Some (Z.to_nat c).
  Proof.
    unfold Codec_count. intros acc cnt b c H R. rewrite H.
    replace ((c <? 0) || (Z.of_nat (length b) <? c)) with false by lia. reflexivity.
  Qed.

  (* the bytes of the wire that a length specification selects *)
  Definition Codec_split (acc : Codec_env) (l : Codec_blen) (b : list Z) : option (list Z * list Z) :=
    match l with
    | LFixed n => Codec_take n b
    | LCount cnt => match Codec_count acc cnt b with None => None | Some n => Codec_take n b end
    | LGreedy => Some (b, [])
    end.

  Lemma Codec_dec_one_keys : forall ST w acc b ents b', Codec_dec_one AD ST w acc b = Some (ents, b') -> map fst ents = Codec_wire_id w.
  Proof.
    intros ST w acc b ents b' H. destruct w as [it | id cnt body | id l m | id tag cases | id s]; cbn in H.
    - destruct it as [id k a | ps | id n].
      + destruct (Codec_take (Codec_ksize k) b) as [[h t]|]; try discriminate.
        destruct (AD a (Codec_kdec k h)); try discriminate. inversion H; subst. reflexivity.
      + destruct (Codec_take (length ps) b) as [[h t]|]; try discriminate. inversion H; subst. reflexivity.
      + destruct (Codec_take n b) as [[h t]|]; try discriminate.
        destruct (Codec_str_dec h); try discriminate. inversion H; subst. reflexivity.
    - destruct (Codec_count acc cnt b); try discriminate.
      destruct (Codec_dec_recs AD body n b) as [[rs t]|]; try discriminate. inversion H; subst. reflexivity.
    - destruct (match l with LFixed n => Codec_take n b | LCount cnt => match Codec_count acc cnt b with None => None | Some n => Codec_take n b end | LGreedy => Some (b, []) end) as [[h t]|]; try discriminate.
      destruct (Codec_bdec ST acc m h); try discriminate. inversion H; subst. reflexivity.
    - destruct (Codec_lookup_int acc tag); try discriminate. destruct (Codec_assoc z cases).
      + destruct (Codec_dec_items AD l b) as [[r rest]|]; try discriminate. inversion H; subst. reflexivity.
      + inversion H; subst. reflexivity.
    - destruct (Codec_count acc (tg_len s) b); try discriminate.
      destruct (Codec_take n b) as [[R t]|]; try discriminate.
      destruct (Codec_tag_dec AD ST s acc R); try discriminate. inversion H; subst. reflexivity.
  Qed.

  (* ---- byte-string modes ---- *)
  Lemma Codec_bdec_rt : forall acc l m h v, Codec_bdec true acc m h = Some v -> Codec_mode_ok l m -> Codec_bytes_ok h = true ->
    length v = length h /\ Codec_bytes_ok v = true /\ Codec_bdec false acc m v = Some v.
  Proof.
    intros acc l m h v D M B. destruct m as [| | tag vals src dst]; cbn [Codec_bdec] in *.
    - inversion D; subst. auto.
    - destruct (Codec_str_dec h) as [sv|] eqn:S; try discriminate.
      destruct (Nat.eqb (length sv) (length h)) eqn:E; cbn in D; try discriminate. inversion D; subst.
      apply Nat.eqb_eq in E. pose proof (Codec_str_dec_some _ _ S) as [Es Us].
      split; auto. split. { rewrite Es. apply Codec_strip_ok; auto. }
      unfold Codec_str_dec. rewrite Es, Codec_strip_idem, <- Es, Us. reflexivity.
    - destruct M as (L & NE & Od). destruct (Codec_lookup_int acc tag) as [t|]; try discriminate.
      destruct (existsb (Z.eqb t) vals && Codec_starts src h) eqn:C; inversion D; subst.
      + apply andb_true_iff in C as [Cv Cs]. unfold Codec_starts in Cs. apply Codec_list_eqb_eq in Cs.
        assert (Ls : (length src <= length h)%nat).
        { rewrite <- Cs at 1. rewrite firstn_length. lia. }
        split. { rewrite app_length, skipn_length. lia. }
        split. { rewrite Codec_bytes_ok_app, Od, Codec_bytes_ok_skipn; auto. }
        replace (Codec_starts src (dst ++ skipn (length src) h)) with false; [rewrite andb_false_r; reflexivity|].
        unfold Codec_starts. rewrite L, firstn_app, Nat.sub_diag, firstn_O, app_nil_r, firstn_all.
        destruct (Codec_list_eqb dst src) eqn:X; auto. apply Codec_list_eqb_eq in X. subst. rewrite Codec_list_eqb_refl in NE. discriminate.
      + split; auto. split; auto. rewrite C. reflexivity.
  Qed.

  Lemma Codec_bdec_len : forall acc l m h v, Codec_bdec true acc m h = Some v -> Codec_mode_ok l m -> length v = length h.
  Proof.
    intros acc l m h v D M. destruct m as [| | tag vals src dst]; cbn [Codec_bdec] in *.
    - inversion D; subst. auto.
    - destruct (Codec_str_dec h) as [sv|] eqn:S; try discriminate.
      destruct (Nat.eqb (length sv) (length h)) eqn:E; cbn in D; try discriminate. inversion D; subst. apply Nat.eqb_eq in E. auto.
    - destruct M as (L & NE & Od). destruct (Codec_lookup_int acc tag) as [t|]; try discriminate.
      destruct (existsb (Z.eqb t) vals && Codec_starts src h) eqn:C; inversion D; subst; auto.
      apply andb_true_iff in C as [Cv Cs]. unfold Codec_starts in Cs. apply Codec_list_eqb_eq in Cs.
      assert (Ls : (length src <= length h)%nat). { rewrite <- Cs at 1. rewrite firstn_length. lia. }
      rewrite app_length, skipn_length. lia.
  Qed.

  (* ---- tagged sub-payloads ---- *)
  Lemma Codec_skip_flag_ext : forall s acc full sk, Codec_skip_flag s acc = Some sk ->
    (forall x c, Codec_lookup_int acc x = Some c -> Codec_lookup_int full x = Some c) -> Codec_skip_flag s full = Some sk.
  Proof.
    unfold Codec_skip_flag. intros s acc full sk H E. destruct (tg_skip s) as [[fid m]|]; auto.
    destruct (Codec_lookup_int acc fid) as [f|] eqn:F; try discriminate. rewrite (E _ _ F). exact H.
  Qed.

  Lemma Codec_tag_size : forall s acc R v, Codec_tag_dec AD true s acc R = Some v -> exists rh ro, v = VTag rh ro (length R).
  Proof.
    intros s acc R v H. unfold Codec_tag_dec in H.
    destruct (Codec_lookup_int acc (tg_tag s)) as [t|]; try discriminate.
    destruct (Codec_skip_flag s acc) as [skip|]; try discriminate.
    match type of H with match ?X with _ => _ end = _ => destruct X as [[[[hitems rh] R1] sel]|] eqn:SEL end; try discriminate.
    assert (LR : length R = (Codec_items_size hitems + length R1)%nat).
    { destruct (tg_sub s) as [[[[tv hit] sid] subcases]|].
      - destruct (t =? tv).
        + destruct (Codec_dec_items AD hit R) as [[rh0 R10]|] eqn:DH; try discriminate.
          destruct (Codec_rec_int rh0 sid); try discriminate. inversion SEL; subst. eapply Codec_dec_items_len; eauto.
        + inversion SEL; subst. reflexivity.
      - inversion SEL; subst. reflexivity. }
    destruct sel as [oitems|].
    - destruct skip.
      + destruct (Nat.eqb (length R1) 0) eqn:E; cbn in H; try discriminate. inversion H; subst. apply Nat.eqb_eq in E.
        exists rh, []. f_equal. lia.
      + destruct (tg_opaque s && (length R1 <? Codec_items_size oitems)%nat); try discriminate.
        destruct (Codec_dec_items AD oitems R1) as [[ro lft]|] eqn:DO; try discriminate.
        destruct (Nat.eqb (length lft) 0) eqn:E; cbn in H; try discriminate. inversion H; subst. apply Nat.eqb_eq in E.
        exists rh, ro. f_equal. pose proof (Codec_dec_items_len _ _ _ _ _ DO). lia.
    - rewrite andb_false_r in H. discriminate.
  Qed.

  Lemma Codec_tag_rt : forall s acc full R v,
    Codec_tag_dec AD true s acc R = Some v -> Codec_bytes_ok R = true -> Codec_spec_ok s ->
    (forall x c, Codec_lookup_int acc x = Some c -> Codec_lookup_int full x = Some c) ->
    exists bs, Codec_tag_enc s full v = Some bs /\ length bs = length R /\ Codec_bytes_ok bs = true /\
               Codec_tag_dec Codec_adec false s acc bs = Some v.
  Proof.
    intros s acc full R v H B [Kc Ks] Ext. pose proof H as H0. unfold Codec_tag_dec in H.
    destruct (Codec_lookup_int acc (tg_tag s)) as [t|] eqn:LT; try discriminate.
    destruct (Codec_skip_flag s acc) as [skip|] eqn:SK; try discriminate.
    match type of H with match ?X with _ => _ end = _ => destruct X as [[[[hitems rh] R1] sel]|] eqn:SEL end; try discriminate.
    (* the header part *)
    assert (HD : exists bh, Codec_enc_items hitems rh = Some bh /\ length R = (length bh + length R1)%nat /\ Codec_bytes_ok bh = true /\
                  Codec_bytes_ok R1 = true /\ length bh = Codec_items_size hitems /\
                  (forall tail, Codec_dec_items Codec_adec hitems (bh ++ tail) = Some (rh, tail)) /\
                  (match tg_sub s with
                   | Some (tv, hit, sid, subcases) => if t =? tv then hitems = hit /\ (exists sv, Codec_rec_int rh sid = Some sv /\ sel = Codec_assoc sv subcases)
                                                        else hitems = [] /\ rh = [] /\ sel = Codec_assoc t (tg_cases s)
                   | None => hitems = [] /\ rh = [] /\ sel = Codec_assoc t (tg_cases s) end)).
    { destruct (tg_sub s) as [[[[tv hit] sid] subcases]|].
      - destruct (t =? tv).
        + destruct (Codec_dec_items AD hit R) as [[rh0 R10]|] eqn:DH; try discriminate.
          destruct (Codec_rec_int rh0 sid) as [sv|] eqn:RI; try discriminate. inversion SEL; subst.
          destruct Ks as [Kh Ksub].
          destruct (Codec_items_rt AD AD_ok _ _ _ _ Kh B DH) as (bh & E & L & O & O1 & Sz & Rd).
          exists bh. repeat split; auto. exists sv. auto.
        + inversion SEL; subst. exists []. cbn. repeat split; auto.
      - inversion SEL; subst. exists []. cbn. repeat split; auto. }
    destruct HD as (bh & Eh & Lh & Oh & O1 & Szh & Rdh & Shape).
    assert (OK : forall oitems, sel = Some oitems -> Codec_items_ok oitems).
    { intros oitems ->. destruct (tg_sub s) as [[[[tv hit] sid] subcases]|].
      - destruct (t =? tv).
        + destruct Shape as [_ (sv & _ & A)]. destruct Ks as [_ Ksub]. eapply Ksub; eauto.
        + destruct Shape as (_ & _ & A). eapply Kc; eauto.
      - destruct Shape as (_ & _ & A). eapply Kc; eauto. }
    assert (ENC_SEL : match tg_sub s with
                       | Some (tv, hit, sid, subcases) =>
                           if t =? tv then (hit, match Codec_rec_int rh sid with Some sv => Codec_assoc sv subcases | None => None end)
                           else ([], Codec_assoc t (tg_cases s))
                       | None => ([], Codec_assoc t (tg_cases s)) end = (hitems, sel)).
    { destruct (tg_sub s) as [[[[tv hit] sid] subcases]|].
      - destruct (t =? tv).
        + destruct Shape as [-> (sv & RI & A)]. rewrite RI, A. reflexivity.
        + destruct Shape as (-> & _ & ->). reflexivity.
      - destruct Shape as (-> & _ & ->). reflexivity. }
    assert (DEC_SEL : forall bo, (match tg_sub s with
               | Some (tv, hit, sid, subcases) =>
                   if t =? tv then
                     match Codec_dec_items Codec_adec hit (bh ++ bo) with
                     | None => None
                     | Some (rh', R1') => match Codec_rec_int rh' sid with None => None | Some sv => Some (hit, rh', R1', Codec_assoc sv subcases) end
                     end
                   else Some ([], [], bh ++ bo, Codec_assoc t (tg_cases s))
               | None => Some ([], [], bh ++ bo, Codec_assoc t (tg_cases s))
               end) = Some (hitems, rh, bo, sel)).
    { intros bo. destruct (tg_sub s) as [[[[tv hit] sid] subcases]|].
      - destruct (t =? tv).
        + destruct Shape as [-> (sv & RI & A)]. rewrite Rdh, RI, A. reflexivity.
        + destruct Shape as (-> & -> & ->). cbn in Eh. inversion Eh; subst. reflexivity.
      - destruct Shape as (-> & -> & ->). cbn in Eh. inversion Eh; subst. reflexivity. }
    destruct sel as [oitems|]; [|rewrite andb_false_r in H; discriminate].
    specialize (OK _ eq_refl).
    destruct skip.
    - (* object skipped *)
      destruct (Nat.eqb (length R1) 0) eqn:E; cbn in H; try discriminate. inversion H; subst. apply Nat.eqb_eq in E.
      exists bh. split; [|split; [lia|split; [exact Oh|]]].
      + unfold Codec_tag_enc. rewrite (Ext _ _ LT), (Codec_skip_flag_ext _ _ _ _ SK Ext).
        match goal with |- (let '(_, _) := ?X in _) = _ => replace X with (hitems, Some oitems) end.
        rewrite Eh, app_nil_r, Szh, Nat.eqb_refl. reflexivity.
      + unfold Codec_tag_dec. rewrite LT, SK. specialize (DEC_SEL []). rewrite app_nil_r in DEC_SEL. rewrite DEC_SEL. cbn. reflexivity.
    - destruct (tg_opaque s && (length R1 <? Codec_items_size oitems)%nat) eqn:OP; try discriminate.
      destruct (Codec_dec_items AD oitems R1) as [[ro lft]|] eqn:DO; try discriminate.
      destruct (Nat.eqb (length lft) 0) eqn:E; cbn in H; try discriminate. inversion H; subst. apply Nat.eqb_eq in E.
      destruct (Codec_items_rt AD AD_ok _ _ _ _ OK O1 DO) as (bo & Eo & Lo & Oo & Ol & Szo & Rdo).
      exists (bh ++ bo). split; [|split; [rewrite app_length; lia|split; [rewrite Codec_bytes_ok_app, Oh, Oo; reflexivity|]]].
      + unfold Codec_tag_enc. rewrite (Ext _ _ LT), (Codec_skip_flag_ext _ _ _ _ SK Ext).
        match goal with |- (let '(_, _) := ?X in _) = _ => replace X with (hitems, Some oitems) end.
        rewrite Eh, Eo, app_length, Szh, Szo, Nat.eqb_refl. reflexivity.
      + unfold Codec_tag_dec. rewrite LT, SK, (DEC_SEL bo).
        replace (tg_opaque s && (length bo <? Codec_items_size oitems)%nat) with false.
        2:{ symmetry. apply andb_false_iff. right. apply Nat.ltb_ge. lia. }
        specialize (Rdo []). rewrite app_nil_r in Rdo. rewrite Rdo. cbn. reflexivity.
  Qed.

  (* after a successful strict decode every counted part has exactly as many elements as its count field says *)
  Lemma Codec_dec_counts : forall d done b e rest seen,
    Codec_dec_wire AD true d done b = Some (e, rest) -> NoDup (map fst done ++ Codec_ids d) -> Codec_wf_from d seen = true ->
    forall cnt id, In (cnt, id) (Codec_uses_of d) ->
    exists c, Codec_lookup_int (done ++ e) cnt = Some c /\ Codec_len_of (done ++ e) id = Some c.
  Proof.
    induction d as [|w d IH]; intros done b e rest seen D ND W cnt id I.
    - cbn in I. tauto.
    - cbn [Codec_dec_wire] in D.
      destruct (Codec_dec_one AD true w done b) as [[ents b']|] eqn:O; try discriminate.
      destruct (Codec_dec_wire AD true d (done ++ ents) b') as [[e' rest']|] eqn:R; try discriminate.
      inversion D; subst. pose proof (Codec_dec_one_keys _ _ _ _ _ _ O) as K.
      assert (ND' : NoDup (map fst (done ++ ents) ++ Codec_ids d)).
      { rewrite map_app, K, <- app_assoc. exact ND. }
      cbn [Codec_wf_from] in W. apply andb_true_iff in W as [Ww W'].
      change (Codec_uses_of (w :: d)) with
        ((match w with WCounted id cnt _ => [(cnt, id)] | WBytes id (LCount cnt) _ => [(cnt, id)] | WTagged id s => [(tg_len s, id)] | _ => [] end) ++ Codec_uses_of d) in I.
      apply in_app_or in I as [I | I].
      + (* the part at the head *)
        assert (HN : forall V, Codec_wire_id w = [id] -> Codec_lookup (done ++ (id, V) :: e') id = Some V).
        { intros V Wd. rewrite Codec_lookup_app, Codec_lookup_notin, Codec_lookup_head; auto.
          rewrite Codec_ids_cons, Wd in ND. cbn in ND. eapply Codec_NoDup_app_notin; eauto. }
        destruct w as [it | id0 cnt0 body | id0 l m | id0 tag0 cases | id0 s]; cbn in I; try tauto.
        * destruct I as [I|[]]. inversion I; subst. cbn in O.
          destruct (Codec_count done cnt b) eqn:C; try discriminate.
          destruct (Codec_dec_recs AD body n b) as [[rs t]|] eqn:RR; try discriminate. inversion O; subst.
          apply Codec_count_some in C as (c & L & Rg & ->).
          exists c. split. apply Codec_lookup_int_app_l; auto.
          unfold Codec_len_of. cbn [app]. rewrite HN by reflexivity.
          apply Codec_dec_recs_length in RR. rewrite RR. f_equal. lia.
        * destruct l; cbn in I; try tauto. destruct I as [I|[]]. inversion I; subst. cbn in O.
          destruct (Codec_count done cnt b) eqn:C; try discriminate.
          destruct (Codec_take n b) as [[h t]|] eqn:T; try discriminate.
          destruct (Codec_bdec true done m h) as [v|] eqn:BD; try discriminate. inversion O; subst.
          apply Codec_count_some in C as (c & L & Rg & ->).
          exists c. split. apply Codec_lookup_int_app_l; auto.
          unfold Codec_len_of. cbn [app]. rewrite HN by reflexivity.
          apply Codec_take_some in T as [_ T].
          assert (M : Codec_mode_ok (LCount cnt) m).
          { apply andb_true_iff in Ww as [_ Wm]. destruct m; cbn; auto. eauto.
            apply andb_true_iff in Wm as [Wm W3]. apply andb_true_iff in Wm as [W1 W2].
            apply Nat.eqb_eq in W1. apply negb_true_iff in W2. auto. }
          rewrite (Codec_bdec_len _ _ _ _ _ BD M), T. f_equal. lia.
        * destruct I as [I|[]]. inversion I; subst. cbn in O.
          destruct (Codec_count done (tg_len s) b) eqn:C; try discriminate.
          destruct (Codec_take n b) as [[Rg t]|] eqn:T; try discriminate.
          destruct (Codec_tag_dec AD true s done Rg) as [v|] eqn:TD; try discriminate. inversion O; subst.
          apply Codec_count_some in C as (c & L & Rng & ->).
          exists c. split. apply Codec_lookup_int_app_l; auto.
          destruct (Codec_tag_size _ _ _ _ TD) as (rh & ro & ->).
          unfold Codec_len_of. cbn [app]. rewrite HN by reflexivity.
          apply Codec_take_some in T as [_ T]. rewrite T. f_equal. lia.
      + destruct (IH _ _ _ _ _ R ND' W' cnt id I) as (c & A & B).
        exists c. rewrite <- app_assoc in A, B. auto.
  Qed.

  Ltac Codec_split6 := split; [|split; [|split; [|split; [|split]]]].

  Ltac Codec_plain_field :=
    match goal with
    | [ A : AD ?a (Codec_kdec ?k ?h) = Some ?v, L : length ?h = Codec_ksize ?k, Bh : Codec_bytes_ok ?h = true,
        W : Codec_wf_adapter true ?k ?a = true |- _ ] =>
        let NC := fresh "NC" in
        assert (NC : Codec_not_count a) by (intros ? ?; discriminate);
        destruct (Codec_field_rt AD AD_ok true k a h v L Bh W NC A) as (z' & E & Rz & D');
        exists (Codec_kenc k z'); Codec_split6;
        [ intros e'; cbn [app Codec_enc_one]; rewrite N.eqb_refl; cbn [Codec_aenc] in *; rewrite E, Rz; reflexivity
        | rewrite !app_length, Codec_kenc_length; lia
        | apply Codec_kenc_ok
        | assumption
        | intros _ tail; cbn [Codec_dec_one Codec_dec_items];
          rewrite <- (Codec_kenc_length k z') at 1; rewrite Codec_take_app, D'; reflexivity
        | intros G; discriminate G ]
    end.

  Lemma Codec_split_rt : forall done l b h t v, Codec_split done l b = Some (h, t) -> length v = length h ->
    length b = (length h + length t)%nat /\
    (l <> LGreedy -> forall tail, Codec_split done l (v ++ tail) = Some (v, tail)) /\
    (l = LGreedy -> t = [] /\ Codec_split done l v = Some (v, [])).
  Proof.
    intros done l b h t v S Lv. destruct l as [n | cnt |]; cbn [Codec_split] in *.
    - apply Codec_take_some in S as [-> L]. split; [rewrite app_length; lia|]. split; [|discriminate].
      intros _ tail. rewrite <- L, <- Lv. apply Codec_take_app.
    - destruct (Codec_count done cnt b) eqn:C; try discriminate. apply Codec_take_some in S as [-> L].
      apply Codec_count_some in C as (c & Lk & Rg & E).
      split; [rewrite app_length; lia|]. split; [|discriminate].
      intros _ tail. rewrite (Codec_count_intro _ _ _ c Lk).
      + rewrite <- E, <- L, <- Lv. apply Codec_take_app.
      + rewrite app_length. lia.
    - inversion S; subst. split; [cbn; lia|]. split; [intros X; congruence|]. auto.
  Qed.

  Lemma Codec_one_rt : forall w done full b ents b',
    Codec_dec_one AD true w done b = Some (ents, b') -> Codec_bytes_ok b = true ->
    (forall x c, Codec_lookup_int done x = Some c -> Codec_lookup_int full x = Some c) ->
    (forall i, w = WItem i -> Codec_wf_item true i = true) ->
    (forall id cnt body, w = WCounted id cnt body -> forallb (Codec_wf_item false) body = true /\ (1 <= Codec_items_size body)%nat) ->
    (forall id l m, w = WBytes id l m -> Codec_mode_ok l m) ->
    (forall id tag cases, w = WSwitch id tag cases -> Codec_cases_ok cases) ->
    (forall id s, w = WTagged id s -> Codec_spec_ok s) ->
    (forall cid k t z, w = WItem (IField cid k (ACount t)) -> ents = [(cid, VF (FInt z))] -> Codec_len_of full t = Some z) ->
    exists bs, (forall e', Codec_enc_one w full (ents ++ e') = Some (bs, e')) /\
               length b = (length bs + length b')%nat /\ Codec_bytes_ok bs = true /\ Codec_bytes_ok b' = true /\
               (Codec_is_greedy w = false -> forall tail, Codec_dec_one Codec_adec false w done (bs ++ tail) = Some (ents, tail)) /\
               (Codec_is_greedy w = true -> b' = [] /\ Codec_dec_one Codec_adec false w done bs = Some (ents, [])).
  Proof.
    intros w done full b ents b' O B Ext Wi Wc Wm Ws Wt Hc.
    destruct w as [it | id cnt body | id l m | id tag cases | id s].
    - specialize (Wi it eq_refl). destruct it as [id k a | ps | id n]; cbn in O, Wi.
      + destruct (Codec_take (Codec_ksize k) b) as [[h t]|] eqn:T; try discriminate.
        destruct (AD a (Codec_kdec k h)) as [v|] eqn:A; try discriminate. inversion O; subst. clear O.
        apply Codec_take_some in T as [-> L].
        rewrite Codec_bytes_ok_app in B. apply andb_true_iff in B as [Bh Bt].
        destruct a; try Codec_plain_field.
        (* the count field: pack writes the length of the part it announces *)
        pose proof (AD_cnt _ _ _ A) as ->.
        specialize (Hc id k target _ eq_refl eq_refl).
        exists h. Codec_split6; auto.
        * intros e'. cbn [app Codec_enc_one]. rewrite N.eqb_refl, Hc, Codec_kdec_range, Codec_kenc_kdec; auto.
        * rewrite app_length. lia.
        * intros _ tail. cbn [Codec_dec_one Codec_dec_items]. rewrite <- L at 1. rewrite Codec_take_app. reflexivity.
        * intros G; discriminate G.
      + destruct (Codec_take (length ps) b) as [[h t]|] eqn:T; try discriminate. inversion O; subst. clear O.
        apply Codec_take_some in T as [-> L].
        rewrite Codec_bytes_ok_app in B. apply andb_true_iff in B as [Bh Bt].
        exists ps. Codec_split6; auto.
        * rewrite !app_length. lia.
        * intros _ tail. cbn [Codec_dec_one Codec_dec_items]. rewrite Codec_take_app. reflexivity.
        * intros G; discriminate G.
      + (* a fixed-size string at top level: through the item lemma *)
        destruct (Codec_dec_items AD [IStr id n] b) as [[r t]|] eqn:I.
        2:{ cbn in I. destruct (Codec_take n b) as [[h t]|]; try discriminate. destruct (Codec_str_dec h); discriminate. }
        assert (O2 : ents = map (fun p => (fst p, VF (snd p))) r /\ b' = t).
        { cbn in I. destruct (Codec_take n b) as [[h t0]|]; try discriminate. destruct (Codec_str_dec h); try discriminate.
          inversion I; subst. inversion O; subst. auto. }
        destruct O2 as [-> ->].
        destruct (Codec_items_rt AD AD_ok [IStr id n] b r t eq_refl B I) as (bs & E & L & Ob & Ot & Sz & Rd).
        assert (Rf : exists sv, r = [(id, FBytes sv)]).
        { cbn in I. destruct (Codec_take n b) as [[h t0]|]; try discriminate. destruct (Codec_str_dec h) as [sv|]; try discriminate.
          inversion I; subst. eauto. }
        destruct Rf as (sv & ->).
        exists bs. Codec_split6; auto.
        * intros e'. cbn [map app fst snd Codec_enc_one]. rewrite E. reflexivity.
        * intros _ tail. cbn [Codec_dec_one]. rewrite Rd. reflexivity.
        * intros G; discriminate G.
    - destruct (Wc _ _ _ eq_refl) as [Wb Wsz]. cbn in O.
      destruct (Codec_count done cnt b) eqn:C; try discriminate.
      destruct (Codec_dec_recs AD body n b) as [[rs t]|] eqn:RR; try discriminate. inversion O; subst. clear O.
      destruct (Codec_recs_rt AD AD_ok _ _ _ _ _ Wb B RR) as (bs & E & L & Ob & Ot & Ln & Sz & Rd).
      apply Codec_count_some in C as (c & Lk & Rg & ->).
      exists bs. Codec_split6; auto.
      * intros e'. cbn [app Codec_enc_one]. rewrite N.eqb_refl, E. reflexivity.
      * intros _ tail. cbn [Codec_dec_one]. rewrite (Codec_count_intro _ _ _ c Lk), Rd; auto.
        rewrite app_length. split; [lia|]. nia.
      * intros G; discriminate G.
    - specialize (Wm _ _ _ eq_refl). cbn [Codec_dec_one] in O. fold (Codec_split done l b) in O.
      destruct (Codec_split done l b) as [[h t]|] eqn:S; try discriminate.
      destruct (Codec_bdec true done m h) as [v|] eqn:BD; try discriminate. inversion O; subst. clear O.
      assert (Bh : Codec_bytes_ok h = true /\ Codec_bytes_ok b' = true).
      { destruct l as [n | cnt |]; cbn [Codec_split] in S.
        - apply Codec_take_some in S as [-> _]. rewrite Codec_bytes_ok_app in B. apply andb_true_iff in B. exact B.
        - destruct (Codec_count done cnt b); try discriminate. apply Codec_take_some in S as [-> _].
          rewrite Codec_bytes_ok_app in B. apply andb_true_iff in B. exact B.
        - inversion S; subst. auto. }
      destruct Bh as [Bh Bt].
      destruct (Codec_bdec_rt _ _ _ _ _ BD Wm Bh) as (Lv & Ov & Rv).
      destruct (Codec_split_rt _ _ _ _ _ _ S Lv) as (Lb & Rng & Rg).
      exists v. Codec_split6; auto.
      * intros e'. cbn [app Codec_enc_one]. rewrite N.eqb_refl, Ov. cbn [andb].
        replace (Codec_len_okb l v) with true; [reflexivity|].
        destruct l as [n | cnt |]; cbn; auto. cbn [Codec_split] in S. apply Codec_take_some in S as [_ L]. symmetry. apply Nat.eqb_eq. lia.
      * lia.
      * intros G tail. cbn [Codec_dec_one]. fold (Codec_split done l (v ++ tail)). rewrite Rng, Rv. reflexivity.
        intros ->. discriminate G.
      * intros G. destruct l; try discriminate G. destruct (Rg eq_refl) as [-> Rg'].
        split; auto. cbn [Codec_dec_one]. rewrite Rv. reflexivity.
    - specialize (Ws _ _ _ eq_refl). cbn [Codec_dec_one] in O.
      destruct (Codec_lookup_int done tag) as [t|] eqn:LT; try discriminate.
      destruct (Codec_assoc t cases) as [its|] eqn:A.
      + destruct (Codec_dec_items AD its b) as [[r rest]|] eqn:I; try discriminate. inversion O; subst. clear O.
        destruct (Codec_items_rt AD AD_ok its b r b' (Ws _ _ A) B I) as (bs & E & L & Ob & Ot & Sz & Rd).
        exists bs. Codec_split6; auto.
        * intros e'. cbn [app Codec_enc_one]. rewrite N.eqb_refl, (Ext _ _ LT), A, E. reflexivity.
        * intros _ tail. cbn [Codec_dec_one]. rewrite LT, A, Rd. reflexivity.
        * intros G; discriminate G.
      + inversion O; subst. clear O. exists []. Codec_split6; auto.
        * intros e'. cbn [app Codec_enc_one]. rewrite N.eqb_refl, (Ext _ _ LT), A. reflexivity.
        * intros _ tail. cbn [Codec_dec_one app]. rewrite LT, A. reflexivity.
        * intros G; discriminate G.
    - specialize (Wt _ _ eq_refl). cbn [Codec_dec_one] in O.
      destruct (Codec_count done (tg_len s) b) eqn:C; try discriminate.
      destruct (Codec_take n b) as [[R t]|] eqn:T; try discriminate.
      destruct (Codec_tag_dec AD true s done R) as [v|] eqn:TD; try discriminate. inversion O; subst. clear O.
      apply Codec_take_some in T as [-> L].
      rewrite Codec_bytes_ok_app in B. apply andb_true_iff in B as [Br Bt].
      destruct (Codec_tag_rt s done full R v TD Br Wt Ext) as (bs & E & Lb & Ob & Rd).
      apply Codec_count_some in C as (c & Lk & Rg & En).
      exists bs. Codec_split6; auto.
      * intros e'. cbn [app Codec_enc_one]. rewrite N.eqb_refl, E. reflexivity.
      * rewrite app_length. lia.
      * intros _ tail. cbn [Codec_dec_one]. rewrite (Codec_count_intro _ _ _ c Lk).
        -- rewrite <- En, <- L, <- Lb. rewrite Codec_take_app, Rd. reflexivity.
        -- rewrite app_length in *. lia.
      * intros G; discriminate G.
  Qed.

  Lemma Codec_wf_from_cons : forall w d seen, Codec_wf_from (w :: d) seen = true ->
    (forall i, w = WItem i -> Codec_wf_item true i = true) /\
    (forall id cnt body, w = WCounted id cnt body -> forallb (Codec_wf_item false) body = true /\ (1 <= Codec_items_size body)%nat) /\
    (forall id l m, w = WBytes id l m -> Codec_mode_ok l m) /\
    (forall id tag cases, w = WSwitch id tag cases -> Codec_cases_ok cases) /\
    (forall id s, w = WTagged id s -> Codec_spec_ok s) /\
    (Codec_is_greedy w = true -> d = []) /\
    Codec_wf_from d (match w with WItem (IField id _ (ACount t)) => (id, t) :: seen | _ => seen end) = true.
  Proof.
    intros w d seen H. cbn [Codec_wf_from] in H. apply andb_true_iff in H as [H1 H2].
    split; [|split; [|split; [|split; [|split; [|split]]]]]; auto.
    - intros i ->. exact H1.
    - intros id cnt body ->. apply andb_true_iff in H1 as [H1 _]. apply andb_true_iff in H1 as [H1 H3].
      split; auto. apply Nat.leb_le. exact H3.
    - intros id l m ->. apply andb_true_iff in H1 as [_ Wm]. destruct m; cbn; auto.
      + destruct l; try discriminate Wm. eauto.
      + apply andb_true_iff in Wm as [Wm W3]. apply andb_true_iff in Wm as [W1 W2].
        apply Nat.eqb_eq in W1. apply negb_true_iff in W2. auto.
    - intros id tag cases -> t its A. unfold Codec_items_ok.
      exact (Codec_assoc_forall (forallb (Codec_wf_item false)) cases t its H1 A).
    - intros id s ->. apply andb_true_iff in H1 as [H1 Wsub]. apply andb_true_iff in H1 as [_ Wc]. split.
      + intros t its A. exact (Codec_assoc_forall (forallb (Codec_wf_item false)) _ t its Wc A).
      + destruct (tg_sub s) as [[[[tv hit] sid] subcases]|]; auto. apply andb_true_iff in Wsub as [Wh Wsc]. split; auto.
        intros t its A. exact (Codec_assoc_forall (forallb (Codec_wf_item false)) _ t its Wsc A).
    - intros G. destruct w as [| | ? [] ? | |]; try discriminate G. destruct d; auto.
      apply andb_true_iff in H1 as [H1 _]. discriminate H1.
  Qed.

  Lemma Codec_nogreedy_cons : forall w d, Codec_nogreedy (w :: d) = negb (Codec_is_greedy w) && Codec_nogreedy d.
  Proof. reflexivity. Qed.

  Lemma Codec_wire_rt : forall d done b e rest seen full,
    Codec_dec_wire AD true d done b = Some (e, rest) -> Codec_bytes_ok b = true -> Codec_wf_from d seen = true ->
    NoDup (map fst done ++ Codec_ids d) -> full = done ++ e ->
    (forall cid t, In (cid, t) (Codec_counts_of d) -> exists c, Codec_lookup_int full cid = Some c /\ Codec_len_of full t = Some c) ->
    exists bs, Codec_enc_wire d full e = Some bs /\ length b = (length bs + length rest)%nat /\ Codec_bytes_ok bs = true /\
      forall tail, (Codec_nogreedy d = true \/ tail = []) -> Codec_dec_wire Codec_adec false d done (bs ++ tail) = Some (e, tail).
  Proof.
    induction d as [|w d IH]; intros done b e rest seen full D B W ND F Hcc.
    - cbn in D. inversion D; subst. exists []. cbn. repeat split; auto.
    - cbn [Codec_dec_wire] in D.
      destruct (Codec_dec_one AD true w done b) as [[ents b']|] eqn:O; try discriminate.
      destruct (Codec_dec_wire AD true d (done ++ ents) b') as [[e' rest']|] eqn:R; try discriminate.
      injection D as De Dr. subst e rest full.
      destruct (Codec_wf_from_cons _ _ _ W) as (Wi & Wc & Wm & Ws & Wt & Wg & W').
      pose proof (Codec_dec_one_keys _ _ _ _ _ _ O) as K.
      assert (ND' : NoDup (map fst (done ++ ents) ++ Codec_ids d)).
      { rewrite map_app, K, <- app_assoc. exact ND. }
      assert (Hc : forall cid k t z, w = WItem (IField cid k (ACount t)) -> ents = [(cid, VF (FInt z))] ->
                   Codec_len_of (done ++ ents ++ e') t = Some z).
      { intros cid k t z -> ->. destruct (Hcc cid t) as (c & A & Bc). { cbn. auto. }
        unfold Codec_lookup_int in A. cbn [app] in A. rewrite Codec_lookup_app, Codec_lookup_notin, Codec_lookup_head in A.
        - inversion A; subst. exact Bc.
        - rewrite Codec_ids_cons in ND. cbn in ND. eapply Codec_NoDup_app_notin; eauto. }
      assert (Ext : forall x c, Codec_lookup_int done x = Some c -> Codec_lookup_int (done ++ ents ++ e') x = Some c).
      { intros x c Hx. apply Codec_lookup_int_app_l. exact Hx. }
      destruct (Codec_one_rt w done (done ++ ents ++ e') b ents b' O B Ext Wi Wc Wm Ws Wt Hc) as (bsw & Ew & Lw & Ow & Ob' & Rng & Rg).
      destruct (IH (done ++ ents) b' e' rest' _ (done ++ ents ++ e') R Ob' W' ND') as (bs' & E' & L' & O' & R').
      { rewrite app_assoc. reflexivity. }
      { intros cid t I. apply Hcc. change (Codec_counts_of (w :: d)) with
          ((match w with WItem (IField id _ (ACount t)) => [(id, t)] | _ => [] end) ++ Codec_counts_of d).
        apply in_or_app. auto. }
      exists (bsw ++ bs'). split; [|split; [|split]].
      + cbn [Codec_enc_wire]. rewrite Ew, E'. reflexivity.
      + rewrite app_length. lia.
      + rewrite Codec_bytes_ok_app, Ow, O'. reflexivity.
      + intros tail Ht. cbn [Codec_dec_wire]. destruct (Codec_is_greedy w) eqn:G.
        * destruct (Rg eq_refl) as [-> Rg']. specialize (Wg eq_refl). subst d.
          cbn in R. inversion R; subst. cbn in E'. inversion E'; subst.
          destruct Ht as [Ht | ->]. { rewrite Codec_nogreedy_cons, G in Ht. discriminate Ht. }
          rewrite !app_nil_r. rewrite Rg'. cbn. rewrite app_nil_r. reflexivity.
        * rewrite <- app_assoc. rewrite (Rng eq_refl). rewrite R'; auto.
          destruct Ht as [Ht | Ht]; auto. rewrite Codec_nogreedy_cons, G in Ht. cbn in Ht. auto.
  Qed.

  Lemma Codec_nodupb_NoDup : forall l, Codec_nodupb l = true -> NoDup l.
  Proof.
    induction l as [|x l IH]; intros H; constructor; cbn in H; apply andb_true_iff in H as [H1 H2]; auto.
    intros I. apply negb_true_iff in H1. assert (existsb (N.eqb x) l = true); [|congruence].
    apply existsb_exists. exists x. split; auto. apply N.eqb_refl.
  Qed.

  Lemma Codec_counts_used : forall d, Codec_wf d = true -> forall p, In p (Codec_counts_of d) -> In p (Codec_uses_of d).
  Proof.
    intros d W p I. unfold Codec_wf in W. apply andb_true_iff in W as [_ W].
    rewrite forallb_forall in W. specialize (W p I). apply existsb_exists in W as (q & Iq & E).
    unfold Codec_pair_eqb in E. apply andb_true_iff in E as [E1 E2]. apply N.eqb_eq in E1, E2.
    destruct p, q; cbn in *; subst; auto.
  Qed.

  (* strict parse b = Some (v, n)  =>  pack v = Some b1, len b1 = n, parse b1 = Some (v, n) (hence pack again = b1) *)
  Theorem Codec_roundtrip_AD : forall d b e n,
    Codec_wf d = true -> Codec_bytes_ok b = true -> Codec_parse_with AD true d b = Some (e, n) ->
    exists b1, Codec_pack d e = Some b1 /\ length b1 = n /\ Codec_parse d b1 = Some (e, n) /\ Codec_bytes_ok b1 = true.
  Proof.
    intros d b e n W B P. unfold Codec_parse_with in P.
    destruct (Codec_dec_wire AD true d [] b) as [[e0 rest]|] eqn:D; try discriminate. inversion P; subst. clear P.
    pose proof W as W0. unfold Codec_wf in W. apply andb_true_iff in W as [W _]. apply andb_true_iff in W as [Wn Wf].
    apply Codec_nodupb_NoDup in Wn.
    destruct (Codec_wire_rt d [] b e rest [] e D B Wf Wn eq_refl) as (bs & E & L & O & R).
    { intros cid t I. apply (Codec_dec_counts d [] b e rest [] D Wn Wf). apply Codec_counts_used; auto. }
    exists bs. split; [exact E|]. split; [lia|]. split; auto.
    unfold Codec_parse, Codec_parse_with. specialize (R [] (or_intror eq_refl)). rewrite app_nil_r in R. rewrite R.
    cbn. f_equal. f_equal. lia.
  Qed.
End Wire.

(* ------------------------------------------------------------------------------------------------ *)
(* sizeof                                                                                             *)
(* ------------------------------------------------------------------------------------------------ *)

Lemma Codec_enc_items_length : forall its r bs, Codec_enc_items its r = Some bs -> length bs = Codec_items_size its.
Proof.
  induction its as [|it its IH]; intros r bs H.
  - cbn in H. destruct r; inversion H; reflexivity.
  - destruct it as [id k a | ps | id n]; cbn [Codec_enc_items] in H.
    + destruct r as [|[id' v] r']; try discriminate. destruct (N.eqb id id'); try discriminate.
      destruct (Codec_aenc a v); try discriminate. destruct (Codec_krange k z); try discriminate.
      destruct (Codec_enc_items its r') eqn:E; try discriminate. inversion H; subst.
      rewrite app_length, Codec_kenc_length, (IH _ _ E). reflexivity.
    + destruct (Codec_enc_items its r) eqn:E; try discriminate. inversion H; subst.
      rewrite app_length, (IH _ _ E). reflexivity.
    + destruct r as [|[id' [| |sv]] r']; try discriminate.
      destruct (N.eqb id id' && Codec_bytes_ok sv && (length sv <=? n)%nat) eqn:C; try discriminate.
      destruct (Codec_enc_items its r') eqn:E; try discriminate. inversion H; subst.
      apply andb_true_iff in C as [_ C]. apply Nat.leb_le in C.
      rewrite !app_length, repeat_length, (IH _ _ E). unfold Codec_items_size. cbn [fold_right Codec_item_size]. lia.
Qed.

Lemma Codec_enc_recs_length : forall its rs bs, Codec_enc_recs its rs = Some bs -> length bs = (length rs * Codec_items_size its)%nat.
Proof.
  induction rs as [|r rs IH]; intros bs H; cbn in H.
  - inversion H; reflexivity.
  - destruct (Codec_enc_items its r) eqn:E; try discriminate.
    destruct (Codec_enc_recs its rs) eqn:E2; try discriminate. inversion H; subst.
    rewrite app_length, (Codec_enc_items_length _ _ _ E), (IH _ eq_refl). cbn. lia.
Qed.

Lemma Codec_size_one_enc : forall w full e bw e', Codec_enc_one w full e = Some (bw, e') -> Codec_size_one w full e = Some (length bw, e').
Proof.
  intros w full e bw e' O.
  destruct w as [[id k a | ps | id n] | id cnt body | id bl m | id tag cases | id s]; cbn [Codec_enc_one] in O; cbn [Codec_size_one].
  - destruct e as [|[id' [v| | | |]] e0]; try discriminate. destruct (N.eqb id id'); try discriminate.
    destruct (match a with ACount t => Codec_len_of full t | _ => Codec_aenc a v end); try discriminate.
    destruct (Codec_krange k z); try discriminate. inversion O; subst. rewrite Codec_kenc_length. reflexivity.
  - inversion O; subst. reflexivity.
  - destruct e as [|[id' [v| | | |]] e0]; try discriminate.
    destruct (Codec_enc_items [IStr id n] [(id', v)]) eqn:E; try discriminate. inversion O; subst.
    rewrite (Codec_enc_items_length _ _ _ E). unfold Codec_items_size. cbn. rewrite Nat.add_0_r. reflexivity.
  - destruct e as [|[id' [| |rs| |]] e0]; try discriminate. destruct (N.eqb id id'); try discriminate.
    destruct (Codec_enc_recs body rs) eqn:R; try discriminate. inversion O; subst.
    rewrite (Codec_enc_recs_length _ _ _ R). reflexivity.
  - destruct e as [|[id' [| bs0 | | |]] e0]; try discriminate.
    destruct (N.eqb id id' && Codec_bytes_ok bs0 && Codec_len_okb bl bs0); try discriminate. inversion O; subst. reflexivity.
  - destruct e as [|[id' [| |rs| |]] e0]; try discriminate. destruct (N.eqb id id'); try discriminate.
    destruct (Codec_lookup_int full tag) as [t|]; try discriminate.
    destruct (Codec_assoc t cases) as [its|].
    + destruct rs as [|r [|]]; try discriminate. destruct (Codec_enc_items its r) eqn:E; try discriminate. inversion O; subst.
      rewrite (Codec_enc_items_length _ _ _ E). reflexivity.
    + destruct rs; try discriminate. inversion O; subst. reflexivity.
  - destruct e as [|[id' v] e0]; try discriminate. destruct (N.eqb id id'); try discriminate.
    destruct (Codec_tag_enc s full v) eqn:T; try discriminate. inversion O; subst.
    unfold Codec_tag_enc in T. destruct v as [| | |rh ro sz|]; try discriminate.
    destruct (Codec_lookup_int full (tg_tag s)); try discriminate. destruct (Codec_skip_flag s full); try discriminate.
    match type of T with (let '(_, _) := ?X in _) = _ => destruct X as [hitems sel] end.
    destruct sel; try discriminate. destruct (Codec_enc_items hitems rh); try discriminate.
    match type of T with match ?X with _ => _ end = _ => destruct X end; try discriminate.
    destruct (Nat.eqb (length (l0 ++ l1)) sz) eqn:E; try discriminate. inversion T; subst. apply Nat.eqb_eq in E. rewrite E. reflexivity.
Qed.

Lemma Codec_sizeof_from_enc : forall d full e bs, Codec_enc_wire d full e = Some bs -> Codec_sizeof_from d full e = Some (length bs).
Proof.
  induction d as [|w d IH]; intros full e bs H.
  - cbn in *. destruct e; inversion H; reflexivity.
  - cbn [Codec_enc_wire] in H.
    destruct (Codec_enc_one w full e) as [[bw e']|] eqn:O; try discriminate.
    destruct (Codec_enc_wire d full e') eqn:E; try discriminate. inversion H; subst. clear H.
    cbn [Codec_sizeof_from]. rewrite (Codec_size_one_enc _ _ _ _ _ O), (IH _ _ _ E), app_length. reflexivity.
Qed.
Lemma Codec_sizeof_enc : forall d e bs, Codec_pack d e = Some bs -> Codec_sizeof d e = Some (length bs).
Proof. intros d e bs H. apply Codec_sizeof_from_enc. exact H. Qed.

(* ------------------------------------------------------------------------------------------------ *)
(* a more restrictive decoder refines a more permissive one                                         *)
(* ------------------------------------------------------------------------------------------------ *)

Section Refine.
  Variables AD1 AD2 : Codec_adapter -> Z -> option Codec_fval.
  Variables ST1 ST2 : bool.
  Hypothesis Sub : forall a z v, AD1 a z = Some v -> AD2 a z = Some v.
  Hypothesis Simp : ST2 = true -> ST1 = true.

  Lemma Codec_dec_items_sub : forall its b r, Codec_dec_items AD1 its b = Some r -> Codec_dec_items AD2 its b = Some r.
  Proof.
    induction its as [|[id k a | ps | id n] its IH]; intros b r H; cbn [Codec_dec_items] in *; auto.
    - destruct (Codec_take (Codec_ksize k) b) as [[h t]|]; try discriminate.
      destruct (AD1 a (Codec_kdec k h)) eqn:A; try discriminate. rewrite (Sub _ _ _ A).
      destruct (Codec_dec_items AD1 its t) as [[e rest]|] eqn:R; try discriminate. rewrite (IH _ _ R). exact H.
    - destruct (Codec_take (length ps) b) as [[h t]|]; try discriminate. auto.
    - destruct (Codec_take n b) as [[h t]|]; try discriminate. destruct (Codec_str_dec h); try discriminate.
      destruct (Codec_dec_items AD1 its t) as [[e rest]|] eqn:R; try discriminate. rewrite (IH _ _ R). exact H.
  Qed.
  Lemma Codec_dec_recs_sub : forall its n b r, Codec_dec_recs AD1 its n b = Some r -> Codec_dec_recs AD2 its n b = Some r.
  Proof.
    induction n; intros b r H; cbn [Codec_dec_recs] in *; auto.
    destruct (Codec_dec_items AD1 its b) as [[x t]|] eqn:I; try discriminate. rewrite (Codec_dec_items_sub _ _ _ I).
    destruct (Codec_dec_recs AD1 its n t) as [[rs rest]|] eqn:R; try discriminate. rewrite (IHn _ _ R). exact H.
  Qed.
  Lemma Codec_strict_weaken : forall (c : bool) (A : Type) (x : A) r, (if ST1 && c then None else Some x) = Some r -> (if ST2 && c then None else Some x) = Some r.
  Proof.
    intros c A x r H. destruct ST2; cbn.
    - rewrite (Simp eq_refl) in H. exact H.
    - destruct (ST1 && c); try discriminate. exact H.
  Qed.
  Lemma Codec_bdec_sub : forall acc m h v, Codec_bdec ST1 acc m h = Some v -> Codec_bdec ST2 acc m h = Some v.
  Proof.
    intros acc m h v H. destruct m; cbn [Codec_bdec] in *; auto.
    destruct (Codec_str_dec h); try discriminate. apply Codec_strict_weaken. exact H.
  Qed.
  Lemma Codec_tag_dec_sub : forall s acc R v, Codec_tag_dec AD1 ST1 s acc R = Some v -> Codec_tag_dec AD2 ST2 s acc R = Some v.
  Proof.
    intros s acc R v H. unfold Codec_tag_dec in *.
    destruct (Codec_lookup_int acc (tg_tag s)) as [t|]; try discriminate.
    destruct (Codec_skip_flag s acc) as [skip|]; try discriminate.
    assert (SEL : forall X, (match tg_sub s with
               | Some (tv, hitems, sid, subcases) =>
                   if t =? tv then
                     match Codec_dec_items AD1 hitems R with
                     | None => None
                     | Some (rh, R1) => match Codec_rec_int rh sid with None => None | Some sv => Some (hitems, rh, R1, Codec_assoc sv subcases) end
                     end
                   else Some ([], [], R, Codec_assoc t (tg_cases s))
               | None => Some ([], [], R, Codec_assoc t (tg_cases s))
               end) = Some X ->
               (match tg_sub s with
               | Some (tv, hitems, sid, subcases) =>
                   if t =? tv then
                     match Codec_dec_items AD2 hitems R with
                     | None => None
                     | Some (rh, R1) => match Codec_rec_int rh sid with None => None | Some sv => Some (hitems, rh, R1, Codec_assoc sv subcases) end
                     end
                   else Some ([], [], R, Codec_assoc t (tg_cases s))
               | None => Some ([], [], R, Codec_assoc t (tg_cases s))
               end) = Some X).
    { intros X HX. destruct (tg_sub s) as [[[[tv hit] sid] subcases]|]; auto. destruct (t =? tv); auto.
      destruct (Codec_dec_items AD1 hit R) as [[rh R1]|] eqn:DH; try discriminate. rewrite (Codec_dec_items_sub _ _ _ DH). exact HX. }
    match type of H with match ?X with _ => _ end = _ => destruct X as [[[[hitems rh] R1] sel]|] eqn:E end; try discriminate.
    rewrite (SEL _ eq_refl).
    destruct sel as [oitems|].
    - destruct skip.
      + apply Codec_strict_weaken. exact H.
      + destruct (tg_opaque s && (length R1 <? Codec_items_size oitems)%nat).
        * destruct ST2. { rewrite (Simp eq_refl) in H. exact H. } destruct ST1; try discriminate. exact H.
        * destruct (Codec_dec_items AD1 oitems R1) as [[ro lft]|] eqn:DO; try discriminate. rewrite (Codec_dec_items_sub _ _ _ DO).
          apply Codec_strict_weaken. exact H.
    - destruct (tg_opaque s); cbn in *; try discriminate. destruct ST1; cbn in H; try discriminate.
      destruct ST2; auto. discriminate (Simp eq_refl).
  Qed.
  Lemma Codec_dec_one_sub : forall w acc b r, Codec_dec_one AD1 ST1 w acc b = Some r -> Codec_dec_one AD2 ST2 w acc b = Some r.
  Proof.
    intros [it | id cnt body | id l m | id tag cases | id s] acc b r H; cbn [Codec_dec_one] in *; auto.
    - destruct (Codec_dec_items AD1 [it] b) as [[x t]|] eqn:I; try discriminate. rewrite (Codec_dec_items_sub _ _ _ I). exact H.
    - destruct (Codec_count acc cnt b); try discriminate.
      destruct (Codec_dec_recs AD1 body n b) as [[rs t]|] eqn:R; try discriminate. rewrite (Codec_dec_recs_sub _ _ _ _ R). exact H.
    - match type of H with match ?X with _ => _ end = _ => destruct X as [[h t]|] end; try discriminate.
      destruct (Codec_bdec ST1 acc m h) eqn:BD; try discriminate. rewrite (Codec_bdec_sub _ _ _ _ BD). exact H.
    - destruct (Codec_lookup_int acc tag); try discriminate. destruct (Codec_assoc z cases); auto.
      destruct (Codec_dec_items AD1 l b) as [[x rest]|] eqn:I; try discriminate. rewrite (Codec_dec_items_sub _ _ _ I). exact H.
    - destruct (Codec_count acc (tg_len s) b); try discriminate. destruct (Codec_take n b) as [[R t]|]; try discriminate.
      destruct (Codec_tag_dec AD1 ST1 s acc R) eqn:TD; try discriminate. rewrite (Codec_tag_dec_sub _ _ _ _ TD). exact H.
  Qed.
  Lemma Codec_dec_wire_sub : forall d acc b r, Codec_dec_wire AD1 ST1 d acc b = Some r -> Codec_dec_wire AD2 ST2 d acc b = Some r.
  Proof.
    induction d as [|w d IH]; intros acc b r H; cbn [Codec_dec_wire] in *; auto.
    destruct (Codec_dec_one AD1 ST1 w acc b) as [[ents b']|] eqn:O; try discriminate. rewrite (Codec_dec_one_sub _ _ _ _ O).
    destruct (Codec_dec_wire AD1 ST1 d (acc ++ ents) b') as [[e rest]|] eqn:R; try discriminate. rewrite (IH _ _ _ R). exact H.
  Qed.
  Lemma Codec_parse_sub : forall d b r, Codec_parse_with AD1 ST1 d b = Some r -> Codec_parse_with AD2 ST2 d b = Some r.
  Proof.
    unfold Codec_parse_with. intros d b r H.
    destruct (Codec_dec_wire AD1 ST1 d [] b) as [[e rest]|] eqn:D; try discriminate. rewrite (Codec_dec_wire_sub _ _ _ _ D). exact H.
  Qed.
End Refine.

(* a description without Timestamp fields decodes the same with the Timestamp adapter switched off *)
Lemma Codec_dec_items_nots : forall its b r, existsb Codec_item_uses_ts its = false ->
  Codec_dec_items Codec_adec its b = Some r -> Codec_dec_items Codec_adec_nots its b = Some r.
Proof.
  induction its as [|[id k a | ps | id n] its IH]; intros b r U H; cbn [Codec_dec_items existsb] in *; auto.
  - apply orb_false_iff in U as [U1 U2].
    destruct (Codec_take (Codec_ksize k) b) as [[h t]|]; try discriminate.
    assert (E : Codec_adec_nots a (Codec_kdec k h) = Codec_adec a (Codec_kdec k h)) by (destruct a; try reflexivity; discriminate U1).
    rewrite E. destruct (Codec_adec a (Codec_kdec k h)); try discriminate.
    destruct (Codec_dec_items Codec_adec its t) as [[e rest]|] eqn:R; try discriminate. rewrite (IH _ _ U2 R). exact H.
  - apply orb_false_iff in U as [_ U2]. destruct (Codec_take (length ps) b) as [[h t]|]; try discriminate. auto.
  - apply orb_false_iff in U as [_ U2]. destruct (Codec_take n b) as [[h t]|]; try discriminate.
    destruct (Codec_str_dec h); try discriminate.
    destruct (Codec_dec_items Codec_adec its t) as [[e rest]|] eqn:R; try discriminate. rewrite (IH _ _ U2 R). exact H.
Qed.
Lemma Codec_dec_recs_nots : forall its n b r, existsb Codec_item_uses_ts its = false ->
  Codec_dec_recs Codec_adec its n b = Some r -> Codec_dec_recs Codec_adec_nots its n b = Some r.
Proof.
  induction n; intros b r U H; cbn [Codec_dec_recs] in *; auto.
  destruct (Codec_dec_items Codec_adec its b) as [[x t]|] eqn:I; try discriminate. rewrite (Codec_dec_items_nots _ _ _ U I).
  destruct (Codec_dec_recs Codec_adec its n t) as [[rs rest]|] eqn:R; try discriminate. rewrite (IHn _ _ U R). exact H.
Qed.
Lemma Codec_cases_nots : forall cases t its, Codec_cases_use_ts cases = false -> Codec_assoc t cases = Some its -> existsb Codec_item_uses_ts its = false.
Proof.
  induction cases as [|[v x] cases IH]; intros t its U A; cbn in *; try discriminate.
  apply orb_false_iff in U as [U1 U2]. destruct (t =? v). inversion A; subst; auto. eapply IH; eauto.
Qed.
Lemma Codec_tag_dec_nots : forall ST s acc R v, Codec_wire_uses_ts (WTagged 0%N s) = false ->
  Codec_tag_dec Codec_adec ST s acc R = Some v -> Codec_tag_dec Codec_adec_nots ST s acc R = Some v.
Proof.
  intros ST s acc R v U H. cbn in U. apply orb_false_iff in U as [Uc Us]. unfold Codec_tag_dec in *.
  destruct (Codec_lookup_int acc (tg_tag s)) as [t|]; try discriminate.
  destruct (Codec_skip_flag s acc) as [skip|]; try discriminate.
  destruct (tg_sub s) as [[[[tv hit] sid] subcases]|].
  - apply orb_false_iff in Us as [Uh Usc]. destruct (t =? tv).
    + destruct (Codec_dec_items Codec_adec hit R) as [[rh R1]|] eqn:DH; try discriminate. rewrite (Codec_dec_items_nots _ _ _ Uh DH).
      destruct (Codec_rec_int rh sid) as [sv|]; try discriminate.
      destruct (Codec_assoc sv subcases) as [oitems|] eqn:A; auto. destruct skip; auto.
      destruct (tg_opaque s && (length R1 <? Codec_items_size oitems)%nat); auto.
      destruct (Codec_dec_items Codec_adec oitems R1) as [[ro lft]|] eqn:DO; try discriminate.
      rewrite (Codec_dec_items_nots _ _ _ (Codec_cases_nots _ _ _ Usc A) DO). exact H.
    + destruct (Codec_assoc t (tg_cases s)) as [oitems|] eqn:A; auto. destruct skip; auto.
      destruct (tg_opaque s && (length R <? Codec_items_size oitems)%nat); auto.
      destruct (Codec_dec_items Codec_adec oitems R) as [[ro lft]|] eqn:DO; try discriminate.
      rewrite (Codec_dec_items_nots _ _ _ (Codec_cases_nots _ _ _ Uc A) DO). exact H.
  - destruct (Codec_assoc t (tg_cases s)) as [oitems|] eqn:A; auto. destruct skip; auto.
    destruct (tg_opaque s && (length R <? Codec_items_size oitems)%nat); auto.
    destruct (Codec_dec_items Codec_adec oitems R) as [[ro lft]|] eqn:DO; try discriminate.
    rewrite (Codec_dec_items_nots _ _ _ (Codec_cases_nots _ _ _ Uc A) DO). exact H.
Qed.
Lemma Codec_dec_wire_nots : forall ST d acc b r, Codec_uses_ts d = false ->
  Codec_dec_wire Codec_adec ST d acc b = Some r -> Codec_dec_wire Codec_adec_nots ST d acc b = Some r.
Proof.
  induction d as [|w d IH]; intros acc b r U H; cbn [Codec_dec_wire] in *; auto.
  unfold Codec_uses_ts in U. cbn [existsb] in U. apply orb_false_iff in U as [U1 U2].
  destruct (Codec_dec_one Codec_adec ST w acc b) as [[ents b']|] eqn:O; try discriminate.
  assert (O' : Codec_dec_one Codec_adec_nots ST w acc b = Some (ents, b')).
  { destruct w as [it | id cnt body | id l m | id tag cases | id s]; cbn [Codec_dec_one] in *; auto.
    - destruct (Codec_dec_items Codec_adec [it] b) as [[x t]|] eqn:I; try discriminate.
      rewrite (Codec_dec_items_nots [it] b _ ltac:(cbn in U1 |- *; rewrite U1; reflexivity) I). exact O.
    - destruct (Codec_count acc cnt b); try discriminate.
      destruct (Codec_dec_recs Codec_adec body n b) as [[rs t]|] eqn:R; try discriminate.
      cbn in U1. rewrite (Codec_dec_recs_nots _ _ _ _ U1 R). exact O.
    - destruct (Codec_lookup_int acc tag); try discriminate. destruct (Codec_assoc z cases) eqn:A; auto.
      destruct (Codec_dec_items Codec_adec l b) as [[x rest]|] eqn:I; try discriminate.
      cbn in U1. rewrite (Codec_dec_items_nots _ _ _ (Codec_cases_nots _ _ _ U1 A) I). exact O.
    - destruct (Codec_count acc (tg_len s) b); try discriminate. destruct (Codec_take n b) as [[R t]|]; try discriminate.
      destruct (Codec_tag_dec Codec_adec ST s acc R) eqn:TD; try discriminate.
      rewrite (Codec_tag_dec_nots _ _ _ _ _ U1 TD). exact O. }
  rewrite O'. destruct (Codec_dec_wire Codec_adec ST d (acc ++ ents) b') as [[e rest]|] eqn:R; try discriminate.
  rewrite (IH _ _ _ U2 R). exact H.
Qed.

(* layouts without lenient parts: the strict and the lenient decoder coincide *)
Lemma Codec_dec_wire_rigid : forall AD d acc b, Codec_rigid d = true ->
  Codec_dec_wire AD false d acc b = Codec_dec_wire AD true d acc b.
Proof.
  induction d as [|w d IH]; intros acc b G; cbn [Codec_dec_wire]; auto.
  unfold Codec_rigid in G. cbn [forallb] in G. apply andb_true_iff in G as [G1 G2].
  assert (E : Codec_dec_one AD false w acc b = Codec_dec_one AD true w acc b).
  { destruct w as [it | id cnt body | id l m | id tag cases | id s]; try reflexivity; try discriminate G1.
    destruct m; try discriminate G1; reflexivity. }
  rewrite E. destruct (Codec_dec_one AD true w acc b) as [[ents b']|]; auto. rewrite (IH _ _ G2). reflexivity.
Qed.

(* ------------------------------------------------------------------------------------------------ *)
(* offsets                                                                                            *)
(* ------------------------------------------------------------------------------------------------ *)

Section Offsets.
  Variable AD : Codec_adapter -> Z -> option Codec_fval.
  Variable ST : bool.

  Lemma Codec_dec_items_post : forall its b r rest post, Codec_dec_items AD its b = Some (r, rest) ->
    Codec_dec_items AD its (b ++ post) = Some (r, rest ++ post).
  Proof.
    induction its as [|[id k a | ps | id n] its IH]; intros b r rest post H; cbn [Codec_dec_items] in *.
    - inversion H; reflexivity.
    - destruct (Codec_take (Codec_ksize k) b) as [[h t]|] eqn:T; try discriminate.
      rewrite (Codec_take_app_post _ _ _ _ post T). destruct (AD a (Codec_kdec k h)); try discriminate.
      destruct (Codec_dec_items AD its t) as [[e rest']|] eqn:R; try discriminate. inversion H; subst.
      rewrite (IH _ _ _ post R). reflexivity.
    - destruct (Codec_take (length ps) b) as [[h t]|] eqn:T; try discriminate.
      rewrite (Codec_take_app_post _ _ _ _ post T). auto.
    - destruct (Codec_take n b) as [[h t]|] eqn:T; try discriminate.
      rewrite (Codec_take_app_post _ _ _ _ post T). destruct (Codec_str_dec h); try discriminate.
      destruct (Codec_dec_items AD its t) as [[e rest']|] eqn:R; try discriminate. inversion H; subst.
      rewrite (IH _ _ _ post R). reflexivity.
  Qed.
  Lemma Codec_dec_recs_post : forall its n b rs rest post, Codec_dec_recs AD its n b = Some (rs, rest) ->
    Codec_dec_recs AD its n (b ++ post) = Some (rs, rest ++ post).
  Proof.
    induction n; intros b rs rest post H; cbn [Codec_dec_recs] in *.
    - inversion H; reflexivity.
    - destruct (Codec_dec_items AD its b) as [[x t]|] eqn:I; try discriminate. rewrite (Codec_dec_items_post _ _ _ _ post I).
      destruct (Codec_dec_recs AD its n t) as [[rs' rest']|] eqn:R; try discriminate. inversion H; subst.
      rewrite (IHn _ _ _ post R). reflexivity.
  Qed.
  Lemma Codec_count_post : forall acc cnt b n post, Codec_count acc cnt b = Some n -> Codec_count acc cnt (b ++ post) = Some n.
  Proof.
    unfold Codec_count. intros acc cnt b n post H. destruct (Codec_lookup_int acc cnt) as [c|]; try discriminate.
    destruct ((c <? 0) || (Z.of_nat (length b) <? c)) eqn:E; try discriminate.
    rewrite app_length. replace ((c <? 0) || (Z.of_nat (length b + length post) <? c)) with false by lia. exact H.
  Qed.
  Lemma Codec_dec_one_post : forall w acc b ents b' post, Codec_is_greedy w = false ->
    Codec_dec_one AD ST w acc b = Some (ents, b') -> Codec_dec_one AD ST w acc (b ++ post) = Some (ents, b' ++ post).
  Proof.
    intros [it | id cnt body | id l m | id tag cases | id s] acc b ents b' post G H; cbn [Codec_dec_one] in *.
    - destruct (Codec_dec_items AD [it] b) as [[x t]|] eqn:I; try discriminate. rewrite (Codec_dec_items_post _ _ _ _ post I).
      inversion H; reflexivity.
    - destruct (Codec_count acc cnt b) eqn:C; try discriminate. rewrite (Codec_count_post _ _ _ _ post C).
      destruct (Codec_dec_recs AD body n b) as [[rs t]|] eqn:R; try discriminate. rewrite (Codec_dec_recs_post _ _ _ _ _ post R).
      inversion H; reflexivity.
    - destruct l; try discriminate G.
      + destruct (Codec_take n b) as [[h t]|] eqn:T; try discriminate. rewrite (Codec_take_app_post _ _ _ _ post T).
        destruct (Codec_bdec ST acc m h); try discriminate. inversion H; reflexivity.
      + destruct (Codec_count acc cnt b) eqn:C; try discriminate. rewrite (Codec_count_post _ _ _ _ post C).
        destruct (Codec_take n b) as [[h t]|] eqn:T; try discriminate. rewrite (Codec_take_app_post _ _ _ _ post T).
        destruct (Codec_bdec ST acc m h); try discriminate. inversion H; reflexivity.
    - destruct (Codec_lookup_int acc tag); try discriminate. destruct (Codec_assoc z cases).
      + destruct (Codec_dec_items AD l b) as [[x rest]|] eqn:I; try discriminate. rewrite (Codec_dec_items_post _ _ _ _ post I).
        inversion H; reflexivity.
      + inversion H; reflexivity.
    - destruct (Codec_count acc (tg_len s) b) eqn:C; try discriminate. rewrite (Codec_count_post _ _ _ _ post C).
      destruct (Codec_take n b) as [[R t]|] eqn:T; try discriminate. rewrite (Codec_take_app_post _ _ _ _ post T).
      destruct (Codec_tag_dec AD ST s acc R); try discriminate. inversion H; reflexivity.
  Qed.
  Lemma Codec_dec_wire_post : forall d acc b e rest post, Codec_nogreedy d = true ->
    Codec_dec_wire AD ST d acc b = Some (e, rest) -> Codec_dec_wire AD ST d acc (b ++ post) = Some (e, rest ++ post).
  Proof.
    induction d as [|w d IH]; intros acc b e rest post G H; cbn [Codec_dec_wire] in *.
    - inversion H; reflexivity.
    - rewrite Codec_nogreedy_cons in G. apply andb_true_iff in G as [G1 G2]. apply negb_true_iff in G1.
      destruct (Codec_dec_one AD ST w acc b) as [[ents b']|] eqn:O; try discriminate.
      rewrite (Codec_dec_one_post _ _ _ _ _ post G1 O).
      destruct (Codec_dec_wire AD ST d (acc ++ ents) b') as [[e' rest']|] eqn:R; try discriminate. inversion H; subst.
      rewrite (IH _ _ _ _ post G2 R). reflexivity.
  Qed.

  (* a layout with a greedy tail consumes everything it is given *)
  Lemma Codec_greedy_all : forall d seen acc b e rest, Codec_wf_from d seen = true -> Codec_nogreedy d = false ->
    Codec_dec_wire AD ST d acc b = Some (e, rest) -> rest = [].
  Proof.
    induction d as [|w d IH]; intros seen acc b e rest W G H.
    - discriminate G.
    - cbn [Codec_dec_wire] in H. destruct (Codec_wf_from_cons _ _ _ W) as (_ & _ & _ & _ & _ & Wg & W').
      destruct (Codec_dec_one AD ST w acc b) as [[ents b']|] eqn:O; try discriminate.
      destruct (Codec_dec_wire AD ST d (acc ++ ents) b') as [[e' rest']|] eqn:R; try discriminate. inversion H; subst.
      rewrite Codec_nogreedy_cons in G. destruct (Codec_is_greedy w) eqn:Gw.
      + specialize (Wg eq_refl). subst d. cbn in R. inversion R; subst.
        destruct w as [| | ? [] ? | |]; try discriminate Gw. cbn in O.
        destruct (Codec_bdec ST acc m b); try discriminate. inversion O; reflexivity.
      + cbn in G. eapply IH; eauto.
  Qed.
End Offsets.

Theorem Codec_offset_indep_parse : forall d b e n, Codec_nogreedy d = true -> Codec_parse d b = Some (e, n) ->
  forall pre post, Codec_parse_at d (length pre) (pre ++ b ++ post) = Some (e, n).
Proof.
  intros d b e n G P pre post. unfold Codec_parse_at. rewrite app_length.
  replace (length pre + length (b ++ post) <? length pre)%nat with false by lia.
  rewrite skipn_app, skipn_all, Nat.sub_diag. cbn [app skipn].
  unfold Codec_parse, Codec_parse_with in *.
  destruct (Codec_dec_wire Codec_adec false d [] b) as [[e0 rest]|] eqn:D; try discriminate. inversion P; subst.
  rewrite (Codec_dec_wire_post _ _ _ _ _ _ _ post G D). rewrite !app_length. f_equal. f_equal. lia.
Qed.

Theorem Codec_pack_into_spec : forall buf off b1 r, Codec_pack_into buf off b1 = Some r ->
  length r = length buf /\ firstn off r = firstn off buf /\
  firstn (length b1) (skipn off r) = b1 /\ skipn (off + length b1) r = skipn (off + length b1) buf.
Proof.
  unfold Codec_pack_into. intros buf off b1 r H.
  destruct (length buf <? off + length b1)%nat eqn:L; inversion H; subst. clear H.
  assert (Lf : length (firstn off buf) = off) by (apply firstn_length_le; lia).
  split; [|split; [|split]].
  - rewrite !app_length, Lf, skipn_length. lia.
  - rewrite firstn_app, Lf, Nat.sub_diag, firstn_O, app_nil_r. rewrite firstn_firstn. f_equal. lia.
  - rewrite skipn_app, Lf, Nat.sub_diag. cbn [skipn]. rewrite (skipn_all2 (firstn off buf)) by lia. cbn [app].
    rewrite firstn_app, Nat.sub_diag, firstn_O, app_nil_r. apply firstn_all.
  - rewrite skipn_app, Lf. rewrite (skipn_all2 (firstn off buf)) by lia. cbn [app].
    replace (off + length b1 - off)%nat with (length b1) by lia.
    rewrite skipn_app, Nat.sub_diag, skipn_all. reflexivity.
Qed.
