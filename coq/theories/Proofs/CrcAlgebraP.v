(* C06: algebra of the CRC-32 register (Base/Crc32.v step_bit) and the error-detection theorems.
   1. step_bit is GF(2)-linear, fixes 0, and is a bijection of the 32-bit words (explicit inverse);
   2. feeding a bit string = iterating step_bit on (register xor value of the bits), so the CRC of m xor e is
      the CRC of m xor lin(e) with lin(e) := register reached from 0 on e (init / xor-out cancel);
   3. 32x32 bit matrices give step_bit^k(1) by repeated squaring; with the six computed facts and the
      primality of 3, 5, 17, 257, 65537 the order of step_bit at 1 is exactly 2^32-1;
   4. detection: a non-zero error confined to the CRC field, any burst of <= 32 bits inside the protected
      region, any two flipped bits (region/region, region/CRC field) are never accepted. *)
From Coq Require Import NArith ZArith List Bool Lia Arith Btauto Znumtheory.
From FEC Require Import Generated.FEConsts Base.ListX Base.Bytes Base.Crc32 Models.EncoderM.
Import ListNotations.
Open Scope N_scope.

(* ---- xor bookkeeping -------------------------------------------------------------------------- *)
Ltac xor_bits := apply N.bits_inj; intros ?k; repeat rewrite N.lxor_spec; repeat rewrite N.bits_0; btauto.

Lemma lxor_swap4 a b c d : N.lxor (N.lxor a b) (N.lxor c d) = N.lxor (N.lxor a c) (N.lxor b d).
Proof. xor_bits. Qed.

Lemma lxor_cancel_l a b c : N.lxor a b = N.lxor a c -> b = c.
Proof.
  intros H. assert (N.lxor a (N.lxor a b) = N.lxor a (N.lxor a c)) by (rewrite H; reflexivity).
  rewrite <- !N.lxor_assoc, !N.lxor_nilpotent, !N.lxor_0_l in H0. exact H0.
Qed.

Lemma lxor_eq_iff a b : N.lxor a b = 0 <-> a = b.
Proof. split; [apply N.lxor_eq|intros ->; apply N.lxor_nilpotent]. Qed.

(* ---- 1. linearity, zero, bijectivity ------------------------------------------------------------ *)
Lemma step_bit_0 : step_bit 0 = 0.
Proof. reflexivity. Qed.

Theorem step_bit_lin x y : step_bit (N.lxor x y) = N.lxor (step_bit x) (step_bit y).
Proof.
  unfold step_bit. rewrite N.lxor_spec, N.shiftr_lxor.
  destruct (N.testbit x 0), (N.testbit y 0); cbn [xorb]; xor_bits.
Qed.

Lemma poly_bit31 : N.testbit crc_poly 31 = true.
Proof. reflexivity. Qed.

Lemma u32_bit31_shiftr c : u32 c -> N.testbit (N.shiftr c 1) 31 = false.
Proof.
  intros H. rewrite N.shiftr_spec by lia. unfold u32 in H. rewrite lt_pow2_bits in H. apply H. lia.
Qed.

(* the top bit of step_bit c tells whether the polynomial was added *)
Lemma step_bit_bit31 c : u32 c -> N.testbit (step_bit c) 31 = N.testbit c 0.
Proof.
  intros H. unfold step_bit. destruct (N.testbit c 0) eqn:E.
  - rewrite N.lxor_spec, poly_bit31, u32_bit31_shiftr by exact H. reflexivity.
  - apply u32_bit31_shiftr; exact H.
Qed.

Lemma double_shiftr c : N.testbit c 0 = false -> N.double (N.shiftr c 1) = c.
Proof.
  intros H. apply N.bits_inj. intros k. rewrite N.double_spec.
  destruct (N.eq_dec k 0) as [->|Hk].
  - rewrite H. apply N.testbit_even_0.
  - replace k with (N.succ (N.pred k)) at 1 by lia. rewrite N.testbit_even_succ by lia.
    rewrite N.shiftr_spec by lia. f_equal. lia.
Qed.

Lemma succ_double_shiftr c : N.testbit c 0 = true -> N.succ_double (N.shiftr c 1) = c.
Proof.
  intros H. apply N.bits_inj. intros k. rewrite N.succ_double_spec.
  destruct (N.eq_dec k 0) as [->|Hk].
  - rewrite H. apply N.testbit_odd_0.
  - replace k with (N.succ (N.pred k)) at 1 by lia. rewrite N.testbit_odd_succ by lia.
    rewrite N.shiftr_spec by lia. f_equal. lia.
Qed.

Theorem unstep_step c : u32 c -> Encoder_unstep (step_bit c) = c.
Proof.
  intros H. unfold Encoder_unstep. rewrite step_bit_bit31 by exact H. unfold step_bit.
  destruct (N.testbit c 0) eqn:E.
  - replace (N.lxor (N.lxor crc_poly (N.shiftr c 1)) crc_poly) with (N.shiftr c 1) by xor_bits.
    apply succ_double_shiftr; exact E.
  - apply double_shiftr; exact E.
Qed.

Lemma u32_unstep y : u32 y -> u32 (Encoder_unstep y).
Proof.
  intros H. unfold Encoder_unstep, u32 in *. destruct (N.testbit y 31) eqn:E.
  - assert (Hx : N.lxor y crc_poly < 2 ^ 31).
    { apply lt_pow2_bits. intros k Hk. rewrite N.lxor_spec.
      destruct (N.eq_dec k 31) as [->|Hn]; [rewrite E, poly_bit31; reflexivity|].
      rewrite lt_pow2_bits in H. rewrite H by lia.
      assert (Hp : crc_poly < 2 ^ 32) by reflexivity. rewrite lt_pow2_bits in Hp. rewrite Hp by lia. reflexivity. }
    rewrite N.succ_double_spec. change (2 ^ 32) with (2 * 2 ^ 31). lia.
  - assert (Hx : y < 2 ^ 31).
    { apply lt_pow2_bits. intros k Hk. destruct (N.eq_dec k 31) as [->|Hn]; [exact E|].
      rewrite lt_pow2_bits in H. apply H. lia. }
    rewrite N.double_spec. change (2 ^ 32) with (2 * 2 ^ 31). lia.
Qed.

Theorem step_unstep y : u32 y -> step_bit (Encoder_unstep y) = y.
Proof.
  intros H. unfold Encoder_unstep. destruct (N.testbit y 31) eqn:E; unfold step_bit.
  - rewrite N.succ_double_spec, N.testbit_odd_0.
    replace (N.shiftr (2 * N.lxor y crc_poly + 1) 1) with (N.lxor y crc_poly).
    + xor_bits.
    + rewrite <- N.div2_spec, <- N.succ_double_spec, N.div2_succ_double. reflexivity.
  - rewrite N.double_spec, N.testbit_even_0.
    rewrite <- N.div2_spec, <- N.double_spec, N.div2_double. reflexivity.
Qed.

(* step_bit is a bijection of the 32-bit words *)
Theorem step_bit_bijective :
  (forall c, u32 c -> u32 (step_bit c)) /\ (forall y, u32 y -> u32 (Encoder_unstep y)) /\
  (forall c, u32 c -> Encoder_unstep (step_bit c) = c) /\ (forall y, u32 y -> step_bit (Encoder_unstep y) = y).
Proof. repeat split; [apply u32_step_bit|apply u32_unstep|apply unstep_step|apply step_unstep]. Qed.

Lemma step_bit_inj x y : u32 x -> u32 y -> step_bit x = step_bit y -> x = y.
Proof. intros Hx Hy H. rewrite <- (unstep_step x Hx), <- (unstep_step y Hy), H. reflexivity. Qed.

(* ---- iterates ------------------------------------------------------------------------------------ *)
Notation steps := Encoder_steps.

Lemma steps_0 x : steps 0 x = x.  Proof. reflexivity. Qed.
Lemma steps_succ n x : steps (N.succ n) x = step_bit (steps n x).  Proof. apply N.iter_succ. Qed.
Lemma steps_succ_r n x : steps (N.succ n) x = steps n (step_bit x).  Proof. apply N.iter_succ_r. Qed.
Lemma steps_add a b x : steps (a + b) x = steps a (steps b x).  Proof. apply N.iter_add. Qed.

Lemma steps_zero n : steps n 0 = 0.
Proof. unfold steps. apply N.iter_invariant; [intros x ->; reflexivity|reflexivity]. Qed.

Lemma steps_lin n : forall x y, steps n (N.lxor x y) = N.lxor (steps n x) (steps n y).
Proof.
  induction n using N.peano_ind; intros x y; [reflexivity|].
  rewrite !steps_succ, IHn, step_bit_lin. reflexivity.
Qed.

Lemma u32_steps n x : u32 x -> u32 (steps n x).
Proof. intros H. unfold steps. apply N.iter_invariant; [apply u32_step_bit|exact H]. Qed.

Lemma steps_inj n : forall x y, u32 x -> u32 y -> steps n x = steps n y -> x = y.
Proof.
  induction n using N.peano_ind; intros x y Hx Hy H; [exact H|].
  rewrite !steps_succ in H. apply step_bit_inj in H; [|apply u32_steps; assumption..]. apply IHn; assumption.
Qed.

Lemma steps_nonzero n x : u32 x -> x <> 0 -> steps n x <> 0.
Proof.
  intros Hx Hn H. apply Hn. apply (steps_inj n); [exact Hx|unfold u32; reflexivity|]. rewrite steps_zero. exact H.
Qed.

Lemma steps_8 x : steps 8 x = step8 x.
Proof. reflexivity. Qed.

(* ---- 2. the register on bit strings ---------------------------------------------------------------- *)
Lemma b2n_double_nocarry t v : N.b2n t + 2 * v = N.lxor (N.b2n t) (N.shiftl v 1).
Proof.
  rewrite N.shiftl_mul_pow2. change (2 ^ 1) with 2. rewrite (N.mul_comm v 2).
  apply N.add_nocarry_lxor. apply N.bits_inj. intros k. rewrite N.land_spec, N.bits_0.
  destruct (N.eq_dec k 0) as [->|Hk].
  - rewrite N.testbit_even_0. apply andb_false_r.
  - destruct t; cbn [N.b2n]; [|rewrite N.bits_0; reflexivity].
    replace k with (N.succ (N.pred k)) by lia. change 1 with (2 * 0 + 1) at 1. rewrite N.testbit_odd_succ by lia.
    rewrite N.bits_0. reflexivity.
Qed.

Lemma shiftl1_even v : N.testbit (N.shiftl v 1) 0 = false.
Proof. apply N.shiftl_spec_low. lia. Qed.

Lemma shiftr_shiftl1 v : N.shiftr (N.shiftl v 1) 1 = v.
Proof. rewrite N.shiftr_shiftl_l by lia. apply N.shiftl_0_r. Qed.

(* feeding a bit string ts to register c = |ts| steps from c xor (value of ts) *)
Theorem feed_bits_val : forall ts c,
  Encoder_feed_bits c ts = steps (N.of_nat (length ts)) (N.lxor c (Encoder_bits_val ts)).
Proof.
  induction ts as [|t r IH]; intros c.
  - cbn [Encoder_feed_bits fold_left length Encoder_bits_val N.of_nat]. rewrite N.lxor_0_r. reflexivity.
  - cbn [Encoder_feed_bits fold_left]. fold (Encoder_feed_bits (Encoder_feed_bit c t) r). rewrite IH.
    cbn [length Encoder_bits_val]. rewrite Nat2N.inj_succ, steps_succ_r. f_equal.
    unfold Encoder_feed_bit. rewrite b2n_double_nocarry, <- N.lxor_assoc.
    rewrite (step_bit_lxor (N.lxor c (N.b2n t)) (N.shiftl (Encoder_bits_val r) 1)) by apply shiftl1_even.
    rewrite shiftr_shiftl1. reflexivity.
Qed.

Lemma feed_bits_app c a b : Encoder_feed_bits c (a ++ b) = Encoder_feed_bits (Encoder_feed_bits c a) b.
Proof. apply fold_left_app. Qed.

Lemma bits_val_zeros n : Encoder_bits_val (repeat false n) = 0.
Proof. induction n; cbn [repeat Encoder_bits_val N.b2n]; [reflexivity|rewrite IHn; reflexivity]. Qed.

Lemma feed_bits_zeros c n : Encoder_feed_bits c (repeat false n) = steps (N.of_nat n) c.
Proof. rewrite feed_bits_val, bits_val_zeros, repeat_length, N.lxor_0_r. reflexivity. Qed.

Lemma bits_val_bound : forall ts, Encoder_bits_val ts < 2 ^ N.of_nat (length ts).
Proof.
  induction ts as [|t r IH]; [cbn; lia|]. cbn [Encoder_bits_val length]. rewrite Nat2N.inj_succ, N.pow_succ_r'.
  destruct t; cbn [N.b2n]; lia.
Qed.

Lemma bits_val_nonzero : forall ts, In true ts -> Encoder_bits_val ts <> 0.
Proof.
  induction ts as [|t r IH]; intros H; [destruct H|]. cbn [Encoder_bits_val].
  destruct H as [->|H]; [cbn [N.b2n]; lia|]. specialize (IH H). lia.
Qed.

(* bytes *)
Lemma byte_bits_val_all : forallb (fun b => Encoder_bits_val (Encoder_byte_bits b) =? b) range256 = true.
Proof. vm_compute. reflexivity. Qed.

Lemma in_range256 b : b < 256 -> In b range256.
Proof.
  intros H. unfold range256. rewrite <- (N2Nat.id b). apply in_map. apply in_seq. lia.
Qed.

Lemma byte_bits_val b : b < 256 -> Encoder_bits_val (Encoder_byte_bits b) = b.
Proof.
  intros H. pose proof byte_bits_val_all as A. rewrite forallb_forall in A.
  apply N.eqb_eq. apply A. apply in_range256. exact H.
Qed.

Lemma upd_bits_feed c b : b < 256 -> upd_bits c b = Encoder_feed_bits c (Encoder_byte_bits b).
Proof.
  intros H. rewrite feed_bits_val, byte_bits_val by exact H. reflexivity.
Qed.

Theorem crc_fold_feed : forall l c, bytes_ok l -> crc_fold upd_bits c l = Encoder_feed_bits c (Encoder_bits l).
Proof.
  induction l as [|b l IH]; intros c H; [reflexivity|].
  inversion H as [|? ? Hb Hl]; subst. cbn [crc_fold fold_left Encoder_bits flat_map].
  rewrite feed_bits_app, <- upd_bits_feed by exact Hb. apply IH. exact Hl.
Qed.

Lemma bits_length l : length (Encoder_bits l) = (8 * length l)%nat.
Proof. induction l as [|b l IH]; [reflexivity|]. cbn [Encoder_bits flat_map]. rewrite app_length. fold (Encoder_bits l). rewrite IH. cbn [Encoder_byte_bits length]. lia. Qed.

(* the whole register update in closed form: 8|l| steps from c xor (little-endian value of l) *)
Lemma bits_val_app : forall a b, Encoder_bits_val (a ++ b) = Encoder_bits_val a + 2 ^ N.of_nat (length a) * Encoder_bits_val b.
Proof.
  induction a as [|t r IH]; intros b; [cbn [app length Encoder_bits_val N.of_nat]; change (2 ^ 0) with 1; lia|].
  cbn [app Encoder_bits_val length]. rewrite IH, Nat2N.inj_succ, N.pow_succ_r'. lia.
Qed.

Lemma bits_val_bytes : forall l, bytes_ok l -> Encoder_bits_val (Encoder_bits l) = le l.
Proof.
  induction l as [|b l IH]; intros H; [reflexivity|]. inversion H as [|? ? Hb Hl]; subst.
  cbn [Encoder_bits flat_map le]. fold (Encoder_bits l). rewrite bits_val_app, byte_bits_val, IH by assumption.
  cbn [Encoder_byte_bits length]. reflexivity.
Qed.

(* ---- linearity over byte strings -------------------------------------------------------------------- *)
Lemma step8_lin x y : step8 (N.lxor x y) = N.lxor (step8 x) (step8 y).
Proof. rewrite <- !steps_8. apply steps_lin. Qed.

Lemma upd_bits_lin c d a b : upd_bits (N.lxor c d) (N.lxor a b) = N.lxor (upd_bits c a) (upd_bits d b).
Proof. unfold upd_bits. rewrite lxor_swap4. apply step8_lin. Qed.

Theorem crc_fold_lin : forall m e c d, length m = length e ->
  crc_fold upd_bits (N.lxor c d) (Encoder_xor_bytes m e) = N.lxor (crc_fold upd_bits c m) (crc_fold upd_bits d e).
Proof.
  induction m as [|a m IH]; intros [|b e] c d H; try discriminate; [reflexivity|].
  cbn [Encoder_xor_bytes crc_fold fold_left]. rewrite upd_bits_lin. apply IH. cbn [length] in H. lia.
Qed.

(* the syndrome of an error pattern: the register reached from 0 *)
Definition lin (e : list N) : N := crc_fold upd_bits 0 e.

(* CRC of (m xor e) = CRC of m xor lin e, whatever the initial value: init and xor-out cancel *)
Theorem crc_spec_xor init m e : length m = length e ->
  crc32_spec_from init (Encoder_xor_bytes m e) = N.lxor (crc32_spec_from init m) (lin e).
Proof.
  intros H. unfold crc32_spec_from, crc32_from_with, lin.
  rewrite <- (N.lxor_0_r (N.lxor init crc_xor)) at 1. rewrite crc_fold_lin by exact H. xor_bits.
Qed.

Lemma xor_bytes_ok : forall m e, bytes_ok m -> bytes_ok e -> bytes_ok (Encoder_xor_bytes m e).
Proof.
  induction m as [|a m IH]; intros [|b e] Hm He; try constructor.
  - inversion Hm; inversion He; subst.
    assert (Ha : u32 a) by (unfold u32; lia). clear Ha.
    apply lt_pow2_bits with (n := 8). intros k Hk. rewrite N.lxor_spec.
    assert (A : a < 2 ^ 8) by (change (2 ^ 8) with 256; assumption).
    assert (B : b < 2 ^ 8) by (change (2 ^ 8) with 256; assumption).
    rewrite lt_pow2_bits in A, B. rewrite A, B by assumption. reflexivity.
  - inversion Hm; inversion He; subst. apply IH; assumption.
Qed.

Lemma xor_bytes_length : forall m e, length m = length e -> length (Encoder_xor_bytes m e) = length m.
Proof. induction m as [|a m IH]; intros [|b e] H; try discriminate; [reflexivity|]. cbn [Encoder_xor_bytes length] in *. rewrite IH; lia. Qed.

(* table-driven version (what crc.cc and judge_fe compute) *)
Theorem crc32_xor m e : length m = length e -> bytes_ok m -> bytes_ok e ->
  crc32 (Encoder_xor_bytes m e) = N.lxor (crc32 m) (lin e).
Proof.
  intros H Hm He. unfold crc32. rewrite !crc32_from_eq_spec by (try apply xor_bytes_ok; assumption).
  apply crc_spec_xor. exact H.
Qed.

Lemma lin_feed e : bytes_ok e -> lin e = Encoder_feed_bits 0 (Encoder_bits e).
Proof. apply crc_fold_feed. Qed.

Lemma lin_zeros n : lin (repeat 0 n) = 0.
Proof.
  unfold lin. induction n; [reflexivity|]. cbn [repeat crc_fold fold_left]. exact IHn.
Qed.

(* ---- 3. bit matrices: step_bit^k (1) by repeated squaring --------------------------------------------- *)
Definition linear (g : N -> N) : Prop := g 0 = 0 /\ forall x y, g (N.lxor x y) = N.lxor (g x) (g y).

Lemma linear_steps n : linear (steps n).
Proof. split; [apply steps_zero|apply steps_lin]. Qed.

Lemma split_low_bit v : v = N.lxor (N.b2n (N.odd v)) (N.shiftl (N.div2 v) 1).
Proof. rewrite <- b2n_double_nocarry. rewrite (N.div2_odd v) at 1. lia. Qed.

Lemma mapply_mat_aux g : linear g -> forall n i v, v < 2 ^ N.of_nat n ->
  Encoder_mapply (map (fun j => g (2 ^ N.of_nat j)) (seq i n)) v = g (N.shiftl v (N.of_nat i)).
Proof.
  intros [G0 GL]. induction n as [|n IH]; intros i v Hv.
  - cbn in Hv. assert (v = 0) by lia. subst v. cbn [seq map Encoder_mapply]. rewrite N.shiftl_0_l. symmetry. exact G0.
  - cbn [seq map Encoder_mapply]. rewrite IH.
    + rewrite (split_low_bit v) at 3. rewrite N.shiftl_lxor, GL, N.shiftl_shiftl. f_equal.
      * destruct (N.odd v); cbn [N.b2n]; [rewrite N.shiftl_1_l; reflexivity|rewrite N.shiftl_0_l; symmetry; exact G0].
      * f_equal. f_equal. lia.
    + rewrite Nat2N.inj_succ, N.pow_succ_r' in Hv. rewrite N.div2_spec, N.shiftr_div_pow2. change (2 ^ 1) with 2.
      apply N.div_lt_upper_bound; lia.
Qed.

Lemma mapply_mat_of g v : linear g -> u32 v -> Encoder_mapply (Encoder_mat_of g) v = g v.
Proof.
  intros G Hv. unfold Encoder_mat_of. rewrite (mapply_mat_aux g G 32 0 v) by exact Hv. rewrite N.shiftl_0_r. reflexivity.
Qed.

Lemma mat_of_ext f g : (forall x, f x = g x) -> Encoder_mat_of f = Encoder_mat_of g.
Proof. intros H. unfold Encoder_mat_of. apply map_ext. intros j. apply H. Qed.

Lemma u32_pow2 j : (j < 32)%nat -> u32 (2 ^ N.of_nat j).
Proof. intros H. unfold u32. apply N.pow_lt_mono_r; lia. Qed.

Lemma mmul_mat_of f g : linear f -> (forall x, u32 x -> u32 (g x)) ->
  Encoder_mmul (Encoder_mat_of f) (Encoder_mat_of g) = Encoder_mat_of (fun x => f (g x)).
Proof.
  intros F G. unfold Encoder_mmul. unfold Encoder_mat_of at 2 3. rewrite map_map. apply map_ext_in.
  intros j Hj. apply in_seq in Hj. apply mapply_mat_of; [exact F|]. apply G, u32_pow2. lia.
Qed.

Lemma mpow_steps : forall p, Encoder_mpow (Encoder_mat_of step_bit) p = Encoder_mat_of (steps (Npos p)).
Proof.
  induction p as [q IH|q IH|]; cbn [Encoder_mpow].
  - rewrite IH, mmul_mat_of by (try apply linear_steps; intros x; apply u32_steps).
    change (Encoder_mat_of step_bit) with (Encoder_mat_of (steps 1)).
    rewrite mmul_mat_of by (try apply linear_steps; intros x Hx; apply u32_steps, u32_steps; exact Hx).
    apply mat_of_ext. intros x. rewrite <- !steps_add. f_equal. lia.
  - rewrite IH, mmul_mat_of by (try apply linear_steps; intros x; apply u32_steps).
    apply mat_of_ext. intros x. rewrite <- steps_add. f_equal. lia.
  - reflexivity.
Qed.

Theorem steps1_fast_correct p : Encoder_steps1_fast p = steps (Npos p) 1.
Proof. unfold Encoder_steps1_fast. rewrite mpow_steps. reflexivity. Qed.

(* the six computed facts: 2^32-1 = 3 * 5 * 17 * 257 * 65537 *)
Definition ORD : N := 4294967295.
Lemma ORD_factors : ORD = 3 * 5 * 17 * 257 * 65537.  Proof. reflexivity. Qed.

Lemma steps_ORD : steps ORD 1 = 1.
Proof. unfold ORD. rewrite <- steps1_fast_correct. vm_compute. reflexivity. Qed.
Lemma steps_ORD_3 : steps (ORD / 3) 1 <> 1.
Proof. change (ORD / 3) with 1431655765. rewrite <- steps1_fast_correct. vm_compute. discriminate. Qed.
Lemma steps_ORD_5 : steps (ORD / 5) 1 <> 1.
Proof. change (ORD / 5) with 858993459. rewrite <- steps1_fast_correct. vm_compute. discriminate. Qed.
Lemma steps_ORD_17 : steps (ORD / 17) 1 <> 1.
Proof. change (ORD / 17) with 252645135. rewrite <- steps1_fast_correct. vm_compute. discriminate. Qed.
Lemma steps_ORD_257 : steps (ORD / 257) 1 <> 1.
Proof. change (ORD / 257) with 16711935. rewrite <- steps1_fast_correct. vm_compute. discriminate. Qed.
Lemma steps_ORD_65537 : steps (ORD / 65537) 1 <> 1.
Proof. change (ORD / 65537) with 65535. rewrite <- steps1_fast_correct. vm_compute. discriminate. Qed.

(* ---- the set of exponents that return 1 to 1 is closed under +, multiples, differences, gcd ------------ *)
Definition inS (k : N) : Prop := steps k 1 = 1.

Lemma inS_add a b : inS a -> inS b -> inS (a + b).
Proof. unfold inS. intros A B. rewrite steps_add, B. exact A. Qed.

Lemma inS_mul a q : inS a -> inS (q * a).
Proof.
  intros A. induction q using N.peano_ind; [reflexivity|].
  rewrite N.mul_succ_l. apply inS_add; assumption.
Qed.

Lemma inS_sub a b : inS (a + b) -> inS b -> inS a.
Proof. unfold inS. intros AB B. rewrite steps_add, B in AB. exact AB. Qed.

Lemma inS_gcd a b : inS a -> inS b -> inS (N.gcd a b).
Proof.
  intros A B. destruct (N.gcd_bezout a b) as [[u [v E]]|[u [v E]]].
  - apply (inS_sub _ (v * b)); [rewrite <- E; apply inS_mul; exact A|apply inS_mul; exact B].
  - apply (inS_sub _ (v * a)); [rewrite <- E; apply inS_mul; exact B|apply inS_mul; exact A].
Qed.

(* primality of the five factors, by exhaustion over candidate divisors *)
Fixpoint divs_ok (fuel : nat) (c p : N) : bool :=
  match fuel with
  | O => true
  | S f => (negb (p mod c =? 0) || (c =? 1) || (c =? p)) && divs_ok f (c + 1) p
  end.

Lemma divs_ok_spec : forall fuel c0 p, divs_ok fuel c0 p = true ->
  forall c, c0 <= c < c0 + N.of_nat fuel -> p mod c = 0 -> c = 1 \/ c = p.
Proof.
  induction fuel as [|f IH]; intros c0 p H c Hc Hm; [lia|].
  cbn [divs_ok] in H. apply andb_true_iff in H as [H1 H2].
  destruct (N.eq_dec c c0) as [->|Hne].
  - rewrite Hm in H1. cbn in H1. apply orb_true_iff in H1 as [H1|H1]; apply N.eqb_eq in H1; auto.
  - apply (IH (c0 + 1) p H2 c); [lia|exact Hm].
Qed.

Definition only_trivial_divisors (p : N) : Prop := forall c, (c | p) -> c = 1 \/ c = p.

Lemma prime_by_check p : 0 < p -> divs_ok (N.to_nat p) 1 p = true -> only_trivial_divisors p.
Proof.
  intros Hp H c Hc. assert (c <> 0) by (intros ->; destruct Hc as [z Hz]; lia).
  apply (divs_ok_spec _ _ _ H c).
  - pose proof (N.divide_pos_le c p Hp Hc). lia.
  - apply N.mod_divide; assumption.
Qed.

Lemma prime_3 : only_trivial_divisors 3.  Proof. apply prime_by_check; [lia|vm_compute; reflexivity]. Qed.
Lemma prime_5 : only_trivial_divisors 5.  Proof. apply prime_by_check; [lia|vm_compute; reflexivity]. Qed.
Lemma prime_17 : only_trivial_divisors 17.  Proof. apply prime_by_check; [lia|vm_compute; reflexivity]. Qed.
Lemma prime_257 : only_trivial_divisors 257.  Proof. apply prime_by_check; [lia|vm_compute; reflexivity]. Qed.
Lemma prime_65537 : only_trivial_divisors 65537.  Proof. apply prime_by_check; [lia|vm_compute; reflexivity]. Qed.

(* if g divides ORD = p * M, returns 1 to 1, and M does not, then p divides g *)
Lemma factor_forced g p M : only_trivial_divisors p -> p <> 1 -> (g | p * M) -> inS g -> ~ inS M -> (p | g).
Proof.
  intros P P1 Hd Sg SM.
  destruct (P (N.gcd g p) (N.gcd_divide_r g p)) as [E|E].
  - exfalso. apply SM. destruct (N.gauss g p M Hd E) as [z ->]. apply inS_mul. exact Sg.
  - rewrite <- E. apply N.gcd_divide_l.
Qed.

Lemma coprime_product a b g : N.gcd b a = 1 -> (a | g) -> (b | g) -> (a * b | g).
Proof.
  intros C [k ->] B. rewrite N.mul_comm in B. destruct (N.gauss b a k B C) as [z ->].
  exists z. lia.
Qed.

(* the order of step_bit at 1 is exactly 2^32 - 1 *)
Theorem order_exact d : 0 < d < ORD -> steps d 1 <> 1.
Proof.
  intros Hd S. fold (inS d) in S.
  set (g := N.gcd d ORD).
  assert (Sg : inS g) by (apply inS_gcd; [exact S|exact steps_ORD]).
  assert (Gd : (g | d)) by apply N.gcd_divide_l.
  assert (GO : (g | ORD)) by apply N.gcd_divide_r.
  assert (Gle : g <= d) by (apply N.divide_pos_le; [lia|exact Gd]).
  assert (D3 : (3 | g)) by (apply (factor_forced g 3 (ORD / 3) prime_3); [lia|exact GO|exact Sg|exact steps_ORD_3]).
  assert (D5 : (5 | g)) by (apply (factor_forced g 5 (ORD / 5) prime_5); [lia|exact GO|exact Sg|exact steps_ORD_5]).
  assert (D17 : (17 | g)) by (apply (factor_forced g 17 (ORD / 17) prime_17); [lia|exact GO|exact Sg|exact steps_ORD_17]).
  assert (D257 : (257 | g)) by (apply (factor_forced g 257 (ORD / 257) prime_257); [lia|exact GO|exact Sg|exact steps_ORD_257]).
  assert (D65537 : (65537 | g)) by (apply (factor_forced g 65537 (ORD / 65537) prime_65537); [lia|exact GO|exact Sg|exact steps_ORD_65537]).
  assert (A : (3 * 5 | g)) by (apply coprime_product; [reflexivity|assumption..]).
  assert (B : (3 * 5 * 17 | g)) by (apply coprime_product; [reflexivity|assumption..]).
  assert (C : (3 * 5 * 17 * 257 | g)) by (apply coprime_product; [reflexivity|assumption..]).
  assert (D : (3 * 5 * 17 * 257 * 65537 | g)) by (apply coprime_product; [reflexivity|assumption..]).
  rewrite <- ORD_factors in D.
  assert (g <> 0) by (intros E; rewrite E in Gd; destruct Gd as [z Hz]; lia).
  pose proof (N.divide_pos_le ORD g ltac:(lia) D). lia.
Qed.

(* ---- 4. detection ------------------------------------------------------------------------------------- *)
(* a whole message m (header + payload): stored CRC = bytes 4..7 little-endian, protected region = bytes 8.. *)
Definition frame_crc_ok (m : list N) : Prop := crc32 (skipn 8 m) = le (sub m 4 4).

Lemma xor_bytes_app : forall a c b d, length a = length c ->
  Encoder_xor_bytes (a ++ b) (c ++ d) = Encoder_xor_bytes a c ++ Encoder_xor_bytes b d.
Proof.
  induction a as [|x a IH]; intros [|y c] b d H; try discriminate; [reflexivity|].
  cbn [app Encoder_xor_bytes]. f_equal. apply IH. cbn [length] in H. lia.
Qed.

Lemma xor_bytes_zeros : forall a, Encoder_xor_bytes a (repeat 0 (length a)) = a.
Proof. induction a as [|x a IH]; [reflexivity|]. cbn [length repeat Encoder_xor_bytes]. rewrite N.lxor_0_r, IH. reflexivity. Qed.

Lemma le_cons_lxor x L : x < 256 -> x + 256 * L = N.lxor x (N.shiftl L 8).
Proof.
  intros Hx. rewrite N.shiftl_mul_pow2. change (2 ^ 8) with 256. rewrite (N.mul_comm L).
  apply N.add_nocarry_lxor. apply N.bits_inj. intros k. rewrite N.land_spec, N.bits_0.
  destruct (N.ltb_spec k 8) as [Hk|Hk].
  - change 256 with (2 ^ 8). rewrite N.mul_comm, N.mul_pow2_bits_low by exact Hk. apply andb_false_r.
  - assert (A : x < 2 ^ 8) by exact Hx. rewrite lt_pow2_bits in A. rewrite A by exact Hk. reflexivity.
Qed.

Lemma le_xor : forall a b, bytes_ok a -> bytes_ok b -> length a = length b ->
  le (Encoder_xor_bytes a b) = N.lxor (le a) (le b).
Proof.
  induction a as [|x a IH]; intros [|y b] Ha Hb H; try discriminate; [reflexivity|].
  inversion Ha as [|? ? Hx Ha']; inversion Hb as [|? ? Hy Hb']; subst.
  cbn [Encoder_xor_bytes le]. rewrite IH by (try assumption; cbn [length] in H; lia).
  assert (Hxy : N.lxor x y < 256).
  { pose proof (xor_bytes_ok [x] [y] ltac:(constructor; [assumption|constructor]) ltac:(constructor; [assumption|constructor])) as Q.
    cbn [Encoder_xor_bytes] in Q. inversion Q; assumption. }
  rewrite !le_cons_lxor by assumption. rewrite N.shiftl_lxor. apply lxor_swap4.
Qed.

Lemma le_zero_inv : forall l, le l = 0 -> Forall (fun b => b = 0) l.
Proof.
  induction l as [|b l IH]; intros H; constructor; cbn [le] in H; [lia|apply IH; lia].
Qed.

Lemma le_zeros n : le (repeat 0 n) = 0.
Proof. induction n; cbn [repeat le]; [reflexivity|rewrite IHn; reflexivity]. Qed.

Lemma bytes_ok_zeros n : bytes_ok (repeat 0 n).
Proof. apply Forall_forall. intros x Hx. apply repeat_spec in Hx. subst. reflexivity. Qed.

Lemma bytes_ok_app a b : bytes_ok (a ++ b) <-> bytes_ok a /\ bytes_ok b.
Proof. apply Forall_app. Qed.

(* a message splits as 4 bytes (sync, reserved) ++ 4 CRC bytes ++ region *)
Lemma frame_split m : (8 <= length m)%nat ->
  m = firstn 4 m ++ sub m 4 4 ++ skipn 8 m /\ length (firstn 4 m) = 4%nat /\ length (sub m 4 4) = 4%nat.
Proof.
  intros H. repeat split.
  - unfold sub. rewrite <- (firstn_skipn 4 m) at 1. f_equal.
    rewrite <- (firstn_skipn 4 (skipn 4 m)) at 1. f_equal. rewrite skipn_skipn. reflexivity.
  - apply firstn_length_le. lia.
  - apply sub_length. lia.
Qed.

(* THE characterisation: the corrupted message passes the CRC test iff the syndrome of the region error
   equals the error written on the CRC field *)
Theorem corrupted_crc_ok_iff m eC eR :
  bytes_ok m -> bytes_ok eC -> bytes_ok eR -> length eC = 4%nat -> length m = (8 + length eR)%nat ->
  frame_crc_ok m ->
  (frame_crc_ok (Encoder_xor_bytes m (Encoder_err eC eR)) <-> lin eR = le eC).
Proof.
  intros Hm HC HR LC Lm Hok.
  destruct (frame_split m ltac:(lia)) as [Em [L0 L1]].
  set (m0 := firstn 4 m) in *. set (mC := sub m 4 4) in *. set (mR := skipn 8 m) in *.
  assert (LR : length mR = length eR) by (unfold mR; rewrite skipn_length; lia).
  assert (Hparts : bytes_ok m0 /\ bytes_ok mC /\ bytes_ok mR).
  { rewrite Em in Hm. apply bytes_ok_app in Hm as [A Hm]. apply bytes_ok_app in Hm as [B C]. auto. }
  destruct Hparts as [H0 [H1 H2]].
  assert (E : Encoder_xor_bytes m (Encoder_err eC eR) = m0 ++ Encoder_xor_bytes mC eC ++ Encoder_xor_bytes mR eR).
  { rewrite Em at 1. unfold Encoder_err. rewrite xor_bytes_app by (rewrite repeat_length; exact L0).
    rewrite xor_bytes_app by lia. rewrite <- L0 at 1. rewrite xor_bytes_zeros. reflexivity. }
  unfold frame_crc_ok in *. rewrite E.
  assert (S8 : skipn 8 (m0 ++ Encoder_xor_bytes mC eC ++ Encoder_xor_bytes mR eR) = Encoder_xor_bytes mR eR).
  { rewrite app_assoc. replace 8%nat with (length (m0 ++ Encoder_xor_bytes mC eC)).
    - apply skipn_app_exact.
    - rewrite app_length, xor_bytes_length by lia. lia. }
  assert (S4 : sub (m0 ++ Encoder_xor_bytes mC eC ++ Encoder_xor_bytes mR eR) 4 4 = Encoder_xor_bytes mC eC).
  { unfold sub.
    assert (K : forall T, skipn 4 (m0 ++ T) = T) by (intros T; rewrite <- L0; apply skipn_app_exact).
    rewrite K.
    assert (K2 : forall A T : list N, length A = 4%nat -> firstn 4 (A ++ T) = A) by (intros A T LA; rewrite <- LA; apply firstn_app_exact).
    apply K2. rewrite xor_bytes_length; lia. }
  rewrite S8, S4, crc32_xor, le_xor by (assumption || lia). fold mR mC in Hok. rewrite Hok.
  split; intros H.
  - apply (lxor_cancel_l (le mC)). exact H.
  - rewrite H. reflexivity.
Qed.

(* --- syndromes of the patterns --- *)
Lemma lin_burst eR p W q : bytes_ok eR ->
  Encoder_bits eR = repeat false p ++ W ++ repeat false q ->
  lin eR = steps (N.of_nat q + N.of_nat (length W)) (Encoder_bits_val W).
Proof.
  intros H E. rewrite lin_feed, E, !feed_bits_app, !feed_bits_zeros, steps_zero by exact H.
  rewrite feed_bits_val, N.lxor_0_l, steps_add. reflexivity.
Qed.

Theorem lin_burst32_nonzero eR p W q : bytes_ok eR ->
  Encoder_bits eR = repeat false p ++ W ++ repeat false q -> (length W <= 32)%nat -> In true W ->
  lin eR <> 0.
Proof.
  intros H E LW T. rewrite (lin_burst eR p W q H E). apply steps_nonzero.
  - unfold u32. eapply N.lt_le_trans; [apply bits_val_bound|]. apply N.pow_le_mono_r; lia.
  - apply bits_val_nonzero. exact T.
Qed.

Lemma lin_one_bit eR p q : bytes_ok eR ->
  Encoder_bits eR = repeat false p ++ [true] ++ repeat false q -> lin eR = steps (N.of_nat q + 1) 1.
Proof. intros H E. rewrite (lin_burst eR p [true] q H E). reflexivity. Qed.

Lemma u32_1 : u32 1.  Proof. reflexivity. Qed.

Lemma lin_two_bits eR p d q : bytes_ok eR ->
  Encoder_bits eR = repeat false p ++ [true] ++ repeat false d ++ [true] ++ repeat false q ->
  lin eR = N.lxor (steps (N.of_nat q + 1) (steps (N.of_nat d + 1) 1)) (steps (N.of_nat q + 1) 1).
Proof.
  intros H E. rewrite lin_feed, E, !feed_bits_app, !feed_bits_zeros, steps_zero by exact H.
  cbn [Encoder_feed_bits fold_left]. unfold Encoder_feed_bit. cbn [N.b2n]. rewrite N.lxor_0_l.
  rewrite step_bit_lin, steps_lin. rewrite <- !steps_succ, <- !N.add_1_r. rewrite <- !steps_succ_r, <- !N.add_1_r.
  f_equal. rewrite <- !steps_add. f_equal. lia.
Qed.

Lemma bits_total eR (a : list bool) : Encoder_bits eR = a -> (8 * length eR)%nat = length a.
Proof. intros <-. symmetry. apply bits_length. Qed.

Theorem lin_two_bits_nonzero eR p d q : bytes_ok eR ->
  Encoder_bits eR = repeat false p ++ [true] ++ repeat false d ++ [true] ++ repeat false q ->
  8 * N.of_nat (length eR) + 32 < 2 ^ 32 ->
  lin eR <> 0.
Proof.
  intros H E Hlen. rewrite (lin_two_bits eR p d q H E). intros Z. apply N.lxor_eq in Z.
  apply steps_inj in Z; [|apply u32_steps, u32_1|apply u32_1].
  apply (order_exact (N.of_nat d + 1)); [|exact Z].
  apply bits_total in E. rewrite !app_length, !repeat_length in E. cbn [length] in E. unfold ORD.
  change (2 ^ 32) with 4294967296 in Hlen. lia.
Qed.

Lemma steps_pow2_all : forallb (fun j => steps (N.of_nat j) (2 ^ N.of_nat j) =? 1) (seq 0 32) = true.
Proof. vm_compute. reflexivity. Qed.

Lemma steps_pow2 j : (j < 32)%nat -> steps (N.of_nat j) (2 ^ N.of_nat j) = 1.
Proof.
  intros H. pose proof steps_pow2_all as A. rewrite forallb_forall in A. apply N.eqb_eq. apply A. apply in_seq. lia.
Qed.

Lemma bits_val_single j k : Encoder_bits_val (repeat false j ++ [true] ++ repeat false k) = 2 ^ N.of_nat j.
Proof.
  rewrite bits_val_app, bits_val_zeros, repeat_length. cbn [app Encoder_bits_val N.b2n]. rewrite bits_val_zeros. lia.
Qed.

Theorem lin_one_bit_ne_crc_bit eR p q j : bytes_ok eR ->
  Encoder_bits eR = repeat false p ++ [true] ++ repeat false q -> (j < 32)%nat ->
  8 * N.of_nat (length eR) + 32 < 2 ^ 32 ->
  lin eR <> 2 ^ N.of_nat j.
Proof.
  intros H E Hj Hlen Z. rewrite (lin_one_bit eR p q H E) in Z.
  assert (S : steps (N.of_nat j + (N.of_nat q + 1)) 1 = 1) by (rewrite steps_add, Z; apply steps_pow2; exact Hj).
  apply (order_exact (N.of_nat j + (N.of_nat q + 1))); [|exact S].
  apply bits_total in E. rewrite !app_length, !repeat_length in E. cbn [length] in E. unfold ORD.
  change (2 ^ 32) with 4294967296 in Hlen. lia.
Qed.

(* --- the detection theorems on messages --- *)
Section Detect.
  Variables (m eC eR : list N).
  Hypothesis Hm : bytes_ok m.
  Hypothesis HC : bytes_ok eC.
  Hypothesis HR : bytes_ok eR.
  Hypothesis LC : length eC = 4%nat.
  Hypothesis Lm : length m = (8 + length eR)%nat.
  Hypothesis Hok : frame_crc_ok m.

  Let m' := Encoder_xor_bytes m (Encoder_err eC eR).

  (* any non-zero error confined to the CRC field *)
  Theorem detect_any_crc_field_error :
    eR = repeat 0 (length eR) -> (exists b, In b eC /\ b <> 0) -> ~ frame_crc_ok m'.
  Proof.
    intros Z [b [Hb Hnz]] A. apply (corrupted_crc_ok_iff m eC eR Hm HC HR LC Lm Hok) in A.
    rewrite Z, lin_zeros in A. symmetry in A. apply le_zero_inv in A. rewrite Forall_forall in A. apply Hnz, A, Hb.
  Qed.

  (* any burst of at most 32 bits inside the protected region, at any position, for any message length *)
  Theorem detect_burst32 p W q :
    eC = repeat 0 4 -> Encoder_bits eR = repeat false p ++ W ++ repeat false q -> (length W <= 32)%nat -> In true W ->
    ~ frame_crc_ok m'.
  Proof.
    intros Z E LW T A. apply (corrupted_crc_ok_iff m eC eR Hm HC HR LC Lm Hok) in A.
    rewrite Z, le_zeros in A. exact (lin_burst32_nonzero eR p W q HR E LW T A).
  Qed.

  (* two flipped bits, both in the region *)
  Theorem detect_two_bits_region p d q :
    eC = repeat 0 4 -> Encoder_bits eR = repeat false p ++ [true] ++ repeat false d ++ [true] ++ repeat false q ->
    8 * N.of_nat (length eR) + 32 < 2 ^ 32 -> ~ frame_crc_ok m'.
  Proof.
    intros Z E Hlen A. apply (corrupted_crc_ok_iff m eC eR Hm HC HR LC Lm Hok) in A.
    rewrite Z, le_zeros in A. exact (lin_two_bits_nonzero eR p d q HR E Hlen A).
  Qed.

  (* one flipped bit in the region and one in the CRC field *)
  Theorem detect_two_bits_region_and_crc p q j :
    Encoder_bits eC = repeat false j ++ [true] ++ repeat false (31 - j) -> (j < 32)%nat ->
    Encoder_bits eR = repeat false p ++ [true] ++ repeat false q ->
    8 * N.of_nat (length eR) + 32 < 2 ^ 32 -> ~ frame_crc_ok m'.
  Proof.
    intros EC Hj E Hlen A. apply (corrupted_crc_ok_iff m eC eR Hm HC HR LC Lm Hok) in A.
    rewrite <- (bits_val_bytes eC HC), EC, bits_val_single in A. exact (lin_one_bit_ne_crc_bit eR p q j HR E Hj Hlen A).
  Qed.

  (* one flipped bit anywhere in the region *)
  Theorem detect_one_bit_region p q :
    eC = repeat 0 4 -> Encoder_bits eR = repeat false p ++ [true] ++ repeat false q -> ~ frame_crc_ok m'.
  Proof.
    intros Z E. apply (detect_burst32 p [true] q Z E); [cbn [length]; lia|left; reflexivity].
  Qed.
End Detect.
