(* C08: block arithmetic of fast_generate_index — pure div/mod/min facts, for all READ, MAX, file sizes *)
From Coq Require Import NArith ZArith List Bool Arith Lia ZifyBool ZifyNat ZifyN.
From FEC Require Import Base.ListX Models.FastIndexerM Proofs.FastIndexerListP.
Import ListNotations.
Open Scope N_scope.

Section Arith.
  Variables READ MAX : N.
  Hypothesis READ_ge : 2 <= READ.
  Hypothesis READ_even : READ mod 2 = 0.
  Hypothesis MAX_ge : 24 <= MAX.
  Hypothesis MAX_le : MAX <= READ.

  (* length of the buffer read for the block at [bo] *)
  Definition fi_blen (size bo : N) : N := N.min (READ + MAX) (size - bo).

  Lemma num_blocks_spec size : 0 < size ->
    let nb := fi_num_blocks READ size in 1 <= nb /\ (nb - 1) * READ < size /\ size <= nb * READ.
  Proof.
    intros Hs. unfold fi_num_blocks. cbn zeta.
    pose proof (N.div_mod (size + READ - 1) READ ltac:(lia)) as E.
    pose proof (N.mod_lt (size + READ - 1) READ ltac:(lia)) as L.
    set (q := (size + READ - 1) / READ) in *. set (r := (size + READ - 1) mod READ) in *.
    assert (1 <= q) by (destruct (N.eq_dec q 0) as [Z|]; [rewrite Z in E; lia | lia]).
    split; [lia|]. split; nia.
  Qed.

  Lemma num_blocks_0 : fi_num_blocks READ 0 = 0.
  Proof. unfold fi_num_blocks. apply N.div_small. lia. Qed.

  (* word_count of the block at [bo] of a file of [size] bytes, by the three cases of the code *)
  Lemma wc_full size bo : READ + MAX <= size - bo ->
    fi_word_count READ MAX fi_cur bo (fi_blen size bo) = WCount (READ / 2).
  Proof.
    intros H. unfold fi_word_count, fi_blen. rewrite N.min_l by lia. rewrite N.eqb_refl. reflexivity.
  Qed.

  Lemma wc_short size bo : size - bo < READ + MAX -> bo = 0 \/ MAX <= size - bo ->
    fi_word_count READ MAX fi_cur bo (fi_blen size bo) =
    WCount (if (size - bo) / 2 =? 0 then 0 else (size - bo) / 2 - 1).
  Proof.
    intros H1 H2. unfold fi_word_count, fi_blen. rewrite N.min_r by lia.
    assert (size - bo =? READ + MAX = false) as -> by lia.
    assert ((bo =? 0) || (MAX <=? size - bo) = true) as -> by lia.
    cbn [c_wcclamp fi_cur]. destruct ((size - bo) / 2 =? 0); reflexivity.
  Qed.

  Lemma wc_break size bo : size - bo < MAX -> bo <> 0 ->
    fi_word_count READ MAX fi_cur bo (fi_blen size bo) = WBreak.
  Proof.
    intros H1 H2. unfold fi_word_count, fi_blen. rewrite N.min_r by lia.
    assert (size - bo =? READ + MAX = false) as -> by lia.
    assert ((bo =? 0) || (MAX <=? size - bo) = false) as -> by lia. reflexivity.
  Qed.

  Lemma even_half : 2 * (READ / 2) = READ.
  Proof. pose proof (N.div_mod READ 2 ltac:(lia)). lia. Qed.

  (* candidate range of block k: [k*READ, k*READ + 2*wc) *)
  Definition fi_covers (size k o : N) : Prop :=
    exists wc, fi_word_count READ MAX fi_cur (k * READ) (fi_blen size (k * READ)) = WCount wc /\
               k * READ <= o < k * READ + 2 * wc.

  Lemma mul_mono a b : a <= b -> a * READ <= b * READ.
  Proof. intros. apply N.mul_le_mono_r. assumption. Qed.

  Theorem blocks_cover size o : o + 24 <= size ->
    exists k, k < fi_num_blocks READ size /\ fi_covers size k o /\
      (forall n, n <= MAX -> o + n <= size -> o + n <= k * READ + fi_blen size (k * READ)) /\
      (forall k', k' < fi_num_blocks READ size -> fi_covers size k' o -> k' = k).
  Proof.
    intros Ho. assert (Hs : 0 < size) by lia.
    destruct (num_blocks_spec size Hs) as (Hnb1 & Hlo & Hhi). set (nb := fi_num_blocks READ size) in *.
    (* nb = p + 1, p*READ < size <= p*READ + READ *)
    assert (Hp : exists p, nb = p + 1) by (exists (nb - 1); lia). destruct Hp as (p & Hp).
    rewrite Hp in Hlo, Hhi. replace (p + 1 - 1) with p in Hlo by lia.
    assert (Hhi' : size <= p * READ + READ) by lia. clear Hhi. clearbody nb. subst nb. clear Hnb1.
    pose proof even_half as EH.
    (* classification of every block k <= p *)
    assert (Hcls : forall k, k <= p ->
              (READ + MAX <= size - k * READ /\ fi_word_count READ MAX fi_cur (k * READ) (fi_blen size (k * READ)) = WCount (READ / 2)) \/
              (size - k * READ < READ + MAX /\ (k = 0 \/ MAX <= size - k * READ) /\
               fi_word_count READ MAX fi_cur (k * READ) (fi_blen size (k * READ)) =
               WCount (if (size - k * READ) / 2 =? 0 then 0 else (size - k * READ) / 2 - 1)) \/
              (size - k * READ < MAX /\ k <> 0 /\ k = p /\
               fi_word_count READ MAX fi_cur (k * READ) (fi_blen size (k * READ)) = WBreak)).
    { intros k Hk. destruct (N.le_gt_cases (READ + MAX) (size - k * READ)) as [Hf|Hf].
      - left. split; [exact Hf|]. apply wc_full. exact Hf.
      - destruct (N.eq_dec k 0) as [->|Hk0].
        + right. left. split; [exact Hf|]. split; [left; reflexivity|]. apply wc_short; [exact Hf|left; lia].
        + destruct (N.le_gt_cases MAX (size - k * READ)) as [Hm|Hm].
          * right. left. split; [exact Hf|]. split; [right; exact Hm|]. apply wc_short; [exact Hf|right; exact Hm].
          * right. right. split; [exact Hm|]. split; [exact Hk0|].
            assert (k * READ <> 0) by (intros Z; apply N.eq_mul_0 in Z; lia).
            split; [|apply wc_break; [exact Hm|assumption]].
            (* only the last block can be shorter than MAX *)
            destruct (N.eq_dec k p) as [E|NE]; [exact E|]. exfalso.
            pose proof (mul_mono (k + 1) p ltac:(lia)). lia. }
    set (q := o / READ).
    assert (Hq : q * READ <= o < q * READ + READ).
    { pose proof (N.div_mod o READ ltac:(lia)). pose proof (N.mod_lt o READ ltac:(lia)). subst q.
      rewrite (N.mul_comm READ) in H. lia. }
    clearbody q.
    assert (Hqp : q <= p).
    { destruct (N.le_gt_cases q p) as [L|G]; [exact L|]. pose proof (mul_mono (p + 1) q ltac:(lia)). lia. }
    assert (Hhalf : forall x, 2 * (x / 2) <= x < 2 * (x / 2) + 2).
    { intros x. pose proof (N.div_mod x 2 ltac:(lia)). pose proof (N.mod_lt x 2 ltac:(lia)). lia. }
    destruct (Hcls q Hqp) as [(Hf & Hw)|[(Hf & Hz & Hw)|(Hm & Hk0 & Hlast & Hw)]].
    - (* o is in a full block *)
      exists q. split; [lia|]. split; [exists (READ / 2); split; [exact Hw|lia]|]. split.
      + intros n Hn Hon. unfold fi_blen. rewrite N.min_l by lia. lia.
      + intros k' Hk' (wc' & Hw' & Hr').
        destruct (Hcls k' ltac:(lia)) as [(Hf' & Hw2)|[(Hf' & Hz' & Hw2)|(Hm' & Hk0' & Hlast' & Hw2)]]; rewrite Hw2 in Hw'; [| |discriminate].
        * injection Hw' as <-.
          destruct (N.lt_trichotomy k' q) as [Lt|[Eq|Gt]]; [|exact Eq|]; exfalso.
          -- pose proof (mul_mono (k' + 1) q ltac:(lia)). lia.
          -- pose proof (mul_mono (q + 1) k' ltac:(lia)). lia.
        * injection Hw' as <-.
          destruct (N.lt_trichotomy k' q) as [Lt|[Eq|Gt]]; [|exact Eq|]; exfalso.
          -- (* an earlier short block would make q's block short too *)
             pose proof (mul_mono (k' + 1) q ltac:(lia)). lia.
          -- pose proof (mul_mono (q + 1) k' ltac:(lia)). lia.
    - (* o is in a short, processed block *)
      exists q. split; [lia|]. split.
      + eexists. split; [exact Hw|]. split; [lia|].
        pose proof (Hhalf (size - q * READ)).
        assert ((size - q * READ) / 2 =? 0 = false) as -> by lia. lia.
      + split.
        * intros n Hn Hon. unfold fi_blen. rewrite N.min_r by lia. lia.
        * intros k' Hk' (wc' & Hw' & Hr').
          destruct (Hcls k' ltac:(lia)) as [(Hf' & Hw2)|[(Hf' & Hz' & Hw2)|(Hm' & Hk0' & Hlast' & Hw2)]]; rewrite Hw2 in Hw'; [| |discriminate].
          -- injection Hw' as <-.
             destruct (N.lt_trichotomy k' q) as [Lt|[Eq|Gt]]; [|exact Eq|]; exfalso.
             ++ pose proof (mul_mono (k' + 1) q ltac:(lia)). lia.
             ++ pose proof (mul_mono (q + 1) k' ltac:(lia)). lia.
          -- injection Hw' as <-.
             destruct (N.lt_trichotomy k' q) as [Lt|[Eq|Gt]]; [|exact Eq|]; exfalso.
             ++ (* two short processed blocks: the later one has at least MAX bytes, so the earlier has >= READ+MAX *)
                pose proof (mul_mono (k' + 1) q ltac:(lia)). destruct Hz as [Hz|Hz]; lia.
             ++ pose proof (mul_mono (q + 1) k' ltac:(lia)). lia.
    - (* o is in the last block, which is left to the previous one *)
      subst q. assert (Hp1 : exists p', p = p' + 1) by (exists (p - 1); lia). destruct Hp1 as (p' & ->).
      assert (Hpp : (p' + 1) * READ = p' * READ + READ) by lia.
      destruct (Hcls p' ltac:(lia)) as [(Hf' & Hw2)|[(Hf' & Hz' & Hw2)|(Hm' & Hk0' & Hlast' & Hw2)]].
      + exfalso. lia.
      + exists p'. split; [lia|]. split.
        * eexists. split; [exact Hw2|]. split; [lia|].
          pose proof (Hhalf (size - p' * READ)).
          assert ((size - p' * READ) / 2 =? 0 = false) as -> by lia. lia.
        * split.
          -- intros n Hn Hon. unfold fi_blen. rewrite N.min_r by lia. lia.
          -- intros k' Hk' (wc' & Hw' & Hr').
             destruct (Hcls k' ltac:(lia)) as [(Hf3 & Hw3)|[(Hf3 & Hz3 & Hw3)|(Hm3 & Hk3 & Hlast3 & Hw3)]]; rewrite Hw3 in Hw'; [| |discriminate].
             ++ injection Hw' as <-. exfalso.
                destruct (N.le_gt_cases k' p') as [L|G].
                ** pose proof (mul_mono k' p' L). lia.
                ** pose proof (mul_mono (p' + 1) k' ltac:(lia)). lia.
             ++ injection Hw' as <-.
                destruct (N.lt_trichotomy k' p') as [Lt|[Eq|Gt]]; [|exact Eq|]; exfalso.
                ** pose proof (mul_mono (k' + 1) p' ltac:(lia)). lia.
                ** assert (k' = p' + 1) by lia. subst k'. destruct Hz3 as [Hz3|Hz3]; lia.
      + exfalso. lia.
  Qed.
End Arith.

From FEC Require Import Generated.FEConsts.
Lemma generated_constants_ok :
  2 <= READ_SIZE_BYTES /\ READ_SIZE_BYTES mod 2 = 0 /\ 24 <= MAX_FE_MSG_SIZE_BYTES /\ MAX_FE_MSG_SIZE_BYTES <= READ_SIZE_BYTES.
Proof. vm_compute. repeat split; discriminate. Qed.
