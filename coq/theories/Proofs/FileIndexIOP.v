(* C09 — proofs about the index-file model (Models/FileIndexIOM.v). *)
From Coq Require Import NArith List Bool Arith Lia.
From FEC Require Import Generated.FEConsts Generated.FileIndexConsts Base.ListX Base.Bytes Base.Crc32 Base.Scan Base.FEFormat
  Models.FileScanM Models.FileIndexIOM Proofs.FileScanP.
Import ListNotations.
Local Open Scope nat_scope.

(* ---- list helpers ---------------------------------------------------------------------------------------- *)
Lemma firstn_app_len {A} (a b : list A) n : length a = n -> firstn n (a ++ b) = a.
Proof. intros <-. apply firstn_app_exact. Qed.
Lemma skipn_app_len {A} (a b : list A) n : length a = n -> skipn n (a ++ b) = b.
Proof. intros <-. apply skipn_app_exact. Qed.

Lemma last_opt_app {A} (l : list A) x : last_opt (l ++ [x]) = Some x.
Proof.
  induction l as [|a l IH]; [reflexivity|]. destruct l as [|b l]; [reflexivity|].
  change (last_opt ((b :: l) ++ [x]) = Some x). exact IH.
Qed.

Lemma last_opt_None {A} (l : list A) : last_opt l = None <-> l = [].
Proof.
  split; [|intros ->; reflexivity]. induction l as [|a l IH]; [reflexivity|].
  cbn [last_opt]. destruct l; [discriminate|]. intros H. apply IH in H. discriminate.
Qed.

Lemma last_opt_Some {A} (l : list A) x : last_opt l = Some x -> l = removelast l ++ [x].
Proof.
  induction l as [|a l IH]; [discriminate|]. destruct l as [|b l].
  - cbn. intros H. injection H as ->. reflexivity.
  - intros H. change (last_opt (b :: l) = Some x) in H. apply IH in H.
    change (removelast (a :: b :: l)) with (a :: removelast (b :: l)). cbn [app]. f_equal. exact H.
Qed.

Lemma removelast_app1 {A} (l : list A) x : removelast (l ++ [x]) = l.
Proof. rewrite removelast_app by discriminate. cbn. apply app_nil_r. Qed.

Lemma last_opt_map {A B} (f : A -> B) (l : list A) : last_opt (map f l) = option_map f (last_opt l).
Proof.
  induction l as [|a l IH]; [reflexivity|]. destruct l as [|b l]; [reflexivity|].
  change (last_opt (map f (a :: b :: l))) with (last_opt (map f (b :: l))). exact IH.
Qed.

(* ---- records: tofile / fromfile round trip, truncation ---------------------------------------------------- *)
Definition rentry_wf (r : rentry) : Prop :=
  (r_time r < 2 ^ 32 /\ r_type r < 2 ^ 16 /\ r_off r < 2 ^ 64)%N.

Lemma enc_rentry_length r : length (enc_rentry r) = REC_SIZE.
Proof. unfold enc_rentry, REC_SIZE. rewrite !app_length, !le_enc_length. lia. Qed.

Lemma dec_enc_rentry r rest : rentry_wf r -> dec_rentry (firstn REC_SIZE (enc_rentry r ++ rest)) = r.
Proof.
  intros (Ht & Hy & Ho). rewrite firstn_app_len by apply enc_rentry_length.
  unfold dec_rentry, enc_rentry, sub. destruct r as [t y o]. cbn [r_time r_type r_off] in *. f_equal.
  - cbn [skipn]. rewrite firstn_app_len by apply le_enc_length. apply le_le_enc. exact Ht.
  - rewrite skipn_app_len by apply le_enc_length. rewrite firstn_app_len by apply le_enc_length.
    apply le_le_enc. exact Hy.
  - rewrite app_assoc. rewrite skipn_app_len by (rewrite app_length, !le_enc_length; reflexivity).
    rewrite <- (app_nil_r (le_enc REC_OFF_BYTES o)). rewrite firstn_app_len by apply le_enc_length.
    apply le_le_enc. exact Ho.
Qed.

Lemma enc_records_cons r rs : enc_records (r :: rs) = enc_rentry r ++ enc_records rs.
Proof. reflexivity. Qed.

Lemma rec_size_14 : REC_SIZE = 14.
Proof. reflexivity. Qed.

Lemma div14_step m : (14 + m) / 14 = S (m / 14).
Proof. replace (14 + m) with (1 * 14 + m) by lia. rewrite Nat.div_add_l by lia. lia. Qed.

(* np.fromfile of a prefix of the written file: the whole records that fit *)
Theorem parse_records_prefix : forall rs k, Forall rentry_wf rs ->
  parse_records (firstn k (enc_records rs)) = firstn (k / REC_SIZE) rs.
Proof.
  rewrite rec_size_14.
  induction rs as [|r rs IH]; intros k Hwf.
  - cbn [enc_records map concat]. rewrite firstn_nil. unfold parse_records. cbn [length].
    rewrite rec_size_14. cbn. rewrite firstn_nil. reflexivity.
  - inversion Hwf as [|? ? Hr Hrs]; subst. rewrite enc_records_cons.
    destruct (Nat.lt_ge_cases k 14) as [Hk|Hk].
    + rewrite (Nat.div_small k 14) by exact Hk. cbn [firstn].
      unfold parse_records. rewrite firstn_length, app_length, enc_rentry_length, rec_size_14.
      replace (Nat.min k (14 + length (enc_records rs))) with k by lia.
      rewrite (Nat.div_small k 14) by exact Hk. reflexivity.
    + rewrite firstn_app, enc_rentry_length, rec_size_14.
      rewrite firstn_all2 by (rewrite enc_rentry_length, rec_size_14; lia).
      replace k with (14 + (k - 14)) at 2 by lia. rewrite div14_step. cbn [firstn].
      unfold parse_records. rewrite app_length, enc_rentry_length, rec_size_14, div14_step.
      cbn [parse_records_aux]. rewrite rec_size_14.
      pose proof (dec_enc_rentry r (firstn (k - 14) (enc_records rs)) Hr) as Hd. rewrite rec_size_14 in Hd.
      rewrite Hd. f_equal.
      rewrite skipn_app_len by (rewrite enc_rentry_length; reflexivity).
      specialize (IH (k - 14) Hrs). unfold parse_records in IH. rewrite rec_size_14 in IH. exact IH.
Qed.

Lemma enc_records_length rs : length (enc_records rs) = length rs * REC_SIZE.
Proof.
  induction rs as [|r rs IH]; [reflexivity|]. rewrite enc_records_cons, app_length, enc_rentry_length, IH. cbn [length]. lia.
Qed.

Corollary parse_records_all rs : Forall rentry_wf rs -> parse_records (enc_records rs) = rs.
Proof.
  intros H. rewrite <- (firstn_all (enc_records rs)). rewrite parse_records_prefix by exact H.
  apply firstn_all2. rewrite enc_records_length, Nat.div_mul by (rewrite rec_size_14; lia). lia.
Qed.

(* ---- raw <-> in-memory -------------------------------------------------------------------------------------- *)
Lemma time_invalid_val : TIME_INVALID = 4294967295%N.
Proof. reflexivity. Qed.

Lemma to_raw_from_raw r : (r_time r <= TIME_INVALID)%N -> to_raw (from_raw r) = r.
Proof.
  intros H. destruct r as [t y o]. unfold from_raw, to_raw. cbn [r_time r_type r_off i_time i_type i_off] in *.
  f_equal. destruct (N.eqb t TIME_INVALID) eqn:E.
  - apply N.eqb_eq in E. congruence.
  - apply N.eqb_neq in E. unfold clamp_u4. replace (N.leb TIME_INVALID t) with false; [reflexivity|].
    symmetry. apply N.leb_gt. lia.
Qed.

Lemma clamp_u4_le t : (clamp_u4 t <= TIME_INVALID)%N.
Proof. unfold clamp_u4. destruct (N.leb TIME_INVALID t) eqn:E; [lia|]. apply N.leb_gt in E. lia. Qed.

Section IO.
  Variable p1 : list N -> option N.

  Lemma indexer_raw_time_le o bs : (r_time (indexer_raw p1 o bs) <= TIME_INVALID)%N.
  Proof. unfold indexer_raw, indexer_time. cbn [r_time]. destruct (p1 bs); [apply clamp_u4_le|lia]. Qed.

  Lemma to_raw_fresh d : map to_raw (fresh p1 d) = fresh_raw p1 d.
  Proof.
    unfold fresh. rewrite map_map. rewrite <- (map_id (fresh_raw p1 d)) at 2. apply map_ext_in.
    intros r Hin. apply to_raw_from_raw. unfold fresh_raw in Hin. apply in_map_iff in Hin.
    destruct Hin as ([o bs] & <- & _). apply indexer_raw_time_le.
  Qed.

  Lemma from_raw_to_raw_fresh d : map from_raw (map to_raw (fresh p1 d)) = fresh p1 d.
  Proof. rewrite to_raw_fresh. reflexivity. Qed.

  (* type fields come from two file bytes *)
  Lemma le_sub_bound l a n : bytes_wf l -> (le (sub l a n) < 256 ^ N.of_nat n)%N.
  Proof.
    intros H. pose proof (le_bound (sub l a n) (bytes_wf_sub l a n H)) as B.
    eapply N.lt_le_trans; [exact B|]. apply N.pow_le_mono_r; [lia|].
    unfold sub. rewrite firstn_length. lia.
  Qed.

  Lemma frame_type_bound bs : bytes_wf bs -> (frame_type bs < 2 ^ 16)%N.
  Proof.
    intros H. unfold frame_type, parse_header. cbn [h_type].
    apply (le_sub_bound _ 10 2). apply Forall_firstn. exact H.
  Qed.

  Definition file_ok (d : list N) : Prop := bytes_wf d /\ (N.of_nat (length d) < 2 ^ 64)%N.

  Lemma frame_in_file d o bs : In (o, bs) (file_frames d) ->
    0 < length bs /\ o + length bs <= length d /\ bs = firstn (length bs) (skipn o d) /\
    judge_file (skipn o d) = Scan.Accept (length bs).
  Proof.
    intros Hin. pose proof (file_frames_ok d) as Hok.
    destruct (frames_ok_in _ _ _ _ _ _ _ Hok Hin) as (_ & _ & HJ & Hbs).
    destruct (frames_ok_bound _ judge_file_ok _ _ _ _ _ _ Hok Hin) as (Hp & Hb).
    rewrite Nat.sub_0_r in *. auto.
  Qed.

  Lemma fresh_raw_wf d : file_ok d -> Forall rentry_wf (fresh_raw p1 d).
  Proof.
    intros (Hwf & Hsz). unfold fresh_raw. apply Forall_forall. intros r Hin. apply in_map_iff in Hin.
    destruct Hin as ([o bs] & <- & Hin). cbn [fst snd].
    destruct (frame_in_file d o bs Hin) as (Hp & Hb & Hbs & _).
    unfold rentry_wf, indexer_raw. cbn [r_time r_type r_off]. repeat split.
    - pose proof (indexer_raw_time_le o bs) as H. unfold indexer_raw in H. cbn [r_time] in H.
      rewrite time_invalid_val in H. lia.
    - apply frame_type_bound. rewrite Hbs. apply Forall_firstn, Forall_skipn. exact Hwf.
    - lia.
  Qed.

  (* ---- the saved file --------------------------------------------------------------------------------- *)
  (* entries written for a log d (in-memory form): the fresh index plus the marker unless the last entry has
     the marker's type *)
  Definition saved_entries (d : list N) : list ientry :=
    match last_opt (fresh p1 d) with
    | None => []
    | Some e => if is_invalid_type e then fresh p1 d else fresh p1 d ++ [eof_marker (N.of_nat (length d))]
    end.

  Lemma save_fresh d : save (fresh p1 d) (N.of_nat (length d)) =
    match fresh p1 d with [] => None | _ => Some (enc_records (map to_raw (saved_entries d))) end.
  Proof.
    unfold save, saved_entries. destruct (last_opt (fresh p1 d)) as [e|] eqn:E.
    - destruct (fresh p1 d); [discriminate|]. reflexivity.
    - apply last_opt_None in E. rewrite E. reflexivity.
  Qed.

  Lemma marker_raw_wf d : file_ok d -> rentry_wf (to_raw (eof_marker (N.of_nat (length d)))).
  Proof. intros (_ & H). unfold rentry_wf, to_raw, eof_marker. cbn. repeat split; try exact H; reflexivity. Qed.

  Lemma saved_raw_wf d : file_ok d -> Forall rentry_wf (map to_raw (saved_entries d)).
  Proof.
    intros H. unfold saved_entries. destruct (last_opt (fresh p1 d)) as [e|]; [|constructor].
    destruct (is_invalid_type e).
    - rewrite to_raw_fresh. apply fresh_raw_wf. exact H.
    - rewrite map_app, to_raw_fresh. apply Forall_app. split; [apply fresh_raw_wf; exact H|].
      constructor; [apply marker_raw_wf; exact H|constructor].
  Qed.

  Lemma from_raw_saved d : map from_raw (map to_raw (saved_entries d)) = saved_entries d.
  Proof.
    unfold saved_entries. destruct (last_opt (fresh p1 d)) as [e|]; [|reflexivity].
    destruct (is_invalid_type e); [apply from_raw_to_raw_fresh|].
    rewrite !map_app, from_raw_to_raw_fresh. reflexivity.
  Qed.

  (* what the loader sees after the index file was cut to k bytes *)
  Lemma loaded_data d k : file_ok d ->
    map from_raw (parse_records (firstn k (enc_records (map to_raw (saved_entries d))))) =
    firstn (k / REC_SIZE) (saved_entries d).
  Proof.
    intros H. rewrite parse_records_prefix by (apply saved_raw_wf; exact H).
    rewrite <- firstn_map, from_raw_saved. reflexivity.
  Qed.

  (* ---- the loader on in-memory data ----------------------------------------------------------------------- *)
  Definition load_data (data : list ientry) (d : list N) : outcome :=
    let size := N.of_nat (length d) in
    if N.eqb size 0 && negb (is_nil data) then Rebuild true
    else if negb (N.eqb size 0) && is_nil data then Rebuild true
    else match last_opt data with
    | None => Accepted []
    | Some e =>
        if is_invalid_type e then
          if N.eqb size (i_off e) then Accepted (removelast data) else Rebuild true
        else
          if N.ltb size (i_off e + N.of_nat HEADER_SIZE) then Rebuild true
          else
            let expected := (i_off e + N.of_nat HEADER_SIZE + header_psize_at d (N.to_nat (i_off e)))%N in
            if negb (N.eqb expected size) then Rebuild true else Accepted data
    end.

  Lemma load_is_load_data idx d : load idx d = load_data (map from_raw (parse_records idx)) d.
  Proof. reflexivity. Qed.

  Theorem load_total idx d : load idx d <> Crash.
  Proof.
    rewrite load_is_load_data. unfold load_data.
    repeat match goal with |- context [if ?c then _ else _] => destruct c end; try discriminate.
    destruct (last_opt _); [|discriminate].
    repeat match goal with |- context [if ?c then _ else _] => destruct c end; discriminate.
  Qed.

  Lemma fresh_nil : fresh p1 [] = [].
  Proof. unfold fresh, fresh_raw, file_frames. rewrite fscan_nil by exact judge_file_ok. reflexivity. Qed.

  (* ---- frames: order and cuts -------------------------------------------------------------------------------- *)
  Definition f_end (f : nat * list N) : nat := fst f + length (snd f).

  Lemma frames_ok_all_ge base stream : forall fs lo,
    frames_ok judge_file base stream lo fs -> Forall (fun f => lo <= fst f) fs.
  Proof.
    induction fs as [|[o bs] rest IH]; intros lo H; [constructor|].
    cbn [frames_ok] in H. destruct H as (H1 & H2 & H3 & H4 & H5). constructor; [exact H1|].
    specialize (IH _ H5). eapply Forall_impl; [|exact IH]. cbn. intros f Hf. lia.
  Qed.

  Lemma frames_ok_split base stream : forall fs1 lo o bs fs2,
    frames_ok judge_file base stream lo (fs1 ++ (o, bs) :: fs2) ->
    Forall (fun f => f_end f <= o) fs1 /\ Forall (fun f => o + length bs <= fst f) fs2.
  Proof.
    induction fs1 as [|[o1 b1] fs1 IH]; intros lo o bs fs2 H.
    - cbn [app frames_ok] in H. destruct H as (_ & _ & _ & _ & H5). split; [constructor|].
      apply (frames_ok_all_ge _ _ _ _ H5).
    - cbn [app frames_ok] in H. destruct H as (H1 & H2 & H3 & H4 & H5).
      destruct (IH _ _ _ _ H5) as (A & Bq). split; [|exact Bq]. constructor; [|exact A].
      pose proof (frames_ok_all_ge _ _ _ _ H5) as G. rewrite Forall_app in G. destruct G as (_ & G).
      inversion G; subst. unfold f_end. cbn [fst snd] in *. lia.
  Qed.

  Lemma split_unique {A} (P Q : A -> Prop) : (forall x, P x -> Q x -> False) ->
    forall a1 a2 b1 b2, Forall P a1 -> Forall Q a2 -> Forall P b1 -> Forall Q b2 ->
    a1 ++ a2 = b1 ++ b2 -> a1 = b1.
  Proof.
    intros HPQ. induction a1 as [|x a1 IH]; intros a2 b1 b2 Pa Qa Pb Qb E.
    - destruct b1 as [|y b1]; [reflexivity|]. cbn [app] in E. subst a2.
      inversion Qa; subst. inversion Pb; subst. exfalso. eauto.
    - destruct b1 as [|y b1].
      + cbn [app] in E. subst b2. inversion Qb; subst. inversion Pa; subst. exfalso. eauto.
      + cbn [app] in E. injection E as Exy E. subst y. f_equal.
        inversion Pa as [|? ? _ Pa']; inversion Pb as [|? ? _ Pb']; subst.
        exact (IH a2 b1 b2 Pa' Qa Pb' Qb E).
  Qed.

  (* cutting the file at a position no frame straddles keeps exactly the frames before the cut *)
  Lemma frames_of_clean_cut d c fs1 fs2 :
    file_frames d = fs1 ++ fs2 -> c <= length d ->
    Forall (fun f => f_end f <= c) fs1 -> Forall (fun f => c <= fst f) fs2 ->
    file_frames (firstn c d) = fs1.
  Proof.
    intros E Hc H1 H2.
    assert (Hlen : length (firstn c d) = c) by (apply firstn_length_le; exact Hc).
    assert (Hcut : file_frames d = file_frames (firstn c d) ++ fscan judge_file c (skipn c d)).
    { unfold file_frames. rewrite <- (firstn_skipn c d) at 1.
      rewrite (fscan_cut _ judge_file_ok judge_file_local 0 (firstn c d) (skipn c d)).
      - rewrite Hlen. reflexivity.
      - rewrite firstn_skipn, Hlen. cbn [Nat.add]. intros o bs Hin. fold (file_frames d) in Hin. rewrite E in Hin.
        apply in_app_or in Hin. destruct Hin as [Hin|Hin].
        + left. rewrite Forall_forall in H1. apply (H1 _ Hin).
        + right. rewrite Forall_forall in H2. apply (H2 _ Hin). }
    rewrite E in Hcut.
    eapply (split_unique (fun f => f_end f <= c) (fun f => c <= fst f /\ 0 < length (snd f))).
    - intros [o bs]. unfold f_end. cbn [fst snd]. lia.
    - (* frames of the prefix end inside it *)
      apply Forall_forall. intros [o bs] Hin. destruct (frame_in_file _ _ _ Hin) as (_ & Hb & _).
      rewrite Hlen in Hb. exact Hb.
    - apply Forall_forall. intros [o bs] Hin. cbn [fst snd]. split.
      + eapply fscan_offsets_ge; [exact judge_file_ok|exact Hin].
      + assert (Hi : In (o, bs) (file_frames d)) by (rewrite E, Hcut; apply in_or_app; right; exact Hin).
        apply (frame_in_file _ _ _ Hi).
    - exact H1.
    - apply Forall_forall. intros [o bs] Hin. cbn [fst snd]. split.
      + rewrite Forall_forall in H2. apply (H2 _ Hin).
      + assert (Hi : In (o, bs) (file_frames d)) by (rewrite E; apply in_or_app; right; exact Hin).
        apply (frame_in_file _ _ _ Hi).
    - symmetry. exact Hcut.
  Qed.

  Definition entry_of_frame (f : nat * list N) : ientry := from_raw (indexer_raw p1 (fst f) (snd f)).

  Lemma fresh_as_map d : fresh p1 d = map entry_of_frame (file_frames d).
  Proof. unfold fresh, fresh_raw. rewrite map_map. reflexivity. Qed.

  Lemma entry_off f : i_off (entry_of_frame f) = N.of_nat (fst f).
  Proof. reflexivity. Qed.
  Lemma entry_type f : i_type (entry_of_frame f) = frame_type (snd f).
  Proof. reflexivity. Qed.

  (* the header the loader re-reads at the offset of an indexed message gives that message's size, in any
     data file that agrees with the indexed one on those 24 bytes *)
  Lemma header_psize_frame d d' o bs :
    In (o, bs) (file_frames d) -> sub d' o HEADER_SIZE = sub d o HEADER_SIZE ->
    (N.of_nat HEADER_SIZE + header_psize_at d' o = N.of_nat (length bs))%N.
  Proof.
    intros Hin Hsub. destruct (frame_in_file _ _ _ Hin) as (_ & _ & _ & HJ).
    apply judge_fe_accept_inv in HJ. cbn zeta in HJ. destruct HJ as (_ & _ & _ & _ & _ & Hn & _ & _).
    unfold header_psize_at. rewrite Hsub. unfold sub. rewrite Hn. lia.
  Qed.

  (* ---- the main case analysis: a prefix of the entries of d against a related data file d' ---------------- *)
  Definition related (d d' : list N) : Prop := (exists c, d' = firstn c d) \/ (exists x, d' = d ++ x).

  Lemma related_same_header d d' o : related d d' -> o + HEADER_SIZE <= length d' -> o + HEADER_SIZE <= length d ->
    sub d' o HEADER_SIZE = sub d o HEADER_SIZE.
  Proof.
    intros [[c ->]|[x ->]] H' H.
    - rewrite firstn_length in H'. apply sub_firstn. lia.
    - apply sub_app_l. exact H.
  Qed.

  (* if the related file has exactly the size of a clean cut c <= |d| of d, it IS that cut *)
  Lemma related_size d d' c : related d d' -> length d' = c -> c <= length d -> d' = firstn c d.
  Proof.
    intros [[c' ->]|[x ->]] Hl Hc.
    - rewrite firstn_length in Hl. destruct (Nat.le_ge_cases c' (length d)).
      + f_equal. lia.
      + rewrite !firstn_all2 by lia. reflexivity.
    - rewrite app_length in Hl. assert (length x = 0) by lia. destruct x; [|discriminate].
      rewrite app_nil_r, firstn_all2 by lia. reflexivity.
  Qed.

  Lemma load_data_frames_prefix d d' fs1 f fs2 :
    file_frames d = fs1 ++ f :: fs2 -> related d d' -> file_ok d ->
    forall i, load_data (map entry_of_frame (fs1 ++ [f])) d' = Accepted i -> i = fresh p1 d'.
  Proof.
    intros E Hrel Hok i. destruct f as [o bs].
    assert (Hin : In (o, bs) (file_frames d)) by (rewrite E; apply in_or_app; right; left; reflexivity).
    destruct (frame_in_file _ _ _ Hin) as (Hpos & Hb & _ & _).
    pose proof (file_frames_ok d) as Hfo. rewrite E in Hfo.
    destruct (frames_ok_split _ _ _ _ _ _ _ Hfo) as (Hbefore & Hafter).
    unfold load_data. rewrite map_app. cbn [map]. rewrite last_opt_app.
    destruct (N.eqb (N.of_nat (length d')) 0 && negb (is_nil (map entry_of_frame fs1 ++ [entry_of_frame (o, bs)]))); [discriminate|].
    destruct (negb (N.eqb (N.of_nat (length d')) 0) && is_nil (map entry_of_frame fs1 ++ [entry_of_frame (o, bs)])); [discriminate|].
    rewrite entry_off. cbn [fst].
    destruct (is_invalid_type (entry_of_frame (o, bs))).
    - (* looks like a marker: accepted only if the data ends where this message starts *)
      destruct (N.eqb (N.of_nat (length d')) (N.of_nat o)) eqn:Es; [|discriminate].
      apply N.eqb_eq in Es. apply Nat2N.inj in Es.
      intros H. injection H as <-. rewrite removelast_app1.
      rewrite (related_size d d' o Hrel Es) by lia. rewrite fresh_as_map. f_equal. symmetry.
      apply (frames_of_clean_cut d o fs1 ((o, bs) :: fs2)); [exact E|lia|exact Hbefore|].
      constructor; [cbn; lia|]. eapply Forall_impl; [|exact Hafter]. cbn. intros; lia.
    - destruct (N.ltb (N.of_nat (length d')) (N.of_nat o + N.of_nat HEADER_SIZE)) eqn:El; [discriminate|].
      apply N.ltb_ge in El.
      assert (Hh : o + HEADER_SIZE <= length d') by lia.
      assert (Hbs24 : HEADER_SIZE <= length bs).
      { destruct (frame_in_file _ _ _ Hin) as (_ & _ & _ & HJ). apply judge_fe_accept_inv in HJ. cbn zeta in HJ.
        destruct HJ as (_ & _ & _ & _ & _ & Hn & _ & _). lia. }
      rewrite Nat2N.id.
      pose proof (header_psize_frame d d' o bs Hin (related_same_header d d' o Hrel Hh ltac:(lia))) as Hps.
      destruct (N.eqb (N.of_nat o + N.of_nat HEADER_SIZE + header_psize_at d' o) (N.of_nat (length d'))) eqn:Ee; [|discriminate].
      apply N.eqb_eq in Ee. cbn [negb].
      assert (Es : length d' = o + length bs) by lia.
      intros H. injection H as <-.
      rewrite (related_size d d' (o + length bs) Hrel Es) by lia. rewrite fresh_as_map.
      change [entry_of_frame (o, bs)] with (map entry_of_frame [(o, bs)]). rewrite <- map_app. f_equal. symmetry.
      apply (frames_of_clean_cut d (o + length bs) (fs1 ++ [(o, bs)]) fs2).
      + rewrite <- app_assoc. exact E.
      + lia.
      + apply Forall_app. split; [|constructor; [unfold f_end; cbn; lia|constructor]].
        eapply Forall_impl; [|exact Hbefore]. cbn. intros; lia.
      + exact Hafter.
  Qed.

  Lemma firstn_snoc {A} : forall (l : list A) m, 0 < m <= length l ->
    exists l1 x l2, l = l1 ++ x :: l2 /\ firstn m l = l1 ++ [x].
  Proof.
    intros l m (H0 & Hm). destruct m as [|m]; [lia|].
    destruct (nth_error l m) as [x|] eqn:Ex; [|apply nth_error_None in Ex; lia].
    apply nth_error_split in Ex. destruct Ex as (l1 & l2 & -> & <-).
    exists l1, x, l2. split; [reflexivity|].
    rewrite firstn_app. replace (S (length l1) - length l1) with 1 by lia.
    rewrite firstn_all2 by lia. reflexivity.
  Qed.

  (* the whole statement on entries *)
  Theorem load_data_sound d d' m : file_ok d -> related d d' ->
    forall i, load_data (firstn m (saved_entries d)) d' = Accepted i -> i = fresh p1 d'.
  Proof.
    intros Hok Hrel i.
    assert (Hempty : forall i, load_data [] d' = Accepted i -> i = fresh p1 d').
    { intros i0. unfold load_data. cbn [is_nil negb last_opt]. rewrite andb_false_r, andb_true_r.
      destruct (N.eqb (N.of_nat (length d')) 0) eqn:E0; [|discriminate]. cbn [negb].
      apply N.eqb_eq in E0. assert (Hz : length d' = 0) by lia. apply length_zero_iff_nil in Hz. rewrite Hz.
      intros Hacc. injection Hacc as <-. symmetry. apply fresh_nil. }
    destruct m as [|m]; [exact (Hempty i)|].
    unfold saved_entries. destruct (last_opt (fresh p1 d)) as [e|] eqn:El.
    2:{ rewrite firstn_nil. exact (Hempty i). }
    set (n := length (fresh p1 d)).
    assert (Hfn : length (file_frames d) = n) by (unfold n; rewrite fresh_as_map, map_length; reflexivity).
    (* a prefix that stays within the real entries *)
    assert (Hreal : forall m', 0 < m' <= n -> forall i, load_data (firstn m' (fresh p1 d)) d' = Accepted i -> i = fresh p1 d').
    { intros m' Hm' i0. rewrite fresh_as_map, firstn_map.
      destruct (firstn_snoc (file_frames d) m' ltac:(lia)) as (fs1 & f & fs2 & E & ->).
      apply (load_data_frames_prefix d d' fs1 f fs2 E Hrel Hok). }
    destruct (is_invalid_type e) eqn:Ei.
    - (* no marker was written *)
      destruct (Nat.le_gt_cases (S m) n) as [Hle|Hgt]; [apply Hreal; lia|].
      rewrite firstn_all2 by (fold n; lia). rewrite <- (firstn_all (fresh p1 d)). fold n. apply Hreal.
      assert (n <> 0) by (unfold n; intros Hz; apply length_zero_iff_nil in Hz; rewrite Hz in El; discriminate). lia.
    - destruct (Nat.le_gt_cases (S m) n) as [Hle|Hgt].
      + rewrite firstn_app. replace (S m - length (fresh p1 d)) with 0 by (fold n; lia).
        rewrite firstn_O, app_nil_r. apply Hreal. lia.
      + (* the marker survived: size comparison *)
        rewrite firstn_all2 by (rewrite app_length; cbn [length]; fold n; lia).
        unfold load_data. rewrite last_opt_app.
        destruct (N.eqb (N.of_nat (length d')) 0 && negb (is_nil (fresh p1 d ++ [eof_marker (N.of_nat (length d))]))); [discriminate|].
        destruct (negb (N.eqb (N.of_nat (length d')) 0) && is_nil (fresh p1 d ++ [eof_marker (N.of_nat (length d))])); [discriminate|].
        unfold is_invalid_type, eof_marker; cbn [i_type i_off]. rewrite N.eqb_refl.
        destruct (N.eqb (N.of_nat (length d')) (N.of_nat (length d))) eqn:Es; [|discriminate].
        apply N.eqb_eq in Es. apply Nat2N.inj in Es.
        intros H. injection H as <-. rewrite removelast_app1.
        rewrite (related_size d d' (length d) Hrel Es) by lia. rewrite firstn_all. reflexivity.
  Qed.

  (* ---- theorems on files ------------------------------------------------------------------------------------ *)
  Definition saved (d : list N) : option (list N) := save (fresh p1 d) (N.of_nat (length d)).

  Theorem load_sound d s k d' : file_ok d -> saved d = Some s -> related d d' ->
    forall i, load (firstn k s) d' = Accepted i -> i = fresh p1 d'.
  Proof.
    intros Hok Hs Hrel i. unfold saved in Hs. rewrite save_fresh in Hs.
    destruct (fresh p1 d) eqn:Ef; [discriminate|]. injection Hs as <-.
    rewrite load_is_load_data, loaded_data by exact Hok. apply load_data_sound; assumption.
  Qed.

  Lemma related_refl d : related d d.
  Proof. right. exists []. symmetry. apply app_nil_r. Qed.

  (* every crash point of the save: the cut index is rejected or loads to the fresh index *)
  Theorem truncated_index_safe d s k : file_ok d -> saved d = Some s ->
    load (firstn k s) d = Accepted (fresh p1 d) \/ exists del, load (firstn k s) d = Rebuild del.
  Proof.
    intros Hok Hs. destruct (load (firstn k s) d) as [i|del|] eqn:El.
    - left. f_equal. eapply load_sound; [exact Hok|exact Hs|apply related_refl|exact El].
    - right. exists del. reflexivity.
    - exfalso. exact (load_total _ _ El).
  Qed.

  Definition last_type_valid (d : list N) : Prop :=
    exists e, last_opt (fresh p1 d) = Some e /\ is_invalid_type e = false.

  Theorem saved_then_loaded d s : file_ok d -> saved d = Some s -> last_type_valid d ->
    load s d = Accepted (fresh p1 d).
  Proof.
    intros Hok Hs (e & He & Hv). unfold saved in Hs. rewrite save_fresh in Hs.
    destruct (fresh p1 d) eqn:Ef; [discriminate|]. injection Hs as <-. rewrite <- Ef in *.
    rewrite load_is_load_data. rewrite <- (firstn_all (enc_records _)), loaded_data by exact Hok.
    assert (Hse : saved_entries d = fresh p1 d ++ [eof_marker (N.of_nat (length d))]).
    { unfold saved_entries. rewrite He, Hv. reflexivity. }
    rewrite firstn_all2 by (rewrite enc_records_length, map_length, Nat.div_mul by (rewrite rec_size_14; lia); lia).
    rewrite Hse. unfold load_data. rewrite last_opt_app.
    assert (Hne : length d <> 0).
    { intros Hz. apply length_zero_iff_nil in Hz. rewrite Hz, fresh_nil in He. discriminate. }
    replace (N.eqb (N.of_nat (length d)) 0) with false by (symmetry; apply N.eqb_neq; lia).
    cbn [andb negb]. assert (Hnil : is_nil (fresh p1 d ++ [eof_marker (N.of_nat (length d))]) = false) by (destruct (fresh p1 d); reflexivity).
    rewrite Hnil. unfold is_invalid_type, eof_marker; cbn [i_type i_off]. rewrite !N.eqb_refl.
    rewrite removelast_app1. reflexivity.
  Qed.

  (* any data file of another size is rejected through the marker *)
  Theorem stale_size_rejected d s d' : file_ok d -> saved d = Some s -> last_type_valid d ->
    length d' <> length d -> load s d' = Rebuild true.
  Proof.
    intros Hok Hs (e & He & Hv) Hne. unfold saved in Hs. rewrite save_fresh in Hs.
    destruct (fresh p1 d) eqn:Ef; [discriminate|]. injection Hs as <-. rewrite <- Ef in *.
    rewrite load_is_load_data, parse_records_all by (apply saved_raw_wf; exact Hok). rewrite from_raw_saved.
    assert (Hse : saved_entries d = fresh p1 d ++ [eof_marker (N.of_nat (length d))]).
    { unfold saved_entries. rewrite He, Hv. reflexivity. }
    rewrite Hse. unfold load_data. rewrite last_opt_app.
    assert (Hnil : is_nil (fresh p1 d ++ [eof_marker (N.of_nat (length d))]) = false) by (destruct (fresh p1 d); reflexivity).
    rewrite Hnil. cbn [negb]. rewrite andb_false_r, andb_true_r.
    destruct (N.eqb (N.of_nat (length d')) 0); [reflexivity|].
    unfold is_invalid_type, eof_marker; cbn [i_type i_off]. rewrite N.eqb_refl.
    replace (N.eqb (N.of_nat (length d')) (N.of_nat (length d))) with false; [reflexivity|].
    symmetry. apply N.eqb_neq. lia.
  Qed.

  (* ---- opening a log --------------------------------------------------------------------------------------- *)
  (* an index file that may lie next to the data file d': none, or any prefix (crash point of the save) of the
     index saved for a data file d of which d' is a prefix or an extension *)
  Definition plausible_index (p1i : option (list N)) (d' : list N) : Prop :=
    match p1i with
    | None => True
    | Some idx => exists d s k, file_ok d /\ saved d = Some s /\ related d d' /\ idx = firstn k s
    end.

  Theorem open_is_fresh p1i d' ig : plausible_index p1i d' ->
    exists o, open_log p1 load p1i d' ig = Opened o /\ o_msgs o = file_frames d' /\
              (o_p1i o = p1i \/ o_p1i o = saved d' \/ (o_p1i o = None /\ file_frames d' = [])).
  Proof.
    intros Hp. unfold open_log.
    assert (Hregen : forall cur, o_msgs (regenerate p1 d' cur) = file_frames d' /\
                                 (o_p1i (regenerate p1 d' cur) = saved d' \/ (o_p1i (regenerate p1 d' cur) = cur /\ file_frames d' = []))).
    { intros cur. unfold regenerate. cbn [o_msgs o_p1i]. split; [apply read_fresh_is_scan|].
      fold (saved d'). destruct (saved d') eqn:Es; [left; reflexivity|right]. split; [reflexivity|].
      unfold saved in Es. rewrite save_fresh in Es. destruct (fresh p1 d') eqn:Ef; [|discriminate].
      rewrite fresh_as_map in Ef. destruct (file_frames d'); [reflexivity|discriminate]. }
    destruct (if ig then None else p1i) as [idx|] eqn:Ei.
    - assert (p1i = Some idx) by (destruct ig; [discriminate|exact Ei]). subst p1i.
      destruct Hp as (d & s & k & Hok & Hs & Hrel & ->).
      destruct (load (firstn k s) d') as [i| del|] eqn:El.
      + apply (load_sound d s k d' Hok Hs Hrel) in El. subst i.
        eexists. split; [reflexivity|]. cbn [o_msgs o_p1i]. split; [apply read_fresh_is_scan|left; reflexivity].
      + eexists. split; [reflexivity|]. destruct (Hregen (if del then None else Some (firstn k s))) as (A & [Bq|(Bq & C)]).
        * split; [exact A|right; left; exact Bq].
        * split; [exact A|]. destruct del; [right; right; split; assumption|left; exact Bq].
      + exfalso. exact (load_total _ _ El).
    - eexists. split; [reflexivity|]. destruct (Hregen p1i) as (A & [Bq|(Bq & C)]).
      + split; [exact A|right; left; exact Bq].
      + split; [exact A|left; exact Bq].
  Qed.

  (* a limited open returns the messages that end within the limit and never writes an index (it may only delete a
     stale one); a limit that covers the file is an ordinary open *)
  Theorem open_max_safe p1i d' ig n : plausible_index p1i d' ->
    exists o, open_log_max p1 load p1i d' ig n = Opened o /\
              (length d' <= n -> open_log_max p1 load p1i d' ig n = open_log p1 load p1i d' ig) /\
              (n < length d' -> o_msgs o = take_within n (file_frames d') /\ (o_p1i o = p1i \/ o_p1i o = None)).
  Proof.
    intros Hp. unfold open_log_max. destruct (Nat.leb (length d') n) eqn:El.
    - apply Nat.leb_le in El. destruct (open_is_fresh p1i d' ig Hp) as (o & Ho & _).
      exists o. split; [exact Ho|]. split; [reflexivity|lia].
    - apply Nat.leb_gt in El.
      destruct (if ig then None else p1i) as [idx|] eqn:Ei.
      + assert (p1i = Some idx) by (destruct ig; [discriminate|exact Ei]). subst p1i.
        destruct Hp as (d & s & k & Hok & Hs & Hrel & ->).
        destruct (load (firstn k s) d') as [i|del|] eqn:Eo.
        * apply (load_sound d s k d' Hok Hs Hrel) in Eo. subst i.
          eexists. split; [reflexivity|]. split; [lia|]. intros _. cbn [o_msgs o_p1i].
          rewrite read_fresh_is_scan. split; [reflexivity|left; reflexivity].
        * eexists. split; [reflexivity|]. split; [lia|]. intros _. cbn [o_msgs o_p1i].
          rewrite read_fresh_is_scan. split; [reflexivity|]. destruct del; [right|left]; reflexivity.
        * exfalso. exact (load_total _ _ Eo).
      + eexists. split; [reflexivity|]. split; [lia|]. intros _. cbn [o_msgs o_p1i].
        rewrite read_fresh_is_scan. split; [reflexivity|left; reflexivity].
  Qed.
End IO.

(* the loader before the repairs *)
Lemma load_legacy_crashes : load_legacy [0%N] [] = Crash.
Proof. vm_compute. reflexivity. Qed.
