(* C14: RTCMFramer::OnByte() meets the per-byte contract of Proofs/FramerCoreP.v with respect to
   judge_rtcm, hence OnData()/Resync() refine the left-to-right scan; history-level theorems. *)
From Coq Require Import NArith ZArith List Bool Arith Lia ZifyBool ZifyNat ZifyN.
From FEC Require Import Generated.RtcmConsts Generated.Crc24qTable Base.ListX Base.Bytes Base.Scan
  Models.FramerCoreM Models.FramerSpecM Models.RtcmFormatM Models.RtcmFramerM
  Proofs.RtcmFormatP Proofs.FramerCoreP.
Import ListNotations.
Open Scope N_scope.

(* The constants regenerated from rtcm_framer.cc are the ones of the RTCM 3 transport layer the SPEC is written
   with; if the source changes one of them this stops checking. *)
Lemma rtcm_consts_agree :
  RTCM_PREAMBLE = SPEC_PREAMBLE /\ RTCM_HEADER_BYTES = SPEC_HEADER_BYTES /\ RTCM_CRC_BYTES = SPEC_CRC_BYTES /\
  RTCM_MAX_PAYLOAD = SPEC_MAX_PAYLOAD /\ RTCM_LEN_MASK = SPEC_LEN_MASK /\ RTCM_TYPE_SHIFT = SPEC_TYPE_SHIFT /\
  RTCM_CRC_INIT = 0 /\ RTCM_CRC_MASK = 16777215 /\ RTCM_CLAMP = 2147483647 /\ RTCM_ALIGN_MASK = 3.
Proof. repeat split; reflexivity. Qed.

Ltac spec_consts :=
  change SPEC_PREAMBLE with RTCM_PREAMBLE in *; change SPEC_HEADER_BYTES with RTCM_HEADER_BYTES in *;
  change SPEC_CRC_BYTES with RTCM_CRC_BYTES in *; change SPEC_MAX_PAYLOAD with RTCM_MAX_PAYLOAD in *;
  change SPEC_LEN_MASK with RTCM_LEN_MASK in *; change SPEC_TYPE_SHIFT with RTCM_TYPE_SHIFT in *.

Definition rtcm_min_ok (cap x : N) : Prop := x = cap /\ 3 <= cap.
Notation rwfc cap := (wfc rstate rx (rtcm_min_ok cap)).

Definition rtcm_ev (bytes : list N) : event := (rtcm_msg_number bytes, bytes).

(* what the parser state means while r is the undecided residual of the scan *)
Definition rtcm_inv (cap : N) (c : rcore) (r : list N) : Prop :=
  c_next c = N.of_nat (length r) /\ firstn (length r) (c_buf c) = r /\ judge_rtcm cap r = More /\ bytes_lt256 r /\
  match c_state c with
  | RS_SYNC => r = []
  | RS_HEADER => (1 <= length r < 3)%nat
  | RS_DATA => (3 <= length r)%nat /\ c_size c = rtcm_len (nth 1 r 0) (nth 2 r 0) + 6 /\
               N.of_nat (length r) < c_size c /\ c_size c <= cap
  end.

Lemma rtcm_len_le b1 b2 : rtcm_len b1 b2 <= 1023.
Proof.
  unfold rtcm_len. change SPEC_LEN_MASK with (N.ones 10). rewrite N.land_ones.
  pose proof (N.mod_lt (N.lor (N.shiftl b1 8) b2) (2 ^ 10)). lia.
Qed.

Lemma R_nonsync cap b t : b <> RTCM_PREAMBLE -> judge_rtcm cap (b :: t) = Reject.
Proof. intros H. unfold judge_rtcm; spec_consts. destruct (N.eqb_spec b RTCM_PREAMBLE); [contradiction|reflexivity]. Qed.

Lemma judge_more_head cap b t : judge_rtcm cap (b :: t) = More -> b = RTCM_PREAMBLE.
Proof. unfold judge_rtcm; spec_consts. destruct (N.eqb_spec b RTCM_PREAMBLE); [auto|discriminate]. Qed.

Lemma R_inv_nil cap c : rwfc cap c -> r_is_sync (c_state c) = true -> c_next c = 0 -> rtcm_inv cap c [].
Proof.
  intros _ Hs Hn. unfold rtcm_inv. cbn [length firstn]. repeat split; try assumption; try constructor.
  destruct (c_state c); [reflexivity|discriminate|discriminate].
Qed.

Lemma R_inv_facts cap c r : rwfc cap c -> rtcm_inv cap c r ->
  c_next c = N.of_nat (length r) /\ firstn (length r) (c_buf c) = r /\ judge_rtcm cap r = More /\
  (length r < length (c_buf c))%nat /\ bytes_lt256 r /\ (r_is_sync (c_state c) = true <-> r = []).
Proof.
  intros (W1 & W2 & W3 & W4) (H1 & H2 & H3 & H4 & H5). unfold blen in W1.
  repeat split; try assumption.
  - destruct (c_state c); [subst r; cbn; lia|lia|lia].
  - destruct (c_state c); cbn; [auto|discriminate|discriminate].
  - intros ->. destruct (c_state c); cbn in *; [reflexivity|lia|lia].
Qed.

Lemma R_frame cap (c : rcore) r buf' : rtcm_inv cap c r -> firstn (length r) buf' = r ->
  length buf' = length (c_buf c) -> rtcm_inv cap (set_buf c buf') r.
Proof. intros (H1 & H2 & H3 & H4 & H5) E _. unfold rtcm_inv. cbn. repeat split; assumption. Qed.

(* ---- reading the buffer when it is known to start with r ++ [b] ---- *)



Lemma swap16_mask x : N.land (x mod 65536) RTCM_LEN_MASK = N.land x RTCM_LEN_MASK.
Proof.
  change 65536 with (2 ^ 16). rewrite <- N.land_ones, <- N.land_assoc. reflexivity.
Qed.

Lemma byte_pair_lt b1 b2 : b1 < 256 -> b2 < 256 -> N.lor (N.shiftl b1 8) b2 < 65536.
Proof.
  intros H1 H2. change 65536 with (2 ^ 16). apply lt_pow2_bits'. intros k Hk.
  rewrite N.lor_spec, N.shiftl_spec_high' by lia.
  rewrite (proj1 (lt_pow2_bits' b1 8) H1) by lia. rewrite (proj1 (lt_pow2_bits' b2 8) H2) by lia. reflexivity.
Qed.

Lemma be3 x y z : be [x; y; z] = N.lor (N.lor (N.shiftl x 16) (N.shiftl y 8)) z.
Proof. cbn [be length N.of_nat N.mul]. rewrite N.shiftl_0_r, N.lor_0_r, N.lor_assoc. reflexivity. Qed.

Lemma split_last2 (r : list N) : (2 <= length r)%nat -> exists r1 x y, r = r1 ++ [x; y].
Proof.
  intros H. exists (firstn (length r - 2) r).
  pose proof (firstn_skipn (length r - 2) r) as E.
  assert (L : length (skipn (length r - 2) r) = 2%nat) by (rewrite skipn_length; lia).
  destruct (skipn (length r - 2) r) as [|x [|y [|z t]]]; cbn in L; try lia.
  exists x, y. symmetry. exact E.
Qed.


Lemma judge_rtcm_long cap b0 l' : (3 <= length (b0 :: l'))%nat -> b0 = RTCM_PREAMBLE ->
  judge_rtcm cap (b0 :: l') =
    (let l := b0 :: l' in
     let size := Nat.add (N.to_nat (rtcm_len (nth 1 l 0) (nth 2 l 0))) 6 in
     if (cap <? N.of_nat size) || (1029 <? N.of_nat size) then Reject else
     if Nat.ltb (length l) size then More else
     if N.eqb (crc24q (firstn (size - 3) l)) (be (sub l (size - 3) 3)) then Accept size else Reject).
Proof.
  intros H ->. unfold judge_rtcm; spec_consts. rewrite N.eqb_refl. cbn [negb].
  assert (Nat.ltb (length (RTCM_PREAMBLE :: l')) (N.to_nat RTCM_HEADER_BYTES) = false) as ->
    by (apply Nat.ltb_ge; change (N.to_nat RTCM_HEADER_BYTES) with 3%nat; exact H).
  reflexivity.
Qed.

Lemma rd3_at (r1 : list N) x y b t :
  rd (r1 ++ x :: y :: b :: t) (N.of_nat (length r1)) = Ok x /\
  rd (r1 ++ x :: y :: b :: t) (N.of_nat (length r1) + 1) = Ok y /\
  rd (r1 ++ x :: y :: b :: t) (N.of_nat (length r1) + 2) = Ok b.
Proof.
  split; [|split].
  - apply rd_app_mid.
  - replace (N.of_nat (length r1) + 1) with (N.of_nat (S (length r1))) by lia. apply rd_ok.
    rewrite nth_error_app2 by lia. replace (S (length r1) - length r1)%nat with 1%nat by lia. reflexivity.
  - replace (N.of_nat (length r1) + 2) with (N.of_nat (S (S (length r1)))) by lia. apply rd_ok.
    rewrite nth_error_app2 by lia. replace (S (S (length r1)) - length r1)%nat with 2%nat by lia. reflexivity.
Qed.

Notation R_J cap := (judge_rtcm cap).

Lemma R_step cap q (c : rcore) r b : rwfc cap c -> rtcm_inv cap c r -> nth_error (c_buf c) (length r) = Some b -> b < 256 ->
  exists c' ret evs, r_on_byte q (set_next c (N.of_nat (S (length r)))) = Ok (c', ret, evs) /\
    c_buf c' = c_buf c /\ c_cap c' = c_cap c /\
    match R_J cap (r ++ [b]) with
    | More => ret = 0%Z /\ evs = [] /\ rtcm_inv cap c' (r ++ [b])
    | Accept n => ret = Z.of_nat n /\ evs = [rtcm_ev (firstn n (c_buf c))] /\ r_is_sync (c_state c') = true
    | Reject => evs = [] /\
        ((ret < 0)%Z /\ r_is_sync (c_state c') = true /\ c_next c' = N.of_nat (S (length r))
         \/ ret = 0%Z /\ frames_of (R_J cap) (tl (r ++ [b])) = [] /\ rtcm_inv cap c' (resid_of (R_J cap) (tl (r ++ [b]))) /\
            (r_is_sync (c_state c') = true \/ false = true /\ r = [RTCM_PREAMBLE] /\ b = RTCM_PREAMBLE))
    end.
Proof.
  destruct c as [buf ccap st nx sz x]. unfold wfc, rtcm_min_ok, rtcm_inv at 1. cbn [c_buf c_cap c_state c_next c_size c_x].
  intros (W1 & W2 & W3 & W4) (Hnx & Hfr & HM & Hrb & Hst) Hb Hb256. symmetry in W3. subst cap. rename ccap into cap.
  pose proof (buf_split _ _ _ Hfr Hb) as Hbuf. set (t := skipn (S (length r)) buf) in *. clearbody t. subst buf.
  unfold r_on_byte. cbn [c_next set_next c_buf c_state c_size c_cap].
  assert (E0 : (N.of_nat (S (length r)) =? 0) = false) by (apply N.eqb_neq; lia). rewrite E0.
  replace (N.of_nat (S (length r)) - 1) with (N.of_nat (length r)) by lia.
  rewrite rd_app_mid. cbn [bind].
  destruct st eqn:Est.
  - (* SYNC *)
    subst r. cbn [length app] in *.
    destruct (N.eqb_spec b RTCM_PREAMBLE) as [->|Hne].
    + eexists _, _, _. split; [reflexivity|]. cbn [c_buf set_state set_next c_cap]. split; [reflexivity|]. split; [reflexivity|].
      cbn. unfold rtcm_inv. cbn [c_next set_state set_next c_buf c_state length firstn].
      split; [reflexivity|]. split; [reflexivity|]. split; [reflexivity|].
      repeat split; try lia. constructor; [exact Hb256|constructor].
    + rewrite (R_nonsync cap b [] Hne). eexists _, _, _. split; [reflexivity|].
      cbn [c_buf set_state set_next c_cap]. split; [reflexivity|]. split; [reflexivity|].
      split; [reflexivity|]. right. split; [reflexivity|]. cbn [tl].
      destruct (frames_more (R_J cap) [] eq_refl) as [F R]. rewrite F, R. split; [reflexivity|].
      split; [|left; reflexivity].
      unfold rtcm_inv. cbn [c_next set_next c_buf c_state length firstn].
      repeat split; try constructor.
  - (* HEADER *)
    destruct r as [|b0 [|b1 [|b2 r']]]; cbn [length] in Hst; try lia.
    + (* second byte *)
      pose proof (judge_more_head _ _ _ HM) as ->.
      cbn [length app]. change (N.of_nat 2 =? RTCM_HEADER_BYTES) with false. cbn iota.
      eexists _, _, _. split; [reflexivity|]. cbn [c_buf set_next c_cap]. split; [reflexivity|]. split; [reflexivity|].
      cbn. unfold rtcm_inv. cbn [c_next set_next c_buf c_state length app].
      split; [reflexivity|]. split; [reflexivity|]. split; [reflexivity|].
      cbn [app firstn]. repeat split; try lia.
      constructor; [exact (Forall_inv Hrb)|]. constructor; [exact Hb256|constructor].
    + (* third byte: the length is known *)
      pose proof (judge_more_head _ _ _ HM) as ->. pose proof (Forall_inv Hrb) as Hb0. pose proof (Forall_inv (Forall_inv_tail Hrb)) as Hb1.
      cbn [length app]. change (N.of_nat 3 =? RTCM_HEADER_BYTES) with true. cbn iota.
      unfold swap16. cbn [c_buf set_next].
      change 1 with (N.of_nat 1) at 1. rewrite (rd_ok (RTCM_PREAMBLE :: b1 :: b :: t) 1 b1 eq_refl). cbn [bind].
      change (1 + 1) with (N.of_nat 2). rewrite (rd_ok (RTCM_PREAMBLE :: b1 :: b :: t) 2 b eq_refl). cbn [bind].
      cbn [c_size set_size c_cap c_buf c_state c_next c_x set_next].
      rewrite swap16_mask. change RTCM_LEN_MASK with SPEC_LEN_MASK. fold (rtcm_len b1 b).
      pose proof (rtcm_len_le b1 b) as Hle.
      unfold judge_rtcm; spec_consts. cbn [app length nth]. rewrite N.eqb_refl. cbn [negb].
      change (Nat.ltb 3 (N.to_nat RTCM_HEADER_BYTES)) with false. cbn iota.
      unfold RTCM_OVERHEAD_BYTES, RTCM_MAX_SIZE_BYTES, RTCM_OVERHEAD. spec_consts.
      change (RTCM_HEADER_BYTES + RTCM_CRC_BYTES) with 6. change (N.to_nat 6) with 6%nat.
      change (RTCM_HEADER_BYTES + RTCM_MAX_PAYLOAD + RTCM_CRC_BYTES) with 1029.
      set (len := rtcm_len b1 b) in *.
      replace (N.of_nat (N.to_nat len + 6)) with (len + 6) by lia.
      destruct (N.leb_spec (len + 6) cap) as [Hc|Hc].
      * assert (E1 : (len + 6 <=? 1029) = true) by (apply N.leb_le; lia).
        assert (E2 : (cap <? len + 6) = false) by (apply N.ltb_ge; lia).
        assert (E3 : (1029 <? len + 6) = false) by (apply N.ltb_ge; lia).
        assert (E4 : Nat.ltb 3 (N.to_nat len + 6) = true) by (apply Nat.ltb_lt; lia).
        rewrite E1, E2, E3, E4. cbn [andb orb].
        eexists _, _, _. split; [reflexivity|]. cbn [c_buf set_state set_size set_next c_cap]. split; [reflexivity|]. split; [reflexivity|].
        split; [reflexivity|]. split; [reflexivity|].
        unfold rtcm_inv. cbn [c_next set_state set_size set_next c_buf c_state c_size length nth].
        split; [reflexivity|]. split; [reflexivity|].
        split.
        { unfold judge_rtcm; spec_consts. cbn [app length nth]. rewrite N.eqb_refl. cbn [negb].
          change (Nat.ltb 3 (N.to_nat RTCM_HEADER_BYTES)) with false. cbn iota.
          unfold RTCM_OVERHEAD. spec_consts. change (RTCM_HEADER_BYTES + RTCM_CRC_BYTES) with 6. change (N.to_nat 6) with 6%nat.
          change (RTCM_HEADER_BYTES + RTCM_MAX_PAYLOAD + RTCM_CRC_BYTES) with 1029. fold len.
          replace (N.of_nat (N.to_nat len + 6)) with (len + 6) by lia. rewrite E2, E3, E4. reflexivity. }
        split; [repeat (constructor; try assumption)|].
        repeat split; try lia.
      * assert (E2 : (cap <? len + 6) = true) by (apply N.ltb_lt; lia).
        rewrite E2. cbn [andb orb].
        eexists _, _, _. split; [reflexivity|]. cbn [c_buf set_state set_size set_next c_cap inc_err set_x]. split; [reflexivity|]. split; [reflexivity|].
        split; [reflexivity|]. left. repeat split; reflexivity.
  - (* DATA *)
    destruct Hst as (H3 & Hsz & Hlt & Hcap).
    destruct r as [|b0 r0] eqn:Er; [cbn in H3; lia|]. rewrite <- Er in *.
    assert (Hb0 : b0 = RTCM_PREAMBLE) by (rewrite Er in HM; apply (judge_more_head _ _ _ HM)).
    set (len := rtcm_len (nth 1 r 0) (nth 2 r 0)) in *.
    pose proof (rtcm_len_le (nth 1 r 0) (nth 2 r 0)) as Hle. fold len in Hle.
    set (k := length r) in *.
    assert (Hn1 : nth 1 (r ++ [b]) 0 = nth 1 r 0) by (apply app_nth1; lia).
    assert (Hn2 : nth 2 (r ++ [b]) 0 = nth 2 r 0) by (apply app_nth1; lia).
    assert (Hk0 : k = S (length r0)) by (unfold k; rewrite Er; reflexivity).
    assert (HJ : R_J cap (r ++ [b]) =
                 (let l := r ++ [b] in let size := Nat.add (N.to_nat len) 6 in
                  if Nat.ltb (S k) size then More else
                  if N.eqb (crc24q (firstn (size - 3) l)) (be (sub l (size - 3) 3)) then Accept size else Reject)).
    { rewrite Er. cbn [app]. rewrite judge_rtcm_long; [|cbn [length]; rewrite app_length; cbn [length]; lia|exact Hb0].
      change (b0 :: r0 ++ [b]) with ((b0 :: r0) ++ [b]). rewrite <- Er. cbn zeta. rewrite Hn1, Hn2. fold len.
      assert (E2 : (cap <? N.of_nat (N.to_nat len + 6)) = false) by (apply N.ltb_ge; lia).
      assert (E3 : (1029 <? N.of_nat (N.to_nat len + 6)) = false) by (apply N.ltb_ge; lia).
      rewrite E2, E3. cbn [orb]. rewrite app_length. cbn [length]. fold k. replace (k + 1)%nat with (S k) by lia. reflexivity. }
    rewrite HJ. cbn zeta.
    destruct (N.eqb_spec (N.of_nat (S k)) sz) as [Heq|Hneq].
    + (* the frame is complete: check the CRC *)
      assert (Hk : (S k = N.to_nat len + 6)%nat) by lia.
      assert (E4 : Nat.ltb (S k) (N.to_nat len + 6) = false) by (apply Nat.ltb_ge; lia). rewrite E4.
      destruct (split_last2 r ltac:(fold k; lia)) as (r1 & x1 & y1 & Hr1).
      assert (Hk1 : (k = length r1 + 2)%nat) by (unfold k; rewrite Hr1, app_length; cbn; lia).
      assert (Hrb1 : bytes_lt256 r1) by (rewrite Hr1 in Hrb; apply Forall_app in Hrb; apply Hrb).
      assert (Hbuf : r ++ b :: t = r1 ++ x1 :: y1 :: b :: t) by (rewrite Hr1, <- app_assoc; reflexivity).
      assert (Hl : r ++ [b] = r1 ++ [x1; y1; b]) by (rewrite Hr1, <- app_assoc; reflexivity).
      replace (N.to_nat len + 6 - 3)%nat with (length r1) by lia.
      assert (Hc1 : firstn (length r1) (r ++ [b]) = r1) by (rewrite Hl; apply firstn_app_exact).
      assert (Hc2 : sub (r ++ [b]) (length r1) 3 = [x1; y1; b]) by (rewrite Hl; unfold sub; rewrite skipn_app_exact; reflexivity).
      rewrite Hc1, Hc2, be3.
      unfold r_crc_check. cbn [c_size set_next c_buf c_cap c_x c_state].
      replace (sz - RTCM_CRC_BYTES) with (N.of_nat (length r1)) by (change RTCM_CRC_BYTES with 3; lia).
      unfold swap16. change RTCM_HEADER_BYTES with (N.of_nat 3).
      rewrite (rd_app_l r (b :: t) 3) by (fold k; lia). cbn [bind].
      change (N.of_nat 3 + 1) with (N.of_nat 4). rewrite (rd_app_l r (b :: t) 4) by (fold k; lia). cbn [bind].
      rewrite Hbuf. rewrite (rd_range_ok _ 0 (length r1)) by (rewrite app_length; cbn; lia).
      cbn [skipn bind]. rewrite firstn_app_exact.
      unfold swap24. destruct (rd3_at r1 x1 y1 b t) as (R1 & R2 & R3). rewrite R1, R2, R3. cbn [bind].
      rewrite crc24_hash_eq_spec by exact Hrb1.
      destruct (N.eqb_spec (crc24q r1) (N.lor (N.lor (N.shiftl x1 16) (N.shiftl y1 8)) b)) as [Hcrc|Hcrc].
      * cbn [inc_dec set_x c_buf c_size c_x set_next c_cap c_state c_next].
        rewrite <- Heq. rewrite <- Hbuf. rewrite (rd_range_ok _ 0 (S k)) by (rewrite app_length; cbn; fold k; lia).
        cbn [skipn bind].
        eexists _, _, _. split; [reflexivity|]. cbn [c_buf set_state set_x c_cap]. split; [reflexivity|]. split; [reflexivity|].
        split; [rewrite <- Hk; lia|]. split; [|reflexivity].
        rewrite <- Hk. f_equal. unfold rtcm_ev.
        assert (Hf : firstn (S k) (r ++ b :: t) = r ++ [b]).
        { change (b :: t) with ([b] ++ t). rewrite app_assoc. rewrite <- (firstn_app_exact (r ++ [b]) t) at 2.
          f_equal. rewrite app_length. cbn. fold k. lia. }
        rewrite Hf. f_equal. unfold rtcm_msg_number. change SPEC_TYPE_SHIFT with RTCM_TYPE_SHIFT.
        rewrite !app_nth1 by (fold k; lia).
        rewrite N.mod_small; [reflexivity|]. apply byte_pair_lt; apply forall_nth; try exact Hrb; fold k; lia.
      * eexists _, _, _. split; [reflexivity|]. cbn [c_buf set_state set_x c_cap inc_err]. split; [reflexivity|]. split; [reflexivity|].
        split; [reflexivity|]. left. repeat split; reflexivity.
    + (* more bytes of the frame to come *)
      assert (E4 : Nat.ltb (S k) (N.to_nat len + 6) = true) by (apply Nat.ltb_lt; lia). rewrite E4.
      eexists _, _, _. split; [reflexivity|]. cbn [c_buf set_next c_cap]. split; [reflexivity|]. split; [reflexivity|].
      split; [reflexivity|]. split; [reflexivity|].
      unfold rtcm_inv. cbn [c_next set_next c_buf c_state c_size].
      rewrite app_length. cbn [length]. fold k.
      split; [f_equal; lia|]. split.
      { replace (k + 1)%nat with (length (r ++ [b])) by (rewrite app_length; cbn; fold k; lia).
        change (b :: t) with ([b] ++ t). rewrite app_assoc. apply firstn_app_exact. }
      split; [rewrite HJ; cbn zeta; rewrite E4; reflexivity|].
      split; [apply Forall_app; split; [exact Hrb|constructor; [exact Hb256|constructor]]|].
      rewrite Hn1, Hn2. fold len. repeat split; lia.
Qed.

(* ---- OnData() refines the scan ---- *)
Lemma false_true_elim (P : Prop) : false = true -> P.
Proof. discriminate. Qed.

Lemma rtcm_data_refines cap (c : rcore) r data total evs :
  rwfc cap c -> rtcm_inv cap c r -> bytes_lt256 data ->
  exists c', on_data_loop rstate rx RS_SYNC r_is_sync RTCM_PREAMBLE false r_on_byte c data total evs =
      Ok (c', total + total_len (frames_of (R_J cap) (r ++ data)), evs ++ map rtcm_ev (frames_of (R_J cap) (r ++ data))) /\
    rwfc cap c' /\ rtcm_inv cap c' (resid_of (R_J cap) (r ++ data)) /\ c_cap c' = c_cap c /\ length (c_buf c') = length (c_buf c).
Proof.
  apply (on_data_loop_refines rstate rx RS_SYNC r_is_sync RTCM_PREAMBLE false r_on_byte (R_J cap) rtcm_ev
           (rtcm_inv cap) (rtcm_min_ok cap) (judge_rtcm_ok cap) (judge_rtcm_local cap) (R_nonsync cap)
           (false_true_elim _) (R_inv_nil cap) (R_inv_facts cap) (R_frame cap) (R_step cap) eq_refl).
Qed.

(* decoded_msg_count_ goes up by exactly one per callback (mod 2^32), in every call of OnByte() *)
Lemma r_on_byte_cnt q (c c' : rcore) ret evs : r_on_byte q c = Ok (c', ret, evs) ->
  u32 (snd (c_x c')) = u32 (snd (c_x c) + N.of_nat (length evs)).
Proof.
  assert (Hsame : forall x : N, u32 x = u32 (x + N.of_nat (@length event []))) by (intros; cbn; rewrite N.add_0_r; reflexivity).
  unfold r_on_byte. destruct (c_next c =? 0); [intros E; injection E as <- <- <-; apply Hsame|].
  destruct (rd _ _) as [byte| | |]; cbn [bind]; try discriminate.
  destruct (c_state c).
  - destruct (N.eqb byte RTCM_PREAMBLE); intros E; injection E as <- <- <-; apply Hsame.
  - destruct (c_next c =? RTCM_HEADER_BYTES); [|intros E; injection E as <- <- <-; apply Hsame].
    destruct (swap16 _ _) as [h| | |]; cbn [bind]; try discriminate.
    destruct (_ && _); intros E; injection E as <- <- <-; apply Hsame.
  - destruct (c_next c =? c_size c); [|intros E; injection E as <- <- <-; apply Hsame].
    unfold r_crc_check.
    destruct (swap16 _ _) as [h| | |]; cbn [bind]; try discriminate.
    destruct (rd_range _ _ _) as [cov| | |]; cbn [bind]; try discriminate.
    destruct (swap24 _ _) as [ex| | |]; cbn [bind]; try discriminate.
    destruct (N.eqb _ _).
    + destruct (rd_range _ _ _) as [fr| | |]; cbn [bind]; try discriminate.
      intros E; injection E as <- <- <-. cbn. unfold u32. rewrite N.mod_mod by discriminate. reflexivity.
    + intros E; injection E as <- <- <-; apply Hsame.
Qed.

(* ---- SetBuffer() ---- *)
Ltac Zify.zify_post_hook ::= Z.to_euclidean_division_equations.

Lemma align_shift a : (a + 3) - ((a + 3) mod (3 + 1)) - a = (4 - a mod 4) mod 4 /\ (4 - a mod 4) mod 4 <= 3.
Proof. change (3 + 1) with 4. lia. Qed.

Definition addr_of (user : option N) (alloc_addr : N) : N := match user with Some a => a | None => alloc_addr end.

Lemma rtcm_set_buffer_spec (f : rframer) user alloc_addr capacity mem :
  N.of_nat (length mem) = capacity -> 6 <= capacity ->
  let f' := rtcm_set_buffer f user alloc_addr capacity mem in
  let cb := N.min capacity RTCM_CLAMP - (4 - addr_of user alloc_addr mod 4) mod 4 in
  f_has f' = true /\ rwfc cb (f_core f') /\ rtcm_inv cb (f_core f') [] /\ c_x (f_core f') = (0, 0) /\ 3 <= cb.
Proof.
  intros Hlen Hcap. unfold rtcm_set_buffer, set_buffer.
  assert (E1 : (capacity <? RTCM_OVERHEAD_BYTES) = false) by (apply N.ltb_ge; exact Hcap). rewrite E1.
  cbn [andb].
  set (cap1 := if RTCM_CLAMP <? capacity then RTCM_CLAMP else capacity).
  assert (Hc1 : cap1 = N.min capacity RTCM_CLAMP).
  { unfold cap1. destruct (N.ltb_spec RTCM_CLAMP capacity); lia. }
  change (match user with Some a => a | None => alloc_addr end) with (addr_of user alloc_addr).
  set (a := addr_of user alloc_addr). unfold RTCM_ALIGN_MASK.
  destruct (align_shift a) as [Hs Hs3]. rewrite Hs. set (shift := (4 - a mod 4) mod 4) in *.
  assert (Hcl : RTCM_CLAMP = 2147483647) by reflexivity.
  assert (Hu : u32 (cap1 - shift) = cap1 - shift) by (apply u32_small; lia).
  rewrite Hu. rewrite <- Hc1. cbn zeta.
  set (buf := firstn (N.to_nat (cap1 - shift)) (skipn (N.to_nat shift) mem)).
  assert (Hbl : length buf = N.to_nat (cap1 - shift)).
  { unfold buf. rewrite firstn_length, skipn_length. lia. }
  unfold reset_core. cbn [f_has f_core set_x set_size set_next set_state c_x c_buf c_cap c_state c_next c_size].
  split; [reflexivity|]. split.
  { unfold wfc, rtcm_min_ok, blen, set_x, set_size, set_next, set_state. cbn [c_buf c_cap]. rewrite Hbl. repeat split; lia. }
  split.
  { unfold rtcm_inv, set_x, set_size, set_next, set_state. cbn [c_buf c_cap c_next c_state length firstn N.of_nat]. repeat split; constructor. }
  split; [reflexivity|lia].
Qed.

(* ---- histories ---- *)
Definition rtcm_sim (f : rframer) (s : spst) : Prop :=
  match sp_cap s with
  | Some cap => f_has f = true /\ rwfc cap (f_core f) /\ rtcm_inv cap (f_core f) (sp_res s) /\ 6 <= cap
  | None => f_has f = false \/
            (f_has f = true /\ exists cap r, cap < 6 /\ rwfc cap (f_core f) /\ rtcm_inv cap (f_core f) r)
  end.

Definition op_ok (o : op) : Prop :=
  match o with
  | OpData chunk => bytes_lt256 chunk
  | OpReset => True
  | OpSetBuffer _ _ capacity mem => N.of_nat (length mem) = capacity
  end.

Definition rtcm_out (fs : list (nat * list N)) : N * list event := (frames_total fs, map rtcm_event_of fs).

Lemma frames_total_len fs : frames_total fs = total_len (map snd fs).
Proof. induction fs as [|f fs IH]; [reflexivity|]. cbn [frames_total fold_right map total_len]. fold (frames_total fs). fold (total_len (map snd fs)). rewrite IH. reflexivity. Qed.

Lemma rtcm_no_accept_small cap : cap < 6 -> forall l n, R_J cap l <> Accept n.
Proof.
  intros Hc l n H. apply judge_rtcm_accept_inv in H. destruct H as (_ & _ & Hn & _ & Hle & _). lia.
Qed.

Theorem rtcm_op_refines f s o : rtcm_sim f s -> op_ok o ->
  exists f', rtcm_op f o = Ok (f', fst (rtcm_out (snd (rtcm_spec_op s o))), snd (rtcm_out (snd (rtcm_spec_op s o)))) /\
    rtcm_sim f' (fst (rtcm_spec_op s o)).
Proof.
  intros Hsim Hok. destruct o as [chunk| |user alloc_addr capacity mem]; cbn [op_ok] in Hok.
  - (* OnData *)
    unfold rtcm_op, rtcm_spec_op, spec_op, rtcm_sim in *. destruct (sp_cap s) as [cap|] eqn:Ecap.
    + destruct Hsim as (Hhas & Hwf & Hinv & H6).
      destruct (rtcm_data_refines cap _ _ chunk 0 [] Hwf Hinv Hok) as (c' & E & Hwf' & Hinv' & _ & _).
      unfold rtcm_on_data, on_data. rewrite Hhas. rewrite E. cbn [bind].
      unfold feed. cbn [fst snd].
      pose proof (scan_frames_off (R_J cap) (sp_off s) (sp_res s ++ chunk)) as F.
      pose proof (scan_resid_off (R_J cap) (sp_off s) (sp_res s ++ chunk)) as R.
      destruct (scan (R_J cap) (sp_off s) (sp_res s ++ chunk)) as [fs [o' r']]. cbn [fst snd] in *.
      eexists. split.
      * unfold rtcm_out. cbn [fst snd]. rewrite frames_total_len, F, N.add_0_l. cbn [app].
        do 2 f_equal. rewrite <- F, map_map. reflexivity.
      * cbn [sp_cap sp_res f_has f_core]. rewrite R. split; [reflexivity|]. split; [exact Hwf'|]. split; [exact Hinv'|exact H6].
    + cbn [snd fst rtcm_out frames_total fold_right map]. destruct Hsim as [Hno|(Hhas & cap & r & Hc & Hwf & Hinv)].
      * unfold rtcm_on_data, on_data. rewrite Hno. eexists. split; [reflexivity|]. cbn [sp_cap]. left. exact Hno.
      * destruct (rtcm_data_refines cap _ _ chunk 0 [] Hwf Hinv Hok) as (c' & E & Hwf' & Hinv' & _ & _).
        rewrite (frames_of_no_accept _ (rtcm_no_accept_small cap Hc)) in E.
        unfold rtcm_on_data, on_data. rewrite Hhas, E. cbn [bind map total_len fold_right app].
        eexists. split; [reflexivity|]. cbn [sp_cap]. right. split; [reflexivity|]. exists cap, (resid_of (R_J cap) (r ++ chunk)). split; [exact Hc|]. split; [exact Hwf'|exact Hinv'].
  - (* Reset *)
    unfold rtcm_op, rtcm_spec_op, spec_op, rtcm_sim in *. cbn [snd fst rtcm_out frames_total fold_right map sp_cap sp_res].
    eexists. split; [reflexivity|].
    assert (Hr : forall cap, rwfc cap (f_core f) -> rwfc cap (f_core (rtcm_reset f)) /\ rtcm_inv cap (f_core (rtcm_reset f)) []).
    { intros cap Hwf. split; [exact Hwf|]. apply R_inv_nil; [exact Hwf|reflexivity|reflexivity]. }
    destruct (sp_cap s) as [cap|].
    + destruct Hsim as (Hhas & Hwf & _ & H6). destruct (Hr cap Hwf) as [A B]. split; [exact Hhas|]. split; [exact A|]. split; [exact B|exact H6].
    + destruct Hsim as [Hno|(Hhas & cap & r & Hc & Hwf & _)]; [left; exact Hno|].
      right. split; [exact Hhas|]. exists cap, []. destruct (Hr cap Hwf) as [A B]. split; [exact Hc|]. split; [exact A|exact B].
  - (* SetBuffer *)
    unfold rtcm_op, rtcm_spec_op, spec_op. cbn [rtcm_out frames_total fold_right map].
    destruct (N.ltb_spec capacity RTCM_OVERHEAD_BYTES) as [Hlt|Hge].
    + assert (E : rtcm_set_buffer f user alloc_addr capacity mem = f).
      { unfold rtcm_set_buffer, set_buffer. apply N.ltb_lt in Hlt. rewrite Hlt. reflexivity. }
      rewrite E. eexists. split; [reflexivity|exact Hsim].
    + destruct (rtcm_set_buffer_spec f user alloc_addr capacity mem Hok Hge) as (Hhas & Hwf & Hinv & _ & H3).
      eexists. split; [reflexivity|]. cbn [fst snd]. unfold rtcm_sim, spec_eff_capacity. cbn [sp_cap sp_res].
      change (match user with Some a => a | None => alloc_addr end) with (addr_of user alloc_addr).
      set (cb := N.min capacity RTCM_CLAMP - (4 - addr_of user alloc_addr mod 4) mod 4) in *.
      destruct (N.ltb_spec cb RTCM_OVERHEAD_BYTES) as [Hs|Hs].
      * right. split; [exact Hhas|]. exists cb, []. split; [exact Hs|]. split; [exact Hwf|exact Hinv].
      * split; [exact Hhas|]. split; [exact Hwf|]. split; [exact Hinv|exact Hs].
Qed.

Notation rtcm_spec_run := (spec_run judge_rtcm RTCM_OVERHEAD_BYTES RTCM_CLAMP).

(* every history: no out-of-bounds access, no fuel exhaustion, and per call exactly the frames of the scan *)
Theorem rtcm_history : forall ops f s, rtcm_sim f s -> Forall op_ok ops ->
  exists ff, run_ops rframer rtcm_op f ops = Ok (map rtcm_out (rtcm_spec_run s ops), ff).
Proof.
  induction ops as [|o rest IH]; intros f s Hsim Hok.
  - exists f. reflexivity.
  - inversion Hok as [|? ? Ho Hrest]; subst.
    destruct (rtcm_op_refines f s o Hsim Ho) as (f' & E & Hsim').
    cbn [run_ops spec_run]. rewrite E. cbn [bind].
    change (spec_op judge_rtcm RTCM_OVERHEAD_BYTES RTCM_CLAMP s o) with (rtcm_spec_op s o).
    destruct (rtcm_spec_op s o) as [s' fs] eqn:Es. cbn [fst snd] in *.
    destruct (IH f' s' Hsim' Hrest) as (ff & E2). rewrite E2. cbn [bind map].
    exists ff. unfold rtcm_out at 2. reflexivity.
Qed.

Lemma rtcm_construct_sim user alloc_addr capacity mem :
  N.of_nat (length mem) = capacity + match user with None => RTCM_MANAGED_EXTRA | Some _ => 0 end ->
  rtcm_sim (rtcm_construct user alloc_addr capacity mem) (rtcm_spec_construct user alloc_addr capacity).
Proof.
  intros Hlen. unfold rtcm_construct, rtcm_spec_construct.
  assert (H0 : rtcm_sim rtcm_default spec_init) by (left; reflexivity).
  destruct user as [a|].
  - destruct (rtcm_op_refines rtcm_default spec_init (OpSetBuffer (Some a) alloc_addr capacity mem) H0) as (f' & E & Hs).
    { cbn [op_ok]. lia. }
    cbn [rtcm_op] in E. injection E as <-. exact Hs.
  - destruct (rtcm_op_refines rtcm_default spec_init (OpSetBuffer None alloc_addr (capacity + RTCM_MANAGED_EXTRA) mem) H0) as (f' & E & Hs).
    { cbn [op_ok]. lia. }
    cbn [rtcm_op] in E. injection E as <-. exact Hs.
Qed.

(* ---- the decoded-message counter ---- *)
Lemma rtcm_on_data_count f chunk f' ret evs : rtcm_on_data f chunk = Ok (f', ret, evs) ->
  u32 (rtcm_decoded f') = u32 (rtcm_decoded f + N.of_nat (length evs)).
Proof.
  unfold rtcm_on_data, on_data. destruct (f_has f).
  - destruct (on_data_loop _ _ _ _ _ _ _ _ _ _ _) as [[[c t] e]| | |] eqn:E; cbn [bind]; try discriminate.
    intros E2. injection E2 as <- <- <-.
    apply (on_data_loop_cnt rstate rx RS_SYNC r_is_sync RTCM_PREAMBLE false r_on_byte snd r_on_byte_cnt (rtcm_decoded f)) in E.
    + exact E.
    + unfold cnt_ok, rtcm_decoded. cbn. rewrite N.add_0_r. reflexivity.
  - intros E. injection E as <- <- <-. cbn. rewrite N.add_0_r. reflexivity.
Qed.

(* ---- data-only histories: the whole stream, any chunking ---- *)

Lemma run_ops_data_count : forall chunks f outs ff,
  run_ops rframer rtcm_op f (map OpData chunks) = Ok (outs, ff) ->
  u32 (rtcm_decoded ff) = u32 (rtcm_decoded f + N.of_nat (length (concat (map snd outs)))).
Proof.
  induction chunks as [|ch rest IH]; intros f outs ff; cbn [map run_ops].
  - intros E. injection E as <- <-. cbn. rewrite N.add_0_r. reflexivity.
  - cbn [rtcm_op]. destruct (rtcm_on_data f ch) as [[[f1 ret] evs]| | |] eqn:E1; cbn [bind]; try discriminate.
    destruct (run_ops rframer rtcm_op f1 (map OpData rest)) as [[outs2 ff2]| | |] eqn:E2; cbn [bind]; try discriminate.
    intros E. injection E as <- <-. cbn [map snd concat]. rewrite app_length, Nat2N.inj_add.
    rewrite (IH _ _ _ E2). rewrite <- u32_add_l, (rtcm_on_data_count _ _ _ _ _ E1), u32_add_l, N.add_assoc. reflexivity.
Qed.

(* A framer with a usable buffer, fed the stream in ANY division into chunks, makes exactly the callbacks of
   one left-to-right scan of the whole stream — in order, once each — returns in total the bytes dispatched,
   and reports a decoded count equal to the number of callbacks (mod 2^32). *)
Theorem rtcm_stream_exact user alloc_addr capacity mem cap chunks :
  N.of_nat (length mem) = capacity + match user with None => RTCM_MANAGED_EXTRA | Some _ => 0 end ->
  sp_cap (rtcm_spec_construct user alloc_addr capacity) = Some cap ->
  Forall bytes_lt256 chunks ->
  exists outs ff, run_ops rframer rtcm_op (rtcm_construct user alloc_addr capacity mem) (map OpData chunks) = Ok (outs, ff) /\
    concat (map snd outs) = map rtcm_event_of (fst (scan (judge_rtcm cap) 0 (concat chunks))) /\
    fold_right N.add 0 (map fst outs) = frames_total (fst (scan (judge_rtcm cap) 0 (concat chunks))) /\
    u32 (rtcm_decoded ff) = u32 (N.of_nat (length (concat (map snd outs)))).
Proof.
  intros Hlen Hcap Hb.
  pose proof (rtcm_construct_sim user alloc_addr capacity mem Hlen) as Hsim.
  assert (Hok : Forall op_ok (map OpData chunks)).
  { apply Forall_forall. intros o Ho. apply in_map_iff in Ho as (ch & <- & Hin). cbn. rewrite Forall_forall in Hb. apply Hb. exact Hin. }
  destruct (rtcm_history _ _ _ Hsim Hok) as (ff & E).
  set (s0 := rtcm_spec_construct user alloc_addr capacity) in *.
  assert (Hs0 : s0 = mkSp (Some cap) (sp_off s0) []).
  { destruct s0 as [c o r] eqn:Es. cbn in Hcap. subst c.
    assert (r = []) as ->; [|reflexivity].
    pose proof (f_equal sp_res Es) as Hr. cbn [sp_res] in Hr. rewrite <- Hr. unfold s0, rtcm_spec_construct, rtcm_spec_op, spec_op.
    destruct (_ <? _); reflexivity. }
  exists (map rtcm_out (rtcm_spec_run s0 (map OpData chunks))), ff. split; [exact E|].
  assert (Hfr : concat (rtcm_spec_run s0 (map OpData chunks)) = fst (scan (judge_rtcm cap) (sp_off s0) (concat chunks))).
  { rewrite Hs0 at 1. rewrite spec_run_data.
    rewrite (feed_all_concat (judge_rtcm cap) (judge_rtcm_ok cap)) by reflexivity. reflexivity. }
  pose proof (scan_frames_off (judge_rtcm cap) (sp_off s0) (concat chunks)) as F1.
  pose proof (scan_frames_off (judge_rtcm cap) 0 (concat chunks)) as F2.
  assert (Hev : forall fss : list (list (nat * list N)), concat (map snd (map rtcm_out fss)) = map rtcm_event_of (concat fss)).
  { induction fss as [|x t IHt]; [reflexivity|]. cbn [map concat snd rtcm_out]. rewrite IHt, map_app. reflexivity. }
  assert (Hev2 : forall fs : list (nat * list N), map rtcm_event_of fs = map rtcm_ev (map snd fs)) by (intros; rewrite map_map; reflexivity).
  assert (Hsum : forall fss : list (list (nat * list N)), fold_right N.add 0 (map fst (map rtcm_out fss)) = frames_total (concat fss)).
  { induction fss as [|x t IHt]; [reflexivity|]. cbn [map concat fst rtcm_out fold_right]. rewrite IHt.
    rewrite !frames_total_len, map_app, total_len_app. reflexivity. }
  split; [|split].
  - rewrite Hev, Hfr, !Hev2, F1, <- F2. reflexivity.
  - rewrite Hsum, Hfr, !frames_total_len, F1, <- F2. reflexivity.
  - rewrite (run_ops_data_count _ _ _ _ E).
    assert (rtcm_decoded (rtcm_construct user alloc_addr capacity mem) = 0) as ->; [|rewrite N.add_0_l; reflexivity].
    unfold rtcm_sim in Hsim. fold s0 in Hsim. rewrite Hcap in Hsim.
    unfold rtcm_construct in *. destruct user.
    + unfold rtcm_set_buffer, set_buffer. destruct (_ <? _) eqn:E0.
      * destruct Hsim as (Hh & _). unfold rtcm_set_buffer, set_buffer in Hh. rewrite E0 in Hh. discriminate.
      * reflexivity.
    + unfold rtcm_set_buffer, set_buffer. destruct (_ <? _) eqn:E0.
      * destruct Hsim as (Hh & _). unfold rtcm_set_buffer, set_buffer in Hh. rewrite E0 in Hh. discriminate.
      * reflexivity.
Qed.

(* ---- statements used by Properties/C14.v ---- *)
Lemma rtcm_judge_ok_local : forall cap, JudgeOK (judge_rtcm cap) /\ JudgeLocal (judge_rtcm cap).
Proof. intros cap. split; [exact (judge_rtcm_ok cap) | exact (judge_rtcm_local cap)]. Qed.

Lemma rtcm_refines_scan_top : forall user alloc_addr capacity mem ops,
  N.of_nat (length mem) = capacity + match user with None => RTCM_MANAGED_EXTRA | Some _ => 0 end ->
  Forall op_ok ops ->
  exists ff, run_ops rframer rtcm_op (rtcm_construct user alloc_addr capacity mem) ops =
             Ok (map rtcm_out (spec_run judge_rtcm RTCM_OVERHEAD_BYTES RTCM_CLAMP (rtcm_spec_construct user alloc_addr capacity) ops), ff).
Proof.
  intros user alloc_addr capacity mem ops Hlen Hok.
  exact (rtcm_history ops _ _ (rtcm_construct_sim user alloc_addr capacity mem Hlen) Hok).
Qed.

Lemma rtcm_no_oob_top : forall user alloc_addr capacity mem ops,
  N.of_nat (length mem) = capacity + match user with None => RTCM_MANAGED_EXTRA | Some _ => 0 end ->
  Forall op_ok ops ->
  match run_ops rframer rtcm_op (rtcm_construct user alloc_addr capacity mem) ops with
  | Ok _ => True | OobRead _ _ => False | OobWrite _ _ => False | OutOfFuel => False end.
Proof.
  intros user alloc_addr capacity mem ops Hlen Hok.
  destruct (rtcm_history ops _ _ (rtcm_construct_sim user alloc_addr capacity mem Hlen) Hok) as (ff & E).
  rewrite E. exact I.
Qed.

Lemma rtcm_usable_capacity : forall a capacity,
  6 <= capacity ->
  sp_cap (rtcm_spec_construct (Some a) 0 capacity) =
    (let c := N.min capacity RTCM_CLAMP - (4 - a mod 4) mod 4 in if c <? 6 then None else Some c).
Proof.
  intros a capacity H. unfold rtcm_spec_construct, rtcm_spec_op, spec_op, spec_eff_capacity.
  destruct (N.ltb_spec capacity RTCM_OVERHEAD_BYTES) as [C|_]; [change RTCM_OVERHEAD_BYTES with 6 in C; lia|].
  reflexivity.
Qed.
