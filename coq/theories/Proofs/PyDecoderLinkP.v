(* System-level composition C06 o C04: whatever FusionEngineEncoder produces, FusionEngineDecoder returns.
   Uses (does not edit) the encoder development of C06 (Models/EncoderM.v, Proofs/EncoderP.v: encode_closed_form,
   encoder_valid, encoder_run_spec), the decoder refinement (PyDecoderThm.run_is_scan) and Base.Scan.scan_concat_frames. *)
From Coq Require Import NArith List Bool Arith Lia ZifyBool ZifyNat ZifyN.
From FEC Require Import Generated.FEConsts Generated.EncoderConsts Base.ListX Base.Bytes Base.Crc32 Base.Scan Base.FEFormat
  Models.EncoderM Proofs.EncoderP Models.PyDecoderM Proofs.PyDecoderP Proofs.PyDecoderThm.
Import ListNotations.

(* ---- generic facts about rebase ------------------------------------------------------------------------ *)
Lemma rebase_length {B} (fss : list (list B)) : forall off, length (rebase off fss) = length fss.
Proof. induction fss as [|bs t IH]; intros off; cbn [rebase length]; [reflexivity|]. rewrite IH. reflexivity. Qed.

Lemma rebase_nth {B} : forall (fss : list (list B)) off k bs,
  nth_error fss k = Some bs ->
  nth_error (rebase off fss) k = Some ((off + length (concat (firstn k fss)))%nat, bs).
Proof.
  induction fss as [|b t IH]; intros off k bs H; [destruct k; discriminate|].
  destruct k as [|k]; cbn [nth_error rebase firstn concat] in *.
  - injection H as ->. cbn [length]. rewrite Nat.add_0_r. reflexivity.
  - rewrite (IH _ _ _ H), app_length. do 2 f_equal. lia.
Qed.

(* junk in which no byte is the first sync byte is skipped, as long as a whole header's worth of bytes follows *)
Section Junk.
  Context {P : Type}.
  Variable parse_payload : N -> list N -> option P.
  Variable maxp maxe : N.
  Notation J := (PyDecoder_judge_dec parse_payload maxp maxe).

  Lemma judge_dec_no_sync b t : b <> SYNC0 -> (HEADER_SIZE <= length (b :: t))%nat -> J (b :: t) = Reject.
  Proof.
    intros Hb Hl. unfold PyDecoder_judge_dec, PyDecoder_judge. rewrite shorter_ltb.
    assert (E : Nat.ltb (length (b :: t)) HEADER_SIZE = false) by (apply Nat.ltb_ge; exact Hl). rewrite E.
    destruct t as [|b1 t'].
    { cbn [length] in Hl. unfold HEADER_SIZE in Hl. lia. }
    destruct (parse_header_sync b b1 t') as [S0 _]. rewrite S0.
    assert (E0 : N.eqb b SYNC0 = false) by (apply N.eqb_neq; exact Hb). rewrite E0. reflexivity.
  Qed.

  Lemma scan_reject_step off b t : J (b :: t) = Reject -> scan J off (b :: t) = scan J (S off) t.
  Proof.
    intros HJ. unfold scan at 1. rewrite scan_aux_unfold, HJ. cbn [tl length].
    symmetry. apply (scan_eq_aux _ (judge_dec_ok parse_payload maxp maxe)). lia.
  Qed.

  Lemma scan_skip_junk : forall j off rest,
    Forall (fun b => b <> SYNC0) j -> (HEADER_SIZE <= length rest)%nat ->
    scan J off (j ++ rest) = scan J (off + length j) rest.
  Proof.
    induction j as [|b j IH]; intros off rest Hj Hr.
    - cbn [app length]. rewrite Nat.add_0_r. reflexivity.
    - inversion Hj as [|? ? Hb Hj']; subst. cbn [app length].
      rewrite scan_reject_step.
      + rewrite IH by assumption. f_equal. lia.
      + apply judge_dec_no_sync; [exact Hb|]. cbn [length]. rewrite app_length. lia.
  Qed.
End Junk.

Section Link.
  Context {P : Type}.
  Variable parse_payload : N -> list N -> option P.
  Variable maxp maxe : N.
  Variable rb ro : bool.

  Notation judge := (PyDecoder_judge maxp maxe).
  Notation J := (PyDecoder_judge_dec parse_payload maxp maxe).
  Notation run := (PyDecoder_run parse_payload maxp maxe rb ro false).
  Notation res_of := (PyDecoder_result_of parse_payload rb ro).
  Notation init := PyDecoder_init.

  (* the encoder's outputs over a history of calls, in closed form *)
  Fixpoint enc_outs (s : N) (calls : list (Encoder_payload * N)) : list (list N) :=
    match calls with
    | [] => []
    | (m, src) :: t => enc_output s m src :: enc_outs (Encoder_next_seq s) t
    end.

  Lemma encoder_run_outs : forall calls s, (s < 4294967296)%N -> Forall call_in_domain calls ->
    fst (Encoder_run s calls) = map Some (enc_outs s calls).
  Proof.
    induction calls as [|[m src] t IH]; intros s Hs Hd; [reflexivity|].
    inversion Hd as [|? ? Hc Ht]; subst. unfold Encoder_run in *. cbn [Encoder_run_with enc_outs map].
    rewrite (encode_closed_form Encoder_next_seq s m src (in_domain_of_call s (m, src) Hs Hc)).
    assert (Hs1 : (Encoder_next_seq s < 4294967296)%N) by (rewrite next_seq_eq; apply N.mod_lt; discriminate).
    specialize (IH _ Hs1 Ht). destruct (Encoder_run_with Encoder_next_seq (Encoder_next_seq s) t) as [os s2].
    cbn [fst] in *. rewrite IH. reflexivity.
  Qed.

  Lemma enc_outs_length : forall calls s, length (enc_outs s calls) = length calls.
  Proof. induction calls as [|[m src] t IH]; intros s; cbn [enc_outs length]; [reflexivity|]. rewrite IH. reflexivity. Qed.

  Lemma enc_outs_nth : forall calls s k m src, (s < 4294967296)%N ->
    nth_error calls k = Some (m, src) ->
    nth_error (enc_outs s calls) k = Some (enc_output ((s + N.of_nat k) mod 4294967296) m src).
  Proof.
    induction calls as [|[m0 src0] t IH]; intros s k m src Hs H; [destruct k; discriminate|].
    destruct k as [|k]; cbn [nth_error enc_outs] in *.
    - injection H as -> ->. rewrite N.add_0_r, N.mod_small by exact Hs. reflexivity.
    - assert (Hs1 : (Encoder_next_seq s < 4294967296)%N) by (rewrite next_seq_eq; apply N.mod_lt; discriminate).
      rewrite (IH _ _ _ _ Hs1 H), next_seq_eq, N.add_mod_idemp_l by discriminate. do 3 f_equal. lia.
  Qed.

  (* the two hypotheses on a call besides the encoder's domain: payload within both size limits, parser accepts it *)
  Definition link_call_ok (c : Encoder_payload * N) : Prop :=
    (N.of_nat (length (p_bytes (fst c))) <= N.min maxp maxe)%N /\
    parse_payload (p_type (fst c)) (p_bytes (fst c)) <> None.

  (* each encoder output is a frame the decoder's judge accepts whole *)
  Lemma enc_output_self_framed s m src :
    (s < 4294967296)%N -> call_in_domain (m, src) -> link_call_ok (m, src) -> self_framed J (enc_output s m src).
  Proof.
    intros Hs Hd (Hsz & Hp). cbn [fst] in *.
    pose proof (in_domain_of_call s (m, src) Hs Hd) as Dom. cbn [fst snd] in Dom.
    destruct (encoder_valid (fun x => x) s m src false true (N.min maxp maxe) Dom) as (out & E & F).
    rewrite encode_closed_form in E by exact Dom. injection E as <-. cbn zeta in F.
    destruct F as (L & _ & _ & _ & _ & Ht & _ & _ & _ & Hps & Hsk & _ & _ & _ & _ & HJ).
    specialize (HJ ltac:(rewrite Hps; exact Hsz)).
    apply (proj2 (judge_py_accept_iff maxp maxe _ _)) in HJ.
    unfold self_framed, PyDecoder_judge_dec. rewrite HJ, Ht.
    assert (Hsub : sub (enc_output s m src) HEADER_SIZE (length (enc_output s m src) - HEADER_SIZE) = p_bytes m).
    { unfold sub. rewrite Hsk. apply firstn_all2. rewrite L. lia. }
    rewrite Hsub. destruct (parse_payload (p_type m) (p_bytes m)); [reflexivity|congruence].
  Qed.

  Lemma enc_outs_self_framed : forall calls s, (s < 4294967296)%N ->
    Forall call_in_domain calls -> Forall link_call_ok calls -> Forall (self_framed J) (enc_outs s calls).
  Proof.
    induction calls as [|[m src] t IH]; intros s Hs Hd Hk; [constructor|].
    inversion Hd; inversion Hk; subst. cbn [enc_outs]. constructor.
    - apply enc_output_self_framed; assumption.
    - apply IH; try assumption. rewrite next_seq_eq. apply N.mod_lt. discriminate.
  Qed.

  (* what the decoder must return for the k-th encoded message *)
  Lemma res_of_enc_output s m src off : (s < 4294967296)%N -> call_in_domain (m, src) ->
    forall r, res_of (off, enc_output s m src) = Some r ->
      h_type (pr_hdr r) = p_type m /\ h_msgver (pr_hdr r) = p_version m /\ h_source (pr_hdr r) = src /\
      h_seq (pr_hdr r) = s /\ h_psize (pr_hdr r) = N.of_nat (length (p_bytes m)) /\
      parse_payload (p_type m) (p_bytes m) = Some (pr_payload r) /\
      pr_bytes r = (if rb then Some (enc_output s m src) else None) /\
      pr_off r = (if ro then Some (N.of_nat off) else None).
  Proof.
    intros Hs Hd r HR.
    pose proof (in_domain_of_call s (m, src) Hs Hd) as Dom. cbn [fst snd] in Dom.
    destruct (enc_output_facts s m src Dom) as (_ & _ & Hh & Hsk & _). cbn zeta in Hh.
    unfold PyDecoder_result_of in HR. rewrite Hh, Hsk in HR. cbn [h_type enc_header] in HR.
    destruct (parse_payload (p_type m) (p_bytes m)) as [c|]; [|discriminate].
    injection HR as <-. cbn [pr_hdr pr_payload pr_bytes pr_off h_type h_msgver h_source h_seq h_psize enc_header].
    repeat split; reflexivity.
  Qed.

  (* MAIN: encoder output, fed to the decoder in any chunking, comes back exactly *)
  Theorem decodes_encoder_output calls s chunks :
    Encoder_reachable s -> Forall call_in_domain calls -> Forall link_call_ok calls ->
    concat chunks = concat (enc_outs s calls) ->
    fst (Encoder_run s calls) = map Some (enc_outs s calls) /\
    exists rss st',
      run init chunks = PdRunDone rss st' /\
      map Some (concat rss) = map res_of (rebase 0 (enc_outs s calls)) /\
      length (concat rss) = length calls /\
      pd_buf st' = [] /\ pd_hdr st' = None /\ pd_processed st' = N.of_nat (length (concat chunks)) /\
      forall k m src r, nth_error calls k = Some (m, src) -> nth_error (concat rss) k = Some r ->
        h_type (pr_hdr r) = p_type m /\ h_msgver (pr_hdr r) = p_version m /\ h_source (pr_hdr r) = src /\
        h_seq (pr_hdr r) = ((s + N.of_nat k) mod 4294967296)%N /\
        h_psize (pr_hdr r) = N.of_nat (length (p_bytes m)) /\
        parse_payload (p_type m) (p_bytes m) = Some (pr_payload r) /\
        exists out, nth_error (enc_outs s calls) k = Some out /\
          pr_bytes r = (if rb then Some out else None) /\
          pr_off r = (if ro then Some (N.of_nat (length (concat (firstn k (enc_outs s calls))))) else None).
  Proof.
    intros HR Hd Hk HC. pose proof (reachable_u32 s HR) as Hs.
    split; [apply encoder_run_outs; assumption|].
    pose proof (judge_dec_ok parse_payload maxp maxe) as OKJ.
    destruct (run_is_scan parse_payload maxp maxe rb ro chunks) as (rss & st' & fs & HRun & HP & HS & HM).
    rewrite HC, (scan_concat_frames _ OKJ) in HS by (apply enc_outs_self_framed; assumption).
    injection HS as Hfs Hoff Hbuf. subst fs.
    assert (Hlen : length (concat rss) = length calls).
    { rewrite <- (map_length Some), HM, map_length, rebase_length, enc_outs_length. reflexivity. }
    exists rss, st'. refine (conj HRun (conj HM (conj Hlen (conj (eq_sym Hbuf) (conj _ (conj _ _)))))).
    - destruct HP as (_ & _ & Hiff). apply Hiff. rewrite <- Hbuf. unfold HEADER_SIZE. cbn. lia.
    - rewrite HC. cbn [Nat.add] in Hoff. lia.
    - intros k m src r Hk1 Hk2.
      pose proof (enc_outs_nth calls s k m src Hs Hk1) as Hout.
      pose proof (rebase_nth _ 0%nat _ _ Hout) as Hreb. cbn [Nat.add] in Hreb.
      assert (HRk : res_of (length (concat (firstn k (enc_outs s calls))), enc_output ((s + N.of_nat k) mod 4294967296) m src) = Some r).
      { pose proof (map_nth_error res_of _ _ Hreb) as H1. rewrite <- HM in H1.
        rewrite (map_nth_error Some _ _ Hk2) in H1. injection H1 as H1. symmetry. exact H1. }
      assert (Hsk : ((s + N.of_nat k) mod 4294967296 < 4294967296)%N) by (apply N.mod_lt; discriminate).
      assert (Hdk : call_in_domain (m, src)) by (rewrite Forall_forall in Hd; apply Hd; eapply nth_error_In; exact Hk1).
      destruct (res_of_enc_output _ m src _ Hsk Hdk r HRk) as (A1 & A2 & A3 & A4 & A5 & A6 & A7 & A8).
      repeat (split; [assumption|]). exists (enc_output ((s + N.of_nat k) mod 4294967296) m src).
      repeat split; assumption.
  Qed.

  (* VARIANT with junk: before each message any bytes none of which is the first sync byte; the messages still come
     back, in order, each at its true offset; trailing junk shorter than a header stays buffered (not stated here) *)
  Fixpoint interleave (junks : list (list N)) (outs : list (list N)) : list N :=
    match junks, outs with
    | j :: js, o :: os => j ++ o ++ interleave js os
    | _, _ => []
    end.

  Fixpoint rebase_junk (off : nat) (junks outs : list (list N)) : list (frame (B := N)) :=
    match junks, outs with
    | j :: js, o :: os => ((off + length j)%nat, o) :: rebase_junk (off + length j + length o) js os
    | _, _ => []
    end.

  Lemma scan_interleave : forall junks outs off,
    length junks = length outs ->
    Forall (Forall (fun b => b <> SYNC0)) junks -> Forall (self_framed J) outs ->
    scan J off (interleave junks outs) = (rebase_junk off junks outs, ((off + length (interleave junks outs))%nat, [])).
  Proof.
    pose proof (judge_dec_ok parse_payload maxp maxe) as OKJ.
    induction junks as [|j js IH]; intros [|o os] off HL Hj Ho; try discriminate.
    - cbn [interleave rebase_junk length]. rewrite (scan_more _ _ _ (j_nil _ OKJ)), Nat.add_0_r. reflexivity.
    - inversion Hj; inversion Ho; subst. cbn [interleave rebase_junk].
      assert (H24 : (HEADER_SIZE <= length o)%nat).
      { match goal with H : self_framed _ o |- _ => unfold self_framed, PyDecoder_judge_dec, PyDecoder_judge in H; rewrite shorter_ltb in H end.
        destruct (Nat.ltb (length o) HEADER_SIZE) eqn:E; [discriminate|]. apply Nat.ltb_ge in E. exact E. }
      rewrite scan_skip_junk by (try assumption; rewrite app_length; lia).
      rewrite (scan_step_accept _ OKJ) by assumption.
      rewrite IH by (try assumption; cbn [length] in HL; lia).
      rewrite !app_length, !Nat.add_assoc. reflexivity.
  Qed.

  Theorem decodes_encoder_output_with_junk calls s junks chunks :
    Encoder_reachable s -> Forall call_in_domain calls -> Forall link_call_ok calls ->
    length junks = length calls -> Forall (Forall (fun b => b <> SYNC0)) junks ->
    concat chunks = interleave junks (enc_outs s calls) ->
    exists rss st',
      run init chunks = PdRunDone rss st' /\
      map Some (concat rss) = map res_of (rebase_junk 0 junks (enc_outs s calls)) /\
      pd_buf st' = [] /\ pd_processed st' = N.of_nat (length (concat chunks)).
  Proof.
    intros HR Hd Hk HL Hj HC. pose proof (reachable_u32 s HR) as Hs.
    destruct (run_is_scan parse_payload maxp maxe rb ro chunks) as (rss & st' & fs & HRun & HP & HS & HM).
    rewrite HC, scan_interleave in HS; [| rewrite enc_outs_length; exact HL | exact Hj | apply enc_outs_self_framed; assumption].
    injection HS as Hfs Hoff Hbuf. subst fs. exists rss, st'.
    refine (conj HRun (conj HM (conj (eq_sym Hbuf) _))). rewrite HC. cbn [Nat.add] in Hoff. lia.
  Qed.
End Link.

(* ---- real message bytes ------------------------------------------------------------------------------------ *)
Definition demo_calls : list (Encoder_payload * N) :=
  [ (mkPayload 13120 0 [0; 0; 0; 0; 0; 0; 0; 0; 1; 2; 3; 4]%N, 7%N); (mkPayload 20000 1 [9; 8; 7]%N, 0%N) ].

Lemma demo_calls_ok :
  Encoder_reachable 4294967295 /\ Forall call_in_domain demo_calls /\
  Forall (link_call_ok demo_parser M24 M24) demo_calls.
Proof.
  split; [|split].
  - assert (H : forall v, (v < 4294967296)%N -> Encoder_reachable v).
    { intros v. induction v as [|v IH] using N.peano_ind; intros Hv; [exact (Enc_init _)|].
      replace (N.succ v) with (Encoder_next_seq v).
      - apply Enc_step. apply IH. lia.
      - rewrite next_seq_eq, N.add_1_r. apply N.mod_small. exact Hv. }
    apply H. reflexivity.
  - repeat constructor.
  - repeat constructor; try discriminate; cbv; discriminate.
Qed.

(* the encoder at counter 2^32-1 produces sequence numbers 2^32-1 and 0; the decoder, fed the 63 bytes one at a time,
   returns both messages with those sequence numbers, offsets 0 and 36, the original payloads, and an empty buffer *)
Lemma demo_link_run :
  match Encoder_run 4294967295 demo_calls with
  | ([Some a; Some b], s') =>
      s' = 1%N /\
      match PyDecoder_run demo_parser M24 M24 true true false PyDecoder_init (map (fun x => [x]) (a ++ b)) with
      | PdRunDone rss st =>
          map (fun r => (h_type (pr_hdr r), h_seq (pr_hdr r), pr_payload r, pr_off r)) (concat rss) =
            [ (13120, 4294967295, [0; 0; 0; 0; 0; 0; 0; 0; 1; 2; 3; 4], Some 0); (20000, 0, [9; 8; 7], Some 36) ]%N /\
          map (fun r => pr_bytes r) (concat rss) = [Some a; Some b] /\ pd_buf st = [] /\ pd_processed st = 63%N
      | _ => False
      end
  | _ => False
  end.
Proof. vm_compute. repeat split; reflexivity. Qed.
