(* C06 proofs about the encoder / validator models (Models/EncoderM.v): header pack/parse round trip,
   encoder output validity, agreement of the three validators with the CRC test of Base/FEFormat.judge_fe,
   rejection of detected corruption, sequence numbers, and the pre-fix counter overflow. *)
From Coq Require Import NArith List Bool Lia Arith ZifyBool ZifyNat ZifyN.
From FEC Require Import Generated.FEConsts Generated.EncoderConsts Base.ListX Base.Bytes Base.Crc32 Base.Scan Base.FEFormat
  Models.EncoderM Proofs.CrcAlgebraP.
Import ListNotations.
Open Scope N_scope.

(* ---- the regenerated constants are the ones the transcription assumes (fails first, and fast, when the source
   moves the CRC region, the header layout or the counter modulus) ------------------------------------------- *)
Lemma generated_constants_as_transcribed :
  PY_CALC_CRC_START = 8%nat /\ PY_VALIDATE_CRC_START = 8%nat /\ CPP_CRC_OFFSET = 8%nat /\ CPP_HEADER_SIZE = HEADER_SIZE /\
  HEADER_SIZE = 24%nat /\ CPP_OFF_CRC = 4%nat /\ CPP_OFF_PSIZE = 16%nat /\ ENC_SEQ_MODULUS = 4294967296 /\
  CPP_SIZE_T_BITS = 64 /\ CPP_MAX_MESSAGE_SIZE_PROBED = CPP_MAX_MESSAGE_SIZE_BYTES /\
  (SYNC0 <? 256) && (SYNC1 <? 256) && (PROTOCOL_VERSION <? 256) = true /\ CPP_SYNC0 = SYNC0 /\ CPP_SYNC1 = SYNC1.
Proof. repeat split; reflexivity. Qed.

(* ---- the N-guarded acceptance test is judge_fe -------------------------------------------------------- *)
Theorem Encoder_judge_eq eager cr mp l : Encoder_judge eager cr mp l = judge_fe eager cr mp l.
Proof.
  unfold Encoder_judge, judge_fe.
  destruct (eager && sync_mismatch_early l); [reflexivity|].
  destruct (Nat.ltb (length l) HEADER_SIZE); [reflexivity|].
  set (h := parse_header (firstn HEADER_SIZE l)).
  destruct (negb (N.eqb (h_sync0 h) SYNC0 && N.eqb (h_sync1 h) SYNC1)); [reflexivity|].
  destruct (cr && negb (N.eqb (h_reserved h) 0)); [reflexivity|].
  destruct (N.ltb mp (h_psize h)); [reflexivity|].
  destruct (N.ltb_spec (N.of_nat (length l)) (N.of_nat HEADER_SIZE + h_psize h));
    destruct (Nat.ltb_spec (length l) (HEADER_SIZE + N.to_nat (h_psize h))); try reflexivity; lia.
Qed.

(* ---- struct.pack / struct.unpack round trip ------------------------------------------------------------ *)
Definition fields_fit (h : header) : Prop :=
  h_sync0 h < 256 /\ h_sync1 h < 256 /\ h_reserved h < 65536 /\ h_crc h < 4294967296 /\ h_proto h < 256 /\
  h_msgver h < 256 /\ h_type h < 65536 /\ h_seq h < 4294967296 /\ h_psize h < 4294967296 /\ h_source h < 4294967296.

Lemma fits_iff h : Encoder_fits h = true <-> fields_fit h.
Proof.
  unfold Encoder_fits, fields_fit. rewrite !andb_true_iff, !N.ltb_lt. tauto.
Qed.

Lemma pack_header_length h : length (pack_header h) = 24%nat.
Proof. unfold pack_header. rewrite !app_length, !le_enc_length. reflexivity. Qed.

Lemma pack_header_ok h : bytes_ok (pack_header h).
Proof.
  unfold pack_header. repeat (apply Forall_app; split); apply le_enc_wf.
Qed.

Lemma le1 v : v < 256 -> le (le_enc 1 v) = v.
Proof. intros H. apply le_le_enc. exact H. Qed.
Lemma le2 v : v < 65536 -> le (le_enc 2 v) = v.
Proof. intros H. apply le_le_enc. exact H. Qed.
Lemma le4 v : v < 4294967296 -> le (le_enc 4 v) = v.
Proof. intros H. apply le_le_enc. exact H. Qed.

Theorem parse_pack h : fields_fit h -> parse_header (pack_header h) = h.
Proof.
  destruct h as [s0 s1 rs c pr mv ty sq ps so]. unfold fields_fit. cbn [h_sync0 h_sync1 h_reserved h_crc h_proto h_msgver h_type h_seq h_psize h_source].
  intros (A0 & A1 & A2 & A3 & A4 & A5 & A6 & A7 & A8 & A9).
  unfold parse_header, pack_header, sub.
  cbn [h_sync0 h_sync1 h_reserved h_crc h_proto h_msgver h_type h_seq h_psize h_source le_enc app skipn firstn].
  change [s0 mod 256] with (le_enc 1 s0). change [s1 mod 256] with (le_enc 1 s1).
  change [rs mod 256; rs / 256 mod 256] with (le_enc 2 rs).
  change [c mod 256; c / 256 mod 256; c / 256 / 256 mod 256; c / 256 / 256 / 256 mod 256] with (le_enc 4 c).
  change [pr mod 256] with (le_enc 1 pr). change [mv mod 256] with (le_enc 1 mv).
  change [ty mod 256; ty / 256 mod 256] with (le_enc 2 ty).
  change [sq mod 256; sq / 256 mod 256; sq / 256 / 256 mod 256; sq / 256 / 256 / 256 mod 256] with (le_enc 4 sq).
  change [ps mod 256; ps / 256 mod 256; ps / 256 / 256 mod 256; ps / 256 / 256 / 256 mod 256] with (le_enc 4 ps).
  change [so mod 256; so / 256 mod 256; so / 256 / 256 mod 256; so / 256 / 256 / 256 mod 256] with (le_enc 4 so).
  rewrite !le1, !le2, !le4 by assumption. reflexivity.
Qed.

(* bytes 8.. of a packed header do not depend on the sync, reserved and crc fields *)
Lemma pack_header_tail h :
  skipn 8 (pack_header h) = le_enc 1 (h_proto h) ++ le_enc 1 (h_msgver h) ++ le_enc 2 (h_type h) ++ le_enc 4 (h_seq h) ++
                            le_enc 4 (h_psize h) ++ le_enc 4 (h_source h).
Proof. reflexivity. Qed.

Lemma pack_header_crc_bytes h : sub (pack_header h) 4 4 = le_enc 4 (h_crc h).
Proof. reflexivity. Qed.

(* ---- the encoder ------------------------------------------------------------------------------------------ *)
Definition Encoder_in_domain (seq : N) (m : Encoder_payload) (source : N) : Prop :=
  seq < 4294967296 /\ p_type m < 65536 /\ p_version m < 256 /\ source < 4294967296 /\
  N.of_nat (length (p_bytes m)) < 4294967296 /\ bytes_ok (p_bytes m).

Definition enc_header (seq : N) (m : Encoder_payload) (source crc : N) : header :=
  mkHeader SYNC0 SYNC1 0 crc PROTOCOL_VERSION (p_version m) (p_type m) seq (N.of_nat (length (p_bytes m))) source.

(* the protected region of the message the encoder builds, and its CRC *)
Definition enc_region (seq : N) (m : Encoder_payload) (source : N) : list N :=
  skipn 8 (pack_header (enc_header seq m source 0)) ++ p_bytes m.
Definition enc_crc (seq : N) (m : Encoder_payload) (source : N) : N := crc32 (enc_region seq m source).
Definition enc_output (seq : N) (m : Encoder_payload) (source : N) : list N :=
  pack_header (enc_header seq m source (enc_crc seq m source)) ++ p_bytes m.

Lemma enc_region_ok seq m source : bytes_ok (p_bytes m) -> bytes_ok (enc_region seq m source).
Proof.
  intros H. unfold enc_region. apply Forall_app. split; [|exact H]. apply Forall_skipn. apply pack_header_ok.
Qed.

Lemma enc_crc_u32 seq m source : bytes_ok (p_bytes m) -> enc_crc seq m source < 4294967296.
Proof. intros H. apply (crc32_from_u32 0); [reflexivity|apply enc_region_ok; exact H]. Qed.

Lemma enc_header_fits seq m source crc : Encoder_in_domain seq m source -> crc < 4294967296 ->
  fields_fit (enc_header seq m source crc).
Proof.
  intros (A & B & C & D & E & F) Hc. unfold fields_fit, enc_header.
  cbn [h_sync0 h_sync1 h_reserved h_crc h_proto h_msgver h_type h_seq h_psize h_source].
  repeat split; try assumption; reflexivity.
Qed.

(* what encode_message returns, in closed form *)
Theorem encode_closed_form next seq m source : Encoder_in_domain seq m source ->
  Encoder_encode_with next seq m source = (Some (enc_output seq m source), next seq).
Proof.
  intros D. pose proof D as (A & B & C & D' & E & F).
  unfold Encoder_encode_with, Encoder_pack_payload, Encoder_calculate_crc, Encoder_pack_plain, Encoder_struct_pack.
  unfold Encoder_new_header, Encoder_set_reserved, Encoder_set_psize, Encoder_set_crc.
  cbn [h_sync0 h_sync1 h_reserved h_crc h_proto h_msgver h_type h_seq h_psize h_source].
  fold (enc_header seq m source 0).
  rewrite (proj2 (fits_iff _) (enc_header_fits seq m source 0 D ltac:(reflexivity))).
  cbn [h_sync0 h_sync1 h_reserved h_crc h_proto h_msgver h_type h_seq h_psize h_source enc_header].
  fold (enc_header seq m source 0).
  assert (Ecrc : Encoder_zlib_crc32 (p_bytes m) (Encoder_zlib_crc32 (skipn PY_CALC_CRC_START (pack_header (enc_header seq m source 0))) 0)
                 = enc_crc seq m source).
  { unfold Encoder_zlib_crc32, crc32_spec_from. rewrite <- crc32_from_app. unfold enc_crc, crc32.
    rewrite crc32_from_eq_spec by (apply enc_region_ok; exact F). reflexivity. }
  rewrite Ecrc. fold (enc_header seq m source (enc_crc seq m source)).
  rewrite (proj2 (fits_iff _) (enc_header_fits seq m source _ D (enc_crc_u32 seq m source F))).
  reflexivity.
Qed.

(* the CRC test of judge_fe on a whole message l *)
Definition crc_ok_at (l : list N) : Prop :=
  let h := parse_header (firstn HEADER_SIZE l) in
  crc32 (crc_region l (HEADER_SIZE + N.to_nat (h_psize h))) = h_crc h.

Lemma firstn_24_output h p : firstn HEADER_SIZE (pack_header h ++ p) = pack_header h.
Proof. unfold HEADER_SIZE. rewrite <- (pack_header_length h). apply firstn_app_exact. Qed.

Lemma skipn_24_output h p : skipn HEADER_SIZE (pack_header h ++ p) = p.
Proof. unfold HEADER_SIZE. rewrite <- (pack_header_length h). apply skipn_app_exact. Qed.

Lemma crc_region_whole l : (8 <= length l)%nat -> crc_region l (length l) = skipn 8 l.
Proof. intros H. unfold crc_region, sub. apply firstn_all2. rewrite skipn_length. lia. Qed.

Lemma skipn_8_output h p : skipn 8 (pack_header h ++ p) = skipn 8 (pack_header h) ++ p.
Proof. rewrite skipn_app, pack_header_length. reflexivity. Qed.

Theorem enc_output_facts seq m source : Encoder_in_domain seq m source ->
  let out := enc_output seq m source in
  let h := parse_header (firstn HEADER_SIZE out) in
  length out = (HEADER_SIZE + length (p_bytes m))%nat /\ bytes_ok out /\
  h = enc_header seq m source (enc_crc seq m source) /\
  skipn HEADER_SIZE out = p_bytes m /\
  crc_region out (length out) = enc_region seq m source /\
  crc_ok_at out /\ frame_crc_ok out.
Proof.
  intros D. pose proof D as (A & B & C & D' & E & F). cbn zeta.
  assert (Hfit := enc_header_fits seq m source _ D (enc_crc_u32 seq m source F)).
  assert (L : length (enc_output seq m source) = (HEADER_SIZE + length (p_bytes m))%nat)
    by (unfold enc_output; rewrite app_length, pack_header_length; reflexivity).
  assert (P : parse_header (firstn HEADER_SIZE (enc_output seq m source)) = enc_header seq m source (enc_crc seq m source))
    by (unfold enc_output; rewrite firstn_24_output; apply parse_pack; exact Hfit).
  assert (Rg : crc_region (enc_output seq m source) (length (enc_output seq m source)) = enc_region seq m source).
  { rewrite crc_region_whole by (rewrite L; unfold HEADER_SIZE; lia). unfold enc_output. rewrite skipn_8_output. reflexivity. }
  split; [exact L|]. split; [|split; [exact P|split; [|split; [exact Rg|split]]]].
  - unfold enc_output. apply Forall_app. split; [apply pack_header_ok|exact F].
  - unfold enc_output. apply skipn_24_output.
  - unfold crc_ok_at. rewrite P. cbn [h_psize h_crc enc_header]. rewrite Nat2N.id, <- L, Rg. reflexivity.
  - unfold frame_crc_ok. unfold enc_output at 2. rewrite sub_app_l by (rewrite pack_header_length; lia).
    rewrite pack_header_crc_bytes. cbn [h_crc enc_header]. rewrite le4 by (apply enc_crc_u32; exact F).
    rewrite <- crc_region_whole by (rewrite L; unfold HEADER_SIZE; lia). rewrite Rg. reflexivity.
Qed.

(* ---- the three validators compute the CRC test of judge_fe ---------------------------------------------- *)
Lemma crc_region_ok l n : bytes_ok l -> bytes_ok (crc_region l n).
Proof. intros H. unfold crc_region, sub. apply Forall_firstn, Forall_skipn. exact H. Qed.

Lemma psize_u32 l : bytes_ok l -> (HEADER_SIZE <= length l)%nat ->
  h_psize (parse_header (firstn HEADER_SIZE l)) < 4294967296.
Proof.
  intros H L. cbn [parse_header h_psize].
  pose proof (le_bound (sub (firstn HEADER_SIZE l) 16 4)) as B.
  rewrite sub_length in B by (rewrite firstn_length; unfold HEADER_SIZE in *; lia).
  apply B. apply bytes_wf_sub. apply Forall_firstn. exact H.
Qed.

Lemma py_slice_region l psize : (HEADER_SIZE + N.to_nat psize <= length l)%nat ->
  Encoder_py_slice l (0 + N.of_nat PY_VALIDATE_CRC_START) (0 + (N.of_nat HEADER_SIZE + psize)) =
  crc_region l (HEADER_SIZE + N.to_nat psize).
Proof.
  intros H. unfold Encoder_py_slice, crc_region, sub, PY_VALIDATE_CRC_START, HEADER_SIZE in *.
  rewrite !N.min_l by lia. f_equal. lia.
Qed.

(* MessageHeader.unpack(buffer, validate_crc=True) *)
Theorem validate_crc_eq l : bytes_ok l -> (HEADER_SIZE <= length l)%nat ->
  let h := parse_header (firstn HEADER_SIZE l) in
  let n := (HEADER_SIZE + N.to_nat (h_psize h))%nat in
  (n <= length l)%nat ->
  Encoder_unpack_validate l =
  Some (h, if MAX_EXPECTED_SIZE_BYTES <? h_psize h then VcTooBig
           else if crc32 (crc_region l n) =? h_crc h then VcOk else VcMismatch).
Proof.
  intros H L h n Ln. unfold Encoder_unpack_validate.
  destruct (Nat.ltb_spec (length l) HEADER_SIZE); [lia|]. fold h. f_equal. f_equal.
  unfold Encoder_validate_crc. destruct (MAX_EXPECTED_SIZE_BYTES <? h_psize h); [reflexivity|].
  destruct (N.ltb_spec (N.of_nat (length l)) (0 + (N.of_nat HEADER_SIZE + h_psize h))); [subst n; lia|].
  rewrite py_slice_region by exact Ln. unfold Encoder_zlib_crc32.
  rewrite <- crc32_from_eq_spec by (apply crc_region_ok; exact H). reflexivity.
Qed.

(* CalculateCRC(buffer) and IsValid(buffer) of crc.cc / crc.h *)
Lemma cpp_psize_eq l : (HEADER_SIZE <= length l)%nat ->
  Encoder_cpp_psize l = h_psize (parse_header (firstn HEADER_SIZE l)).
Proof. intros L. cbn [parse_header h_psize]. unfold Encoder_cpp_psize, CPP_OFF_PSIZE. rewrite sub_firstn by (unfold HEADER_SIZE; lia). reflexivity. Qed.

Lemma cpp_stored_crc_eq l : (HEADER_SIZE <= length l)%nat ->
  Encoder_cpp_stored_crc l = h_crc (parse_header (firstn HEADER_SIZE l)).
Proof. intros L. cbn [parse_header h_crc]. unfold Encoder_cpp_stored_crc, CPP_OFF_CRC. rewrite sub_firstn by (unfold HEADER_SIZE; lia). reflexivity. Qed.

Lemma size_t_small x : x < 2 ^ 33 -> Encoder_size_t x = x.
Proof.
  intros H. unfold Encoder_size_t. apply N.mod_small. eapply N.lt_trans; [exact H|]. reflexivity.
Qed.

Theorem cpp_crc1_eq l : bytes_ok l -> (HEADER_SIZE <= length l)%nat ->
  let h := parse_header (firstn HEADER_SIZE l) in
  let n := (HEADER_SIZE + N.to_nat (h_psize h))%nat in
  (n <= length l)%nat ->
  Encoder_cpp_crc1 l = Some (crc32 (crc_region l n)).
Proof.
  intros H L h n Ln. pose proof (psize_u32 l H L) as P. fold h in P.
  unfold Encoder_cpp_crc1. change CPP_HEADER_SIZE with HEADER_SIZE.
  destruct (Nat.ltb_spec (length l) HEADER_SIZE); [lia|].
  rewrite cpp_psize_eq by exact L. fold h.
  rewrite size_t_small by (unfold HEADER_SIZE, CPP_CRC_OFFSET; change (2 ^ 33) with 8589934592; lia).
  unfold HEADER_SIZE, CPP_CRC_OFFSET in *.
  destruct (N.ltb_spec (N.of_nat (length l)) (N.of_nat 8 + (N.of_nat (24 - 8) + h_psize h))); [lia|].
  unfold Encoder_cpp_crc3. rewrite skipn_length.
  destruct (N.ltb_spec (N.of_nat (length l - 8)) (N.of_nat (24 - 8) + h_psize h)); [lia|].
  f_equal. unfold crc32, crc_region, sub. f_equal. f_equal. subst n. lia.
Qed.

Theorem cpp_is_valid_eq l : bytes_ok l -> (HEADER_SIZE <= length l)%nat ->
  let h := parse_header (firstn HEADER_SIZE l) in
  let n := (HEADER_SIZE + N.to_nat (h_psize h))%nat in
  (n <= length l)%nat ->
  Encoder_cpp_is_valid l =
  Some (if CPP_MAX_MESSAGE_SIZE_BYTES <? N.of_nat HEADER_SIZE + h_psize h then false
        else h_crc h =? crc32 (crc_region l n)).
Proof.
  intros H L h n Ln. pose proof (psize_u32 l H L) as P. fold h in P.
  unfold Encoder_cpp_is_valid. change CPP_HEADER_SIZE with HEADER_SIZE.
  destruct (Nat.ltb_spec (length l) HEADER_SIZE); [lia|].
  rewrite cpp_psize_eq by exact L. fold h.
  rewrite size_t_small by (unfold HEADER_SIZE; change (2 ^ 33) with 8589934592; lia).
  destruct (CPP_MAX_MESSAGE_SIZE_BYTES <? N.of_nat HEADER_SIZE + h_psize h); [reflexivity|].
  rewrite (cpp_crc1_eq l H L Ln), cpp_stored_crc_eq by exact L. reflexivity.
Qed.

(* judge_fe on a buffer that holds the whole claimed message *)
Theorem judge_fe_eq l eager cr mp : (HEADER_SIZE <= length l)%nat ->
  let h := parse_header (firstn HEADER_SIZE l) in
  let n := (HEADER_SIZE + N.to_nat (h_psize h))%nat in
  (n <= length l)%nat ->
  judge_fe eager cr mp l =
  if eager && sync_mismatch_early l then Reject else
  if negb (N.eqb (h_sync0 h) SYNC0 && N.eqb (h_sync1 h) SYNC1) then Reject else
  if cr && negb (N.eqb (h_reserved h) 0) then Reject else
  if N.ltb mp (h_psize h) then Reject else
  if crc32 (crc_region l n) =? h_crc h then Accept n else Reject.
Proof.
  intros L h n Ln. unfold judge_fe. fold h. fold n.
  destruct (Nat.ltb_spec (length l) HEADER_SIZE); [lia|].
  destruct (Nat.ltb_spec (length l) n); [lia|]. reflexivity.
Qed.

(* ---- encoder_valid ----------------------------------------------------------------------------------------- *)
Lemma enc_output_sync seq m source : sync_mismatch_early (enc_output seq m source) = false.
Proof. reflexivity. Qed.

Theorem encoder_valid next seq m source eager cr mp : Encoder_in_domain seq m source ->
  exists out, Encoder_encode_with next seq m source = (Some out, next seq) /\
  let h := parse_header (firstn HEADER_SIZE out) in
  length out = (HEADER_SIZE + length (p_bytes m))%nat /\
  h_sync0 h = SYNC0 /\ h_sync1 h = SYNC1 /\ h_reserved h = 0 /\ h_proto h = PROTOCOL_VERSION /\
  h_type h = p_type m /\ h_msgver h = p_version m /\ h_seq h = seq /\ h_source h = source /\
  h_psize h = N.of_nat (length (p_bytes m)) /\ skipn HEADER_SIZE out = p_bytes m /\
  h_crc h = crc32 (skipn 8 out) /\
  (h_psize h <= MAX_EXPECTED_SIZE_BYTES -> Encoder_unpack_validate out = Some (h, VcOk)) /\
  Encoder_cpp_crc1 out = Some (h_crc h) /\
  (N.of_nat HEADER_SIZE + h_psize h <= CPP_MAX_MESSAGE_SIZE_BYTES -> Encoder_cpp_is_valid out = Some true) /\
  (h_psize h <= mp -> judge_fe eager cr mp out = Accept (length out)).
Proof.
  intros D. exists (enc_output seq m source). split; [apply encode_closed_form; exact D|].
  destruct (enc_output_facts seq m source D) as (L & Hok & P & Pl & Rg & Cok & Fok). cbn zeta.
  set (out := enc_output seq m source) in *. set (h := parse_header (firstn HEADER_SIZE out)) in *.
  assert (L24 : (HEADER_SIZE <= length out)%nat) by lia.
  assert (Ln : (HEADER_SIZE + N.to_nat (h_psize h) <= length out)%nat) by (rewrite P; cbn [h_psize enc_header]; lia).
  assert (Nn : (HEADER_SIZE + N.to_nat (h_psize h))%nat = length out) by (rewrite P; cbn [h_psize enc_header]; lia).
  unfold crc_ok_at in Cok. fold h in Cok.
  split; [exact L|]. rewrite P at 1 2 3 4 5 6 7 8 9. cbn [h_sync0 h_sync1 h_reserved h_proto h_type h_msgver h_seq h_source h_psize enc_header].
  do 9 (split; [reflexivity|]). split; [exact Pl|].
  split; [rewrite <- Cok, Nn; apply f_equal, crc_region_whole; unfold HEADER_SIZE in *; lia|].
  split; [|split; [|split]].
  - intros Hmax. rewrite (validate_crc_eq out Hok L24 Ln). fold h.
    destruct (N.ltb_spec MAX_EXPECTED_SIZE_BYTES (h_psize h)); [lia|]. rewrite Cok, N.eqb_refl. reflexivity.
  - rewrite (cpp_crc1_eq out Hok L24 Ln). fold h. rewrite Cok. reflexivity.
  - intros Hmax. rewrite (cpp_is_valid_eq out Hok L24 Ln). fold h.
    destruct (N.ltb_spec CPP_MAX_MESSAGE_SIZE_BYTES (N.of_nat HEADER_SIZE + h_psize h)); [lia|]. rewrite Cok, N.eqb_refl. reflexivity.
  - intros Hmp. rewrite (judge_fe_eq out eager cr mp L24 Ln). fold h.
    unfold out at 1. rewrite enc_output_sync, andb_false_r.
    assert (S0 : h_sync0 h = SYNC0) by (rewrite P; reflexivity).
    assert (S1 : h_sync1 h = SYNC1) by (rewrite P; reflexivity).
    assert (R0 : h_reserved h = 0) by (rewrite P; reflexivity).
    rewrite S0, S1, R0, !N.eqb_refl. cbn [andb negb]. rewrite andb_false_r.
    destruct (N.ltb_spec mp (h_psize h)); [lia|]. rewrite Cok, N.eqb_refl, Nn. reflexivity.
Qed.

(* ---- the sequence counter --------------------------------------------------------------------------------- *)
Lemma next_seq_eq s : Encoder_next_seq s = (s + 1) mod 4294967296.
Proof. reflexivity. Qed.

Lemma reachable_u32 s : Encoder_reachable s -> s < 4294967296.
Proof. intros H. destruct H; [reflexivity|]. rewrite next_seq_eq. apply N.mod_lt. discriminate. Qed.

Definition call_in_domain (c : Encoder_payload * N) : Prop :=
  p_type (fst c) < 65536 /\ p_version (fst c) < 256 /\ snd c < 4294967296 /\
  N.of_nat (length (p_bytes (fst c))) < 4294967296 /\ bytes_ok (p_bytes (fst c)).

Lemma in_domain_of_call s c : s < 4294967296 -> call_in_domain c -> Encoder_in_domain s (fst c) (snd c).
Proof. intros Hs (A & B & C & D & E). repeat split; assumption. Qed.

(* a history of calls: the k-th call (from 0) returns the message with sequence number (s + k) mod 2^32 *)
Theorem encoder_run_spec : forall calls s, s < 4294967296 -> Forall call_in_domain calls ->
  snd (Encoder_run s calls) = (s + N.of_nat (length calls)) mod 4294967296 /\
  forall k m src, nth_error calls k = Some (m, src) ->
    nth_error (fst (Encoder_run s calls)) k = Some (Some (enc_output ((s + N.of_nat k) mod 4294967296) m src)).
Proof.
  induction calls as [|[m0 src0] t IH]; intros s Hs Hd.
  - split; [cbn [Encoder_run Encoder_run_with snd length N.of_nat]; rewrite N.add_0_r, N.mod_small by exact Hs; reflexivity|].
    intros [|k] m src H; discriminate.
  - inversion Hd as [|? ? Hc Ht]; subst.
    unfold Encoder_run in *. cbn [Encoder_run_with].
    rewrite (encode_closed_form Encoder_next_seq s m0 src0 (in_domain_of_call s (m0, src0) Hs Hc)).
    assert (Hs1 : Encoder_next_seq s < 4294967296) by (rewrite next_seq_eq; apply N.mod_lt; discriminate).
    destruct (IH (Encoder_next_seq s) Hs1 Ht) as [I1 I2].
    destruct (Encoder_run_with Encoder_next_seq (Encoder_next_seq s) t) as [os s2] eqn:E.
    cbn [fst snd] in *. split.
    + rewrite I1, next_seq_eq. cbn [length]. rewrite Nat2N.inj_succ, N.add_mod_idemp_l by discriminate. f_equal. lia.
    + intros [|k] m src H; cbn [nth_error] in *.
      * inversion H; subst. rewrite N.add_0_r, N.mod_small by exact Hs. reflexivity.
      * rewrite (I2 k m src H), next_seq_eq, N.add_mod_idemp_l by discriminate. do 3 f_equal. lia.
Qed.

(* before the repair: the counter is a Python int; state 2^32 is reached and the next call raises *)
Lemma reachable_legacy_all n : Encoder_reachable_legacy n.
Proof.
  induction n using N.peano_ind; [constructor|].
  rewrite <- N.add_1_r. change (n + 1) with (Encoder_next_seq_legacy n). constructor. exact IHn.
Qed.

Definition legacy_witness : Encoder_payload := mkPayload 60000 0 [].

Theorem encoder_seq_overflow_refuted :
  ~ (forall s m src, Encoder_reachable_legacy s -> call_in_domain (m, src) ->
       exists out, fst (Encoder_encode_legacy s m src) = Some out).
Proof.
  intros H. destruct (H 4294967296 legacy_witness 0 (reachable_legacy_all _)) as [out E].
  - unfold call_in_domain, legacy_witness. cbn [fst snd p_type p_version p_bytes length N.of_nat]. repeat split; try reflexivity. constructor.
  - vm_compute in E. discriminate.
Qed.

Lemma legacy_two_calls :
  let r := Encoder_run_legacy 4294967295 [(legacy_witness, 0); (legacy_witness, 0)] in
  nth_error (fst r) 1 = Some None /\ snd r = 4294967297.
Proof. vm_compute. split; reflexivity. Qed.

(* ---- corrupted frames are rejected ------------------------------------------------------------------------- *)
Lemma frame_crc_ok_iff l : (HEADER_SIZE <= length l)%nat ->
  (frame_crc_ok l <-> crc32 (crc_region l (length l)) = h_crc (parse_header (firstn HEADER_SIZE l))).
Proof.
  intros L. unfold frame_crc_ok. rewrite crc_region_whole by (unfold HEADER_SIZE in L; lia).
  cbn [parse_header h_crc]. rewrite sub_firstn by (unfold HEADER_SIZE; lia). reflexivity.
Qed.

(* a message accepted whole by judge_fe *)
Definition frame_valid (eager cr : bool) (mp : N) (m : list N) : Prop := judge_fe eager cr mp m = Accept (length m).

Lemma frame_valid_inv eager cr mp m : frame_valid eager cr mp m ->
  (HEADER_SIZE <= length m)%nat /\
  length m = (HEADER_SIZE + N.to_nat (h_psize (parse_header (firstn HEADER_SIZE m))))%nat /\
  h_psize (parse_header (firstn HEADER_SIZE m)) <= mp /\ frame_crc_ok m.
Proof.
  intros H. apply judge_fe_accept_inv in H. cbn zeta in H. destruct H as (L & _ & _ & _ & Hp & Hn & _ & Hc).
  repeat split; try assumption. apply frame_crc_ok_iff; [exact L|]. exact Hc.
Qed.

Section Reject.
  Variables (eager cr : bool) (mp : N) (m e rest : list N).
  Hypothesis Hm : bytes_ok m.
  Hypothesis Hv : frame_valid eager cr mp m.
  Hypothesis He : bytes_ok e.
  Hypothesis Le : length e = length m.
  Hypothesis Hr : bytes_ok rest.
  Let m' := Encoder_xor_bytes m e.
  (* the size field reads the same after corruption, and the corruption fails the CRC test *)
  Hypothesis Hsize : h_psize (parse_header (firstn HEADER_SIZE m')) = h_psize (parse_header (firstn HEADER_SIZE m)).
  Hypothesis Hbad : ~ frame_crc_ok m'.

  Let l := m' ++ rest.

  Lemma reject_common :
    (HEADER_SIZE <= length l)%nat /\ bytes_ok l /\
    firstn HEADER_SIZE l = firstn HEADER_SIZE m' /\
    (HEADER_SIZE + N.to_nat (h_psize (parse_header (firstn HEADER_SIZE l))))%nat = length m' /\
    (crc32 (crc_region l (length m')) =? h_crc (parse_header (firstn HEADER_SIZE l))) = false.
  Proof.
    destruct (frame_valid_inv _ _ _ _ Hv) as (L & Ln & Hp & Hc).
    assert (Lm' : length m' = length m) by (apply xor_bytes_length; symmetry; exact Le).
    assert (F : firstn HEADER_SIZE l = firstn HEADER_SIZE m') by (apply firstn_app_ge; lia).
    split; [unfold l; rewrite app_length; lia|].
    split; [apply Forall_app; split; [apply xor_bytes_ok; assumption|exact Hr]|].
    split; [exact F|]. split; [rewrite F, Hsize, Lm'; symmetry; exact Ln|].
    apply N.eqb_neq. intros E. apply Hbad. apply frame_crc_ok_iff; [lia|].
    rewrite <- F, <- E. unfold l, crc_region. rewrite sub_app_l by (unfold HEADER_SIZE in *; lia). reflexivity.
  Qed.

  (* the scanners' acceptance test rejects at this offset, whatever follows *)
  Theorem corrupt_rejected_by_judge : judge_fe eager cr mp l = Reject.
  Proof.
    destruct reject_common as (L & Hl & F & N' & C).
    rewrite (judge_fe_eq l eager cr mp L) by (rewrite N'; unfold l; rewrite app_length; lia).
    rewrite N', C.
    destruct (eager && sync_mismatch_early l); [reflexivity|].
    destruct (negb _); [reflexivity|]. destruct (cr && _); [reflexivity|]. destruct (mp <? _); reflexivity.
  Qed.

  (* MessageHeader.unpack(validate_crc=True) raises *)
  Theorem corrupt_rejected_by_validate_crc :
    exists h v, Encoder_unpack_validate l = Some (h, v) /\ v <> VcOk.
  Proof.
    destruct reject_common as (L & Hl & F & N' & C).
    rewrite (validate_crc_eq l Hl L) by (rewrite N'; unfold l; rewrite app_length; lia).
    rewrite N', C. eexists. eexists. split; [reflexivity|].
    destruct (MAX_EXPECTED_SIZE_BYTES <? _); discriminate.
  Qed.

  (* IsValid() returns false *)
  Theorem corrupt_rejected_by_is_valid : Encoder_cpp_is_valid l = Some false.
  Proof.
    destruct reject_common as (L & Hl & F & N' & C).
    rewrite (cpp_is_valid_eq l Hl L) by (rewrite N'; unfold l; rewrite app_length; lia).
    rewrite N', N.eqb_sym, C. destruct (CPP_MAX_MESSAGE_SIZE_BYTES <? _); reflexivity.
  Qed.
End Reject.

(* when the corruption changes what the size field reads, the original extent is never accepted *)
Theorem corrupt_size_field_never_same_length eager cr mp m e rest :
  frame_valid eager cr mp m -> length e = length m ->
  h_psize (parse_header (firstn HEADER_SIZE (Encoder_xor_bytes m e))) <> h_psize (parse_header (firstn HEADER_SIZE m)) ->
  judge_fe eager cr mp (Encoder_xor_bytes m e ++ rest) <> Accept (length m).
Proof.
  intros Hv Le Hne A. destruct (frame_valid_inv _ _ _ _ Hv) as (L & Ln & _ & _).
  apply judge_fe_accept_inv in A. cbn zeta in A. destruct A as (_ & _ & _ & _ & _ & Hn & _ & _).
  rewrite firstn_app_ge in Hn by (rewrite xor_bytes_length; [lia|symmetry; exact Le]).
  apply Hne. rewrite Ln in Hn. lia.
Qed.

(* the size field is not touched when the error is zero on bytes 16..19 *)
Lemma xor_bytes_skipn : forall n a b, skipn n (Encoder_xor_bytes a b) = Encoder_xor_bytes (skipn n a) (skipn n b).
Proof.
  induction n as [|n IH]; intros a b; [reflexivity|].
  destruct a as [|x a]; [reflexivity|]. destruct b as [|y b]; [destruct (skipn (S n) (x :: a)); reflexivity|].
  cbn [Encoder_xor_bytes skipn]. apply IH.
Qed.

Lemma xor_bytes_firstn : forall n a b, firstn n (Encoder_xor_bytes a b) = Encoder_xor_bytes (firstn n a) (firstn n b).
Proof.
  induction n as [|n IH]; intros a b; [reflexivity|].
  destruct a as [|x a]; [reflexivity|]. destruct b as [|y b]; [reflexivity|].
  cbn [Encoder_xor_bytes firstn]. f_equal. apply IH.
Qed.

Theorem size_field_untouched m e : (HEADER_SIZE <= length m)%nat -> length e = length m ->
  sub e 16 4 = repeat 0 4 ->
  h_psize (parse_header (firstn HEADER_SIZE (Encoder_xor_bytes m e))) = h_psize (parse_header (firstn HEADER_SIZE m)).
Proof.
  intros L Le Z. cbn [parse_header h_psize]. rewrite !sub_firstn by (unfold HEADER_SIZE; lia).
  unfold sub in *. rewrite xor_bytes_skipn, xor_bytes_firstn, Z.
  assert (L4 : length (firstn 4 (skipn 16 m)) = 4%nat) by (rewrite firstn_length, skipn_length; unfold HEADER_SIZE in L; lia).
  replace (repeat 0 4) with (repeat 0 (length (firstn 4 (skipn 16 m)))) by (rewrite L4; reflexivity).
  rewrite xor_bytes_zeros. reflexivity.
Qed.

(* ---- the size field itself is protected only by the CRC whose extent it fixes ------------------------------ *)
(* a valid 28-byte message; flipping bit 2 of byte 16 (payload_size 4 -> 0) leaves a CRC-valid 24-byte message *)
Definition size_flip_msg : list N :=
  [46;49;0;0;112;120;0;115;2;0;96;234;0;0;0;0;4;0;0;0;0;0;0;0;127;33;91;30].
Definition size_flip_err : list N := repeat 0 16 ++ [4] ++ repeat 0 11.

Theorem detect_one_bit_size_field_refuted :
  frame_valid false true MAX_EXPECTED_SIZE_BYTES size_flip_msg /\ bytes_ok size_flip_msg /\
  length size_flip_err = length size_flip_msg /\
  Encoder_bits size_flip_err = repeat false 130 ++ [true] ++ repeat false 93 /\
  let m' := Encoder_xor_bytes size_flip_msg size_flip_err in
  judge_fe false true MAX_EXPECTED_SIZE_BYTES m' = Accept 24 /\
  judge_fe true true MAX_EXPECTED_SIZE_BYTES m' = Accept 24 /\
  (exists h, Encoder_unpack_validate m' = Some (h, VcOk)) /\
  Encoder_cpp_is_valid m' = Some true.
Proof.
  split; [vm_compute; reflexivity|]. split; [unfold bytes_ok; repeat constructor|].
  split; [reflexivity|]. split; [vm_compute; reflexivity|]. cbn zeta.
  split; [vm_compute; reflexivity|]. split; [vm_compute; reflexivity|].
  split; [eexists; vm_compute; reflexivity|vm_compute; reflexivity].
Qed.

(* ---- the detection classes, at the level of the validators ---------------------------------------------------- *)
Definition rejected_everywhere (eager cr : bool) (mp : N) (l : list N) : Prop :=
  judge_fe eager cr mp l = Reject /\
  (exists h v, Encoder_unpack_validate l = Some (h, v) /\ v <> VcOk) /\
  Encoder_cpp_is_valid l = Some false.

Lemma err_length eC eR : length eC = 4%nat -> length (Encoder_err eC eR) = (8 + length eR)%nat.
Proof. intros H. unfold Encoder_err. rewrite !app_length, repeat_length, H. reflexivity. Qed.

Lemma err_ok eC eR : bytes_ok eC -> bytes_ok eR -> bytes_ok (Encoder_err eC eR).
Proof. intros A B. unfold Encoder_err. apply Forall_app. split; [apply bytes_ok_zeros|]. apply Forall_app. split; assumption. Qed.

Lemma err_sub16 eC eR : length eC = 4%nat -> sub (Encoder_err eC eR) 16 4 = sub eR 8 4.
Proof.
  intros H. unfold sub, Encoder_err. rewrite !skipn_app, repeat_length, H.
  rewrite (skipn_all2 (repeat 0 4)) by (rewrite repeat_length; lia).
  rewrite (skipn_all2 eC) by lia. reflexivity.
Qed.

Lemma sub_zeros k a n : (a + n <= k)%nat -> sub (repeat 0 k) a n = repeat 0 n.
Proof.
  intros H. unfold sub. replace k with (a + (n + (k - a - n)))%nat by lia.
  rewrite !repeat_app. rewrite <- (repeat_length 0 a) at 1. rewrite skipn_app_exact.
  rewrite <- (repeat_length 0 n) at 1. apply firstn_app_exact.
Qed.

Section Classes.
  Variables (eager cr : bool) (mp : N) (m eC eR rest : list N).
  Hypothesis Hm : bytes_ok m.
  Hypothesis Hv : frame_valid eager cr mp m.
  Hypothesis HC : bytes_ok eC.
  Hypothesis HR : bytes_ok eR.
  Hypothesis LC : length eC = 4%nat.
  Hypothesis Lm : length m = (8 + length eR)%nat.
  Hypothesis Hr : bytes_ok rest.
  Let m' := Encoder_xor_bytes m (Encoder_err eC eR).
  Let l := m' ++ rest.

  Lemma reject_of_bad :
    h_psize (parse_header (firstn HEADER_SIZE m')) = h_psize (parse_header (firstn HEADER_SIZE m)) ->
    ~ frame_crc_ok m' -> rejected_everywhere eager cr mp l.
  Proof.
    intros Hs Hb. assert (Le : length (Encoder_err eC eR) = length m) by (rewrite err_length; [symmetry|]; assumption).
    pose proof (err_ok eC eR HC HR) as He.
    split; [|split].
    - apply (corrupt_rejected_by_judge eager cr mp m (Encoder_err eC eR) rest); assumption.
    - apply (corrupt_rejected_by_validate_crc eager cr mp m (Encoder_err eC eR) rest); assumption.
    - apply (corrupt_rejected_by_is_valid eager cr mp m (Encoder_err eC eR) rest); assumption.
  Qed.

  Let Hok : frame_crc_ok m := proj2 (proj2 (proj2 (frame_valid_inv _ _ _ _ Hv))).

  Lemma region_len_bound : mp + 20 < 2 ^ 29 -> 8 * N.of_nat (length eR) + 32 < 2 ^ 32.
  Proof.
    intros Hmp. pose proof (frame_valid_inv _ _ _ _ Hv) as (L & Ln & Hp & _).
    change (2 ^ 29) with 536870912 in Hmp. change (2 ^ 32) with 4294967296. unfold HEADER_SIZE in *. lia.
  Qed.

  (* any non-zero error confined to the CRC field (so also: one bit, two bits, any burst inside the field) *)
  Theorem reject_crc_field_error :
    eR = repeat 0 (length eR) -> (exists b, In b eC /\ b <> 0) -> rejected_everywhere eager cr mp l.
  Proof.
    intros Z NZ. apply reject_of_bad.
    - pose proof (frame_valid_inv _ _ _ _ Hv) as (L & _). apply size_field_untouched; [exact L|rewrite err_length; [symmetry|]; assumption|].
      rewrite err_sub16 by exact LC. rewrite Z. apply sub_zeros. unfold HEADER_SIZE in L. lia.
    - exact (detect_any_crc_field_error m eC eR Hm HC HR LC Lm Hok Z NZ).
  Qed.

  Hypothesis Hsize : h_psize (parse_header (firstn HEADER_SIZE m')) = h_psize (parse_header (firstn HEADER_SIZE m)).

  (* any burst of at most 32 bits inside the protected region *)
  Theorem reject_burst32 p W q :
    eC = repeat 0 4 -> Encoder_bits eR = repeat false p ++ W ++ repeat false q -> (length W <= 32)%nat -> In true W ->
    rejected_everywhere eager cr mp l.
  Proof. intros Z E LW T. apply reject_of_bad; [exact Hsize|]. exact (detect_burst32 m eC eR Hm HC HR LC Lm Hok p W q Z E LW T). Qed.

  Theorem reject_one_bit_region p q :
    eC = repeat 0 4 -> Encoder_bits eR = repeat false p ++ [true] ++ repeat false q -> rejected_everywhere eager cr mp l.
  Proof. intros Z E. apply reject_of_bad; [exact Hsize|]. exact (detect_one_bit_region m eC eR Hm HC HR LC Lm Hok p q Z E). Qed.

  (* two flipped bits in the region *)
  Theorem reject_two_bits_region p d q : mp + 20 < 2 ^ 29 ->
    eC = repeat 0 4 -> Encoder_bits eR = repeat false p ++ [true] ++ repeat false d ++ [true] ++ repeat false q ->
    rejected_everywhere eager cr mp l.
  Proof.
    intros Hmp Z E. apply reject_of_bad; [exact Hsize|].
    exact (detect_two_bits_region m eC eR Hm HC HR LC Lm Hok p d q Z E (region_len_bound Hmp)).
  Qed.

  (* one flipped bit in the region and one in the CRC field *)
  Theorem reject_two_bits_region_and_crc p q j : mp + 20 < 2 ^ 29 ->
    Encoder_bits eC = repeat false j ++ [true] ++ repeat false (31 - j) -> (j < 32)%nat ->
    Encoder_bits eR = repeat false p ++ [true] ++ repeat false q ->
    rejected_everywhere eager cr mp l.
  Proof.
    intros Hmp EC Hj E. apply reject_of_bad; [exact Hsize|].
    exact (detect_two_bits_region_and_crc m eC eR Hm HC HR LC Lm Hok p q j EC Hj E (region_len_bound Hmp)).
  Qed.
End Classes.

(* ---- non-vacuity: a concrete encoder output and concrete patterns meet every hypothesis ---------------------- *)
Definition ex_payload : Encoder_payload := mkPayload 60000 1 [1; 2; 3].
Definition ex_msg : list N := enc_output 4294967295 ex_payload 7.

Example ex_msg_valid :
  Encoder_in_domain 4294967295 ex_payload 7 /\ bytes_ok ex_msg /\ length ex_msg = 27%nat /\
  frame_valid false true MAX_EXPECTED_SIZE_BYTES ex_msg /\ frame_valid true true (CPP_MAX_MESSAGE_SIZE_BYTES - 24) ex_msg /\
  MAX_EXPECTED_SIZE_BYTES + 20 < 2 ^ 29.
Proof.
  split; [unfold Encoder_in_domain, ex_payload; cbn [p_type p_version p_bytes length N.of_nat]; repeat split; try reflexivity; repeat constructor|].
  split; [unfold bytes_ok; vm_compute; repeat constructor|]. split; [reflexivity|].
  split; [vm_compute; reflexivity|]. split; [vm_compute; reflexivity|reflexivity].
Qed.

(* a 24-bit burst starting at bit 5 of byte 20 (source identifier), i.e. region bit 101; size field untouched *)
Definition ex_burst_eR : list N := repeat 0 12 ++ [32 + 128; 255; 0; 16] ++ repeat 0 3.
Example ex_burst_meets_hypotheses :
  bytes_ok ex_burst_eR /\ length ex_msg = (8 + length ex_burst_eR)%nat /\
  (exists W, Encoder_bits ex_burst_eR = repeat false 101 ++ W ++ repeat false 27 /\ (length W <= 32)%nat /\ In true W) /\
  sub (Encoder_err (repeat 0 4) ex_burst_eR) 16 4 = repeat 0 4.
Proof.
  split; [unfold bytes_ok; vm_compute; repeat constructor|]. split; [reflexivity|].
  split; [|reflexivity].
  exists [true; false; true; true; true; true; true; true; true; true; true; false; false; false; false; false; false; false; false; false; false; false; false; true].
  split; [vm_compute; reflexivity|]. split; [cbn [length]; lia|left; reflexivity].
Qed.

(* two flipped bits: bit 0 of byte 12 (sequence number) and bit 7 of byte 26 (last payload byte) *)
Definition ex_two_eR : list N := repeat 0 4 ++ [1] ++ repeat 0 13 ++ [128].
Example ex_two_bits_meet_hypotheses :
  bytes_ok ex_two_eR /\ length ex_msg = (8 + length ex_two_eR)%nat /\
  Encoder_bits ex_two_eR = repeat false 32 ++ [true] ++ repeat false 118 ++ [true] ++ repeat false 0 /\
  sub (Encoder_err (repeat 0 4) ex_two_eR) 16 4 = repeat 0 4.
Proof.
  split; [unfold bytes_ok; vm_compute; repeat constructor|]. split; [reflexivity|]. split; [vm_compute; reflexivity|reflexivity].
Qed.

(* one bit in the CRC field (bit 9 of the 32-bit value) and one in the region *)
Example ex_crc_and_region_meet_hypotheses :
  let eC := [0; 2; 0; 0] in let eR := repeat 0 18 ++ [64] in
  bytes_ok eC /\ bytes_ok eR /\ length eC = 4%nat /\ length ex_msg = (8 + length eR)%nat /\
  Encoder_bits eC = repeat false 9 ++ [true] ++ repeat false (31 - 9) /\
  Encoder_bits eR = repeat false 150 ++ [true] ++ repeat false 1 /\
  sub (Encoder_err eC eR) 16 4 = repeat 0 4.
Proof.
  cbn zeta. split; [unfold bytes_ok; vm_compute; repeat constructor|]. split; [unfold bytes_ok; vm_compute; repeat constructor|].
  split; [reflexivity|]. split; [reflexivity|]. split; [vm_compute; reflexivity|]. split; [vm_compute; reflexivity|reflexivity].
Qed.

(* ---- what this means for any scanner that refines Base/Scan.scan (python decoder, C++ framer, indexer) -------- *)
Lemma frames_ok_in (judge : list N -> verdict) base stream : forall fs lo, frames_ok judge base stream lo fs ->
  forall o bs, In (o, bs) fs -> judge (skipn (o - base) stream) = Accept (length bs).
Proof.
  induction fs as [|[o1 b1] fs IH]; intros lo H o bs Hin; [destruct Hin|].
  cbn [frames_ok] in H. destruct H as (_ & _ & J & _ & R). destruct Hin as [E|Hin].
  - inversion E; subst. exact J.
  - exact (IH _ R o bs Hin).
Qed.

Theorem not_reported_at_offset eager cr mp pre x fs st :
  judge_fe eager cr mp x = Reject -> scan (judge_fe eager cr mp) 0 (pre ++ x) = (fs, st) ->
  forall bs, ~ In (length pre, bs) fs.
Proof.
  intros J E bs Hin. apply (scan_frames_ok _ (judge_fe_ok eager cr mp)) in E.
  pose proof (frames_ok_in _ _ _ _ _ E _ _ Hin) as A. rewrite Nat.sub_0_r, skipn_app_exact, J in A. discriminate.
Qed.

(* a frame with a detected corruption is not reported at its offset, wherever it sits in a stream *)
Theorem decoders_reject_corrupt eager cr mp pre m e rest fs st :
  bytes_ok m -> frame_valid eager cr mp m -> bytes_ok e -> length e = length m -> bytes_ok rest ->
  h_psize (parse_header (firstn HEADER_SIZE (Encoder_xor_bytes m e))) = h_psize (parse_header (firstn HEADER_SIZE m)) ->
  ~ frame_crc_ok (Encoder_xor_bytes m e) ->
  scan (judge_fe eager cr mp) 0 (pre ++ Encoder_xor_bytes m e ++ rest) = (fs, st) ->
  forall bs, ~ In (length pre, bs) fs.
Proof.
  intros Hm Hv He Le Hr Hs Hb E. apply (not_reported_at_offset eager cr mp pre (Encoder_xor_bytes m e ++ rest) fs st); [|exact E].
  apply corrupt_rejected_by_judge; assumption.
Qed.

(* ---- restatements used by Properties/C06.v ---------------------------------------------------------------------- *)
Theorem encoder_valid_reachable s m source eager cr mp : Encoder_reachable s -> call_in_domain (m, source) ->
  exists out, Encoder_encode s m source = (Some out, (s + 1) mod 4294967296) /\
  let h := parse_header (firstn HEADER_SIZE out) in
  length out = (HEADER_SIZE + length (p_bytes m))%nat /\
  h_sync0 h = SYNC0 /\ h_sync1 h = SYNC1 /\ h_reserved h = 0 /\ h_proto h = PROTOCOL_VERSION /\
  h_type h = p_type m /\ h_msgver h = p_version m /\ h_seq h = s /\ h_source h = source /\
  h_psize h = N.of_nat (length (p_bytes m)) /\ skipn HEADER_SIZE out = p_bytes m /\
  h_crc h = crc32 (skipn 8 out) /\
  (h_psize h <= MAX_EXPECTED_SIZE_BYTES -> Encoder_unpack_validate out = Some (h, VcOk)) /\
  Encoder_cpp_crc1 out = Some (h_crc h) /\
  (N.of_nat HEADER_SIZE + h_psize h <= CPP_MAX_MESSAGE_SIZE_BYTES -> Encoder_cpp_is_valid out = Some true) /\
  (h_psize h <= mp -> judge_fe eager cr mp out = Accept (length out)).
Proof.
  intros R D. exact (encoder_valid Encoder_next_seq s m source eager cr mp (in_domain_of_call s (m, source) (reachable_u32 s R) D)).
Qed.

Theorem encoder_run_reachable calls s : Encoder_reachable s -> Forall call_in_domain calls ->
  snd (Encoder_run s calls) = (s + N.of_nat (length calls)) mod 4294967296 /\
  forall k m src, nth_error calls k = Some (m, src) ->
    exists out, nth_error (fst (Encoder_run s calls)) k = Some (Some out) /\
                h_seq (parse_header (firstn HEADER_SIZE out)) = (s + N.of_nat k) mod 4294967296 /\
                h_source (parse_header (firstn HEADER_SIZE out)) = src /\ h_type (parse_header (firstn HEADER_SIZE out)) = p_type m /\
                skipn HEADER_SIZE out = p_bytes m /\
                frame_valid false true (N.of_nat (length (p_bytes m))) out.
Proof.
  intros R D. destruct (encoder_run_spec calls s (reachable_u32 s R) D) as [A B]. split; [exact A|].
  intros k m src Hk. eexists. split; [exact (B k m src Hk)|].
  assert (Dk : call_in_domain (m, src)) by (rewrite Forall_forall in D; apply D; eapply nth_error_In; exact Hk).
  assert (Sk : (s + N.of_nat k) mod 4294967296 < 4294967296) by (apply N.mod_lt; discriminate).
  pose proof (in_domain_of_call _ (m, src) Sk Dk) as Dom. cbn [fst snd] in Dom.
  destruct (enc_output_facts _ m src Dom) as (L & Hok & P & Pl & Rg & Cok & Fok). cbn zeta in P.
  rewrite P. cbn [h_seq h_source h_type enc_header]. repeat split; try assumption.
  destruct (encoder_valid (fun x => x) _ m src false true (N.of_nat (length (p_bytes m))) Dom) as [out (E & F)].
  rewrite encode_closed_form in E by exact Dom. inversion E; subst out. cbn zeta in F.
  unfold frame_valid. apply F. rewrite P. cbn [h_psize enc_header]. lia.
Qed.

(* the Python CRC (zlib, as the bit-serial definition) and crc.cc agree on every buffer and initial value *)
Theorem crc_impls_agree init l : bytes_ok l -> init < 4294967296 ->
  Encoder_cpp_crc3 l (N.of_nat (length l)) init = Some (Encoder_zlib_crc32 l init).
Proof.
  intros H Hi. unfold Encoder_cpp_crc3, Encoder_zlib_crc32. rewrite N.ltb_irrefl, N.mod_small, Nat2N.id, firstn_all by exact Hi.
  rewrite crc32_from_eq_spec by exact H. reflexivity.
Qed.

(* incremental computation, both implementations, every split point *)
Theorem crc_incremental init a b :
  crc32_from (crc32_from init a) b = crc32_from init (a ++ b) /\
  Encoder_zlib_crc32 b (Encoder_zlib_crc32 a init) = Encoder_zlib_crc32 (a ++ b) init.
Proof. split; symmetry; apply crc32_from_app. Qed.
