(* C10 / C11 — the index of a well-formed log satisfies the reader invariant, and the (repaired)
   constructor without type / time filters ends in the initial cursor state. *)
From Coq Require Import ZArith List Bool Lia ZifyBool Sorted.
From FEC Require Import Generated.LogReaderConsts Models.FileIndexOpsM Models.LogReaderM Proofs.FileIndexOpsP Proofs.LogCursorP.
Import ListNotations.
Open Scope Z_scope.

Ltac conj_split := repeat match goal with |- _ /\ _ => split end.

Lemma header_size_pos : 0 < header_size.
Proof. reflexivity. Qed.

(* ---------------------------------------------------------------- entries of a well-formed log *)
Lemma entries_from_Forall (P : msg -> Prop) (Q : entry -> Prop) :
  (forall i m, P m -> Q (entry_of i m)) -> forall l i, Forall P l -> Forall Q (entries_from i l).
Proof.
  intros H. induction l as [|m l IH]; intros i Hl; cbn [entries_from]; [constructor|].
  inversion Hl; subst. constructor; [apply H; assumption|apply IH; assumption].
Qed.

Lemma entries_from_sorted (R : msg -> msg -> Prop) (R' : entry -> entry -> Prop) :
  (forall i j a b, R a b -> R' (entry_of i a) (entry_of j b)) ->
  forall l i, StronglySorted R l -> StronglySorted R' (entries_from i l).
Proof.
  intros H. induction l as [|m l IH]; intros i Hs; cbn [entries_from]; [constructor|].
  apply StronglySorted_inv in Hs. destruct Hs as [Hs Hf]. constructor; [apply IH; exact Hs|].
  eapply entries_from_Forall; [|exact Hf]. intros j b Hb. apply H. exact Hb.
Qed.

Lemma sorted_strengthen {A} (R : A -> A -> Prop) (P : A -> Prop) (R' : A -> A -> Prop) :
  (forall a b, P a -> P b -> R a b -> R' a b) -> forall l, Forall P l -> StronglySorted R l -> StronglySorted R' l.
Proof.
  intros H. induction l as [|x l IH]; intros Hp Hs; [constructor|].
  inversion Hp; subst. apply StronglySorted_inv in Hs. destruct Hs as [Hs Hf]. constructor; [apply IH; assumption|].
  rewrite Forall_forall in *. intros y Hy. apply H; auto.
Qed.

Lemma wf_entries f i :
  wf_file f ->
  offs_inc (entries_from i (f_msgs f)) /\ nonneg_offs (entries_from i (f_msgs f)) /\ times_sorted (entries_from i (f_msgs f)).
Proof.
  intros [Hb [Ht Hok]]. split; [|split].
  - apply (entries_from_sorted (fun a b => m_off a < m_off b)); [intros; exact H|].
    eapply (sorted_strengthen msg_before (msg_ok (f_size f))); [|exact Hok|exact Hb].
    unfold msg_before, msg_ok. intros a b Ha _ Hab. pose proof header_size_pos. lia.
  - eapply entries_from_Forall; [|exact Hok]. unfold msg_ok. cbn. intros; lia.
  - apply (entries_from_sorted mtle); [|exact Ht]. unfold mtle, tle. cbn. intros _ _ a b Hab.
    destruct (m_time a), (m_time b); try exact I. apply Z.div_le_mono; lia.
Qed.

Lemma index_of_file_props f mb :
  wf_file f ->
  let d := fi_data (index_of_file f mb) in offs_inc d /\ nonneg_offs d /\ times_sorted d.
Proof.
  intros Hwf. cbn [index_of_file mk_index fi_data]. destruct (wf_entries f 0 Hwf) as [H1 [H2 H3]].
  split; [|split].
  - eapply subseq_sorted; [apply subseq_filter|exact H1].
  - eapply subseq_Forall; [apply subseq_filter|exact H2].
  - eapply subseq_sorted; [apply subseq_filter|exact H3].
Qed.

Definition initial (orig : findex) (srcs : option (list Z)) (avail : list Z) : reader := mkR orig orig 0 (-1) srcs avail.

Lemma wf_initial f mb srcs avail : wf_file f -> WF (initial (index_of_file f mb) srcs avail).
Proof.
  intros Hwf. destruct (index_of_file_props f mb Hwf) as [H1 [H2 H3]].
  constructor; cbn [initial r_orig r_index r_next r_last]; try assumption; [apply subseq_refl|].
  exists [], (fi_data (index_of_file f mb)). split; [reflexivity|]. split; [reflexivity|]. split; [constructor|].
  eapply Forall_impl; [|exact H2]. cbn. intros; lia.
Qed.

(* ---------------------------------------------------------------- the repaired reader never raises on a read *)
Lemma read_loop_no_err c srcs f B : forall next last o n l, read_loop fixed c srcs f B next last = (o, n, l) -> forall x, o <> OErr x.
Proof.
  induction B as [|e B IH]; intros next last o n l H x; cbn [read_loop] in H; [inversion H; discriminate|].
  destruct (read_entry fixed c srcs f e) eqn:Er; try (inversion H; discriminate).
  - eapply IH; exact H.
  - unfold read_entry in Er. cbn [fx_payload fixed negb andb] in Er. rewrite andb_false_r in Er.
    destruct (exceeds (c_max_bytes c) (e_off e + header_size)); [discriminate|].
    destruct (file_at f (e_off e)); [|discriminate]. destruct (negb (src_ok srcs m)); [discriminate|].
    destruct (exceeds (c_max_bytes c) (e_off e + m_size m)); discriminate.
Qed.

Lemma read_next_fields c f r r' o : read_next fixed c f r = (r', o) ->
  r_orig r' = r_orig r /\ r_index r' = r_index r /\ r_srcs r' = r_srcs r /\ r_avail r' = r_avail r /\ (forall x, o <> OErr x).
Proof.
  unfold read_next. destruct (read_loop fixed c (r_srcs r) f (skipn (Z.to_nat (r_next r)) (fi_data (r_index r))) (r_next r) (r_last r)) as [[o1 n1] l1] eqn:E.
  intros H. inversion H; subst. conj_split; try reflexivity. eapply read_loop_no_err; exact E.
Qed.

Lemma read_n_ok c f : forall n r acc, WF r ->
  exists r' acc', read_n fixed c f n r acc = Ok (r', acc') /\ WF r' /\ r_orig r' = r_orig r /\ r_index r' = r_index r /\ r_srcs r' = r_srcs r.
Proof.
  induction n as [|n IH]; intros r acc Hwf; cbn [read_n]; [exists r, acc; conj_split; first [assumption|reflexivity]|].
  destruct (read_next fixed c f r) as [r1 o] eqn:E.
  destruct (read_next_step _ _ _ _ _ Hwf E) as [Hwf1 _].
  destruct (read_next_fields _ _ _ _ _ E) as [Ho [Hi [Hs [_ Hne]]]].
  destruct o as [m ps| |x].
  - destruct (IH r1 (m_src m :: acc) Hwf1) as [r' [acc' [H1 [H2 [H3 [H4 H5]]]]]]. exists r', acc'. rewrite H1. conj_split; try assumption; congruence.
  - exists r1, acc. conj_split; first [assumption|reflexivity].
  - exfalso. eapply Hne. reflexivity.
Qed.

Lemma filter_in_place_fields r k clear s r' u :
  filter_in_place fixed r k clear s = (r', u) -> r_orig r' = r_orig r /\ r_avail r' = r_avail r /\ r_last r' = r_last r /\ r_srcs r' = r_srcs (apply_source_ids fixed r s).
Proof.
  unfold filter_in_place. cbn [prev_offset fx_last_off fixed].
  destruct (getitem fixed (r_index (apply_source_ids fixed (if clear then set_index r (r_orig r) else r) s)) k); intros H; inversion H; subst;
    destruct clear, s; cbn; conj_split; reflexivity.
Qed.

Lemma clear_ok r : exists r', filter_in_place fixed r KNone true None = (r', Ok tt) /\ r_index r' = r_orig r.
Proof. unfold filter_in_place. cbn. eexists. split; reflexivity. Qed.

Lemma types_filter_ok r ty : exists r', filter_in_place fixed r (KTypes [ty]) false None = (r', Ok tt).
Proof.
  unfold filter_in_place. cbn [prev_offset fx_last_off fixed apply_source_ids getitem].
  destruct (zlen (fi_data (r_index r)) =? 0); eexists; reflexivity.
Qed.

Lemma populate_types_ok c f : forall tys r acc, WF r -> r_index r = r_orig r ->
  exists r' acc', populate_types fixed c f tys r acc = Ok (r', acc') /\ WF r' /\ r_index r' = r_orig r' /\ r_orig r' = r_orig r /\ r_srcs r' = r_srcs r.
Proof.
  induction tys as [|ty tys IH]; intros r acc Hwf Hi; cbn [populate_types]; [exists r, acc; conj_split; first [assumption|reflexivity]|].
  destruct (types_filter_ok r ty) as [r1 E1]. rewrite E1.
  pose proof (filter_in_place_wf _ _ _ _ _ _ Hwf (or_introl eq_refl) E1) as Hw1.
  destruct (filter_in_place_fields _ _ _ _ _ _ E1) as [Ho1 [_ [_ Hs1]]]. cbn [apply_source_ids] in Hs1.
  destruct (read_n_ok (with_header c) f populate_count r1 acc Hw1) as [r2 [acc2 [E2 [Hw2 [Ho2 [_ Hs2]]]]]]. rewrite E2.
  destruct (clear_ok r2) as [r3 [E3 Hi3]]. rewrite E3.
  pose proof (filter_in_place_wf _ _ _ _ _ _ Hw2 (or_intror eq_refl) E3) as Hw3.
  destruct (filter_in_place_fields _ _ _ _ _ _ E3) as [Ho3 [_ [_ Hs3]]]. cbn [apply_source_ids] in Hs3.
  cbn [fx_populate_rewind fixed].
  destruct (IH (rewind r3) acc2 (rewind_wf _ Hw3)) as [r' [acc' [H1 [H2 [H3 [H4 H5]]]]]]; [cbn [rewind set_cursor r_index r_orig]; congruence|].
  exists r', acc'. rewrite H1. cbn [rewind set_cursor r_orig r_srcs] in *. conj_split; try assumption; congruence.
Qed.

(* the constructor without type / time filters: succeeds and leaves the cursor at the start of the full index;
   the source filter in force is the request *)
Theorem construct_plain c f srcs :
  wf_file f ->
  exists r, construct fixed c f srcs None None = Ok r /\ WF r /\
            r_orig r = index_of_file f (c_max_bytes c) /\ r_index r = r_orig r /\ r_next r = 0 /\ r_last r = -1 /\
            r_srcs r = srcs.
Proof.
  intros Hwf. unfold construct. cbn [norm_types types_key range_key].
  set (orig := index_of_file f (c_max_bytes c)).
  pose proof (wf_initial f (c_max_bytes c) srcs [] Hwf) as Hw0. fold orig in Hw0. unfold initial in Hw0.
  unfold populate. set (r0 := mkR orig orig 0 (-1) srcs []) in *.
  destruct (populate_types_ok c f (uniq_sorted (map e_type (fi_data (r_index r0)))) r0 [] Hw0 eq_refl) as [rp [acc [Ep [Hwp [Hip [Hop Hsp]]]]]].
  rewrite Ep. cbn [bind].
  set (r1 := rewind (set_avail rp acc)).
  assert (Hw1 : WF r1). { apply rewind_wf. destruct Hwp as [A1 A2 A3 A4 A5]. constructor; assumption. }
  assert (F1 : r_orig r1 = orig /\ r_index r1 = orig /\ r_next r1 = 0 /\ r_last r1 = -1 /\ r_srcs r1 = srcs).
  { subst r1. cbn [rewind set_cursor set_avail r_orig r_index r_next r_last r_srcs]. rewrite Hip, Hop, Hsp. conj_split; reflexivity. }
  destruct F1 as [Fo [Fi [Fn [Fl Fs]]]].
  (* the three filter_in_place calls with key None *)
  assert (STEP : forall r s, r_index r = orig -> r_last r = -1 ->
                  filter_in_place fixed r KNone false s = (set_next (apply_source_ids fixed r s) 0, Ok tt)).
  { intros r s Hi Hl. unfold filter_in_place. cbn [prev_offset fx_last_off fixed getitem].
    replace (r_index (apply_source_ids fixed r s)) with (r_index r) by (destruct s; reflexivity).
    replace (set_index (apply_source_ids fixed r s) (r_index r)) with (apply_source_ids fixed r s) by (destruct s, r; reflexivity).
    rewrite Hl. unfold relocate. destruct (zlen (fi_data (r_index r)) =? 0); reflexivity. }
  rewrite (STEP r1 (r_srcs r1) Fi Fl).
  set (r2 := set_next (apply_source_ids fixed r1 (r_srcs r1)) 0).
  assert (F2 : r_index r2 = orig /\ r_last r2 = -1 /\ r_orig r2 = orig).
  { subst r2. destruct (r_srcs r1); cbn; conj_split; assumption. }
  destruct F2 as [Fi2 [Fl2 Fo2]].
  rewrite (STEP r2 None Fi2 Fl2). cbn [apply_source_ids].
  set (r3 := set_next r2 0).
  rewrite (STEP r3 None); [|exact Fi2|exact Fl2]. cbn [apply_source_ids fx_time_first fixed getitem bind].
  eexists. split; [reflexivity|].
  assert (Hw2 : WF r2). { subst r2. destruct (filter_in_place_wf r1 KNone false (r_srcs r1) _ _ Hw1 (or_introl eq_refl) (STEP r1 (r_srcs r1) Fi Fl)); constructor; assumption. }
  split.
  - subst r3. destruct Hw2 as [A1 A2 A3 A4 A5]. constructor; cbn [set_index set_next set_cursor r_orig r_index r_next r_last].
    + exact A1. + exact A2. + exact A3. + rewrite Fo2. apply subseq_refl.
    + exists [], (fi_data orig). split; [reflexivity|]. split; [reflexivity|]. split; [constructor|]. rewrite Fl2.
      rewrite Fo2 in A2. eapply Forall_impl; [|exact A2]. cbn. intros; lia.
  - subst r3. cbn [set_index set_next set_cursor r_orig r_index r_next r_last r_srcs]. rewrite Fo2, Fl2. conj_split; try assumption; try reflexivity.
    subst r2. rewrite Fs. destruct srcs; cbn [apply_source_ids fx_srcs_as_requested fixed set_next set_cursor set_srcs r_srcs]; [reflexivity|exact Fs].
Qed.

(* ---------------------------------------------------------------- C11 top level *)
Theorem script_refines c f srcs ops :
  wf_file f ->
  run_script fixed c f srcs ops = Ok (spec_script c f srcs ops).
Proof.
  intros Hwf. destruct (construct_plain c f srcs Hwf) as [r [Ec [Hw [Ho [Hi [Hn [Hl Hs]]]]]]].
  unfold run_script, spec_script. rewrite Ec. cbn [bind]. f_equal.
  rewrite (run_refines c f ops r Hw). unfold cursor_of. rewrite Hi, Ho, Hl, Hs. reflexivity.
Qed.

(* declarative reading of the SPEC's read when there is no byte limit: the first entry beyond the
   cursor whose message passes the source filter, StopIteration when there is none *)
Definition passes (srcs : option (list Z)) (f : file) (e : entry) : bool :=
  match file_at f (e_off e) with Some m => src_ok srcs m | None => false end.

Lemma spec_scan_first c srcs f : c_max_bytes c = None -> forall l pos,
  fst (spec_scan c srcs f l pos) =
  match find (passes srcs f) l with
  | Some e => match file_at f (e_off e) with Some m => RMsg m (assemble c m (e_off e) (e_idx e)) | None => RStop end
  | None => RStop
  end.
Proof.
  intros Hmb. induction l as [|e l IH]; intros pos; cbn [spec_scan find]; [reflexivity|].
  unfold read_entry, passes. rewrite Hmb. cbn [exceeds fx_payload fixed negb]. rewrite andb_false_r.
  destruct (file_at f (e_off e)) as [m|] eqn:Ef.
  - destruct (src_ok srcs m); cbn [negb]; [rewrite Ef; reflexivity|apply IH].
  - apply IH.
Qed.

Theorem spec_read_first_match c f s :
  c_max_bytes c = None ->
  snd (spec_step c f s OpRead) =
  match find (passes (cs_srcs s) f) (beyond (cs_pos s) (fi_data (cs_cur s))) with
  | Some e => match file_at f (e_off e) with Some m => RMsg m (assemble c m (e_off e) (e_idx e)) | None => RStop end
  | None => RStop
  end.
Proof.
  intros Hmb. cbn [spec_step]. rewrite <- (spec_scan_first c (cs_srcs s) f Hmb _ (cs_pos s)).
  destruct (spec_scan c (cs_srcs s) f (beyond (cs_pos s) (fi_data (cs_cur s))) (cs_pos s)). reflexivity.
Qed.
