(* C10 / C11 — concrete instances: a well-formed log meeting the hypotheses of the theorems, results
   of the repaired model on it, and the vm_compute witnesses of what the code did before the repairs. *)
From Coq Require Import ZArith List Bool Lia Sorted.
From FEC Require Import Generated.LogReaderConsts Models.FileIndexOpsM Models.LogReaderM Proofs.LogReaderP.
Import ListNotations.
Open Scope Z_scope.

(* E P1 E P2 E P3 E U  (P1 times 1, 2, 3 s; two source ids; the last message has no payload class) *)
Definition ex_msgs : list msg :=
  [mkM 0 48 13004 0 None; mkM 48 164 10000 0 (Some 8); mkM 212 48 13004 1 None; mkM 260 164 10000 0 (Some 16);
   mkM 424 48 13004 0 None; mkM 472 164 10000 1 (Some 24); mkM 636 48 13004 0 None; mkM 684 33 60001 0 None].
Definition ex_file : file := mkFile ex_msgs 717.
Definition ex_cfg : cfg := mkCfg None false false false true false false.
Definition ex_cfg_p : cfg := mkCfg None false true false true false false.

Lemma ex_file_wf : wf_file ex_file.
Proof.
  unfold wf_file, ex_file, ex_msgs. cbn [f_msgs f_size].
  split; [|split]; repeat constructor; unfold msg_before, mtle, msg_ok, header_size; cbn; try lia; try exact I.
Qed.

Definition ex_script : list op :=
  [OpRead; OpFilter (KTypes [10000]); OpClear; OpRead; OpRemoveUntimed; OpRead; OpSeek 9 true; OpSeekEof; OpRead].

Lemma ex_script_result :
  run_script fixed ex_cfg ex_file None ex_script
  = Ok [RMsg (mkM 0 48 13004 0 None) [POffset 0]; RDone; RDone; RMsg (mkM 48 164 10000 0 (Some 8)) [POffset 48]; RDone;
        RMsg (mkM 260 164 10000 0 (Some 16)) [POffset 260]; RErr ValueError; RDone; RStop].
Proof. vm_compute. reflexivity. Qed.

Definition legacy_script_1 : list op := [OpRead; OpFilter (KTypes [10000]); OpClear; OpRead].
Definition legacy_script_2 : list op := [OpRemoveUntimed; OpRead].

Lemma legacy_cursor_refuted :
  run_script legacy ex_cfg_p ex_file None legacy_script_1 <> Ok (spec_script ex_cfg_p ex_file None legacy_script_1) /\
  run_script legacy ex_cfg_p ex_file None legacy_script_2 <> Ok (spec_script ex_cfg_p ex_file None legacy_script_2).
Proof. split; intros H; vm_compute in H; discriminate H. Qed.

(* the same scripts on the repaired model agree with the SPEC (instances of the theorem) *)
Lemma repaired_cursor_agrees :
  run_script fixed ex_cfg_p ex_file None legacy_script_1 = Ok (spec_script ex_cfg_p ex_file None legacy_script_1) /\
  run_script fixed ex_cfg_p ex_file None legacy_script_2 = Ok (spec_script ex_cfg_p ex_file None legacy_script_2).
Proof. split; vm_compute; reflexivity. Qed.

(* ================================================================================================ *)
(* C10 *)
Definition cfg_of (mb : option Z) (h p b o i : bool) : cfg := mkCfg mb h p b o i false.
Definition abs_range (s e : option Z) : trange := mkTR s e true None.
Definition rel_range (s e : option Z) : trange := mkTR s e false None.

Ltac wf_by_computation :=
  unfold wf_file; cbn [f_msgs f_size];
  split; [|split]; repeat constructor; unfold msg_before, mtle, msg_ok, header_size; cbn; try lia; try exact I.

(* types {Event}, source {0}, absolute range [2 s, 3 s), all five pieces: exactly the Event between the
   Pose at 2 s and the Pose at 3 s — the DESIGN.md example that returned 4 events before the repair *)
Lemma ex_read_result :
  read_log fixed (cfg_of None true true true true true) ex_file (Some [0]) (Some [13004]) (Some (abs_range (Some 16) (Some 24)))
  = Ok [(mkM 424 48 13004 0 None,
         [PHeader (mkM 424 48 13004 0 None); PPayload (mkM 424 48 13004 0 None); PBytes 424 48; POffset 424; PIndex 4])].
Proof. vm_compute. reflexivity. Qed.

Lemma ex_has_t0 : fi_t0 (index_of_file ex_file None) <> None.
Proof. vm_compute. discriminate. Qed.

(* a second well-formed log for the source-id discovery: IMU src 5, IMU src 5, Pose src 0 *)
Definition ex2_file : file := mkFile [mkM 0 128 11000 5 (Some 109); mkM 128 128 11000 5 (Some 117); mkM 256 164 10000 0 (Some 192)] 420.
Lemma ex2_file_wf : wf_file ex2_file.
Proof. unfold ex2_file. wf_by_computation. Qed.

Lemma ex2_read_result :
  read_log fixed (cfg_of None false false false true false) ex2_file (Some [5]) None None
  = Ok [(mkM 0 128 11000 5 (Some 109), [POffset 0]); (mkM 128 128 11000 5 (Some 117), [POffset 128])].
Proof. vm_compute. reflexivity. Qed.

(* logs for the recorded finding and for the source-id sampling defect *)
Definition ex3_file : file := mkFile [mkM 0 48 13004 0 None; mkM 48 40 13003 0 None; mkM 88 33 60001 3 None] 121.
Lemma ex3_file_wf : wf_file ex3_file.
Proof. unfold ex3_file. wf_by_computation. Qed.

(* 11 Pose messages of source 1, then one Pose of source 2 *)
Definition ex4_msgs : list msg :=
  map (fun i => mkM (164 * Z.of_nat i) 164 10000 1 (Some (88 + 8 * Z.of_nat i))) (seq 0 11) ++ [mkM 1804 164 10000 2 (Some 176)].
Definition ex4_file : file := mkFile ex4_msgs 1968.
Lemma ex4_file_wf : wf_file ex4_file.
Proof. unfold ex4_file, ex4_msgs. cbn [map seq app Z.of_nat]. wf_by_computation. Qed.

(* what the code did before the five C10 repairs *)
Lemma legacy_read_refuted :
  (* return_payload = False: UnboundLocalError *)
  read_log legacy (cfg_of None true false false true false) ex_file None None None = Err UnboundLocalError /\
  (* absolute range [10 s, 20 s) on a log ending at 3 s: the whole log *)
  (exists l, read_log legacy (cfg_of None false true false true false) ex_file None None (Some (abs_range (Some 80) (Some 160))) = Ok l /\ length l = 8%nat) /\
  spec_read (cfg_of None false true false true false) ex_file None None (Some (abs_range (Some 80) (Some 160))) = [] /\
  (* types {Event} + absolute range [2 s, 3 s): four events instead of one *)
  (exists l, read_log legacy (cfg_of None false true false true false) ex_file None (Some [13004]) (Some (abs_range (Some 16) (Some 24))) = Ok l /\ length l = 4%nat) /\
  length (spec_read (cfg_of None false true false true false) ex_file None (Some [13004]) (Some (abs_range (Some 16) (Some 24)))) = 1%nat /\
  (* source_ids = {5}: nothing, although two messages have source 5 *)
  read_log legacy (cfg_of None false true false true false) ex2_file (Some [5]) None None = Ok [] /\
  length (spec_read (cfg_of None false true false true false) ex2_file (Some [5]) None None) = 2%nat /\
  (* a requested source id first seen after populate_count messages of its type was dropped from the request
     (here with only that defect present: every other repair in place) *)
  (exists l, read_log (mkFx true true true true true true false) (cfg_of None false true false true false) ex4_file (Some [1; 2]) None None = Ok l /\ length l = 11%nat) /\
  length (spec_read (cfg_of None false true false true false) ex4_file (Some [1; 2]) None None) = 12%nat.
Proof.
  split; [vm_compute; reflexivity|]. split; [eexists; split; [vm_compute; reflexivity|reflexivity]|].
  split; [vm_compute; reflexivity|]. split; [eexists; split; [vm_compute; reflexivity|reflexivity]|].
  split; [vm_compute; reflexivity|]. split; [vm_compute; reflexivity|]. split; [vm_compute; reflexivity|].
  split; [eexists; split; [vm_compute; reflexivity|reflexivity]|vm_compute; reflexivity].
Qed.

Lemma known_findings_witnesses :
  (* a time range on a log without any P1 time: IndexError; the SPEC selects all three messages (open start) *)
  read_log fixed (cfg_of None false true false true false) ex3_file None None (Some (rel_range None (Some 240))) = Err IndexError /\
  length (spec_read (cfg_of None false true false true false) ex3_file None None (Some (rel_range None (Some 240)))) = 3%nat.
Proof. split; vm_compute; reflexivity. Qed.

(* since the repair the late source id is returned *)
Lemma late_source_result :
  read_log fixed (cfg_of None false true false true false) ex4_file (Some [1; 2]) None None
  = Ok (spec_read (cfg_of None false true false true false) ex4_file (Some [1; 2]) None None) /\
  length (spec_read (cfg_of None false true false true false) ex4_file (Some [1; 2]) None None) = 12%nat.
Proof. split; vm_compute; reflexivity. Qed.

(* the hypotheses of the main theorem hold for the example (non-vacuity) *)
Definition ex_c : cfg := cfg_of None true true true true true.
Definition ex_R : option trange := Some (abs_range (Some 16) (Some 24)).

Lemma ex_hypotheses :
  wf_file ex_file /\ range_has_t0 ex_c ex_file ex_R /\ wf_file ex4_file.
Proof. split; [exact ex_file_wf|]. split; [right; exact ex_has_t0|exact ex4_file_wf]. Qed.

Definition read_is_filter_full : Prop :=
  forall c f srcs types R, wf_file f -> read_log fixed c f srcs types R = Ok (spec_read c f srcs types R).

Lemma read_is_filter_full_refuted : ~ read_is_filter_full.
Proof.
  intros H. specialize (H (cfg_of None false true false true false) ex3_file None None (Some (rel_range None (Some 240))) ex3_file_wf).
  vm_compute in H. discriminate H.
Qed.
