(* C18 — proofs about the extraction model (Models/ExtractLogM.v), for all input files and all P1-time
   decoders [p1]. *)
From Coq Require Import NArith List Bool Arith Lia.
From FEC Require Import Generated.FEConsts Generated.FileIndexConsts Base.ListX Base.Bytes Base.Crc32 Base.Scan Base.FEFormat
  Models.FileScanM Models.FileIndexIOM Models.ExtractLogM Proofs.FileScanP.
Import ListNotations.
Local Open Scope nat_scope.

(* ---- rebase facts ------------------------------------------------------------------------------------- *)
Lemma map_snd_rebase {B} : forall (bss : list (list B)) off, map snd (rebase off bss) = bss.
Proof. induction bss as [|bs rest IH]; intros off; [reflexivity|]. cbn [rebase map snd]. f_equal. apply IH. Qed.

Lemma rebase_app {B} : forall (a b : list (list B)) off,
  rebase off (a ++ b) = rebase off a ++ rebase (off + length (concat a)) b.
Proof.
  induction a as [|x a IH]; intros b off.
  - cbn [app rebase concat length]. rewrite Nat.add_0_r. reflexivity.
  - cbn [app rebase concat]. rewrite IH, app_length. f_equal. f_equal. f_equal. lia.
Qed.

(* ---- message_counts ------------------------------------------------------------------------------------ *)
Definition count_ty (ty : N) (tys : list N) : N := N.of_nat (length (filter (fun t => N.eqb t ty) tys)).

Lemma lookup_bump_same ty c :
  lookup ty (bump ty c) = Some (match lookup ty c with None => 1 | Some v => v + 1 end)%N.
Proof.
  induction c as [|[k v] rest IH]; cbn [bump lookup].
  - rewrite N.eqb_refl. reflexivity.
  - destruct (N.eqb k ty) eqn:E; cbn [lookup]; rewrite E; [reflexivity|exact IH].
Qed.

Lemma lookup_bump_other ty ty' c : ty' <> ty -> lookup ty (bump ty' c) = lookup ty c.
Proof.
  intros Hne. induction c as [|[k v] rest IH]; cbn [bump lookup].
  - destruct (N.eqb ty' ty) eqn:E; [apply N.eqb_eq in E; congruence|reflexivity].
  - destruct (N.eqb k ty') eqn:E1; cbn [lookup].
    + apply N.eqb_eq in E1. subst k.
      replace (N.eqb ty' ty) with false by (symmetry; apply N.eqb_neq; exact Hne). reflexivity.
    + destruct (N.eqb k ty); [reflexivity|exact IH].
Qed.

Definition bump_all (tys : list N) (c : list (N * N)) : list (N * N) := fold_left (fun c t => bump t c) tys c.

Lemma lookup_bump_all ty : forall tys c,
  lookup ty (bump_all tys c) =
  match lookup ty c with
  | Some v => Some (v + count_ty ty tys)%N
  | None => if N.eqb (count_ty ty tys) 0 then None else Some (count_ty ty tys)
  end.
Proof.
  induction tys as [|t tys IH]; intros c.
  - cbn [bump_all fold_left]. unfold count_ty. cbn [filter length N.of_nat]. destruct (lookup ty c); [rewrite N.add_0_r|]; reflexivity.
  - unfold bump_all in *. cbn [fold_left]. rewrite IH. unfold count_ty. cbn [filter].
    destruct (N.eqb t ty) eqn:E.
    + apply N.eqb_eq in E. subst t. rewrite lookup_bump_same. cbn [length].
      set (k := length (filter (fun t => N.eqb t ty) tys)).
      destruct (lookup ty c) as [v|].
      * f_equal. lia.
      * replace (N.eqb (N.of_nat (S k)) 0) with false by (symmetry; apply N.eqb_neq; lia). f_equal. lia.
    + rewrite lookup_bump_other by (intros ->; rewrite N.eqb_refl in E; discriminate). reflexivity.
Qed.

Section ExtractProofs.
  Variable p1 : list N -> option N.

  Definition entry_of (f : nat * list N) : ientry := mkI (p1 (snd f)) (frame_type (snd f)) (N.of_nat (fst f)).

  (* the state after the loop body ran on the messages bss *)
  Definition after (st : xstate) (bss : list (list N)) : xstate :=
    mkX (x_out st ++ concat bss)
        (x_entries st ++ map entry_of (rebase (length (x_out st)) bss))
        (x_count st + N.of_nat (length bss))
        (bump_all (map frame_type bss) (x_counts st)).

  Lemma fold_x_step : forall bss st, fold_left (x_step p1) bss st = after st bss.
  Proof.
    induction bss as [|bs rest IH]; intros st.
    - unfold after. cbn [fold_left concat rebase map length N.of_nat bump_all].
      rewrite !app_nil_r, N.add_0_r. destruct st; reflexivity.
    - cbn [fold_left]. rewrite IH. unfold after, x_step. cbn [x_out x_entries x_count x_counts].
      cbn [concat rebase map length bump_all fold_left]. rewrite <- !app_assoc. cbn [app].
      rewrite app_length. f_equal. lia.
  Qed.

  Lemma x_loop_frames d : forall fs st, (forall o bs, In (o, bs) fs -> In (o, bs) (file_frames d)) ->
    x_loop p1 d (map fst fs) st = fold_left (x_step p1) (map snd fs) st.
  Proof.
    induction fs as [|[o bs] rest IH]; intros st H; [reflexivity|].
    cbn [map fst snd x_loop fold_left]. rewrite (read_at_frame d o bs) by (apply H; left; reflexivity).
    apply IH. intros o' bs' Hin. apply H. right. exact Hin.
  Qed.

  Lemma index_offsets_fresh d : index_offsets (fresh p1 d) = map fst (file_frames d).
  Proof.
    unfold index_offsets, fresh, fresh_raw. rewrite !map_map. apply map_ext. intros [o bs].
    cbn [from_raw indexer_raw i_off r_off fst]. apply Nat2N.id.
  Qed.

  (* SPEC-level description of the whole result, from the frames of a sequential scan alone *)
  Definition extract_spec (d : list N) : xresult :=
    let bss := map snd (file_frames d) in
    mkXR (match bss with [] => None | _ => Some (concat bss) end)
         (save (map entry_of (rebase 0 bss)) (N.of_nat (length (concat bss))))
         (N.of_nat (length bss))
         (bump_all (map frame_type bss) []).

  Theorem extract_refines d : extract p1 d = extract_spec d.
  Proof.
    unfold extract, extract_spec. rewrite index_offsets_fresh, x_loop_frames by auto.
    rewrite fold_x_step. unfold after, x_init. cbn [x_out x_entries x_count x_counts app length].
    rewrite N.add_0_l. f_equal.
    destruct (map snd (file_frames d)) as [|b r]; [reflexivity|].
    cbn [length]. replace (N.eqb (N.of_nat (S (length r))) 0) with false by (symmetry; apply N.eqb_neq; lia).
    reflexivity.
  Qed.

  (* ---- the property theorems ---------------------------------------------------------------------- *)
  Theorem extract_bytes_exact d :
    xr_output (extract p1 d) = match file_frames d with [] => None | _ => Some (spec_output d) end.
  Proof.
    rewrite extract_refines. unfold extract_spec, spec_output. cbn [xr_output].
    destruct (file_frames d); reflexivity.
  Qed.

  Lemma count_ty_frames ty d : count_ty ty (map frame_type (map snd (file_frames d))) = spec_type_count ty d.
  Proof.
    unfold count_ty, spec_type_count. f_equal. rewrite map_map.
    induction (file_frames d) as [|f fs IH]; [reflexivity|]. cbn [map filter].
    destruct (N.eqb (frame_type (snd f)) ty); cbn [length]; rewrite IH; reflexivity.
  Qed.

  Theorem extract_count d :
    xr_count (extract p1 d) = spec_count d /\
    forall ty, lookup ty (xr_counts (extract p1 d)) =
               if N.eqb (spec_type_count ty d) 0 then None else Some (spec_type_count ty d).
  Proof.
    rewrite extract_refines. unfold extract_spec, spec_count. cbn [xr_count xr_counts]. split.
    - rewrite map_length. reflexivity.
    - intros ty. rewrite lookup_bump_all. cbn [lookup]. rewrite count_ty_frames. reflexivity.
  Qed.

  (* the scan of the output finds the written messages at the offsets the builder recorded *)
  Lemma frames_of_output d : file_frames (spec_output d) = rebase 0 (map snd (file_frames d)).
  Proof. apply fscan_rescan_idempotent; [exact judge_file_ok|exact judge_file_local]. Qed.

  Lemma to_raw_entry_fresh f : to_raw (entry_of f) = to_raw (from_raw (indexer_raw p1 (fst f) (snd f))).
  Proof.
    destruct f as [o bs]. unfold entry_of, indexer_raw, from_raw, to_raw. cbn [fst snd i_time i_type i_off r_time r_type r_off].
    f_equal. unfold indexer_time, clamp_u4. destruct (p1 bs) as [t|].
    - destruct (N.leb TIME_INVALID t) eqn:E.
      + rewrite N.eqb_refl. reflexivity.
      + pose proof E as E'. apply N.leb_gt in E'.
        replace (N.eqb t TIME_INVALID) with false by (symmetry; apply N.eqb_neq; lia).
        rewrite E. reflexivity.
    - rewrite N.eqb_refl. reflexivity.
  Qed.

  Lemma save_to_raw_ext : forall a b n, map to_raw a = map to_raw b -> save a n = save b n.
  Proof.
    intros a b n H. unfold save.
    assert (Hl : forall (x y : list ientry), map to_raw x = map to_raw y ->
                 match last_opt x, last_opt y with
                 | Some e, Some e' => to_raw e = to_raw e'
                 | None, None => True
                 | _, _ => False
                 end).
    { induction x as [|e x IH]; intros y Hxy; destruct y as [|e' y]; try discriminate; [exact I|].
      cbn [map] in Hxy.
      assert (He : to_raw e = to_raw e') by (pose proof (f_equal (@hd_error _) Hxy) as Hh; cbn [hd_error] in Hh; congruence).
      pose proof (f_equal (@tl _) Hxy) as Ht; cbn [tl] in Ht. clear Hxy. specialize (IH _ Ht).
      destruct x as [|e2 x]; destruct y as [|e2' y]; try discriminate; [exact He|]. exact IH. }
    specialize (Hl _ _ H). destruct (last_opt a) as [e|], (last_opt b) as [e'|]; try contradiction; [|reflexivity].
    assert (Ht : is_invalid_type e = is_invalid_type e').
    { unfold is_invalid_type. replace (i_type e) with (r_type (to_raw e)) by reflexivity.
      rewrite Hl. reflexivity. }
    rewrite Ht. destruct (is_invalid_type e'); f_equal; f_equal; rewrite ?map_app; rewrite H; reflexivity.
  Qed.

  Theorem extract_index_fresh d out :
    xr_output (extract p1 d) = Some out -> xr_index (extract p1 d) = fresh_saved p1 out.
  Proof.
    rewrite extract_refines. unfold extract_spec. cbn [xr_output xr_index]. intros H.
    assert (Hout : out = spec_output d).
    { unfold spec_output. destruct (map snd (file_frames d)); [discriminate|]. injection H as <-. reflexivity. }
    subst out. unfold fresh_saved. fold (spec_output d). apply save_to_raw_ext.
    unfold fresh, fresh_raw. rewrite frames_of_output. rewrite !map_map.
    apply map_ext. intros f. apply to_raw_entry_fresh.
  Qed.

  Theorem extract_idempotent d out :
    xr_output (extract p1 d) = Some out -> extract p1 out = extract p1 d.
  Proof.
    intros H. rewrite extract_refines in H. unfold extract_spec in H. cbn [xr_output] in H.
    assert (Hout : out = spec_output d).
    { unfold spec_output. destruct (map snd (file_frames d)); [discriminate|]. injection H as <-. reflexivity. }
    subst out. rewrite !extract_refines. unfold extract_spec.
    rewrite frames_of_output, map_snd_rebase. reflexivity.
  Qed.

  Theorem no_messages_no_output d :
    file_frames d = [] <-> xr_output (extract p1 d) = None.
  Proof.
    rewrite extract_bytes_exact. destruct (file_frames d); split; intros; try reflexivity; discriminate.
  Qed.

  (* whatever lay at the output location before, the output file afterwards is the extraction of this input *)
  Theorem extract_over_output save_index prior d :
    fst (fst (extract_over p1 save_index prior d)) = match file_frames d with [] => None | _ => Some (spec_output d) end /\
    snd (extract_over p1 save_index prior d) = spec_count d /\
    (save_index = true -> file_frames d <> [] -> snd (fst (extract_over p1 save_index prior d)) = fresh_saved p1 (spec_output d)).
  Proof.
    unfold extract_over. cbn [fst snd]. split; [apply extract_bytes_exact|]. split; [apply extract_count|].
    intros -> Hne. pose proof (extract_bytes_exact d) as Hb.
    destruct (file_frames d) as [|f0 fs0] eqn:E; [congruence|].
    rewrite (extract_index_fresh d (spec_output d) Hb).
    unfold fresh_saved, save. destruct (last_opt (fresh p1 (spec_output d))) eqn:El; [reflexivity|].
    exfalso. assert (Hf : fresh p1 (spec_output d) = []).
    { destruct (fresh p1 (spec_output d)) as [|a l]; [reflexivity|]. exfalso. clear - El. revert a El.
      induction l as [|b l IH]; intros a El; [discriminate|]. apply (IH b). exact El. }
    unfold fresh, fresh_raw in Hf. rewrite frames_of_output, E in Hf. destruct f0. discriminate.
  Qed.

  Theorem no_messages_nothing_written d :
    file_frames d = [] -> extract p1 d = mkXR None None 0 [].
  Proof. intros H. rewrite extract_refines. unfold extract_spec. rewrite H. reflexivity. Qed.
End ExtractProofs.
