(* The two SPECs agree, and the abstract "fresh index" of C18/C09 IS the output of the fast indexer (C08) for every
   worker count, under C08's precondition (every valid candidate of the file is at most MAX bytes). *)
From Coq Require Import NArith List Bool Arith Lia.
From FEC Require Import Generated.FEConsts Generated.FileIndexConsts Generated.FastIndexerConsts
  Base.ListX Base.Bytes Base.Crc32 Base.Scan Base.FEFormat
  Models.FastIndexerM Proofs.FastIndexerSpecP
  Models.FileScanM Models.FileIndexIOM Models.ExtractLogM Models.SystemLinkM
  Proofs.FileScanP Proofs.ExtractLogP Proofs.FileIndexIOP.
Import ListNotations.
Local Open Scope nat_scope.

(* ---- (1) the two scans to end of file are the same function ------------------------------------------------ *)
Lemma fi_fscan_aux_eq : forall fuel off l, fi_fscan_aux fuel off l = fscan_aux judge_file fuel off l.
Proof.
  induction fuel as [|f IH]; intros off l; [reflexivity|].
  cbn [fi_fscan_aux fscan_aux]. change fi_judge with judge_file.
  destruct (judge_file l) as [n| |]; [rewrite IH; reflexivity|apply IH|].
  destruct l; [reflexivity|apply IH].
Qed.

Theorem spec_frames_agree file : fi_spec_frames file = file_frames file.
Proof. apply fi_fscan_aux_eq. Qed.

Lemma time_invalid_same : FastIndexerM.TIME_INVALID = FileIndexConsts.TIME_INVALID.
Proof. reflexivity. Qed.

(* whole-second time: C08's [fi_spec_time] = C18/C09's from_raw of the clamped indexer time *)
Lemma spec_time_agree (t : option (N * N)) :
  fi_spec_time t =
  i_time (from_raw (mkR (indexer_time (match t with None => None | Some (num, den) => Some (N.div num den) end)) 0 0)).
Proof.
  unfold fi_spec_time, from_raw, indexer_time, clamp_u4. cbn [r_time i_time FileScanM.r_time].
  rewrite time_invalid_same. destruct t as [[num den]|].
  - set (s := N.div num den). destruct (N.ltb s FileIndexConsts.TIME_INVALID) eqn:E.
    + apply N.ltb_lt in E. replace (N.leb FileIndexConsts.TIME_INVALID s) with false by (symmetry; apply N.leb_gt; exact E).
      replace (N.eqb s FileIndexConsts.TIME_INVALID) with false by (symmetry; apply N.eqb_neq; lia). reflexivity.
    + apply N.ltb_ge in E. replace (N.leb FileIndexConsts.TIME_INVALID s) with true by (symmetry; apply N.leb_le; exact E).
      rewrite N.eqb_refl. reflexivity.
  - rewrite N.eqb_refl. reflexivity.
Qed.

Section Entries.
  Variable ptime : N -> N -> list N -> option (N * N).
  Let p1 := p1_of_ptime ptime.

  Lemma spec_entries_strip : forall fs k,
    map fi_strip (fi_spec_entries ptime fs k) = map (fun f => from_raw (indexer_raw p1 (fst f) (snd f))) fs.
  Proof.
    induction fs as [|[o bs] fs IH]; intros k; [reflexivity|].
    cbn [fi_spec_entries map fst snd]. rewrite IH. f_equal.
    unfold fi_strip. cbn [e_time e_type e_off]. unfold from_raw, indexer_raw. cbn [FileScanM.r_time FileScanM.r_type FileScanM.r_off].
    unfold frame_type. f_equal.
    rewrite spec_time_agree. unfold from_raw. cbn [i_time FileScanM.r_time]. unfold p1, p1_of_ptime.
    destruct (ptime _ _ _) as [[num den]|]; reflexivity.
  Qed.

  Lemma spec_entries_idx : forall fs k,
    map e_idx (fi_spec_entries ptime fs k) = map (fun i => (k + N.of_nat i)%N) (seq 0 (length fs)).
  Proof.
    induction fs as [|[o bs] fs IH]; intros k; [reflexivity|].
    cbn [fi_spec_entries map length seq e_idx]. f_equal; [lia|].
    rewrite IH, <- seq_shift, map_map. apply map_ext. intros i. lia.
  Qed.

  (* C08's SPEC entries are C18/C09's fresh index (same offsets, types, whole-second times, order; ordinals 0..) *)
  Theorem spec_entries_agree file :
    map fi_strip (fi_spec ptime file) = fresh p1 file /\
    map e_idx (fi_spec ptime file) = map N.of_nat (seq 0 (length (file_frames file))).
  Proof.
    unfold fi_spec. rewrite spec_frames_agree. split.
    - rewrite spec_entries_strip. unfold fresh, fresh_raw. rewrite map_map. reflexivity.
    - rewrite spec_entries_idx. apply map_ext. intros i. lia.
  Qed.
End Entries.

(* ---- (2) composition with C08's main theorem ---------------------------------------------------------------------- *)
Section Compose.
  Variables READ MAX : N.
  Hypothesis READ_ge : (2 <= READ)%N.
  Hypothesis READ_even : (READ mod 2 = 0)%N.
  Hypothesis MAX_ge : (24 <= MAX)%N.
  Hypothesis MAX_le : (MAX <= READ)%N.
  Variable ptime : N -> N -> list N -> option (N * N).
  Variable W : N.
  Hypothesis W_ge : (1 <= W)%N.
  Let p1 := p1_of_ptime ptime.

  Theorem fresh_is_fast_index file : fi_small_msgs MAX file ->
    exists es, fi_generate READ MAX fi_cur ptime file W = FOk es /\ map fi_strip es = fresh p1 file /\
               map (fun e => N.to_nat (e_off e)) es = map fst (fi_spec_frames file).
  Proof.
    intros Hs. exists (fi_spec ptime file). split; [apply index_is_scan; assumption|].
    destruct (spec_entries_agree ptime file) as (A & _). split; [exact A|].
    transitivity (index_offsets (map fi_strip (fi_spec ptime file))).
    - unfold index_offsets. rewrite map_map. reflexivity.
    - rewrite A. fold p1. rewrite index_offsets_fresh. apply (f_equal (map fst)). symmetry. apply spec_frames_agree.
  Qed.

  Lemma extract_from_fresh d : extract_from p1 d (fresh p1 d) = extract p1 d.
  Proof. reflexivity. Qed.

  Theorem extract_via_fast_index d : fi_small_msgs MAX d ->
    extract_fi READ MAX ptime W d = Some (extract p1 d).
  Proof.
    intros Hs. unfold extract_fi. destruct (fresh_is_fast_index d Hs) as (es & -> & E & _).
    rewrite E. reflexivity.
  Qed.

  Theorem open_via_fast_index loader p1i d ig : fi_small_msgs MAX d ->
    open_log_fi READ MAX ptime W loader p1i d ig = open_log p1 loader p1i d ig.
  Proof.
    intros Hs.
    assert (R : forall cur, regenerate_fi READ MAX ptime W d cur = Opened (regenerate p1 d cur)).
    { intros cur. unfold regenerate_fi, regenerate. destruct (fresh_is_fast_index d Hs) as (es & -> & E & _).
      rewrite E. reflexivity. }
    unfold open_log_fi, open_log. destruct (if ig then None else p1i); [|apply R].
    destruct (loader l d); [reflexivity|apply R|reflexivity].
  Qed.
End Compose.

(* ---- the composed statements, against the fast indexer and C08's SPEC frames ------------------------------------ *)
Section Composed.
  Variables READ MAX : N.
  Hypothesis READ_ge : (2 <= READ)%N.
  Hypothesis READ_even : (READ mod 2 = 0)%N.
  Hypothesis MAX_ge : (24 <= MAX)%N.
  Hypothesis MAX_le : (MAX <= READ)%N.
  Variable ptime : N -> N -> list N -> option (N * N).
  Let p1 := p1_of_ptime ptime.

  Theorem extract_via_fast_index_full W d : (1 <= W)%N -> fi_small_msgs MAX d ->
    exists r, extract_fi READ MAX ptime W d = Some r /\
      xr_output r = match fi_spec_frames d with [] => None | _ => Some (concat (map snd (fi_spec_frames d))) end /\
      xr_count r = N.of_nat (length (fi_spec_frames d)) /\
      (forall out, xr_output r = Some out -> fi_small_msgs MAX out -> forall W', (1 <= W')%N ->
         extract_fi READ MAX ptime W' out = Some r /\
         exists es, fi_generate READ MAX fi_cur ptime out W' = FOk es /\
                    xr_index r = save (map fi_strip es) (N.of_nat (length out))).
  Proof.
    intros HW Hs. exists (extract p1 d).
    split; [apply extract_via_fast_index; assumption|].
    rewrite spec_frames_agree. split; [apply extract_bytes_exact|]. split; [apply extract_count|].
    intros out Ho Hso W' HW'. split.
    - rewrite (extract_via_fast_index READ MAX READ_ge READ_even MAX_ge MAX_le ptime W' HW' out Hso).
      f_equal. apply extract_idempotent. exact Ho.
    - destruct (fresh_is_fast_index READ MAX READ_ge READ_even MAX_ge MAX_le ptime W' HW' out Hso) as (es & E1 & E2 & _).
      exists es. split; [exact E1|]. rewrite E2. apply (extract_index_fresh p1 d out Ho).
  Qed.

  Theorem open_via_fast_index_full W p1i d' ig : (1 <= W)%N -> fi_small_msgs MAX d' -> plausible_index p1 p1i d' ->
    exists o, open_log_fi READ MAX ptime W load p1i d' ig = Opened o /\ o_msgs o = fi_spec_frames d' /\
              (o_p1i o = p1i \/ o_p1i o = saved p1 d' \/ (o_p1i o = None /\ fi_spec_frames d' = [])).
  Proof.
    intros HW Hs Hp. rewrite (open_via_fast_index READ MAX READ_ge READ_even MAX_ge MAX_le ptime W HW load p1i d' ig Hs).
    rewrite spec_frames_agree. apply open_is_fresh. exact Hp.
  Qed.
End Composed.
