(* C16 — the finite relation over the generated to_numpy table, decided by computation and lifted to a
   statement about every row. *)
From Coq Require Import Bool String List.
From FEC Require Import Generated.NumpyTables Models.NumpyTableM.
Import ListNotations.

Lemma path_eqb_eq : forall a b, np_path_eqb a b = true -> a = b.
Proof.
  induction a as [|x a IH]; intros [|y b] H; cbn in H; try discriminate; [reflexivity|].
  apply andb_true_iff in H. destruct H as [H1 H2]. apply String.eqb_eq in H1. subst. f_equal. auto.
Qed.

Lemma mem_In : forall s l, In s l -> np_mem s l = true.
Proof.
  intros s l H. unfold np_mem. apply existsb_exists. exists s. split; [exact H|apply String.eqb_refl].
Qed.

Lemma rows_ok : forallb np_row_ok np_rows = true.
Proof. vm_compute. reflexivity. Qed.

Lemma rows_ntd_ok : forallb np_row_ntd_ok np_rows = true.
Proof. vm_compute. reflexivity. Qed.

Lemma declared_ok : forallb np_declared_ok np_declared_ntd = true.
Proof. vm_compute. reflexivity. Qed.

(* no output named like a field of the message (or of its embedded details) is filled from another field *)
Theorem same_name_same_source : forall r, In r np_rows -> In (r_key r) (r_fields r) ->
  r_src r = Opaque \/ r_src r = Each (np_expected_path r) \/ r_src r = First (np_expected_path r).
Proof.
  intros r Hr Hk. pose proof (proj1 (forallb_forall _ _) rows_ok r Hr) as H.
  unfold np_row_ok in H. rewrite (mem_In _ _ Hk) in H. cbn [implb] in H.
  destruct (r_src r) as [p|p|]; [right; left|right; right|left; reflexivity];
    apply path_eqb_eq in H; subst; reflexivity.
Qed.

(* among the rows whose source is known, an output is declared not_time_dependent exactly when it is written as
   the first message's value *)
Theorem ntd_iff_first : forall r, In r np_rows -> r_src r <> Opaque ->
  (r_ntd r = true <-> exists p, r_src r = First p).
Proof.
  intros r Hr NO. pose proof (proj1 (forallb_forall _ _) rows_ntd_ok r Hr) as H.
  unfold np_row_ntd_ok in H. destruct (r_src r) as [p|p|].
  - apply negb_true_iff in H. rewrite H. split; [discriminate|intros [q E]; discriminate].
  - rewrite H. split; [eauto|reflexivity].
  - congruence.
Qed.

Theorem declared_ntd_are_outputs : forall c k ks, In (c, ks) np_declared_ntd -> In k ks ->
  exists r, In r np_rows /\ r_class r = c /\ r_key r = k.
Proof.
  intros c k ks Hc Hk. pose proof (proj1 (forallb_forall _ _) declared_ok _ Hc) as H.
  unfold np_declared_ok in H. cbn [fst snd] in H. pose proof (proj1 (forallb_forall _ _) H k Hk) as H2.
  apply existsb_exists in H2. destruct H2 as [r [Hr E]]. apply andb_true_iff in E. destruct E as [E1 E2].
  apply String.eqb_eq in E1. apply String.eqb_eq in E2. eauto.
Qed.
