(* C07, framer level (floor part): Reset() facts and the two refutation witnesses of memory safety on the
   model of the code BEFORE the repairs.  The refinement to scan is in Proofs/CppFramerRefineP.v. *)
From Coq Require Import NArith ZArith List Bool Lia.
From FEC Require Import Generated.FEConsts Generated.CppFramerConsts Base.Scan Models.FramerCoreM Models.FramerSpecM Models.CppFramerM.
Import ListNotations.
Open Scope N_scope.

Theorem fe_reset_is_fresh (f : fframer) :
  let c := f_core (fe_reset f) in
  c_state c = FS_SYNC0 /\ c_next c = 0 /\ c_size c = 0 /\
  c_cap c = c_cap (f_core f) /\ f_has (fe_reset f) = f_has f /\ c_buf c = c_buf (f_core f).
Proof. cbn. repeat split. Qed.

(* ---- witness 1 (DESIGN 21 #9): SetBuffer() tested the capacity before aligning the buffer.
   A 24-byte user buffer at an address = 1 mod 4 leaves capacity_bytes_ = 21; collecting a header
   writes buffer_[21]. ---- *)
Definition w1_header : list N := [46; 49; 0; 0; 0; 0; 0; 0; 2; 0; 16; 39; 0; 0; 0; 0; 0; 0; 0; 0; 0; 0; 0; 0].

Lemma legacy_oob_after_alignment :
  let f := fe_legacy_construct (Some 1) 0 24 (repeat 0 24) in
  f_has f = true /\ c_cap (f_core f) = 21 /\ fe_legacy_on_data f w1_header = OobWrite 21 21.
Proof. vm_compute. repeat split. Qed.

(* the repaired SetBuffer() refuses that buffer *)
Lemma repaired_refuses_short_aligned_buffer :
  let f := fe_construct (Some 1) 0 24 (repeat 0 24) in
  f_has f = false /\ fe_on_data f w1_header = Ok (f, 0, []).
Proof. vm_compute. repeat split. Qed.

(* ---- witness 2 (found by this check): Resync() replays buffered bytes through OnByte(); OnByte() handles a
   repeated SYNC0 by rewinding next_byte_index_, which Resync() then overwrites from its own offset, so a run
   of k SYNC0 bytes leaves k-1 stray bytes counted in front of the candidate.  With k >= 24 the state machine
   enters HEADER with next_byte_index_ > 24, never sees next_byte_index_ == 24 again, swallows everything
   that follows and finally writes buffer_[capacity_bytes_]. ---- *)
Definition w2_stream : list N :=
  [46; 49; 0; 0; 120; 86; 52; 18; 2; 0; 16; 39; 0; 0; 0; 0; 26; 0; 0; 0; 0; 0; 0; 0]   (* header, payload 26, wrong CRC *)
  ++ repeat 46 24 ++ [49; 120]                                                        (* 24 x SYNC0, SYNC1, 'x' *)
  ++ repeat 7 40.

Lemma legacy_oob_after_sync_run :
  let f := fe_legacy_construct (Some 0) 0 64 (repeat 0 64) in
  c_cap (f_core f) = 64 /\ fe_legacy_on_data f w2_stream = OobWrite 64 64.
Proof. vm_compute. repeat split. Qed.

Lemma repaired_survives_sync_run :
  let f := fe_construct (Some 0) 0 64 (repeat 0 64) in
  exists f', fe_on_data f w2_stream = Ok (f', 0, []).
Proof. eexists. vm_compute. reflexivity. Qed.

Lemma legacy_no_oob_refuted :
  (exists user cap mem stream, N.of_nat (length mem) = cap /\ 24 <= cap /\
     exists i n, fe_legacy_on_data (fe_legacy_construct (Some user) 0 cap mem) stream = OobWrite i n) /\
  (let f := fe_legacy_construct (Some 0) 0 64 (repeat 0 64) in
   c_cap (f_core f) = 64 /\ fe_legacy_on_data f w2_stream = OobWrite 64 64).
Proof.
  split.
  - exists 1, 24, (repeat 0 24), w1_header. split; [reflexivity|]. split; [discriminate|].
    exists 21, 21. exact (proj2 (proj2 legacy_oob_after_alignment)).
  - exact legacy_oob_after_sync_run.
Qed.
