(* C20 — proofs about Models/DataVersion.v *)
From Coq Require Import ZArith List Bool Lia ZifyBool.
From FEC Require Import Generated.DataVersionConsts Models.DataVersion.
Import ListNotations.
Open Scope Z_scope.

Definition dstep (a c : Z) : Z := 10 * a + (c - 48).

Lemma dec_value_fold l : dec_value l = fold_left dstep l 0.
Proof. reflexivity. Qed.

Lemma span_digits (l : list Z) :
  exists a r, l = a ++ r /\ forallb is_digit a = true /\
              (r = [] \/ exists c r', r = c :: r' /\ is_digit c = false).
Proof.
  induction l as [|c t IH].
  - exists [], []. repeat split; auto.
  - destruct (is_digit c) eqn:Hc.
    + destruct IH as (a & r & -> & Ha & Hr). exists (c :: a), r. repeat split; auto.
      cbn. rewrite Hc, Ha. reflexivity.
    + exists [], (c :: t). repeat split; auto. right. eauto.
Qed.

Lemma digits_pref_app a : forall r acc n,
  forallb is_digit a = true ->
  (r = [] \/ exists c r', r = c :: r' /\ is_digit c = false) ->
  digits_pref (a ++ r) acc n = (fold_left dstep a acc, (n + length a)%nat).
Proof.
  induction a as [|c a IH]; intros r acc n Ha Hr.
  - cbn. destruct Hr as [-> | (c & r' & -> & Hc)]; cbn; [|rewrite Hc]; f_equal; lia.
  - cbn in Ha. apply andb_true_iff in Ha as [Hc Ha]. cbn [app digits_pref]. rewrite Hc.
    rewrite IH by assumption. unfold strtol_base, dstep. cbn [fold_left length]. f_equal. lia.
Qed.

Lemma fold_dstep_nonneg a : forall acc, 0 <= acc -> forallb is_digit a = true -> 0 <= fold_left dstep a acc.
Proof.
  induction a as [|c a IH]; intros acc Hacc Ha; cbn; [assumption|].
  cbn in Ha. apply andb_true_iff in Ha as [Hc Ha]. apply IH; [|assumption].
  unfold dstep, is_digit in *. lia.
Qed.

Lemma digit_not_space c : is_digit c = true -> is_space c = false.
Proof. unfold is_digit, is_space. lia. Qed.

(* strtol on a string that starts with a digit *)
Lemma strtol10_digits a r c :
  forallb is_digit (c :: a) = true ->
  (r = [] \/ exists c' r', r = c' :: r' /\ is_digit c' = false) ->
  strtol10 ((c :: a) ++ r) = (Z.min (dec_value (c :: a)) LONG_MAX, length (c :: a)).
Proof.
  intros Ha Hr. unfold strtol10.
  assert (Hc : is_digit c = true) by (cbn in Ha; apply andb_true_iff in Ha; tauto).
  cbn [app skip_spaces]. rewrite (digit_not_space _ Hc).
  assert (c =? 45 = false) as -> by (unfold is_digit in Hc; lia).
  assert (c =? 43 = false) as -> by (unfold is_digit in Hc; lia).
  change (c :: a ++ r) with ((c :: a) ++ r).
  rewrite digits_pref_app by assumption.
  cbn [length Nat.add]. rewrite dec_value_fold. reflexivity.
Qed.

Lemma split_dot_digits a : forall r,
  forallb is_digit a = true ->
  split_dot (a ++ r) = match r with
                       | [] => None
                       | c :: r' => if c =? 46 then Some (a, r')
                                    else match split_dot r' with
                                         | Some (x, y) => Some (a ++ c :: x, y) | None => None end
                       end.
Proof.
  induction a as [|d a IH]; intros r Ha.
  - cbn. destruct r as [|c r']; [reflexivity|]. cbn. destruct (c =? 46); [reflexivity|].
    destruct (split_dot r') as [[x y]|]; reflexivity.
  - cbn in Ha. apply andb_true_iff in Ha as [Hd Ha]. cbn [app split_dot].
    assert (d =? 46 = false) as -> by (unfold is_digit in Hd; lia).
    rewrite IH by assumption. destruct r as [|c r']; [reflexivity|].
    destruct (c =? 46); [reflexivity|]. destruct (split_dot r') as [[x y]|]; reflexivity.
Qed.

Lemma forallb_app_false (f : Z -> bool) a c x : f c = false -> forallb f (a ++ c :: x) = false.
Proof. intros H. rewrite forallb_app. cbn. rewrite H. apply andb_false_r. Qed.

Lemma rd_app_at a r : rd (a ++ r) (length a) = Some (match r with [] => 0 | c :: _ => c end).
Proof.
  unfold rd. rewrite app_length. destruct r as [|c r'].
  - cbn [length]. rewrite Nat.add_0_r, Nat.ltb_irrefl, Nat.eqb_refl. reflexivity.
  - cbn [length]. assert (Nat.ltb (length a) (length a + S (length r')) = true) as -> by (apply Nat.ltb_lt; lia).
    rewrite app_nth2 by lia. rewrite Nat.sub_diag. reflexivity.
Qed.

Lemma rd_0 s : rd s 0 = Some (match s with [] => 0 | c :: _ => c end).
Proof. apply (rd_app_at [] s). Qed.

Lemma strtol_at_app a r : strtol_at (a ++ r) (length a) = let '(v, n) := strtol10 r in Some (v, (length a + n)%nat).
Proof.
  unfold strtol_at. rewrite app_length.
  assert (Nat.leb (length a) (length a + length r) = true) as -> by (apply Nat.leb_le; lia).
  rewrite skipn_app, Nat.sub_diag, skipn_all. cbn [skipn app]. reflexivity.
Qed.

Lemma numeral_nil : numeral [] = false.  Proof. reflexivity. Qed.

Lemma numeral_cons_digits c a : forallb is_digit (c :: a) = true -> numeral (c :: a) = true.
Proof. intros H. unfold numeral. rewrite H. reflexivity. Qed.

Lemma numeral_bad a c x : is_digit c = false -> numeral (a ++ c :: x) = false.
Proof. intros H. unfold numeral. rewrite forallb_app_false by assumption. apply andb_false_r. Qed.

Lemma dec_nonneg a : forallb is_digit a = true -> 0 <= dec_value a.
Proof. intros. rewrite dec_value_fold. apply fold_dstep_nonneg; [lia|assumption]. Qed.

(* Main equivalence: the transcribed FromString equals the grammar "<0-255>.<0-65535>" on every C string. *)
Theorem from_string_spec s : wf_cstr s -> from_string s = spec_from_string s.
Proof.
  intros Hwf. destruct (span_digits s) as (a & r & Hs & Ha & Hr).
  unfold from_string. rewrite rd_0.
  destruct a as [|c a].
  { (* no leading digit *)
    cbn [app] in Hs. subst s.
    destruct Hr as [-> | (c & r' & -> & Hc)].
    - cbn. reflexivity.
    - rewrite Hc. cbn [negb]. unfold spec_from_string.
      change (c :: r') with ([] ++ c :: r').
      rewrite (split_dot_digits [] (c :: r')) by reflexivity.
      destruct (c =? 46); [reflexivity|].
      destruct (split_dot r') as [[x y]|]; [|reflexivity].
      rewrite numeral_bad by assumption. reflexivity. }
  assert (Hc : is_digit c = true) by (cbn in Ha; apply andb_true_iff in Ha; tauto).
  assert (HnumA : numeral (c :: a) = true) by (apply numeral_cons_digits; assumption).
  assert (HlenA : (length (c :: a) =? 0)%nat = false) by reflexivity.
  pose proof (strtol10_digits a r c Ha Hr) as Hst.
  pose proof (dec_nonneg _ Ha) as Hnn.
  assert (Hhd : match (c :: a) ++ r with [] => 0 | x :: _ => x end = c) by reflexivity.
  subst s. rewrite Hhd, Hc. cbn [negb]. clear Hhd Hc.
  remember (c :: a) as A eqn:HeqA. clear HeqA c a.
  change (strtol_at (A ++ r) 0) with (strtol_at ([] ++ A ++ r) (length (@nil Z))).
  rewrite strtol_at_app, Hst. cbv beta iota zeta. cbn [length Nat.add].
  rewrite rd_app_at, HlenA. cbn [orb].
  unfold spec_from_string. rewrite split_dot_digits by assumption.
  destruct r as [|d r'].
  { cbn. rewrite !orb_true_r. reflexivity. }
  destruct (d =? 46) eqn:Hd.
  2:{ cbn [negb]. rewrite !orb_true_r.
      destruct Hr as [? | (c' & r'' & Heq & Hc')]; [discriminate|]. injection Heq as <- <-.
      destruct (split_dot r') as [[x y]|]; [|reflexivity].
      rewrite numeral_bad by assumption. reflexivity. }
  cbn [negb]. rewrite orb_false_r.
  unfold major_max. rewrite HnumA. cbn [andb].
  destruct (dec_value A <=? 255) eqn:HA.
  2:{ assert (Z.min (dec_value A) LONG_MAX >? 255 = true) as -> by (unfold LONG_MAX; lia).
      cbn. rewrite andb_false_r. reflexivity. }
  assert (Z.min (dec_value A) LONG_MAX >? 255 = false) as -> by (unfold LONG_MAX; lia).
  assert (Z.min (dec_value A) LONG_MAX <? 0 = false) as -> by (unfold LONG_MAX; lia).
  assert (Z.min (dec_value A) LONG_MAX = dec_value A) as -> by (unfold LONG_MAX; lia).
  cbn [orb].
  (* second field *)
  apply Z.eqb_eq in Hd. subst d.
  assert (HlenS : S (length A) = length (A ++ [46])) by (rewrite app_length; cbn; lia).
  replace (A ++ 46 :: r') with ((A ++ [46]) ++ r') in * by (rewrite <- app_assoc; reflexivity).
  rewrite HlenS, rd_app_at.
  destruct (span_digits r') as (b & q & Hr' & Hb & Hq).
  destruct b as [|e b].
  { cbn [app] in Hr'. subst r'.
    destruct Hq as [-> | (e & q' & -> & He)].
    - cbn. reflexivity.
    - rewrite He. cbn [negb]. change (e :: q') with ([] ++ e :: q').
      rewrite numeral_bad by assumption. reflexivity. }
  assert (He : is_digit e = true) by (cbn in Hb; apply andb_true_iff in Hb; tauto).
  assert (HnumB : numeral (e :: b) = true) by (apply numeral_cons_digits; assumption).
  assert (HlenB : length (e :: b) <> O) by discriminate.
  pose proof (strtol10_digits b q e Hb Hq) as HstB.
  pose proof (dec_nonneg _ Hb) as HnnB.
  assert (HhdB : match (e :: b) ++ q with [] => 0 | x :: _ => x end = e) by reflexivity.
  subst r'. rewrite HhdB, He. cbn [negb]. clear HhdB He.
  remember (e :: b) as B eqn:HeqB. clear HeqB e b.
  rewrite strtol_at_app, HstB. cbv beta iota zeta.
  replace ((A ++ [46]) ++ B ++ q) with (((A ++ [46]) ++ B) ++ q) in * by (rewrite <- !app_assoc; reflexivity).
  replace (Nat.add (length (A ++ [46])) (length B)) with (length ((A ++ [46]) ++ B)) by (rewrite !app_length; lia).
  rewrite rd_app_at.
  assert (Hne : Nat.eqb (length ((A ++ [46]) ++ B)) (length (A ++ [46])) = false).
  { apply Nat.eqb_neq. rewrite !app_length. cbn [length]. lia. }
  rewrite Hne. cbn [orb]. unfold minor_max.
  destruct q as [|d q'].
  - rewrite app_nil_r, HnumB. cbn [andb negb Z.eqb].
    rewrite orb_false_r.
    destruct (dec_value B <=? 65535) eqn:HB.
    + assert (Z.min (dec_value B) LONG_MAX >? 65535 = false) as -> by (unfold LONG_MAX; lia).
      assert (Z.min (dec_value B) LONG_MAX <? 0 = false) as -> by (unfold LONG_MAX; lia).
      assert (Z.min (dec_value B) LONG_MAX = dec_value B) as -> by (unfold LONG_MAX; lia).
      reflexivity.
    + assert (Z.min (dec_value B) LONG_MAX >? 65535 = true) as -> by (unfold LONG_MAX; lia).
      reflexivity.
  - destruct Hq as [? | (d' & q'' & Heq & Hd')]; [discriminate|]. injection Heq as <- <-.
    rewrite numeral_bad by assumption. cbn [andb].
    assert (d =? 0 = false) as ->.
    { unfold wf_cstr in Hwf. rewrite Forall_forall in Hwf.
      assert (0 < d < 256) by (apply Hwf; rewrite !in_app_iff; right; left; reflexivity). lia. }
    cbn [negb]. rewrite !orb_true_r. reflexivity.
Qed.

Corollary from_string_never_oob s : wf_cstr s -> from_string s <> OutOfBounds.
Proof.
  intros H. rewrite from_string_spec by assumption. unfold spec_from_string.
  destruct (split_dot s) as [[a b]|]; [|discriminate].
  destruct (numeral a && numeral b && (dec_value a <=? 255) && (dec_value b <=? 65535)); discriminate.
Qed.

(* ---- refutations of the pre-fix code -------------------------------------------------------- *)
Lemma legacy_reads_past_terminator : from_string_legacy [49; 50] = OutOfBounds.   (* "12" *)
Proof. vm_compute. reflexivity. Qed.
Lemma legacy_accepts_garbage :
  from_string_legacy [49; 120; 50] = Ver 1 2 /\           (* "1x2" *)
  from_string_legacy [32; 49; 46; 50] = Ver 1 2 /\        (* " 1.2" *)
  from_string_legacy [49; 46; 50; 97] = Ver 1 2.          (* "1.2a" *)
Proof. vm_compute. auto. Qed.

(* ---- printing and round trip ---------------------------------------------------------------- *)
Lemma digits_props f : forall n, 0 <= n < 10 ^ Z.of_nat (S f) ->
  forallb is_digit (digits f n) = true /\ dec_value (digits f n) = n /\ digits f n <> [].
Proof.
  induction f as [|f IH]; intros n Hn.
  - cbn [digits]. change (10 ^ Z.of_nat 1) with 10 in Hn.
    rewrite Z.mod_small by lia. split; [|split].
    + cbn [forallb]. unfold is_digit. lia.
    + unfold dec_value. cbn [fold_left]. lia.
    + discriminate.
  - cbn [digits]. destruct (n <? 10) eqn:H10.
    + split; [|split].
      * cbn [forallb]. unfold is_digit. lia.
      * unfold dec_value. cbn [fold_left]. lia.
      * discriminate.
    + assert (Hq : 0 <= n / 10 < 10 ^ Z.of_nat (S f)).
      { rewrite Nat2Z.inj_succ, Z.pow_succ_r in Hn by lia. split; [apply Z.div_pos; lia|].
        apply Z.div_lt_upper_bound; lia. }
      destruct (IH _ Hq) as (Hd & Hv & Hne). repeat split.
      * rewrite forallb_app, Hd. cbn [forallb andb]. unfold is_digit.
        pose proof (Z.mod_pos_bound n 10). lia.
      * rewrite dec_value_fold, fold_left_app. rewrite <- dec_value_fold, Hv. cbn [fold_left]. unfold dstep.
        pose proof (Z.div_mod n 10). lia.
      * destruct (digits f (n / 10)); discriminate.
Qed.

Lemma digits5 n : 0 <= n < 65536 ->
  forallb is_digit (digits 5 n) = true /\ dec_value (digits 5 n) = n /\ digits 5 n <> [].
Proof. intros H. apply digits_props. change (10 ^ Z.of_nat 6) with 1000000. lia. Qed.

Theorem roundtrip maj min :
  0 <= maj <= 255 -> 0 <= min <= 65535 -> is_valid maj min = true ->
  wf_cstr (to_string maj min) /\ from_string (to_string maj min) = Ver maj min.
Proof.
  intros Hmaj Hmin Hv.
  destruct (digits5 maj ltac:(lia)) as (Ha & Hva & Hna).
  destruct (digits5 min ltac:(lia)) as (Hb & Hvb & Hnb).
  assert (Hwf : wf_cstr (to_string maj min)).
  { unfold to_string. rewrite Hv. unfold wf_cstr. rewrite !Forall_app. repeat split.
    - rewrite Forall_forall. intros x Hx. rewrite forallb_forall in Ha. specialize (Ha x Hx). unfold is_digit in Ha. lia.
    - repeat constructor; lia.
    - rewrite Forall_forall. intros x Hx. rewrite forallb_forall in Hb. specialize (Hb x Hx). unfold is_digit in Hb. lia. }
  split; [exact Hwf|]. rewrite from_string_spec by exact Hwf.
  unfold to_string. rewrite Hv. unfold spec_from_string.
  rewrite split_dot_digits by assumption. cbn [app Z.eqb Pos.eqb].
  unfold numeral. rewrite Ha, Hb, Hva, Hvb.
  destruct (digits 5 maj) as [|? ?]; [congruence|]. destruct (digits 5 min) as [|? ?]; [congruence|].
  cbn [length Nat.eqb negb andb].
  assert (maj <=? 255 = true) as -> by lia. assert (min <=? 65535 = true) as -> by lia. reflexivity.
Qed.

(* the invalid version prints as text that does not parse *)
Lemma invalid_prints_invalid : from_string (to_string major_max minor_max) = Invalid.
Proof. vm_compute. reflexivity. Qed.

(* ---- ordering -------------------------------------------------------------------------------- *)
Definition lex_lt (a b : Z * Z) : Prop := fst a < fst b \/ (fst a = fst b /\ snd a < snd b).

Lemma v_lt_lex a b : v_lt a b = true <-> lex_lt a b.
Proof. unfold v_lt, lex_lt. lia. Qed.

Theorem order_total_lex (a b c : Z * Z) :
  (v_le a b = true <-> lex_lt a b \/ a = b) /\
  (v_ge a b = true <-> lex_lt b a \/ a = b) /\
  (v_gt a b = true <-> lex_lt b a) /\
  (v_eq a b = true <-> a = b) /\ (v_ne a b = negb (v_eq a b)) /\
  (* total order *)
  v_le a a = true /\
  (v_le a b = true -> v_le b a = true -> a = b) /\
  (v_le a b = true -> v_le b c = true -> v_le a c = true) /\
  (v_le a b = true \/ v_le b a = true) /\
  (* exactly one of <, ==, > *)
  (Nat.b2n (v_lt a b) + Nat.b2n (v_eq a b) + Nat.b2n (v_gt a b) = 1)%nat.
Proof.
  destruct a as [a1 a2], b as [b1 b2], c as [c1 c2].
  unfold v_le, v_ge, v_gt, v_lt, v_eq, v_ne, lex_lt. cbn [fst snd].
  assert (E : forall x y u v : Z, (x, y) = (u, v) <-> x = u /\ y = v) by (intros; split; [intros [= -> ->]; auto | intros [-> ->]; auto]).
  rewrite !E. repeat split; try lia.
Qed.
