(* C08: machine-checked witnesses that the code *before* the repairs ([fi_legacy]) violated the property,
   kept as regression documentation; and concrete instances showing the hypotheses of the positive
   theorems are satisfiable by non-trivial inputs.  Constants READ = 64, MAX = 48 (the theorems are for all
   constants; the same inputs with the real constants are in corpus/C08 and are replayed on the code). *)
From Coq Require Import NArith List Bool Arith Lia ZifyBool ZifyNat ZifyN.
From FEC Require Import Generated.FEConsts Base.ListX Base.Bytes Base.Crc32 Base.Scan Base.FEFormat
  Models.FastIndexerM Proofs.FastIndexerListP Proofs.FastIndexerJudgeP Proofs.FastIndexerSpecP.
Import ListNotations.
Open Scope N_scope.

Definition no_time : N -> N -> list N -> option (N * N) := fun _ _ _ => None.
Definition big_time : N -> N -> list N -> option (N * N) := fun _ _ _ => Some (4294967298, 1).

(* DESIGN 21 #15 with READ = 64: 40 filler bytes; wrapper A at 40..88 spanning the block boundary 64; its payload
   is the header of a CRC-valid B at 64..112; the real message C at 88..112 lies after A and inside B *)
Definition wit_overlap : list N :=
  [0;0;0;0;0;0;0;0;0;0;0;0;0;0;0;0;0;0;0;0;0;0;0;0;0;0;0;0;0;0;0;0;0;0;0;0;0;0;0;0;
   46;49;0;0;115;244;228;134;2;0;18;39;0;0;0;0;24;0;0;0;255;255;255;255;
   46;49;0;0;134;221;7;102;2;0;17;39;0;0;0;0;24;0;0;0;255;255;255;255;
   46;49;0;0;42;160;101;244;2;0;25;42;0;0;0;0;0;0;0;0;255;255;255;255;
   0;0;0;0;0;0;0;0].

(* a header that claims one payload byte at the very end of the file, CRC of the truncated slice (DESIGN 21 #17) *)
Definition wit_trunc : list N :=
  [46;49;0;0;27;142;51;121;2;2;16;39;0;0;0;0;1;0;0;0;255;255;255;255].

(* a complete valid 32-byte message *)
Definition wit_msg : list N :=
  [46;49;0;0;191;108;119;30;2;2;16;39;0;0;0;0;8;0;0;0;255;255;255;255;7;7;7;7;7;7;7;7].

(* finite check of the precondition: positions beyond the end cannot accept *)
Lemma small_msgs_by_check MAX file :
  forallb (fun j => match fi_judge (skipn j file) with Accept n => N.of_nat n <=? MAX | _ => true end)
          (seq 0 (length file)) = true -> fi_small_msgs MAX file.
Proof.
  intros H j n J. destruct (Nat.lt_ge_cases j (length file)) as [L|G].
  - rewrite forallb_forall in H. specialize (H j). rewrite J in H. apply N.leb_le. apply H. apply in_seq. lia.
  - rewrite skipn_all2 in J by exact G. unfold fi_judge in J.
    rewrite (j_nil _ (judge_fe_ok false false MAX_EXPECTED_SIZE_BYTES)) in J. discriminate.
Qed.

Lemma wit_overlap_small : fi_small_msgs 48 wit_overlap.
Proof. apply small_msgs_by_check. vm_compute. reflexivity. Qed.

(* the old code: one worker indexes the message at 88, two workers lose it — although every valid candidate
   of the file is at most MAX bytes *)
Lemma legacy_worker_dependent :
  fi_generate 64 48 fi_legacy no_time wit_overlap 1 = FOk (fi_spec no_time wit_overlap) /\
  fi_generate 64 48 fi_legacy no_time wit_overlap 2 <> fi_generate 64 48 fi_legacy no_time wit_overlap 1.
Proof. split; vm_compute; [reflexivity|discriminate]. Qed.

(* the repaired code on the same file: the scan, for 1, 2, 3 and 16 workers (instances of index_is_scan) *)
Lemma cur_overlap_ok :
  fi_generate 64 48 fi_cur no_time wit_overlap 1 = FOk (fi_spec no_time wit_overlap) /\
  fi_generate 64 48 fi_cur no_time wit_overlap 2 = FOk (fi_spec no_time wit_overlap) /\
  fi_generate 64 48 fi_cur no_time wit_overlap 3 = FOk (fi_spec no_time wit_overlap) /\
  fi_generate 64 48 fi_cur no_time wit_overlap 16 = FOk (fi_spec no_time wit_overlap) /\
  length (fi_spec no_time wit_overlap) = 2%nat.
Proof. split; [|split; [|split; [|split]]]; vm_compute; reflexivity. Qed.

(* the old code indexed a header whose payload is not in the file *)
Lemma legacy_indexes_truncated :
  (exists e, fi_generate 64 48 fi_legacy no_time wit_trunc 1 = FOk [e] /\ e_off e = 0) /\
  (forall n, fi_judge (skipn 0 wit_trunc) <> Accept n) /\
  fi_generate 64 48 fi_cur no_time wit_trunc 1 = FOk [].
Proof.
  split; [|split].
  - eexists. split; vm_compute; reflexivity.
  - intros n. vm_compute. discriminate.
  - vm_compute. reflexivity.
Qed.

(* the old code raised: 1-byte file; stamp whose whole seconds do not fit 32 bits *)
Lemma legacy_raises :
  fi_generate 64 48 fi_legacy no_time [0] 1 = FRaise ErrNegativeDim /\
  fi_generate READ_SIZE_BYTES MAX_FE_MSG_SIZE_BYTES fi_legacy no_time [0] 1 = FRaise ErrNegativeDim /\
  fi_generate 64 48 fi_legacy big_time wit_msg 1 = FRaise ErrTimeOverflow /\
  fi_generate 64 48 fi_cur no_time [0] 1 = FOk [] /\
  (exists e, fi_generate 64 48 fi_cur big_time wit_msg 1 = FOk [e] /\ e_time e = None /\ e_off e = 0).
Proof.
  split; [|split; [|split; [|split]]]; try (vm_compute; reflexivity).
  eexists. split; [|split]; vm_compute; reflexivity.
Qed.

(* the old code took the time of a message from the bytes after it: modelled by the payload view; witness:
   a payload-less message followed by bytes, with a decoder that reports a time iff it is given >= 8 bytes *)
Definition len_time : N -> N -> list N -> option (N * N) :=
  fun _ _ p => if fi_has 8 p then Some (77, 1) else None.
Definition wit_short : list N :=
  [46;49;0;0;42;160;101;244;2;0;25;42;0;0;0;0;0;0;0;0;255;255;255;255; 77;0;0;0;5;0;0;0;0;0].
Lemma legacy_time_from_following_bytes :
  (exists e, fi_generate 64 48 fi_legacy len_time wit_short 1 = FOk [e] /\ e_time e = Some 77) /\
  (exists e, fi_generate 64 48 fi_cur len_time wit_short 1 = FOk [e] /\ e_time e = None) /\
  (exists e, fi_spec len_time wit_short = [e] /\ e_time e = None).
Proof. split; [|split]; eexists; split; vm_compute; reflexivity. Qed.
