(* C17 — finite facts about the generated tables (every IntEnum subclass and every enum_bitmask helper of the
   package, regenerated from /repo on every run), by computation; and the general lemmas instantiated with them. *)
From Coq Require Import ZArith List Bool String Ascii Lia.
From FEC Require Import Generated.DynEnumTables Models.DynEnumM Proofs.DynEnumP Proofs.DynEnumMaskP.
Import ListNotations.
Open Scope Z_scope.

(* the reserved prefix is its own upper-case form *)
Lemma prefix_ok_holds : prefix_ok = true.
Proof. vm_compute. reflexivity. Qed.

(* every enumeration of the package: at least one member, no member name carries the reserved prefix *)
Lemma all_tables_ok : forallb (fun t => table_ok (snd t)) enum_tables = true.
Proof. vm_compute. reflexivity. Qed.

(* ... member names are not repeated, and the tables are keyed uniquely *)
Lemma all_tables_names_nodup : forallb (fun t => nodupb String.eqb (map fst (snd t))) enum_tables = true.
Proof. vm_compute. reflexivity. Qed.

Lemma table_keys_nodup : nodupb String.eqb (map fst enum_tables) = true.
Proof. vm_compute. reflexivity. Qed.

(* ... no member name is one of the attribute names enum_bitmask skips, or starts with an underscore *)
Lemma all_tables_entries_public : forallb (fun t => forallb is_enum_entry (snd t)) enum_tables = true.
Proof. vm_compute. reflexivity. Qed.

Lemma table_of_in : forall n d, table_of n = Some d -> In (n, d) enum_tables.
Proof.
  unfold table_of. intros n d H. destruct (find (fun t => String.eqb (fst t) n) enum_tables) as [[k t]|] eqn:F; [|discriminate].
  injection H as <-. apply find_some in F. destruct F as [Hin E]. cbn in E. apply String.eqb_eq in E. subst k. assumption.
Qed.

Lemma package_enums_ok_lemma : forall n d, table_of n = Some d -> table_ok d = true /\ NoDup (map fst d).
Proof.
  intros n d H. apply table_of_in in H. split.
  - pose proof all_tables_ok as A. rewrite forallb_forall in A. apply (A (n, d) H).
  - pose proof all_tables_names_nodup as A. rewrite forallb_forall in A.
    apply (nodupb_NoDup String.eqb String.eqb_eq). apply (A (n, d) H).
Qed.

(* the general statements with the prefix fact discharged *)
Lemma lenient_preserves : forall d st v, table_ok d = true -> reachable d st ->
  exists m, snd (call st v false) = OMember m /\ snd m = v /\ reachable d (fst (call st v false)).
Proof. intros d st v H. exact (lenient_preserves_lemma d H prefix_ok_holds st v). Qed.

Lemma unrecognised_iff : forall d st v m, table_ok d = true -> reachable d st ->
  snd (call st v false) = OMember m -> (is_hidden m = true <-> ~ In v (map snd d)).
Proof. intros d st v m H. exact (unrecognised_iff_lemma d H prefix_ok_holds st v m). Qed.

Lemma strict_refuses_unknown : forall d st v, table_ok d = true -> reachable d st -> ~ In v (map snd d) ->
  call st v true = (st, OErr ValueError) /\
  call (fst (call st v false)) v true = (fst (call st v false), OErr ValueError).
Proof. intros d st v H. exact (strict_refuses_unknown_lemma d H prefix_ok_holds st v). Qed.

Lemma strict_accepts_known : forall d st v, table_ok d = true -> reachable d st -> In v (map snd d) ->
  exists m, call st v true = (st, OMember m) /\ call st v false = (st, OMember m) /\
            by_value d v = Some m /\ snd m = v /\ is_hidden m = false.
Proof. intros d st v H. exact (strict_accepts_known_lemma d H prefix_ok_holds st v). Qed.

Lemma defined_view_invariant : forall d st, table_ok d = true -> reachable d st ->
  defined st = d /\
  iter st = iter (init d) /\ len st = len (init d) /\ reversed st = reversed (init d) /\
  (forall s, hidden_ns s = false -> from_string st s = from_string (init d) s) /\
  (forall s, hidden_ns s = false -> snd (call_name st s true) = snd (call_name (init d) s true)) /\
  (forall s, hidden_ns_ci s = false -> from_string_ci st s = from_string_ci (init d) s) /\
  (forall v, In v (map snd d) -> by_value (entries st) v = by_value d v /\ super_call st v = super_call (init d) v).
Proof. intros d st H. exact (defined_view_invariant_lemma d H prefix_ok_holds st). Qed.

Lemma history_independent : forall d ops, table_ok d = true -> Forall (fun o => allowed d o = true) ops ->
  map abstract (snd (run (init d) ops)) = map (spec d) ops.
Proof. intros d ops H. exact (history_independent_lemma d H prefix_ok_holds ops). Qed.

Lemma reachable_run : forall d ops, Forall (fun o => allowed d o = true) ops -> reachable d (fst (run (init d) ops)).
Proof. intros d ops H. exists ops. auto. Qed.

(* the construct adapter: parse leniently, serialise again: the integer is preserved *)
Lemma adapter_preserves : forall d st v, table_ok d = true -> reachable d st ->
  exists m, snd (adapter_decode st false v) = OMember m /\ adapter_encode m = v /\
            (is_hidden m = true <-> ~ In v (map snd d)) /\
            (~ In v (map snd d) -> snd (adapter_decode st true v) = OErr ValueError).
Proof.
  intros d st v H HR. unfold adapter_decode, adapter_encode.
  destruct (lenient_preserves d st v H HR) as [m [E [Hv _]]]. exists m. repeat split; auto.
  - apply (unrecognised_iff d st v m H HR E).
  - apply (unrecognised_iff d st v m H HR E).
  - intros N. destruct (strict_refuses_unknown d st v H HR N) as [E1 _]. rewrite E1. reflexivity.
Qed.

(* ---------------------------------------------------------------------------------------------------------- *)
(* the package's mask helpers *)

Fixpoint members_eqb (a b : list member) : bool :=
  match a, b with
  | [], [] => true
  | (n, v) :: a', (n', v') :: b' => String.eqb n n' && (v =? v') && members_eqb a' b'
  | _, _ => false
  end.

Lemma members_eqb_eq : forall a b, members_eqb a b = true -> a = b.
Proof.
  induction a as [|[n v] a IH]; destruct b as [|[n' v'] b]; cbn; intros H; try discriminate; [reflexivity|].
  apply andb_true_iff in H. destruct H as [H H3]. apply andb_true_iff in H. destruct H as [H1 H2].
  apply String.eqb_eq in H1. apply Z.eqb_eq in H2. subst. f_equal. auto.
Qed.

(* the model of the decorator, run on the generated enum table, yields the helper the interpreter built: same
   offset, same known members; every member is at or above the offset, names and values are not repeated, and
   every member can be selected by value and by name *)
Definition real_mask_ok (t : (string * string) * Z * list member * list member) : bool :=
  let '(k, off, base, vals) := t in
  match real_mask (fst k) with
  | Some (inl m) =>
      (m_offset m =? off) && members_eqb (m_values m) vals && rt_pre m []
      && forallb (fun e => item_ok m (IName (fst e)) && item_ok m (IName (lower (fst e))) && item_ok m (IVal (snd e))) (m_values m)
  | _ => false
  end.

Lemma all_real_masks_ok : forallb real_mask_ok mask_tables = true.
Proof. vm_compute. reflexivity. Qed.

Lemma rt_pre_items : forall m items, rt_pre m [] = true -> forallb (item_ok m) items = true -> rt_pre m items = true.
Proof.
  unfold rt_pre. intros m items H Hi. cbn [forallb] in H. rewrite andb_true_r in H.
  apply andb_true_iff in H. destruct H as [H H3]. apply andb_true_iff in H. destruct H as [H1 H2].
  rewrite H1, Hi, H2, H3. reflexivity.
Qed.

Lemma package_masks_roundtrip : forall k off base vals, In (k, off, base, vals) mask_tables ->
  exists m, real_mask (fst k) = Some (inl m) /\ m_offset m = off /\ m_values m = vals /\
    (forall e, In e vals -> item_ok m (IName (fst e)) = true /\ item_ok m (IName (lower (fst e))) = true /\ item_ok m (IVal (snd e)) = true) /\
    (forall items, forallb (item_ok m) items = true -> roundtrip m items = inl (spec_roundtrip_items vals items)).
Proof.
  intros k off base vals Hin. pose proof all_real_masks_ok as A. rewrite forallb_forall in A.
  specialize (A _ Hin). unfold real_mask_ok in A.
  destruct (real_mask (fst k)) as [[m|]|]; try discriminate.
  apply andb_true_iff in A. destruct A as [A A4]. apply andb_true_iff in A. destruct A as [A A3].
  apply andb_true_iff in A. destruct A as [A1 A2]. apply Z.eqb_eq in A1. apply members_eqb_eq in A2.
  exists m. split; [reflexivity|]. split; [assumption|]. split; [assumption|]. split.
  - intros e He. rewrite <- A2 in He. rewrite forallb_forall in A4. specialize (A4 e He).
    apply andb_true_iff in A4. destruct A4 as [A4 A6]. apply andb_true_iff in A4. destruct A4 as [A4 A5]. auto.
  - intros items Hi. rewrite <- A2. apply mask_roundtrip_items_lemma. apply rt_pre_items; assumption.
Qed.

(* ---------------------------------------------------------------------------------------------------------- *)
(* witnesses *)

Definition demo : list member := [("UNKNOWN"%string, 0); ("L1"%string, 1); ("L2"%string, 2)].

(* what the metaclass inherited before the repair: reversed() listed the hidden members *)
Lemma reversed_legacy_changes :
  table_ok demo = true /\
  reversed_legacy (fst (call (init demo) 7 false)) <> reversed_legacy (init demo) /\
  reversed (fst (call (init demo) 7 false)) = reversed (init demo).
Proof. split; [reflexivity|]. split; [vm_compute; discriminate | vm_compute; reflexivity]. Qed.

(* a lenient conversion of a name the enumeration does not define adds a visible member; afterwards the strict
   conversion of its value is accepted, and the value it gets depends on what was seen before *)
Lemma lenient_unknown_name_changes_view :
  table_ok demo = true /\
  allowed demo (OpCallName "Q" false) = false /\
  let st := fst (call_name (init demo) "Q" false) in
  iter st <> iter (init demo) /\ len st <> len (init demo) /\
  snd (call_name st "Q" true) = OMember ("Q"%string, -1) /\
  snd (call st (-1) true) = OMember ("Q"%string, -1) /\
  (* after -1 was seen as an unrecognised value the same conversion yields the unrecognised member *)
  snd (call_name (fst (call (init demo) (-1) false)) "Q" false) = OMember (hidden_name (-1), -1) /\
  (* a hidden name taken by a name conversion blocks the value it stands for *)
  snd (call (fst (call_name (init demo) (hidden_name 7) false)) 7 false) = OErr TypeError.
Proof. vm_compute. repeat split; discriminate. Qed.
