(* C10 — a plain sufficient condition for the discovery hypothesis of read_is_filter: when no message
   type occurs more than populate_count times in the log, the discovery step of the constructor sees
   every requested source id that can be returned, so the source filter in force is the request. *)
From Coq Require Import ZArith List Bool Lia ZifyBool Sorted.
From FEC Require Import Generated.LogReaderConsts Models.FileIndexOpsM Models.LogReaderM
  Proofs.FileIndexOpsP Proofs.LogCursorP Proofs.LogReaderInitP Proofs.LogReaderP Proofs.LogReaderSpecP.
Import ListNotations.
Open Scope Z_scope.

Definition srcs_of (l : list (msg * list piece)) : list Z := map (fun x => m_src (fst x)) l.

(* read_n collects the sources of the first n messages one pass over the remaining index would return *)
Lemma read_n_collect c f : forall l n r acc,
  0 <= r_next r -> skipn (Z.to_nat (r_next r)) (fi_data (r_index r)) = l ->
  exists r', read_n fixed c f n r acc = Ok (r', rev (srcs_of (firstn n (read_all c (r_srcs r) f l))) ++ acc).
Proof.
  induction l as [|e t IH]; intros n r acc Hn Hl; (destruct n as [|k]; [exists r; reflexivity|]); cbn [read_n]; unfold read_next; rewrite Hl; cbn [read_loop read_all].
  - eexists. reflexivity.
  - destruct (read_entry fixed c (r_srcs r) f e) eqn:Er.
    + eexists. reflexivity.
    + set (r1 := set_cursor r (r_next r + 1) (e_off e)).
      assert (Hl1 : skipn (Z.to_nat (r_next r1)) (fi_data (r_index r1)) = t).
      { subst r1. cbn [set_cursor r_next r_index]. replace (Z.to_nat (r_next r + 1)) with (S (Z.to_nat (r_next r))) by lia. eapply skipn_cons_tail; exact Hl. }
      destruct (IH (S k) r1 acc ltac:(subst r1; cbn; lia) Hl1) as [r' Hr'].
      cbn [read_n] in Hr'. unfold read_next in Hr'. rewrite Hl1 in Hr'. subst r1. cbn [set_cursor r_next r_last r_srcs r_orig r_index r_avail] in Hr'.
      exists r'. exact Hr'.
    + set (r1 := set_cursor r (r_next r + 1) (e_off e)).
      assert (Hl1 : skipn (Z.to_nat (r_next r1)) (fi_data (r_index r1)) = t).
      { subst r1. cbn [set_cursor r_next r_index]. replace (Z.to_nat (r_next r + 1)) with (S (Z.to_nat (r_next r))) by lia. eapply skipn_cons_tail; exact Hl. }
      destruct (IH k r1 (m_src m :: acc) ltac:(subst r1; cbn; lia) Hl1) as [r' Hr']. exists r'. rewrite Hr'.
      subst r1. cbn [set_cursor r_srcs firstn srcs_of map fst rev]. rewrite <- app_assoc. reflexivity.
    + exfalso. eapply read_entry_no_err. exact Er.
Qed.

Lemma read_all_length c srcs f l : (length (read_all c srcs f l) <= length l)%nat.
Proof. induction l as [|e t IH]; cbn [read_all length]; [lia|]. destruct (read_entry fixed c srcs f e); cbn [length]; lia. Qed.

Lemma read_n_incl c f : forall n r acc r' acc', read_n fixed c f n r acc = Ok (r', acc') -> incl acc acc'.
Proof.
  induction n as [|n IH]; intros r acc r' acc' H; cbn [read_n] in H; [inversion H; apply incl_refl|].
  destruct (read_next fixed c f r) as [r1 o]. destruct o; [|inversion H; apply incl_refl|discriminate].
  apply IH in H. intros x Hx. apply H. right. exact Hx.
Qed.

Lemma In_insert_uniq x y l : In x (insert_uniq y l) <-> x = y \/ In x l.
Proof.
  induction l as [|z l IH]; cbn [insert_uniq]; [cbn; intuition congruence|].
  destruct (y <? z) eqn:E1; [cbn; intuition congruence|]. destruct (y =? z) eqn:E2.
  - apply Z.eqb_eq in E2. subst. cbn. intuition congruence.
  - cbn [In]. rewrite IH. intuition congruence.
Qed.
Lemma In_uniq_sorted x l : In x (uniq_sorted l) <-> In x l.
Proof. induction l as [|y l IH]; cbn [uniq_sorted fold_right]; [tauto|]. fold (uniq_sorted l). rewrite In_insert_uniq, IH. cbn. intuition congruence. Qed.

Definition count_type (ty : Z) (msgs : list msg) : nat := length (filter (fun m => m_type m =? ty) msgs).

Lemma filter_entries_length ty lim : forall l i,
  (length (filter (fun e => memZ (e_type e) [ty]) (filter (fun e => below lim (e_off e)) (entries_from i l))) <= count_type ty l)%nat.
Proof.
  unfold count_type. induction l as [|m l IH]; intros i; cbn [entries_from filter length]; [lia|].
  specialize (IH (i + 1)). destruct (below lim (e_off (entry_of i m))); cbn [filter].
  - assert (E : memZ (e_type (entry_of i m)) [ty] = (m_type m =? ty)) by (cbn; apply orb_false_r). rewrite E. destruct (m_type m =? ty); cbn [length]; lia.
  - destruct (m_type m =? ty); cbn [length]; lia.
Qed.

Lemma relocate_start d : relocate d (-1) = 0.
Proof. unfold relocate. destruct (zlen d =? 0); reflexivity. Qed.

Lemma filter_types_result r ty r1 :
  r_last r = -1 -> filter_in_place fixed r (KTypes [ty]) false None = (r1, Ok tt) ->
  fi_data (r_index r1) = filter (fun e => memZ (e_type e) [ty]) (fi_data (r_index r)) /\ r_next r1 = 0 /\ r_srcs r1 = r_srcs r.
Proof.
  intros Hl. unfold filter_in_place. cbn [prev_offset fx_last_off fixed apply_source_ids]. rewrite Hl. unfold getitem.
  destruct (zlen (fi_data (r_index r)) =? 0) eqn:E0; intros H; inversion H; subst r1; cbn [set_next set_index set_cursor r_index r_next r_srcs fi_data mk_index].
  - apply Z.eqb_eq, zlen_zero in E0. rewrite E0. split; [reflexivity|]. split; reflexivity.
  - split; [reflexivity|]. split; [|reflexivity]. apply relocate_start.
Qed.

(* one type: a returnable message of that type has its source collected when the type is rare enough *)
Lemma type_sample c f srcs ty r acc :
  wf_file f -> WF r -> r_index r = r_orig r -> r_orig r = index_of_file f (c_max_bytes c) -> r_last r = -1 -> r_srcs r = srcs ->
  (count_type ty (f_msgs f) <= populate_count)%nat ->
  exists r1 r2 acc2,
    filter_in_place fixed r (KTypes [ty]) false None = (r1, Ok tt) /\
    read_n fixed (with_header c) f populate_count r1 acc = Ok (r2, acc2) /\
    incl acc acc2 /\
    forall m, In m (f_msgs f) -> m_type m = ty -> bytes_ok (c_max_bytes c) m = true -> src_ok srcs m = true -> In (m_src m) acc2.
Proof.
  intros Hwf Hw Hi Ho Hl Hs Hcnt.
  destruct (types_filter_ok r ty) as [r1 E1]. exists r1.
  pose proof (filter_in_place_wf _ _ _ _ _ _ Hw (or_introl eq_refl) E1) as Hw1.
  (* the filtered index and the cursor *)
  destruct (filter_types_result r ty r1 Hl E1) as [Fd [Fn Fs]]. rewrite Hi, Ho in Fd. rewrite Hs in Fs.
  destruct (read_n_collect (with_header c) f (fi_data (r_index r1)) populate_count r1 acc ltac:(lia) ltac:(rewrite Fn; reflexivity)) as [r2 E2].
  exists r2. eexists. split; [exact E1|]. split; [exact E2|]. split; [intros x Hx; apply in_or_app; right; exact Hx|].
  intros m Hin Hty Hb Hsrc. apply in_or_app. left. rewrite <- in_rev.
  (* the pass returns every returnable message of the type, and the sample is long enough to hold them all *)
  rewrite firstn_all2.
  2:{ eapply Nat.le_trans; [apply read_all_length|]. rewrite Fd. cbn [index_of_file mk_index fi_data].
      eapply Nat.le_trans; [apply filter_entries_length|exact Hcnt]. }
  rewrite Fs, Fd. cbn [index_of_file mk_index fi_data].
  destruct Hwf as [Hsort [Htimes Hok]].
  pose proof (core_pass (with_header c) srcs (Some [ty]) (None, None) f (f_msgs f) [] [] 0 eq_refl eq_refl eq_refl Hsort Hok) as Hcore.
  cbn [fst snd] in Hcore. rewrite filter_pos_from_true in Hcore.
  2:{ intros pre e rest _. unfold window_ok. destruct (e_time e); reflexivity. }
  change (tyf (Some [ty])) with (fun e : entry => memZ (e_type e) [ty]) in Hcore.
  change (c_max_bytes (with_header c)) with (c_max_bytes c) in Hcore. rewrite Hcore.
  apply in_split in Hin. destruct Hin as [p [rest Hsplit]].
  unfold srcs_of. apply in_map_iff. exists (m, assemble (with_header c) m (m_off m) (zlen p)). split; [reflexivity|].
  apply spec_select_char. exists p, rest. cbn [app]. split; [exact Hsplit|]. split; [|reflexivity].
  unfold keep. change (c_max_bytes (with_header c)) with (c_max_bytes c). rewrite Hb, Hsrc. cbn [type_ok memZ existsb]. rewrite Hty, Z.eqb_refl. cbn [orb andb].
  unfold in_time_pos, window_ok. cbn [fst snd]. destruct (e_time (entry_of 0 m)); reflexivity.
Qed.

Lemma populate_types_collect c f srcs : wf_file f ->
  (forall ty, (count_type ty (f_msgs f) <= populate_count)%nat) ->
  forall tys r acc r' acc',
  WF r -> r_index r = r_orig r -> r_orig r = index_of_file f (c_max_bytes c) -> r_last r = -1 -> r_srcs r = srcs ->
  populate_types fixed c f tys r acc = Ok (r', acc') ->
  incl acc acc' /\
  forall m, In m (f_msgs f) -> In (m_type m) tys -> bytes_ok (c_max_bytes c) m = true -> src_ok srcs m = true -> In (m_src m) acc'.
Proof.
  intros Hwf Hcnt. induction tys as [|ty tys IH]; intros r acc r' acc' Hw Hi Ho Hl Hs H; cbn [populate_types] in H.
  - inversion H; subst. split; [apply incl_refl|intros m _ []].
  - destruct (type_sample c f srcs ty r acc Hwf Hw Hi Ho Hl Hs (Hcnt ty)) as [r1 [r2 [acc2 [E1 [E2 [Hinc Hcol]]]]]].
    rewrite E1, E2 in H.
    pose proof (filter_in_place_wf _ _ _ _ _ _ Hw (or_introl eq_refl) E1) as Hw1.
    destruct (filter_in_place_fields _ _ _ _ _ _ E1) as [Ho1 [_ [_ Hs1]]]. cbn [apply_source_ids] in Hs1.
    destruct (read_n_ok (with_header c) f populate_count r1 acc Hw1) as [r2' [acc2' [E2' [Hw2 [Ho2 [_ Hs2]]]]]].
    rewrite E2 in E2'. inversion E2'; subst r2' acc2'. clear E2'.
    destruct (clear_ok r2) as [r3 [E3 Hi3]]. rewrite E3 in H.
    pose proof (filter_in_place_wf _ _ _ _ _ _ Hw2 (or_intror eq_refl) E3) as Hw3.
    destruct (filter_in_place_fields _ _ _ _ _ _ E3) as [Ho3 [_ [_ Hs3]]]. cbn [apply_source_ids] in Hs3.
    cbn [fx_populate_rewind fixed] in H.
    assert (A1 : r_index (rewind r3) = r_orig (rewind r3)) by (cbn [rewind set_cursor r_index r_orig]; congruence).
    assert (A2 : r_orig (rewind r3) = index_of_file f (c_max_bytes c)) by (cbn [rewind set_cursor r_orig]; congruence).
    assert (A3 : r_last (rewind r3) = -1) by reflexivity.
    assert (A4 : r_srcs (rewind r3) = srcs) by (cbn [rewind set_cursor r_srcs]; congruence).
    destruct (IH (rewind r3) acc2 r' acc' (rewind_wf _ Hw3) A1 A2 A3 A4 H) as [Hinc' Hcol'].
    split; [intros x Hx; apply Hinc', Hinc, Hx|].
    intros m Hin [Hty|Hty] Hb Hsrc; [apply Hinc'; apply Hcol; auto|apply Hcol'; assumption].
Qed.

Lemma entries_from_mid p m rest : forall i, In (entry_of (i + zlen p) m) (entries_from i (p ++ m :: rest)).
Proof.
  induction p as [|x p IH]; intros i; cbn [app entries_from].
  - left. f_equal. rewrite zlen_nil. lia.
  - right. rewrite zlen_cons. replace (i + (1 + zlen p)) with ((i + 1) + zlen p) by lia. apply IH.
Qed.

Theorem discovery_complete_rare_types c f srcs :
  wf_file f -> (forall ty, (count_type ty (f_msgs f) <= populate_count)%nat) -> discovery_complete c f srcs.
Proof.
  intros Hwf Hcnt m Hin Hb. destruct srcs as [ids|]; [|reflexivity]. unfold effective_srcs, src_ok.
  destruct (set_eqb (discovered c f (Some ids)) ids); [reflexivity|].
  destruct (memZ (m_src m) ids) eqn:Em.
  2:{ apply not_true_is_false. intros Hc. unfold memZ in Hc. apply existsb_exists in Hc. destruct Hc as [x [Hx Hxe]].
      apply filter_In in Hx. destruct Hx as [Hx _]. assert (memZ (m_src m) ids = true) by (unfold memZ; apply existsb_exists; exists x; split; assumption). congruence. }
  (* the source of m was collected *)
  assert (Hd : In (m_src m) (discovered c f (Some ids))).
  { unfold discovered, populate.
    pose proof (wf_initial f (c_max_bytes c) (Some ids) [] Hwf) as Hw0.
    set (r0 := initial (index_of_file f (c_max_bytes c)) (Some ids) []) in *.
    destruct (populate_types_ok c f (uniq_sorted (map e_type (fi_data (r_index r0)))) r0 [] Hw0 eq_refl) as [rp [acc [Ep _]]].
    rewrite Ep. cbn [rewind set_cursor set_avail r_avail].
    destruct (populate_types_collect c f (Some ids) Hwf Hcnt _ r0 [] rp acc Hw0 eq_refl eq_refl eq_refl eq_refl Ep) as [_ Hcol].
    apply Hcol; [exact Hin| |exact Hb|exact Em].
    apply In_uniq_sorted. subst r0. cbn [initial r_index index_of_file mk_index fi_data].
    apply in_map_iff. apply in_split in Hin. destruct Hin as [p [rest Hsplit]].
    exists (entry_of (zlen p) m). split; [reflexivity|]. apply filter_In. split.
    - rewrite Hsplit. replace (zlen p) with (0 + zlen p) by lia. apply entries_from_mid.
    - cbn [entry_of e_off]. destruct (below (index_limit f (c_max_bytes c)) (m_off m)) eqn:Eb; [reflexivity|].
      apply limit_exceeds in Eb. unfold bytes_ok in Hb. destruct Hwf as [_ [_ Hok]]. rewrite Forall_forall in Hok. assert (Hinm : In m (f_msgs f)) by (rewrite Hsplit; apply in_or_app; right; left; reflexivity).
      specialize (Hok m Hinm). unfold msg_ok in Hok.
      rewrite (exceeds_mono _ _ (m_off m + m_size m) Eb) in Hb; [discriminate|lia]. }
  unfold memZ. apply existsb_exists. exists (m_src m). split; [|apply Z.eqb_refl].
  apply filter_In. split; [unfold memZ in Em; apply existsb_exists in Em; destruct Em as [x [Hx Hxe]]; apply Z.eqb_eq in Hxe; subst; exact Hx|].
  unfold memZ. apply existsb_exists. exists (m_src m). split; [exact Hd|apply Z.eqb_refl].
Qed.

(* ---------------------------------------------------------------- a plain sufficient condition for range_has_t0 *)
Lemma first_time_some l : (exists e, In e l /\ e_time e <> None) -> first_time l <> None.
Proof.
  induction l as [|x l IH]; intros [e [Hin Ht]]; [destruct Hin|]. cbn [first_time].
  destruct (e_time x) eqn:Ex; [discriminate|]. apply IH. destruct Hin as [<-|Hin]; [congruence|exists e; split; assumption].
Qed.

Theorem has_t0_indexed c f R :
  (exists m t, In m (f_msgs f) /\ m_time m = Some t /\ below (index_limit f (c_max_bytes c)) (m_off m) = true) ->
  range_has_t0 c f R.
Proof.
  intros [m [t [Hin [Ht Hb]]]]. right. cbn [index_of_file mk_index fi_t0]. apply first_time_some.
  apply in_split in Hin. destruct Hin as [p [rest Hsplit]].
  exists (entry_of (0 + zlen p) m). split; [|cbn [entry_of e_time]; rewrite Ht; discriminate].
  apply filter_In. split; [rewrite Hsplit; apply entries_from_mid|exact Hb].
Qed.

(* the main theorem under plain conditions on the log *)
Theorem read_is_filter_plain c f srcs types R :
  wf_file f ->
  (bound_free R \/ exists m t, In m (f_msgs f) /\ m_time m = Some t /\ below (index_limit f (c_max_bytes c)) (m_off m) = true) ->
  (srcs = None \/ forall ty, (count_type ty (f_msgs f) <= populate_count)%nat) ->
  read_log fixed c f srcs types R = Ok (spec_read c f srcs types R).
Proof.
  intros Hwf Ht Hs. apply read_is_filter_thm; [exact Hwf| |].
  - destruct Ht as [Ht|Ht]; [left; exact Ht|apply has_t0_indexed; exact Ht].
  - destruct Hs as [->|Hs]; [apply discovery_none|apply discovery_complete_rare_types; assumption].
Qed.
