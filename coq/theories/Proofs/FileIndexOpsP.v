(* C10 / C11 — lemmas about the FileIndex operations model (Models/FileIndexOpsM.v):
   find_first / argmax arithmetic, slices as index filters, every key returns a subsequence, and the
   central one: on an index whose P1 times do not decrease, __getitem__ (as repaired) equals its
   position-based meaning spec_getitem. *)
From Coq Require Import ZArith List Bool Lia ZifyBool Sorted.
From FEC Require Import Models.FileIndexOpsM.
Import ListNotations.
Open Scope Z_scope.

(* ---------------------------------------------------------------- lengths *)
Lemma zlen_nil {A} : zlen (@nil A) = 0. Proof. reflexivity. Qed.
Lemma zlen_cons {A} (x : A) l : zlen (x :: l) = 1 + zlen l.
Proof. unfold zlen. cbn [length]. lia. Qed.
Lemma zlen_app {A} (a b : list A) : zlen (a ++ b) = zlen a + zlen b.
Proof. unfold zlen. rewrite app_length. lia. Qed.
Lemma zlen_nonneg {A} (l : list A) : 0 <= zlen l.
Proof. unfold zlen. lia. Qed.
Lemma zlen_zero {A} (l : list A) : zlen l = 0 -> l = [].
Proof. destruct l; [reflexivity|]. rewrite zlen_cons. pose proof (zlen_nonneg l). lia. Qed.

(* ---------------------------------------------------------------- subsequences *)
Inductive subseq {A} : list A -> list A -> Prop :=
| ss_nil : subseq [] []
| ss_skip x l1 l2 : subseq l1 l2 -> subseq l1 (x :: l2)
| ss_keep x l1 l2 : subseq l1 l2 -> subseq (x :: l1) (x :: l2).

Lemma subseq_refl {A} (l : list A) : subseq l l.
Proof. induction l; constructor; assumption. Qed.
Lemma subseq_nil_l {A} (l : list A) : subseq [] l.
Proof. induction l; constructor; assumption. Qed.
Lemma subseq_trans {A} (a b c : list A) : subseq a b -> subseq b c -> subseq a c.
Proof.
  intros H1 H2. revert a H1. induction H2; intros a H1.
  - exact H1.
  - constructor. apply IHsubseq. exact H1.
  - inversion H1; subst.
    + constructor. apply IHsubseq. assumption.
    + apply ss_keep. apply IHsubseq. assumption.
Qed.
Lemma subseq_In {A} (a b : list A) x : subseq a b -> In x a -> In x b.
Proof. induction 1; intros Hin; [exact Hin|right; auto|destruct Hin as [->|Hin]; [left; reflexivity|right; auto]]. Qed.
Lemma subseq_Forall {A} (P : A -> Prop) (a b : list A) : subseq a b -> Forall P b -> Forall P a.
Proof. intros Hs Hf. rewrite Forall_forall in *. intros x Hx. apply Hf. eapply subseq_In; eauto. Qed.
Lemma subseq_sorted {A} (R : A -> A -> Prop) (a b : list A) : subseq a b -> StronglySorted R b -> StronglySorted R a.
Proof.
  induction 1; intros Hs.
  - constructor.
  - apply StronglySorted_inv in Hs. apply IHsubseq. apply Hs.
  - apply StronglySorted_inv in Hs. destruct Hs as [Hs Hf]. constructor; [apply IHsubseq; exact Hs|].
    eapply subseq_Forall; eauto.
Qed.
Lemma subseq_filter {A} (f : A -> bool) l : subseq (filter f l) l.
Proof. induction l as [|x l IH]; cbn [filter]; [constructor|]. destruct (f x); constructor; exact IH. Qed.
Lemma subseq_firstn {A} n (l : list A) : subseq (firstn n l) l.
Proof.
  revert l. induction n as [|n IH]; intros l; [apply subseq_nil_l|].
  destruct l as [|x l]; [constructor|]. cbn [firstn]. apply ss_keep. apply IH.
Qed.
Lemma subseq_skipn {A} n (l : list A) : subseq (skipn n l) l.
Proof.
  revert l. induction n as [|n IH]; intros l; [apply subseq_refl|].
  destruct l as [|x l]; [constructor|]. cbn [skipn]. apply ss_skip. apply IH.
Qed.
Lemma subseq_filter_i_from {A} (f : Z -> A -> bool) i l : subseq (filter_i_from f i l) l.
Proof.
  revert i. induction l as [|x l IH]; intros i; cbn [filter_i_from]; [constructor|].
  destruct (f i x); constructor; apply IH.
Qed.
Lemma subseq_slice_nn {A} (l : list A) s e : subseq (slice_nn l s e) l.
Proof. unfold slice_nn. eapply subseq_trans; [apply subseq_firstn|apply subseq_skipn]. Qed.
Lemma subseq_py_slice {A} (l : list A) a b st : subseq (py_slice l a b st) l.
Proof. unfold py_slice, filter_i. eapply subseq_trans; [apply subseq_filter_i_from|apply subseq_slice_nn]. Qed.

(* ---------------------------------------------------------------- find_first *)
(* number of leading elements that fail f (= length when none satisfies it) *)
Fixpoint first_idx {A} (f : A -> bool) (l : list A) : nat :=
  match l with [] => O | x :: t => if f x then O else S (first_idx f t) end.

Lemma first_idx_le_length {A} (f : A -> bool) l : (first_idx f l <= length l)%nat.
Proof. induction l as [|x l IH]; cbn [first_idx length]; [lia|]. destruct (f x); lia. Qed.

Lemma first_idx_none {A} (f : A -> bool) l : first_idx f l = length l <-> existsb f l = false.
Proof.
  induction l as [|x l IH]; cbn [first_idx length existsb]; [tauto|].
  destruct (f x); cbn [orb]; [split; [lia|discriminate]|]. rewrite <- IH. lia.
Qed.

Lemma find_first_from_idx {A} (f : A -> bool) l i :
  find_first_from (map f l) i =
  if Nat.ltb (first_idx f l) (length l) then i + Z.of_nat (first_idx f l) else -1.
Proof.
  revert i. induction l as [|x l IH]; intros i; cbn [map find_first_from first_idx length]; [reflexivity|].
  destruct (f x).
  - cbn. lia.
  - rewrite IH. change (Nat.ltb (S (first_idx f l)) (S (length l))) with (Nat.ltb (first_idx f l) (length l)).
    destruct (Nat.ltb (first_idx f l) (length l)); lia.
Qed.

(* "first index satisfying f, or the length" — what the repaired get_time_range uses for both bounds *)
Definition ff_idx {A} (f : A -> bool) (l : list A) : Z :=
  let k := find_first (map f l) in if k <? 0 then zlen l else k.

Lemma ff_idx_first {A} (f : A -> bool) l : ff_idx f l = Z.of_nat (first_idx f l).
Proof.
  unfold ff_idx, find_first. rewrite find_first_from_idx. pose proof (first_idx_le_length f l).
  destruct (Nat.ltb (first_idx f l) (length l)) eqn:E.
  - apply Nat.ltb_lt in E. destruct (0 + Z.of_nat (first_idx f l) <? 0) eqn:E2; lia.
  - apply Nat.ltb_ge in E. cbn. unfold zlen. lia.
Qed.

Lemma first_idx_le_pre {A} (f : A -> bool) pre e rest :
  (Z.of_nat (first_idx f (pre ++ e :: rest)) <=? zlen pre) = existsb f pre || f e.
Proof.
  induction pre as [|p pre IH]; cbn [app first_idx existsb].
  - rewrite zlen_nil. destruct (f e); cbn; lia.
  - rewrite zlen_cons. destruct (f p); cbn [orb].
    + pose proof (zlen_nonneg pre). lia.
    + rewrite <- IH. lia.
Qed.

Lemma ff_idx_le_pre {A} (f : A -> bool) pre e rest :
  (ff_idx f (pre ++ e :: rest) <=? zlen pre) = existsb f pre || f e.
Proof. rewrite ff_idx_first. apply first_idx_le_pre. Qed.

Lemma ff_idx_range {A} (f : A -> bool) l : 0 <= ff_idx f l <= zlen l.
Proof. rewrite ff_idx_first. pose proof (first_idx_le_length f l). unfold zlen. lia. Qed.

(* split at the first element satisfying f *)
Lemma first_idx_split {A} (f : A -> bool) l :
  (existsb f l = false /\ first_idx f l = length l) \/
  (exists a x b, l = a ++ x :: b /\ existsb f a = false /\ f x = true /\ first_idx f l = length a).
Proof.
  induction l as [|y l IH]; [left; split; reflexivity|].
  cbn [existsb first_idx]. destruct (f y) eqn:E.
  - right. exists [], y, l. repeat split; assumption.
  - destruct IH as [[H1 H2]|[a [x [b [H1 [H2 [H3 H4]]]]]]].
    + left. cbn [orb length]. split; [assumption|congruence].
    + right. exists (y :: a), x, b. subst l. cbn [existsb app length]. rewrite E, H2. repeat split; try assumption. congruence.
Qed.

(* ---------------------------------------------------------------- index filters *)
Lemma filter_i_from_ext {A} (f g : Z -> A -> bool) i l :
  (forall j x, i <= j -> f j x = g j x) -> filter_i_from f i l = filter_i_from g i l.
Proof.
  revert i. induction l as [|x l IH]; intros i H; cbn [filter_i_from]; [reflexivity|].
  rewrite (H i x) by lia. rewrite (IH (i + 1)) by (intros; apply H; lia). reflexivity.
Qed.

Lemma filter_i_from_shift {A} (f : Z -> A -> bool) i d l :
  filter_i_from f (i + d) l = filter_i_from (fun j x => f (j + d) x) i l.
Proof.
  revert i. induction l as [|x l IH]; intros i; cbn [filter_i_from]; [reflexivity|].
  replace (i + d + 1) with (i + 1 + d) by lia. rewrite IH. reflexivity.
Qed.

Lemma filter_i_from_false {A} (f : Z -> A -> bool) i l :
  (forall j x, i <= j -> f j x = false) -> filter_i_from f i l = [].
Proof.
  revert i. induction l as [|x l IH]; intros i H; cbn [filter_i_from]; [reflexivity|].
  rewrite H by lia. apply IH. intros; apply H; lia.
Qed.

Lemma slice_nn_filter_i {A} (l : list A) s e :
  0 <= s -> slice_nn l s e = filter_i (fun i _ => (s <=? i) && (i <? e)) l.
Proof.
  unfold slice_nn, filter_i. revert s e. induction l as [|x l IH]; intros s e Hs.
  - rewrite skipn_nil, firstn_nil. reflexivity.
  - cbn [filter_i_from]. destruct (Z.eq_dec s 0) as [->|Hne].
    + cbn [Z.to_nat skipn]. replace (e - 0) with e by lia.
      destruct (Z_le_gt_dec e 0) as [He|He].
      * replace (Z.to_nat e) with O by lia. cbn [firstn].
        replace ((0 <=? 0) && (0 <? e)) with false by lia.
        symmetry. apply filter_i_from_false. intros; lia.
      * replace (Z.to_nat e) with (S (Z.to_nat (e - 1))) by lia. cbn [firstn].
        replace ((0 <=? 0) && (0 <? e)) with true by lia. f_equal.
        specialize (IH 0 (e - 1) ltac:(lia)). cbn [Z.to_nat skipn] in IH. replace (e - 1 - 0) with (e - 1) in IH by lia.
        rewrite IH. change (0 + 1) with (0 + 1). rewrite (filter_i_from_shift _ 0 1).
        apply filter_i_from_ext. intros; lia.
    + replace (Z.to_nat s) with (S (Z.to_nat (s - 1))) by lia. cbn [skipn].
      replace ((s <=? 0) && (0 <? e)) with false by lia.
      specialize (IH (s - 1) (e - 1) ltac:(lia)). replace (e - 1 - (s - 1)) with (e - s) in IH by lia.
      rewrite IH. rewrite (filter_i_from_shift _ 0 1). apply filter_i_from_ext. intros; lia.
Qed.

Lemma filter_i_from_pos (P : Z -> entry -> bool) (Q : list entry -> entry -> bool) l pre0 :
  (forall pre e rest, l = pre ++ e :: rest -> P (zlen (pre0 ++ pre)) e = Q (pre0 ++ pre) e) ->
  filter_i_from P (zlen pre0) l = filter_pos_from Q pre0 l.
Proof.
  revert pre0. induction l as [|x l IH]; intros pre0 H; cbn [filter_i_from filter_pos_from]; [reflexivity|].
  pose proof (H [] x l eq_refl) as H0. rewrite app_nil_r in H0. rewrite H0.
  assert (E : filter_i_from P (zlen pre0 + 1) l = filter_pos_from Q (pre0 ++ [x]) l).
  { replace (zlen pre0 + 1) with (zlen (pre0 ++ [x])) by (rewrite zlen_app, zlen_cons, zlen_nil; lia).
    apply IH. intros pre e rest ->. rewrite <- app_assoc. cbn [app]. apply (H (x :: pre) e rest). reflexivity. }
  rewrite E. reflexivity.
Qed.

Lemma filter_i_pos (P : Z -> entry -> bool) (Q : list entry -> entry -> bool) l :
  (forall pre e rest, l = pre ++ e :: rest -> P (zlen pre) e = Q pre e) -> filter_i P l = filter_pos Q l.
Proof. intros H. unfold filter_i, filter_pos. change 0 with (zlen (@nil entry)). apply filter_i_from_pos. cbn [app]. exact H. Qed.

Lemma filter_pos_from_indep (f : entry -> bool) pre l : filter_pos_from (fun _ e => f e) pre l = filter f l.
Proof. revert pre. induction l as [|x l IH]; intros pre; cbn [filter_pos_from filter]; [reflexivity|]. rewrite IH. reflexivity. Qed.

Lemma filter_pos_from_ext (Q1 Q2 : list entry -> entry -> bool) pre0 l :
  (forall pre e rest, l = pre ++ e :: rest -> Q1 (pre0 ++ pre) e = Q2 (pre0 ++ pre) e) ->
  filter_pos_from Q1 pre0 l = filter_pos_from Q2 pre0 l.
Proof.
  revert pre0. induction l as [|x l IH]; intros pre0 H; cbn [filter_pos_from]; [reflexivity|].
  pose proof (H [] x l eq_refl) as H0. rewrite app_nil_r in H0. rewrite H0.
  rewrite (IH (pre0 ++ [x])); [reflexivity|].
  intros pre e rest ->. rewrite <- app_assoc. apply (H (x :: pre) e rest). reflexivity.
Qed.

Lemma filter_pos_from_true (Q : list entry -> entry -> bool) pre0 l :
  (forall pre e rest, l = pre ++ e :: rest -> Q (pre0 ++ pre) e = true) -> filter_pos_from Q pre0 l = l.
Proof.
  intros H. rewrite (filter_pos_from_ext Q (fun _ _ => true) pre0 l H).
  rewrite (filter_pos_from_indep (fun _ => true)). clear. induction l; cbn [filter]; congruence.
Qed.

Lemma subseq_filter_pos_from Q pre l : subseq (filter_pos_from Q pre l) l.
Proof. revert pre. induction l as [|x l IH]; intros pre; cbn [filter_pos_from]; [constructor|]. destruct (Q pre x); constructor; apply IH. Qed.

(* ---------------------------------------------------------------- sortedness of P1 times *)
Definition tle (a b : entry) : Prop :=
  match e_time a, e_time b with Some x, Some y => x <= y | _, _ => True end.
Definition times_sorted (l : list entry) : Prop := StronglySorted tle l.
Definition off_lt (a b : entry) : Prop := e_off a < e_off b.
Definition offs_inc (l : list entry) : Prop := StronglySorted off_lt l.

Lemma sorted_mid {A} (R : A -> A -> Prop) pre e rest :
  StronglySorted R (pre ++ e :: rest) -> Forall (fun x => R x e) pre /\ Forall (R e) rest.
Proof.
  induction pre as [|p pre IH]; cbn [app]; intros H; apply StronglySorted_inv in H; destruct H as [H1 H2].
  - split; [constructor|exact H2].
  - destruct (IH H1) as [H3 H4]. split; [|exact H4]. constructor; [|exact H3].
    rewrite Forall_forall in H2. apply H2. apply in_or_app. right. left. reflexivity.
Qed.

(* the pointwise heart: index window [first >= lo, first >= hi) = position verdict *)
Lemma window_point data pre e rest lo hi :
  times_sorted data -> data = pre ++ e :: rest ->
  let si := match lo with None => 0 | Some s => ff_idx (time_ge_s s) data end in
  let ei := match hi with None => zlen data | Some h => ff_idx (time_ge_8 h) data end in
  (si <=? zlen pre) && (zlen pre <? ei) = window_ok lo hi pre e.
Proof.
  intros Hs -> si ei. subst si ei.
  destruct (sorted_mid _ _ _ _ Hs) as [Hpre _]. rewrite Forall_forall in Hpre.
  assert (L : forall s, (ff_idx (time_ge_s s) (pre ++ e :: rest) <=? zlen pre) =
                        match e_time e with Some t => s <=? t | None => started_before s pre end).
  { intros s. rewrite ff_idx_le_pre. unfold started_before. destruct (e_time e) as [t|] eqn:Et.
    - unfold time_ge_s at 2. rewrite Et. destruct (s <=? t) eqn:E; [apply orb_true_r|]. rewrite orb_false_r.
      apply not_true_is_false. intros Hex. apply existsb_exists in Hex. destruct Hex as [x [Hx Hge]].
      specialize (Hpre x Hx). unfold tle in Hpre. unfold time_ge_s in Hge. rewrite Et in Hpre.
      destruct (e_time x); [lia|discriminate].
    - unfold time_ge_s at 2. rewrite Et. apply orb_false_r. }
  assert (U : forall h, (zlen pre <? ff_idx (time_ge_8 h) (pre ++ e :: rest)) =
                        match e_time e with Some t => negb (h <=? 8 * t) | None => negb (ended_before h pre) end).
  { intros h. replace (zlen pre <? ff_idx (time_ge_8 h) (pre ++ e :: rest))
      with (negb (ff_idx (time_ge_8 h) (pre ++ e :: rest) <=? zlen pre)) by lia.
    rewrite ff_idx_le_pre. unfold ended_before. destruct (e_time e) as [t|] eqn:Et.
    - unfold time_ge_8 at 2. rewrite Et. f_equal. destruct (h <=? 8 * t) eqn:E; [apply orb_true_r|]. rewrite orb_false_r.
      apply not_true_is_false. intros Hex. apply existsb_exists in Hex. destruct Hex as [x [Hx Hge]].
      specialize (Hpre x Hx). unfold tle in Hpre. unfold time_ge_8 in Hge. rewrite Et in Hpre.
      destruct (e_time x); [lia|discriminate].
    - unfold time_ge_8 at 2. rewrite Et. rewrite orb_false_r. reflexivity. }
  unfold window_ok. pose proof (zlen_nonneg pre).
  assert (N : (zlen pre <? zlen (pre ++ e :: rest)) = true) by (rewrite zlen_app, zlen_cons; pose proof (zlen_nonneg rest); lia).
  destruct lo as [s|], hi as [h|]; rewrite ?L, ?U, ?N; destruct (e_time e); try reflexivity;
    try (replace (0 <=? zlen pre) with true by lia; cbn [andb]; reflexivity);
    try (rewrite andb_true_r; reflexivity).
Qed.

(* ---------------------------------------------------------------- every key returns a subsequence *)
Lemma mk_index_data d t : fi_data (mk_index d t) = d. Proof. reflexivity. Qed.

Lemma get_time_range_b_subseq fx fi s e h fi' :
  get_time_range_b fx fi s e h = Ok fi' -> subseq (fi_data fi') (fi_data fi).
Proof.
  unfold get_time_range_b. intros H.
  destruct (zlen (fi_data fi) =? 0); [inversion H; apply subseq_refl|].
  destruct (bnd_is_none s && bnd_is_none e && (if fx_remove_nans fx then hint_is_include h else true)); [inversion H; apply subseq_refl|].
  destruct (fi_t0 fi).
  - destruct h; inversion H; cbn [fi_data mk_index]; first [apply subseq_slice_nn | apply subseq_filter_i_from].
  - destruct (fx_remove_nans fx && bnd_is_none s && bnd_is_none e); [|discriminate]. inversion H. apply subseq_filter.
Qed.

Lemma getitem_subseq fx fi k fi' : getitem fx fi k = Ok fi' -> subseq (fi_data fi') (fi_data fi).
Proof.
  unfold getitem. intros H. destruct k as [|ts|s e h|R|a b st]; try (inversion H; apply subseq_refl);
  (destruct (zlen (fi_data fi) =? 0); [inversion H; apply subseq_nil_l|]).
  - inversion H. apply subseq_filter.
  - destruct s, e, h; try discriminate; try (eapply get_time_range_b_subseq; exact H).
    destruct (fx_remove_nans fx); [eapply get_time_range_b_subseq; exact H|discriminate].
  - unfold get_time_range_R in H. destruct (resolve_range fi R). eapply get_time_range_b_subseq; exact H.
  - destruct ((match st with Some s => s | None => 1 end) =? 0); [discriminate|].
    destruct ((match st with Some s => s | None => 1 end) <? 0); [discriminate|]. inversion H. apply subseq_py_slice.
Qed.

(* ---------------------------------------------------------------- __getitem__ = its position-based meaning *)
Lemma get_time_range_b_spec fi s e h :
  times_sorted (fi_data fi) ->
  (fi_t0 fi = None \/ (s <> BNaN /\ e <> BNaN)) ->
  get_time_range_b fixed fi s e h = spec_time fi s e h.
Proof.
  intros Hs Hn. unfold get_time_range_b, spec_time. cbn [fx_remove_nans fx_after_log fixed].
  destruct (zlen (fi_data fi) =? 0) eqn:En; [reflexivity|].
  set (data := fi_data fi) in *.
  assert (TRUE : forall hh, (forall pre x rest, data = pre ++ x :: rest -> window_hint hh None None pre x = true) ->
                            filter_pos (window_hint hh None None) data = data).
  { intros hh Hh. unfold filter_pos. apply filter_pos_from_true. cbn [app]. exact Hh. }
  destruct (fi_t0 fi) as [t0|] eqn:Et0.
  - (* t0 known: the main branch, also for "no bounds" *)
    assert (Hb : s <> BNaN /\ e <> BNaN) by (destruct Hn as [Hn|Hn]; [discriminate|exact Hn]).
    destruct Hb as [Hs1 He1].
    set (lo := option_map (fun x => x / 8) (bnd_val s)). set (hi := bnd_val e).
    set (si := match lo with None => 0 | Some x => ff_idx (time_ge_s x) data end).
    set (ei := match hi with None => zlen data | Some x => ff_idx (time_ge_8 x) data end).
    assert (Esi : (let k := match s with BNone => 0 | BNaN => find_first (map (fun _ => false) data)
                                     | BVal x => find_first (map (time_ge_s (x / 8)) data) end in
                   if k <? 0 then zlen data else k) = si).
    { destruct s as [| |x]; [reflexivity|congruence|reflexivity]. }
    assert (Eei : (let k := match e with BNone => zlen data | BNaN => find_first (map (fun _ => false) data)
                                     | BVal x => find_first (map (time_ge_8 x) data) end in
                   if k <? 0 then zlen data else k) = ei).
    { destruct e as [| |x]; [|congruence|reflexivity]. cbn. subst ei hi. cbn. pose proof (zlen_nonneg data). destruct (zlen data <? 0) eqn:E; [lia|reflexivity]. }
    cbv zeta in Esi, Eei.
    assert (Hsi : 0 <= si) by (subst si; destruct lo; [apply ff_idx_range|lia]).
    assert (W : forall pre x rest, data = pre ++ x :: rest -> (si <=? zlen pre) && (zlen pre <? ei) = window_ok lo hi pre x).
    { intros pre x rest Hd. exact (window_point data pre x rest lo hi Hs Hd). }
    assert (MAIN : match h with
                   | IncludeNans => Ok (mk_index (slice_nn data si ei) (Some t0))
                   | AllNans => Ok (mk_index (filter_i (fun i x => ((si <=? i) && (i <? ei)) || is_nan x) data) (Some t0))
                   | RemoveNans => Ok (mk_index (filter_i (fun i x => ((si <=? i) && (i <? ei)) && negb (is_nan x)) data) (Some t0))
                   end = Ok (mk_index (filter_pos (window_hint h lo hi) data) (Some t0))).
    { destruct h; f_equal; f_equal.
      - rewrite slice_nn_filter_i by exact Hsi. apply filter_i_pos. intros pre x rest Hd. cbn [window_hint]. apply (W pre x rest Hd).
      - apply filter_i_pos. intros pre x rest Hd. cbn [window_hint]. rewrite (W pre x rest Hd). apply orb_comm.
      - apply filter_i_pos. intros pre x rest Hd. cbn [window_hint]. rewrite (W pre x rest Hd). apply andb_comm. }
    destruct (bnd_is_none s && bnd_is_none e) eqn:Enone.
    + (* no bounds *)
      assert (s = BNone /\ e = BNone) as [-> ->] by (destruct s, e; cbn in Enone; try discriminate; split; reflexivity).
      cbn [bnd_is_none andb]. destruct (hint_is_include h) eqn:Eh.
      * destruct h; try discriminate. f_equal. f_equal. symmetry. apply TRUE. intros pre x rest _. cbn [window_hint]. unfold window_ok. destruct (e_time x); reflexivity.
      * rewrite Esi, Eei. exact MAIN.
    + replace (bnd_is_none s && bnd_is_none e && hint_is_include h) with false by (rewrite Enone; reflexivity).
      rewrite Esi, Eei. exact MAIN.
  - (* no t0 *)
    destruct (bnd_is_none s && bnd_is_none e) eqn:Enone.
    + assert (s = BNone /\ e = BNone) as [-> ->] by (destruct s, e; cbn in Enone; try discriminate; split; reflexivity).
      cbn [andb bnd_is_none]. destruct (hint_is_include h) eqn:Eh.
      * destruct h; try discriminate. f_equal. f_equal. symmetry. apply TRUE. intros pre x rest _. cbn [window_hint]. unfold window_ok. destruct (e_time x); reflexivity.
      * f_equal. f_equal. unfold filter_pos.
        rewrite (filter_pos_from_ext _ (fun _ x => match h with RemoveNans => negb (is_nan x) | _ => true end)).
        -- rewrite filter_pos_from_indep. reflexivity.
        -- intros pre x rest _. cbn [app]. destruct h; try discriminate; cbn [window_hint]; unfold window_ok, is_nan; destruct (e_time x); reflexivity.
    + cbn [andb]. rewrite Enone. reflexivity.
Qed.

Lemma resolve_range_not_nan fi R :
  fi_t0 fi = None \/ (fst (resolve_range fi R) <> BNaN /\ snd (resolve_range fi R) <> BNaN).
Proof.
  destruct (fi_t0 fi) as [t|] eqn:E; [right|left; reflexivity].
  unfold resolve_range. rewrite E. destruct (tr_abs R); cbn [fst snd].
  - split; [destruct (tr_start R)|destruct (tr_end R)]; cbn; discriminate.
  - destruct (tr_t0 R); split; [destruct (tr_start R)|destruct (tr_end R)|destruct (tr_start R)|destruct (tr_end R)]; cbn; discriminate.
Qed.

Theorem getitem_spec fi k : times_sorted (fi_data fi) -> getitem fixed fi k = spec_getitem fi k.
Proof.
  intros Hs. unfold getitem, spec_getitem. destruct k as [|ts|s e h|R|a b st]; try reflexivity;
  (destruct (zlen (fi_data fi) =? 0); [reflexivity|]); try reflexivity.
  - destruct s as [s|], e as [e|], h as [h|]; try reflexivity; cbn [fx_remove_nans fixed];
      apply get_time_range_b_spec; try exact Hs; right; split; cbn; discriminate.
  - unfold get_time_range_R. pose proof (resolve_range_not_nan fi R) as Hn. destruct (resolve_range fi R) as [s e]. cbn [fst snd] in Hn.
    apply get_time_range_b_spec; assumption.
Qed.

Lemma spec_getitem_subseq fi k fi' : times_sorted (fi_data fi) -> spec_getitem fi k = Ok fi' -> subseq (fi_data fi') (fi_data fi).
Proof. intros Hs H. rewrite <- getitem_spec in H by exact Hs. eapply getitem_subseq; exact H. Qed.
