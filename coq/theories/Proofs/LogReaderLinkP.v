(* C10 / C11 — link to the byte level.  The reader models (Models/LogReaderM.v) take a log as the list of
   its scan-accepted messages; here that list is DEFINED from the bytes of a file by the end-of-file
   aware left-to-right scan of C08/C09/C18 (Models/FileScanM.file_frames), its well-formedness is PROVED
   from the frame theorems, the index the reader starts from is shown to be the one C09's open / C08's
   fast indexer produce, and the C10 / C11 theorems are restated from file bytes.
   Nothing in the other builders' files is modified; names of theirs that clash with ours are qualified. *)
From Coq Require Import ZArith NArith List Bool Arith Lia Sorted.
From FEC Require Import Generated.FEConsts Generated.FileIndexConsts
  Base.ListX Base.Bytes Base.Crc32 Base.Scan Base.FEFormat
  Models.FastIndexerM Proofs.FastIndexerSpecP
  Models.FileScanM Models.FileIndexIOM Models.ExtractLogM Models.SystemLinkM
  Proofs.FileScanP Proofs.ExtractLogP Proofs.FileIndexIOP Proofs.SystemLinkP Proofs.FastIndexerLegacyP.
From FEC Require Import Generated.LogReaderConsts Models.FileIndexOpsM Models.LogReaderM
  Proofs.FileIndexOpsP Proofs.LogCursorP Proofs.LogReaderInitP Proofs.LogReaderP Proofs.LogReaderSpecP Proofs.LogReaderConditionsP.
Import ListNotations.
Open Scope Z_scope.

Section Link.
  (* whole-second P1 time of a frame, as decoded by the payload class of its type (C01's subject): a parameter,
     exactly as in C08 / C09 / C18 *)
  Variable p1 : list N -> option N.

  (* ---------------------------------------------------------------- the log of a file *)
  (* the time the index records for the frame (None: no class / no P1 time / invalid or >= 2^32 - 1 s), as a
     time in eighths of a second at the start of that second *)
  Definition frame_time (o : nat) (bs : list N) : option Z :=
    match FileScanM.i_time (from_raw (indexer_raw p1 o bs)) with Some t => Some (8 * Z.of_N t) | None => None end.

  Definition msg_of_frame (fr : nat * list N) : msg :=
    mkM (Z.of_nat (fst fr)) (Z.of_nat (length (snd fr))) (Z.of_N (frame_type (snd fr)))
        (Z.of_N (h_source (parse_header (firstn HEADER_SIZE (snd fr))))) (frame_time (fst fr) (snd fr)).

  Definition log_of_file (d : list N) : list msg := map msg_of_frame (file_frames d).
  Definition file_of (d : list N) : file := mkFile (log_of_file d) (Z.of_nat (length d)).

  (* the reader's view (FileIndex._data + t0) of an index in the form C08 / C09 produce *)
  Fixpoint entries_of (i : Z) (l : list ientry) : list entry :=
    match l with
    | [] => []
    | e :: t => mkE (match FileScanM.i_time e with Some s => Some (Z.of_N s) | None => None end)
                    (Z.of_N (FileScanM.i_type e)) (Z.of_N (FileScanM.i_off e)) i :: entries_of (i + 1) t
    end.
  Definition findex_of (l : list ientry) : findex := mk_index (entries_of 0 l) None.

  (* documented assumption of TimeRange / FileIndex, stated on the file: P1 times do not decrease *)
  Definition p1_times_sorted (d : list N) : Prop := StronglySorted mtle (log_of_file d).

  (* ---------------------------------------------------------------- the index *)
  Lemma entries_link : forall fs i,
    entries_from i (map msg_of_frame fs) = entries_of i (map (fun f => from_raw (indexer_raw p1 (fst f) (snd f))) fs).
  Proof.
    induction fs as [|[o bs] fs IH]; intros i; [reflexivity|]. cbn [map entries_from entries_of fst snd]. rewrite IH. f_equal.
    unfold entry_of, msg_of_frame, frame_time. cbn [m_time m_type m_off fst snd].
    cbn [from_raw indexer_raw FileScanM.i_time FileScanM.i_type FileScanM.i_off FileScanM.r_time FileScanM.r_type FileScanM.r_off].
    rewrite nat_N_Z.
    destruct (N.eqb (indexer_time (p1 bs)) FileIndexConsts.TIME_INVALID); [reflexivity|].
    rewrite Z.mul_comm, Z.div_mul by lia. reflexivity.
  Qed.

  Lemma filter_all_true {A} (l : list A) : filter (fun _ => true) l = l.
  Proof. induction l as [|x l IH]; cbn [filter]; congruence. Qed.

  (* the index the reader model starts from (no max_bytes) is the fresh index of C09 = the scan index of C08 *)
  Theorem index_of_file_is_fresh d : index_of_file (file_of d) None = findex_of (fresh p1 d).
  Proof.
    unfold index_of_file, findex_of. cbn [index_limit below file_of f_msgs]. rewrite filter_all_true.
    unfold log_of_file. rewrite entries_link. unfold fresh, fresh_raw. rewrite map_map. reflexivity.
  Qed.

  (* ---------------------------------------------------------------- well-formedness from the frame theorems *)
  Lemma frames_ok_sorted (judge : list N -> verdict) base stream : forall fs lo,
    frames_ok judge base stream lo fs ->
    StronglySorted (fun a b : nat * list N => (fst a + length (snd a) <= fst b)%nat) fs /\ Forall (fun f => (lo <= fst f)%nat) fs.
  Proof.
    induction fs as [|[o bs] rest IH]; intros lo H; [split; constructor|].
    cbn [frames_ok] in H. destruct H as (H1 & H2 & H3 & H4 & H5). destruct (IH _ H5) as [S F].
    split.
    - constructor; [exact S|]. cbn [fst snd]. exact F.
    - constructor; [exact H1|]. eapply Forall_impl; [|exact F]. cbn. intros; lia.
  Qed.

  Lemma sorted_map {A B} (R : A -> A -> Prop) (R' : B -> B -> Prop) (g : A -> B) :
    (forall a b, R a b -> R' (g a) (g b)) -> forall l, StronglySorted R l -> StronglySorted R' (map g l).
  Proof.
    intros H. induction l as [|x l IH]; intros Hs; [constructor|]. apply StronglySorted_inv in Hs. destruct Hs as [Hs Hf].
    cbn [map]. constructor; [apply IH; exact Hs|]. rewrite Forall_forall in *. intros y Hy. apply in_map_iff in Hy.
    destruct Hy as [z [<- Hz]]. apply H, Hf, Hz.
  Qed.

  (* what acceptance by the scan means for one frame, against the actual bytes of the file *)
  Lemma frame_facts d o bs : In (o, bs) (file_frames d) ->
    (HEADER_SIZE <= length bs)%nat /\ (o + length bs <= length d)%nat /\
    sub d o (length bs) = bs /\ judge_file bs = Accept (length bs) /\
    length bs = (HEADER_SIZE + N.to_nat (h_psize (parse_header (firstn HEADER_SIZE bs))))%nat /\
    FileScanM.read_at d o = RYield bs.
  Proof.
    intros Hin. pose proof (file_frames_ok d) as Hok.
    destruct (frames_ok_in _ _ _ _ _ _ _ Hok Hin) as (_ & _ & HJ & Hbs).
    destruct (frames_ok_bound _ judge_file_ok _ _ _ _ _ _ Hok Hin) as [_ Hb].
    rewrite Nat.sub_0_r in *.
    assert (Hself : judge_file bs = Accept (length bs)).
    { pose proof (frames_ok_self_framed judge_file judge_file_local _ _ _ _ Hok) as Hf.
      rewrite Forall_forall in Hf. apply Hf. apply in_map_iff. exists (o, bs). split; [reflexivity|exact Hin]. }
    destruct (judge_fe_accept_inv _ _ _ _ _ Hself) as (H1 & _ & _ & _ & _ & H6 & _ & _).
    split; [exact H1|]. split; [exact Hb|]. split; [unfold sub; symmetry; exact Hbs|]. split; [exact Hself|].
    split; [exact H6|apply read_at_frame; exact Hin].
  Qed.

  Theorem file_of_wf d : p1_times_sorted d -> wf_file (file_of d).
  Proof.
    intros Ht. unfold wf_file, file_of. cbn [f_msgs f_size]. split; [|split; [exact Ht|]].
    - unfold log_of_file. destruct (frames_ok_sorted judge_file 0 d _ _ (file_frames_ok d)) as [S _].
      eapply sorted_map; [|exact S]. intros a b Hab. cbv beta in Hab. unfold msg_before, msg_of_frame. cbn [m_off m_size]. lia.
    - unfold log_of_file. rewrite Forall_forall. intros m Hm. apply in_map_iff in Hm. destruct Hm as [[o bs] [<- Hin]].
      destruct (frame_facts d o bs Hin) as (H1 & H2 & _). unfold msg_ok, msg_of_frame, frame_time, header_size. cbn [m_off m_size m_time fst snd].
      unfold HEADER_SIZE in H1. repeat split; try lia.
      destruct (FileScanM.i_time (from_raw (indexer_raw p1 o bs))); [lia|exact I].
  Qed.

  (* every message of the log is a frame of the file: its bytes are file[offset, offset + size), they are
     CRC-valid (judge_file accepts exactly them), its fields are those of the header in these bytes, and the
     reader's re-validation at the indexed offset (C09's read_at) yields these bytes *)
  Theorem log_message_bytes d m : In m (log_of_file d) ->
    exists o bs, In (o, bs) (file_frames d) /\ m = msg_of_frame (o, bs) /\
      m_off m = Z.of_nat o /\ m_size m = Z.of_nat (length bs) /\
      sub d o (length bs) = bs /\ judge_file bs = Accept (length bs) /\
      m_type m = Z.of_N (h_type (parse_header (firstn HEADER_SIZE bs))) /\
      m_src m = Z.of_N (h_source (parse_header (firstn HEADER_SIZE bs))) /\
      m_size m = Z.of_nat HEADER_SIZE + Z.of_N (h_psize (parse_header (firstn HEADER_SIZE bs))) /\
      FileScanM.read_at d o = RYield bs.
  Proof.
    unfold log_of_file. intros Hm. apply in_map_iff in Hm. destruct Hm as [[o bs] [<- Hin]].
    destruct (frame_facts d o bs Hin) as (H1 & H2 & H3 & H4 & H5 & H6).
    exists o, bs. unfold msg_of_frame. cbn [m_off m_size m_type m_src fst snd].
    repeat split; try assumption; try reflexivity. rewrite H5 at 1. lia.
  Qed.

  (* ---------------------------------------------------------------- the theorems from file bytes *)
  Theorem read_file_is_filter d c srcs types R :
    p1_times_sorted d -> range_has_t0 c (file_of d) R ->
    read_log fixed c (file_of d) srcs types R = Ok (spec_read c (file_of d) srcs types R).
  Proof. intros Ht Hr. apply read_is_filter_thm; [apply file_of_wf; exact Ht|exact Hr]. Qed.

  Theorem read_file_pieces d c srcs types R m ps :
    In (m, ps) (spec_read c (file_of d) srcs types R) ->
    exists o bs pre rest, In (o, bs) (file_frames d) /\ m = msg_of_frame (o, bs) /\
      file_frames d = pre ++ (o, bs) :: rest /\
      ps = select5 (flags_of c) [PHeader m; PPayload m; PBytes (Z.of_nat o) (Z.of_nat (length bs)); POffset (Z.of_nat o); PIndex (zlen pre)] /\
      sub d o (length bs) = bs /\ judge_file bs = Accept (length bs) /\ FileScanM.read_at d o = RYield bs.
  Proof.
    intros Hin. destruct (spec_pieces _ _ _ _ _ _ _ Hin) as [pre [rest [Hsplit [Hps _]]]].
    cbn [file_of f_msgs] in Hsplit. unfold log_of_file in Hsplit.
    apply map_eq_app in Hsplit. destruct Hsplit as [fpre [ftail [Hf [Hpre Htail]]]].
    destruct ftail as [|[o bs] frest]; [discriminate|]. cbn [map] in Htail. injection Htail as Hm Hrest.
    assert (Hinf : In (o, bs) (file_frames d)) by (rewrite Hf; apply in_or_app; right; left; reflexivity).
    destruct (frame_facts d o bs Hinf) as (_ & _ & H3 & H4 & _ & H6).
    exists o, bs, fpre, frest. split; [exact Hinf|]. split; [symmetry; exact Hm|]. split; [exact Hf|].
    split; [|split; [exact H3|split; [exact H4|exact H6]]].
    rewrite Hps. rewrite <- Hm. unfold msg_of_frame at 3 4 5. cbn [m_off m_size fst snd].
    replace (zlen pre) with (zlen fpre); [reflexivity|]. rewrite <- Hpre. unfold zlen. rewrite map_length. reflexivity.
  Qed.

  Theorem script_on_file d c srcs ops :
    p1_times_sorted d -> run_script fixed c (file_of d) srcs ops = Ok (spec_script c (file_of d) srcs ops).
  Proof. intros Ht. apply script_refines. apply file_of_wf. exact Ht. Qed.
End Link.

(* ---------------------------------------------------------------- through C09's open and C08's fast indexer *)
Section Open.
  Variables READ MAX : N.
  Hypothesis READ_ge : (2 <= READ)%N.
  Hypothesis READ_even : (READ mod 2 = 0)%N.
  Hypothesis MAX_ge : (24 <= MAX)%N.
  Hypothesis MAX_le : (MAX <= READ)%N.
  Variable ptime : N -> N -> list N -> option (N * N).
  Let p1 := p1_of_ptime ptime.
  Variable W : N.
  Hypothesis W_ge : (1 <= W)%N.

  (* the index MixedLogReader holds after fast_generate_index (SystemLinkM.open_log_fi returns the messages read
     through it; this is the same case analysis returning the index itself) *)
  Definition opened_index (loader : list N -> list N -> FileIndexIOM.outcome) (p1i : option (list N)) (d : list N) (ignore_index : bool)
    : option (list ientry) :=
    let regen := match fi_generate READ MAX fi_cur ptime d W with FOk es => Some (map fi_strip es) | FRaise _ => None end in
    match (if ignore_index then None else p1i) with
    | None => regen
    | Some idx => match loader idx d with Accepted i => Some i | Rebuild _ => regen | Crash => None end
    end.

  Lemma opened_index_msgs loader p1i d ig idx :
    opened_index loader p1i d ig = Some idx ->
    exists o, open_log_fi READ MAX ptime W loader p1i d ig = Opened o /\ o_msgs o = FileScanM.read_all d (index_offsets idx).
  Proof.
    unfold opened_index, open_log_fi, regenerate_fi.
    destruct (if ig then None else p1i) as [i0|].
    - destruct (loader i0 d) as [i|del|]; [intros E; injection E as <-; eexists; split; reflexivity| |discriminate].
      destruct (fi_generate READ MAX fi_cur ptime d W); [intros E; injection E as <-; eexists; split; reflexivity|discriminate].
    - destruct (fi_generate READ MAX fi_cur ptime d W); [intros E; injection E as <-; eexists; split; reflexivity|discriminate].
  Qed.

  (* index file present (any cut of an index saved for a file of which the current one is a truncation or an extension),
     stale or absent, with or without ignore_index: the reader ends up with the fresh index of the current bytes *)
  Theorem opened_index_is_fresh p1i d ig :
    fi_small_msgs MAX d -> plausible_index p1 p1i d -> opened_index load p1i d ig = Some (fresh p1 d).
  Proof.
    intros Hs Hp. unfold opened_index.
    destruct (fresh_is_fast_index READ MAX READ_ge READ_even MAX_ge MAX_le ptime W W_ge d Hs) as (es & -> & E & _). fold p1 in E. rewrite E.
    destruct (if ig then None else p1i) as [idx|] eqn:Ei; [|reflexivity].
    assert (p1i = Some idx) by (destruct ig; [discriminate|exact Ei]). subst p1i.
    destruct Hp as (d0 & s & k & Hok & Hsv & Hrel & ->).
    destruct (load (firstn k s) d) as [i|del|] eqn:El; [|reflexivity|exfalso; exact (load_total _ _ El)].
    f_equal. exact (load_sound p1 d0 s k d Hok Hsv Hrel i El).
  Qed.

  (* C10 from file bytes: open (index present, stale or absent) + constructor filters + iteration *)
  Theorem read_through_open p1i d ig c srcs types R :
    fi_small_msgs MAX d -> plausible_index p1 p1i d ->
    c_max_bytes c = None -> p1_times_sorted p1 d -> range_has_t0 c (file_of p1 d) R ->
    exists idx o,
      opened_index load p1i d ig = Some idx /\
      open_log_fi READ MAX ptime W load p1i d ig = Opened o /\ o_msgs o = fi_spec_frames d /\
      findex_of idx = index_of_file (file_of p1 d) (c_max_bytes c) /\
      log_of_file p1 d = map (msg_of_frame p1) (fi_spec_frames d) /\
      read_log fixed c (file_of p1 d) srcs types R = Ok (spec_read c (file_of p1 d) srcs types R) /\
      forall m ps, In (m, ps) (spec_read c (file_of p1 d) srcs types R) ->
        exists o bs pre rest, In (o, bs) (fi_spec_frames d) /\ m = msg_of_frame p1 (o, bs) /\
          fi_spec_frames d = pre ++ (o, bs) :: rest /\
          ps = select5 (flags_of c) [PHeader m; PPayload m; PBytes (Z.of_nat o) (Z.of_nat (length bs)); POffset (Z.of_nat o); PIndex (zlen pre)] /\
          sub d o (length bs) = bs /\ judge_file bs = Accept (length bs) /\ FileScanM.read_at d o = RYield bs.
  Proof.
    intros Hs Hp Hmb Ht Hr. pose proof (opened_index_is_fresh p1i d ig Hs Hp) as Hi.
    destruct (opened_index_msgs load p1i d ig _ Hi) as [o [Ho Hm]].
    exists (fresh p1 d), o. split; [exact Hi|]. split; [exact Ho|].
    split; [rewrite Hm, spec_frames_agree; apply read_fresh_is_scan|].
    split; [rewrite Hmb; symmetry; apply index_of_file_is_fresh|].
    rewrite spec_frames_agree. split; [reflexivity|].
    split; [apply read_file_is_filter; assumption|].
    intros m ps Hin. exact (read_file_pieces p1 d c srcs types R m ps Hin).
  Qed.

  (* C11 from file bytes *)
  Theorem script_through_open p1i d ig c srcs ops :
    fi_small_msgs MAX d -> plausible_index p1 p1i d -> c_max_bytes c = None -> p1_times_sorted p1 d ->
    exists idx, opened_index load p1i d ig = Some idx /\
      findex_of idx = index_of_file (file_of p1 d) (c_max_bytes c) /\
      log_of_file p1 d = map (msg_of_frame p1) (fi_spec_frames d) /\
      run_script fixed c (file_of p1 d) srcs ops = Ok (spec_script c (file_of p1 d) srcs ops).
  Proof.
    intros Hs Hp Hmb Ht. exists (fresh p1 d). split; [apply opened_index_is_fresh; assumption|].
    split; [rewrite Hmb; symmetry; apply index_of_file_is_fresh|]. rewrite spec_frames_agree.
    split; [reflexivity|apply script_on_file; exact Ht].
  Qed.
End Open.

(* ---------------------------------------------------------------- a concrete file (non-vacuity) *)
(* two junk bytes, Pose (type 10000, source 0, 2 payload bytes), type 10001 (source 1, 1 payload byte), one junk byte,
   Pose (source 0, 1 payload byte); the stand-in payload-time decoder reads the first payload byte as whole seconds,
   255 meaning "no P1 time" *)
Definition lk_body (ty seq src : N) (payload : list N) : list N :=
  [2; 0; ty; 39]%N ++ le_enc 4 seq ++ le_enc 4 (N.of_nat (length payload)) ++ le_enc 4 src ++ payload.
Definition lk_msg (ty seq src : N) (payload : list N) : list N :=
  [46; 49; 0; 0]%N ++ le_enc 4 (crc32 (lk_body ty seq src payload)) ++ lk_body ty seq src payload.
Definition lk_log : list N := [1; 2]%N ++ lk_msg 16 0 0 [5; 9]%N ++ lk_msg 17 1 1 [255]%N ++ [7]%N ++ lk_msg 16 2 0 [6]%N.
Definition lk_ptime : N -> N -> list N -> option (N * N) :=
  fun _ _ payload => match payload with b :: _ => if N.eqb b 255 then None else Some (b, 1%N) | [] => None end.
Definition lk_p1 := p1_of_ptime lk_ptime.
Definition lk_cfg : cfg := mkCfg None true true true true true false.
Definition lk_R : option trange := Some (mkTR (Some 40) (Some 48) true None).

Lemma lk_log_of : log_of_file lk_p1 lk_log = [mkM 2 26 10000 0 (Some 40); mkM 28 25 10001 1 None; mkM 54 25 10000 0 (Some 48)].
Proof. vm_compute. reflexivity. Qed.

Lemma lk_small : fi_small_msgs 48 lk_log.
Proof. apply FastIndexerLegacyP.small_msgs_by_check. vm_compute. reflexivity. Qed.

Lemma lk_sorted : p1_times_sorted lk_p1 lk_log.
Proof. unfold p1_times_sorted. rewrite lk_log_of. repeat constructor; unfold mtle; cbn; try lia; exact I. Qed.

Lemma lk_t0 : range_has_t0 lk_cfg (file_of lk_p1 lk_log) lk_R.
Proof. right. vm_compute. discriminate. Qed.

Lemma lk_result :
  opened_index 64 48 lk_ptime 2 load None lk_log false = Some (fresh lk_p1 lk_log) /\
  opened_index 64 48 lk_ptime 2 load (saved lk_p1 lk_log) lk_log false = Some (fresh lk_p1 lk_log) /\
  read_log fixed lk_cfg (file_of lk_p1 lk_log) None (Some [10000]) lk_R
  = Ok [(mkM 2 26 10000 0 (Some 40),
         [PHeader (mkM 2 26 10000 0 (Some 40)); PPayload (mkM 2 26 10000 0 (Some 40)); PBytes 2 26; POffset 2; PIndex 0])] /\
  sub lk_log 2 26 = lk_msg 16 0 0 [5; 9]%N.
Proof. split; [vm_compute; reflexivity|]. split; [vm_compute; reflexivity|]. split; vm_compute; reflexivity. Qed.

Lemma lk_hypotheses :
  fi_small_msgs 48 lk_log /\ plausible_index lk_p1 None lk_log /\ c_max_bytes lk_cfg = None /\
  p1_times_sorted lk_p1 lk_log /\ range_has_t0 lk_cfg (file_of lk_p1 lk_log) lk_R.
Proof. split; [exact lk_small|]. split; [exact I|]. split; [reflexivity|]. split; [exact lk_sorted|exact lk_t0]. Qed.
