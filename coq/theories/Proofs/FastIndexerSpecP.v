(* C08: the greedy merge of all valid candidates is the sequential scan; main theorems *)
From Coq Require Import NArith List Bool Arith Lia ZifyBool ZifyNat ZifyN.
From FEC Require Import Generated.FEConsts Generated.FastIndexerConsts Base.ListX Base.Bytes Base.Crc32 Base.Scan Base.FEFormat
  Models.FastIndexerM Proofs.FastIndexerListP Proofs.FastIndexerArithP Proofs.FastIndexerJudgeP Proofs.FastIndexerCandP
  Proofs.FastIndexerBlocksP.
Import ListNotations.
Open Scope N_scope.

Section Spec.
  Variable ptime : N -> N -> list N -> option (N * N).

  (* u4 seconds with 0xFFFFFFFF = none, as _from_raw reads it back, is the SPEC's whole-second time *)
  Lemma time_conv t :
    (if fi_time_raw fi_cur t =? TIME_INVALID then None else Some (fi_time_raw fi_cur t)) = fi_spec_time t.
  Proof.
    unfold fi_time_raw, fi_spec_time. destruct t as [[num den]|]; [|rewrite N.eqb_refl; reflexivity].
    cbn [fi_cur c_timeguard andb].
    destruct (TIME_INVALID <=? num / den) eqn:E.
    - rewrite N.eqb_refl. assert (num / den <? TIME_INVALID = false) as -> by lia. reflexivity.
    - assert (num / den =? TIME_INVALID = false) as -> by lia.
      assert (num / den <? TIME_INVALID = true) as -> by lia. reflexivity.
  Qed.

  Lemma all_cands_cons a t off :
    all_cands ptime (a :: t) off = cand ptime (a :: t) off ++ all_cands ptime t (N.succ off).
  Proof. reflexivity. Qed.

  (* candidates that start before the end of the last kept entry are dropped without changing the state *)
  Lemma greedy_skip : forall l off fin, off <= fin ->
    fi_greedy (all_cands ptime l off) fin = fi_greedy (all_cands ptime (skipn (N.to_nat (fin - off)) l) fin) fin.
  Proof.
    induction l as [|a t IH]; intros off fin H.
    - rewrite skipn_nil. reflexivity.
    - destruct (N.eq_dec off fin) as [->|NE].
      + rewrite N.sub_diag. reflexivity.
      + rewrite all_cands_cons.
        replace (N.to_nat (fin - off)) with (S (N.to_nat (fin - N.succ off))) by lia. cbn [skipn].
        rewrite <- IH by lia. unfold cand. destruct (fi_valid (a :: t)) as [h|]; [|reflexivity].
        cbn [app fi_greedy raw_of r_off]. assert (fin <=? off = false) as -> by lia. reflexivity.
  Qed.

  (* greedy merge of all candidates = the executable scan *)
  Lemma greedy_xscan : forall n fuel, length fuel = n -> forall l off fin k, (length l < n)%nat -> fin <= off ->
    fi_from_raw (fi_greedy (all_cands ptime l off) fin) k = fi_xscan ptime fuel off l k.
  Proof.
    induction n as [|n IH]; intros fuel Hf l off fin k Hl Hfin; [lia|].
    destruct fuel as [|x f]; [discriminate|]. cbn [length] in Hf. cbn [fi_xscan].
    destruct l as [|a t]; [reflexivity|]. rewrite all_cands_cons. unfold cand.
    destruct (fi_valid (a :: t)) as [h|] eqn:V.
    - cbn [app fi_greedy raw_of r_off r_size]. assert (fin <=? off = true) as -> by lia.
      unfold raw_of. cbn [fi_from_raw r_int r_type r_off]. rewrite time_conv. f_equal.
      pose proof (valid_size_le _ _ V) as (Hsz & H24). unfold fi_msize, HEADER_SIZE in *.
      rewrite greedy_skip by lia.
      replace (N.to_nat (off + (24 + h_psize h) - N.succ off)) with (N.to_nat (24 + h_psize h) - 1)%nat by lia.
      assert (E : skipn (N.to_nat (24 + h_psize h) - 1) t = fi_drop (24 + h_psize h) (a :: t)).
      { rewrite fi_drop_skipn. replace (N.to_nat (24 + h_psize h)) with (S (N.to_nat (24 + h_psize h) - 1)) at 2 by lia. reflexivity. }
      rewrite E. apply IH; [lia| |lia].
      rewrite fi_drop_skipn, skipn_length. cbn [length] in *. lia.
    - cbn [app]. apply IH; [lia| |lia]. cbn [length] in Hl. lia.
  Qed.

  (* the executable scan = the SPEC (end-of-file aware scan of Base judge_fe) *)
  Lemma xscan_fscan : forall n fuel, length fuel = n -> forall l off k, (length l < n)%nat ->
    fi_xscan ptime fuel (N.of_nat off) l k = fi_spec_entries ptime (fi_fscan_aux n off l) k.
  Proof.
    induction n as [|n IH]; intros fuel Hf l off k Hl; [lia|].
    destruct fuel as [|x f]; [discriminate|]. cbn [length] in Hf. cbn [fi_xscan fi_fscan_aux].
    destruct l as [|a t].
    - unfold fi_judge. rewrite (j_nil _ (judge_fe_ok false false MAX_EXPECTED_SIZE_BYTES)). reflexivity.
    - destruct (fi_valid (a :: t)) as [h|] eqn:V.
      + pose proof (valid_size_le _ _ V) as (Hsz & H24). destruct (valid_judge _ _ V) as (J & Hh).
        rewrite J. cbn [fi_spec_entries].
        assert (E1 : parse_header (firstn HEADER_SIZE (firstn (fi_msize h) (a :: t))) = h).
        { rewrite firstn_firstn, Nat.min_l by lia. symmetry. exact Hh. }
        rewrite E1. f_equal.
        * f_equal. f_equal. f_equal. rewrite fi_take_firstn, fi_drop_skipn. rewrite skipn_firstn_comm.
          unfold fi_msize, HEADER_SIZE. f_equal; lia.
        * replace (N.of_nat off + (24 + h_psize h)) with (N.of_nat (off + fi_msize h)) by (unfold fi_msize, HEADER_SIZE; lia).
          replace (fi_drop (24 + h_psize h) (a :: t)) with (skipn (fi_msize h) (a :: t))
            by (rewrite fi_drop_skipn; unfold fi_msize, HEADER_SIZE; f_equal; lia).
          apply IH; [lia|]. rewrite skipn_length. cbn [length] in *. unfold HEADER_SIZE in *. lia.
      + pose proof (valid_none_judge _ V) as NJ.
        replace (N.succ (N.of_nat off)) with (N.of_nat (S off)) by lia.
        destruct (fi_judge (a :: t)) as [m| |] eqn:J; [exfalso; eapply NJ; reflexivity| |];
          cbn [tl]; apply IH; try lia; cbn [length] in Hl; lia.
  Qed.

  Theorem spec_x_is_spec file : fi_spec_x ptime file = fi_spec ptime file.
  Proof.
    unfold fi_spec_x, fi_spec, fi_spec_frames.
    apply (xscan_fscan (S (length file)) (0 :: file) eq_refl file 0%nat 0). lia.
  Qed.

  Theorem greedy_all_cands_is_spec file :
    fi_from_raw (fi_greedy (all_cands ptime file 0) 0) 0 = fi_spec ptime file.
  Proof.
    rewrite <- spec_x_is_spec. unfold fi_spec_x.
    apply (greedy_xscan (S (length file)) (0 :: file) eq_refl); lia.
  Qed.

  (* membership through the merge and the final conversion *)
  Lemma greedy_in : forall es fin e, In e (fi_greedy es fin) -> In e es.
  Proof.
    induction es as [|x t IH]; intros fin e H; [destruct H|]. cbn [fi_greedy] in H.
    destruct (fin <=? r_off x); [destruct H as [<-|H]; [left; reflexivity|right; eapply IH; exact H]|right; eapply IH; exact H].
  Qed.

  Lemma from_raw_in : forall es k e, In e (fi_from_raw es k) -> exists r, In r es /\ e_off e = r_off r /\ e_type e = r_type r.
  Proof.
    induction es as [|x t IH]; intros k e H; [destruct H|]. cbn [fi_from_raw] in H. destruct H as [<-|H].
    - exists x. cbn. auto.
    - apply IH in H. destruct H as (r & Hr & Ho). exists r. split; [right; exact Hr|exact Ho].
  Qed.
End Spec.

(* every valid candidate of the file is at most MAX bytes — the property's "each message no larger than the
   indexer's documented limit", stated on Base's acceptance test *)
Definition fi_small_msgs (MAX : N) (file : list N) : Prop :=
  forall j n, fi_judge (skipn j file) = Accept n -> N.of_nat n <= MAX.

Section Main.
  Variables READ MAX : N.
  Hypothesis READ_ge : 2 <= READ.
  Hypothesis READ_even : READ mod 2 = 0.
  Hypothesis MAX_ge : 24 <= MAX.
  Hypothesis MAX_le : MAX <= READ.
  Variable ptime : N -> N -> list N -> option (N * N).

  Lemma small_msgs_valid file : fi_small_msgs MAX file -> small_valid MAX file.
  Proof. intros S j h V. apply valid_judge in V. destruct V as (J & _). apply (S _ _ J). Qed.

  (* MAIN: for every worker count the index is the sequential scan *)
  Theorem index_is_scan file W : 1 <= W -> fi_small_msgs MAX file ->
    fi_generate READ MAX fi_cur ptime file W = FOk (fi_spec ptime file).
  Proof.
    intros HW S.
    rewrite (generate_shape READ MAX READ_ge READ_even MAX_ge MAX_le ptime file W HW).
    rewrite (all_blocks_all_cands READ MAX READ_ge READ_even MAX_ge MAX_le ptime file (small_msgs_valid file S)).
    rewrite greedy_all_cands_is_spec. reflexivity.
  Qed.

  (* totality: whatever the file contains, no exception *)
  Theorem never_raises file W : 1 <= W -> exists es, fi_generate READ MAX fi_cur ptime file W = FOk es.
  Proof. intros HW. eexists. apply (generate_shape READ MAX READ_ge READ_even MAX_ge MAX_le ptime file W HW). Qed.

  (* every entry, whatever the file contains, points at a complete CRC-valid message *)
  Theorem entries_valid file W es : 1 <= W -> fi_generate READ MAX fi_cur ptime file W = FOk es ->
    forall e, In e es -> exists n, fi_judge (skipn (N.to_nat (e_off e)) file) = Accept n.
  Proof.
    intros HW G e He.
    rewrite (generate_shape READ MAX READ_ge READ_even MAX_ge MAX_le ptime file W HW) in G. injection G as <-.
    apply from_raw_in in He. destruct He as (r & Hr & Ho & _). apply greedy_in in Hr.
    apply in_concat in Hr. destruct Hr as (x & Hx & Hr). apply in_map_iff in Hx. destruct Hx as (bo & <- & _).
    unfold bentries in Hr. cbn zeta in Hr.
    destruct (fi_word_count READ MAX fi_cur bo (fi_len (fi_block_data READ MAX file bo))); try (destruct Hr).
    apply candsn_in in Hr. destruct Hr as (j & h & _ & V & Hoff & _ & _).
    rewrite data_firstn, skipn_firstn_comm in V. apply valid_prefix_up in V. rewrite skipn_skipn in V.
    apply valid_judge in V. destruct V as (J & _). exists (fi_msize h).
    rewrite Ho, Hoff. replace (N.to_nat (bo + N.of_nat j)) with (N.to_nat bo + j)%nat by lia. exact J.
  Qed.
End Main.

(* ---- corollaries ---------------------------------------------------------------------------------------- *)
Section Corollaries.
  Variables READ MAX : N.
  Hypothesis READ_ge : 2 <= READ.
  Hypothesis READ_even : READ mod 2 = 0.
  Hypothesis MAX_ge : 24 <= MAX.
  Hypothesis MAX_le : MAX <= READ.
  Variable ptime : N -> N -> list N -> option (N * N).

  Corollary one_worker_is_scan file : fi_small_msgs MAX file ->
    fi_generate READ MAX fi_cur ptime file 1 = FOk (fi_spec ptime file).
  Proof. intros S. apply index_is_scan; try assumption. lia. Qed.

  Corollary index_independent_of_workers file W1 W2 : 1 <= W1 -> 1 <= W2 -> fi_small_msgs MAX file ->
    fi_generate READ MAX fi_cur ptime file W1 = fi_generate READ MAX fi_cur ptime file W2.
  Proof. intros H1 H2 S. rewrite !index_is_scan by assumption. reflexivity. Qed.
End Corollaries.

(* ---- relation to the streaming scanner of Base/Scan.v ------------------------------------------------------ *)
(* Base [scan] stops at the first position it cannot decide (more bytes might arrive); the file scan treats
   the end of the file as final.  Every frame of the streaming scan is a frame of the file scan, in the same
   order, first; they coincide when the undecided residual is shorter than a header. *)
Lemma fscan_short : forall fuel off l, (length l < HEADER_SIZE)%nat -> fi_fscan_aux fuel off l = [].
Proof.
  induction fuel as [|f IH]; intros off l H; [reflexivity|]. cbn [fi_fscan_aux].
  assert (J : fi_judge l = More).
  { unfold fi_judge, judge_fe. cbn [andb]. assert (Nat.ltb (length l) HEADER_SIZE = true) as -> by (apply Nat.ltb_lt; exact H). reflexivity. }
  rewrite J. destruct l as [|a t]; [reflexivity|]. apply IH. cbn [length] in H. lia.
Qed.

Lemma fscan_extends_scan : forall f off l fs off' r,
  scan_aux fi_judge f off l = (fs, (off', r)) ->
  exists rest, fi_fscan_aux f off l = fs ++ rest /\ ((length r < HEADER_SIZE)%nat -> rest = []).
Proof.
  induction f as [|f IH]; intros off l fs off' r E.
  - cbn [scan_aux] in E. injection E as <- <- <-. exists []. split; reflexivity.
  - cbn [scan_aux fi_fscan_aux] in *. destruct (fi_judge l) as [n| |] eqn:J.
    + destruct (scan_aux fi_judge f (off + n) (skipn n l)) as [fs1 st1] eqn:E1. injection E as <- Hst. subst st1.
      destruct (IH _ _ _ _ _ E1) as (rest & R & Hs). exists rest. split; [rewrite R; reflexivity|exact Hs].
    + destruct (IH _ _ _ _ _ E) as (rest & R & Hs). exists rest. split; assumption.
    + inversion E; subst. eexists. split; [reflexivity|]. intros Hs.
      destruct r as [|a t]; [reflexivity|]. apply fscan_short. cbn [length] in Hs. lia.
Qed.

Theorem spec_extends_stream_scan file fs off' r :
  scan fi_judge 0 file = (fs, (off', r)) ->
  exists rest, fi_spec_frames file = fs ++ rest /\ ((length r < HEADER_SIZE)%nat -> rest = []).
Proof. unfold scan, fi_spec_frames. apply fscan_extends_scan. Qed.
