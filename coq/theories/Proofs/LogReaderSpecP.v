(* C10 — consequences of "read = filter": membership characterisation, intersection of filters, file
   order, the shape of the yielded pieces, and the arithmetic of the floor-second time bounds. *)
From Coq Require Import ZArith List Bool Lia ZifyBool Sorted.
From FEC Require Import Generated.LogReaderConsts Models.FileIndexOpsM Models.LogReaderM
  Proofs.FileIndexOpsP Proofs.LogCursorP Proofs.LogReaderInitP Proofs.LogReaderP.
Import ListNotations.
Open Scope Z_scope.
Ltac Zify.zify_post_hook ::= Z.to_euclidean_division_equations.

(* ---------------------------------------------------------------- membership in a selection *)
Lemma spec_select_char kp c : forall l pre m ps,
  In (m, ps) (spec_select_from kp c pre l) <->
  exists p rest, l = p ++ m :: rest /\ kp (pre ++ p) m = true /\ ps = assemble c m (m_off m) (zlen (pre ++ p)).
Proof.
  induction l as [|x l IH]; intros pre m ps; cbn [spec_select_from].
  - split; [intros []|intros [p [rest [H _]]]; destruct p; discriminate].
  - split.
    + intros H. assert (Hcase : (kp pre x = true /\ (x, assemble c x (m_off x) (zlen pre)) = (m, ps)) \/ In (m, ps) (spec_select_from kp c (pre ++ [x]) l)).
      { destruct (kp pre x) eqn:Ek; [destruct H as [H|H]; [left; split; [reflexivity|exact H]|right; exact H]|right; exact H]. }
      destruct Hcase as [[Hk He]|Hin].
      * inversion He; subst. exists [], l. rewrite app_nil_r. repeat split; assumption.
      * apply IH in Hin. destruct Hin as [p [rest [H1 [H2 H3]]]]. exists (x :: p), rest. rewrite <- app_assoc in H2, H3. cbn [app] in *.
        repeat split; [f_equal; exact H1|exact H2|exact H3].
    + intros [p [rest [H1 [H2 H3]]]]. destruct p as [|y p]; cbn [app] in H1; inversion H1; subst.
      * rewrite app_nil_r in *. rewrite H2. left. reflexivity.
      * assert (Hin : In (m, assemble c m (m_off m) (zlen (pre ++ y :: p))) (spec_select_from kp c (pre ++ [y]) (p ++ m :: rest))).
        { apply IH. exists p, rest. rewrite <- app_assoc. cbn [app]. repeat split; assumption. }
        destruct (kp pre y); [right; exact Hin|exact Hin].
Qed.

Lemma subseq_spec_select kp1 kp2 c : forall l pre,
  (forall p m, kp1 p m = true -> kp2 p m = true) -> subseq (spec_select_from kp1 c pre l) (spec_select_from kp2 c pre l).
Proof.
  induction l as [|x l IH]; intros pre H; cbn [spec_select_from]; [constructor|].
  destruct (kp1 pre x) eqn:E1.
  - rewrite (H _ _ E1). apply ss_keep. apply IH. exact H.
  - destruct (kp2 pre x); [apply ss_skip|]; apply IH; exact H.
Qed.

(* in a well-formed log a message occurs at one position only *)
Lemma position_unique (l : list msg) : StronglySorted (fun a b => m_off a < m_off b) l ->
  forall p1 r1 p2 r2 m, l = p1 ++ m :: r1 -> l = p2 ++ m :: r2 -> p1 = p2.
Proof.
  induction l as [|x l IH]; intros Hs p1 r1 p2 r2 m H1 H2; [destruct p1; discriminate|].
  apply StronglySorted_inv in Hs. destruct Hs as [Hs Hf]. rewrite Forall_forall in Hf.
  destruct p1 as [|a p1], p2 as [|b p2]; cbn [app] in H1, H2.
  - reflexivity.
  - exfalso. injection H1 as Hx Hl. injection H2 as Hb Hl2.
    assert (Hin : In m l) by (rewrite Hl2; apply in_or_app; right; left; reflexivity).
    specialize (Hf m Hin). rewrite Hx in Hf. lia.
  - exfalso. injection H1 as Ha Hl. injection H2 as Hx Hl2.
    assert (Hin : In m l) by (rewrite Hl; apply in_or_app; right; left; reflexivity).
    specialize (Hf m Hin). rewrite Hx in Hf. lia.
  - injection H1 as Ha Hl. injection H2 as Hb Hl2. f_equal; [congruence|]. eapply IH; [exact Hs|exact Hl|exact Hl2].
Qed.

Lemma wf_offsets_inc f : wf_file f -> StronglySorted (fun a b => m_off a < m_off b) (f_msgs f).
Proof.
  intros [Hb [_ Hok]]. eapply (sorted_strengthen msg_before (msg_ok (f_size f))); [|exact Hok|exact Hb].
  unfold msg_before, msg_ok. intros a b Ha _ Hab. pose proof header_size_pos. lia.
Qed.

(* ---------------------------------------------------------------- intersection of the four filters *)
Definition no_limit (c : cfg) : cfg := mkCfg None (c_hdr c) (c_pay c) (c_bytes c) (c_offset c) (c_index c) (c_has_range c).

Theorem spec_intersection c f srcs types R : wf_file f -> forall x,
  In x (spec_read c f srcs types R) <->
  In x (spec_read (no_limit c) f None types None) /\ In x (spec_read (no_limit c) f srcs None None) /\
  In x (spec_read c f None None None) /\ In x (spec_read (no_limit c) f None None R).
Proof.
  intros Hwf [m ps]. pose proof (wf_offsets_inc f Hwf) as Hinc. unfold spec_read. rewrite !spec_select_char. cbn [app].
  assert (A : forall a b, assemble (no_limit c) m a b = assemble c m a b) by reflexivity.
  split.
  - intros [p [rest [H1 [H2 H3]]]]. apply andb_prop in H2. destruct H2 as [H2 Ht]. apply andb_prop in H2. destruct H2 as [H2 Hb]. apply andb_prop in H2. destruct H2 as [Hty Hs].
    repeat split; exists p, rest; (split; [exact H1|]); rewrite ?A; (split; [|exact H3]); cbn [norm_types type_ok src_ok bytes_ok exceeds no_limit c_max_bytes spec_window in_time_pos window_ok fst snd negb andb];
      rewrite ?Hty, ?Hs, ?Hb, ?Ht; try reflexivity.
    + unfold in_time_pos, window_ok. cbn [spec_window fst snd]. destruct (e_time (entry_of 0 m)); reflexivity.
    + unfold in_time_pos, window_ok. cbn [spec_window fst snd]. destruct (e_time (entry_of 0 m)); reflexivity.
    + unfold in_time_pos, window_ok. cbn [spec_window fst snd]. destruct (e_time (entry_of 0 m)); reflexivity.
  - intros [[p1 [r1 [A1 [B1 C1]]]] [[p2 [r2 [A2 [B2 _]]]] [[p3 [r3 [A3 [B3 _]]]] [p4 [r4 [A4 [B4 _]]]]]]].
    assert (p2 = p1) by (eapply position_unique; eassumption). assert (p3 = p1) by (eapply position_unique; eassumption).
    assert (p4 = p1) by (eapply position_unique; eassumption). subst p2 p3 p4.
    exists p1, r1. split; [exact A1|]. split; [|rewrite A in C1; exact C1].
    cbn [norm_types type_ok src_ok bytes_ok exceeds no_limit c_max_bytes negb andb] in B1, B2, B3, B4.
    apply andb_prop in B1. destruct B1 as [B1 _]. apply andb_prop in B1. destruct B1 as [B1 _]. rewrite andb_true_r in B1.
    apply andb_prop in B2. destruct B2 as [B2 _]. rewrite andb_true_r in B2.
    apply andb_prop in B3. destruct B3 as [B3 _].
    cbn [norm_types type_ok src_ok] in B3.
    rewrite B1, B2. cbn [andb]. cbn [andb] in B3. rewrite B3. cbn [andb]. exact B4.
Qed.

Theorem spec_in_file_order c f srcs types R :
  subseq (spec_read c f srcs types R) (spec_read (no_limit c) f None None None).
Proof.
  unfold spec_read. rewrite (spec_select_cfg _ (no_limit c) c) by reflexivity.
  apply subseq_spec_select. intros p m _. cbn [norm_types type_ok src_ok bytes_ok exceeds no_limit c_max_bytes negb andb spec_window].
  unfold in_time_pos, window_ok. cbn [fst snd]. destruct (e_time (entry_of 0 m)); reflexivity.
Qed.

(* the unfiltered read is the whole log *)
Lemma spec_unfiltered c f : map fst (spec_read (no_limit c) f None None None) = f_msgs f.
Proof.
  unfold spec_read. cbn [norm_types spec_window]. generalize (@nil msg).
  induction (f_msgs f) as [|m l IH]; intros pre; cbn [spec_select_from map]; [reflexivity|].
  replace (type_ok None m && src_ok None m && bytes_ok (c_max_bytes (no_limit c)) m && in_time_pos (None, None) pre m) with true.
  - cbn [map fst]. f_equal. apply IH.
  - cbn. unfold in_time_pos, window_ok. cbn [fst snd]. destruct (e_time (entry_of 0 m)); reflexivity.
Qed.

(* ---------------------------------------------------------------- pieces *)
Definition select5 {A} (fl : bool * bool * bool * bool * bool) (l : list A) : list A :=
  let '(h, p, b, o, i) := fl in
  match l with
  | [x1; x2; x3; x4; x5] => (if h then [x1] else []) ++ (if p then [x2] else []) ++ (if b then [x3] else []) ++ (if o then [x4] else []) ++ (if i then [x5] else [])
  | _ => []
  end.
Definition flags_of (c : cfg) := (c_hdr c, c_pay c, c_bytes c, c_offset c, c_index c).
Definition nflags (c : cfg) : nat := Nat.b2n (c_hdr c) + Nat.b2n (c_pay c) + Nat.b2n (c_bytes c) + Nat.b2n (c_offset c) + Nat.b2n (c_index c).

Theorem spec_pieces c f srcs types R m ps :
  In (m, ps) (spec_read c f srcs types R) ->
  exists pre rest, f_msgs f = pre ++ m :: rest /\
    ps = select5 (flags_of c) [PHeader m; PPayload m; PBytes (m_off m) (m_size m); POffset (m_off m); PIndex (zlen pre)] /\
    length ps = nflags c.
Proof.
  unfold spec_read. rewrite spec_select_char. cbn [app]. intros [p [rest [H1 [_ H3]]]]. exists p, rest. split; [exact H1|].
  subst ps. unfold assemble, select5, flags_of, nflags. split; [reflexivity|].
  destruct (c_hdr c), (c_pay c), (c_bytes c), (c_offset c), (c_index c); reflexivity.
Qed.

(* ---------------------------------------------------------------- time bounds *)
Definition timed_in_window (w : option Z * option Z) (t : Z) : bool :=
  (match fst w with None => true | Some lo => lo <=? t / 8 end) &&
  (match snd w with None => true | Some hi => negb (hi <=? 8 * (t / 8)) end).

Lemma in_time_pos_timed w pre m t : m_time m = Some t -> in_time_pos w pre m = timed_in_window w t.
Proof. intros H. unfold in_time_pos, window_ok, timed_in_window. cbn [entry_of e_time]. rewrite H. reflexivity. Qed.

(* the origin a relative range is *meant* to be relative to: the caller's t0, else the first P1 time of the log *)
Definition true_t0 (msgs : list msg) (r : trange) : Z :=
  if tr_abs r then 0 else match tr_t0 r with Some t => t | None => match first_msg_time msgs with Some t => t | None => 0 end end.
Definition in_interval (t0 : Z) (r : trange) (t : Z) : bool :=
  (match tr_start r with None => true | Some s => t0 + s <=? t end) && (match tr_end r with None => true | Some e => t <? t0 + e end).
Definition whole (x : Z) : Prop := x mod 8 = 0.
Definition whole_o (x : option Z) : Prop := match x with Some v => whole v | None => True end.

Lemma spec_window_t0 msgs r :
  exists t0f, true_t0 msgs r - 8 < t0f <= true_t0 msgs r /\ (whole (true_t0 msgs r) -> t0f = true_t0 msgs r) /\
    spec_window msgs (Some r) = (match tr_start r with Some s => Some ((t0f + s) / 8) | None => None end,
                                 match tr_end r with Some e => Some (t0f + e) | None => None end).
Proof.
  unfold spec_window, true_t0, whole. destruct (tr_abs r); [exists 0; split; [lia|split; [lia|reflexivity]]|].
  destruct (tr_t0 r) as [t|]; [exists t; split; [lia|split; [lia|reflexivity]]|].
  destruct (first_msg_time msgs) as [t|]; [exists (8 * (t / 8)); split; [lia|split; [lia|reflexivity]]|exists 0; split; [lia|split; [lia|reflexivity]]].
Qed.

Theorem time_bounds_exact_thm msgs r t :
  whole (true_t0 msgs r) -> whole_o (tr_start r) -> whole_o (tr_end r) ->
  timed_in_window (spec_window msgs (Some r)) t = in_interval (true_t0 msgs r) r t.
Proof.
  intros H0 Hs He. destruct (spec_window_t0 msgs r) as [t0f [_ [Hw Heq]]]. rewrite Heq. rewrite (Hw H0).
  unfold timed_in_window, in_interval, whole, whole_o in *. cbn [fst snd].
  destruct (tr_start r) as [s|], (tr_end r) as [e|]; cbn [andb]; unfold whole in *; lia.
Qed.

Theorem time_bounds_slack_thm msgs r t :
  (* nothing 2 s or more outside the requested interval is admitted *)
  (timed_in_window (spec_window msgs (Some r)) t = true ->
     (match tr_start r with Some s => true_t0 msgs r + s - 16 < t | None => True end) /\
     (match tr_end r with Some e => t < true_t0 msgs r + e + 16 | None => True end)) /\
  (* nothing 1 s or more inside it is omitted *)
  ((match tr_start r with Some s => true_t0 msgs r + s + 8 <= t | None => True end) ->
   (match tr_end r with Some e => t < true_t0 msgs r + e - 8 | None => True end) ->
   timed_in_window (spec_window msgs (Some r)) t = true).
Proof.
  destruct (spec_window_t0 msgs r) as [t0f [Hr [_ Heq]]]. rewrite Heq.
  unfold timed_in_window. cbn [fst snd].
  destruct (tr_start r) as [s|], (tr_end r) as [e|]; cbn [andb]; split; try (intros H; split; try exact I; lia); intros; lia.
Qed.

(* ---------------------------------------------------------------- model-level corollaries *)
Lemma t0_without_limit c f R : wf_file f -> range_has_t0 c f R -> range_has_t0 (no_limit c) f R.
Proof.
  intros Hwf [H|H]; [left; exact H|right]. cbn [no_limit c_max_bytes].
  rewrite (index_t0 f (c_max_bytes c) Hwf H) in H.
  cbn [index_of_file mk_index fi_t0 index_limit below].
  replace (filter (fun _ : entry => true) (entries_from 0 (f_msgs f))) with (entries_from 0 (f_msgs f)).
  - rewrite first_time_entries. exact H.
  - induction (entries_from 0 (f_msgs f)) as [|x l IH]; cbn [filter]; congruence.
Qed.

Theorem unfiltered_is_log c f : wf_file f ->
  exists l, read_log fixed (no_limit c) f None None None = Ok l /\ map fst l = f_msgs f.
Proof.
  intros Hwf. exists (spec_read (no_limit c) f None None None). split; [|apply spec_unfiltered].
  apply read_is_filter_thm; [exact Hwf|left; exact I].
Qed.

Theorem combined_is_intersection_thm c f srcs types R :
  wf_file f -> range_has_t0 c f R ->
  exists l lt ls lb lr lu,
    read_log fixed c f srcs types R = Ok l /\
    read_log fixed (no_limit c) f None types None = Ok lt /\
    read_log fixed (no_limit c) f srcs None None = Ok ls /\
    read_log fixed c f None None None = Ok lb /\
    read_log fixed (no_limit c) f None None R = Ok lr /\
    read_log fixed (no_limit c) f None None None = Ok lu /\
    (forall x, In x l <-> In x lt /\ In x ls /\ In x lb /\ In x lr) /\
    subseq l lu /\ map fst lu = f_msgs f.
Proof.
  intros Hwf Ht.
  exists (spec_read c f srcs types R), (spec_read (no_limit c) f None types None), (spec_read (no_limit c) f srcs None None),
         (spec_read c f None None None), (spec_read (no_limit c) f None None R), (spec_read (no_limit c) f None None None).
  split; [apply read_is_filter_thm; assumption|].
  split; [apply read_is_filter_thm; [exact Hwf|left; exact I]|].
  split; [apply read_is_filter_thm; [exact Hwf|left; exact I]|].
  split; [apply read_is_filter_thm; [exact Hwf|left; exact I]|].
  split; [apply read_is_filter_thm; [exact Hwf|apply t0_without_limit; assumption]|].
  split; [apply read_is_filter_thm; [exact Hwf|left; exact I]|].
  split; [apply spec_intersection; exact Hwf|]. split; [apply spec_in_file_order|apply spec_unfiltered].
Qed.

Theorem result_pieces_thm c f srcs types R :
  wf_file f -> range_has_t0 c f R ->
  exists l, read_log fixed c f srcs types R = Ok l /\
    forall m ps, In (m, ps) l ->
      exists pre rest, f_msgs f = pre ++ m :: rest /\
        ps = select5 (flags_of c) [PHeader m; PPayload m; PBytes (m_off m) (m_size m); POffset (m_off m); PIndex (zlen pre)] /\
        length ps = nflags c.
Proof.
  intros Hwf Ht. exists (spec_read c f srcs types R). split; [apply read_is_filter_thm; assumption|].
  intros m ps. apply spec_pieces.
Qed.

(* time bounds for the timed messages of the selection *)
Theorem time_bounds_thm msgs r pre m t :
  m_time m = Some t ->
  (whole (true_t0 msgs r) -> whole_o (tr_start r) -> whole_o (tr_end r) ->
     in_time_pos (spec_window msgs (Some r)) pre m = in_interval (true_t0 msgs r) r t) /\
  (in_time_pos (spec_window msgs (Some r)) pre m = true ->
     (match tr_start r with Some s => true_t0 msgs r + s - 16 < t | None => True end) /\
     (match tr_end r with Some e => t < true_t0 msgs r + e + 16 | None => True end)) /\
  ((match tr_start r with Some s => true_t0 msgs r + s + 8 <= t | None => True end) ->
   (match tr_end r with Some e => t < true_t0 msgs r + e - 8 | None => True end) ->
   in_time_pos (spec_window msgs (Some r)) pre m = true).
Proof.
  intros Hm. rewrite (in_time_pos_timed _ pre m t Hm). split; [apply time_bounds_exact_thm|apply time_bounds_slack_thm].
Qed.

(* a range lying entirely after the P1 times of the log selects nothing; so does a range with a start
   lying entirely before them (with an open start the untimed messages that precede every P1 time
   are selected, as documented for TimeRange) *)
Theorem range_outside_thm msgs w pre m rest :
  msgs = pre ++ m :: rest ->
  ((exists L, fst w = Some L /\ forall x t, In x msgs -> m_time x = Some t -> t / 8 < L) \/
   (exists L H, fst w = Some L /\ snd w = Some H /\ forall x t, In x msgs -> m_time x = Some t -> H <= 8 * (t / 8))) ->
  in_time_pos w pre m = false.
Proof.
  intros Hm Hcase. unfold in_time_pos, window_ok, started_before, ended_before. cbn [entry_of e_time].
  assert (Hpre : forall x, In x pre -> In x msgs) by (intros x Hx; rewrite Hm; apply in_or_app; left; exact Hx).
  assert (Hmm : In m msgs) by (rewrite Hm; apply in_or_app; right; left; reflexivity).
  destruct Hcase as [[L [HL Hall]]|[L [H [HL [HH Hall]]]]].
  - rewrite HL. destruct (m_time m) as [t|] eqn:Em.
    + specialize (Hall m t Hmm Em). replace (L <=? t / 8) with false by lia. reflexivity.
    + replace (existsb (time_ge_s L) (map (entry_of 0) pre)) with false; [reflexivity|].
      symmetry. apply not_true_is_false. intros Hex. apply existsb_exists in Hex. destruct Hex as [e [He Hge]].
      apply in_map_iff in He. destruct He as [x [<- Hx]]. unfold time_ge_s in Hge. cbn [entry_of e_time] in Hge.
      destruct (m_time x) as [t|] eqn:Ex; [|discriminate]. specialize (Hall x t (Hpre x Hx) Ex). lia.
  - rewrite HL, HH. destruct (m_time m) as [t|] eqn:Em.
    + specialize (Hall m t Hmm Em). replace (H <=? 8 * (t / 8)) with true by lia. apply andb_false_r.
    + destruct (existsb (time_ge_s L) (map (entry_of 0) pre)) eqn:Es; [|reflexivity]. cbn [andb].
      apply existsb_exists in Es. destruct Es as [e [He Hge]]. apply in_map_iff in He. destruct He as [x [<- Hx]].
      unfold time_ge_s in Hge. cbn [entry_of e_time] in Hge. destruct (m_time x) as [t|] eqn:Ex; [|discriminate].
      specialize (Hall x t (Hpre x Hx) Ex).
      replace (existsb (time_ge_8 H) (map (entry_of 0) pre)) with true; [reflexivity|].
      symmetry. apply existsb_exists. exists (entry_of 0 x). split; [apply in_map; exact Hx|]. unfold time_ge_8. cbn [entry_of e_time]. rewrite Ex. lia.
Qed.
